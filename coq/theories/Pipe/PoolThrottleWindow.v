(* Throttling, the sliding window: between two points s1, s2 of one run with  now s2 < now s1 + interval
   and no cancel, the consumer receives at most  ops + cap(ctl) + 1 + cap(out)  elements
   ( = 2*ops + 1 + c for the channels pipe.Throttling makes: ctl := make(chan struct{}, ops),
   out := make(chan A, cap(in)) ), for ANY way the virtual clock advances.

   Two independent arguments:
   (1) [window_tokens]: the pacer pushes at most ops tokens between s1 and s2.  Relative to t0 = now s1 the pacer
       has a budget: the pushes it can still make before it has to sit out a sleep that STARTS at or after t0 -
       such a sleep ends at >= t0 + interval, outside the window.  [winv]: tokens + budget <= tokens s1 + ops.
   (2) [G_exec]: before cancel, (made + hold) grows only by taking a token out of the token channel:
       G s2 - G s1 <= |rcvd s2 1| - |rcvd s1 1|.  (Stated as a difference of two states: the environment of
       the Pool machine may receive from any output, also from the token channel, so |rcvd s 1| can be larger
       than made + hold; only the increments are related.)
   Then  delivered s2 <= G s2 <= G s1 + (tokens s2 - tokens s1) + |ctl buffer at s1|
                      <= delivered s1 + |out buffer at s1| + hold s1 + ops + cap(ctl).
   An unbuffered output (c = 0) never has a buffered element in this machine (a rendezvous moves the value from
   the sender's hand to the receiver), so the element in the data goroutine's hand is counted once: 2*ops+1+0.

   Half-open window.  s1 ranges over all reachable states, in particular the state just before the first delivery
   of a window, so this is the window [t, t + interval).  The closed window [t, t + interval] is NOT bounded by
   2*ops+1+c: a pacer that wakes at t pushes ops tokens, sleeps until exactly t + interval and pushes ops more
   at that instant; [closed_window_refuted] is such a run (4 deliveries, bound 3).  [window_bound_tight] shows the
   bound is attained in the half-open window (even with now s2 = now s1). *)
From Coq Require Import List ZArith NArith Bool Arith PeanoNat Lia.
From Golem Require Import Base.Lists Pipe.Pool Pipe.Stages Pipe.PoolEffects Pipe.PoolSteps Pipe.PoolInv Pipe.PoolInv2
     Pipe.PoolSafe Pipe.PoolStop Pipe.PoolLive Pipe.PoolSimple Pipe.PoolActs Pipe.PoolSeq Pipe.PoolErr Pipe.PoolThrottle
     Pipe.PoolThrottleRate Pipe.PoolStepCases Pipe.PoolVariant Pipe.PoolThrottleDeliver.
Import ListNotations.
Open Scope nat_scope.

(* ---------- generic facts of the Pool machine ---------- *)
Section Generic.
Variable c : cfg.

(* the clock never goes back *)
Lemma step_now s e s' : step c s e = Some s' -> (now s <= now s')%N.
Proof.
  intros Hs. destruct (step_effect c s e s' Hs) as [_ He].
  destruct He as [i x Hi Hcl | i Hi Hcl | k t v rest Hb | k v w eof a rest Hb Hcap Hcl Hw Hc Hs0 | | | w s'' Hw He
                 | w a todo Hw Hc | Hcl Had Hcd | t Ht]; simpl; try lia.
  - destruct (weffect_frame c s w s'' He) as (_ & Hn & _). lia.
  - destruct (close_all_frame s (closes c)) as (_ & _ & _ & _ & Hn & _). cbv zeta in Hn. rewrite Hn. lia.
Qed.

(* cancel is for ever *)
Lemma step_cancelled s e s' : step c s e = Some s' -> cancelled s = true -> cancelled s' = true.
Proof.
  intros Hs Hcn. destruct (step_effect c s e s' Hs) as [_ He].
  destruct He as [i x Hi Hcl | i Hi Hcl | k t v rest Hb | k v w eof a rest Hb Hcap Hcl Hw Hc Hs0 | | | w s'' Hw He
                 | w a todo Hw Hc | Hcl Had Hcd | t Ht]; simpl; auto.
  - destruct (weffect_frame c s w s'' He) as (Hc' & _ & _). congruence.
  - destruct (close_all_frame s (closes c)) as (_ & _ & Hc' & _). cbv zeta in Hc'. congruence.
Qed.

Lemma step_not_cancelled s e s' : step c s e = Some s' -> cancelled s' = false -> cancelled s = false.
Proof.
  intros Hs Hcn. destruct (cancelled s) eqn:E; auto. rewrite (step_cancelled s e s' Hs E) in Hcn. discriminate.
Qed.

Lemma exec_from_reachable s tr s' : reachable c s -> exec_from c s tr = Some s' -> reachable c s'.
Proof.
  intros Hr. apply (exec_from_inv c (reachable c)); auto. intros s0 e s1 H0 Hs. eapply reachable_step; eauto.
Qed.

Lemma exec_from_now s tr s' : exec_from c s tr = Some s' -> (now s <= now s')%N.
Proof.
  apply (exec_from_inv c (fun x => (now s <= now x)%N)); [|lia].
  intros s0 e s1 H0 Hs. pose proof (step_now s0 e s1 Hs). lia.
Qed.

(* induction over the second half of a run, with reachability at hand *)
Lemma exec_from_inv_reach (P : state -> Prop) :
  (forall s e s', reachable c s -> P s -> step c s e = Some s' -> P s') ->
  forall tr s s', reachable c s -> P s -> exec_from c s tr = Some s' -> P s'.
Proof.
  intros Hstep tr s s' Hr Hp Hex.
  assert (H : reachable c s' /\ P s'); [|tauto].
  revert Hex. apply (exec_from_inv c (fun x => reachable c x /\ P x)); [|tauto].
  intros s0 e s1 [H0 H1] Hs. split; [eapply reachable_step; eauto|eapply Hstep; eauto].
Qed.

(* a buffer never holds more than its capacity *)
Definition bufs_ok (s : state) : Prop := forall k, length (cbuf (outs s k)) <= ccap (outs s k).

Lemma bufs_same s s' :
  (forall k, cbuf (outs s' k) = cbuf (outs s k)) -> (forall k, ccap (outs s' k) = ccap (outs s k)) -> bufs_ok s -> bufs_ok s'.
Proof. intros H1 H2 HI k. rewrite H1, H2. apply HI. Qed.

Lemma bufs_pop s k (o : nat -> chan) :
  o = upd (outs s) k (pop (outs s k)) -> bufs_ok s -> forall k', length (cbuf (o k')) <= ccap (o k').
Proof.
  intros -> HI k'. specialize (HI k'). destruct (Nat.eq_dec k' k) as [->|Hne]; upd_simpl; auto.
  simpl. destruct (cbuf (outs s k)); simpl in *; lia.
Qed.

Lemma bufs_finish s w d : bufs_ok s -> bufs_ok (finish c s w d).
Proof.
  intros HI. unfold finish. destruct (closer c); [exact HI|].
  set (s1 := set_w s w _).
  destruct (close_all_frame s1 (wcloses c w)) as (_ & _ & _ & _ & _ & _ & _ & _ & Hb & Hcp). cbv zeta in Hb, Hcp.
  intros k. rewrite Hb, Hcp. apply HI.
Qed.

Lemma bufs_push s w ch s' eof a k v rest :
  step_worker c s w ch = Some s' -> wc (ws s w) = WRun eof (a :: rest) -> sends_on a k v -> bufs_ok s -> bufs_ok s'.
Proof.
  intros Hsw Hc Hs HI.
  destruct (step_worker_room c s w ch s' eof a k v rest Hsw Hc Hs) as [(Hroom & _ & ->)|[->| ->]].
  - intros k'. simpl. specialize (HI k'). destruct (Nat.eq_dec k' k) as [->|Hne]; upd_simpl; auto.
    simpl. rewrite app_length. simpl. unfold has_room in Hroom. apply Nat.ltb_lt in Hroom. lia.
  - exact HI.
  - apply bufs_finish. exact HI.
Qed.

Theorem bufs_reachable s : reachable c s -> bufs_ok s.
Proof.
  apply reachable_inv; [intros k; simpl; lia|].
  intros s0 e s' HI Hs.
  destruct (step_cases c s0 e s' Hs) as [_ [(w & ch & -> & Hw & Hsw)|He]].
  - pose proof (step_worker_effect c s0 w ch s' Hsw) as He.
    destruct He as [i a t rest Hsrc Hc Hb | Hsrc Hc | i Hsrc Hc Hb Hcl | ctl' Hcn Hdue Hsl Hsls
                   | eof a k0 v rest Hc Hs0 Hcl | eof k0 t r rest Hc Hb | dropped Hp Hnd Hnr Hnc Hwhy
                   | eof a k0 v rest Hc Hs0 Hcl]; try exact HI.
    + eapply bufs_push; eauto.
    + intros k'. simpl. eapply bufs_pop; eauto.
    + apply bufs_finish. exact HI.
  - destruct He as [i x Hi Hcl | i Hi Hcl | k t v rest Hb | k v w eof a rest Hb Hcap Hcl Hw Hc Hs0 | |
                   | w a todo Hw Hc | Hcl Had Hcd | t Ht]; try exact HI.
    + intros k'. simpl. eapply bufs_pop; eauto.
    + destruct (close_all_frame s0 (closes c)) as (_ & _ & _ & _ & _ & _ & _ & _ & Hb & Hcp). cbv zeta in Hb, Hcp.
      intros k. simpl. rewrite Hb, Hcp. apply HI.
Qed.

End Generic.

(* ---------- (1) at most ops tokens are pushed in a window ---------- *)
Section WindowTokens.
Variables (ops : nat) (interval : N) (icaps ocaps : list nat).
Let c := throttle_stage ops interval icaps ocaps.
Variables (t0 : N) (K : nat).

(* pushes the pacer can still make before it must sit out a sleep that starts at or after t0 *)
Definition budget (ctl : wctl) : nat :=
  match ctl with
  | WRecv => ops
  | WRun _ [] => ops
  | WRun _ (_ :: r) => length r
  | WSleep u _ _ _ => if (u <? t0 + interval)%N then ops else 0
  | _ => 0
  end.

Lemma length_pushes m : length (pushes interval m) = S m.
Proof. unfold pushes. rewrite app_length, repeat_length. simpl. lia. Qed.

Lemma budget_pushes m : budget (WRun false (pushes interval m)) = m.
Proof.
  destruct m as [|m]; [reflexivity|]. rewrite pushes_S. cbn [budget]. rewrite length_pushes. reflexivity.
Qed.

Definition winv (s : state) : Prop :=
  (t0 <= now s)%N /\ ((now s < t0 + interval)%N -> tokens s + budget (wc (ws s 0)) <= K).

Lemma winv_frame s s' :
  ws s' 0 = ws s 0 -> tokens s' = tokens s -> (now s <= now s')%N -> winv s -> winv s'.
Proof.
  intros Hw Ht Hn [I1 I2]. split; [lia|]. intros Hlt. rewrite Hw, Ht. apply I2. lia.
Qed.

(* the pacer's control changes, tokens grow by d, the clock stands *)
Lemma winv_pacer s s' d :
  now s' = now s -> tokens s' = tokens s + d ->
  ((now s < t0 + interval)%N -> d + budget (wc (ws s' 0)) <= budget (wc (ws s 0))) ->
  winv s -> winv s'.
Proof.
  intros Hn Ht Hb [I1 I2]. split; [lia|]. intros Hlt. rewrite Hn in Hlt. specialize (I2 Hlt). specialize (Hb Hlt). lia.
Qed.

Theorem winv_step s e s' : reachable c s -> winv s -> step c s e = Some s' -> winv s'.
Proof.
  intros Hr HI Hs. pose proof (pinv_reachable ops interval icaps ocaps s Hr) as HP.
  destruct (step_effect c s e s' Hs) as [_ He].
  destruct He as [i x Hi Hcl | i Hi Hcl | k t v rest Hb | k v w eof a rest Hb Hcap Hcl Hw Hc Hs0 | | | w s'' Hw He
                 | w a todo Hw Hc | Hcl Had Hcd | t Ht].
  - apply winv_frame with s; simpl; auto. lia.
  - apply winv_frame with s; simpl; auto. lia.
  - apply winv_frame with s; simpl; auto; [|lia]. unfold tokens at 1. simpl. apply (tokens_move ops s k (t, v) rest Hb).
  - (* rendezvous *)
    destruct (Nat.eq_dec w 0) as [->|Hne].
    + destruct HP as [Hc' H1 H2|m Hc' Hm H0 H1 H2|u Hc' H0 H1 H2 H3|Hc' H1 H2|Hc' H1 H2]; try congruence.
      rewrite Hc in Hc'. inversion Hc' as [[E1 E2]]. destruct m as [|m].
      * exfalso. unfold pushes in E2. simpl in E2. inversion E2; subst. destruct Hs0 as [Hx|Hx]; discriminate.
      * rewrite pushes_S in E2. inversion E2; subst. destruct Hs0 as [Hx|Hx]; inversion Hx; subst.
        apply (winv_pacer s _ 1); auto.
        -- unfold tokens. simpl. upd_simpl. rewrite app_length. simpl. lia.
        -- intros _. simpl ws. upd_simpl. rewrite Hc. cbn [wc with_ctl]. rewrite budget_pushes.
           cbn [budget]. rewrite length_pushes. lia.
    + assert (k = 0) by (eapply (data_sends_out ops interval icaps ocaps); eauto). subst k.
      apply winv_frame with s; simpl; upd_simpl; auto; try lia.
  - exact HI.
  - apply winv_frame with s; simpl; auto. lia.
  - destruct (Nat.eq_dec w 0) as [->|Hne].
    + (* the pacer moves *)
      destruct He as [i a t rest Hsrc Hc Hb | Hsrc Hc | i Hsrc Hc Hb Hcl | ctl' Hcn Hdue Hsl Hsls
                     | eof a k0 v rest Hc Hs0 Hcl | eof k0 t r rest Hc Hb | dropped Hp Hnd Hnr Hnc Hwhy | eof a k0 v rest Hc Hs0 Hcl].
      * simpl in Hsrc. discriminate.
      * (* a new batch: budget ops -> ops *)
        apply (winv_pacer s _ 0); auto.
        intros _. simpl ws. upd_simpl. rewrite Hc.
        change (wc (take c s 0 0%Z)) with (WRun false (pushes interval ops)). rewrite budget_pushes. simpl. lia.
      * simpl in Hsrc. discriminate.
      * (* silent control change *)
        apply (winv_pacer s _ 0); auto.
        intros Hlt. simpl ws. upd_simpl. cbn [wc with_ctl]. destruct HI as [I1 _].
        destruct HP as [Hc' H1 H2|m Hc' Hm H0 H1 H2|u Hc' H0 H1 H2 H3|Hc' H1 H2|Hc' H1 H2].
        -- rewrite Hc' in Hcn. inversion Hcn.
        -- destruct m as [|m].
           ++ (* going to sleep at now s >= t0: the timer ends outside the window *)
              rewrite (Hsls false interval [] Hc'). cbn [budget].
              assert (E : (now s + interval <? t0 + interval)%N = false) by (apply N.ltb_ge; lia).
              rewrite E. lia.
           ++ exfalso. rewrite Hc', pushes_S in Hcn.
              inversion Hcn as [|? ? ? Hsk|? ? ? ? ? Hsk|]; subst.
              ** destruct Hsk as [Hx|[[x Hx]|[[d Hx]|[d Hx]]]]; discriminate.
              ** destruct Hsk as [[d Hx]|[d Hx]]; discriminate.
        -- (* a timer fires inside the window: it was set before the window *)
           rewrite Hc' in Hcn. inversion Hcn; subst. pose proof (Hdue u true false [] Hc') as Hd.
           rewrite Hc'. cbn [budget].
           assert (E : (u <? t0 + interval)%N = true) by (apply N.ltb_lt; lia).
           rewrite E. lia.
        -- rewrite Hc' in Hcn. inversion Hcn as [E1 E2| | |]; subst. rewrite Hc'. simpl. lia.
        -- rewrite Hc' in Hcn. inversion Hcn.
      * (* a token is pushed *)
        destruct HP as [Hc' H1 H2|m Hc' Hm H0 H1 H2|u Hc' H0 H1 H2 H3|Hc' H1 H2|Hc' H1 H2]; try congruence.
        rewrite Hc in Hc'. inversion Hc' as [[E1 E2]]. destruct m as [|m].
        -- exfalso. unfold pushes in E2. simpl in E2. inversion E2; subst. destruct Hs0 as [Hx|Hx]; discriminate.
        -- rewrite pushes_S in E2. inversion E2; subst. destruct Hs0 as [Hx|Hx]; inversion Hx; subst.
           apply (winv_pacer s _ 1); auto.
           ++ unfold tokens. simpl. upd_simpl. simpl. rewrite app_length. simpl. lia.
           ++ intros _. simpl ws. upd_simpl. rewrite Hc. cbn [wc with_ctl]. rewrite budget_pushes.
              cbn [budget]. rewrite length_pushes. lia.
      * (* the pacer never takes tokens *)
        exfalso. eapply (pacer_not_tok ops interval icaps ocaps); eauto.
      * (* the pacer returns *)
        destruct (finish_frame c s 0 dropped) as (F1 & F2 & _).
        destruct (finish_fields c s 0 dropped) as (_ & _ & F3).
        apply (winv_pacer s _ 0); auto; [lia|].
        intros _. rewrite F3. upd_simpl. simpl. lia.
      * apply winv_frame with s; simpl; auto. lia.
    + (* the data goroutine moves: the pacer's record is untouched, tokens only move *)
      destruct He as [i a t rest Hsrc Hc Hb | Hsrc Hc | i Hsrc Hc Hb Hcl | ctl' Hcn Hdue Hsl Hsls
                     | eof a k0 v rest Hc Hs0 Hcl | eof k0 t r rest Hc Hb | dropped Hp Hnd Hnr Hnc Hwhy | eof a k0 v rest Hc Hs0 Hcl];
        try (apply winv_frame with s; simpl; upd_simpl; auto; lia).
      * assert (k0 = 0) by (eapply (data_sends_out ops interval icaps ocaps); eauto). subst k0.
        apply winv_frame with s; simpl; upd_simpl; auto. lia.
      * apply winv_frame with s; simpl; upd_simpl; auto; [|lia]. unfold tokens at 1. simpl. apply (tokens_move ops s k0 t r Hb).
      * destruct (finish_frame c s w dropped) as (F1 & F2 & F3).
        apply winv_frame with s; auto; try lia.
  - destruct (Nat.eq_dec w 0) as [->|Hne].
    + destruct HP as [Hc' H1 H2|m Hc' Hm H0 H1 H2|u Hc' H0 H1 H2 H3|Hc' H1 H2|Hc' H1 H2]; congruence.
    + apply winv_frame with s; simpl; upd_simpl; auto. lia.
  - simpl in Hcl. discriminate.
  - apply winv_frame with s; simpl; auto. lia.
Qed.

End WindowTokens.

Section Window.
Variables (ops : nat) (interval : N) (icaps ocaps : list nat).
Let c := throttle_stage ops interval icaps ocaps.

Lemma budget_le_ops t0 s : reachable c s -> budget ops interval t0 (wc (ws s 0)) <= ops.
Proof.
  intros Hr.
  destruct (pinv_reachable ops interval icaps ocaps s Hr) as [Hc' H1 H2|m Hc' Hm H0 H1 H2|u Hc' H0 H1 H2 H3|Hc' H1 H2|Hc' H1 H2];
    rewrite Hc'.
  - simpl. lia.
  - rewrite budget_pushes. exact Hm.
  - cbn [budget]. destruct (u <? t0 + interval)%N; lia.
  - simpl. lia.
  - simpl. lia.
Qed.

(* TOKENS_WINDOW: between two points of a run less than interval apart the pacer pushes at most ops tokens
   (cancelled or not, whatever the clock does) *)
Theorem window_tokens s1 tr s2 :
  reachable c s1 -> exec_from c s1 tr = Some s2 -> (now s2 < now s1 + interval)%N -> tokens s2 <= tokens s1 + ops.
Proof.
  intros Hr Hex Hlt.
  assert (HW : winv ops interval (now s1) (tokens s1 + ops) s2).
  { apply (exec_from_inv_reach c (winv ops interval (now s1) (tokens s1 + ops))) with (tr := tr) (s := s1); auto.
    - intros s e s' Hrs HI Hs. eapply winv_step; eauto.
    - split; [lia|]. intros _. pose proof (budget_le_ops (now s1) s1 Hr). lia. }
  destruct HW as [_ HW]. specialize (HW Hlt). lia.
Qed.

(* ---------- (2) before cancel, made + hold grows only by taking tokens ---------- *)
Definition G (s : state) : nat := made s + hold s.

Lemma G_frame s s' :
  wc (ws s' 1) = wc (ws s 1) -> made s' = made s -> length (rcvd s 1) <= length (rcvd s' 1) ->
  G s' + length (rcvd s 1) <= G s + length (rcvd s' 1).
Proof. intros Hw Hm Hl. unfold G, hold. rewrite Hw, Hm. lia. Qed.

Theorem G_step s e s' :
  reachable c s -> step c s e = Some s' -> cancelled s' = false ->
  G s' + length (rcvd s 1) <= G s + length (rcvd s' 1).
Proof.
  intros Hr Hs Hcn'.
  pose proof (step_not_cancelled c s e s' Hs Hcn') as Ecn.
  destruct (J_reachable ops interval icaps ocaps s Hr Ecn) as [Jo _].
  pose proof (dshape_reachable ops interval icaps ocaps s Hr) as HD.
  destruct (step_cases c s e s' Hs) as [Hpn [(w & ch & -> & Hw & Hsw)|He]].
  - pose proof (step_worker_effect c s w ch s' Hsw) as He.
    destruct w as [|[|w]]; [| |simpl in Hw; lia].
    + (* the pacer moves *)
      destruct He as [i a t rest Hsrc Hc Hb | Hsrc Hc | i Hsrc Hc Hb Hcl | ctl' Hcn Hdue Hsl Hsls
                     | eof a k0 v rest Hc Hs0 Hcl | eof k0 t r rest Hc Hb | dropped Hp Hnd Hnr Hnc Hwhy
                     | eof a k0 v rest Hc Hs0 Hcl].
      * simpl in Hsrc. discriminate.
      * apply G_frame; simpl; auto.
      * simpl in Hsrc. discriminate.
      * apply G_frame; simpl; auto.
      * assert (k0 = 1) by (eapply (pacer_sends_tok ops interval icaps ocaps); eauto). subst k0.
        apply G_frame; simpl; auto.
      * exfalso. eapply (pacer_not_tok ops interval icaps ocaps); eauto.
      * pose proof (pacer_returns_on_cancel ops interval icaps ocaps s dropped Hr Hwhy) as Hcn. congruence.
      * apply G_frame; simpl; auto.
    + (* the data goroutine moves *)
      assert (Htok : forall a, wc (ws s 1) = WRun false [ATok 1; ASend 0 a] ->
                               G s' + length (rcvd s 1) <= G s + length (rcvd s' 1)).
      { intros a Hc.
        destruct (step_worker_tok c s 1 ch s' false 1 [ASend 0 a] Hsw Hc Jo Ecn) as (t & r & Hb & ->).
        unfold G, made, hold. simpl. upd_simpl. simpl. rewrite Hc. rewrite app_length. simpl. lia. }
      destruct He as [i a t rest Hsrc Hc Hb | Hsrc Hc | i Hsrc Hc Hb Hcl | ctl' Hcn Hdue Hsl Hsls
                     | eof a k0 v rest Hc Hs0 Hcl | eof k0 t r rest Hc Hb | dropped Hp Hnd Hnr Hnc Hwhy
                     | eof a k0 v rest Hc Hs0 Hcl].
      * unfold G, made, hold. simpl. upd_simpl. unfold take. simpl. rewrite Hc. lia.
      * simpl in Hsrc. discriminate.
      * unfold G, made, hold. simpl. upd_simpl. simpl. rewrite Hc. lia.
      * remember (wc (ws s 1)) as ctl eqn:Ectl.
        destruct HD as [|a|a| | |]; try (inversion Hcn; fail).
        -- eapply Htok. reflexivity.
        -- exfalso. inversion Hcn; subst;
             [eapply send_not_skippable; eassumption|eapply send_not_sleepy; eassumption].
        -- inversion Hcn; subst. unfold G, made, hold. simpl. upd_simpl. simpl. rewrite <- Ectl. lia.
      * (* the element goes out: it moves from the hand to the output *)
        rewrite Hc in HD. inversion HD; subst; destruct Hs0 as [Hx|Hx]; try discriminate.
        inversion Hx; subst.
        unfold G, made, hold. simpl. upd_simpl. simpl. rewrite app_length, Hc. simpl. lia.
      * rewrite Hc in HD. inversion HD; subst. eapply Htok. exact Hc.
      * destruct (finish_data ops interval icaps ocaps s dropped) as (F1 & F2 & F3 & F4).
        unfold G, hold, c. rewrite F2, F3, F4. lia.
      * apply G_frame; simpl; auto.
  - destruct He as [i x Hi Hcl | i Hi Hcl | k t v rest Hb | k v w eof a rest Hb Hcap Hcl Hw Hc Hs0 | |
                   | w a todo Hw Hc | Hcl Had Hcd | t Ht].
    + apply G_frame; simpl; auto.
    + apply G_frame; simpl; auto.
    + (* somebody receives from out k *)
      apply G_frame; simpl; auto.
      * unfold made at 1. simpl. apply (made_move s k (t, v) rest Hb).
      * rewrite (len_upd_snoc' 0). lia.
    + (* rendezvous *)
      destruct w as [|[|w]]; [| |simpl in Hw; lia].
      * assert (k = 1) by (eapply (pacer_sends_tok ops interval icaps ocaps); eauto). subst k.
        apply G_frame; simpl; auto. rewrite (len_upd_snoc' 0). lia.
      * rewrite Hc in HD. inversion HD; subst; destruct Hs0 as [Hx|Hx]; try discriminate.
        inversion Hx; subst.
        unfold G, made, hold. simpl. upd_simpl. simpl. rewrite app_length, Hc. simpl. lia.
    + apply G_frame; auto.
    + simpl in Hcn'. discriminate.
    + destruct w as [|[|w]]; [| |simpl in Hw; lia].
      * apply G_frame; simpl; auto.
      * rewrite Hc in HD. inversion HD.
    + simpl in Hcl. discriminate.
    + apply G_frame; simpl; auto.
Qed.

Theorem G_exec s1 tr s2 :
  reachable c s1 -> exec_from c s1 tr = Some s2 -> cancelled s2 = false ->
  G s2 + length (rcvd s1 1) <= G s1 + length (rcvd s2 1).
Proof.
  intros Hr Hex.
  apply (exec_from_inv_reach c (fun s => cancelled s = false -> G s + length (rcvd s1 1) <= G s1 + length (rcvd s 1)))
    with (tr := tr) (s := s1); auto.
  intros s e s' Hrs IH Hs Hcn'.
  pose proof (step_not_cancelled c s e s' Hs Hcn') as Hcn. specialize (IH Hcn).
  pose proof (G_step s e s' Hrs Hs Hcn'). lia.
Qed.

Lemma hold_le_1 s : hold s <= 1.
Proof.
  unfold hold. repeat match goal with |- context [match ?x with _ => _ end] => destruct x end; lia.
Qed.

(* ---------- the window ---------- *)
(* everything made available on the output by s2 (received, buffered, or in the data goroutine's hand with its token) *)
Theorem window_made s1 tr s2 :
  reachable c s1 -> exec_from c s1 tr = Some s2 -> cancelled s2 = false -> (now s2 < now s1 + interval)%N ->
  made s2 + hold s2 <= length (delivered s1 0) + ops + nth_cap ocaps 1 + 1 + nth_cap ocaps 0.
Proof.
  intros Hr Hex Hcn Hlt.
  pose proof (window_tokens s1 tr s2 Hr Hex Hlt) as HT.
  pose proof (G_exec s1 tr s2 Hr Hex Hcn) as HG.
  pose proof (bufs_reachable c s1 Hr) as HB. pose proof (caps_reachable c s1 Hr) as HC.
  pose proof (HB 0) as B0. pose proof (HB 1) as B1. rewrite (HC 0) in B0. rewrite (HC 1) in B1.
  change (out_caps c 0) with (nth_cap ocaps 0) in B0. change (out_caps c 1) with (nth_cap ocaps 1) in B1.
  pose proof (hold_le_1 s1) as H1.
  unfold G, made, tokens, delivered in *. rewrite map_length. lia.
Qed.

(* WINDOW: the consumer receives at most ops + cap(ctl) + 1 + cap(out) elements between two points of a run
   that are less than interval apart *)
Theorem window_deliveries tr1 tr2 s1 s2 :
  exec c tr1 = Some s1 -> exec_from c s1 tr2 = Some s2 -> cancelled s2 = false -> (now s2 < now s1 + interval)%N ->
  length (delivered s2 0) <= length (delivered s1 0) + ops + nth_cap ocaps 1 + 1 + nth_cap ocaps 0.
Proof.
  intros H1 H2 Hcn Hlt.
  pose proof (window_made s1 tr2 s2 (ex_intro _ tr1 H1) H2 Hcn Hlt) as H.
  unfold made in H. unfold delivered in *. rewrite !map_length in H. rewrite !map_length. lia.
Qed.

(* element number i (0-based) is not available on the output before floor(i/ops)*interval, whatever the clock does *)
Theorem delivery_not_early s i :
  reachable c s -> cancelled s = false -> i < made s -> (N.of_nat i / N.of_nat ops * interval <= now s)%N.
Proof.
  intros Hr Hcn Hi.
  destruct (deliveries_le_tokens ops interval icaps ocaps s Hr Hcn) as (_ & A & B).
  destruct (pinv_bound ops interval s (pinv_reachable ops interval icaps ocaps s Hr)) as [H1 H2].
  assert (Hlt : (N.of_nat i < N.of_nat ops * N.of_nat (batches s))%N) by (rewrite N.mul_comm; lia).
  destruct (N.eq_dec (N.of_nat ops) 0) as [E|E]; [rewrite E in Hlt; lia|].
  pose proof (N.div_lt_upper_bound _ _ _ E Hlt) as Hq.
  destruct H2 as [H2|H2]; [lia|].
  eapply N.le_trans; [|exact H2]. apply N.mul_le_mono_r. lia.
Qed.

End Window.

(* the channels pipe.Throttling makes: ctl := make(chan struct{}, ops), out := make(chan A, cap(in)) *)
Theorem window_deliveries_go (ops : nat) (interval : N) (cin : nat) tr1 tr2 s1 s2 :
  let c := throttle_stage ops interval [cin] [cin; ops] in
  exec c tr1 = Some s1 -> exec_from c s1 tr2 = Some s2 -> cancelled s2 = false -> (now s2 < now s1 + interval)%N ->
  length (delivered s2 0) <= length (delivered s1 0) + (2 * ops + 1 + cin).
Proof.
  intros c H1 H2 Hcn Hlt.
  pose proof (window_deliveries ops interval [cin] [cin; ops] tr1 tr2 s1 s2 H1 H2 Hcn Hlt) as H.
  change (nth_cap [cin; ops] 1) with ops in H. change (nth_cap [cin; ops] 0) with cin in H. lia.
Qed.

(* ---------- witnesses: ops = 1, interval = 10, unbuffered input and output (bound 2*1+1+0 = 3) ---------- *)
Definition wx_cfg : cfg := throttle_stage 1 10 [0] [0; 1].
(* an idle period: a token waits in ctl, the data goroutine holds element 100 with its token, the clock is at 100 *)
Definition wx_idle : list ev :=
  [EW 0 false; EW 0 false; EW 0 false; ESent 0 100%Z; EW 1 false; EW 1 false;
   EAdvance 10; EW 0 false; EW 0 false; EW 0 false; EW 0 false; EW 0 false; EAdvance 100].
(* the burst at time 100: the held element, one for the waiting token, one for the token of the pacer's new round *)
Definition wx_burst : list ev :=
  [ERcvd 0 100%Z; EW 1 false; ESent 0 101%Z; EW 1 false; EW 1 false; ERcvd 0 101%Z;
   EW 0 false; EW 0 false; EW 0 false; EW 0 false; EW 0 false;
   EW 1 false; ESent 0 102%Z; EW 1 false; EW 1 false; ERcvd 0 102%Z].
(* exactly one interval later the pacer's timer fires: one more *)
Definition wx_next : list ev :=
  [EAdvance 110; EW 0 false; EW 0 false; EW 0 false; EW 0 false;
   EW 1 false; ESent 0 103%Z; EW 1 false; EW 1 false; ERcvd 0 103%Z].

Definition wx_get (o : option state) : state := match o with Some s => s | None => init wx_cfg end.
Definition wx_s1 : state := wx_get (exec wx_cfg wx_idle).
Definition wx_s2 : state := wx_get (exec_from wx_cfg wx_s1 wx_burst).
Definition wx_s3 : state := wx_get (exec_from wx_cfg wx_s1 (wx_burst ++ wx_next)).

Lemma wx_runs :
  exec wx_cfg wx_idle = Some wx_s1 /\ exec_from wx_cfg wx_s1 wx_burst = Some wx_s2 /\
  exec_from wx_cfg wx_s1 (wx_burst ++ wx_next) = Some wx_s3.
Proof. split; [|split]; vm_compute; reflexivity. Qed.

(* the hypotheses of [window_deliveries] hold of a real run, and the bound is attained: 3 deliveries, all at time 100 *)
Lemma window_bound_tight :
  exec wx_cfg wx_idle = Some wx_s1 /\ exec_from wx_cfg wx_s1 wx_burst = Some wx_s2 /\
  cancelled wx_s2 = false /\ (now wx_s2 < now wx_s1 + 10)%N /\
  delivered wx_s1 0 = [] /\ delivered wx_s2 0 = [100%Z; 101%Z; 102%Z].
Proof. split; [|split; [|split; [|split; [|split]]]]; vm_compute; reflexivity. Qed.

(* the CLOSED window [t, t + interval] is not bounded by 2*ops+1+c: 4 deliveries within [100, 110] *)
Lemma closed_window_refuted :
  ~ (forall (ops : nat) (interval : N) (cin : nat) tr1 tr2 s1 s2,
       let c := throttle_stage ops interval [cin] [cin; ops] in
       exec c tr1 = Some s1 -> exec_from c s1 tr2 = Some s2 -> cancelled s2 = false -> (now s2 <= now s1 + interval)%N ->
       length (delivered s2 0) <= length (delivered s1 0) + (2 * ops + 1 + cin)).
Proof.
  intros H. destruct wx_runs as (R1 & _ & R3).
  specialize (H 1 10%N 0 wx_idle (wx_burst ++ wx_next) wx_s1 wx_s3 R1 R3).
  assert (Hc : cancelled wx_s3 = false) by (vm_compute; reflexivity).
  assert (Hn : (now wx_s3 <= now wx_s1 + 10)%N) by (vm_compute; discriminate).
  specialize (H Hc Hn).
  assert (E3 : length (delivered wx_s3 0) = 4) by (vm_compute; reflexivity).
  assert (E1 : length (delivered wx_s1 0) = 0) by (vm_compute; reflexivity).
  rewrite E3, E1 in H. simpl in H. lia.
Qed.
