(* VARIANT (no livelock): the INTERNAL step relation of the Pool machine - the steps of the stage's own
   goroutines: worker steps with either resolution of a select, and the wg.Wait() closer - is
   well-founded for every stage without generator sources, from EVERY state (reachable or not).
   Hence between two environment events (send, close of an input, receive, cancel, gate release,
   clock advance) the goroutines of a stage take only finitely many steps.

   The variant is lexicographic in three levels:
     (A) the number of elements buffered in the inputs the workers read (summed over the workers, so an
         input shared by n workers counts n times: a take lowers every one of these terms);
     (B) the number of workers that have not yet seen the end of their input (the step
         WRecv -> WRun true (on_eof ..) happens at most once per worker, nothing leads back);
     (C) the statements still to execute: sum of [rank (wc ..)], + 1 while the closer has not run,
         + 1 while the program has not panicked.
   A take (A down) installs an arbitrarily long plan, the end of the input (B down) an arbitrarily long
   [on_eof]: this is why one number is not enough.

   The only hypothesis besides "no generator" is built into [istep]: a panicked program does not move
   ([step] says so; with the bare [step_worker] a goroutine standing at a send on a closed channel
   "panics" again and again - [raw_worker_steps_may_loop] below - which is an artefact of the
   encoding, not behaviour). *)
From Coq Require Import List ZArith NArith Bool Arith PeanoNat Lia Wf_nat.
From Golem Require Import Pipe.Pool Pipe.PoolEffects Pipe.PoolSteps.
Import ListNotations.
Open Scope nat_scope.

(* ---------- the internal moves ---------- *)
Definition istep (c : cfg) (s s' : state) : Prop :=
  (exists w ch, step c s (EW w ch) = Some s') \/ step c s ECloser = Some s'.

Lemma istep_iff c s s' :
  istep c s s' <->
  panicked s = false /\
  ((exists w ch, w < par c /\ step_worker c s w ch = Some s') \/ step_ok c s ECloser = Some s').
Proof.
  unfold istep, step. split.
  - intros [(w & ch & H)|H]; destruct (panicked s); try discriminate; split; auto.
    left. exists w, ch. simpl in H. destruct (Nat.ltb w (par c)) eqn:E; [|discriminate].
    apply Nat.ltb_lt in E. auto.
  - intros [Hp [(w & ch & Hw & H)|H]]; rewrite Hp; [left|right; exact H].
    exists w, ch. simpl. apply Nat.ltb_lt in Hw. rewrite Hw. exact H.
Qed.

(* ---------- finite sums ---------- *)
Fixpoint sumf (f : nat -> nat) (n : nat) : nat :=
  match n with 0 => 0 | S m => f m + sumf f m end.

Lemma sumf_le f g n : (forall j, j < n -> f j <= g j) -> sumf f n <= sumf g n.
Proof.
  induction n as [|m IH]; intros H; simpl; [lia|].
  pose proof (H m ltac:(lia)). assert (sumf f m <= sumf g m) by (apply IH; intros; apply H; lia). lia.
Qed.

Lemma sumf_ext f g n : (forall j, j < n -> f j = g j) -> sumf f n = sumf g n.
Proof.
  intros H. apply Nat.le_antisymm; apply sumf_le; intros j Hj; rewrite (H j Hj); lia.
Qed.

Lemma sumf_lt f g n w :
  w < n -> f w < g w -> (forall j, j < n -> f j <= g j) -> sumf f n < sumf g n.
Proof.
  induction n as [|m IH]; intros Hw Hlt H; [lia|]. simpl.
  assert (Hm : sumf f m <= sumf g m) by (apply sumf_le; intros; apply H; lia).
  pose proof (H m ltac:(lia)) as Hfm.
  destruct (Nat.eq_dec w m) as [->|Hne]; [lia|].
  assert (sumf f m < sumf g m) by (apply IH; [lia|exact Hlt|intros; apply H; lia]). lia.
Qed.

(* one index updated *)
Lemma sumf_upd {A} (f : A -> nat) (g : nat -> A) w x n :
  w < n -> sumf (fun j => f (upd g w x j)) n + f (g w) = sumf (fun j => f (g j)) n + f x.
Proof.
  induction n as [|m IH]; intros Hw; [lia|]. simpl.
  destruct (Nat.eq_dec w m) as [->|Hne].
  - rewrite upd_same.
    rewrite (sumf_ext (fun j => f (upd g m x j)) (fun j => f (g j)) m); [lia|].
    intros j Hj. rewrite upd_other by lia. reflexivity.
  - rewrite upd_other by lia. specialize (IH ltac:(lia)). lia.
Qed.

(* ---------- the variant ---------- *)
Definition src_idx (c : cfg) (w : nat) : nat := match src c w with SIn i => i | SGen => 0 end.

(* has the worker not yet seen the end of its input ? *)
Definition inloop (ctl : wctl) : nat :=
  match ctl with
  | WRecv | WCall _ _ | WRun false _ | WSleep _ _ false _ => 1
  | _ => 0
  end.

Definition rank (ctl : wctl) : nat :=
  match ctl with
  | WDone => 0
  | WRecv => 1
  | WRun _ todo => 2 * length todo + 2
  | WSleep _ _ _ todo => 2 * length todo + 3
  | WCall _ todo => 2 * length todo + 4
  end.

Definition mA (c : cfg) (s : state) : nat := sumf (fun w => length (cbuf (ins s (src_idx c w)))) (par c).
Definition mB (c : cfg) (s : state) : nat := sumf (fun w => inloop (wc (ws s w))) (par c).
Definition ranks (c : cfg) (s : state) : nat := sumf (fun w => rank (wc (ws s w))) (par c).
Definition cbit (c : cfg) (s : state) : nat := if closer c && negb (closer_done s) then 1 else 0.
Definition pbit (s : state) : nat := if panicked s then 0 else 1.
Definition mC (c : cfg) (s : state) : nat := ranks c s + cbit c s + pbit s.

(* s' is below s *)
Definition below (c : cfg) (s' s : state) : Prop :=
  mA c s' < mA c s \/
  (mA c s' <= mA c s /\ mB c s' < mB c s) \/
  (mA c s' <= mA c s /\ mB c s' <= mB c s /\ mC c s' < mC c s).

Lemma lex3_acc {X} (R : X -> X -> Prop) (fA fB fC : X -> nat) :
  (forall s s', R s' s ->
     fA s' < fA s \/ (fA s' <= fA s /\ fB s' < fB s) \/ (fA s' <= fA s /\ fB s' <= fB s /\ fC s' < fC s)) ->
  forall s, Acc R s.
Proof.
  intros Hdec.
  assert (H : forall a b c s, fA s <= a -> fB s <= b -> fC s <= c -> Acc R s).
  { induction a as [a IHa] using lt_wf_ind. induction b as [b IHb] using lt_wf_ind.
    induction c as [c IHc] using lt_wf_ind.
    intros s Ha Hb Hc. constructor. intros s' Hs'.
    destruct (Hdec _ _ Hs') as [H|[[H1 H2]|(H1 & H2 & H3)]].
    - apply (IHa (fA s')) with (b := fB s') (c := fC s'); lia.
    - apply (IHb (fB s')) with (c := fC s'); lia.
    - apply (IHc (fC s')); lia. }
  intros s. eapply H; eauto.
Qed.

Lemma ctl_next_rank ctl ctl' : ctl_next ctl ctl' -> rank ctl' < rank ctl /\ inloop ctl' = inloop ctl.
Proof. intros H; destruct H; simpl; split; auto; lia. Qed.

Section Variant.
Variable c : cfg.

(* only worker w's record changes, the inputs stay: compare its control before and after *)
Lemma below_upd s s' w x :
  w < par c -> panicked s = false ->
  ins s' = ins s -> ws s' = upd (ws s) w x -> closer_done s' = closer_done s ->
  inloop (wc x) < inloop (wc (ws s w)) \/
  (inloop (wc x) <= inloop (wc (ws s w)) /\ rank (wc x) < rank (wc (ws s w))) ->
  below c s' s.
Proof.
  intros Hw Hp Hi Hws Hcd Hx.
  assert (EA : mA c s' = mA c s) by (unfold mA; rewrite Hi; reflexivity).
  assert (EB : mB c s' + inloop (wc (ws s w)) = mB c s + inloop (wc x)).
  { unfold mB. rewrite Hws. apply (sumf_upd (fun y => inloop (wc y)) (ws s) w x (par c) Hw). }
  assert (EC : ranks c s' + rank (wc (ws s w)) = ranks c s + rank (wc x)).
  { unfold ranks. rewrite Hws. apply (sumf_upd (fun y => rank (wc y)) (ws s) w x (par c) Hw). }
  assert (ED : cbit c s' = cbit c s) by (unfold cbit; rewrite Hcd; reflexivity).
  assert (EP : pbit s' <= pbit s) by (unfold pbit; rewrite Hp; destruct (panicked s'); lia).
  unfold below, mC. destruct Hx as [Hx|[Hx1 Hx2]]; lia.
Qed.

Lemma finish_fields s w d :
  ins (finish c s w d) = ins s /\ closer_done (finish c s w d) = closer_done s /\
  ws (finish c s w d) = upd (ws s) w (mkW (wl (ws s w)) WDone (wtaken (ws s w)) (weof (ws s w))
                                           (fun k => wdropped (ws s w) k ++ emits k d)).
Proof.
  unfold finish. destruct (closer c); [simpl; auto|].
  set (s1 := set_w s w _).
  destruct (close_all_frame s1 (wcloses c w)) as (A & B & _ & D & _). cbv zeta in A, B, D.
  rewrite A, B, D. unfold s1. simpl. auto.
Qed.

Hypothesis nogen : forall w, w < par c -> exists i, src c w = SIn i.

Lemma weffect_below s w s' : w < par c -> panicked s = false -> weffect c s w s' -> below c s' s.
Proof.
  intros Hw Hp He.
  destruct He as [i a t rest Hsrc Hc Hb | Hsrc Hc | i Hsrc Hc Hb Hcl | ctl' Hcn Hdue Hsl Hsls
                 | eof a k0 v rest Hc Hs0 Hcl | eof k0 t r rest Hc Hb | dropped Hpd Hnd Hnr Hnc Hwhy
                 | eof a k0 v rest Hc Hs0 Hcl].
  - (* take: one element less in the input *)
    left. unfold mA. cbn [ins]. apply sumf_lt with w; auto.
    + unfold src_idx. rewrite Hsrc, upd_same. unfold pop. cbn [cbuf]. rewrite Hb. simpl. lia.
    + intros j Hj. destruct (Nat.eq_dec (src_idx c j) i) as [->|Hne]; [|rewrite upd_other by exact Hne; lia].
      rewrite upd_same. unfold pop. cbn [cbuf]. rewrite Hb. simpl. lia.
  - destruct (nogen w Hw) as [i Hi]. congruence.
  - (* end of the input: at most once per worker *)
    eapply below_upd; eauto; try reflexivity. rewrite Hc. simpl. lia.
  - (* silent control change *)
    destruct (ctl_next_rank _ _ Hcn) as [R1 R2].
    eapply below_upd; eauto; try reflexivity. simpl. lia.
  - eapply below_upd; eauto; try reflexivity. rewrite Hc. simpl. lia.
  - eapply below_upd; eauto; try reflexivity. rewrite Hc. simpl. lia.
  - destruct (finish_fields s w dropped) as (F1 & F2 & F3).
    eapply below_upd; eauto. simpl. right. split; [lia|].
    destruct (wc (ws s w)); simpl; try lia. congruence.
  - (* panic: the program has crashed *)
    right. right. unfold mA, mB, mC, ranks, cbit, pbit. simpl. rewrite Hp. lia.
Qed.

Lemma istep_below s s' : istep c s s' -> below c s' s.
Proof.
  intros H. apply istep_iff in H. destruct H as [Hp [(w & ch & Hw & H)|H]].
  - eapply weffect_below; eauto. eapply step_worker_effect; eauto.
  - (* the closer runs once *)
    simpl in H. destruct (closer c && all_done c s && negb (closer_done s)) eqn:E; [|discriminate].
    apply andb_prop in E. destruct E as [E E3]. apply andb_prop in E. destruct E as [E1 _].
    apply negb_true_iff in E3. inversion H as [Hs']; clear H.
    destruct (close_all_frame s (closes c)) as (A & B & _). cbv zeta in A, B.
    right. right. unfold mA, mB, mC, ranks, cbit, pbit. simpl. rewrite A, B, E1, E3, Hp. simpl.
    destruct (panicked (close_all s (closes c))); lia.
Qed.

(* NO LIVELOCK: every sequence of internal steps from any state is finite *)
Theorem internal_steps_terminate s : Acc (fun s' s0 => istep c s0 s') s.
Proof.
  apply (lex3_acc (fun s' s0 => istep c s0 s') (mA c) (mB c) (mC c)).
  intros s0 s' H. exact (istep_below s0 s' H).
Qed.

End Variant.

(* the same with the internal moves spelled out (worker steps below [par], the closer), as a statement
   about arbitrary chains: a chain of internal steps cannot go on for ever - there is no infinite
   sequence s 0, s 1, ... with istep (s n) (s (n+1)) for all n *)
Theorem no_infinite_internal_run (c : cfg) :
  (forall w, w < par c -> exists i, src c w = SIn i) ->
  forall f : nat -> state, ~ (forall n, istep c (f n) (f (S n))).
Proof.
  intros Hng f Hf.
  assert (H : forall s, Acc (fun s' s0 => istep c s0 s') s -> forall n, f n <> s).
  { intros s Hacc. induction Hacc as [s _ IH]. intros n E. subst s.
    apply (IH (f (S n)) (Hf n) (S n)). reflexivity. }
  exact (H (f 0) (internal_steps_terminate c Hng (f 0)) 0 eq_refl).
Qed.

(* Why [istep] goes through [step] (which refuses to move a panicked program) and not through the bare
   [step_worker]: a goroutine standing at a send on a closed channel can "panic" over and over. *)
Example raw_worker_steps_may_loop :
  let c := mkCfg 1 (fun _ => SIn 0) (fun _ _ _ => ([], 0%Z)) (fun _ _ => []) (fun _ _ => true) (fun _ => 0%Z)
                 false false [] (fun _ => []) 1 (fun _ => 0) (fun _ => 0) in
  let s := mkS (fun _ => empty_chan 0) (fun _ => mkChan [] 0 true) false
               (fun _ => mkW 0%Z (WRun false [APlain 0 0%Z]) [] false (fun _ => []))
               false true 0%N (fun _ => []) (fun _ => []) (fun _ => []) in
  step_worker c s 0 false = Some s /\ step c s (EW 0 false) = None.
Proof. split; reflexivity. Qed.
