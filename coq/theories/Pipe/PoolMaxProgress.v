(* MAXIMAL PROGRESS with a consumer that keeps up: a restriction of the executions of the Pool machine
   ([step] itself is unchanged) under which upper bounds on delivery times can be stated.

   [ext k] says that out k is an output of the stage with a consumer in the environment (for Throttling the
   token channel out 1 is internal: only the data goroutine receives from it).
   The clock event [EAdvance t] is allowed only
     - in a SETTLED state: no internal step of the stage is enabled ([quiescent]) and nothing is
       receivable on any external output ([no_receive_on]: the consumers have taken everything that is
       available, including the rendezvous partner of a goroutine blocked in an unbuffered send),
     - when the additional obligation [env] of the environment holds (True for generators; "input
       available" for Throttling),
     - to an instant [t] that does not jump over a pending timer: t <= every pending deadline
       ([min_wake]).  t = the earliest deadline is the canonical choice; t below it is the driver's own
       sleep ending before any timer of the stage.
   There is no cancel, and the environment receives from external outputs only.  All other events are as
   in [step].

   This is the policy of the trace-acceptance checker Check/Pool.v ([sleep_loop]): it advances the clock
   only from the states returned by [closure] (those with [succs s = []], i.e. [quiescent] - lemma
   [succs_nil_quiescent] in Pipe/PoolMaxProgressCheck.v), to [min_wake s] when that is <= the target of
   the driver's sleep and to the target otherwise - never past a pending deadline.  "Nothing receivable"
   is, in the checker, the recorded outcome OBlocked of the consumer's attempt ([recv_enabled] = false). *)
From Coq Require Import List ZArith NArith Bool Arith PeanoNat Lia.
From Golem Require Import Pipe.Pool Pipe.PoolEffects Pipe.PoolSteps Pipe.PoolStepCases Pipe.PoolLive.
Import ListNotations.

Definition all_outs (k : nat) : bool := true.

Section MaxProgress.
Variable c : cfg.
Variable ext : nat -> bool.
Variable env : state -> Prop.

Definition no_receive_on (s : state) : Prop := forall k v, ext k = true -> step c s (ERcvd k v) = None.
Definition settled (s : state) : Prop := quiescent c s /\ no_receive_on s.
Definition no_timer_before (s : state) (t : N) : Prop := forall u, min_wake s (par c) = Some u -> (t <= u)%N.

Definition mp_allowed (s : state) (e : ev) : Prop :=
  match e with
  | EAdvance t => settled s /\ env s /\ no_timer_before s t
  | ECancel => False
  | ERcvd k _ | ERcvdClosed k => ext k = true
  | _ => True
  end.

Inductive mp_reachable : state -> Prop :=
| MP_init : mp_reachable (init c)
| MP_step s e s' : mp_reachable s -> mp_allowed s e -> step c s e = Some s' -> mp_reachable s'.

Lemma mp_reachable_reachable s : mp_reachable s -> reachable c s.
Proof.
  induction 1 as [|s e s' _ IH _ Hs]; [apply reachable_init|]. eapply reachable_step; eauto.
Qed.

(* ---------- what an allowed step does ---------- *)
Inductive mp_effect (s : state) : state -> Prop :=
| ME_worker w ch s' : w < par c -> step_worker c s w ch = Some s' -> mp_effect s s'
| ME_sent i x :
    i < nins c -> cclosed (ins s i) = false ->
    mp_effect s (mkS (upd (ins s) i (push (ins s i) (0, x))) (outs s) (cancelled s) (ws s)
                     (closer_done s) (panicked s) (now s) (upd (sent s) i (sent s i ++ [x])) (consumed s) (rcvd s))
| ME_closein i :
    i < nins c -> cclosed (ins s i) = false ->
    mp_effect s (mkS (upd (ins s) i (close (ins s i))) (outs s) (cancelled s) (ws s)
                     (closer_done s) (panicked s) (now s) (sent s) (consumed s) (rcvd s))
| ME_rcvd k t v rest :
    ext k = true -> cbuf (outs s k) = (t, v) :: rest ->
    mp_effect s (mkS (ins s) (upd (outs s) k (pop (outs s k))) (cancelled s) (ws s)
                     (closer_done s) (panicked s) (now s) (sent s) (consumed s)
                     (upd (rcvd s) k (rcvd s k ++ [(t, v)])))
| ME_rdv k v w eof a rest :
    ext k = true -> cbuf (outs s k) = [] -> ccap (outs s k) = 0 -> cclosed (outs s k) = false ->
    w < par c -> wc (ws s w) = WRun eof (a :: rest) -> sends_on a k v ->
    mp_effect s (mkS (ins s) (outs s) (cancelled s) (upd (ws s) w (with_ctl (ws s w) (WRun eof rest)))
                     (closer_done s) (panicked s) (now s) (sent s) (consumed s)
                     (upd (rcvd s) k (rcvd s k ++ [(w, v)])))
| ME_same : mp_effect s s
| ME_ret w a todo :
    w < par c -> wc (ws s w) = WCall a todo ->
    mp_effect s (set_w s w (with_ctl (ws s w) (WRun false todo)))
| ME_closer :
    closer c = true -> all_done c s = true -> closer_done s = false ->
    mp_effect s (let s1 := close_all s (closes c) in
                 mkS (ins s1) (outs s1) (cancelled s1) (ws s1) true (panicked s1) (now s1) (sent s1) (consumed s1) (rcvd s1))
| ME_advance t :
    settled s -> env s -> no_timer_before s t -> (now s < t)%N ->
    mp_effect s (mkS (ins s) (outs s) (cancelled s) (ws s) (closer_done s) (panicked s) t (sent s) (consumed s) (rcvd s)).

Lemma mp_step_effect s e s' :
  mp_allowed s e -> step c s e = Some s' -> panicked s = false /\ mp_effect s s'.
Proof.
  intros Ha. unfold step. destruct (panicked s) eqn:Ep; [discriminate|]. intros H. split; [reflexivity|].
  clear Ep. unfold step_ok in H.
  destruct e as [i x|i|k v|k| |w ch|w| |t]; simpl in Ha.
  - destruct (Nat.ltb i (nins c)) eqn:Ei; simpl in H; [|discriminate]. apply Nat.ltb_lt in Ei.
    destruct (cclosed (ins s i)) eqn:Ecl; [discriminate|].
    destruct (in_room c s i); [|discriminate]. inversion H; subst. apply ME_sent; auto.
  - destruct (Nat.ltb i (nins c)) eqn:Ei; simpl in H; [|discriminate]. apply Nat.ltb_lt in Ei.
    destruct (cclosed (ins s i)) eqn:Ecl; [discriminate|]. inversion H; subst. apply ME_closein; auto.
  - destruct (cbuf (outs s k)) as [|[t v'] rest] eqn:Eb.
    + destruct (Nat.eqb (ccap (outs s k)) 0 && negb (cclosed (outs s k))) eqn:E0; [|discriminate].
      apply andb_prop in E0. destruct E0 as [E1 E2]. apply Nat.eqb_eq in E1. apply negb_true_iff in E2.
      destruct (find_sender s k v (par c)) as [w|] eqn:Ef; [|discriminate].
      destruct (find_sender_spec _ _ _ _ _ Ef) as (Hw & eof & a & rest & Hc & Hs).
      inversion H; subst. unfold after_send. rewrite Hc. eapply ME_rdv; eauto.
    + destruct (Z.eqb v v') eqn:Ev; [|discriminate]. apply Z.eqb_eq in Ev. subst.
      inversion H; subst. eapply ME_rcvd; eauto.
  - destruct (cbuf (outs s k)); [|discriminate]. destruct (cclosed (outs s k)); [|discriminate].
    inversion H; subst. apply ME_same.
  - contradiction.
  - destruct (Nat.ltb w (par c)) eqn:Ew; [|discriminate]. apply Nat.ltb_lt in Ew.
    eapply ME_worker; eauto.
  - destruct (Nat.ltb w (par c)) eqn:Ew; [|discriminate]. apply Nat.ltb_lt in Ew.
    destruct (wc (ws s w)) eqn:Ec; try discriminate. inversion H; subst. eapply ME_ret; eauto.
  - destruct (closer c && all_done c s && negb (closer_done s)) eqn:E0; [|discriminate].
    apply andb_prop in E0. destruct E0 as [E0 E3]. apply andb_prop in E0. destruct E0 as [E1 E2].
    apply negb_true_iff in E3. inversion H; subst. apply ME_closer; auto.
  - destruct Ha as (Hse & Hen & Hnt).
    destruct (N.ltb (now s) t) eqn:Et; [|discriminate]. apply N.ltb_lt in Et.
    inversion H; subst. apply ME_advance; assumption.
Qed.

(* induction over maximal-progress executions, by effect *)
Lemma mp_reachable_inv (P : state -> Prop) :
  P (init c) ->
  (forall s s', mp_reachable s -> P s -> panicked s = false -> mp_effect s s' -> P s') ->
  forall s, mp_reachable s -> P s.
Proof.
  intros H0 Hs s Hr. induction Hr as [|s e s' Hr IH Hal Hst]; [exact H0|].
  destruct (mp_step_effect s e s' Hal Hst) as [Hp Hef]. eauto.
Qed.

Lemma mp_not_cancelled s : mp_reachable s -> cancelled s = false.
Proof.
  revert s. apply (mp_reachable_inv (fun s => cancelled s = false)); [reflexivity|].
  intros s0 s' _ IH _ He.
  destruct He as [w ch s' Hw Hsw| | | | | | | |]; simpl; auto.
  - destruct (weffect_frame c s0 w s' (step_worker_effect c s0 w ch s' Hsw)) as (Hcn & _). congruence.
  - destruct (close_all_frame s0 (closes c)) as (_ & _ & Hcn & _). cbv zeta in Hcn. congruence.
Qed.

(* ---------- nothing receivable on an external output ---------- *)
Lemma no_receive_on_empty s k : panicked s = false -> no_receive_on s -> ext k = true -> cbuf (outs s k) = [].
Proof.
  intros Hp H Hk. destruct (cbuf (outs s k)) as [|[t v] r] eqn:Eb; auto. exfalso.
  specialize (H k v Hk). unfold step, step_ok in H. rewrite Hp, Eb, Z.eqb_refl in H. discriminate.
Qed.

Lemma no_receive_on_send s w eof a k v rest :
  panicked s = false -> no_receive_on s -> ext k = true -> w < par c ->
  wc (ws s w) = WRun eof (a :: rest) -> sends_on a k v ->
  has_room (outs s k) = false -> cclosed (outs s k) = false -> False.
Proof.
  intros Hp H Hk Hw Hc Hs Hr Hcl.
  pose proof (no_receive_on_empty s k Hp H Hk) as Hb.
  unfold has_room in Hr. rewrite Hb in Hr. simpl in Hr. apply Nat.ltb_ge in Hr.
  specialize (H k v Hk). unfold step, step_ok in H. rewrite Hp, Hb in H.
  assert (Hcap : ccap (outs s k) = 0) by lia. rewrite Hcap, Hcl in H. simpl in H.
  destruct (find_sender s k v (par c)) eqn:Ef; [discriminate|].
  eapply find_sender_complete; eauto.
Qed.

(* ---------- an executable run function (for non-vacuity examples) ---------- *)
Variable settledb : state -> bool.
Variable envb : state -> bool.

Definition mp_allowedb (s : state) (e : ev) : bool :=
  match e with
  | EAdvance t => settledb s && envb s && match min_wake s (par c) with Some u => N.leb t u | None => true end
  | ECancel => false
  | ERcvd k _ | ERcvdClosed k => ext k
  | _ => true
  end.

Fixpoint mp_run (s : state) (tr : list ev) : option state :=
  match tr with
  | [] => Some s
  | e :: r => if mp_allowedb s e then match step c s e with Some s' => mp_run s' r | None => None end else None
  end.

Lemma mp_run_sound :
  (forall s, mp_reachable s -> settledb s = true -> settled s) ->
  (forall s, envb s = true -> env s) ->
  forall tr s s', mp_reachable s -> mp_run s tr = Some s' -> mp_reachable s'.
Proof.
  intros Hsb Heb tr. induction tr as [|e r IH]; intros s s' Hr H; simpl in H.
  - inversion H; subst. exact Hr.
  - destruct (mp_allowedb s e) eqn:Ea; [|discriminate].
    destruct (step c s e) as [s1|] eqn:Es; [|discriminate].
    apply (IH s1 s'); [|exact H]. eapply MP_step; [exact Hr| |exact Es].
    destruct e as [i x|i|k v|k| |w ch|w| |t]; simpl in *; auto; [discriminate|].
    apply andb_prop in Ea. destruct Ea as [Ea E3]. apply andb_prop in Ea. destruct Ea as [E1 E2].
    split; [apply Hsb; assumption|]. split; [apply Heb; assumption|].
    intros u Hu. rewrite Hu in E3. apply N.leb_le. exact E3.
Qed.

End MaxProgress.

(* ---------- settled, decidably (sufficient conditions; for examples) ---------- *)
Definition is_none {A} (o : option A) : bool := match o with None => true | Some _ => false end.
Definition quiescentb (c : cfg) (s : state) : bool :=
  forallb (fun w => is_none (step_worker c s w false) && is_none (step_worker c s w true)) (seq 0 (par c)) &&
  is_none (step c s ECloser).
Definition sendingb (k : nat) (ctl : wctl) : bool :=
  match ctl with WRun _ (ASend k' _ :: _) | WRun _ (APlain k' _ :: _) => Nat.eqb k' k | _ => false end.
(* the external outputs [l] are empty and no goroutine stands at a send on one of them *)
Definition no_receiveb (c : cfg) (l : list nat) (s : state) : bool :=
  forallb (fun k => match cbuf (outs s k) with [] => true | _ => false end &&
                    forallb (fun w => negb (sendingb k (wc (ws s w)))) (seq 0 (par c))) l.

Lemma quiescentb_sound c s : quiescentb c s = true -> quiescent c s.
Proof.
  unfold quiescentb. intros H. apply andb_prop in H. destruct H as [H1 H2]. split.
  - intros w Hw ch. rewrite forallb_forall in H1. specialize (H1 w). rewrite in_seq in H1.
    specialize (H1 (conj (Nat.le_0_l w) Hw)). apply andb_prop in H1. destruct H1 as [A B].
    destruct ch; [destruct (step_worker c s w true)|destruct (step_worker c s w false)]; auto; discriminate.
  - destruct (step c s ECloser); [discriminate|reflexivity].
Qed.

Lemma find_sender_none s k v n :
  (forall w, w < n -> sendingb k (wc (ws s w)) = false) -> find_sender s k v n = None.
Proof.
  induction n as [|m IH]; intros H; simpl; auto.
  pose proof (H m (Nat.lt_succ_diag_r m)) as Hm. rewrite IH by (intros w Hw; apply H; lia).
  destruct (wc (ws s m)) as [| |eof [|[k' v'|k' v'| | | | |] r]| |]; simpl in Hm; auto; rewrite Hm; reflexivity.
Qed.

Lemma no_receiveb_sound c (ext : nat -> bool) l s :
  (forall k, ext k = true -> In k l) -> no_receiveb c l s = true -> no_receive_on c ext s.
Proof.
  unfold no_receiveb. intros Hl H k v Hk.
  rewrite forallb_forall in H. specialize (H k (Hl k Hk)). apply andb_prop in H. destruct H as [H1 H2].
  rewrite forallb_forall in H2.
  unfold step, step_ok. destruct (panicked s); [reflexivity|].
  destruct (cbuf (outs s k)); [|discriminate].
  rewrite find_sender_none.
  - destruct (Nat.eqb (ccap (outs s k)) 0 && negb (cclosed (outs s k))); reflexivity.
  - intros w Hw. specialize (H2 w). rewrite in_seq in H2. specialize (H2 (conj (Nat.le_0_l w) Hw)).
    now apply negb_true_iff in H2.
Qed.

(* with every output external, [no_receive_on] is [no_receive] *)
Lemma no_receive_on_all c s : no_receive_on c all_outs s <-> no_receive c s.
Proof. unfold no_receive_on, no_receive, all_outs. split; intros H k v; auto. Qed.
