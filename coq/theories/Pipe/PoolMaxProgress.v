(* MAXIMAL PROGRESS with a consumer that keeps up: a restriction of the executions of the Pool machine
   ([step] itself is unchanged) under which upper bounds on delivery times can be stated.

   The clock event [EAdvance t] is allowed only
     - in a SETTLED state: no internal step of the stage is enabled ([quiescent]) and nothing is
       receivable on any output ([no_receive]: the consumers have taken everything that is available,
       including the rendezvous partner of a goroutine blocked in an unbuffered send),
     - when the additional obligation [env] of the environment holds (True for generators; "input
       available" for Throttling),
     - to an instant [t] that does not jump over a pending timer: t <= every pending deadline
       ([min_wake]).  t = the earliest deadline is the canonical choice; t below it is the driver's own
       sleep ending before any timer of the stage.
   There is no cancel.  All other events are as in [step].

   This is the policy of the trace-acceptance checker Check/Pool.v ([sleep_loop]): it advances the clock
   only from the states returned by [closure] (those with [succs s = []], i.e. [quiescent] - lemma
   [succs_nil_quiescent] in Pipe/PoolMaxProgressCheck.v), to [min_wake s] when that is <= the target of
   the driver's sleep and to the target otherwise - never past a pending deadline.  "Nothing receivable"
   is, in the checker, the recorded outcome OBlocked of the consumer's attempt ([recv_enabled] = false). *)
From Coq Require Import List ZArith NArith Bool Arith PeanoNat Lia.
From Golem Require Import Pipe.Pool Pipe.PoolEffects Pipe.PoolSteps Pipe.PoolStepCases Pipe.PoolLive.
Import ListNotations.

Section MaxProgress.
Variable c : cfg.
Variable env : state -> Prop.

Definition settled (s : state) : Prop := quiescent c s /\ no_receive c s.
Definition no_timer_before (s : state) (t : N) : Prop := forall u, min_wake s (par c) = Some u -> (t <= u)%N.

Definition mp_allowed (s : state) (e : ev) : Prop :=
  match e with
  | EAdvance t => settled s /\ env s /\ no_timer_before s t
  | ECancel => False
  | _ => True
  end.

Inductive mp_reachable : state -> Prop :=
| MP_init : mp_reachable (init c)
| MP_step s e s' : mp_reachable s -> mp_allowed s e -> step c s e = Some s' -> mp_reachable s'.

Lemma mp_reachable_reachable s : mp_reachable s -> reachable c s.
Proof.
  induction 1 as [|s e s' _ IH _ Hs]; [apply reachable_init|]. eapply reachable_step; eauto.
Qed.

(* ---------- what an allowed step does ---------- *)
Lemma step_env_frame s e s' :
  step c s e = Some s' ->
  match e with
  | EAdvance _ | EW _ _ => True
  | ECancel => now s' = now s
  | _ => now s' = now s /\ cancelled s' = cancelled s
  end.
Proof.
  unfold step. destruct (panicked s); [discriminate|]. unfold step_ok. intros H.
  destruct e as [i x|i|k v|k| |w ch|w| |t]; auto.
  - destruct (negb (Nat.ltb i (nins c))); [discriminate|]. destruct (cclosed (ins s i)); [discriminate|].
    destruct (in_room c s i); [|discriminate]. inversion H; subst. split; reflexivity.
  - destruct (negb (Nat.ltb i (nins c))); [discriminate|]. destruct (cclosed (ins s i)); [discriminate|].
    inversion H; subst. split; reflexivity.
  - destruct (cbuf (outs s k)) as [|[t v'] r].
    + destruct (Nat.eqb (ccap (outs s k)) 0 && negb (cclosed (outs s k))); [|discriminate].
      destruct (find_sender s k v (par c)); [|discriminate]. inversion H; subst. split; reflexivity.
    + destruct (Z.eqb v v'); [|discriminate]. inversion H; subst. split; reflexivity.
  - destruct (cbuf (outs s k)); [|discriminate]. destruct (cclosed (outs s k)); [|discriminate].
    inversion H; subst. split; reflexivity.
  - inversion H; subst. reflexivity.
  - destruct (Nat.ltb w (par c)); [|discriminate]. destruct (wc (ws s w)); try discriminate.
    inversion H; subst. split; reflexivity.
  - destruct (closer c && all_done c s && negb (closer_done s)); [|discriminate].
    destruct (close_all_frame s (closes c)) as (_ & _ & Hcn & _ & Hn & _). cbv zeta in Hcn, Hn.
    inversion H; subst. simpl. split; assumption.
Qed.

Inductive mp_effect (s : state) : state -> Prop :=
| ME_worker w ch s' : w < par c -> step_worker c s w ch = Some s' -> mp_effect s s'
| ME_env s' : eeffect c s s' -> now s' = now s -> cancelled s' = cancelled s -> mp_effect s s'
| ME_advance t :
    settled s -> env s -> no_timer_before s t -> (now s < t)%N ->
    mp_effect s (mkS (ins s) (outs s) (cancelled s) (ws s) (closer_done s) (panicked s) t (sent s) (consumed s) (rcvd s)).

Lemma mp_step_effect s e s' :
  mp_allowed s e -> step c s e = Some s' -> panicked s = false /\ mp_effect s s'.
Proof.
  intros Ha Hs. destruct (step_cases c s e s' Hs) as [Hp Hc]. split; [exact Hp|].
  pose proof (step_env_frame s e s' Hs) as Hf.
  destruct e as [i x|i|k v|k| |w ch|w| |t]; simpl in Ha;
    try (destruct Hc as [(w0 & ch0 & He & _)|Hc]; [discriminate He|]; destruct Hf as [Hn Hcn]; apply ME_env; assumption).
  - contradiction.
  - unfold step in Hs. rewrite Hp in Hs. unfold step_ok in Hs.
    destruct (Nat.ltb w (par c)) eqn:Ew; [|discriminate]. apply Nat.ltb_lt in Ew.
    eapply ME_worker; eauto.
  - destruct Ha as (Hse & Hen & Hnt).
    unfold step in Hs. rewrite Hp in Hs. unfold step_ok in Hs.
    destruct (N.ltb (now s) t) eqn:Et; [|discriminate]. apply N.ltb_lt in Et.
    inversion Hs; subst. apply ME_advance; assumption.
Qed.

Lemma mp_not_cancelled s : mp_reachable s -> cancelled s = false.
Proof.
  induction 1 as [|s e s' Hr IH Ha Hs]; [reflexivity|].
  destruct (mp_step_effect s e s' Ha Hs) as [_ He].
  destruct He as [w ch s' Hw Hsw|s' _ _ Hcn|t _ _ _ _]; simpl; auto; [|congruence].
  destruct (weffect_frame c s w s' (step_worker_effect c s w ch s' Hsw)) as (Hcn & _). congruence.
Qed.

(* induction over maximal-progress executions, by kind of step *)
Lemma mp_reachable_inv (P : state -> Prop) :
  P (init c) ->
  (forall s w ch s', mp_reachable s -> P s -> panicked s = false -> w < par c -> step_worker c s w ch = Some s' -> P s') ->
  (forall s s', mp_reachable s -> P s -> panicked s = false -> eeffect c s s' -> now s' = now s -> cancelled s' = cancelled s -> P s') ->
  (forall s t, mp_reachable s -> P s -> panicked s = false -> settled s -> env s -> no_timer_before s t -> (now s < t)%N ->
     P (mkS (ins s) (outs s) (cancelled s) (ws s) (closer_done s) (panicked s) t (sent s) (consumed s) (rcvd s))) ->
  forall s, mp_reachable s -> P s.
Proof.
  intros H0 Hw He Ha s Hr. induction Hr as [|s e s' Hr IH Hal Hs]; [exact H0|].
  destruct (mp_step_effect s e s' Hal Hs) as [Hp Hef].
  destruct Hef as [w ch s' Hlt Hsw|s' Hee Hn Hcn|t Hse Hen Hnt Hlt]; eauto.
Qed.

(* ---------- an executable run function (for non-vacuity examples) ---------- *)
Variable settledb : state -> bool.
Variable envb : state -> bool.

Definition mp_allowedb (s : state) (e : ev) : bool :=
  match e with
  | EAdvance t => settledb s && envb s && match min_wake s (par c) with Some u => N.leb t u | None => true end
  | ECancel => false
  | _ => true
  end.

Fixpoint mp_run (s : state) (tr : list ev) : option state :=
  match tr with
  | [] => Some s
  | e :: r => if mp_allowedb s e then match step c s e with Some s' => mp_run s' r | None => None end else None
  end.

Lemma mp_run_sound :
  (forall s, mp_reachable s -> settledb s = true -> settled s) ->
  (forall s, envb s = true -> env s) ->
  forall tr s s', mp_reachable s -> mp_run s tr = Some s' -> mp_reachable s'.
Proof.
  intros Hsb Heb tr. induction tr as [|e r IH]; intros s s' Hr H; simpl in H.
  - inversion H; subst. exact Hr.
  - destruct (mp_allowedb s e) eqn:Ea; [|discriminate].
    destruct (step c s e) as [s1|] eqn:Es; [|discriminate].
    apply (IH s1 s'); [|exact H]. eapply MP_step; [exact Hr| |exact Es].
    destruct e as [i x|i|k v|k| |w ch|w| |t]; simpl in *; auto; [discriminate|].
    apply andb_prop in Ea. destruct Ea as [Ea E3]. apply andb_prop in Ea. destruct Ea as [E1 E2].
    split; [apply Hsb; assumption|]. split; [apply Heb; assumption|].
    intros u Hu. rewrite Hu in E3. apply N.leb_le. exact E3.
Qed.

End MaxProgress.
