(* The generators Unfold and Emit (one goroutine, no input): the exact successive sequence, for
   every buffer capacity and every consumer pace; fail-fast and try-and-continue error modes. *)
From Coq Require Import List ZArith NArith Bool Arith PeanoNat Lia.
From Golem Require Import Base.Lists Pipe.Pool Pipe.Stages Pipe.PoolEffects Pipe.PoolSteps Pipe.PoolInv Pipe.PoolInv2
     Pipe.PoolSafe Pipe.PoolClosed Pipe.PoolStop Pipe.PoolLive Pipe.PoolSimple Pipe.PoolSeq Pipe.PoolStages.
Import ListNotations.
Open Scope Z_scope.

Definition is_err (f : Z -> res) (x : Z) : bool := match f x with Err _ => true | Ok _ => false end.

Lemma gen_wf pl init cl ocaps : NoDup cl -> wf_cfg (gen_stage pl init cl ocaps).
Proof.
  intros Hnd. constructor; simpl; try discriminate; auto.
  - intros _ w w' k Hw Hw' _ _. lia.
  - intros w l a Hw x k v _ _. right. simpl. intros w' Hw' _. lia.
  - intros w l Hw x k v [].
Qed.

(* ---------- Unfold ---------- *)
Section UnfoldStage.
Variables (f : Z -> res) (try : bool) (seed : Z) (ocaps : list nat).
Definition unfold_cfg : cfg := gen_stage (plan_unfold f try) seed [0%nat; 1%nat] ocaps.
Let c := unfold_cfg.

(* the successive seeds: x, f x, f (f x), ... (a failing application yields the zero value, as the coded
   functions of the harness do; under fail-fast nothing follows a failure) *)
Definition next_seed (x : Z) : Z := match f x with Ok v => v | Err _ => 0 end.
Fixpoint seeds (x : Z) (n : nat) : list Z :=
  match n with O => [] | S m => x :: seeds (next_seed x) m end.

Lemma unfold_wf : wf_cfg c.
Proof. apply gen_wf. repeat constructor; simpl; intuition discriminate. Qed.

Lemma uf_plan l a : plan c 0 l a = plan_unfold f try l a. Proof. reflexivity. Qed.
Lemma unfold_simple : simple_cfg c.
Proof.
  constructor; simpl; auto; [|constructor]. intros w l a. unfold plan_unfold.
  destruct (f l); simpl; repeat constructor. unfold catch. destruct try; repeat constructor.
Qed.

Lemma uf_spec0 xs : forall l, spec c 0 0 l xs = seeds l (length xs).
Proof.
  induction xs as [|x xs IH]; intros l; simpl; auto. unfold plan_unfold, next_seed.
  destruct (f l) eqn:E; simpl; rewrite IH.
  - reflexivity.
  - unfold catch. destruct try; simpl; reflexivity.
Qed.
Lemma uf_spec1 xs : forall l, spec c 0 1 l xs = err_vals f (seeds l (length xs)).
Proof.
  induction xs as [|x xs IH]; intros l; simpl; auto. unfold plan_unfold, next_seed.
  destruct (f l) eqn:E; simpl; rewrite IH, ?E; auto.
  unfold catch. destruct try; simpl; reflexivity.
Qed.
Lemma uf_stopped xs : forall l, stopped c 0 l xs = negb try && existsb (is_err f) (seeds l (length xs)).
Proof.
  induction xs as [|x xs IH]; intros l; simpl; [now rewrite andb_false_r|]. unfold plan_unfold, next_seed, is_err.
  destruct (f l) eqn:E; simpl; rewrite IH; auto.
  unfold catch. destruct try; simpl; auto.
Qed.
Lemma uf_full_spec k x : full_spec c 0 k x = spec c 0 k seed (wtaken x).
Proof. unfold full_spec. simpl. destruct (weof x); apply app_nil_r. Qed.

(* SAFETY, every capacity, consumer pace, cancel point: what was delivered is a prefix of the exact
   successive sequence; errors are the errors of those seeds; under fail-fast no seed before the last
   one failed (so nothing follows the first failure) *)
Theorem unfold_prefix s :
  reachable c s ->
  exists n, prefix (delivered s 0) (seeds seed n) /\ prefix (delivered s 1) (err_vals f (seeds seed n)) /\
            (try = false -> existsb (is_err f) (seeds seed (n - 1)) = false).
Proof.
  intros Hr. exists (length (wtaken (ws s 0))). split; [|split].
  - eapply prefix_trans; [apply (seq_delivered_prefix c eq_refl s 0 Hr)|]. rewrite uf_full_spec, uf_spec0. apply prefix_refl.
  - eapply prefix_trans; [apply (seq_delivered_prefix c eq_refl s 1 Hr)|]. rewrite uf_full_spec, uf_spec1. apply prefix_refl.
  - intros Ht. pose proof (k_before c s 0%nat (Kinv_reachable c s Hr 0%nat)) as K. simpl in K.
    change (stopped c 0 seed (removelast (wtaken (ws s 0))) = false) in K. rewrite uf_stopped, Ht in K. simpl in K.
    destruct (list_snoc_cases (wtaken (ws s 0))) as [E|(ys & a & E)]; rewrite E in *; [reflexivity|].
    rewrite removelast_app_one in K. rewrite app_length. simpl. replace (length ys + 1 - 1)%nat with (length ys) by lia. exact K.
Qed.

(* a generator that returned without being cancelled did so at its first failing application (fail-fast):
   all seeds up to that one were delivered, exactly one error, both channels closed *)
Theorem unfold_failfast_complete s :
  reachable c s -> cancelled s = false -> quiescent c s -> no_receive c s ->
  exists n, delivered s 0 = seeds seed (S n) /\ existsb (is_err f) (seeds seed n) = false /\
            is_err f (nth n (seeds seed (S n)) 0) = true /\
            delivered s 1 = err_vals f (seeds seed (S n)) /\ try = false /\
            wc (ws s 0) = WDone /\ cclosed (outs s 0) = true /\ cclosed (outs s 1) = true.
Proof.
  intros Hr Hcn Hq Hnr. pose proof (nopanic c unfold_wf s Hr) as Hp.
  assert (Hd : wc (ws s 0) = WDone).
  { destruct (drain c s Hp Hq Hnr) as [Hd _].
    - intros w Hw i Hs. assert (w = 0%nat) by (simpl in Hw; lia). subst. discriminate.
    - intros w Hw. pose proof (simple_reachable c unfold_simple s Hr w) as Hs.
      destruct (wc (ws s w)) as [| | ? [|[] ?] | |]; simpl in Hs; auto; inversion Hs; auto.
    - apply Hd. simpl. lia. }
  pose proof (Kinv_reachable c s Hr 0%nat) as K.
  destruct (k_done c s 0%nat K Hcn Hd) as [He|[Hs|[_ Hpre]]]; [| |simpl in Hpre; discriminate].
  { exfalso. rewrite (noeof_reachable c s Hr 0%nat eq_refl) in He. discriminate. }
  change (stopped c 0 seed (wtaken (ws s 0)) = true) in Hs. rewrite uf_stopped in Hs.
  apply andb_prop in Hs. destruct Hs as [Ht Hs]. apply negb_true_iff in Ht.
  pose proof (k_before c s 0%nat K) as Kb. change (stopped c 0 seed (removelast (wtaken (ws s 0))) = false) in Kb.
  rewrite uf_stopped, Ht in Kb. simpl in Kb.
  destruct (list_snoc_cases (wtaken (ws s 0))) as [E|(ys & a & E)]; rewrite E in *; [discriminate|].
  rewrite removelast_app_one in Kb. rewrite app_length in Hs. simpl in Hs.
  replace (length ys + 1)%nat with (S (length ys)) in Hs by lia.
  exists (length ys).
  assert (Hdel : forall k, delivered s k = spec c 0 k seed (ys ++ [a])).
  { intros k. pose proof (seq_stream c eq_refl s k Hr) as A. rewrite uf_full_spec, E in A.
    rewrite (no_receive_empty c s k Hp Hnr), (k_dropped c s 0%nat K Hcn k), Hd in A. simpl in A.
    now rewrite !app_nil_r in A. }
  assert (Hlen : length (ys ++ [a]) = S (length ys)) by (rewrite app_length; simpl; lia).
  repeat split; auto.
  - rewrite Hdel, uf_spec0, Hlen. reflexivity.
  - (* the failing seed is the last one *)
    clear - Hs Kb. revert Hs Kb. generalize seed. induction (length ys) as [|m IH]; intros x Hs Kb; simpl in *.
    + now rewrite orb_false_r in Hs.
    + apply orb_false_elim in Kb. destruct Kb as [K1 K2]. rewrite K1 in Hs. simpl in Hs. apply IH; auto.
  - rewrite Hdel, uf_spec1, Hlen. reflexivity.
  - destruct (done_closed_reachable c unfold_wf s Hr) as [A _]. apply (A eq_refl 0%nat); simpl; auto.
  - destruct (done_closed_reachable c unfold_wf s Hr) as [A _]. apply (A eq_refl 0%nat); simpl; auto.
Qed.

End UnfoldStage.

(* ---------- Emit ---------- *)
Fixpoint zrange (l : Z) (n : nat) : list Z := match n with O => [] | S m => l :: zrange (l + 1) m end.

Section EmitStage.
Variables (freq : N) (f : Z -> res) (try : bool) (ocaps : list nat).
Definition emit_cfg : cfg := gen_stage (plan_emit freq f try) 0 [0%nat; 1%nat] ocaps.
Let c := emit_cfg.

Lemma emit_wf : wf_cfg c.
Proof. apply gen_wf. repeat constructor; simpl; intuition discriminate. Qed.

Lemma em_spec0 xs : forall l, spec c 0 0 l xs = ok_vals f (zrange l (length xs)).
Proof.
  induction xs as [|x xs IH]; intros l; simpl; auto.
  destruct (f l) eqn:E; simpl; rewrite IH; auto. unfold catch. destruct try; simpl; reflexivity.
Qed.
Lemma em_spec1 xs : forall l, spec c 0 1 l xs = err_vals f (zrange l (length xs)).
Proof.
  induction xs as [|x xs IH]; intros l; simpl; auto.
  destruct (f l) eqn:E; simpl; rewrite IH; auto. unfold catch. destruct try; simpl; reflexivity.
Qed.
Lemma em_stopped xs : forall l, stopped c 0 l xs = negb try && existsb (is_err f) (zrange l (length xs)).
Proof.
  induction xs as [|x xs IH]; intros l; simpl; [now rewrite andb_false_r|]. unfold is_err at 1.
  destruct (f l) eqn:E; simpl; rewrite IH; auto. unfold catch. destruct try; simpl; auto.
Qed.
Lemma em_full_spec k x : full_spec c 0 k x = spec c 0 k 0 (wtaken x).
Proof. unfold full_spec. simpl. destruct (weof x); apply app_nil_r. Qed.

(* SAFETY: f(0), f(1), f(2), ... with the failing indices skipped (Try) - no gap, repeat or reordering;
   one error per failing index; under fail-fast nothing follows the first failure *)
Theorem emit_prefix s :
  reachable c s ->
  exists n, prefix (delivered s 0) (ok_vals f (zrange 0 n)) /\ prefix (delivered s 1) (err_vals f (zrange 0 n)) /\
            (try = false -> existsb (is_err f) (zrange 0 (n - 1)) = false).
Proof.
  intros Hr. exists (length (wtaken (ws s 0))). split; [|split].
  - eapply prefix_trans; [apply (seq_delivered_prefix c eq_refl s 0 Hr)|]. rewrite em_full_spec, em_spec0. apply prefix_refl.
  - eapply prefix_trans; [apply (seq_delivered_prefix c eq_refl s 1 Hr)|]. rewrite em_full_spec, em_spec1. apply prefix_refl.
  - intros Ht. pose proof (k_before c s 0%nat (Kinv_reachable c s Hr 0%nat)) as K.
    change (stopped c 0 0 (removelast (wtaken (ws s 0))) = false) in K. rewrite em_stopped, Ht in K. simpl in K.
    destruct (list_snoc_cases (wtaken (ws s 0))) as [E|(ys & a & E)]; rewrite E in *; [reflexivity|].
    rewrite removelast_app_one in K. rewrite app_length. simpl. replace (length ys + 1 - 1)%nat with (length ys) by lia. exact K.
Qed.
End EmitStage.

(* ---------- Seq / ToSeq ---------- *)
Section SeqGen.
Variables (xs : list Z) (ocaps : list nat).
Definition seqgen_cfg : cfg := gen_stage (plan_seq xs) 0 [0%nat] ocaps.
Let c := seqgen_cfg.

Lemma seqgen_wf : wf_cfg c.
Proof. apply gen_wf. repeat constructor; simpl; intuition. Qed.
Lemma seqgen_simple : simple_cfg c.
Proof.
  constructor; simpl; auto; [|constructor]. intros w l a. unfold plan_seq.
  destruct (nth_error xs (Z.to_nat l)); repeat constructor.
Qed.

(* n rounds starting at index i emit xs[i], xs[i+1], ... (at most n of them) *)
Lemma sq_spec ys : forall i : nat, spec c 0 0 (Z.of_nat i) ys = firstn (length ys) (skipn i xs).
Proof.
  induction ys as [|y ys IH]; intros i; simpl; auto. unfold plan_seq. rewrite Nat2Z.id.
  destruct (nth_error xs i) as [v|] eqn:E.
  - simpl. replace (Z.of_nat i + 1) with (Z.of_nat (S i)) by lia. rewrite IH.
    assert (Hs : skipn i xs = v :: skipn (S i) xs).
    { clear - E. revert i E. induction xs as [|x l IHl]; intros [|i] E; simpl in *; try discriminate.
      - inversion E. reflexivity.
      - apply IHl. exact E. }
    rewrite Hs. reflexivity.
  - simpl. rewrite IH. apply nth_error_None in E. rewrite !skipn_all2 by lia. now rewrite !firstn_nil.
Qed.
Lemma sq_stopped ys : forall i : nat, (i <= length xs)%nat ->
  stopped c 0 (Z.of_nat i) ys = Nat.ltb (length xs) (i + length ys).
Proof.
  induction ys as [|y ys IH]; intros i Hi; simpl.
  - symmetry. apply Nat.ltb_ge. lia.
  - unfold plan_seq. rewrite Nat2Z.id. destruct (nth_error xs i) as [v|] eqn:E.
    + simpl. replace (Z.of_nat i + 1) with (Z.of_nat (S i)) by lia.
      assert (Hlt : (i < length xs)%nat) by (apply nth_error_Some; congruence).
      rewrite IH by lia. f_equal. lia.
    + simpl. symmetry. apply Nat.ltb_lt. apply nth_error_None in E. lia.
Qed.

(* SAFETY: what ToSeq has received so far is a prefix of xs; COMPLETION: exactly xs, then closed *)
Theorem seqgen_prefix s : reachable c s -> prefix (delivered s 0) xs.
Proof.
  intros Hr. eapply prefix_trans; [apply (seq_delivered_prefix c eq_refl s 0 Hr)|].
  unfold full_spec. simpl. replace (if weof (ws s 0) then [] else []) with (@nil val) by (destruct (weof (ws s 0)); reflexivity).
  rewrite app_nil_r. change 0 with (Z.of_nat 0). rewrite sq_spec. simpl. exists (skipn (length (wtaken (ws s 0))) xs).
  symmetry. apply firstn_skipn.
Qed.

Theorem seqgen_identity s :
  reachable c s -> cancelled s = false -> quiescent c s -> no_receive c s ->
  delivered s 0 = xs /\ wc (ws s 0) = WDone /\ cclosed (outs s 0) = true.
Proof.
  intros Hr Hcn Hq Hnr. pose proof (nopanic c seqgen_wf s Hr) as Hp.
  assert (Hd : wc (ws s 0) = WDone).
  { destruct (drain c s Hp Hq Hnr) as [Hd _].
    - intros w Hw i Hs. assert (w = 0%nat) by (simpl in Hw; lia). subst. discriminate.
    - intros w Hw. pose proof (simple_reachable c seqgen_simple s Hr w) as Hs.
      destruct (wc (ws s w)) as [| | ? [|[] ?] | |]; simpl in Hs; auto; inversion Hs; auto.
    - apply Hd. simpl. lia. }
  pose proof (Kinv_reachable c s Hr 0%nat) as K.
  assert (Hlen : length (wtaken (ws s 0)) = S (length xs)).
  { destruct (k_done c s 0%nat K Hcn Hd) as [He|[Hs|[_ Hpre]]]; [| |simpl in Hpre; discriminate].
    - rewrite (noeof_reachable c s Hr 0%nat eq_refl) in He. discriminate.
    - change (stopped c 0 (Z.of_nat 0) (wtaken (ws s 0)) = true) in Hs. rewrite sq_stopped in Hs by lia.
      apply Nat.ltb_lt in Hs.
      pose proof (k_before c s 0%nat K) as Kb. change (stopped c 0 (Z.of_nat 0) (removelast (wtaken (ws s 0))) = false) in Kb.
      rewrite sq_stopped in Kb by lia. apply Nat.ltb_ge in Kb.
      destruct (list_snoc_cases (wtaken (ws s 0))) as [E|(ys & a & E)]; rewrite E in *; [simpl in Hs; lia|].
      rewrite removelast_app_one in Kb. rewrite app_length in *. simpl in *. lia. }
  split; [|split; [exact Hd|]].
  - pose proof (seq_stream c eq_refl s 0 Hr) as A.
    rewrite (no_receive_empty c s 0 Hp Hnr), (k_dropped c s 0%nat K Hcn 0%nat), Hd in A. simpl in A. rewrite !app_nil_r in A.
    rewrite A. unfold full_spec. simpl. replace (if weof (ws s 0) then [] else []) with (@nil val) by (destruct (weof (ws s 0)); reflexivity).
    rewrite app_nil_r. change 0 with (Z.of_nat 0). rewrite sq_spec, Hlen. cbn [skipn]. apply firstn_all2. lia.
  - destruct (done_closed_reachable c seqgen_wf s Hr) as [B _]. apply (B eq_refl 0%nat); simpl; auto.
Qed.
End SeqGen.
