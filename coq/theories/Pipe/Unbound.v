(* C08 layer 2 - the pump goroutine of pipe.New (pipe/unbound.go) as a state machine over the abstract FIFO
   (layer 1, Queue.v, proves that the linked queue IS that FIFO) and three channels: [in] of capacity [cin], [eg] of capacity [ceg] (pipe.New gives
   both the capacity it is called with; they are kept apart so that the model can be fed whatever cap() reports)
   and the context flag. Executable definitions only (proofs: UnboundProofs.v).

     go func() {
       defer close(eg)
       for { select {                                              (* PMain *)
         case <-ctx.Done():
             for open := true; open; { select {                    (* PDrain *)
                 case x, ok := <-in: if !ok { flush(); return }; enq(&x, mq)
                 default: open = false } }
             flush(); return                                       (* PFlush: for mq.head != nil { eg <- head(mq); deq(mq) } *)
         case x, ok := <-in: if !ok { flush(); return }; enq(&x, mq)
         case emit(eg, mq) <- head(mq): deq(mq)
       } } }()

   The environment is not a process: an execution is a list of completed events. [EPump a] is one step of
   the pump, [a] names the select arm (any READY arm may be taken: over-approximates Go's random choice).
   On an unbuffered channel a communication is a JOINT step: [ESent x] with cap = 0 is enabled while the
   pump stands at a select with a receive arm (and commits that arm: the value goes straight into the queue),
   [ERcvd v] with cap = 0 while the pump offers the head on [eg] (main select or flush).
   Every event of the environment may wake the parked pump (a select whose arm became ready is committed to
   it at that moment): the pump is then [busy] until its own step [AWake] brings it to its next select/loop
   test; while busy it is parked nowhere, so no rendezvous is possible. This only matters when the driver does
   not wait for the pump between two moves: a quiescent state is never busy.

   [dev] holds one boolean per way in which the code shipped before the repair commit 26d9cef deviated; the
   theorems are about [repaired]; [shipped] is kept so that a regression is recognisable. *)
From Coq Require Import List Arith ZArith Bool.
From Golem Require Import Pipe.Chan08.
Import ListNotations.

Record dev := mkdev {
  pump_closes_in : bool;          (* `defer close(in)`: the pump closes the channel the sender owns *)
  drain_on_cancel : bool;         (* on Done: accept what the sender already handed over, then flush *)
  flush_on_sender_close : bool    (* on `!ok`: deliver the backlog before returning *)
}.
Definition repaired : dev := mkdev false true true.
Definition shipped : dev := mkdev true false false.

Inductive ppc := PMain | PDrain | PFlush | PRet | PDone.
Inductive arm := ADone | ARecv | ASend | ADefault | AReturn | AWake.

Record state := mkst {
  sent : list Z;                  (* ghost: values whose send completed, in order *)
  inbuf : list Z;                 (* buffer of [in] *)
  in_closed : bool;
  snd_closed : bool;              (* the sender has closed [in] *)
  q : list Z;                     (* the in-memory queue (abstract contents) *)
  egbuf : list Z;                 (* buffer of [eg] *)
  eg_closed : bool;
  rcvd : list Z;                  (* values whose receive completed, in order *)
  seen_closed : bool;             (* the receiver observed the closed receive side *)
  cancelled : bool;
  at_cancel : option (list Z);    (* ghost: [sent] at the moment of ECancel *)
  pc : ppc;
  busy : bool;                    (* the pump was woken by a rendezvous and has not come back to its select/loop yet *)
  panic : bool
}.

Inductive ev :=
| ESent (x : Z)                   (* a sender's send completes *)
| ERcvd (v : Z)                   (* the receiver's receive completes with value v *)
| ERcvdClosed                     (* the receiver's receive reports the closed channel *)
| ECloseSnd                       (* the sender closes its side *)
| ECancel
| EPump (a : arm).                (* internal step of the pump *)

Definition init : state := mkst [] [] false false [] [] false [] false false None PMain false false.

Definition crash (s : state) : state :=
  mkst (sent s) (inbuf s) (in_closed s) (snd_closed s) (q s) (egbuf s) (eg_closed s) (rcvd s) (seen_closed s)
       (cancelled s) (at_cancel s) (pc s) (busy s) true.
Definition goto (s : state) (p : ppc) : state :=
  mkst (sent s) (inbuf s) (in_closed s) (snd_closed s) (q s) (egbuf s) (eg_closed s) (rcvd s) (seen_closed s)
       (cancelled s) (at_cancel s) p (busy s) false.
(* enq(&x, mq) of a value taken from the buffer of [in] *)
Definition take_in (s : state) (x : Z) (r : list Z) : state :=
  mkst (sent s) r (in_closed s) (snd_closed s) (q s ++ [x]) (egbuf s) (eg_closed s) (rcvd s) (seen_closed s)
       (cancelled s) (at_cancel s) (pc s) (busy s) false.
(* eg <- head(mq) ; deq(mq)  into the buffer of [eg] *)
Definition put_eg (s : state) (y : Z) (r : list Z) : state :=
  mkst (sent s) (inbuf s) (in_closed s) (snd_closed s) r (egbuf s ++ [y]) (eg_closed s) (rcvd s) (seen_closed s)
       (cancelled s) (at_cancel s) (pc s) (busy s) false.
(* return: the deferred closes *)
Definition do_return (d : dev) (s : state) : state :=
  if pump_closes_in d && in_closed s then crash s                 (* close of closed channel *)
  else if eg_closed s then crash s
  else mkst (sent s) (inbuf s) (pump_closes_in d || in_closed s) (snd_closed s) (q s) (egbuf s) true (rcvd s)
            (seen_closed s) (cancelled s) (at_cancel s) PDone (busy s) false.

Definition wake (s : state) : state :=
  mkst (sent s) (inbuf s) (in_closed s) (snd_closed s) (q s) (egbuf s) (eg_closed s) (rcvd s) (seen_closed s)
       (cancelled s) (at_cancel s) (pc s) false false.

Definition pump (cin ceg : nat) (d : dev) (s : state) (a : arm) : option state :=
  if busy s then match a with AWake => Some (wake s) | _ => None end else
  match pc s, a with
  | PMain, ADone =>
      if cancelled s then Some (goto s (if drain_on_cancel d then PDrain else PFlush)) else None
  | PMain, ARecv =>
      match inbuf s with
      | x :: r => Some (take_in s x r)
      | [] => if in_closed s then Some (goto s (if flush_on_sender_close d then PFlush else PRet)) else None
      end
  | PMain, ASend | PFlush, ASend =>
      match q s with
      | y :: r => if eg_closed s then Some (crash s)              (* send on closed channel *)
                  else if has_room (egbuf s) ceg then Some (put_eg s y r) else None
      | [] => None                                                (* emit() = nil channel / loop exit *)
      end
  | PDrain, ARecv =>
      match inbuf s with
      | x :: r => Some (take_in s x r)
      | [] => if in_closed s then Some (goto s PFlush) else None
      end
  | PDrain, ADefault =>
      if is_nil (inbuf s) && negb (in_closed s) then Some (goto s PFlush) else None
  | PFlush, AReturn => if is_nil (q s) then Some (do_return d s) else None
  | PRet, AReturn => Some (do_return d s)
  | _, _ => None
  end.

Definition at_recv_select (p : ppc) : bool := match p with PMain | PDrain => true | _ => false end.
Definition at_send (p : ppc) : bool := match p with PMain | PFlush => true | _ => false end.

Definition step (cin ceg : nat) (d : dev) (s : state) (e : ev) : option state :=
  if panic s then None else
  match e with
  | ESent x =>
      if snd_closed s then None                                   (* a sender does not send after its own close *)
      else if in_closed s then Some (crash s)                     (* send on a channel the pump closed *)
      else if has_room (inbuf s) cin
      then Some (mkst (sent s ++ [x]) (inbuf s ++ [x]) (in_closed s) (snd_closed s) (q s) (egbuf s) (eg_closed s)
                      (rcvd s) (seen_closed s) (cancelled s) (at_cancel s) (pc s) true false)
      else if (cin =? 0) && at_recv_select (pc s) && negb (busy s)                 (* rendezvous with the pump's receive arm *)
      then Some (mkst (sent s ++ [x]) (inbuf s) (in_closed s) (snd_closed s) (q s ++ [x]) (egbuf s) (eg_closed s)
                      (rcvd s) (seen_closed s) (cancelled s) (at_cancel s) (pc s) true false)
      else None                                                   (* the send waits *)
  | ERcvd v =>
      match egbuf s with
      | y :: r =>
          if Z.eqb v y
          then Some (mkst (sent s) (inbuf s) (in_closed s) (snd_closed s) (q s) r (eg_closed s) (rcvd s ++ [v])
                          (seen_closed s) (cancelled s) (at_cancel s) (pc s) true false)
          else None
      | [] =>
          if negb (eg_closed s) && (ceg =? 0) && at_send (pc s) && negb (busy s)   (* rendezvous with the pump's send *)
          then match q s with
               | y :: r =>
                   if Z.eqb v y
                   then Some (mkst (sent s) (inbuf s) (in_closed s) (snd_closed s) r (egbuf s) (eg_closed s)
                                   (rcvd s ++ [v]) (seen_closed s) (cancelled s) (at_cancel s) (pc s) true false)
                   else None
               | [] => None
               end
          else None
      end
  | ERcvdClosed =>
      if eg_closed s && is_nil (egbuf s)
      then Some (mkst (sent s) (inbuf s) (in_closed s) (snd_closed s) (q s) (egbuf s) (eg_closed s) (rcvd s) true
                      (cancelled s) (at_cancel s) (pc s) (busy s) false)
      else None
  | ECloseSnd =>
      if snd_closed s then None                                   (* a sender closes once *)
      else if in_closed s then Some (crash s)                     (* close of a channel the pump closed *)
      else Some (mkst (sent s) (inbuf s) true true (q s) (egbuf s) (eg_closed s) (rcvd s) (seen_closed s)
                      (cancelled s) (at_cancel s) (pc s) true false)
  | ECancel =>
      if cancelled s then None
      else Some (mkst (sent s) (inbuf s) (in_closed s) (snd_closed s) (q s) (egbuf s) (eg_closed s) (rcvd s)
                      (seen_closed s) true (Some (sent s)) (pc s) true false)
  | EPump a => pump cin ceg d s a
  end.

Fixpoint exec_from (cin ceg : nat) (d : dev) (s : state) (tr : list ev) : option state :=
  match tr with
  | [] => Some s
  | e :: r => match step cin ceg d s e with Some s' => exec_from cin ceg d s' r | None => None end
  end.
Definition exec (cin ceg : nat) (d : dev) (tr : list ev) : option state := exec_from cin ceg d init tr.

Definition arms : list arm := [ADone; ARecv; ASend; ADefault; AReturn; AWake].
(* no internal step of the pump is enabled: the pump is parked (or gone) *)
Definition quiescent (cin ceg : nat) (d : dev) (s : state) : Prop := forall a, step cin ceg d s (EPump a) = None.
Definition quiescentb (cin ceg : nat) (d : dev) (s : state) : bool :=
  forallb (fun a => match step cin ceg d s (EPump a) with None => true | Some _ => false end) arms.

(* bound on what the pump and the receiver can still do without the sender *)
Definition rank (p : ppc) : nat := match p with PMain => 4 | PDrain => 3 | PFlush => 2 | PRet => 1 | PDone => 0 end.
Definition nu (s : state) : nat :=
  4 * length (inbuf s) + 3 * length (q s) + 2 * length (egbuf s) + 2 * rank (pc s)
  + (if busy s then 1 else 0).
