(* Emit under MAXIMAL PROGRESS with a consumer that keeps up (Pipe/PoolMaxProgress.v): the upper half of
   the pacing clause of C11.  The i-th application of f (i from 0) happens exactly at virtual time
   (i+1)*freq, and whenever the clock is allowed to move every result of the applications made so far has
   been received - one result per tick, no gap.  For every capacity of the value and error channels.
   (The lower half - never early, for ANY clock policy - is Pipe/PoolEmitTime.v.) *)
From Coq Require Import List ZArith NArith Bool Arith PeanoNat Lia.
From Golem Require Import Base.Lists Pipe.Pool Pipe.Stages Pipe.PoolEffects Pipe.PoolSteps Pipe.PoolStepCases
     Pipe.PoolInv Pipe.PoolInv2 Pipe.PoolSafe Pipe.PoolClosed Pipe.PoolStop Pipe.PoolLive Pipe.PoolSimple Pipe.PoolActs
     Pipe.PoolSeq Pipe.PoolStages Pipe.PoolErr Pipe.PoolGen Pipe.PoolGenCancel Pipe.PoolEmitTime Pipe.PoolMaxProgress.
Import ListNotations.
Open Scope nat_scope.

(* the statements of an Emit round after its sleep *)
Definition plain_act (a : act) : Prop := match a with ASend _ _ | APlain _ _ | AStop => True | _ => False end.

Definition no_env (s : state) : Prop := True.

(* rounds of the loop entered so far; the application of f of the current round happens AFTER its
   time.Sleep (the model computes the plan when the round starts, but nothing of it is visible before the
   sleep is over), so while the goroutine is in / before the sleep of round r-1 it has made r-1 calls *)
Definition rounds (s : state) : nat := length (wtaken (ws s 0)).
Definition emit_calls (s : state) : nat :=
  match wc (ws s 0) with
  | WSleep _ _ _ _ | WRun _ (ASleep _ :: _) => rounds s - 1
  | _ => rounds s
  end.

Lemma ok_vals_app f a b : ok_vals f (a ++ b) = ok_vals f a ++ ok_vals f b.
Proof. unfold ok_vals. apply flat_map_app. Qed.
Lemma err_vals_app f a b : err_vals f (a ++ b) = err_vals f a ++ err_vals f b.
Proof. unfold err_vals. apply flat_map_app. Qed.
Lemma ok_err_length f xs : length (ok_vals f xs) + length (err_vals f xs) = length xs.
Proof. induction xs as [|x xs IH]; simpl; auto. destruct (f x); simpl; rewrite ?app_length; simpl; lia. Qed.
Lemma zrange_length l n : length (zrange l n) = n.
Proof. revert l. induction n as [|n IH]; intros l; simpl; auto. Qed.

Section EmitPace.
Variables (freq : N) (f : Z -> res) (try : bool) (ocaps : list nat).
Let c := emit_cfg freq f try ocaps.

Definition emit_mp_reachable : state -> Prop := mp_reachable c all_outs no_env.

Local Notation tail l := (tail_of f try l).
Local Notation R s := (N.of_nat (rounds s)).
Local Notation R1 s := (N.of_nat (rounds s - 1)).

Lemma tail_plain l : Forall plain_act (tail l).
Proof. unfold tail_of, catch. destruct (f l); [repeat constructor|]. destruct try; repeat constructor. Qed.
Lemma tail_emits0 l : emits 0 (tail l) = ok_vals f [l].
Proof. unfold tail_of, catch. simpl. destruct (f l); simpl; auto. destruct try; reflexivity. Qed.
Lemma tail_emits1 l : emits 1 (tail l) = err_vals f [l].
Proof. unfold tail_of, catch. simpl. destruct (f l); simpl; auto. destruct try; reflexivity. Qed.

(* ---------- the invariant: where the goroutine is <-> what time it is ---------- *)
Inductive pace (s : state) : Prop :=
| PA_recv : wc (ws s 0) = WRecv -> now s = (R s * freq)%N -> pace s
| PA_pre : wc (ws s 0) = WRun false (ASleep freq :: tail (Z.of_nat (rounds s - 1))) -> 1 <= rounds s ->
    now s = (R1 s * freq)%N -> pace s
| PA_sleep u : wc (ws s 0) = WSleep u false false (tail (Z.of_nat (rounds s - 1))) -> 1 <= rounds s ->
    u = (R s * freq)%N -> (R1 s * freq <= now s)%N -> (now s <= u)%N -> pace s
| PA_post rest : wc (ws s 0) = WRun false rest -> Forall plain_act rest -> now s = (R s * freq)%N -> pace s
| PA_done : wc (ws s 0) = WDone -> (R s * freq <= now s)%N -> pace s.

Definition pinv (s : state) : Prop := wl (ws s 0) = Z.of_nat (rounds s) /\ pace s.

Lemma pinv_frame s s' : ws s' 0 = ws s 0 -> now s' = now s -> pinv s -> pinv s'.
Proof.
  intros Hw Hn [Hl H]. split; [unfold rounds; rewrite Hw; exact Hl|].
  destruct H as [Hc H1|Hc H0 H1|u Hc H0 H1 H2 H3|rest Hc H0 H1|Hc H1].
  - apply PA_recv; unfold rounds in *; rewrite ?Hw, ?Hn; auto.
  - apply PA_pre; unfold rounds in *; rewrite ?Hw, ?Hn; auto.
  - apply PA_sleep with u; unfold rounds in *; rewrite ?Hw, ?Hn; auto.
  - apply PA_post with rest; unfold rounds in *; rewrite ?Hw, ?Hn; auto.
  - apply PA_done; unfold rounds in *; rewrite ?Hw, ?Hn; auto.
Qed.

(* in a settled state the goroutine sleeps (timer not due) or has returned *)
Lemma pace_settled_ctl s :
  panicked s = false -> settled c all_outs s -> pace s ->
  wc (ws s 0) = WDone \/
  (exists u, wc (ws s 0) = WSleep u false false (tail (Z.of_nat (rounds s - 1))) /\ (now s < u)%N).
Proof.
  intros Hp [[Hq _] Hnr] H. apply no_receive_on_all in Hnr.
  assert (H0 : 0 < par c) by (simpl; lia).
  destruct (stuck_waits c s 0 (Hq 0 H0)) as [Hd|i Hc Hs Hb Hcl'|a t Hc|eof k v rest Hc Hr Hcl' Hcn
                                           |eof k v rest Hc Hr Hcl'|eof k rest Hc Hb Hcl' Hcn|u sel eof rest Hc Ht Hsel].
  - left; exact Hd.
  - simpl in Hs. discriminate.
  - exfalso. destruct H; congruence.
  - exfalso. eapply (no_receive_send c s 0 eof (ASend k v)); eauto. left; reflexivity.
  - exfalso. eapply (no_receive_send c s 0 eof (APlain k v)); eauto. right; reflexivity.
  - exfalso. destruct H as [Hc' _|Hc' _ _|u Hc' _ _ _ _|rest' Hc' Hf _|Hc' _]; try congruence.
    rewrite Hc in Hc'. inversion Hc'; subst. inversion Hf as [|? ? Hh _]. exact Hh.
  - right. destruct H as [Hc' _|Hc' _ _|u' Hc' _ _ _ _|rest' Hc' Hf _|Hc' _]; try congruence.
    rewrite Hc in Hc'. inversion Hc'; subst. exists u'. split; [exact Hc|exact Ht].
Qed.

Lemma rounds_take s : rounds (set_w s 0 (take c s 0 0%Z)) = S (rounds s).
Proof.
  unfold rounds. destruct (emit_take freq f try ocaps s) as [_ T2]. fold c in T2.
  cbn [set_w ws]. upd_simpl. rewrite T2, app_length. simpl. lia.
Qed.

Lemma pinv_worker s ch s' :
  cancelled s = false -> pinv s -> step_worker c s 0 ch = Some s' -> pinv s'.
Proof.
  intros Hcan [Hl HI] Hs. pose proof (step_worker_effect c s 0 ch s' Hs) as He.
  destruct He as [i a t rest Hsrc Hc Hb | Hsrc Hc | i Hsrc Hc Hb Hcl | ctl' Hcn Hdue Hsl Hsls
                 | eof a k0 v rest Hc Hs0 Hcl | eof k0 t r rest Hc Hb | dropped Hpd Hnd Hnr Hnc Hwhy
                 | eof a k0 v rest Hc Hs0 Hcl].
  - simpl in Hsrc. discriminate.
  - (* a new round starts *)
    destruct HI as [Hc' H1|Hc' H0 H1|u Hc' H0 H1 H2 H3|rest' Hc' H0 H1|Hc' H1]; try congruence.
    destruct (emit_take freq f try ocaps s) as [T1 T2]. fold c in T1, T2.
    assert (T3 : wl (take c s 0 0%Z) = (wl (ws s 0) + 1)%Z) by reflexivity.
    split.
    + rewrite rounds_take. cbn [set_w ws]. upd_simpl. rewrite T3, Hl. lia.
    + apply PA_pre; rewrite rounds_take.
      * cbn [set_w ws]. upd_simpl. rewrite T1, Hl. replace (S (rounds s) - 1) with (rounds s) by lia. reflexivity.
      * lia.
      * cbn [set_w now]. rewrite H1. replace (S (rounds s) - 1) with (rounds s) by lia. reflexivity.
  - simpl in Hsrc. discriminate.
  - (* silent control change *)
    assert (Hrd : rounds (set_w s 0 (with_ctl (ws s 0) ctl')) = rounds s) by (unfold rounds; simpl; upd_simpl; reflexivity).
    split; [rewrite Hrd; simpl; upd_simpl; exact Hl|].
    destruct HI as [Hc' H1|Hc' H0 H1|u Hc' H0 H1 H2 H3|rest' Hc' H0 H1|Hc' H1].
    + rewrite Hc' in Hcn. inversion Hcn.
    + (* going to sleep *)
      pose proof (Hsl false freq _ Hc') as E. subst ctl'.
      assert (HR : R s = (R1 s + 1)%N) by lia.
      apply PA_sleep with (now s + freq)%N; rewrite ?Hrd; cbn [set_w ws now]; upd_simpl; cbn [with_ctl wc]; auto; try lia.
    + (* the timer fires: exactly when due *)
      rewrite Hc' in Hcn. inversion Hcn; subst.
      pose proof (Hdue _ _ _ _ Hc') as Hd.
      apply PA_post with (tail (Z.of_nat (rounds s - 1))); rewrite ?Hrd; simpl; upd_simpl; simpl; auto using tail_plain. lia.
    + rewrite Hc' in Hcn. inversion Hcn as [E1 E2|eof h r Hsk E1 E2|eof h r u sel Hsk E1 E2|]; subst.
      * apply PA_recv; rewrite ?Hrd; simpl; upd_simpl; simpl; auto.
      * exfalso. inversion H0 as [|? ? Hh _]; subst. destruct Hsk as [->|[[k ->]|[[d ->]|[d ->]]]]; exact Hh.
      * exfalso. inversion H0 as [|? ? Hh _]; subst. destruct Hsk as [[d ->]|[d ->]]; exact Hh.
    + rewrite Hc' in Hcn. inversion Hcn.
  - (* a send completes into the buffer *)
    assert (Hrd : rounds (set_w (set_out s k0 (push (outs s k0) (0, v))) 0 (with_ctl (ws s 0) (WRun eof rest))) = rounds s)
      by (unfold rounds; simpl; upd_simpl; reflexivity).
    split; [rewrite Hrd; simpl; upd_simpl; exact Hl|].
    destruct HI as [Hc' H1|Hc' H0 H1|u Hc' H0 H1 H2 H3|rest' Hc' H0 H1|Hc' H1]; try congruence.
    + rewrite Hc in Hc'. inversion Hc'; subst. destruct Hs0 as [Hx|Hx]; discriminate.
    + rewrite Hc in Hc'. inversion Hc'; subst. inversion H0; subst.
      apply PA_post with rest; rewrite ?Hrd; simpl; upd_simpl; simpl; auto.
  - (* no token statements in Emit *)
    exfalso. destruct HI as [Hc' H1|Hc' H0 H1|u Hc' H0 H1 H2 H3|rest' Hc' H0 H1|Hc' H1]; try congruence.
    rewrite Hc in Hc'. inversion Hc'; subst. inversion H0 as [|? ? Hh _]. exact Hh.
  - (* the goroutine returns: only at the `return` after a failed application (no cancel) *)
    assert (Ef : finish c s 0 dropped =
                 close_all (set_w s 0 (mkW (wl (ws s 0)) WDone (wtaken (ws s 0)) (weof (ws s 0))
                                           (fun k => wdropped (ws s 0) k ++ emits k dropped))) [0; 1]) by reflexivity.
    rewrite Ef. set (s1 := set_w s 0 _).
    destruct (close_all_frame s1 [0; 1]) as (_ & Hws & _ & _ & Hn & _). cbv zeta in Hws, Hn.
    assert (Hrd : rounds (close_all s1 [0; 1]) = rounds s) by (unfold rounds; rewrite Hws; unfold s1; simpl; upd_simpl; reflexivity).
    split; [rewrite Hrd, Hws; unfold s1; simpl; upd_simpl; exact Hl|].
    apply PA_done; rewrite ?Hrd, ?Hws, ?Hn; unfold s1; simpl; upd_simpl; auto.
    destruct Hwhy as [Hx|[Hx|(eof & rest & Hx & _)]]; [congruence| |].
    + destruct HI as [Hc' H1|Hc' H0 H1|u Hc' H0 H1 H2 H3|rest' Hc' H0 H1|Hc' H1]; congruence.
    + destruct HI as [Hc' H1|Hc' H0 H1|u Hc' H0 H1 H2 H3|rest' Hc' H0 H1|Hc' H1]; try congruence. lia.
  - (* panic: excluded elsewhere; the goroutine record and the clock are unchanged *)
    apply pinv_frame with s; auto. split; assumption.
Qed.

Theorem pinv_mp_reachable s : emit_mp_reachable s -> pinv s.
Proof.
  revert s. apply (mp_reachable_inv c all_outs no_env pinv).
  - split; [reflexivity|]. apply PA_recv; simpl; auto.
  - intros s0 s' Hr HI Hp He.
    destruct He as [w ch s' Hw Hs | i x Hi Hcl | i Hi Hcl | k t v rest _ Hb | k v w eof a rest _ Hb Hcap Hcl Hw Hc Hs0
                   | | w a todo Hw Hc | Hcl Had Hcd | t Hse _ Hnt Hlt].
    + assert (w = 0) by (simpl in Hw; lia). subst w.
      eapply pinv_worker; eauto. apply (mp_not_cancelled c all_outs no_env s0 Hr).
    + simpl in Hi. lia.
    + simpl in Hi. lia.
    + apply pinv_frame with s0; auto.
    + (* rendezvous *)
      assert (w = 0) by (simpl in Hw; lia). subst w. destruct HI as [Hl HI].
      set (s1 := mkS _ _ _ _ _ _ _ _ _ _).
      assert (Hrd : rounds s1 = rounds s0) by (unfold rounds, s1; simpl; upd_simpl; reflexivity).
      split; [rewrite Hrd; unfold s1; simpl; upd_simpl; exact Hl|].
      destruct HI as [Hc' H1|Hc' H0 H1|u Hc' H0 H1 H2 H3|rest' Hc' H0 H1|Hc' H1]; try congruence.
      * rewrite Hc in Hc'. inversion Hc'; subst. destruct Hs0 as [Hx|Hx]; discriminate.
      * rewrite Hc in Hc'. inversion Hc'; subst. inversion H0; subst.
        apply PA_post with rest; rewrite ?Hrd; unfold s1; simpl; upd_simpl; simpl; auto.
    + exact HI.
    + assert (w = 0) by (simpl in Hw; lia). subst w. destruct HI as [_ HI].
      destruct HI; congruence.
    + simpl in Hcl. discriminate.
    + (* the clock moves: only while the goroutine sleeps, and not past its deadline *)
      destruct HI as [Hl HI].
      set (s1 := mkS _ _ _ _ _ _ _ _ _ _).
      assert (Hrd : rounds s1 = rounds s0) by reflexivity.
      split; [exact Hl|].
      destruct (pace_settled_ctl s0 Hp Hse HI) as [Hd|(u & Hc & Hu)].
      * destruct HI as [Hc' H1|Hc' H0 H1|u Hc' H0 H1 H2 H3|rest' Hc' H0 H1|Hc' H1]; try congruence.
        apply PA_done; rewrite ?Hrd; auto. unfold s1; simpl. lia.
      * destruct HI as [Hc' H1|Hc' H0 H1|u' Hc' H0 H1 H2 H3|rest' Hc' H0 H1|Hc' H1]; try congruence.
        assert (Eu : u' = u) by congruence. rewrite Eu in *. clear Eu Hc'.
        assert (Htu : (t <= u)%N). { apply Hnt. simpl. rewrite Hc. reflexivity. }
        apply PA_sleep with u; rewrite ?Hrd; auto; unfold s1; simpl; lia.
Qed.

(* ---------- no gap: what has been received in a settled state (any clock policy) ---------- *)
Lemma em_spec_ge2 k xs : forall l, 2 <= k -> spec c 0 k l xs = [].
Proof.
  induction xs as [|x xs IH]; intros l Hk; simpl; auto. rewrite (IH _ Hk), app_nil_r.
  destruct k as [|[|k]]; try lia. unfold catch. destruct (f l); [reflexivity|]. destruct try; reflexivity.
Qed.

Lemma emit_bufs_ge2 s k : reachable c s -> 2 <= k -> cbuf (outs s k) = [].
Proof.
  intros Hr Hk. pose proof (seq_stream c eq_refl s k Hr) as A.
  rewrite (em_full_spec freq f try ocaps), (em_spec_ge2 k _ _ Hk) in A.
  apply app_eq_nil in A. destruct A as [_ A]. apply app_eq_nil in A. destruct A as [A _].
  destruct (cbuf (outs s k)); [reflexivity|discriminate].
Qed.

Lemma emit_no_errors_before s ys a :
  reachable c s -> wtaken (ws s 0) = ys ++ [a] -> try = false -> existsb (is_err f) (zrange 0 (length ys)) = false.
Proof.
  intros Hr E Ht. pose proof (k_before c s 0%nat (Kinv_reachable c s Hr 0%nat)) as K.
  change (stopped c 0 0 (removelast (wtaken (ws s 0))) = false) in K.
  rewrite (em_stopped freq f try ocaps), Ht, E, removelast_app_one in K. exact K.
Qed.

Lemma emit_sleep_delivered s n u :
  reachable c s -> cancelled s = false -> no_receive c s ->
  wc (ws s 0) = WSleep u false false (tail (Z.of_nat n)) -> rounds s = S n ->
  delivered s 0 = ok_vals f (zrange 0 n) /\ delivered s 1 = err_vals f (zrange 0 n) /\
  (try = false -> existsb (is_err f) (zrange 0 n) = false).
Proof.
  intros Hr Hcn Hnr Hc Hrd. pose proof (nopanic c (emit_wf freq f try ocaps) s Hr) as Hp.
  pose proof (Kinv_reachable c s Hr 0%nat) as K. unfold rounds in Hrd.
  assert (Hst : forall k, delivered s k ++ emits k (tail (Z.of_nat n)) = spec c 0 k 0 (wtaken (ws s 0))).
  { intros k. pose proof (seq_stream c eq_refl s k Hr) as A.
    rewrite (em_full_spec freq f try ocaps), (no_receive_empty c s k Hp Hnr), (k_dropped c s 0%nat K Hcn k), Hc in A.
    simpl in A. rewrite app_nil_r in A. exact A. }
  split; [|split].
  - pose proof (Hst 0) as A. rewrite (em_spec0 freq f try ocaps), Hrd, zrange_snoc, ok_vals_app, tail_emits0 in A.
    simpl Z.add in A. apply app_inv_tail in A. exact A.
  - pose proof (Hst 1) as A. rewrite (em_spec1 freq f try ocaps), Hrd, zrange_snoc, err_vals_app, tail_emits1 in A.
    simpl Z.add in A. apply app_inv_tail in A. exact A.
  - intros Ht. destruct (list_snoc_cases (wtaken (ws s 0))) as [E|(ys & a & E)]; [rewrite E in Hrd; discriminate|].
    assert (Hn : length ys = n) by (rewrite E, app_length in Hrd; simpl in Hrd; lia).
    rewrite <- Hn. eapply emit_no_errors_before; eauto.
Qed.

Lemma emit_done_delivered s :
  reachable c s -> cancelled s = false -> no_receive c s -> wc (ws s 0) = WDone ->
  exists n e, rounds s = S n /\ try = false /\ existsb (is_err f) (zrange 0 n) = false /\ f (Z.of_nat n) = Err e /\
              delivered s 0 = ok_vals f (zrange 0 n) /\ delivered s 1 = [e] /\
              cclosed (outs s 0) = true /\ cclosed (outs s 1) = true.
Proof.
  intros Hr Hcn Hnr Hd. pose proof (nopanic c (emit_wf freq f try ocaps) s Hr) as Hp.
  pose proof (Kinv_reachable c s Hr 0%nat) as K.
  destruct (k_done c s 0%nat K Hcn Hd) as [He|[Hs|[_ Hpre]]]; [| |simpl in Hpre; discriminate].
  { exfalso. rewrite (noeof_reachable c s Hr 0%nat eq_refl) in He. discriminate. }
  change (stopped c 0 0 (wtaken (ws s 0)) = true) in Hs. rewrite (em_stopped freq f try ocaps) in Hs.
  apply andb_prop in Hs. destruct Hs as [Ht Hs]. apply negb_true_iff in Ht.
  destruct (list_snoc_cases (wtaken (ws s 0))) as [E|(ys & a & E)]; [rewrite E in Hs; discriminate|].
  pose proof (emit_no_errors_before s ys a Hr E Ht) as Hb.
  assert (Hlen : length (wtaken (ws s 0)) = S (length ys)) by (rewrite E, app_length; simpl; lia).
  rewrite Hlen, zrange_snoc, existsb_app, Hb in Hs. simpl in Hs. rewrite orb_false_r in Hs.
  unfold is_err in Hs. destruct (f (Z.of_nat (length ys))) as [v|e] eqn:Ef; [discriminate|].
  assert (Hst : forall k, delivered s k = spec c 0 k 0 (wtaken (ws s 0))).
  { intros k. pose proof (seq_stream c eq_refl s k Hr) as A.
    rewrite (em_full_spec freq f try ocaps), (no_receive_empty c s k Hp Hnr), (k_dropped c s 0%nat K Hcn k), Hd in A.
    simpl in A. rewrite app_nil_r in A. exact A. }
  exists (length ys), e. unfold rounds.
  destruct (done_closed_reachable c (emit_wf freq f try ocaps) s Hr) as [B _].
  repeat split; auto.
  - rewrite (Hst 0), (em_spec0 freq f try ocaps), Hlen, zrange_snoc, ok_vals_app. simpl. rewrite Ef. apply app_nil_r.
  - rewrite (Hst 1), (em_spec1 freq f try ocaps), Hlen, zrange_snoc, err_vals_app, (err_vals_noerr f _ Hb). simpl. now rewrite Ef.
  - apply (B eq_refl 0); simpl; auto.
  - apply (B eq_refl 0); simpl; auto.
Qed.

(* ---------- KEEPS UP ---------- *)
(* the goroutine is inside the time.Sleep of round n (it has made the calls f(0) .. f(n-1)), due at (n+1)*freq *)
Definition emit_sleeping (s : state) (n : nat) : Prop :=
  rounds s = S n /\ wc (ws s 0) = WSleep ((N.of_nat n + 1) * freq) false false (tail (Z.of_nat n)).

Theorem emit_keeps_up s :
  emit_mp_reachable s -> settled c all_outs s ->
  (exists n, emit_sleeping s n /\ emit_calls s = n /\
             (N.of_nat n * freq <= now s < (N.of_nat n + 1) * freq)%N /\
             delivered s 0 = ok_vals f (zrange 0 n) /\ delivered s 1 = err_vals f (zrange 0 n) /\
             (try = false -> existsb (is_err f) (zrange 0 n) = false))
  \/
  (exists n e, wc (ws s 0) = WDone /\ emit_calls s = S n /\ try = false /\
               existsb (is_err f) (zrange 0 n) = false /\ f (Z.of_nat n) = Err e /\
               delivered s 0 = ok_vals f (zrange 0 n) /\ delivered s 1 = [e] /\
               ((N.of_nat n + 1) * freq <= now s)%N /\
               cclosed (outs s 0) = true /\ cclosed (outs s 1) = true).
Proof.
  intros Hm Hse. pose proof (mp_reachable_reachable c all_outs no_env s Hm) as Hr.
  pose proof (mp_not_cancelled c all_outs no_env s Hm) as Hcn.
  pose proof (nopanic c (emit_wf freq f try ocaps) s Hr) as Hp.
  assert (Hnr : no_receive c s) by (apply no_receive_on_all; exact (proj2 Hse)).
  destruct (pinv_mp_reachable s Hm) as [Hl HI].
  destruct (pace_settled_ctl s Hp Hse HI) as [Hd|(u & Hc & Hu)].
  - right. destruct (emit_done_delivered s Hr Hcn Hnr Hd) as (n & e & Hrd & Ht & Hb & Hf & D0 & D1 & C0 & C1).
    exists n, e. unfold emit_calls. rewrite Hd.
    destruct HI as [Hc' H1|Hc' H0 H1|u Hc' H0 H1 H2 H3|rest' Hc' H0 H1|Hc' H1]; try congruence.
    repeat split; auto. rewrite Hrd in H1. lia.
  - left. destruct HI as [Hc' H1|Hc' H0 H1|u' Hc' H0 H1 H2 H3|rest' Hc' H0 H1|Hc' H1]; try congruence.
    assert (Eu : u = (R s * freq)%N) by congruence. clear Hc' H1 H3 u'.
    destruct (rounds s) as [|n] eqn:Hrd; [lia|]. replace (S n - 1) with n in * by lia.
    assert (HR : N.of_nat (S n) = (N.of_nat n + 1)%N) by lia. rewrite HR in Eu. subst u.
    exists n. unfold emit_sleeping, emit_calls. rewrite Hc, Hrd.
    destruct (emit_sleep_delivered s n _ Hr Hcn Hnr Hc Hrd) as (D0 & D1 & Hb).
    repeat split; auto. lia.
Qed.

(* in the words of the property: at the instant k*freq, once the activity of that instant has settled,
   exactly k applications have been made and every result has been received - value f(i) arrives at tick
   i+1 (with emit_not_early: not before) - unless a fail-fast Emit has returned at an earlier failing index *)
Theorem emit_one_per_tick s k :
  emit_mp_reachable s -> settled c all_outs s -> (0 < freq)%N -> now s = (N.of_nat k * freq)%N ->
  (emit_calls s = k /\ delivered s 0 = ok_vals f (zrange 0 k) /\ delivered s 1 = err_vals f (zrange 0 k))
  \/
  (try = false /\ exists n e, n < k /\ existsb (is_err f) (zrange 0 n) = false /\ f (Z.of_nat n) = Err e /\
                              emit_calls s = S n /\ delivered s 0 = ok_vals f (zrange 0 n) /\ delivered s 1 = [e]).
Proof.
  intros Hm Hse Hf Hk.
  destruct (emit_keeps_up s Hm Hse) as [(n & _ & Hcl & [H1 H2] & D0 & D1 & _)|(n & e & _ & Hcl & Ht & Hb & Hfe & D0 & D1 & Hn & _)].
  - left. assert (E : n = k) by nia. rewrite E in *. auto.
  - right. split; [exact Ht|]. exists n, e. repeat split; auto. nia.
Qed.

Corollary emit_one_per_tick_try s k :
  try = true -> emit_mp_reachable s -> settled c all_outs s -> (0 < freq)%N -> now s = (N.of_nat k * freq)%N ->
  emit_calls s = k /\ delivered s 0 = ok_vals f (zrange 0 k) /\ delivered s 1 = err_vals f (zrange 0 k).
Proof.
  intros Ht Hm Hse Hf Hk. destruct (emit_one_per_tick s k Hm Hse Hf Hk) as [H|[Hx _]]; [exact H|congruence].
Qed.

(* one result per tick: while Emit runs, the number of results received is the number of elapsed ticks *)
Theorem emit_rate s :
  emit_mp_reachable s -> settled c all_outs s -> (0 < freq)%N -> wc (ws s 0) <> WDone ->
  N.of_nat (length (delivered s 0) + length (delivered s 1)) = (now s / freq)%N.
Proof.
  intros Hm Hse Hf Hnd.
  destruct (emit_keeps_up s Hm Hse) as [(n & _ & _ & [H1 H2] & D0 & D1 & _)|(n & e & Hd & _)]; [|contradiction].
  rewrite D0, D1, ok_err_length, zrange_length.
  apply N.div_unique with (now s - N.of_nat n * freq)%N; lia.
Qed.

(* ---------- settled states, decidably (for examples) ---------- *)
Definition emit_settledb (s : state) : bool :=
  match cbuf (outs s 0), cbuf (outs s 1) with
  | [], [] => match wc (ws s 0) with
              | WSleep u false _ _ => N.ltb (now s) u
              | WDone => true
              | _ => false
              end
  | _, _ => false
  end.

Lemma emit_settledb_sound s : reachable c s -> emit_settledb s = true -> settled c all_outs s.
Proof.
  intros Hr H. unfold emit_settledb in H.
  destruct (cbuf (outs s 0)) eqn:B0; [|discriminate]. destruct (cbuf (outs s 1)) eqn:B1; [|discriminate].
  assert (Hb : forall k, cbuf (outs s k) = []).
  { intros [|[|k]]; auto. apply emit_bufs_ge2; auto. lia. }
  assert (Hfs : forall k v, find_sender s k v (par c) = None /\ forall ch, step_worker c s 0 ch = None).
  { intros k v. simpl. unfold step_worker.
    destruct (wc (ws s 0)) as [| | |u [|] eof rest|]; try discriminate; split; auto.
    intros ch. apply N.ltb_lt in H. destruct (N.leb_spec u (now s)); [lia|]. reflexivity. }
  split; [split|].
  - intros w Hw ch. assert (w = 0) by (simpl in Hw; lia). subst w. apply (proj2 (Hfs 0 0%Z)).
  - unfold step, step_ok. destruct (panicked s); reflexivity.
  - intros k v _. unfold step, step_ok. destruct (panicked s); [reflexivity|]. rewrite Hb.
    rewrite (proj1 (Hfs k v)). destruct (Nat.eqb (ccap (outs s k)) 0 && negb (cclosed (outs s k))); reflexivity.
Qed.

Definition emit_mp_run (tr : list ev) : option state := mp_run c all_outs emit_settledb (fun _ => true) (init c) tr.

Lemma emit_mp_run_sound tr s : emit_mp_run tr = Some s -> emit_mp_reachable s.
Proof.
  intros H. eapply (mp_run_sound c all_outs no_env emit_settledb (fun _ => true)); [| |apply MP_init|exact H].
  - intros s0 Hm. apply emit_settledb_sound. eapply mp_reachable_reachable; eauto.
  - intros; exact I.
Qed.

End EmitPace.

(* ---------- non-vacuity: concrete maximal-progress runs ---------- *)
Definition pace_ex_f (i : Z) : res := if Z.eqb i 1 then Err 7%Z else Ok (10 * i)%Z.
(* one period: the clock reaches the deadline, the goroutine wakes, the consumer takes what [rcv] says,
   the goroutine loops, starts the next round and goes to sleep *)
Definition pace_ex_round (t : N) (rcv : list ev) : list ev :=
  [EAdvance t; EW 0 false] ++ rcv ++ [EW 0 false; EW 0 false; EW 0 false].
(* Try, frequency 3, unbuffered values / error buffer 1:  f(0)=0 at 3, f(1) fails at 6, f(2)=20 at 9 *)
Definition pace_ex_tr : list ev :=
  [EW 0 false; EW 0 false] ++ pace_ex_round 3 [ERcvd 0 0%Z] ++ pace_ex_round 6 [EW 0 false; ERcvd 1 7%Z] ++
  pace_ex_round 9 [ERcvd 0 20%Z].
(* fail-fast: returns at the failing index 1 (time 6); afterwards no timer is pending and the clock is free *)
Definition pace_ex_tr_ff : list ev :=
  [EW 0 false; EW 0 false] ++ pace_ex_round 3 [ERcvd 0 0%Z] ++
  [EAdvance 5; EAdvance 6; EW 0 false; EW 0 false; ERcvd 1 7%Z; EW 0 false; EAdvance 100].

Example emit_mp_example :
  exists s, emit_mp_reachable 3 pace_ex_f true [0; 1] s /\ settled (emit_cfg 3 pace_ex_f true [0; 1]) all_outs s /\
            now s = 9%N /\ emit_calls s = 3 /\ delivered s 0 = [0; 20]%Z /\ delivered s 1 = [7]%Z.
Proof.
  destruct (emit_mp_run 3 pace_ex_f true [0; 1] pace_ex_tr) as [s|] eqn:E; [|vm_compute in E; discriminate].
  exists s. pose proof (emit_mp_run_sound _ _ _ _ _ _ E) as Hm. split; [exact Hm|].
  split.
  - apply emit_settledb_sound; [eapply mp_reachable_reachable; eauto|].
    vm_compute in E. injection E as <-. vm_compute. reflexivity.
  - vm_compute in E. injection E as <-. vm_compute. repeat split; reflexivity.
Qed.

Example emit_mp_example_failfast :
  exists s, emit_mp_reachable 3 pace_ex_f false [0; 1] s /\ settled (emit_cfg 3 pace_ex_f false [0; 1]) all_outs s /\
            now s = 100%N /\ wc (ws s 0) = WDone /\ emit_calls s = 2 /\ delivered s 0 = [0]%Z /\ delivered s 1 = [7]%Z.
Proof.
  destruct (emit_mp_run 3 pace_ex_f false [0; 1] pace_ex_tr_ff) as [s|] eqn:E; [|vm_compute in E; discriminate].
  exists s. pose proof (emit_mp_run_sound _ _ _ _ _ _ E) as Hm. split; [exact Hm|].
  split.
  - apply emit_settledb_sound; [eapply mp_reachable_reachable; eauto|].
    vm_compute in E. injection E as <-. vm_compute. reflexivity.
  - vm_compute in E. injection E as <-. vm_compute. repeat split; reflexivity.
Qed.

(* the policy bites: the clock may not jump over the deadline 3, nor move while a value is buffered *)
Example emit_mp_no_jump : emit_mp_run 3 pace_ex_f true [0; 1] [EW 0 false; EW 0 false; EAdvance 4] = None.
Proof. vm_compute. reflexivity. Qed.
Example emit_mp_no_lag :
  emit_mp_run 3 pace_ex_f true [1; 1]
    [EW 0 false; EW 0 false; EAdvance 3; EW 0 false; EW 0 false; EW 0 false; EW 0 false; EW 0 false; EAdvance 6] = None.
Proof. vm_compute. reflexivity. Qed.
