(* Stages with several goroutines (fork.*, Join): what is on an output is an interleaving of
   the per-worker streams - hence a permutation of the list image, nothing lost, duplicated or
   invented - for every distribution of elements over workers and every schedule. *)
From Coq Require Import List ZArith NArith Bool Arith PeanoNat Lia Permutation.
From Golem Require Import Base.Lists Pipe.Pool Pipe.PoolEffects Pipe.PoolSteps Pipe.PoolInv Pipe.PoolInv2
     Pipe.PoolSafe Pipe.PoolClosed Pipe.PoolStop Pipe.PoolLive Pipe.PoolSimple Pipe.PoolSeq.
Import ListNotations.

(* ---------- a tagged list is a shuffle of its per-tag sub-lists ---------- *)
Lemma concat_map_ext_in {A B} (f g : A -> list B) l :
  (forall a, In a l -> f a = g a) -> concat (map f l) = concat (map g l).
Proof. intros H. f_equal. apply map_ext_in. exact H. Qed.

Lemma mine_cons_same w v L : mine w ((w, v) :: L) = v :: mine w L.
Proof. unfold mine. simpl. now rewrite Nat.eqb_refl. Qed.
Lemma mine_cons_other w t v L : t <> w -> mine w ((t, v) :: L) = mine w L.
Proof. unfold mine. simpl. intros H. destruct (Nat.eqb_spec t w); [congruence|reflexivity]. Qed.

Lemma mine_partition n (L : list (nat * val)) :
  (forall t v, In (t, v) L -> t < n) ->
  Permutation (map snd L) (concat (map (fun w => mine w L) (seq 0 n))).
Proof.
  induction L as [|[t v] L IH]; intros H.
  - simpl. replace (concat (map (fun w => mine w []) (seq 0 n))) with (@nil val); [constructor|].
    induction (seq 0 n); simpl; auto.
  - assert (Ht : t < n) by (apply (H t v); left; reflexivity).
    assert (HL : forall t' v', In (t', v') L -> t' < n) by (intros t' v' Hin; apply (H t' v'); right; exact Hin).
    specialize (IH HL).
    assert (Hin : In t (seq 0 n)) by (apply in_seq; lia).
    destruct (in_split t (seq 0 n) Hin) as (l1 & l2 & Hs).
    assert (Hnd : NoDup (l1 ++ t :: l2)) by (rewrite <- Hs; apply seq_NoDup).
    apply NoDup_remove_2 in Hnd.
    rewrite Hs in *. rewrite !map_app, !concat_app in *. simpl map in *. simpl concat in *.
    rewrite mine_cons_same.
    rewrite (concat_map_ext_in (fun w => mine w ((t, v) :: L)) (fun w => mine w L) l1).
    2:{ intros a Ha. apply mine_cons_other. intros ->. apply Hnd. apply in_or_app. left. exact Ha. }
    rewrite (concat_map_ext_in (fun w => mine w ((t, v) :: L)) (fun w => mine w L) l2).
    2:{ intros a Ha. apply mine_cons_other. intros ->. apply Hnd. apply in_or_app. right. exact Ha. }
    simpl. eapply Permutation_trans; [apply perm_skip; exact IH|].
    apply Permutation_middle.
Qed.

Lemma Permutation_flat_map {A B} (f : A -> list B) l l' :
  Permutation l l' -> Permutation (flat_map f l) (flat_map f l').
Proof.
  induction 1; simpl; auto.
  - apply Permutation_app_head. auto.
  - rewrite !app_assoc. apply Permutation_app_tail. apply Permutation_app_comm.
  - eapply Permutation_trans; eauto.
Qed.

Lemma flat_map_concat_map {A B} (f : A -> list B) (ls : list (list A)) :
  flat_map f (concat ls) = concat (map (flat_map f) ls).
Proof. induction ls as [|l ls IH]; simpl; auto. now rewrite flat_map_app, IH. Qed.

Lemma concat_map_nil {A B} (l : list A) : concat (map (fun _ => @nil B) l) = [].
Proof. induction l; simpl; auto. Qed.

Lemma concat_zip_perm {T} (A B : nat -> list T) ws :
  Permutation (concat (map A ws) ++ concat (map B ws)) (concat (map (fun w => A w ++ B w) ws)).
Proof.
  induction ws as [|a ws IH]; simpl; [constructor|].
  rewrite <- !app_assoc. apply Permutation_app_head.
  eapply Permutation_trans; [apply Permutation_app_swap_app|]. apply Permutation_app_head. exact IH.
Qed.

Section Fork.
Variable c : cfg.
Variable g : val -> list act.
(* fork stage: all workers read input 0 and run the same stateless code *)
Hypothesis Hsrc : forall w, src c w = SIn 0.
Hypothesis Hplan : forall w l a, plan c w l a = (g a, l).
Hypothesis Heof : forall w l, on_eof c w l = [].

Lemma fk_spec w k l xs : spec c w k l xs = flat_map (fun a => emits k (g a)) xs.
Proof. revert l. induction xs as [|x xs IH]; intros l; simpl; auto. rewrite Hplan, IH. reflexivity. Qed.
Lemma fk_full_spec w k x : full_spec c w k x = flat_map (fun a => emits k (g a)) (wtaken x).
Proof. unfold full_spec. rewrite fk_spec, Heof. simpl. destruct (weof x); apply app_nil_r. Qed.

Definition img (k : nat) (xs : list val) : list val := flat_map (fun a => emits k (g a)) xs.

(* every element handed over is taken by exactly one worker (or still buffered) *)
Theorem fork_taken s :
  reachable c s ->
  Permutation (concat (map (fun w => wtaken (ws s w)) (seq 0 (par c))) ++ map snd (cbuf (ins s 0))) (sent s 0).
Proof.
  intros Hr. destruct (inv2_reachable c s Hr) as [A B]. pose proof (ctags_reachable c s Hr) as Ht.
  rewrite (A 0). apply Permutation_app_tail.
  rewrite (concat_map_ext_in _ (fun w => mine w (consumed s 0))) by (intros w _; apply B; auto).
  apply Permutation_sym. apply mine_partition. intros t v Hin. eapply Ht; eauto.
Qed.

(* SAFETY: what has reached output k so far (delivered or buffered), plus what the workers still
   hold or dropped on cancel, is a permutation of the image of what they took *)
Theorem fork_stream s k :
  reachable c s ->
  Permutation
    (delivered s k ++ map snd (cbuf (outs s k)) ++
     concat (map (fun w => pend k (wc (ws s w)) ++ wdropped (ws s w) k) (seq 0 (par c))))
    (img k (concat (map (fun w => wtaken (ws s w)) (seq 0 (par c))))).
Proof.
  intros Hr. pose proof (Inv1_reachable c s Hr) as HI. pose proof (tags_reachable c s Hr) as Ht.
  unfold img. rewrite flat_map_concat_map, map_map.
  assert (E : concat (map (fun w => flat_map (fun a => emits k (g a)) (wtaken (ws s w))) (seq 0 (par c))) =
              concat (map (fun w => mine w (rcvd s k ++ cbuf (outs s k)) ++ pend k (wc (ws s w)) ++ wdropped (ws s w) k)
                          (seq 0 (par c)))).
  { apply concat_map_ext_in. intros w _. destruct (HI w k) as (A & _).
    rewrite <- fk_full_spec with (w := w). symmetry. exact A. }
  rewrite E. clear E.
  unfold delivered. rewrite app_assoc, <- map_app.
  eapply Permutation_trans;
    [apply Permutation_app_tail; apply (mine_partition (par c) (rcvd s k ++ cbuf (outs s k)) (Ht k))|].
  apply (concat_zip_perm (fun w => mine w (rcvd s k ++ cbuf (outs s k)))
                         (fun w => pend k (wc (ws s w)) ++ wdropped (ws s w) k)).
Qed.

(* COMPLETION of a fork stage *)
Hypothesis WF : wf_cfg c.
Hypothesis SC : simple_cfg c.
Hypothesis Hcloser : closer c = true.

Theorem fork_complete s :
  reachable c s -> cancelled s = false -> quiescent c s -> no_receive c s -> cclosed (ins s 0) = true ->
  (forall w, w < par c -> wc (ws s w) = WDone) /\
  (forall k, In k (closes c) -> cclosed (outs s k) = true) /\
  (forall k, Permutation (delivered s k) (img k (concat (map (fun w => wtaken (ws s w)) (seq 0 (par c)))))).
Proof.
  intros Hr Hcn Hq Hnr Hin.
  pose proof (nopanic c WF s Hr) as Hp.
  destruct (drain c s Hp Hq Hnr) as [Hd Hcd].
  - intros w Hw i Hs. rewrite Hsrc in Hs. inversion Hs; subst. exact Hin.
  - intros w Hw. pose proof (simple_reachable c SC s Hr w) as Hs.
    destruct (wc (ws s w)) as [| | ? [|[] ?] | |]; simpl in Hs; auto; inversion Hs; auto.
  - split; [exact Hd|]. split.
    + intros k Hk. destruct (done_closed_reachable c WF s Hr) as [_ B]. apply B; auto.
    + intros k. pose proof (fork_stream s k Hr) as HP.
      rewrite (no_receive_empty c s k Hp Hnr) in HP. simpl in HP.
      replace (concat (map (fun w => pend k (wc (ws s w)) ++ wdropped (ws s w) k) (seq 0 (par c)))) with (@nil val) in HP.
      * now rewrite app_nil_r in HP.
      * symmetry. rewrite (concat_map_ext_in _ (fun _ => [])).
        -- apply concat_map_nil.
        -- intros w Hw. apply in_seq in Hw. rewrite (Hd w) by lia. simpl.
           apply (k_dropped c s w (Kinv_reachable c s Hr w) Hcn).
Qed.

End Fork.

Section Join.
Variable c : cfg.
(* Join: goroutine i copies input i to the shared output 0 *)
Hypothesis Hsrc : forall w, src c w = SIn w.
Hypothesis Hplan : forall w l a, plan c w l a = ([ASend 0 a], l).
Hypothesis Heof : forall w l, on_eof c w l = [].
Hypothesis Hpre : forall w, pre c w (l0 c w) = true.

Lemma jn_spec w l xs : spec c w 0 l xs = xs.
Proof. revert l. induction xs as [|x xs IH]; intros l; simpl; auto. rewrite Hplan. simpl. now rewrite IH. Qed.
Lemma jn_full_spec w x : full_spec c w 0 x = wtaken x.
Proof. unfold full_spec. rewrite jn_spec, Heof. simpl. destruct (weof x); apply app_nil_r. Qed.
Lemma jn_stopped w l xs : stopped c w l xs = false.
Proof. revert l. induction xs as [|x xs IH]; intros l; simpl; auto. rewrite Hplan. simpl. apply IH. Qed.

(* worker i has taken exactly the handed-over elements of input i, minus what is still buffered *)
Theorem join_taken s i : reachable c s -> sent s i = wtaken (ws s i) ++ map snd (cbuf (ins s i)).
Proof.
  intros Hr. destruct (inv2_reachable c s Hr) as [A B]. pose proof (csrc_reachable c s Hr) as Hc.
  rewrite (B i i (Hsrc i)), mine_all; [apply A|].
  intros t v Hin. specialize (Hc i t v Hin). rewrite Hsrc in Hc. inversion Hc. reflexivity.
Qed.

(* SAFETY: the output, with its ghost origin tags, is an interleaving of prefixes of the inputs:
   the values it carries are [delivered], every tag is an input index, and the sub-sequence tagged i
   is a prefix of what was handed over on input i (per-input order kept, nothing duplicated or invented) *)
Theorem join_interleaving s :
  reachable c s ->
  map snd (rcvd s 0) = delivered s 0 /\
  (forall t v, In (t, v) (rcvd s 0) -> t < par c) /\
  (forall i, prefix (mine i (rcvd s 0)) (sent s i)) /\
  Permutation (delivered s 0) (concat (map (fun i => mine i (rcvd s 0)) (seq 0 (par c)))).
Proof.
  intros Hr. split; [reflexivity|]. pose proof (tags_reachable c s Hr) as Ht.
  assert (Htr : forall t v, In (t, v) (rcvd s 0) -> t < par c).
  { intros t v Hin. apply (Ht 0 t v). apply in_or_app. left. exact Hin. }
  split; [exact Htr|]. split.
  - intros i. destruct (Inv1_reachable c s Hr i 0) as (A & _). rewrite jn_full_spec, mine_app, <- app_assoc in A.
    eapply prefix_trans; [eapply prefix_of_app; exact A|]. eapply prefix_of_app. symmetry. apply join_taken. exact Hr.
  - apply mine_partition. exact Htr.
Qed.

Hypothesis WF : wf_cfg c.
Hypothesis SC : simple_cfg c.
Hypothesis Hcloser : closer c = true.

(* a goroutine that has returned without cancel has seen the end of its input: closed and drained *)
Lemma join_done_eof s w :
  reachable c s -> cancelled s = false -> wc (ws s w) = WDone ->
  cclosed (ins s w) = true /\ cbuf (ins s w) = [] /\ wtaken (ws s w) = sent s w.
Proof.
  intros Hr Hcn Hd. pose proof (Kinv_reachable c s Hr w) as K.
  destruct (k_done c s w K Hcn Hd) as [He|[Hs|[_ Hp]]].
  - destruct (k_input c s w K He w (Hsrc w)) as [Hb Hcl]. repeat split; auto.
    rewrite (join_taken s w Hr), Hb. simpl. now rewrite app_nil_r.
  - rewrite jn_stopped in Hs. discriminate.
  - rewrite Hpre in Hp. discriminate.
Qed.

(* the output closes only after every input has closed and been drained (unless cancelled) *)
Theorem join_close_only_after s :
  reachable c s -> cancelled s = false -> In 0 (closes c) -> cclosed (outs s 0) = true ->
  forall i, i < par c -> cclosed (ins s i) = true /\ cbuf (ins s i) = [] /\ wtaken (ws s i) = sent s i.
Proof.
  intros Hr Hcn Hin Hcl i Hi.
  pose proof (closed_after_done c WF s 0 Hr Hcl) as Hd. rewrite Hcloser in Hd.
  apply join_done_eof; auto.
Qed.

(* COMPLETION: all inputs closed, nothing enabled, nothing left to receive *)
Theorem join_complete s :
  reachable c s -> cancelled s = false -> quiescent c s -> no_receive c s ->
  (forall i, i < par c -> cclosed (ins s i) = true) ->
  (forall i, i < par c -> mine i (rcvd s 0) = sent s i) /\
  Permutation (delivered s 0) (concat (map (fun i => sent s i) (seq 0 (par c)))) /\
  (forall k, In k (closes c) -> cclosed (outs s k) = true) /\
  (forall w, w < par c -> wc (ws s w) = WDone).
Proof.
  intros Hr Hcn Hq Hnr Hin.
  pose proof (nopanic c WF s Hr) as Hp.
  destruct (drain c s Hp Hq Hnr) as [Hd Hcd].
  - intros w Hw i Hs. rewrite Hsrc in Hs. inversion Hs; subst. apply Hin; auto.
  - intros w Hw. pose proof (simple_reachable c SC s Hr w) as Hs.
    destruct (wc (ws s w)) as [| | ? [|[] ?] | |]; simpl in Hs; auto; inversion Hs; auto.
  - assert (Hm : forall i, i < par c -> mine i (rcvd s 0) = sent s i).
    { intros i Hi. destruct (Inv1_reachable c s Hr i 0) as (A & _).
      rewrite jn_full_spec, (no_receive_empty c s 0 Hp Hnr), app_nil_r, (Hd i Hi) in A. simpl in A.
      rewrite (k_dropped c s i (Kinv_reachable c s Hr i) Hcn), app_nil_r in A.
      destruct (join_done_eof s i Hr Hcn (Hd i Hi)) as (_ & _ & E). congruence. }
    split; [exact Hm|]. split; [|split; [|exact Hd]].
    + destruct (join_interleaving s Hr) as (_ & _ & _ & HP).
      rewrite (concat_map_ext_in _ (fun i => sent s i)) in HP; auto.
      intros i Hi. apply in_seq in Hi. apply Hm. lia.
    + intros k Hk. destruct (done_closed_reachable c WF s Hr) as [_ B]. apply B; auto.
Qed.

End Join.
