(* Further invariants of the Pool machine: conservation of the inputs (every element taken
   exactly once), producer tags, and NOPANIC (no send on a closed channel, no double close). *)
From Coq Require Import List ZArith NArith Bool Arith PeanoNat Lia.
From Golem Require Import Pipe.Pool Pipe.PoolEffects Pipe.PoolSteps Pipe.PoolInv.
Import ListNotations.

Section Inv2.
Variable c : cfg.

(* ---------- conservation: sent = consumed ++ still buffered; taken_w = what w consumed ---------- *)
Definition inv2 (s : state) : Prop :=
  (forall i, sent s i = map snd (consumed s i) ++ map snd (cbuf (ins s i))) /\
  (forall w i, src c w = SIn i -> wtaken (ws s w) = mine w (consumed s i)).

Lemma inv2_init : inv2 (init c).
Proof. split; intros; reflexivity. Qed.

Lemma inv2_frame s s' :
  ins s' = ins s -> sent s' = sent s -> consumed s' = consumed s ->
  (forall w, wtaken (ws s' w) = wtaken (ws s w)) -> inv2 s -> inv2 s'.
Proof.
  intros Hi Hs Hc Hw [A B]. split.
  - intros i. rewrite Hi, Hs, Hc. apply A.
  - intros w i Hsrc. rewrite Hw, Hc. apply B; auto.
Qed.

Lemma close_all_wtaken s ks w : wtaken (ws (close_all s ks) w) = wtaken (ws s w).
Proof. destruct (close_all_frame s ks) as (_ & H & _). simpl in H. now rewrite H. Qed.

Lemma take_wtaken s w a : wtaken (take c s w a) = wtaken (ws s w) ++ [a].
Proof. apply (take_fields c s w a). Qed.

Lemma inv2_weffect s w s' : inv2 s -> weffect c s w s' -> inv2 s'.
Proof.
  intros HI He.
  destruct He as [i a t rest Hsrc Hc Hb | Hsrc Hc | i Hsrc Hc Hb Hcl | ctl' Hcn Hdue Hsl Hsls
                 | eof a k0 v rest Hc Hs Hcl | eof k0 t r rest Hc Hb | dropped Hp Hnd Hnr Hnc Hwhy | eof a k0 v rest Hc Hs Hcl].
  - destruct HI as [A B]. split; simpl.
    + intros i'. destruct (Nat.eq_dec i' i) as [->|Hi]; upd_simpl; auto.
      rewrite A. simpl. rewrite Hb. simpl. rewrite map_app. simpl. rewrite <- app_assoc. reflexivity.
    + intros w' i' Hs'. destruct (Nat.eq_dec w' w) as [->|Hw]; upd_simpl.
      * assert (i' = i) by congruence. subst. upd_simpl.
        rewrite take_wtaken, mine_app, mine_one_same, (B w i); auto.
      * destruct (Nat.eq_dec i' i) as [->|Hi]; upd_simpl; auto.
        rewrite mine_app, mine_one_other, app_nil_r; auto.
  - destruct HI as [A B]. split; simpl; auto.
    intros w' i' Hs'. destruct (Nat.eq_dec w' w) as [->|Hw]; upd_simpl; auto. congruence.
  - apply inv2_frame with s; auto. intros w'. simpl. destruct (Nat.eq_dec w' w) as [->|Hw]; upd_simpl; auto.
  - apply inv2_frame with s; auto. intros w'. simpl. destruct (Nat.eq_dec w' w) as [->|Hw]; upd_simpl; auto.
  - apply inv2_frame with s; auto. intros w'. simpl. destruct (Nat.eq_dec w' w) as [->|Hw]; upd_simpl; auto.
  - apply inv2_frame with s; auto. intros w'. simpl. destruct (Nat.eq_dec w' w) as [->|Hw]; upd_simpl; auto.
  - unfold finish. set (s1 := set_w s w _).
    assert (H1 : inv2 s1).
    { apply inv2_frame with s; auto. intros w'. unfold s1. simpl.
      destruct (Nat.eq_dec w' w) as [->|Hw]; upd_simpl; auto. }
    destruct (closer c); auto.
    destruct (close_all_frame s1 (wcloses c w)) as (Hi & _ & _ & _ & _ & Hs & Hc & _). simpl in *.
    apply inv2_frame with s1; auto. intros w'. apply close_all_wtaken.
  - apply inv2_frame with s; auto.
Qed.

Theorem inv2_step s e s' : inv2 s -> step c s e = Some s' -> inv2 s'.
Proof.
  intros HI Hs. destruct (step_effect c s e s' Hs) as [_ He].
  destruct He as [i x Hi Hcl | i Hi Hcl | k t v rest Hb | k v w eof a rest Hb Hcap Hcl Hw Hc Hs0 | | | w s' Hw He
                 | w a todo Hw Hc | Hcl Had Hcd | t Ht].
  - destruct HI as [A B]. split; simpl; auto. intros i'.
    destruct (Nat.eq_dec i' i) as [->|Hi']; upd_simpl; auto. simpl.
    rewrite A, map_app, app_assoc. reflexivity.
  - destruct HI as [A B]. split; simpl; auto. intros i'.
    destruct (Nat.eq_dec i' i) as [->|Hi']; upd_simpl; simpl; auto.
  - apply inv2_frame with s; auto.
  - apply inv2_frame with s; auto. intros w'. simpl. destruct (Nat.eq_dec w' w) as [->|Hw']; upd_simpl; auto.
  - exact HI.
  - apply inv2_frame with s; auto.
  - eapply inv2_weffect; eauto.
  - apply inv2_frame with s; auto. intros w'. simpl. destruct (Nat.eq_dec w' w) as [->|Hw']; upd_simpl; auto.
  - destruct (close_all_frame s (closes c)) as (Hi & Hws & _ & _ & _ & Hs1 & Hc1 & _). simpl in *.
    apply inv2_frame with s; simpl; auto. intros w'. now rewrite Hws.
  - apply inv2_frame with s; auto.
Qed.

Theorem inv2_reachable s : reachable c s -> inv2 s.
Proof. apply reachable_inv; [apply inv2_init|apply inv2_step]. Qed.

(* ---------- producer tags are worker indices ---------- *)
Definition tags_ok (s : state) : Prop :=
  forall k t v, In (t, v) (rcvd s k ++ cbuf (outs s k)) -> t < par c.

Lemma tags_init : tags_ok (init c).
Proof. intros k t v H. simpl in H. contradiction. Qed.

Lemma tags_same s s' :
  (forall k, rcvd s' k ++ cbuf (outs s' k) = rcvd s k ++ cbuf (outs s k)) -> tags_ok s -> tags_ok s'.
Proof. intros H HI k t v Hin. rewrite H in Hin. eapply HI; eauto. Qed.

Lemma tags_push s k0 w v0 :
  w < par c -> tags_ok s ->
  forall s', rcvd s' = rcvd s -> (forall k, cbuf (outs s' k) = cbuf (upd (outs s) k0 (push (outs s k0) (w, v0)) k)) ->
  tags_ok s'.
Proof.
  intros Hw HI s' Hr Hb k t v Hin. rewrite Hr, Hb in Hin.
  destruct (Nat.eq_dec k k0) as [->|Hk]; upd_simpl_in Hin; [|eapply HI; eauto].
  simpl in Hin. rewrite app_assoc in Hin. apply in_app_or in Hin. destruct Hin as [Hin|Hin].
  - eapply HI; eauto.
  - simpl in Hin. destruct Hin as [Hin|[]]. inversion Hin; subst. exact Hw.
Qed.

Lemma tags_weffect s w s' : w < par c -> tags_ok s -> weffect c s w s' -> tags_ok s'.
Proof.
  intros Hw HI He.
  destruct He as [i a t rest Hsrc Hc Hb | Hsrc Hc | i Hsrc Hc Hb Hcl | ctl' Hcn Hdue Hsl Hsls
                 | eof a k0 v rest Hc Hs Hcl | eof k0 t r rest Hc Hb | dropped Hp Hnd Hnr Hnc Hwhy | eof a k0 v rest Hc Hs Hcl];
    try (apply tags_same with s; auto; fail).
  - eapply tags_push with (k0 := k0) (v0 := v); eauto.
  - apply tags_same with s; auto. intros k. simpl.
    destruct (Nat.eq_dec k k0) as [->|Hk]; upd_simpl; auto. simpl. rewrite Hb. simpl.
    rewrite <- app_assoc. reflexivity.
  - unfold finish. set (s1 := set_w s w _). destruct (closer c).
    + apply tags_same with s; auto.
    + apply tags_same with s; auto. intros k. now rewrite close_all_streams.
Qed.

Theorem tags_step s e s' : tags_ok s -> step c s e = Some s' -> tags_ok s'.
Proof.
  intros HI Hs. destruct (step_effect c s e s' Hs) as [_ He].
  destruct He as [i x Hi Hcl | i Hi Hcl | k t v rest Hb | k v w eof a rest Hb Hcap Hcl Hw Hc Hs0 | | | w s' Hw He
                 | w a todo Hw Hc | Hcl Had Hcd | t Ht];
    try (apply tags_same with s; auto; fail).
  - apply tags_same with s; auto. intros k'. simpl.
    destruct (Nat.eq_dec k' k) as [->|Hk]; upd_simpl; auto. simpl. rewrite Hb. simpl.
    rewrite <- app_assoc. reflexivity.
  - intros k' t v' Hin. simpl in Hin.
    destruct (Nat.eq_dec k' k) as [->|Hk]; upd_simpl_in Hin; [|eapply HI; eauto].
    rewrite Hb, app_nil_r in Hin. apply in_app_or in Hin. destruct Hin as [Hin|Hin].
    + eapply (HI k). apply in_or_app. left. exact Hin.
    + simpl in Hin. destruct Hin as [Hin|[]]. inversion Hin; subst. exact Hw.
  - eapply tags_weffect; eauto.
  - apply tags_same with s; auto. intros k. simpl. apply close_all_streams.
Qed.

Theorem tags_reachable s : reachable c s -> tags_ok s.
Proof. apply reachable_inv; [apply tags_init|apply tags_step]. Qed.


(* ---------- the takers recorded in [consumed] are worker indices ---------- *)
Definition ctags_ok (s : state) : Prop := forall i t a, In (t, a) (consumed s i) -> t < par c.

Lemma ctags_same s s' : consumed s' = consumed s -> ctags_ok s -> ctags_ok s'.
Proof. intros H HI i t a Hin. rewrite H in Hin. eapply HI; eauto. Qed.

Theorem ctags_step s e s' : ctags_ok s -> step c s e = Some s' -> ctags_ok s'.
Proof.
  intros HI Hs. destruct (step_effect c s e s' Hs) as [_ He].
  destruct He as [i x Hi Hcl | i Hi Hcl | k t v rest Hb | k v w eof a rest Hb Hcap Hcl Hw Hc Hs0 | | | w s' Hw He
                 | w a todo Hw Hc | Hcl Had Hcd | t Ht];
    try (apply ctags_same with s; auto; fail).
  - destruct He as [i a t rest Hsrc Hc Hb | Hsrc Hc | i Hsrc Hc Hb Hcl | ctl' Hcn Hdue Hsl Hsls
                   | eof a k0 v rest Hc Hs0 Hcl | eof k0 t r rest Hc Hb | dropped Hp Hnd Hnr Hnc Hwhy | eof a k0 v rest Hc Hs0 Hcl];
      try (apply ctags_same with s; auto; fail).
    + intros i' t' a' Hin. simpl in Hin. destruct (Nat.eq_dec i' i) as [->|Hne]; upd_simpl_in Hin; [|eapply HI; eauto].
      apply in_app_or in Hin. destruct Hin as [Hin|[Hin|[]]]; [eapply HI; eauto|]. inversion Hin; subst. exact Hw.
    + unfold finish. destruct (closer c); [apply ctags_same with s; auto|].
      apply ctags_same with s; auto. apply (close_all_frame (set_w s w _) (wcloses c w)).
  - apply ctags_same with s; auto. simpl. apply (close_all_frame s (closes c)).
Qed.

Theorem ctags_reachable s : reachable c s -> ctags_ok s.
Proof. apply reachable_inv; [|apply ctags_step]. intros i t a H. simpl in H. contradiction. Qed.


(* ---------- only workers reading input i consume from it ---------- *)
Definition csrc_ok (s : state) : Prop := forall i t a, In (t, a) (consumed s i) -> src c t = SIn i.

Theorem csrc_step s e s' : csrc_ok s -> step c s e = Some s' -> csrc_ok s'.
Proof.
  intros HI Hs. destruct (step_effect c s e s' Hs) as [_ He].
  assert (Hsame : consumed s' = consumed s -> csrc_ok s').
  { intros E i t a Hin. rewrite E in Hin. eapply HI; eauto. }
  destruct He as [i x Hi Hcl | i Hi Hcl | k t v rest Hb | k v w eof a rest Hb Hcap Hcl Hw Hc Hs0 | | | w s' Hw He
                 | w a todo Hw Hc | Hcl Had Hcd | t Ht]; try (apply Hsame; reflexivity).
  - destruct He as [i a t rest Hsrc Hc Hb | Hsrc Hc | i Hsrc Hc Hb Hcl | ctl' Hcn Hdue Hsl Hsls
                   | eof a k0 v rest Hc Hs0 Hcl | eof k0 t r rest Hc Hb | dropped Hp Hnd Hnr Hnc Hwhy | eof a k0 v rest Hc Hs0 Hcl];
      try (apply Hsame; reflexivity).
    + intros i' t' a' Hin. simpl in Hin. destruct (Nat.eq_dec i' i) as [->|Hne]; upd_simpl_in Hin; [|eapply HI; eauto].
      apply in_app_or in Hin. destruct Hin as [Hin|[Hin|[]]]; [eapply HI; eauto|]. inversion Hin; subst. exact Hsrc.
    + apply Hsame. unfold finish. destruct (closer c); auto. apply (close_all_frame (set_w s w _) (wcloses c w)).
  - apply Hsame. simpl. apply (close_all_frame s (closes c)).
Qed.

Theorem csrc_reachable s : reachable c s -> csrc_ok s.
Proof. apply reachable_inv; [|apply csrc_step]. intros i t a H. simpl in H. contradiction. Qed.

End Inv2.
