(* Instances of the Pool machine: one per stage of pipe/pipe.go and pipe/fork/fork.go,
   written next to the Go text they mirror.  Definitions only - executable - no proofs.

   Channel numbering of a stage: out 0 = the value output; out 1 = the error channel
   (Map, FMap, Unfold, Emit), the second output (Partition) or the token channel
   (Throttling).  User functions are arbitrary Coq functions here; the case checker
   instantiates them with coded families (Check/PoolCodes.v). *)
From Coq Require Import List ZArith NArith Bool Arith.
From Golem Require Import Pipe.Pool.
Import ListNotations.
Open Scope Z_scope.

Inductive res := Ok (v : Z) | Err (e : Z).

(* f.catch(ctx, err, exx):  pure/puref: `exx <- err; return false`;  try/tryf: select{exx<-err | Done} ; true *)
Definition catch (try : bool) (e : Z) : list act :=
  if try then [ASend 1 e] else [APlain 1 e; AStop].

(* pipe.Map: val, err = f.Apply(a); if err != nil { if !f.catch(..) {return}; continue }; select{out<-val | Done} *)
Definition plan_map (f : Z -> res) (try : bool) (l a : Z) : list act * Z :=
  (match f a with Ok v => [ASend 0 v] | Err e => catch try e end, l).

(* pipe.FMap: err := fmap.Apply(ctx, a, out) (the arrow sends vs on out) ; catch / continue ; poll Done *)
Definition plan_fmap (f : Z -> list Z * option Z) (try : bool) (l a : Z) : list act * Z :=
  (let '(vs, oe) := f a in
   map (ASend 0) vs ++ match oe with None => [APoll] | Some e => catch try e end, l).

(* pipe.Filter: if take, err := f.Apply(a); take && err == nil { select{out<-a | Done} } *)
Definition plan_filter (p : Z -> bool) (l a : Z) : list act * Z :=
  (if p a then [ASend 0 a] else [], l).

(* pipe.Partition: select { case sel(f.Apply(a)) <- a: case <-Done: return } *)
Definition plan_partition (p : Z -> bool) (l a : Z) : list act * Z :=
  ([ASend (if p a then 0%nat else 1%nat) a], l).

(* pipe.Take: if n <= 0 {return}; for a = range in { select{out<-a | Done}; n--; if n == 0 {return} } *)
Definition plan_take (l a : Z) : list act * Z :=
  ([ASend 0 a] ++ (if Z.eqb (l - 1) 0 then [AStop] else []), l - 1).
Definition pre_take (l : Z) : bool := Z.ltb 0 l.

(* pipe.TakeWhile: if take, err := f.Apply(a); !take || err != nil {return}; select{out<-a | Done} *)
Definition plan_takewhile (p : Z -> bool) (l a : Z) : list act * Z :=
  (if p a then [ASend 0 a] else [AStop], l).

(* pipe.ForEach / pipe.Void: f.Apply(x); select { case <-Done: return; default: } *)
Definition plan_poll (l a : Z) : list act * Z := ([APoll], l).

(* pipe.Fold: acc = m.Combine(acc, x); poll Done;  after the loop: done <- acc *)
Definition plan_fold (combine : Z -> Z -> Z) (l a : Z) : list act * Z := ([APoll], combine l a).
Definition eof_fold (l : Z) : list act := [APlain 0 l].

(* pipe.Join: for x := range c { select{out<-x | Done} } *)
Definition plan_copy (l a : Z) : list act * Z := ([ASend 0 a], l).

(* pipe.Unfold: for { select{out<-seed | Done}; seed, err = f.Apply(seed); catch / continue } *)
Definition plan_unfold (f : Z -> res) (try : bool) (l _a : Z) : list act * Z :=
  match f l with
  | Ok v => ([ASend 0 l], v)
  | Err e => ([ASend 0 l] ++ catch try e, 0)   (* a failing coded function returns the zero value *)
  end.

(* pipe.Emit: for i := 0; ; i++ { time.Sleep(freq); val, err = f.Apply(i); catch / continue; select{out<-val | Done} } *)
Definition plan_emit (freq : N) (f : Z -> res) (try : bool) (l _a : Z) : list act * Z :=
  (ASleep freq :: match f l with Ok v => [ASend 0 v] | Err e => catch try e end, l + 1).

(* pipe.Throttling, pacer: for { ops x select{ctl<-{} | Done}; select{<-time.After(interval) | Done} } *)
Definition plan_pacer (ops : nat) (interval : N) (l _a : Z) : list act * Z :=
  (repeat (ASend 1 0) ops ++ [ASleepSel interval], l).
(* pipe.Throttling, data: for a = range in { select{<-ctl | Done}; select{out<-a | Done} } *)
Definition plan_throttled (l a : Z) : list act * Z := ([ATok 1; ASend 0 a], l).

(* pipe.Seq: out := make(chan T, len(xs)); for _, x := range xs { out <- x }; close(out)  - run by the caller itself,
   so it is complete before anybody sees the channel; ToSeq is the consumer that receives until closed *)
Definition plan_seq (xs : list Z) (l _a : Z) : list act * Z :=
  match nth_error xs (Z.to_nat l) with
  | Some v => ([APlain 0 v], l + 1)
  | None => ([AStop], l)
  end.

(* pipe.StdErr: go func() { for err = range exx { if err != nil { slog.Error(..) } } }()  - no context, no output:
   the goroutine reads until exx is closed; logging is the user-visible "call" *)
Definition plan_sink (l a : Z) : list act * Z := ([], l).

Definition no_eof (l : Z) : list act := [].
Definition always (l : Z) : bool := true.

Definition nth_cap (l : list nat) (i : nat) : nat := nth i l 0%nat.

(* a sequential stage: one goroutine reading input 0, closing [cl] with deferred closes *)
Definition seq_stage (pl : Z -> Z -> list act * Z) (eof : Z -> list act) (pr : Z -> bool) (init : Z)
           (cl : list nat) (icaps ocaps : list nat) : cfg :=
  mkCfg 1 (fun _ => SIn 0) (fun _ => pl) (fun _ => eof) (fun _ => pr) (fun _ => init)
        false false [] (fun _ => cl) 1 (nth_cap icaps) (nth_cap ocaps).

(* a generator stage: one goroutine without input *)
Definition gen_stage (pl : Z -> Z -> list act * Z) (init : Z) (cl : list nat) (ocaps : list nat) : cfg :=
  mkCfg 1 (fun _ => SGen) (fun _ => pl) (fun _ => no_eof) (fun _ => always) (fun _ => init)
        false false [] (fun _ => cl) 0 (fun _ => 0%nat) (nth_cap ocaps).

(* a fork stage: n goroutines sharing input 0, a wg.Wait() goroutine closing [cl] *)
Definition fork_stage (n : nat) (gate : bool) (pl : Z -> Z -> list act * Z) (cl : list nat) (icaps ocaps : list nat) : cfg :=
  mkCfg n (fun _ => SIn 0) (fun _ => pl) (fun _ => no_eof) (fun _ => always) (fun _ => 0)
        gate true cl (fun _ => []) 1 (nth_cap icaps) (nth_cap ocaps).

(* pipe.Join over n inputs: goroutine i copies input i; wg.Wait() then close(out) *)
Definition join_stage (n : nat) (icaps ocaps : list nat) : cfg :=
  mkCfg n (fun w => SIn w) (fun _ => plan_copy) (fun _ => no_eof) (fun _ => always) (fun _ => 0)
        false true [0%nat] (fun _ => []) n (nth_cap icaps) (nth_cap ocaps).

(* pipe.Throttling: worker 0 = pacer (closes ctl = out 1), worker 1 = data (closes out 0) *)
Definition throttle_stage (ops : nat) (interval : N) (icaps ocaps : list nat) : cfg :=
  mkCfg 2 (fun w => match w with 0%nat => SGen | _ => SIn 0 end)
        (fun w => match w with 0%nat => plan_pacer ops interval | _ => plan_throttled end)
        (fun _ => no_eof) (fun _ => always) (fun _ => 0)
        false false [] (fun w => match w with 0%nat => [1%nat] | _ => [0%nat] end)
        1 (nth_cap icaps) (nth_cap ocaps).
