(* INV: the per-worker stream invariant of the Pool machine, for every reachable state -
   every schedule, any capacities, with or without cancel (DESIGN.md 2.1.3). *)
From Coq Require Import List ZArith NArith Bool Arith PeanoNat Lia.
From Golem Require Import Pipe.Pool Pipe.PoolEffects Pipe.PoolSteps.
Import ListNotations.

(* ---------- mine ---------- *)
Lemma mine_app w a b : mine w (a ++ b) = mine w a ++ mine w b.
Proof. unfold mine. now rewrite filter_app, map_app. Qed.
Lemma mine_one_same w v : mine w [(w, v)] = [v].
Proof. unfold mine. simpl. now rewrite Nat.eqb_refl. Qed.
Lemma mine_one_other w w' v : w' <> w -> mine w [(w', v)] = [].
Proof. unfold mine. simpl. intros H. destruct (Nat.eqb_spec w' w); [congruence|reflexivity]. Qed.
Lemma mine_push_same w l b v : mine w (l ++ b ++ [(w, v)]) = mine w (l ++ b) ++ [v].
Proof. now rewrite app_assoc, mine_app, mine_one_same. Qed.
Lemma mine_push_other w w' l b v : w' <> w -> mine w (l ++ b ++ [(w', v)]) = mine w (l ++ b).
Proof. intros H. now rewrite app_assoc, mine_app, mine_one_other, app_nil_r. Qed.
Lemma mine_nil w : mine w [] = [].
Proof. reflexivity. Qed.

Lemma emits_sends k a k' v rest :
  sends_on a k' v -> emits k (a :: rest) = if Nat.eqb k' k then v :: emits k rest else emits k rest.
Proof. intros [->| ->]; reflexivity. Qed.

Section Inv.
Variable c : cfg.

Lemma spec_app w k l xs ys :
  spec c w k l (xs ++ ys) = spec c w k l xs ++ spec c w k (lafter c w l xs) ys.
Proof.
  revert l. induction xs as [|x xs IH]; intros l; simpl; [reflexivity|].
  destruct (plan c w l x) as [acts l'] eqn:E. simpl. rewrite IH, app_assoc. reflexivity.
Qed.
Lemma lafter_app w l xs ys : lafter c w l (xs ++ ys) = lafter c w (lafter c w l xs) ys.
Proof. revert l. induction xs as [|x xs IH]; intros l; simpl; auto. Qed.
Lemma spec_snoc w k l xs a :
  spec c w k l (xs ++ [a]) = spec c w k l xs ++ emits k (fst (plan c w (lafter c w l xs) a)).
Proof.
  rewrite spec_app. simpl. destruct (plan c w (lafter c w l xs) a); simpl. now rewrite app_nil_r.
Qed.

(* what worker w has put on channel k (received or still buffered), plus what it is about to
   send, plus what it abandoned on a Done arm, is exactly the list image of what it took *)
Definition inv1 (s : state) (w k : nat) : Prop :=
  let x := ws s w in
  mine w (rcvd s k ++ cbuf (outs s k)) ++ pend k (wc x) ++ wdropped x k = full_spec c w k x
  /\ (in_loop (wc x) = true -> wdropped x k = [])
  /\ wl x = lafter c w (l0 c w) (wtaken x)
  /\ (weof x = true -> eof_of (wc x) = true \/ wc x = WDone).

Definition Inv1 (s : state) : Prop := forall w k, inv1 s w k.

Lemma inv1_frame s s' w k :
  ws s' w = ws s w ->
  mine w (rcvd s' k ++ cbuf (outs s' k)) = mine w (rcvd s k ++ cbuf (outs s k)) ->
  inv1 s w k -> inv1 s' w k.
Proof. unfold inv1. intros -> ->. auto. Qed.

Lemma Inv1_init : Inv1 (init c).
Proof.
  intros w k. unfold inv1, init, init_worker, full_spec. simpl.
  destruct (pre c w (l0 c w)); simpl; repeat split; auto; discriminate.
Qed.

(* a step that changes neither the workers nor the (received ++ buffered) streams *)
Lemma Inv1_same_streams s s' :
  ws s' = ws s -> (forall k, rcvd s' k ++ cbuf (outs s' k) = rcvd s k ++ cbuf (outs s k)) ->
  Inv1 s -> Inv1 s'.
Proof.
  intros Hw Hs HI w k. apply inv1_frame with s; auto; [rewrite Hw|rewrite Hs]; reflexivity.
Qed.

Lemma take_fields s w a :
  let x := take c s w a in
  wtaken x = wtaken (ws s w) ++ [a] /\ weof x = weof (ws s w) /\ wdropped x = wdropped (ws s w) /\
  wl x = snd (plan c w (wl (ws s w)) a) /\
  (forall k, pend k (wc x) = emits k (fst (plan c w (wl (ws s w)) a))) /\
  wc x <> WDone /\ eof_of (wc x) = false.
Proof.
  unfold take. destruct (plan c w (wl (ws s w)) a) as [acts l'] eqn:E. simpl.
  destruct (gated c); simpl; repeat split; auto; discriminate.
Qed.

Lemma inv1_take s w a k :
  wc (ws s w) = WRecv -> inv1 s w k ->
  forall s', ws s' w = take c s w a ->
  mine w (rcvd s' k ++ cbuf (outs s' k)) = mine w (rcvd s k ++ cbuf (outs s k)) ->
  inv1 s' w k.
Proof.
  intros Hc (A & B & C & D) s' Hw Hm. unfold inv1. rewrite Hw, Hm.
  destruct (take_fields s w a) as (T1 & T2 & T3 & T4 & T5 & T6 & T7).
  rewrite Hc in A, B, D. simpl in A, B, D. specialize (B eq_refl).
  assert (Hweof : weof (ws s w) = false).
  { destruct (weof (ws s w)); auto. destruct (D eq_refl); discriminate. }
  unfold full_spec in *. rewrite T1, T2, T3, T5, Hweof in *. rewrite B in *.
  rewrite !app_nil_r in *. rewrite spec_snoc, <- C, <- A.
  repeat split; auto.
  - rewrite T4, lafter_app, <- C. reflexivity.
  - discriminate.
Qed.

Lemma close_all_streams s ks k :
  rcvd (close_all s ks) k ++ cbuf (outs (close_all s ks) k) = rcvd s k ++ cbuf (outs s k).
Proof.
  destruct (close_all_frame s ks) as (_ & _ & _ & _ & _ & _ & _ & Hr & Hb & _).
  simpl in *. rewrite Hr, Hb. reflexivity.
Qed.

Local Arguments emits : simpl never.

Ltac fin :=
  repeat split; auto;
  try (let Hx := fresh "Hx" in
       intros Hx;
       match goal with
       | D : _ -> _ \/ _ |- _ => destruct (D Hx) as [?|?]; [left; assumption|discriminate]
       end).

Lemma Inv1_weffect s w s' : Inv1 s -> weffect c s w s' -> Inv1 s'.
Proof.
  intros HI He w' k. specialize (HI w' k) as H0.
  destruct He as [i a t rest Hsrc Hc Hb | Hsrc Hc | i Hsrc Hc Hb Hcl | ctl' Hcn Hdue Hsl Hsls
                 | eof a k0 v rest Hc Hs Hcl | eof k0 t r rest Hc Hb | dropped Hp Hnd Hnr Hnc Hwhy | eof a k0 v rest Hc Hs Hcl].
  - (* take from input *)
    destruct (Nat.eq_dec w' w) as [->|Hw].
    + eapply inv1_take; eauto; simpl; upd_simpl; reflexivity.
    + apply inv1_frame with s; simpl; upd_simpl; auto.
  - (* generator round *)
    destruct (Nat.eq_dec w' w) as [->|Hw].
    + eapply inv1_take; eauto; simpl; upd_simpl; reflexivity.
    + apply inv1_frame with s; simpl; upd_simpl; auto.
  - (* end of input *)
    destruct (Nat.eq_dec w' w) as [->|Hw].
    + destruct H0 as (A & B & C & D). unfold inv1. simpl. upd_simpl. simpl.
      rewrite Hc in A, B, D. simpl in A, B, D. specialize (B eq_refl).
      assert (Hweof : weof (ws s w) = false).
      { destruct (weof (ws s w)); auto. destruct (D eq_refl); discriminate. }
      unfold full_spec in *. simpl. rewrite Hweof in A. rewrite B in *. rewrite !app_nil_r in *.
      rewrite <- C, <- A. fin.
    + apply inv1_frame with s; simpl; upd_simpl; auto.
  - (* silent control change *)
    destruct (Nat.eq_dec w' w) as [->|Hw].
    + destruct H0 as (A & B & C & D). unfold inv1. simpl. upd_simpl. simpl.
      unfold full_spec in *. simpl. rewrite (ctl_next_pend _ _ k Hcn).
      destruct (ctl_next_not_done _ _ Hcn) as (N1 & N2 & N3).
      assert (Hin : in_loop (wc (ws s w)) = true) by (destruct (wc (ws s w)); auto; congruence).
      repeat split; auto.
      intros Hw. destruct (D Hw) as [D1|D1]; [|congruence].
      destruct (ctl_next_eof _ _ Hcn) as [He|[_ He]]; [left; congruence|congruence].
    + apply inv1_frame with s; simpl; upd_simpl; auto.
  - (* push *)
    destruct (Nat.eq_dec w' w) as [->|Hw].
    + destruct H0 as (A & B & C & D). unfold inv1. simpl. upd_simpl. simpl.
      rewrite Hc in A, B, D. simpl in A, B, D. specialize (B eq_refl).
      unfold full_spec in *. simpl. rewrite B in *.
      rewrite (emits_sends k _ _ _ _ Hs) in A.
      destruct (Nat.eq_dec k k0) as [->|Hk].
      * upd_simpl. simpl. rewrite Nat.eqb_refl in A.
        rewrite mine_push_same, <- app_assoc. simpl. rewrite <- A.
        fin.
      * upd_simpl. destruct (Nat.eqb_spec k0 k); [congruence|]. fin.
    + apply inv1_frame with s; simpl; upd_simpl; auto.
      destruct (Nat.eq_dec k k0) as [->|Hk]; upd_simpl; auto. simpl.
      rewrite mine_push_other; auto.
  - (* token taken from channel k0 *)
    assert (Hstr : rcvd s k ++ cbuf (outs s k) =
                   upd (rcvd s) k0 (rcvd s k0 ++ [t]) k ++ cbuf (upd (outs s) k0 (pop (outs s k0)) k)).
    { destruct (Nat.eq_dec k k0) as [->|Hk]; upd_simpl; auto. simpl. rewrite Hb. simpl.
      rewrite <- app_assoc. reflexivity. }
    destruct (Nat.eq_dec w' w) as [->|Hw].
    + destruct H0 as (A & B & C & D). unfold inv1. simpl. upd_simpl. simpl. rewrite <- Hstr.
      rewrite Hc in A, B, D. simpl in A, B, D. unfold full_spec in *. simpl. fin.
    + apply inv1_frame with s; simpl; upd_simpl; auto. rewrite <- Hstr. reflexivity.
  - (* finish *)
    unfold finish.
    set (s1 := set_w s w _).
    assert (H1 : inv1 s1 w' k).
    { destruct (Nat.eq_dec w' w) as [->|Hw].
      - destruct H0 as (A & B & C & D). unfold inv1, s1. simpl. upd_simpl. simpl.
        assert (Hin : in_loop (wc (ws s w)) = true) by (destruct (wc (ws s w)); auto; congruence).
        specialize (B Hin). unfold full_spec in *. simpl. rewrite B in *. rewrite Hp in A.
        simpl. rewrite <- A, app_nil_r. repeat split; auto; discriminate.
      - apply inv1_frame with s; unfold s1; simpl; upd_simpl; auto. }
    destruct (closer c); [exact H1|].
    apply inv1_frame with s1; auto.
    + destruct (close_all_frame s1 (wcloses c w)) as (_ & Hws & _). simpl in Hws. now rewrite Hws.
    + now rewrite close_all_streams.
  - (* panic *)
    apply inv1_frame with s; auto.
Qed.

Theorem Inv1_step s e s' : Inv1 s -> step c s e = Some s' -> Inv1 s'.
Proof.
  intros HI Hs. destruct (step_effect c s e s' Hs) as [_ He].
  destruct He as [i x Hi Hcl | i Hi Hcl | k t v rest Hb | k v w eof a rest Hb Hcap Hcl Hw Hc Hs0 | | | w s' Hw He
                 | w a todo Hw Hc | Hcl Had Hcd | t Ht].
  - apply Inv1_same_streams with s; auto.
  - apply Inv1_same_streams with s; auto.
  - apply Inv1_same_streams with s; auto. intros k'. simpl.
    destruct (Nat.eq_dec k' k) as [->|Hk]; upd_simpl; auto. simpl. rewrite Hb. simpl.
    rewrite <- app_assoc. reflexivity.
  - (* rendezvous: the value goes from worker w's hands straight to the consumer *)
    intros w' k'. specialize (HI w' k') as H0.
    destruct (Nat.eq_dec w' w) as [->|Hww].
    + destruct H0 as (A & B & C & D). unfold inv1. simpl. upd_simpl. simpl.
      rewrite Hc in A, B, D. simpl in A, B, D. specialize (B eq_refl).
      unfold full_spec in *. simpl. rewrite B in *.
      rewrite (emits_sends k' _ _ _ _ Hs0) in A.
      destruct (Nat.eq_dec k' k) as [->|Hk].
      * upd_simpl. rewrite Nat.eqb_refl in A. rewrite Hb in *. rewrite app_nil_r in *.
        rewrite mine_app, mine_one_same, <- app_assoc. simpl. rewrite <- A. fin.
      * upd_simpl. destruct (Nat.eqb_spec k k'); [congruence|]. fin.
    + apply inv1_frame with s; simpl; upd_simpl; auto.
      destruct (Nat.eq_dec k' k) as [->|Hk]; upd_simpl; auto.
      rewrite Hb, !app_nil_r, mine_app, mine_one_other, app_nil_r; auto.
  - exact HI.
  - apply Inv1_same_streams with s; auto.
  - eapply Inv1_weffect; eauto.
  - (* the gated user function returns *)
    intros w' k. specialize (HI w' k) as H0.
    destruct (Nat.eq_dec w' w) as [->|Hww].
    + destruct H0 as (A & B & C & D). unfold inv1. simpl. upd_simpl. simpl.
      rewrite Hc in A, B, D. simpl in A, B, D. unfold full_spec in *. simpl.
      repeat split; auto. intros Hx. destruct (D Hx); discriminate.
    + apply inv1_frame with s; simpl; upd_simpl; auto.
  - (* closer *)
    simpl. intros w k.
    destruct (close_all_frame s (closes c)) as (_ & Hws & _ & _ & _ & _ & _ & Hr & Hb & _). simpl in *.
    apply inv1_frame with s; simpl; auto; [now rewrite Hws|now rewrite Hr, Hb].
  - apply Inv1_same_streams with s; auto.
Qed.

Theorem Inv1_reachable s : reachable c s -> Inv1 s.
Proof. apply reachable_inv; [apply Inv1_init|apply Inv1_step]. Qed.

End Inv.
