(* Progress of the Pool machine (deadlock freedom): what a blocked worker is waiting for,
   DRAIN (inputs closed + nothing left to receive + nothing enabled => everybody has finished
   and everything is closed) and CANCEL-EXIT (cancelled + inputs closed + nothing enabled =>
   everybody has finished, whether or not anybody ever receives). *)
From Coq Require Import List ZArith NArith Bool Arith PeanoNat Lia.
From Golem Require Import Pipe.Pool Pipe.PoolEffects Pipe.PoolSteps Pipe.PoolInv Pipe.PoolSafe.
Import ListNotations.

Section Live.
Variable c : cfg.

Definition worker_stuck (s : state) (w : nat) : Prop := forall ch, step_worker c s w ch = None.
Definition quiescent (s : state) : Prop :=
  (forall w, w < par c -> worker_stuck s w) /\ step c s ECloser = None.

(* what a worker that cannot move is waiting for *)
Inductive waits (s : state) (w : nat) : Prop :=
| W_done : wc (ws s w) = WDone -> waits s w
| W_input i : wc (ws s w) = WRecv -> src c w = SIn i -> cbuf (ins s i) = [] -> cclosed (ins s i) = false -> waits s w
| W_gate a t : wc (ws s w) = WCall a t -> waits s w
| W_send eof k v rest : wc (ws s w) = WRun eof (ASend k v :: rest) ->
    has_room (outs s k) = false -> cclosed (outs s k) = false -> cancelled s = false -> waits s w
| W_plain eof k v rest : wc (ws s w) = WRun eof (APlain k v :: rest) ->
    has_room (outs s k) = false -> cclosed (outs s k) = false -> waits s w
| W_token eof k rest : wc (ws s w) = WRun eof (ATok k :: rest) ->
    cbuf (outs s k) = [] -> cclosed (outs s k) = false -> cancelled s = false -> waits s w
| W_timer u sel eof rest : wc (ws s w) = WSleep u sel eof rest ->
    (now s < u)%N -> (sel = false \/ cancelled s = false) -> waits s w.

Lemma stuck_waits s w : worker_stuck s w -> waits s w.
Proof.
  intros H. pose proof (H false) as Hf. pose proof (H true) as Ht.
  unfold step_worker in Hf, Ht.
  destruct (wc (ws s w)) as [|a0 t0|eof todo|u sel eof todo|] eqn:Ec.
  - destruct (src c w) as [i|] eqn:Es; [|discriminate].
    destruct (cbuf (ins s i)) as [|[t a] r] eqn:Eb; [|discriminate].
    destruct (cclosed (ins s i)) eqn:Ecl; [discriminate|]. eapply W_input; eauto.
  - eapply W_gate; eauto.
  - destruct todo as [|a rest]; [destruct eof; discriminate|].
    destruct a as [k v|k v| |k|d|d|]; try discriminate.
    + destruct (cancelled s) eqn:Ecn.
      * (* cancelled: with choice = true the Done arm is always available *)
        destruct ((has_room (outs s k) || cclosed (outs s k)) && (negb true || true)) eqn:E1; [|discriminate].
        destruct (cclosed (outs s k)); discriminate.
      * destruct ((has_room (outs s k) || cclosed (outs s k)) && (negb false || false)) eqn:E1.
        { destruct (cclosed (outs s k)); discriminate. }
        simpl in E1. rewrite andb_true_r in E1. apply orb_false_elim in E1. destruct E1.
        eapply W_send; eauto.
    + destruct (cclosed (outs s k)) eqn:Ecl; [discriminate|].
      destruct (has_room (outs s k)) eqn:Er; [discriminate|]. eapply W_plain; eauto.
    + destruct (cancelled s); discriminate.
    + destruct (cancelled s) eqn:Ecn.
      * destruct ((negb match cbuf (outs s k) with [] => true | _ :: _ => false end || cclosed (outs s k)) && (negb true || true)) eqn:E1; [|discriminate].
        destruct (cbuf (outs s k)); discriminate.
      * destruct ((negb match cbuf (outs s k) with [] => true | _ :: _ => false end || cclosed (outs s k)) && (negb false || false)) eqn:E1.
        { destruct (cbuf (outs s k)); discriminate. }
        simpl in E1. rewrite andb_true_r in E1. apply orb_false_elim in E1. destruct E1 as [E1 E2].
        destruct (cbuf (outs s k)) eqn:Eb; [|discriminate]. eapply W_token; eauto.
  - destruct (N.leb u (now s)) eqn:El.
    + exfalso. simpl in Ht. rewrite orb_true_r in Ht. discriminate.
    + apply N.leb_gt in El. simpl in Hf.
      destruct (sel && cancelled s) eqn:Esc; [discriminate|].
      eapply W_timer; eauto. apply andb_false_iff in Esc. tauto.
  - apply W_done; auto.
Qed.

(* a worker blocked in a send is found by the consumer's rendezvous *)
Lemma find_sender_complete s k v n w eof a rest :
  w < n -> wc (ws s w) = WRun eof (a :: rest) -> sends_on a k v -> find_sender s k v n <> None.
Proof.
  induction n as [|m IH]; [lia|]. intros Hw Hc Hs. simpl.
  destruct (Nat.eq_dec w m) as [->|Hne].
  - rewrite Hc. destruct Hs as [->| ->]; rewrite Nat.eqb_refl, Z.eqb_refl; simpl; discriminate.
  - assert (Hlt : w < m) by lia. specialize (IH Hlt Hc Hs).
    destruct (wc (ws s m)) as [| | ? [|[k' v'|k' v'| | | | |] ?] | |]; auto;
      destruct (Nat.eqb k' k && Z.eqb v' v); auto; discriminate.
Qed.

Definition no_receive (s : state) : Prop := forall k v, step c s (ERcvd k v) = None.

Lemma no_receive_empty s k : panicked s = false -> no_receive s -> cbuf (outs s k) = [].
Proof.
  intros Hp H. destruct (cbuf (outs s k)) as [|[t v] r] eqn:Eb; auto. exfalso.
  specialize (H k v). unfold step, step_ok in H. rewrite Hp, Eb, Z.eqb_refl in H. discriminate.
Qed.

Lemma no_receive_send s w eof a k v rest :
  panicked s = false -> no_receive s -> w < par c ->
  wc (ws s w) = WRun eof (a :: rest) -> sends_on a k v ->
  has_room (outs s k) = false -> cclosed (outs s k) = false -> False.
Proof.
  intros Hp H Hw Hc Hs Hr Hcl.
  pose proof (no_receive_empty s k Hp H) as Hb.
  unfold has_room in Hr. rewrite Hb in Hr. simpl in Hr. apply Nat.ltb_ge in Hr.
  specialize (H k v). unfold step, step_ok in H. rewrite Hp, Hb in H.
  assert (Hcap : ccap (outs s k) = 0) by lia. rewrite Hcap, Hcl in H. simpl in H.
  destruct (find_sender s k v (par c)) eqn:Ef; [discriminate|].
  eapply find_sender_complete; eauto.
Qed.

(* ---------- DRAIN ---------- *)
Theorem drain s :
  panicked s = false -> quiescent s -> no_receive s ->
  (forall w, w < par c -> forall i, src c w = SIn i -> cclosed (ins s i) = true) ->
  (forall w, w < par c -> match wc (ws s w) with
                          | WCall _ _ | WSleep _ _ _ _ | WRun _ (ATok _ :: _) => False
                          | _ => True end) ->
  (forall w, w < par c -> wc (ws s w) = WDone) /\ (closer c = true -> closer_done s = true).
Proof.
  intros Hp [Hq Hcl] Hnr Hin Hsimple.
  assert (Hall : forall w, w < par c -> wc (ws s w) = WDone).
  { intros w Hw. specialize (Hsimple w Hw).
    destruct (stuck_waits s w (Hq w Hw)) as [Hd|i Hc Hs Hb Hcl'|a t Hc|eof k v rest Hc Hr Hcl' Hcn
                                            |eof k v rest Hc Hr Hcl'|eof k rest Hc Hb Hcl' Hcn|u sel eof rest Hc Ht Hsel]; auto.
    - rewrite (Hin w Hw i Hs) in Hcl'. discriminate.
    - rewrite Hc in Hsimple. contradiction.
    - exfalso. eapply (no_receive_send s w eof (ASend k v)); eauto. left; reflexivity.
    - exfalso. eapply (no_receive_send s w eof (APlain k v)); eauto. right; reflexivity.
    - rewrite Hc in Hsimple. contradiction.
    - rewrite Hc in Hsimple. contradiction. }
  split; auto.
  intros Hcloser. unfold step, step_ok in Hcl. rewrite Hp, Hcloser in Hcl.
  rewrite (proj2 (all_done_spec c s) Hall) in Hcl. simpl in Hcl.
  destruct (closer_done s); auto. discriminate.
Qed.

(* ---------- CANCEL-EXIT ---------- *)
Theorem cancel_exit s :
  panicked s = false -> cancelled s = true -> quiescent s ->
  (forall w, w < par c -> forall i, src c w = SIn i -> cclosed (ins s i) = true) ->
  (forall w, w < par c -> match wc (ws s w) with
                          | WCall _ _ | WSleep _ false _ _ => False
                          | WRun _ (APlain k _ :: _) => has_room (outs s k) = true
                          | _ => True end) ->
  (forall w, w < par c -> src c w = SGen -> wc (ws s w) <> WRecv) ->
  (forall w, w < par c -> wc (ws s w) = WDone) /\ (closer c = true -> closer_done s = true).
Proof.
  intros Hp Hcn [Hq Hcl] Hin Hsimple Hgen.
  assert (Hall : forall w, w < par c -> wc (ws s w) = WDone).
  { intros w Hw. specialize (Hsimple w Hw).
    destruct (stuck_waits s w (Hq w Hw)) as [Hd|i Hc Hs Hb Hcl'|a t Hc|eof k v rest Hc Hr Hcl' Hcn'
                                            |eof k v rest Hc Hr Hcl'|eof k rest Hc Hb Hcl' Hcn'|u sel eof rest Hc Ht Hsel]; auto;
      try congruence.
    - rewrite (Hin w Hw i Hs) in Hcl'. discriminate.
    - rewrite Hc in Hsimple. contradiction.
    - rewrite Hc in Hsimple. congruence.
    - rewrite Hc in Hsimple. destruct Hsel as [->|Hx]; [contradiction|congruence]. }
  split; auto.
  intros Hcloser. unfold step, step_ok in Hcl. rewrite Hp, Hcloser in Hcl.
  rewrite (proj2 (all_done_spec c s) Hall) in Hcl. simpl in Hcl.
  destruct (closer_done s); auto. discriminate.
Qed.


(* a finished stage is quiescent and has nothing left to receive once its buffers are empty:
   the hypotheses of DRAIN are satisfiable exactly by the final states *)
Lemma done_quiescent s :
  (forall w, w < par c -> wc (ws s w) = WDone) -> (closer c = false \/ closer_done s = true) -> quiescent s.
Proof.
  intros Hd Hc. split.
  - intros w Hw ch. unfold step_worker. rewrite (Hd w Hw). reflexivity.
  - unfold step, step_ok. destruct (panicked s); auto. destruct Hc as [->| ->]; simpl; auto.
    now rewrite andb_false_r.
Qed.

Lemma find_sender_done s k v n : (forall w, w < n -> wc (ws s w) = WDone) -> find_sender s k v n = None.
Proof.
  induction n as [|m IH]; intros H; simpl; auto. rewrite (H m) by lia. apply IH. intros w Hw. apply H. lia.
Qed.

Lemma done_no_receive s :
  (forall w, w < par c -> wc (ws s w) = WDone) -> (forall k, cbuf (outs s k) = []) -> no_receive s.
Proof.
  intros Hd Hb k v. unfold step, step_ok. destruct (panicked s); auto. rewrite Hb.
  rewrite (find_sender_done s k v (par c) Hd). destruct (Nat.eqb (ccap (outs s k)) 0 && negb (cclosed (outs s k))); reflexivity.
Qed.

End Live.
