(* Sequential stages whose per-element code does not depend on local state (Map, FMap,
   Filter, Partition, TakeWhile, ForEach, Void): the delivered streams are - always - a prefix
   of the list image of the input cut at the first element whose code returns, and equal to
   it when the stage has completed.  For every schedule and all capacities. *)
From Coq Require Import List ZArith NArith Bool Arith PeanoNat Lia.
From Golem Require Import Base.Lists Pipe.Pool Pipe.PoolEffects Pipe.PoolSteps Pipe.PoolInv Pipe.PoolInv2
     Pipe.PoolSafe Pipe.PoolClosed Pipe.PoolStop Pipe.PoolLive Pipe.PoolSimple Pipe.PoolSeq.
Import ListNotations.

(* the input up to and including the first element whose code returns *)
Fixpoint cut (g : val -> list act) (xs : list val) : list val :=
  match xs with
  | [] => []
  | x :: r => if has_stop (g x) then [x] else x :: cut g r
  end.

Definition image (g : val -> list act) (k : nat) (xs : list val) : list val :=
  flat_map (fun a => emits k (g a)) (cut g xs).

Lemma cut_nostop g xs : existsb (fun a => has_stop (g a)) xs = false -> cut g xs = xs.
Proof.
  induction xs as [|x xs IH]; simpl; auto. intros H. apply orb_false_elim in H. destruct H as [-> H].
  now rewrite IH.
Qed.
Lemma cut_app_nostop g ys r :
  existsb (fun a => has_stop (g a)) ys = false -> cut g (ys ++ r) = ys ++ cut g r.
Proof.
  induction ys as [|y ys IH]; simpl; auto. intros H. apply orb_false_elim in H. destruct H as [-> H].
  now rewrite IH.
Qed.
Lemma cut_prefix_one g ys a r :
  existsb (fun a => has_stop (g a)) ys = false -> prefix (ys ++ [a]) (cut g (ys ++ a :: r)).
Proof.
  intros H. rewrite cut_app_nostop by auto. apply prefix_app_l. simpl.
  destruct (has_stop (g a)); [apply prefix_refl|]. exists (cut g r). reflexivity.
Qed.

Section Stateless.
Variable c : cfg.
Variable g : val -> list act.
Hypothesis Hpar : par c = 1.
Hypothesis Hsrc : src c 0 = SIn 0.
Hypothesis Hplan : forall l a, plan c 0 l a = (g a, l).
Hypothesis Heof : forall l, on_eof c 0 l = [].

Lemma sl_spec k l xs : spec c 0 k l xs = flat_map (fun a => emits k (g a)) xs.
Proof. revert l. induction xs as [|x xs IH]; intros l; simpl; auto. rewrite Hplan, IH. reflexivity. Qed.
Lemma sl_stopped l xs : stopped c 0 l xs = existsb (fun a => has_stop (g a)) xs.
Proof. revert l. induction xs as [|x xs IH]; intros l; simpl; auto. rewrite Hplan, IH. reflexivity. Qed.
Lemma sl_full_spec k x : full_spec c 0 k x = flat_map (fun a => emits k (g a)) (wtaken x).
Proof. unfold full_spec. rewrite sl_spec, Heof. simpl. destruct (weof x); apply app_nil_r. Qed.

(* SAFETY: at every moment of every execution (cancelled or not) *)
Theorem stateless_prefix s k : reachable c s -> prefix (delivered s k) (image g k (sent s 0)).
Proof.
  intros Hr. eapply prefix_trans; [apply (seq_delivered_prefix c Hpar s k Hr)|].
  rewrite sl_full_spec. unfold image. apply prefix_flat_map.
  destruct (seq_shape c Hpar Hsrc s Hr) as [He Ht Hs|He Hs].
  - rewrite Ht, cut_nostop; [apply prefix_refl|]. now rewrite <- sl_stopped with (l := l0 c 0).
  - rewrite sl_stopped in Hs. pose proof (seq_taken_prefix c Hpar Hsrc s Hr) as [r Hp].
    destruct (list_snoc_cases (wtaken (ws s 0))) as [E|(ys & a & E)].
    + rewrite E. apply prefix_nil.
    + rewrite E in *. rewrite removelast_app_one in Hs. rewrite Hp, <- app_assoc. simpl.
      apply cut_prefix_one. exact Hs.
Qed.

(* nothing is consumed beyond the element whose code returns *)
Theorem stateless_consumed s : reachable c s -> prefix (wtaken (ws s 0)) (cut g (sent s 0)).
Proof.
  intros Hr. destruct (seq_shape c Hpar Hsrc s Hr) as [He Ht Hs|He Hs].
  - rewrite Ht, cut_nostop; [apply prefix_refl|]. now rewrite <- sl_stopped with (l := l0 c 0).
  - rewrite sl_stopped in Hs. pose proof (seq_taken_prefix c Hpar Hsrc s Hr) as [r Hp].
    destruct (list_snoc_cases (wtaken (ws s 0))) as [E|(ys & a & E)].
    + rewrite E. apply prefix_nil.
    + rewrite E in *. rewrite removelast_app_one in Hs. rewrite Hp, <- app_assoc. simpl.
      apply cut_prefix_one. exact Hs.
Qed.

(* COMPLETION: input closed, no cancel, nothing enabled, nothing left to receive *)
Hypothesis WF : wf_cfg c.
Hypothesis SC : simple_cfg c.
Hypothesis Hcloser : closer c = false.
Hypothesis Hpre : pre c 0 (l0 c 0) = true.

Theorem stateless_complete s :
  reachable c s -> cancelled s = false -> quiescent c s -> no_receive c s -> cclosed (ins s 0) = true ->
  (forall k, delivered s k = image g k (sent s 0)) /\
  wtaken (ws s 0) = cut g (sent s 0) /\
  wc (ws s 0) = WDone /\
  (forall k, In k (wcloses c 0) -> cclosed (outs s k) = true).
Proof.
  intros Hr Hcn Hq Hnr Hin.
  destruct (seq_complete c Hpar Hsrc WF SC Hcloser s Hr Hcn Hq Hnr Hin) as (Hd & Hcl & Hdel & Hsh).
  assert (Hcut : wtaken (ws s 0) = cut g (sent s 0)).
  { destruct Hsh as [He Ht Hs|He Hs Hb [r Hp]|He Ht Hp].
    - rewrite Ht, cut_nostop; auto. now rewrite <- sl_stopped with (l := l0 c 0).
    - rewrite sl_stopped in Hs, Hb.
      destruct (list_snoc_cases (wtaken (ws s 0))) as [E|(ys & a & E)].
      + rewrite E in Hs. discriminate.
      + rewrite E in *. rewrite removelast_app_one in Hb. rewrite existsb_app, Hb in Hs. simpl in Hs.
        rewrite orb_false_r in Hs. rewrite Hp, <- app_assoc. simpl.
        rewrite cut_app_nostop by auto. simpl. rewrite Hs. reflexivity.
    - congruence. }
  repeat split; auto.
  intros k. rewrite Hdel, sl_full_spec, Hcut. reflexivity.
Qed.

End Stateless.
