(* FORK-ERR: fail-fast mode of the fork stages (fork.Map / fork.FMap under Lift / LiftF / Pure).
   A worker whose function fails does a PLAIN blocking send `exx <- err` (not a select with
   ctx.Done()) and returns.  That is safe only because every worker sends at most ONE error in
   its life and cap(exx) = par: the send always finds room.  Proved here, for every worker count,
   input, capacity, distribution of elements over workers and schedule, gated or not:
     - [fork_err_never_blocks]: a worker standing at the plain send finds room when par <= cap(exx);
     - [fork_err_needs_capacity]: with cap(exx) = 1 and par = 2 a worker is parked for ever at the
       plain send, although the context is cancelled and the input closed (the goroutine leak);
     - [fork_failfast_exit]: input closed + nothing enabled + (cancelled or nothing receivable)
       => every worker has returned, the closer has run, the outputs are closed;
     - [fork_at_most_n_errors]: at most par values are ever put on the error channel. *)
From Coq Require Import List ZArith NArith Bool Arith PeanoNat Lia Permutation.
From Golem Require Import Base.Lists Pipe.Pool Pipe.Stages Pipe.PoolEffects Pipe.PoolSteps Pipe.PoolInv Pipe.PoolInv2
     Pipe.PoolSafe Pipe.PoolClosed Pipe.PoolStop Pipe.PoolLive Pipe.PoolSimple Pipe.PoolActs Pipe.PoolSeq Pipe.PoolStateless
     Pipe.PoolStages Pipe.PoolStages2 Pipe.PoolErr Pipe.PoolMulti Pipe.PoolMultiStages.
Import ListNotations.
Open Scope nat_scope.

(* ---------- counting a tagged list by its tags ---------- *)
Lemma tagged_length n (L : list (nat * val)) :
  (forall t v, In (t, v) L -> t < n) ->
  length L = length (concat (map (fun w => mine w L) (seq 0 n))).
Proof.
  intros H. rewrite <- (Permutation_length (mine_partition n L H)). now rewrite map_length.
Qed.

Lemma length_concat_le1 {T} (f : nat -> list T) ws :
  (forall w, In w ws -> length (f w) <= 1) -> length (concat (map f ws)) <= length ws.
Proof.
  induction ws as [|a ws IH]; intros H; simpl; [lia|].
  rewrite app_length. pose proof (H a (or_introl eq_refl)).
  assert (length (concat (map f ws)) <= length ws) by (apply IH; intros w Hw; apply H; right; exact Hw). lia.
Qed.

Lemma length_concat_lt {T} (f : nat -> list T) ws w0 :
  (forall w, In w ws -> length (f w) <= 1) -> In w0 ws -> f w0 = [] -> length (concat (map f ws)) < length ws.
Proof.
  intros H Hin H0. destruct (in_split w0 ws Hin) as (l1 & l2 & ->).
  rewrite map_app, concat_app. simpl. rewrite H0. simpl. rewrite !app_length. simpl.
  assert (length (concat (map f l1)) <= length l1)
    by (apply length_concat_le1; intros w Hw; apply H; apply in_or_app; left; exact Hw).
  assert (length (concat (map f l2)) <= length l2)
    by (apply length_concat_le1; intros w Hw; apply H; apply in_or_app; right; right; exact Hw).
  lia.
Qed.

(* ---------- any stage whose goroutines run the same stateless code g ---------- *)
Section ForkErr.
Variable c : cfg.
Variable g : val -> list act.
Variable k : nat.
Hypothesis Hplan : forall w l a, plan c w l a = (g a, l).
Hypothesis Heof : forall w l, on_eof c w l = [].
(* channel k is written only by code that then returns, and at most once per element *)
Hypothesis Hk : forall a, has_stop (g a) = false -> emits k (g a) = [].
Hypothesis Hone : forall a, length (emits k (g a)) <= 1.

Lemma fk_stopped w l xs : stopped c w l xs = existsb (fun a => has_stop (g a)) xs.
Proof. revert l. induction xs as [|x xs IH]; intros l; simpl; auto. rewrite Hplan, IH. reflexivity. Qed.

Lemma fk_flat_nostop xs :
  existsb (fun a => has_stop (g a)) xs = false -> flat_map (fun a => emits k (g a)) xs = [].
Proof.
  induction xs as [|x xs IH]; simpl; auto. intros H. apply orb_false_elim in H. destruct H as [H1 H2].
  rewrite (Hk x H1), IH; auto.
Qed.

(* a worker's whole life puts at most one value on channel k: no element before its last one returned *)
Lemma worker_spec_le1 s w : reachable c s -> length (full_spec c w k (ws s w)) <= 1.
Proof.
  intros Hr. rewrite (fk_full_spec c g Hplan Heof).
  pose proof (k_before c s w (Kinv_reachable c s Hr w)) as KB. rewrite fk_stopped in KB.
  destruct (wtaken (ws s w)) as [|x xs]; [simpl; lia|].
  assert (Hne : x :: xs <> []) by discriminate.
  rewrite (@app_removelast_last val _ 0%Z Hne), (@flat_map_app val val).
  rewrite (fk_flat_nostop _ KB). simpl. rewrite app_nil_r. apply Hone.
Qed.

(* ... delivered, buffered or still in its hands *)
Lemma worker_chan_le1 s w :
  reachable c s ->
  length (mine w (rcvd s k ++ cbuf (outs s k))) + length (pend k (wc (ws s w))) <= 1.
Proof.
  intros Hr. pose proof (worker_spec_le1 s w Hr) as H.
  destruct (Inv1_reachable c s Hr w k) as (A & _). rewrite <- A in H. rewrite !app_length in H. lia.
Qed.

(* AT MOST par VALUES ever reach channel k *)
Theorem chan_at_most_par s :
  reachable c s -> length (delivered s k) + length (cbuf (outs s k)) <= par c.
Proof.
  intros Hr. unfold delivered. rewrite map_length, <- app_length.
  rewrite (tagged_length (par c) _ (tags_reachable c s Hr k)).
  eapply Nat.le_trans; [apply length_concat_le1|rewrite seq_length; lia].
  intros w _. pose proof (worker_chan_le1 s w Hr). lia.
Qed.

(* a worker about to send on k has nothing of its own in the buffer: the others fill at most par - 1 slots *)
Theorem sender_buffer_lt_par s w :
  reachable c s -> w < par c -> pend k (wc (ws s w)) <> [] -> length (cbuf (outs s k)) < par c.
Proof.
  intros Hr Hw Hp.
  assert (Ht : forall t v, In (t, v) (cbuf (outs s k)) -> t < par c).
  { intros t v Hin. apply (tags_reachable c s Hr k t v). apply in_or_app. right. exact Hin. }
  rewrite (tagged_length (par c) _ Ht).
  assert (Hle : forall w', length (mine w' (cbuf (outs s k))) <= 1).
  { intros w'. pose proof (worker_chan_le1 s w' Hr) as H. rewrite mine_app, app_length in H. lia. }
  rewrite <- (seq_length (par c) 0) at 2.
  apply length_concat_lt with (w0 := w); auto.
  - apply in_seq. lia.
  - pose proof (worker_chan_le1 s w Hr) as H. rewrite mine_app, app_length in H.
    destruct (pend k (wc (ws s w))); [congruence|]. simpl in H.
    destruct (mine w (cbuf (outs s k))); [reflexivity|simpl in H; lia].
Qed.

(* THE PLAIN SEND NEVER BLOCKS when the channel has one slot per worker *)
Theorem plain_send_has_room s w eof e rest :
  reachable c s -> w < par c -> par c <= out_caps c k ->
  wc (ws s w) = WRun eof (APlain k e :: rest) -> has_room (outs s k) = true.
Proof.
  intros Hr Hw Hcap Hc.
  assert (Hlt : length (cbuf (outs s k)) < par c).
  { apply (sender_buffer_lt_par s w Hr Hw). rewrite Hc. simpl. rewrite Nat.eqb_refl. discriminate. }
  unfold has_room. rewrite (caps_reachable c s Hr k). apply Nat.ltb_lt. lia.
Qed.
End ForkErr.

(* ---------- the fork stages (Pipe/Stages.v fork_stage; the real code is not gated) ---------- *)
Section ForkStageErr.
Variables (n : nat) (g : Z -> list act) (cl icaps ocaps : list nat) (k : nat).
Let c := fork_cfg n g cl icaps ocaps.
Hypothesis Hk : forall a, has_stop (g a) = false -> emits k (g a) = [].
Hypothesis Hone : forall a, length (emits k (g a)) <= 1.

Theorem fork_err_never_blocks s w eof e rest :
  reachable c s -> w < n -> n <= nth_cap ocaps k ->
  wc (ws s w) = WRun eof (APlain k e :: rest) -> has_room (outs s k) = true.
Proof. apply (plain_send_has_room c g k (fun _ _ _ => eq_refl) (fun _ _ => eq_refl) Hk Hone). Qed.

Theorem fork_at_most_n_errors s :
  reachable c s -> length (delivered s k) + length (cbuf (outs s k)) <= n.
Proof. apply (chan_at_most_par c g k (fun _ _ _ => eq_refl) (fun _ _ => eq_refl) Hk Hone). Qed.

(* EXIT: the C06 guarantees in fail-fast mode, failures included *)
Hypothesis Hcl : NoDup cl.
Hypothesis Hsimple : forall a, Forall simple_act (g a).
(* the only plain (non-select) sends of the code are those on channel k *)
Hypothesis Hplain : forall a k' v, In (APlain k' v) (g a) -> k' = k.
Hypothesis Hcap : n <= nth_cap ocaps k.

Lemma fork_plain_only_k s w eof k' v rest :
  reachable c s -> wc (ws s w) = WRun eof (APlain k' v :: rest) -> k' = k.
Proof.
  intros Hr Hc.
  pose proof (acts_reachable c (fun x => forall k' v, x = APlain k' v -> k' = k)) as HA.
  assert (HS : Forall (fun x => forall k' v, x = APlain k' v -> k' = k) (todo_of (wc (ws s w)))).
  { apply HA; auto.
    - intros k0 v0 H. discriminate.
    - intros w0 l a. simpl. apply Forall_forall. intros x Hx k0 v0 ->. eapply Hplain; eauto.
    - intros w0 l. simpl. constructor. }
  rewrite Hc in HS. simpl in HS. inversion HS as [|? ? H0 _]; subst. apply (H0 k' v eq_refl).
Qed.

Theorem fork_failfast_exit s :
  reachable c s -> quiescent c s -> cclosed (ins s 0) = true ->
  cancelled s = true \/ no_receive c s ->
  (forall w, w < n -> wc (ws s w) = WDone) /\ closer_done s = true /\
  (forall k', In k' cl -> cclosed (outs s k') = true).
Proof.
  intros Hr Hq Hin Hwhy.
  pose proof (fork_nopanic n g cl icaps ocaps Hcl s Hr) as Hp.
  pose proof (simple_reachable c (fork_simple n g cl icaps ocaps Hsimple) s Hr) as HS.
  assert (Hins : forall w, w < par c -> forall i, src c w = SIn i -> cclosed (ins s i) = true).
  { intros w _ i Hs. simpl in Hs. inversion Hs; subst. exact Hin. }
  assert (Hdone : (forall w, w < par c -> wc (ws s w) = WDone) /\ (closer c = true -> closer_done s = true)).
  { destruct Hwhy as [Hcn|Hnr].
    - apply (cancel_exit c s Hp Hcn Hq Hins).
      + intros w Hw. specialize (HS w).
        destruct (wc (ws s w)) as [|a t|eof [|[k' v'|k' v'| |k'|d|d|] rest]|u sel eof rest|] eqn:Ec;
          simpl in HS; auto; try contradiction.
        assert (k' = k) by (eapply fork_plain_only_k; eauto). subst k'.
        eapply fork_err_never_blocks; eauto.
      + intros w _ Hs. simpl in Hs. discriminate.
    - apply (drain c s Hp Hq Hnr Hins).
      intros w Hw. specialize (HS w).
      destruct (wc (ws s w)) as [|a t|eof [|[k' v'|k' v'| |k'|d|d|] rest]|u sel eof rest|] eqn:Ec;
        simpl in HS; auto; inversion HS; auto. }
  destruct Hdone as [Hd Hcd]. specialize (Hcd eq_refl).
  split; [exact Hd|]. split; [exact Hcd|].
  intros k' Hk'. destruct (done_closed_reachable c (fork_wf n g cl icaps ocaps Hcl) s Hr) as [_ B]. apply B; auto.
Qed.
End ForkStageErr.

(* ---------- fork.Map / fork.FMap under Lift: the codes [map_code f false], [fmap_code f false] ---------- *)
Record failfast_code (g : Z -> list act) (k : nat) : Prop := mkFF {
  ff_stop : forall a, has_stop (g a) = false -> emits k (g a) = [];   (* whoever writes on k then returns *)
  ff_one : forall a, length (emits k (g a)) <= 1;                      (* at most one value per element *)
  ff_simple : forall a, Forall simple_act (g a);                       (* only sends, polls and returns *)
  ff_plain : forall a k' v, In (APlain k' v) (g a) -> k' = k           (* the only plain sends are on k *)
}.

Lemma map_failfast_code (f : Z -> res) : failfast_code (map_code f false) 1.
Proof.
  constructor; intros a; unfold map_code, catch; destruct (f a); simpl; auto; try discriminate.
  - repeat constructor.
  - repeat constructor.
  - intros k' v' [H|[]]. discriminate.
  - intros k' v' [H|[H|[]]]; [inversion H; reflexivity|discriminate].
Qed.

Lemma in_sends0 vs rest x : In x (map (ASend 0) vs ++ rest) -> (exists v, x = ASend 0 v) \/ In x rest.
Proof.
  intros H. apply in_app_or in H. destruct H as [H|H]; [left|right; exact H].
  apply in_map_iff in H. destruct H as (v & <- & _). eauto.
Qed.

Lemma fmap_failfast_code (f : Z -> list Z * option Z) : failfast_code (fmap_code f false) 1.
Proof.
  constructor; intros a; unfold fmap_code, catch; destruct (f a) as [vs [e'|]].
  - rewrite has_stop_sends0, emits_sends0. simpl. discriminate.
  - rewrite has_stop_sends0, emits_sends0. simpl. auto.
  - rewrite emits_sends0. simpl. lia.
  - rewrite emits_sends0. simpl. lia.
  - apply simple_sends0. repeat constructor.
  - apply simple_sends0. repeat constructor.
  - intros k' v' H. apply in_sends0 in H. destruct H as [[v H]|[H|[H|[]]]]; try discriminate. inversion H; reflexivity.
  - intros k' v' H. apply in_sends0 in H. destruct H as [[v H]|[H|[]]]; discriminate.
Qed.

Lemma fork_fmap_is (f : Z -> list Z * option Z) (try : bool) n icaps ocaps :
  fork_stage n false (plan_fmap f try) [0; 1] icaps ocaps = fork_cfg n (fmap_code f try) [0; 1] icaps ocaps.
Proof. reflexivity. Qed.

(* GOAL 1 for the stages themselves, gated (the harness parks user functions) or not *)
Theorem fork_map_err_never_blocks (f : Z -> res) gate n cl icaps ocaps s w eof e rest :
  let c := fork_stage n gate (plan_map f false) cl icaps ocaps in
  reachable c s -> w < n -> n <= nth_cap ocaps 1 ->
  wc (ws s w) = WRun eof (APlain 1 e :: rest) -> has_room (outs s 1) = true.
Proof.
  intros c. destruct (map_failfast_code f) as [A B _ _].
  apply (plain_send_has_room c (map_code f false) 1 (fun _ _ _ => eq_refl) (fun _ _ => eq_refl) A B).
Qed.

Theorem fork_fmap_err_never_blocks (f : Z -> list Z * option Z) gate n cl icaps ocaps s w eof e rest :
  let c := fork_stage n gate (plan_fmap f false) cl icaps ocaps in
  reachable c s -> w < n -> n <= nth_cap ocaps 1 ->
  wc (ws s w) = WRun eof (APlain 1 e :: rest) -> has_room (outs s 1) = true.
Proof.
  intros c. destruct (fmap_failfast_code f) as [A B _ _].
  apply (plain_send_has_room c (fmap_code f false) 1 (fun _ _ _ => eq_refl) (fun _ _ => eq_refl) A B).
Qed.

Theorem fork_map_at_most_n_errors (f : Z -> res) gate n cl icaps ocaps s :
  reachable (fork_stage n gate (plan_map f false) cl icaps ocaps) s ->
  length (delivered s 1) + length (cbuf (outs s 1)) <= n.
Proof.
  destruct (map_failfast_code f) as [A B _ _].
  apply (chan_at_most_par (fork_stage n gate (plan_map f false) cl icaps ocaps) (map_code f false) 1 (fun _ _ _ => eq_refl) (fun _ _ => eq_refl) A B).
Qed.

Theorem fork_fmap_at_most_n_errors (f : Z -> list Z * option Z) gate n cl icaps ocaps s :
  reachable (fork_stage n gate (plan_fmap f false) cl icaps ocaps) s ->
  length (delivered s 1) + length (cbuf (outs s 1)) <= n.
Proof.
  destruct (fmap_failfast_code f) as [A B _ _].
  apply (chan_at_most_par (fork_stage n gate (plan_fmap f false) cl icaps ocaps) (fmap_code f false) 1 (fun _ _ _ => eq_refl) (fun _ _ => eq_refl) A B).
Qed.

Lemma nodup01 : NoDup [0; 1].
Proof. repeat constructor; simpl; intuition discriminate. Qed.

(* GOAL 2 for fork.Map / fork.FMap as they are started by fork.go (out 0 = values, out 1 = errors) *)
Theorem fork_map_failfast_exit (f : Z -> res) n icaps ocaps s :
  let c := fork_stage n false (plan_map f false) [0; 1] icaps ocaps in
  n <= nth_cap ocaps 1 ->
  reachable c s -> quiescent c s -> cclosed (ins s 0) = true -> cancelled s = true \/ no_receive c s ->
  (forall w, w < n -> wc (ws s w) = WDone) /\ closer_done s = true /\
  cclosed (outs s 0) = true /\ cclosed (outs s 1) = true.
Proof.
  intros c Hcap Hr Hq Hin Hwhy. destruct (map_failfast_code f) as [A B C D].
  destruct (fork_failfast_exit n (map_code f false) [0; 1] icaps ocaps 1 A B nodup01 C D Hcap s Hr Hq Hin Hwhy)
    as (H1 & H2 & H3).
  split; [exact H1|]. split; [exact H2|]. split; apply H3; simpl; auto.
Qed.

Theorem fork_fmap_failfast_exit (f : Z -> list Z * option Z) n icaps ocaps s :
  let c := fork_stage n false (plan_fmap f false) [0; 1] icaps ocaps in
  n <= nth_cap ocaps 1 ->
  reachable c s -> quiescent c s -> cclosed (ins s 0) = true -> cancelled s = true \/ no_receive c s ->
  (forall w, w < n -> wc (ws s w) = WDone) /\ closer_done s = true /\
  cclosed (outs s 0) = true /\ cclosed (outs s 1) = true.
Proof.
  intros c Hcap Hr Hq Hin Hwhy. destruct (fmap_failfast_code f) as [A B C D].
  destruct (fork_failfast_exit n (fmap_code f false) [0; 1] icaps ocaps 1 A B nodup01 C D Hcap s Hr Hq Hin Hwhy)
    as (H1 & H2 & H3).
  split; [exact H1|]. split; [exact H2|]. split; apply H3; simpl; auto.
Qed.

(* ---------- the capacity hypothesis is needed: the leak with cap(exx) = 1 < par = 2 ---------- *)
(* fork.Map(f) with f failing on every element, two workers, exx of capacity 1, nobody receiving:
   both workers take an element; worker 0 puts its error in the buffer and returns; worker 1 is
   parked at `exx <- err`.  Cancelling the context and closing the input do not release it. *)
Definition leak_f (x : Z) : res := Err (1000 + x).
Definition leak_cfg : cfg := fork_stage 2 false (plan_map leak_f false) [0; 1] [0] [2; 1].
Definition leak_trace : list ev :=
  [ESent 0 1%Z; EW 0 false; ESent 0 2%Z; EW 1 false; EW 0 false; EW 0 false; ECancel; ECloseIn 0].
Definition leak_state : state :=
  match exec leak_cfg leak_trace with Some s => s | None => init leak_cfg end.

Lemma leak_reachable : reachable leak_cfg leak_state.
Proof. exists leak_trace. vm_compute. reflexivity. Qed.

Lemma leak_quiescent : quiescent leak_cfg leak_state.
Proof.
  split.
  - intros w Hw ch. cbn in Hw.
    destruct w as [|[|w]]; [| |lia]; destruct ch; vm_compute; reflexivity.
  - vm_compute. reflexivity.
Qed.

Theorem fork_err_needs_capacity :
  exists s, reachable leak_cfg s /\ cancelled s = true /\ cclosed (ins s 0) = true /\ quiescent leak_cfg s /\
            wc (ws s 1) = WRun false [APlain 1 1002%Z; AStop] /\ has_room (outs s 1) = false /\
            wc (ws s 1) <> WDone /\ closer_done s = false /\ cclosed (outs s 0) = false /\ cclosed (outs s 1) = false.
Proof.
  exists leak_state. split; [exact leak_reachable|]. split; [vm_compute; reflexivity|].
  split; [vm_compute; reflexivity|]. split; [exact leak_quiescent|].
  split; [vm_compute; reflexivity|]. split; [vm_compute; reflexivity|].
  split; [vm_compute; discriminate|]. split; [vm_compute; reflexivity|].
  split; vm_compute; reflexivity.
Qed.

(* non-vacuity of [fork_map_failfast_exit]: the same run with cap(exx) = par = 2 - both errors fit, both
   workers return, the closer closes both outputs; all hypotheses of the theorem hold in that state *)
Definition noleak_cfg : cfg := fork_stage 2 false (plan_map leak_f false) [0; 1] [0] [2; 2].
Definition noleak_trace : list ev := leak_trace ++ [EW 1 false; EW 1 false; ECloser].
Definition noleak_state : state :=
  match exec noleak_cfg noleak_trace with Some s => s | None => init noleak_cfg end.

Theorem fork_failfast_exit_nonvacuous :
  (2 <= nth_cap [2; 2] 1) /\ reachable noleak_cfg noleak_state /\ quiescent noleak_cfg noleak_state /\
  cclosed (ins noleak_state 0) = true /\ cancelled noleak_state = true /\
  map snd (cbuf (outs noleak_state 1)) = [1001%Z; 1002%Z] /\ closer_done noleak_state = true.
Proof.
  split; [cbn; lia|]. split; [exists noleak_trace; vm_compute; reflexivity|]. split.
  - apply done_quiescent; [|right; vm_compute; reflexivity].
    intros w Hw. cbn in Hw. destruct w as [|[|w]]; [| |lia]; vm_compute; reflexivity.
  - split; [vm_compute; reflexivity|]. split; [vm_compute; reflexivity|]. split; vm_compute; reflexivity.
Qed.
