(* Whatever holds of every statement of every plan holds of every statement a worker still has
   to execute. *)
From Coq Require Import List ZArith NArith Bool Arith PeanoNat Lia.
From Golem Require Import Pipe.Pool Pipe.PoolEffects Pipe.PoolSteps Pipe.PoolInv Pipe.PoolSimple.
Import ListNotations.

Section Acts.
Variable c : cfg.
Variable P : act -> Prop.
Hypothesis Hstop : P AStop.
Hypothesis Hplan : forall w l a, Forall P (fst (plan c w l a)).
Hypothesis Heof : forall w l, Forall P (on_eof c w l).

Definition acts_state (s : state) : Prop := forall w, Forall P (todo_of (wc (ws s w))).

Lemma acts_other s s' w : (forall w', w' <> w -> ws s' w' = ws s w') -> Forall P (todo_of (wc (ws s' w))) ->
  acts_state s -> acts_state s'.
Proof. intros Ho Hw HS w'. destruct (Nat.eq_dec w' w) as [->|Hne]; auto. rewrite Ho; auto. Qed.

Lemma acts_take s w a : Forall P (todo_of (wc (take c s w a))).
Proof.
  unfold take. pose proof (Hplan w (wl (ws s w)) a) as H.
  destruct (plan c w (wl (ws s w)) a) as [acts l']. destruct (gated c); simpl; exact H.
Qed.

Lemma Forall_incl' (l l' : list act) : incl l l' -> Forall P l' -> Forall P l.
Proof. intros Hi H. rewrite Forall_forall in *. auto. Qed.

Theorem acts_step s e s' : acts_state s -> step c s e = Some s' -> acts_state s'.
Proof.
  intros HS Hs. destruct (step_effect c s e s' Hs) as [_ He].
  destruct He as [i x Hi Hcl | i Hi Hcl | k t v rest Hb | k v w eof a rest Hb Hcap Hcl Hw Hc Hs0 | | | w s' Hw He
                 | w a todo Hw Hc | Hcl Had Hcd | t Ht]; try exact HS.
  - apply acts_other with s w; simpl; intros; upd_simpl; auto. simpl.
    pose proof (HS w) as H. rewrite Hc in H. simpl in H. inversion H; auto.
  - pose proof (HS w) as Hw0.
    destruct He as [i a t rest Hsrc Hc Hb | Hsrc Hc | i Hsrc Hc Hb Hcl | ctl' Hcn Hdue Hsl Hsls
                   | eof a k0 v rest Hc Hs0 Hcl | eof k0 t r rest Hc Hb | dropped Hp Hnd Hnr Hnc Hwhy | eof a k0 v rest Hc Hs0 Hcl].
    + apply acts_other with s w; simpl; intros; upd_simpl; auto. apply acts_take.
    + apply acts_other with s w; simpl; intros; upd_simpl; auto. apply acts_take.
    + apply acts_other with s w; simpl; intros; upd_simpl; auto. simpl. apply Heof.
    + apply acts_other with s w; simpl; intros; upd_simpl; auto. simpl.
      eapply Forall_incl'; [eapply ctl_next_incl; eauto|exact Hw0].
    + apply acts_other with s w; simpl; intros; upd_simpl; auto. simpl.
      rewrite Hc in Hw0. simpl in Hw0. inversion Hw0; auto.
    + apply acts_other with s w; simpl; intros; upd_simpl; auto. simpl.
      rewrite Hc in Hw0. simpl in Hw0. inversion Hw0; auto.
    + unfold finish. set (s1 := set_w s w _).
      assert (H1 : acts_state s1) by (apply acts_other with s w; unfold s1; simpl; intros; upd_simpl; simpl; auto).
      destruct (closer c); auto. intros w'. rewrite close_all_ws'. apply H1.
    + exact HS.
  - apply acts_other with s w; simpl; intros; upd_simpl; auto. simpl.
    pose proof (HS w) as H. rewrite Hc in H. exact H.
  - intros w. simpl. rewrite close_all_ws'. apply HS.
Qed.

Theorem acts_reachable s : reachable c s -> acts_state s.
Proof.
  apply reachable_inv; [|apply acts_step].
  intros w. unfold init, init_worker. simpl. destruct (pre c w (l0 c w)); simpl; auto.
Qed.

End Acts.

(* the real stages are not gated: no goroutine is ever parked inside a user function by the harness *)
Definition not_call (ctl : wctl) : Prop := match ctl with WCall _ _ => False | _ => True end.

Theorem gated_never (c : cfg) : gated c = false -> forall s, reachable c s -> forall w, not_call (wc (ws s w)).
Proof.
  intros Hg. apply (reachable_inv c (fun s => forall w, not_call (wc (ws s w)))).
  - intros w. unfold init, init_worker. simpl. destruct (pre c w (l0 c w)); exact I.
  - intros s e s' HS Hs. destruct (step_effect c s e s' Hs) as [_ He].
    assert (Hother : forall w0 x, not_call (wc x) -> forall w, not_call (wc (upd (ws s) w0 x w))).
    { intros w0 x Hx w. destruct (Nat.eq_dec w w0) as [->|Hne]; upd_simpl; auto. }
    assert (Htake : forall w a, not_call (wc (take c s w a))).
    { intros w a. unfold take. destruct (plan c w (wl (ws s w)) a). rewrite Hg. exact I. }
    destruct He as [i x Hi Hcl | i Hi Hcl | k t v rest Hb | k v w eof a rest Hb Hcap Hcl Hw Hc Hs0 | | | w s'' Hw He
                   | w a todo Hw Hc | Hcl Had Hcd | t Ht]; simpl; auto.
    + apply Hother. exact I.
    + destruct He as [i a t rest Hsrc Hc Hb | Hsrc Hc | i Hsrc Hc Hb Hcl | ctl' Hcn Hdue Hsl Hsls
                     | eof a k0 v rest Hc Hs0 Hcl | eof k0 t r rest Hc Hb | dropped Hp Hnd Hnr Hnc Hwhy | eof a k0 v rest Hc Hs0 Hcl];
        simpl; auto; try (apply Hother; auto; exact I).
      * apply Hother. simpl. destruct Hcn; exact I.
      * intros w0. unfold finish. destruct (closer c); [|rewrite close_all_ws']; simpl; apply Hother; exact I.
    + apply Hother. exact I.
    + intros w0. rewrite close_all_ws'. apply HS.
Qed.

(* the same with a predicate that depends on the worker, and the channel discipline that follows:
   what is on a channel was put there by a worker whose code sends on it *)
Section ActsW.
Variable c : cfg.
Variable P : nat -> act -> Prop.
Hypothesis Hstop : forall w, P w AStop.
Hypothesis Hplan : forall w l a, Forall (P w) (fst (plan c w l a)).
Hypothesis Heof : forall w l, Forall (P w) (on_eof c w l).

Definition actsw_state (s : state) : Prop := forall w, Forall (P w) (todo_of (wc (ws s w))).

Lemma actsw_other s s' w : (forall w', w' <> w -> ws s' w' = ws s w') -> Forall (P w) (todo_of (wc (ws s' w))) ->
  actsw_state s -> actsw_state s'.
Proof. intros Ho Hw HS w'. destruct (Nat.eq_dec w' w) as [->|Hne]; auto. rewrite Ho; auto. Qed.

Lemma actsw_take s w a : Forall (P w) (todo_of (wc (take c s w a))).
Proof.
  unfold take. pose proof (Hplan w (wl (ws s w)) a) as H.
  destruct (plan c w (wl (ws s w)) a) as [acts l']. destruct (gated c); simpl; exact H.
Qed.

Theorem actsw_step s e s' : actsw_state s -> step c s e = Some s' -> actsw_state s'.
Proof.
  intros HS Hs. destruct (step_effect c s e s' Hs) as [_ He].
  destruct He as [i x Hi Hcl | i Hi Hcl | k t v rest Hb | k v w eof a rest Hb Hcap Hcl Hw Hc Hs0 | | | w s' Hw He
                 | w a todo Hw Hc | Hcl Had Hcd | t Ht]; try exact HS.
  - apply actsw_other with s w; simpl; intros; upd_simpl; auto. simpl.
    pose proof (HS w) as H. rewrite Hc in H. simpl in H. inversion H; auto.
  - pose proof (HS w) as Hw0.
    destruct He as [i a t rest Hsrc Hc Hb | Hsrc Hc | i Hsrc Hc Hb Hcl | ctl' Hcn Hdue Hsl Hsls
                   | eof a k0 v rest Hc Hs0 Hcl | eof k0 t r rest Hc Hb | dropped Hp Hnd Hnr Hnc Hwhy | eof a k0 v rest Hc Hs0 Hcl].
    + apply actsw_other with s w; simpl; intros; upd_simpl; auto. apply actsw_take.
    + apply actsw_other with s w; simpl; intros; upd_simpl; auto. apply actsw_take.
    + apply actsw_other with s w; simpl; intros; upd_simpl; auto. simpl. apply Heof.
    + apply actsw_other with s w; simpl; intros; upd_simpl; auto. simpl.
      pose proof (ctl_next_incl _ _ Hcn) as Hi. rewrite Forall_forall in *. auto.
    + apply actsw_other with s w; simpl; intros; upd_simpl; auto. simpl.
      rewrite Hc in Hw0. simpl in Hw0. inversion Hw0; auto.
    + apply actsw_other with s w; simpl; intros; upd_simpl; auto. simpl.
      rewrite Hc in Hw0. simpl in Hw0. inversion Hw0; auto.
    + unfold finish. set (s1 := set_w s w _).
      assert (H1 : actsw_state s1) by (apply actsw_other with s w; unfold s1; simpl; intros; upd_simpl; simpl; auto).
      destruct (closer c); auto. intros w'. rewrite close_all_ws'. apply H1.
    + exact HS.
  - apply actsw_other with s w; simpl; intros; upd_simpl; auto. simpl.
    pose proof (HS w) as H. rewrite Hc in H. exact H.
  - intros w. simpl. rewrite close_all_ws'. apply HS.
Qed.

Theorem actsw_reachable s : reachable c s -> actsw_state s.
Proof.
  apply reachable_inv; [|apply actsw_step].
  intros w. unfold init, init_worker. simpl. destruct (pre c w (l0 c w)); simpl; auto.
Qed.
End ActsW.

Section ChanTags.
Variable c : cfg.
Variable sendsto : nat -> nat -> Prop.     (* worker w may send on channel k *)
Hypothesis Hplan : forall w l a, Forall (fun x => forall k v, sends_on x k v -> sendsto w k) (fst (plan c w l a)).
Hypothesis Heof : forall w l, Forall (fun x => forall k v, sends_on x k v -> sendsto w k) (on_eof c w l).

Definition chan_tags (s : state) : Prop := forall k t v, In (t, v) (rcvd s k ++ cbuf (outs s k)) -> sendsto t k.

Theorem chan_tags_reachable s : reachable c s -> chan_tags s.
Proof.
  intros Hr.
  assert (Hacts : forall s0, reachable c s0 -> forall w, Forall (fun x => forall k v, sends_on x k v -> sendsto w k) (todo_of (wc (ws s0 w)))).
  { intros s0 H0. apply (actsw_reachable c (fun w x => forall k v, sends_on x k v -> sendsto w k)); auto.
    intros w k v [H|H]; discriminate. }
  revert s Hr.
  apply (reachable_inv_strong c chan_tags).
  - intros k t v H. simpl in H. contradiction.
  - intros s e s' Hr HI Hs. destruct (step_effect c s e s' Hs) as [_ He].
    assert (Hsame : (forall k, rcvd s' k ++ cbuf (outs s' k) = rcvd s k ++ cbuf (outs s k)) -> chan_tags s').
    { intros E k t v Hin. rewrite E in Hin. eapply HI; eauto. }
    assert (Hpush : forall w a k0 v0 eof rest, wc (ws s w) = WRun eof (a :: rest) -> sends_on a k0 v0 -> sendsto w k0).
    { intros w a k0 v0 eof rest Hc Hs0. pose proof (Hacts s Hr w) as H. rewrite Hc in H. simpl in H. inversion H; subst. eauto. }
    destruct He as [i x Hi Hcl | i Hi Hcl | k t v rest Hb | k v w eof a rest Hb Hcap Hcl Hw Hc Hs0 | | | w s'' Hw He
                   | w a todo Hw Hc | Hcl Had Hcd | t Ht]; try (apply Hsame; reflexivity).
    + apply Hsame. intros k'. simpl. destruct (Nat.eq_dec k' k) as [->|Hne]; upd_simpl; auto. simpl. rewrite Hb. simpl.
      rewrite <- app_assoc. reflexivity.
    + intros k' t v' Hin. simpl in Hin. destruct (Nat.eq_dec k' k) as [->|Hne]; upd_simpl_in Hin; [|eapply HI; eauto].
      rewrite Hb, app_nil_r in Hin. apply in_app_or in Hin. destruct Hin as [Hin|[Hin|[]]].
      * eapply (HI k). apply in_or_app. left. exact Hin.
      * inversion Hin; subst. eapply Hpush; eauto.
    + destruct He as [i a t rest Hsrc Hc Hb | Hsrc Hc | i Hsrc Hc Hb Hcl | ctl' Hcn Hdue Hsl Hsls
                     | eof a k0 v rest Hc Hs0 Hcl | eof k0 t r rest Hc Hb | dropped Hp Hnd Hnr Hnc Hwhy | eof a k0 v rest Hc Hs0 Hcl];
        try (apply Hsame; reflexivity).
      * intros k t v' Hin. simpl in Hin. destruct (Nat.eq_dec k k0) as [->|Hne]; upd_simpl_in Hin; [|eapply HI; eauto].
        simpl in Hin. rewrite app_assoc in Hin. apply in_app_or in Hin. destruct Hin as [Hin|[Hin|[]]].
        -- eapply HI; eauto.
        -- inversion Hin; subst. eapply Hpush; eauto.
      * apply Hsame. intros k. simpl. destruct (Nat.eq_dec k k0) as [->|Hne]; upd_simpl; auto. simpl. rewrite Hb. simpl.
        rewrite <- app_assoc. reflexivity.
      * apply Hsame. intros k. unfold finish. destruct (closer c); auto. now rewrite close_all_streams.
    + apply Hsame. intros k. simpl. apply close_all_streams.
Qed.
End ChanTags.
