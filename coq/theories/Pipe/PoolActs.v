(* Whatever holds of every statement of every plan holds of every statement a worker still has
   to execute. *)
From Coq Require Import List ZArith NArith Bool Arith PeanoNat Lia.
From Golem Require Import Pipe.Pool Pipe.PoolEffects Pipe.PoolSteps Pipe.PoolInv Pipe.PoolSimple.
Import ListNotations.

Section Acts.
Variable c : cfg.
Variable P : act -> Prop.
Hypothesis Hstop : P AStop.
Hypothesis Hplan : forall w l a, Forall P (fst (plan c w l a)).
Hypothesis Heof : forall w l, Forall P (on_eof c w l).

Definition acts_state (s : state) : Prop := forall w, Forall P (todo_of (wc (ws s w))).

Lemma acts_other s s' w : (forall w', w' <> w -> ws s' w' = ws s w') -> Forall P (todo_of (wc (ws s' w))) ->
  acts_state s -> acts_state s'.
Proof. intros Ho Hw HS w'. destruct (Nat.eq_dec w' w) as [->|Hne]; auto. rewrite Ho; auto. Qed.

Lemma acts_take s w a : Forall P (todo_of (wc (take c s w a))).
Proof.
  unfold take. pose proof (Hplan w (wl (ws s w)) a) as H.
  destruct (plan c w (wl (ws s w)) a) as [acts l']. destruct (gated c); simpl; exact H.
Qed.

Lemma Forall_incl' (l l' : list act) : incl l l' -> Forall P l' -> Forall P l.
Proof. intros Hi H. rewrite Forall_forall in *. auto. Qed.

Theorem acts_step s e s' : acts_state s -> step c s e = Some s' -> acts_state s'.
Proof.
  intros HS Hs. destruct (step_effect c s e s' Hs) as [_ He].
  destruct He as [i x Hi Hcl | i Hi Hcl | k t v rest Hb | k v w eof a rest Hb Hcap Hcl Hw Hc Hs0 | | | w s' Hw He
                 | w a todo Hw Hc | Hcl Had Hcd | t Ht]; try exact HS.
  - apply acts_other with s w; simpl; intros; upd_simpl; auto. simpl.
    pose proof (HS w) as H. rewrite Hc in H. simpl in H. inversion H; auto.
  - pose proof (HS w) as Hw0.
    destruct He as [i a t rest Hsrc Hc Hb | Hsrc Hc | i Hsrc Hc Hb Hcl | ctl' Hcn Hdue Hsl Hsls
                   | eof a k0 v rest Hc Hs0 Hcl | eof k0 t r rest Hc Hb | dropped Hp Hnd Hnr Hnc Hwhy | eof a k0 v rest Hc Hs0 Hcl].
    + apply acts_other with s w; simpl; intros; upd_simpl; auto. apply acts_take.
    + apply acts_other with s w; simpl; intros; upd_simpl; auto. apply acts_take.
    + apply acts_other with s w; simpl; intros; upd_simpl; auto. simpl. apply Heof.
    + apply acts_other with s w; simpl; intros; upd_simpl; auto. simpl.
      eapply Forall_incl'; [eapply ctl_next_incl; eauto|exact Hw0].
    + apply acts_other with s w; simpl; intros; upd_simpl; auto. simpl.
      rewrite Hc in Hw0. simpl in Hw0. inversion Hw0; auto.
    + apply acts_other with s w; simpl; intros; upd_simpl; auto. simpl.
      rewrite Hc in Hw0. simpl in Hw0. inversion Hw0; auto.
    + unfold finish. set (s1 := set_w s w _).
      assert (H1 : acts_state s1) by (apply acts_other with s w; unfold s1; simpl; intros; upd_simpl; simpl; auto).
      destruct (closer c); auto. intros w'. rewrite close_all_ws'. apply H1.
    + exact HS.
  - apply acts_other with s w; simpl; intros; upd_simpl; auto. simpl.
    pose proof (HS w) as H. rewrite Hc in H. exact H.
  - intros w. simpl. rewrite close_all_ws'. apply HS.
Qed.

Theorem acts_reachable s : reachable c s -> acts_state s.
Proof.
  apply reachable_inv; [|apply acts_step].
  intros w. unfold init, init_worker. simpl. destruct (pre c w (l0 c w)); simpl; auto.
Qed.

End Acts.

(* the real stages are not gated: no goroutine is ever parked inside a user function by the harness *)
Definition not_call (ctl : wctl) : Prop := match ctl with WCall _ _ => False | _ => True end.

Theorem gated_never (c : cfg) : gated c = false -> forall s, reachable c s -> forall w, not_call (wc (ws s w)).
Proof.
  intros Hg. apply (reachable_inv c (fun s => forall w, not_call (wc (ws s w)))).
  - intros w. unfold init, init_worker. simpl. destruct (pre c w (l0 c w)); exact I.
  - intros s e s' HS Hs. destruct (step_effect c s e s' Hs) as [_ He].
    assert (Hother : forall w0 x, not_call (wc x) -> forall w, not_call (wc (upd (ws s) w0 x w))).
    { intros w0 x Hx w. destruct (Nat.eq_dec w w0) as [->|Hne]; upd_simpl; auto. }
    assert (Htake : forall w a, not_call (wc (take c s w a))).
    { intros w a. unfold take. destruct (plan c w (wl (ws s w)) a). rewrite Hg. exact I. }
    destruct He as [i x Hi Hcl | i Hi Hcl | k t v rest Hb | k v w eof a rest Hb Hcap Hcl Hw Hc Hs0 | | | w s'' Hw He
                   | w a todo Hw Hc | Hcl Had Hcd | t Ht]; simpl; auto.
    + apply Hother. exact I.
    + destruct He as [i a t rest Hsrc Hc Hb | Hsrc Hc | i Hsrc Hc Hb Hcl | ctl' Hcn Hdue Hsl Hsls
                     | eof a k0 v rest Hc Hs0 Hcl | eof k0 t r rest Hc Hb | dropped Hp Hnd Hnr Hnc Hwhy | eof a k0 v rest Hc Hs0 Hcl];
        simpl; auto; try (apply Hother; auto; exact I).
      * apply Hother. simpl. destruct Hcn; exact I.
      * intros w0. unfold finish. destruct (closer c); [|rewrite close_all_ws']; simpl; apply Hother; exact I.
    + apply Hother. exact I.
    + intros w0. rewrite close_all_ws'. apply HS.
Qed.
