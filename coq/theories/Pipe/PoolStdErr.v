(* pipe.StdErr: a goroutine that reads the error channel until it is closed (and logs).  It takes no
   context: cancel does not concern it.  Hence the statements here carry NO hypothesis about cancel:
   it reads in order, a sender is never left blocked (whenever the goroutine cannot move the channel
   is empty and - if open - accepts a send at once), and it returns exactly when the channel is closed
   and empty, having read everything. *)
From Coq Require Import List ZArith NArith Bool Arith PeanoNat Lia.
From Golem Require Import Base.Lists Pipe.Pool Pipe.Stages Pipe.PoolEffects Pipe.PoolSteps Pipe.PoolInv Pipe.PoolInv2
     Pipe.PoolSafe Pipe.PoolClosed Pipe.PoolStop Pipe.PoolLive Pipe.PoolSimple Pipe.PoolSeq Pipe.PoolStateless Pipe.PoolStages Pipe.PoolStepCases.
Import ListNotations.
Open Scope nat_scope.

Section StdErr.
Variables (icaps ocaps : list nat).
Definition stderr_cfg : cfg := seq_stage plan_sink no_eof always 0%Z [] icaps ocaps.
Let c := stderr_cfg.

(* the non-nil errors logged: 0 stands for nil *)
Definition logged (xs : list Z) : list Z := filter (fun x => negb (Z.eqb x 0)) xs.

(* where the goroutine can be: at `range exx`, at the end of the loop body, after the loop, returned -
   the latter two only after it has seen the channel closed and empty *)
Definition sshape (s : state) : Prop :=
  match wc (ws s 0) with
  | WRecv | WRun false [] => True
  | WRun true [] | WDone => weof (ws s 0) = true
  | _ => False
  end.

Lemma sshape_same s s' : ws s' 0 = ws s 0 -> sshape s -> sshape s'.
Proof. unfold sshape. intros ->. auto. Qed.

Lemma sshape_step s e s' : sshape s -> step c s e = Some s' -> sshape s'.
Proof.
  intros Hs Hst. destruct (step_cases c s e s' Hst) as [_ [(w & ch & _ & Hw & Hsw)|He]].
  - assert (w = 0) by (change (par c) with 1 in Hw; lia). subst w.
    unfold sshape in Hs. unfold step_worker in Hsw.
    destruct (wc (ws s 0)) as [|a0 t0|eof todo|u sel eof todo|] eqn:Ec; try contradiction; try discriminate.
    + assert (Esrc : src c 0 = SIn 0) by reflexivity. rewrite Esrc in Hsw. cbv zeta in Hsw.
      destruct (cbuf (ins s 0)) as [|[t a] r] eqn:Eb.
      * destruct (cclosed (ins s 0)); [|discriminate]. inversion Hsw; subst.
        unfold sshape. simpl. rewrite ?upd_same. simpl. reflexivity.
      * inversion Hsw; subst. unfold sshape. simpl. rewrite ?upd_same. unfold take. simpl. exact I.
    + destruct todo as [|a rest]; [|destruct eof; contradiction].
      destruct eof.
      * inversion Hsw; subst. unfold finish. change (closer c) with false. change (wcloses c 0) with (@nil nat).
        unfold sshape. simpl. rewrite ?upd_same. simpl. exact Hs.
      * inversion Hsw; subst. unfold sshape. simpl. rewrite ?upd_same. simpl. exact I.
  - destruct He as [i x Hi Hcl|i Hi Hcl|k t v rest Hb|k v w eof a rest Hb Hcap Hcl Hw Hc Hso| |
                    |w a todo Hw Hc|Hcl Had Hcd|t Ht];
      try (apply (sshape_same s); [reflexivity|exact Hs]); try exact Hs.
    + assert (w = 0) by (change (par c) with 1 in Hw; lia). subst w.
      unfold sshape in Hs. rewrite Hc in Hs. destruct eof; contradiction.
    + assert (w = 0) by (change (par c) with 1 in Hw; lia). subst w.
      unfold sshape in Hs. rewrite Hc in Hs. contradiction.
Qed.

Theorem sshape_reachable s : reachable c s -> sshape s.
Proof. apply reachable_inv; [exact I|]. intros s0 e s' H. apply sshape_step. exact H. Qed.

(* reads in order, invents nothing *)
Theorem stderr_reads_in_order s :
  reachable c s -> prefix (wtaken (ws s 0)) (sent s 0) /\ prefix (logged (wtaken (ws s 0))) (logged (sent s 0)).
Proof.
  intros Hr. pose proof (seq_taken c eq_refl eq_refl s Hr) as E. split.
  - eapply prefix_of_app. symmetry. exact E.
  - rewrite E. unfold logged. rewrite filter_app. eapply prefix_of_app. reflexivity.
Qed.

(* the goroutine returns only when the channel is closed and empty, having read - and logged - everything;
   whether the context is cancelled or not *)
Theorem stderr_done_all s :
  reachable c s -> wc (ws s 0) = WDone ->
  wtaken (ws s 0) = sent s 0 /\ cbuf (ins s 0) = [] /\ cclosed (ins s 0) = true.
Proof.
  intros Hr Hd. pose proof (sshape_reachable s Hr) as Hs. unfold sshape in Hs. rewrite Hd in Hs.
  split; [apply (seq_eof_all c eq_refl eq_refl s Hr Hs)|].
  apply (k_input c s 0 (Kinv_reachable c s Hr 0) Hs 0). reflexivity.
Qed.

(* whenever the goroutine cannot move: nothing is left in the channel, an open channel accepts the next
   error at once (even unbuffered: the goroutine is parked in the receive), a closed one has been left -
   so "the error channel is read" holds against every stage, with or without cancel *)
Theorem stderr_never_blocks s :
  reachable c s -> quiescent c s ->
  cbuf (ins s 0) = [] /\
  (cclosed (ins s 0) = false -> forall e, step c s (ESent 0 e) <> None) /\
  (cclosed (ins s 0) = true -> wc (ws s 0) = WDone /\ wtaken (ws s 0) = sent s 0).
Proof.
  intros Hr [Hq _]. pose proof (sshape_reachable s Hr) as Hs.
  assert (Hp : panicked s = false) by (apply (nopanic c); [apply seq_wf; constructor|exact Hr]).
  specialize (Hq 0 (Nat.lt_0_succ 0)). pose proof (Hq false) as Hf. unfold step_worker in Hf.
  unfold sshape in Hs.
  destruct (wc (ws s 0)) as [|a0 t0|eof todo|u sel eof todo|] eqn:Ec; try contradiction.
  - assert (Esrc : src c 0 = SIn 0) by reflexivity. rewrite Esrc in Hf. cbv zeta in Hf.
    destruct (cbuf (ins s 0)) as [|[t a] r] eqn:Eb; [|discriminate].
    destruct (cclosed (ins s 0)) eqn:Ecl; [discriminate|].
    split; [reflexivity|]. split; [|discriminate].
    intros _ e. unfold step. rewrite Hp. unfold step_ok.
    change (nins c) with 1. simpl Nat.ltb. cbv iota. rewrite Ecl.
    unfold in_room. rewrite Eb. change (par c) with 1. simpl any_waiting. rewrite Ec. simpl.
    destruct (ccap (ins s 0)); simpl; discriminate.
  - destruct todo as [|a rest]; [|destruct eof; contradiction]. destruct eof; discriminate.
  - destruct (stderr_done_all s Hr Ec) as (A & B & C). split; [exact B|]. split.
    + intros D. rewrite C in D. discriminate.
    + intros _. split; [reflexivity|exact A].
Qed.

End StdErr.
