(* VARIANT for stages WITH generator sources (Unfold, Emit, Throttling's pacer).  A generator starts a new
   round without consuming anything, so its internal steps terminate only because every round contains a
   BLOCKER: a send on one of the outputs 0..K-1 (needs room: the free capacity goes down and only the
   environment's receives - or token receives - bring it back), a timer of positive duration (nothing
   internal moves the clock) or a return.  Hypothesis on the generator workers only:
       every plan contains a blocker and no token receive.
   Then the internal step relation is well-founded from EVERY state.  The variant has seven levels:
     (A) elements buffered in the inputs            (B) workers that have not seen the end of their input
     (T) token receives still to execute            (F) free capacity of the outputs 0..K-1
     (S) workers neither returned nor parked on a timer that is not due
     (P) workers whose remaining statements contain no blocker (they are past it: a generator's take
         goes from here to a fresh plan that contains one)
     (C) statements to execute (+ closer, + not panicked), as in PoolVariant.v.
   F goes up only when T goes down (a token is taken out of a channel); T goes up only when A or B goes
   down (a new plan / the code after the loop is installed); P goes up only when F or S goes down (the
   blocker has been executed). *)
From Coq Require Import List ZArith NArith Bool Arith PeanoNat Lia Wf_nat.
From Golem Require Import Pipe.Pool Pipe.PoolEffects Pipe.PoolSteps Pipe.PoolStepCases Pipe.PoolVariant.
Import ListNotations.
Open Scope nat_scope.

Definition is_tok (a : act) : bool := match a with ATok _ => true | _ => false end.
Definition ntokl (l : list act) : nat := length (filter is_tok l).
Definition ntok (ctl : wctl) : nat := ntokl (todo_of ctl).

Definition blockerb (K : nat) (a : act) : bool :=
  match a with
  | ASend k _ | APlain k _ => Nat.ltb k K
  | ASleep d | ASleepSel d => N.ltb 0 d
  | AStop => true
  | _ => false
  end.
Definition hasb (K : nat) (l : list act) : bool := existsb (blockerb K) l.

(* 1: the worker is past the blocker of its round (or between rounds) *)
Definition phase0 (K : nat) (ctl : wctl) : nat :=
  match ctl with WDone => 0 | _ => if hasb K (todo_of ctl) then 0 else 1 end.

(* 0: returned, or parked on a timer that is not due *)
Definition awake (n : N) (ctl : wctl) : nat :=
  match ctl with
  | WDone => 0
  | WSleep u _ _ _ => if N.leb u n then 1 else 0
  | _ => 1
  end.

Definition lex2 (a' a : nat) (P : Prop) : Prop := a' < a \/ (a' <= a /\ P).

Lemma lex7_acc {X} (R : X -> X -> Prop) (f1 f2 f3 f4 f5 f6 f7 : X -> nat) :
  (forall s s', R s' s ->
     lex2 (f1 s') (f1 s) (lex2 (f2 s') (f2 s) (lex2 (f3 s') (f3 s) (lex2 (f4 s') (f4 s)
       (lex2 (f5 s') (f5 s) (lex2 (f6 s') (f6 s) (f7 s' < f7 s))))))) ->
  forall s, Acc R s.
Proof.
  intros Hdec.
  assert (H : forall a1 a2 a3 a4 a5 a6 a7 s,
             f1 s <= a1 -> f2 s <= a2 -> f3 s <= a3 -> f4 s <= a4 -> f5 s <= a5 -> f6 s <= a6 -> f7 s <= a7 ->
             Acc R s).
  { induction a1 as [a1 IH1] using lt_wf_ind. induction a2 as [a2 IH2] using lt_wf_ind.
    induction a3 as [a3 IH3] using lt_wf_ind. induction a4 as [a4 IH4] using lt_wf_ind.
    induction a5 as [a5 IH5] using lt_wf_ind. induction a6 as [a6 IH6] using lt_wf_ind.
    induction a7 as [a7 IH7] using lt_wf_ind.
    intros s H1 H2 H3 H4 H5 H6 H7. constructor. intros s' Hs'.
    specialize (Hdec _ _ Hs'). unfold lex2 in Hdec.
    destruct Hdec as [D|[D1 [D|[D2 [D|[D3 [D|[D4 [D|[D5 [D|[D6 D]]]]]]]]]]]].
    - apply (IH1 (f1 s')) with (a2 := f2 s') (a3 := f3 s') (a4 := f4 s') (a5 := f5 s') (a6 := f6 s') (a7 := f7 s'); lia.
    - apply (IH2 (f2 s')) with (a3 := f3 s') (a4 := f4 s') (a5 := f5 s') (a6 := f6 s') (a7 := f7 s'); lia.
    - apply (IH3 (f3 s')) with (a4 := f4 s') (a5 := f5 s') (a6 := f6 s') (a7 := f7 s'); lia.
    - apply (IH4 (f4 s')) with (a5 := f5 s') (a6 := f6 s') (a7 := f7 s'); lia.
    - apply (IH5 (f5 s')) with (a6 := f6 s') (a7 := f7 s'); lia.
    - apply (IH6 (f6 s')) with (a7 := f7 s'); lia.
    - apply (IH7 (f7 s')); lia. }
  intros s. eapply H; eauto.
Qed.

Section VariantGen.
Variable c : cfg.
Variable K : nat.

Definition mT (s : state) : nat := sumf (fun w => ntok (wc (ws s w))) (par c).
Definition mF (s : state) : nat := sumf (fun k => ccap (outs s k) - length (cbuf (outs s k))) K.
Definition mS (s : state) : nat := sumf (fun w => awake (now s) (wc (ws s w))) (par c).
Definition mP (s : state) : nat := sumf (fun w => phase0 K (wc (ws s w))) (par c).

Definition belowG (s' s : state) : Prop :=
  lex2 (mA c s') (mA c s) (lex2 (mB c s') (mB c s) (lex2 (mT s') (mT s) (lex2 (mF s') (mF s)
    (lex2 (mS s') (mS s) (lex2 (mP s') (mP s) (mC c s' < mC c s)))))).

(* the comparison of worker w's control before and after, with the free capacity in the middle *)
Definition locallex (n : N) (ctl' ctl : wctl) (F' F : nat) : Prop :=
  lex2 (inloop ctl') (inloop ctl) (lex2 (ntok ctl') (ntok ctl) (lex2 F' F
    (lex2 (awake n ctl') (awake n ctl) (lex2 (phase0 K ctl') (phase0 K ctl) (rank ctl' < rank ctl))))).

Lemma belowG_upd s s' w x :
  w < par c -> panicked s = false ->
  ins s' = ins s -> now s' = now s -> ws s' = upd (ws s) w x -> closer_done s' = closer_done s ->
  locallex (now s) (wc x) (wc (ws s w)) (mF s') (mF s) ->
  belowG s' s.
Proof.
  intros Hw Hp Hi Hn Hws Hcd Hx.
  assert (EA : mA c s' = mA c s) by (unfold mA; rewrite Hi; reflexivity).
  assert (EB : mB c s' + inloop (wc (ws s w)) = mB c s + inloop (wc x)).
  { unfold mB. rewrite Hws. apply (sumf_upd (fun y => inloop (wc y)) (ws s) w x (par c) Hw). }
  assert (ET : mT s' + ntok (wc (ws s w)) = mT s + ntok (wc x)).
  { unfold mT. rewrite Hws. apply (sumf_upd (fun y => ntok (wc y)) (ws s) w x (par c) Hw). }
  assert (ES : mS s' + awake (now s) (wc (ws s w)) = mS s + awake (now s) (wc x)).
  { unfold mS. rewrite Hws, Hn. apply (sumf_upd (fun y => awake (now s) (wc y)) (ws s) w x (par c) Hw). }
  assert (EP : mP s' + phase0 K (wc (ws s w)) = mP s + phase0 K (wc x)).
  { unfold mP. rewrite Hws. apply (sumf_upd (fun y => phase0 K (wc y)) (ws s) w x (par c) Hw). }
  assert (EC : ranks c s' + rank (wc (ws s w)) = ranks c s + rank (wc x)).
  { unfold ranks. rewrite Hws. apply (sumf_upd (fun y => rank (wc y)) (ws s) w x (par c) Hw). }
  assert (ED : cbit c s' = cbit c s) by (unfold cbit; rewrite Hcd; reflexivity).
  assert (EQ : pbit s' <= pbit s) by (unfold pbit; rewrite Hp; destruct (panicked s'); lia).
  unfold belowG, mC. unfold locallex in Hx. unfold lex2 in *. lia.
Qed.

Lemma mF_same s s' :
  (forall k, cbuf (outs s' k) = cbuf (outs s k)) -> (forall k, ccap (outs s' k) = ccap (outs s k)) -> mF s' = mF s.
Proof. intros Hb Hc. unfold mF. apply sumf_ext. intros j _. now rewrite Hb, Hc. Qed.

Lemma mF_push s k x :
  has_room (outs s k) = true ->
  (k < K -> sumf (fun j => ccap (upd (outs s) k (push (outs s k) x) j)
                           - length (cbuf (upd (outs s) k (push (outs s k) x) j))) K < mF s) /\
  (K <= k -> sumf (fun j => ccap (upd (outs s) k (push (outs s k) x) j)
                            - length (cbuf (upd (outs s) k (push (outs s k) x) j))) K = mF s).
Proof.
  intros Hr. unfold has_room in Hr. apply Nat.ltb_lt in Hr. unfold mF. split; intros Hk.
  - apply sumf_lt with k; auto.
    + rewrite upd_same. simpl. rewrite app_length. simpl. lia.
    + intros j Hj. destruct (Nat.eq_dec j k) as [->|Hne]; [|rewrite upd_other by exact Hne; lia].
      rewrite upd_same. simpl. rewrite app_length. simpl. lia.
  - apply sumf_ext. intros j Hj. rewrite upd_other by lia. reflexivity.
Qed.

Lemma panic_belowG s : panicked s = false -> belowG (set_panic s) s.
Proof.
  intros Hp. unfold belowG, lex2, mA, mB, mT, mF, mS, mP, mC, ranks, cbit, pbit. simpl. rewrite Hp. lia.
Qed.

Lemma finish_belowG s w d :
  w < par c -> panicked s = false -> wc (ws s w) <> WDone -> belowG (finish c s w d) s.
Proof.
  intros Hw Hp Hnd. destruct (finish_fields c s w d) as (F1 & F2 & F3).
  assert (Fn : now (finish c s w d) = now s /\ mF (finish c s w d) = mF s).
  { unfold finish. destruct (closer c); [split; reflexivity|]. set (s1 := set_w s w _).
    destruct (close_all_frame s1 (wcloses c w)) as (_ & _ & _ & _ & Hn & _ & _ & _ & Hb & Hcap).
    cbv zeta in Hn, Hb, Hcap. split; [rewrite Hn; reflexivity|]. apply mF_same; intros k; [rewrite Hb|rewrite Hcap]; reflexivity. }
  destruct Fn as [Fn Ff].
  eapply belowG_upd; eauto. unfold locallex, lex2. rewrite Ff. simpl.
  assert (0 < rank (wc (ws s w))) by (destruct (wc (ws s w)); simpl; try lia; congruence).
  assert (ntok WDone = 0) by reflexivity.
  lia.
Qed.

(* generator workers: every plan contains a blocker and no token receive *)
Hypothesis gen_blocks : forall w l a, w < par c -> src c w = SGen ->
  hasb K (fst (plan c w l a)) = true /\ ntokl (fst (plan c w l a)) = 0.

Lemma hasb_cons a l : hasb K (a :: l) = blockerb K a || hasb K l.
Proof. reflexivity. Qed.

Lemma ctl_belowG s w ctl' :
  w < par c -> panicked s = false ->
  ctl_next (wc (ws s w)) ctl' ->
  (forall u sel eof rest, wc (ws s w) = WSleep u sel eof rest -> (u <= now s)%N) ->
  (forall eof d rest, wc (ws s w) = WRun eof (ASleep d :: rest) -> ctl' = WSleep (now s + d) false eof rest) ->
  (forall eof d rest, wc (ws s w) = WRun eof (ASleepSel d :: rest) -> ctl' = WSleep (now s + d) true eof rest) ->
  belowG (set_w s w (with_ctl (ws s w) ctl')) s.
Proof.
  intros Hw Hp Hcn Hdue Hsl Hsls.
  eapply belowG_upd; eauto; try reflexivity. simpl.
  assert (EF : mF (set_w s w (with_ctl (ws s w) ctl')) = mF s) by reflexivity. rewrite EF. clear EF.
  (* what a sleep statement does *)
  assert (Hsleep : forall d sel eof rest, ctl' = WSleep (now s + d) sel eof rest ->
            forall h, wc (ws s w) = WRun eof (h :: rest) -> is_tok h = false -> blockerb K h = N.ltb 0 d ->
            locallex (now s) ctl' (wc (ws s w)) (mF s) (mF s)).
  { intros d sel eof rest -> h Hc Ht Hb. rewrite Hc. unfold locallex, lex2, ntok, ntokl, phase0. simpl.
    rewrite Ht, Hb.
    destruct (N.eq_dec d 0) as [->|Hd].
    - rewrite N.add_0_r, N.leb_refl. simpl. destruct eof; lia.
    - assert (E : N.leb (now s + d) (now s) = false) by (apply N.leb_gt; lia). rewrite E. destruct eof; lia. }
  destruct Hcn as [|eof h rest Hsk|eof h rest u sel Hsk|u sel eof rest].
  - unfold locallex, lex2, ntok, ntokl, phase0. simpl. lia.
  - destruct Hsk as [->|[[k ->]|[[d ->]|[d ->]]]].
    + unfold locallex, lex2, ntok, ntokl, phase0. simpl. destruct eof; lia.
    + unfold locallex, lex2, ntok, ntokl, phase0. simpl. destruct eof; lia.
    + specialize (Hsl eof d rest eq_refl). discriminate.
    + specialize (Hsls eof d rest eq_refl). discriminate.
  - destruct Hsk as [[d ->]|[d ->]].
    + eapply Hsleep; [apply (Hsl eof d rest eq_refl)|reflexivity|reflexivity|reflexivity].
    + eapply Hsleep; [apply (Hsls eof d rest eq_refl)|reflexivity|reflexivity|reflexivity].
  - specialize (Hdue u sel eof rest eq_refl). apply N.leb_le in Hdue.
    unfold locallex, lex2, ntok, ntokl, phase0. simpl. rewrite Hdue. destruct eof; lia.
Qed.

Lemma wstep_belowG s w ch s' :
  w < par c -> panicked s = false -> step_worker c s w ch = Some s' -> belowG s' s.
Proof.
  intros Hw Hp Hsw.
  pose proof (step_worker_effect c s w ch s' Hsw) as He.
  destruct He as [i a t rest Hsrc Hc Hb | Hsrc Hc | i Hsrc Hc Hb Hcl | ctl' Hcn Hdue Hsl Hsls
                 | eof a k0 v rest Hc Hs0 Hcl | eof k0 t r rest Hc Hb | dropped Hpd Hnd Hnr Hnc Hwhy
                 | eof a k0 v rest Hc Hs0 Hcl].
  - (* take: one element less in the input *)
    left. unfold mA. cbn [ins]. apply sumf_lt with w; auto.
    + unfold src_idx. rewrite Hsrc, upd_same. unfold pop. cbn [cbuf]. rewrite Hb. simpl. lia.
    + intros j Hj. destruct (Nat.eq_dec (src_idx c j) i) as [->|Hne]; [|rewrite upd_other by exact Hne; lia].
      rewrite upd_same. unfold pop. cbn [cbuf]. rewrite Hb. simpl. lia.
  - (* a generator starts a round: from "past the blocker" to a plan that contains one *)
    destruct (gen_blocks w (wl (ws s w)) 0%Z Hw Hsrc) as [G1 G2].
    eapply belowG_upd; eauto; try reflexivity.
    assert (EF : mF (set_w s w (take c s w 0%Z)) = mF s) by reflexivity. rewrite EF. clear EF.
    rewrite Hc. unfold take. destruct (plan c w (wl (ws s w)) 0%Z) as [acts l']. simpl in G1, G2.
    unfold locallex, lex2, ntok, phase0. destruct (gated c); simpl; rewrite G1, G2; lia.
  - (* end of the input *)
    eapply belowG_upd; eauto; try reflexivity. rewrite Hc. left. simpl. lia.
  - apply ctl_belowG; auto.
  - (* a send: needs room *)
    destruct (step_worker_room c s w ch _ eof a k0 v rest Hsw Hc Hs0) as [(Hroom & _ & _)|[E|E]].
    + eapply belowG_upd; eauto; try reflexivity. simpl.
      destruct (mF_push s k0 (w, v) Hroom) as [M1 M2].
      assert (Ha : is_tok a = false /\ blockerb K a = Nat.ltb k0 K) by (destruct Hs0 as [->| ->]; split; reflexivity).
      destruct Ha as [Ha1 Ha2].
      rewrite Hc. unfold locallex, lex2, ntok, ntokl, phase0. simpl. rewrite Ha1, Ha2.
      change (mF (set_w (set_out s k0 (push (outs s k0) (w, v))) w (with_ctl (ws s w) (WRun eof rest))))
        with (sumf (fun j => ccap (upd (outs s) k0 (push (outs s k0) (w, v)) j)
                             - length (cbuf (upd (outs s) k0 (push (outs s k0) (w, v)) j))) K).
      destruct (Nat.ltb k0 K) eqn:Ek.
      * apply Nat.ltb_lt in Ek. specialize (M1 Ek). destruct eof; lia.
      * apply Nat.ltb_ge in Ek. specialize (M2 Ek). simpl. destruct eof; lia.
    + rewrite E. apply panic_belowG; auto.
    + rewrite E. apply finish_belowG; auto. congruence.
  - (* a token is taken *)
    eapply belowG_upd; eauto; try reflexivity. rewrite Hc. simpl.
    unfold locallex, lex2, ntok, ntokl. simpl. destruct eof; lia.
  - apply finish_belowG; auto.
  - apply panic_belowG; auto.
Qed.

Lemma istep_belowG s s' : istep c s s' -> belowG s' s.
Proof.
  intros H. apply istep_iff in H. destruct H as [Hp [(w & ch & Hw & H)|H]].
  - eapply wstep_belowG; eauto.
  - simpl in H. destruct (closer c && all_done c s && negb (closer_done s)) eqn:E; [|discriminate].
    apply andb_prop in E. destruct E as [E E3]. apply andb_prop in E. destruct E as [E1 _].
    apply negb_true_iff in E3. inversion H as [Hs']; clear H.
    destruct (close_all_frame s (closes c)) as (A & B & _ & _ & N & _ & _ & _ & Hb & Hcap). cbv zeta in A, B, N, Hb, Hcap.
    assert (EF : mF (close_all s (closes c)) = mF s) by (apply mF_same; auto).
    unfold belowG, lex2, mA, mB, mT, mS, mP, mC, ranks, cbit, pbit. unfold mF in *. simpl.
    rewrite A, B, N, E1, E3, Hp, EF. simpl.
    destruct (panicked (close_all s (closes c))); lia.
Qed.

(* NO LIVELOCK, generators included *)
Theorem internal_steps_terminate_gen s : Acc (fun s' s0 => istep c s0 s') s.
Proof.
  apply (lex7_acc (fun s' s0 => istep c s0 s') (mA c) (mB c) mT mF mS mP (mC c)).
  intros s0 s' H. exact (istep_belowG s0 s' H).
Qed.

End VariantGen.
