(* Per-arity lemmas about the generated PipeN definitions (coq/gen/GenPipe.v).
   Written once by a script; the definitions they talk about are regenerated
   from internal/pipe/pipe.go by tools/go2coq on every run. *)
From Coq Require Import List String.
From Golem Require Import Base.CallTree.
From GolemGen Require Import GenPipe.
Import ListNotations.

Lemma Pipe_spec : forall (A B C : Type) (f1 : A -> B) (f2 : B -> C) (a : A),
  Pipe f1 f2 a = f2 (f1 a).
Proof. intros; reflexivity. Qed.
Lemma Pipe_calls : calls Pipe_tree = Pipe_params /\ List.length Pipe_params = 2.
Proof. split; reflexivity. Qed.

Lemma Pipe3_spec : forall (A B C D : Type) (f1 : A -> B) (f2 : B -> C) (f3 : C -> D) (a : A),
  Pipe3 f1 f2 f3 a = f3 (f2 (f1 a)).
Proof. intros; reflexivity. Qed.
Lemma Pipe3_calls : calls Pipe3_tree = Pipe3_params /\ List.length Pipe3_params = 3.
Proof. split; reflexivity. Qed.

Lemma Pipe4_spec : forall (A B C D E : Type) (f1 : A -> B) (f2 : B -> C) (f3 : C -> D) (f4 : D -> E) (a : A),
  Pipe4 f1 f2 f3 f4 a = f4 (f3 (f2 (f1 a))).
Proof. intros; reflexivity. Qed.
Lemma Pipe4_calls : calls Pipe4_tree = Pipe4_params /\ List.length Pipe4_params = 4.
Proof. split; reflexivity. Qed.

Lemma Pipe5_spec : forall (A B C D E F : Type) (f1 : A -> B) (f2 : B -> C) (f3 : C -> D) (f4 : D -> E) (f5 : E -> F) (a : A),
  Pipe5 f1 f2 f3 f4 f5 a = f5 (f4 (f3 (f2 (f1 a)))).
Proof. intros; reflexivity. Qed.
Lemma Pipe5_calls : calls Pipe5_tree = Pipe5_params /\ List.length Pipe5_params = 5.
Proof. split; reflexivity. Qed.

Lemma Pipe6_spec : forall (A B C D E F G : Type) (f1 : A -> B) (f2 : B -> C) (f3 : C -> D) (f4 : D -> E) (f5 : E -> F) (f6 : F -> G) (a : A),
  Pipe6 f1 f2 f3 f4 f5 f6 a = f6 (f5 (f4 (f3 (f2 (f1 a))))).
Proof. intros; reflexivity. Qed.
Lemma Pipe6_calls : calls Pipe6_tree = Pipe6_params /\ List.length Pipe6_params = 6.
Proof. split; reflexivity. Qed.

Lemma Pipe7_spec : forall (A B C D E F G H : Type) (f1 : A -> B) (f2 : B -> C) (f3 : C -> D) (f4 : D -> E) (f5 : E -> F) (f6 : F -> G) (f7 : G -> H) (a : A),
  Pipe7 f1 f2 f3 f4 f5 f6 f7 a = f7 (f6 (f5 (f4 (f3 (f2 (f1 a)))))).
Proof. intros; reflexivity. Qed.
Lemma Pipe7_calls : calls Pipe7_tree = Pipe7_params /\ List.length Pipe7_params = 7.
Proof. split; reflexivity. Qed.

Lemma Pipe8_spec : forall (A B C D E F G H I : Type) (f1 : A -> B) (f2 : B -> C) (f3 : C -> D) (f4 : D -> E) (f5 : E -> F) (f6 : F -> G) (f7 : G -> H) (f8 : H -> I) (a : A),
  Pipe8 f1 f2 f3 f4 f5 f6 f7 f8 a = f8 (f7 (f6 (f5 (f4 (f3 (f2 (f1 a))))))).
Proof. intros; reflexivity. Qed.
Lemma Pipe8_calls : calls Pipe8_tree = Pipe8_params /\ List.length Pipe8_params = 8.
Proof. split; reflexivity. Qed.

Lemma Pipe9_spec : forall (A B C D E F G H I J : Type) (f1 : A -> B) (f2 : B -> C) (f3 : C -> D) (f4 : D -> E) (f5 : E -> F) (f6 : F -> G) (f7 : G -> H) (f8 : H -> I) (f9 : I -> J) (a : A),
  Pipe9 f1 f2 f3 f4 f5 f6 f7 f8 f9 a = f9 (f8 (f7 (f6 (f5 (f4 (f3 (f2 (f1 a)))))))).
Proof. intros; reflexivity. Qed.
Lemma Pipe9_calls : calls Pipe9_tree = Pipe9_params /\ List.length Pipe9_params = 9.
Proof. split; reflexivity. Qed.

Lemma Pipe10_spec : forall (A B C D E F G H I J K : Type) (f1 : A -> B) (f2 : B -> C) (f3 : C -> D) (f4 : D -> E) (f5 : E -> F) (f6 : F -> G) (f7 : G -> H) (f8 : H -> I) (f9 : I -> J) (f10 : J -> K) (a : A),
  Pipe10 f1 f2 f3 f4 f5 f6 f7 f8 f9 f10 a = f10 (f9 (f8 (f7 (f6 (f5 (f4 (f3 (f2 (f1 a))))))))).
Proof. intros; reflexivity. Qed.
Lemma Pipe10_calls : calls Pipe10_tree = Pipe10_params /\ List.length Pipe10_params = 10.
Proof. split; reflexivity. Qed.

Lemma Pipe11_spec : forall (A B C D E F G H I J K L : Type) (f1 : A -> B) (f2 : B -> C) (f3 : C -> D) (f4 : D -> E) (f5 : E -> F) (f6 : F -> G) (f7 : G -> H) (f8 : H -> I) (f9 : I -> J) (f10 : J -> K) (f11 : K -> L) (a : A),
  Pipe11 f1 f2 f3 f4 f5 f6 f7 f8 f9 f10 f11 a = f11 (f10 (f9 (f8 (f7 (f6 (f5 (f4 (f3 (f2 (f1 a)))))))))).
Proof. intros; reflexivity. Qed.
Lemma Pipe11_calls : calls Pipe11_tree = Pipe11_params /\ List.length Pipe11_params = 11.
Proof. split; reflexivity. Qed.

Lemma Pipe12_spec : forall (A B C D E F G H I J K L M : Type) (f1 : A -> B) (f2 : B -> C) (f3 : C -> D) (f4 : D -> E) (f5 : E -> F) (f6 : F -> G) (f7 : G -> H) (f8 : H -> I) (f9 : I -> J) (f10 : J -> K) (f11 : K -> L) (f12 : L -> M) (a : A),
  Pipe12 f1 f2 f3 f4 f5 f6 f7 f8 f9 f10 f11 f12 a = f12 (f11 (f10 (f9 (f8 (f7 (f6 (f5 (f4 (f3 (f2 (f1 a))))))))))).
Proof. intros; reflexivity. Qed.
Lemma Pipe12_calls : calls Pipe12_tree = Pipe12_params /\ List.length Pipe12_params = 12.
Proof. split; reflexivity. Qed.

Lemma Pipe13_spec : forall (A B C D E F G H I J K L M N : Type) (f1 : A -> B) (f2 : B -> C) (f3 : C -> D) (f4 : D -> E) (f5 : E -> F) (f6 : F -> G) (f7 : G -> H) (f8 : H -> I) (f9 : I -> J) (f10 : J -> K) (f11 : K -> L) (f12 : L -> M) (f13 : M -> N) (a : A),
  Pipe13 f1 f2 f3 f4 f5 f6 f7 f8 f9 f10 f11 f12 f13 a = f13 (f12 (f11 (f10 (f9 (f8 (f7 (f6 (f5 (f4 (f3 (f2 (f1 a)))))))))))).
Proof. intros; reflexivity. Qed.
Lemma Pipe13_calls : calls Pipe13_tree = Pipe13_params /\ List.length Pipe13_params = 13.
Proof. split; reflexivity. Qed.

Lemma Pipe14_spec : forall (A B C D E F G H I J K L M N O : Type) (f1 : A -> B) (f2 : B -> C) (f3 : C -> D) (f4 : D -> E) (f5 : E -> F) (f6 : F -> G) (f7 : G -> H) (f8 : H -> I) (f9 : I -> J) (f10 : J -> K) (f11 : K -> L) (f12 : L -> M) (f13 : M -> N) (f14 : N -> O) (a : A),
  Pipe14 f1 f2 f3 f4 f5 f6 f7 f8 f9 f10 f11 f12 f13 f14 a = f14 (f13 (f12 (f11 (f10 (f9 (f8 (f7 (f6 (f5 (f4 (f3 (f2 (f1 a))))))))))))).
Proof. intros; reflexivity. Qed.
Lemma Pipe14_calls : calls Pipe14_tree = Pipe14_params /\ List.length Pipe14_params = 14.
Proof. split; reflexivity. Qed.

Lemma Pipe15_spec : forall (A B C D E F G H I J K L M N O P : Type) (f1 : A -> B) (f2 : B -> C) (f3 : C -> D) (f4 : D -> E) (f5 : E -> F) (f6 : F -> G) (f7 : G -> H) (f8 : H -> I) (f9 : I -> J) (f10 : J -> K) (f11 : K -> L) (f12 : L -> M) (f13 : M -> N) (f14 : N -> O) (f15 : O -> P) (a : A),
  Pipe15 f1 f2 f3 f4 f5 f6 f7 f8 f9 f10 f11 f12 f13 f14 f15 a = f15 (f14 (f13 (f12 (f11 (f10 (f9 (f8 (f7 (f6 (f5 (f4 (f3 (f2 (f1 a)))))))))))))).
Proof. intros; reflexivity. Qed.
Lemma Pipe15_calls : calls Pipe15_tree = Pipe15_params /\ List.length Pipe15_params = 15.
Proof. split; reflexivity. Qed.

Lemma Pipe16_spec : forall (A B C D E F G H I J K L M N O P Q : Type) (f1 : A -> B) (f2 : B -> C) (f3 : C -> D) (f4 : D -> E) (f5 : E -> F) (f6 : F -> G) (f7 : G -> H) (f8 : H -> I) (f9 : I -> J) (f10 : J -> K) (f11 : K -> L) (f12 : L -> M) (f13 : M -> N) (f14 : N -> O) (f15 : O -> P) (f16 : P -> Q) (a : A),
  Pipe16 f1 f2 f3 f4 f5 f6 f7 f8 f9 f10 f11 f12 f13 f14 f15 f16 a = f16 (f15 (f14 (f13 (f12 (f11 (f10 (f9 (f8 (f7 (f6 (f5 (f4 (f3 (f2 (f1 a))))))))))))))).
Proof. intros; reflexivity. Qed.
Lemma Pipe16_calls : calls Pipe16_tree = Pipe16_params /\ List.length Pipe16_params = 16.
Proof. split; reflexivity. Qed.

Lemma Pipe17_spec : forall (A B C D E F G H I J K L M N O P Q R : Type) (f1 : A -> B) (f2 : B -> C) (f3 : C -> D) (f4 : D -> E) (f5 : E -> F) (f6 : F -> G) (f7 : G -> H) (f8 : H -> I) (f9 : I -> J) (f10 : J -> K) (f11 : K -> L) (f12 : L -> M) (f13 : M -> N) (f14 : N -> O) (f15 : O -> P) (f16 : P -> Q) (f17 : Q -> R) (a : A),
  Pipe17 f1 f2 f3 f4 f5 f6 f7 f8 f9 f10 f11 f12 f13 f14 f15 f16 f17 a = f17 (f16 (f15 (f14 (f13 (f12 (f11 (f10 (f9 (f8 (f7 (f6 (f5 (f4 (f3 (f2 (f1 a)))))))))))))))).
Proof. intros; reflexivity. Qed.
Lemma Pipe17_calls : calls Pipe17_tree = Pipe17_params /\ List.length Pipe17_params = 17.
Proof. split; reflexivity. Qed.

Lemma Pipe18_spec : forall (A B C D E F G H I J K L M N O P Q R S : Type) (f1 : A -> B) (f2 : B -> C) (f3 : C -> D) (f4 : D -> E) (f5 : E -> F) (f6 : F -> G) (f7 : G -> H) (f8 : H -> I) (f9 : I -> J) (f10 : J -> K) (f11 : K -> L) (f12 : L -> M) (f13 : M -> N) (f14 : N -> O) (f15 : O -> P) (f16 : P -> Q) (f17 : Q -> R) (f18 : R -> S) (a : A),
  Pipe18 f1 f2 f3 f4 f5 f6 f7 f8 f9 f10 f11 f12 f13 f14 f15 f16 f17 f18 a = f18 (f17 (f16 (f15 (f14 (f13 (f12 (f11 (f10 (f9 (f8 (f7 (f6 (f5 (f4 (f3 (f2 (f1 a))))))))))))))))).
Proof. intros; reflexivity. Qed.
Lemma Pipe18_calls : calls Pipe18_tree = Pipe18_params /\ List.length Pipe18_params = 18.
Proof. split; reflexivity. Qed.

Lemma Pipe19_spec : forall (A B C D E F G H I J K L M N O P Q R S T : Type) (f1 : A -> B) (f2 : B -> C) (f3 : C -> D) (f4 : D -> E) (f5 : E -> F) (f6 : F -> G) (f7 : G -> H) (f8 : H -> I) (f9 : I -> J) (f10 : J -> K) (f11 : K -> L) (f12 : L -> M) (f13 : M -> N) (f14 : N -> O) (f15 : O -> P) (f16 : P -> Q) (f17 : Q -> R) (f18 : R -> S) (f19 : S -> T) (a : A),
  Pipe19 f1 f2 f3 f4 f5 f6 f7 f8 f9 f10 f11 f12 f13 f14 f15 f16 f17 f18 f19 a = f19 (f18 (f17 (f16 (f15 (f14 (f13 (f12 (f11 (f10 (f9 (f8 (f7 (f6 (f5 (f4 (f3 (f2 (f1 a)))))))))))))))))).
Proof. intros; reflexivity. Qed.
Lemma Pipe19_calls : calls Pipe19_tree = Pipe19_params /\ List.length Pipe19_params = 19.
Proof. split; reflexivity. Qed.

Lemma Pipe20_spec : forall (A B C D E F G H I J K L M N O P Q R S T U : Type) (f1 : A -> B) (f2 : B -> C) (f3 : C -> D) (f4 : D -> E) (f5 : E -> F) (f6 : F -> G) (f7 : G -> H) (f8 : H -> I) (f9 : I -> J) (f10 : J -> K) (f11 : K -> L) (f12 : L -> M) (f13 : M -> N) (f14 : N -> O) (f15 : O -> P) (f16 : P -> Q) (f17 : Q -> R) (f18 : R -> S) (f19 : S -> T) (f20 : T -> U) (a : A),
  Pipe20 f1 f2 f3 f4 f5 f6 f7 f8 f9 f10 f11 f12 f13 f14 f15 f16 f17 f18 f19 f20 a = f20 (f19 (f18 (f17 (f16 (f15 (f14 (f13 (f12 (f11 (f10 (f9 (f8 (f7 (f6 (f5 (f4 (f3 (f2 (f1 a))))))))))))))))))).
Proof. intros; reflexivity. Qed.
Lemma Pipe20_calls : calls Pipe20_tree = Pipe20_params /\ List.length Pipe20_params = 20.
Proof. split; reflexivity. Qed.

(* every N from 2 to 20 is present *)
Lemma functions_complete : incl ["Pipe"%string; "Pipe3"%string; "Pipe4"%string; "Pipe5"%string; "Pipe6"%string; "Pipe7"%string; "Pipe8"%string; "Pipe9"%string; "Pipe10"%string; "Pipe11"%string; "Pipe12"%string; "Pipe13"%string; "Pipe14"%string; "Pipe15"%string; "Pipe16"%string; "Pipe17"%string; "Pipe18"%string; "Pipe19"%string; "Pipe20"%string] functions.
Proof. intros x Hx; vm_compute in Hx; vm_compute; intuition. Qed.
