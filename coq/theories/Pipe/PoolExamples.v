(* Non-vacuity: concrete executions of stage instances that reach the completed states the
   completion theorems talk about (all their hypotheses hold there). *)
From Coq Require Import List ZArith NArith Bool Arith PeanoNat Lia.
From Golem Require Import Base.Lists Pipe.Pool Pipe.Stages Pipe.PoolSteps Pipe.PoolLive Pipe.PoolSeq Pipe.PoolStages.
Import ListNotations.
Open Scope Z_scope.

(* pipe.Map(x -> 2x+1) over an input channel of capacity 1: send 5, send 7, close, receive 11, 15 *)
Definition ex_map_cfg : cfg := map_total_cfg (fun x => 2 * x + 1) false [1%nat] [1%nat; 1%nat].
Definition ex_map_trace : list ev :=
  [ESent 0 5; EW 0 false; EW 0 false; EW 0 false; ESent 0 7; ERcvd 0 11; EW 0 false; EW 0 false; EW 0 false;
   ECloseIn 0; EW 0 false; EW 0 false; ERcvd 0 15].
Definition ex_map_state : state :=
  match exec ex_map_cfg ex_map_trace with Some s => s | None => init ex_map_cfg end.

Lemma ex_map_reachable : reachable ex_map_cfg ex_map_state.
Proof. exists ex_map_trace. vm_compute. reflexivity. Qed.

Lemma ex_map_done w : (w < par ex_map_cfg)%nat -> wc (ws ex_map_state w) = WDone.
Proof. intros Hw. assert (w = 0%nat) by (simpl in Hw; lia). subst. vm_compute. reflexivity. Qed.

Lemma ex_map_hyps :
  cancelled ex_map_state = false /\ quiescent ex_map_cfg ex_map_state /\ no_receive ex_map_cfg ex_map_state /\
  cclosed (ins ex_map_state 0) = true /\ sent ex_map_state 0 = [5; 7] /\ delivered ex_map_state 0 = [11; 15].
Proof.
  split; [vm_compute; reflexivity|]. split; [|split; [|split; [|split]]]; try (vm_compute; reflexivity).
  - apply done_quiescent; [apply ex_map_done|left; reflexivity].
  - apply done_no_receive; [apply ex_map_done|].
    intros k. destruct k as [|[|k]]; vm_compute; reflexivity.
Qed.

(* a function failing on 7: what fail-fast and try-and-continue promise on [1; 7; 3] *)
Lemma ex_failing_map :
  let f := fun x => if Z.eqb x 7 then Err (1000 + x) else Ok (2 * x) in
  map_reach f false [1; 7; 3] = [1; 7] /\ ok_vals f (map_reach f false [1; 7; 3]) = [2] /\
  err_vals f (map_reach f false [1; 7; 3]) = [1007] /\
  ok_vals f (map_reach f true [1; 7; 3]) = [2; 6] /\ err_vals f (map_reach f true [1; 7; 3]) = [1007].
Proof. repeat split; reflexivity. Qed.
