(* The sequential stages (Map, FMap, Filter, Partition, Take, TakeWhile, ForEach/Void, Fold):
   ONLY BACK-PRESSURE EVER KEEPS A STAGE FROM TAKING ITS INPUT.  A sequential stage is one
   goroutine `for a = range in { ...sends / polls of Done / returns... }`.  Whenever it has come
   to rest - under every ordering of the environment's moves, cancelled or not - the goroutine is
   in one of three places:
   (a) it has returned;
   (b) it is parked in `range in` on an empty open input - and then the environment's next send
       is accepted at once, also on an unbuffered input;
   (c) it is blocked in a send on an output that is open and has no room: back-pressure from the
       consumer of the value channel, or of the error channel when the error is handed over with
       a plain send.
   It never waits for a gate, a token or a timer, and it never sits on an element it could pass
   on.  Stated once for every [seq_stage] whose plans consist of sends, plain sends, polls and
   returns ([simple_cfg]), then instantiated.  (The analogue for Join: Pipe/PoolJoinServed.v.) *)
From Coq Require Import List ZArith NArith Bool Arith PeanoNat Lia.
From Golem Require Import Base.Lists Pipe.Pool Pipe.Stages Pipe.PoolEffects Pipe.PoolSteps Pipe.PoolInv Pipe.PoolInv2
     Pipe.PoolSafe Pipe.PoolClosed Pipe.PoolStop Pipe.PoolLive Pipe.PoolSimple Pipe.PoolActs Pipe.PoolSeq Pipe.PoolStages
     Pipe.PoolStages2 Pipe.PoolJoinServed.
Import ListNotations.
Open Scope nat_scope.

Section SeqServed.
Variables (pl : Z -> Z -> list act * Z) (eof : Z -> list act) (pr : Z -> bool) (init : Z).
Variables (cl icaps ocaps : list nat).
Let c := seq_stage pl eof pr init cl icaps ocaps.
Hypothesis WF : wf_cfg c.
Hypothesis SC : simple_cfg c.

(* ---------- the three places the goroutine can rest in ---------- *)
Definition seq_parked (s : state) : Prop :=
  wc (ws s 0) = WRecv /\ cbuf (ins s 0) = [] /\ cclosed (ins s 0) = false /\
  forall x, step c s (ESent 0 x) <> None.
Definition seq_backpressure (s : state) : Prop :=
  exists e a k v rest, wc (ws s 0) = WRun e (a :: rest) /\ sends_on a k v /\
                       has_room (outs s k) = false /\ cclosed (outs s k) = false.

(* parked on an empty open input: the environment's next send completes at once (the parked
   goroutine is the rendezvous partner an unbuffered channel needs) *)
Lemma seq_parked_accepts s x :
  reachable c s -> wc (ws s 0) = WRecv -> cbuf (ins s 0) = [] -> cclosed (ins s 0) = false ->
  step c s (ESent 0 x) <> None.
Proof.
  intros Hr Hc Hb Hcl.
  assert (Hp : panicked s = false) by (apply (nopanic c WF s Hr)).
  unfold step. rewrite Hp. unfold step_ok.
  change (nins c) with 1. change (negb (0 <? 1)) with false. cbv iota.
  rewrite Hcl. unfold in_room. rewrite Hb. change (par c) with 1.
  rewrite (any_waiting_witness c s 0 1 0 Nat.lt_0_1 Hc eq_refl).
  destruct (Nat.ltb_spec (length (@nil (nat * val))) (ccap (ins s 0) + 1)) as [_|Hge]; [discriminate|].
  simpl in Hge. lia.
Qed.

(* the strong form: a goroutine blocked in a select-send is never blocked after cancel (the Done arm
   fires), so after cancel case (c) is a plain send *)
Lemma seq_rest_cases s :
  reachable c s -> quiescent c s ->
  wc (ws s 0) = WDone \/ seq_parked s \/
  (exists e a k v rest, wc (ws s 0) = WRun e (a :: rest) /\ sends_on a k v /\
                        has_room (outs s k) = false /\ cclosed (outs s k) = false /\
                        (cancelled s = true -> a = APlain k v)).
Proof.
  intros Hr [Hq _].
  pose proof (simple_reachable c SC s Hr 0) as Hsim.
  destruct (stuck_waits c s 0 (Hq 0 Nat.lt_0_1)) as [Hd|i Hc Hs Hb Hcl|a t Hc|e k v rest Hc Hro Hcl Hcn
                                                    |e k v rest Hc Hro Hcl|e k rest Hc Hb Hcl _|u sel e rest Hc Ht Hsel].
  - left. exact Hd.
  - right; left. change (src c 0) with (SIn 0) in Hs. inversion Hs; subst i.
    split; [exact Hc|]. split; [exact Hb|]. split; [exact Hcl|].
    intros x. apply seq_parked_accepts; auto.
  - exfalso. rewrite Hc in Hsim. exact Hsim.
  - right; right. exists e, (ASend k v), k, v, rest.
    split; [exact Hc|]. split; [left; reflexivity|]. split; [exact Hro|]. split; [exact Hcl|].
    intros Hx. congruence.
  - right; right. exists e, (APlain k v), k, v, rest.
    split; [exact Hc|]. split; [right; reflexivity|]. split; [exact Hro|]. split; [exact Hcl|].
    intros _. reflexivity.
  - exfalso. rewrite Hc in Hsim. cbn [simple_ctl] in Hsim. inversion Hsim as [|? ? Hh _]. exact Hh.
  - exfalso. rewrite Hc in Hsim. exact Hsim.
Qed.

(* ---------- only back-pressure blocks ---------- *)
Theorem seq_only_backpressure_blocks s :
  reachable c s -> quiescent c s ->
  wc (ws s 0) = WDone \/ seq_parked s \/ seq_backpressure s.
Proof.
  intros Hr Hq.
  destruct (seq_rest_cases s Hr Hq) as [Hd|[Hp|(e & a & k & v & rest & A & B & C & D & _)]]; auto.
  right; right. exists e, a, k, v, rest. auto.
Qed.

(* the three places exclude each other *)
Lemma seq_rest_exclusive s :
  ~ (wc (ws s 0) = WDone /\ seq_parked s) /\ ~ (wc (ws s 0) = WDone /\ seq_backpressure s) /\
  ~ (seq_parked s /\ seq_backpressure s).
Proof.
  unfold seq_parked, seq_backpressure. split; [|split].
  - intros [A (B & _)]. congruence.
  - intros [A (e & a & k & v & rest & B & _)]. congruence.
  - intros [(A & _) (e & a & k & v & rest & B & _)]. congruence.
Qed.

(* the consumers keep up (room in every output): the goroutine has returned or is parked on an
   EMPTY open input - nothing that was handed over is held back - and takes the next send *)
Theorem seq_room_nothing_held s :
  reachable c s -> quiescent c s -> (forall k, has_room (outs s k) = true) ->
  wc (ws s 0) = WDone \/
  (wc (ws s 0) = WRecv /\ cbuf (ins s 0) = [] /\ cclosed (ins s 0) = false /\
   wtaken (ws s 0) = sent s 0 /\ forall x, step c s (ESent 0 x) <> None).
Proof.
  intros Hr Hq Hro.
  destruct (seq_only_backpressure_blocks s Hr Hq) as [Hd|[(A & B & C & D)|(e & a & k & v & rest & _ & _ & Hf & _)]].
  - left. exact Hd.
  - right. split; [exact A|]. split; [exact B|]. split; [exact C|]. split; [|exact D].
    rewrite (seq_taken c eq_refl eq_refl s Hr), B. simpl. now rewrite app_nil_r.
  - rewrite Hro in Hf. discriminate.
Qed.

(* after cancel nothing but a plain send (or an open input nobody closes) keeps the goroutine *)
Theorem seq_cancelled_rest s :
  reachable c s -> cancelled s = true -> quiescent c s ->
  wc (ws s 0) = WDone \/ seq_parked s \/
  (exists e k v rest, wc (ws s 0) = WRun e (APlain k v :: rest) /\
                      has_room (outs s k) = false /\ cclosed (outs s k) = false).
Proof.
  intros Hr Hcn Hq.
  destruct (seq_rest_cases s Hr Hq) as [Hd|[Hp|(e & a & k & v & rest & A & B & C & D & E)]]; auto.
  right; right. rewrite (E Hcn) in A. exists e, k, v, rest. auto.
Qed.

(* it never stops by itself: unless cancelled, the goroutine has returned only because its input was
   closed and drained (and then it took everything that was handed over), because its own code said
   `return` ([stopped]: Take's count, TakeWhile's predicate, a failure under Lift), or because it
   returned before the loop (Take with n <= 0) *)
Theorem seq_done_why s :
  reachable c s -> cancelled s = false -> wc (ws s 0) = WDone ->
  (weof (ws s 0) = true /\ cclosed (ins s 0) = true /\ cbuf (ins s 0) = [] /\ wtaken (ws s 0) = sent s 0) \/
  stopped c 0 init (wtaken (ws s 0)) = true \/
  (wtaken (ws s 0) = [] /\ pr init = false).
Proof.
  intros Hr Hcn Hd. pose proof (Kinv_reachable c s Hr 0) as K.
  destruct (k_done c s 0 K Hcn Hd) as [He|[Hs|Hp]].
  - left. destruct (k_input c s 0 K He 0 eq_refl) as [A B].
    split; [exact He|]. split; [exact B|]. split; [exact A|].
    apply (seq_eof_all c eq_refl eq_refl s Hr He).
  - right; left. exact Hs.
  - right; right. exact Hp.
Qed.

End SeqServed.

(* ---------- the stages of pipe/pipe.go ---------- *)
Section Instances.
Variables (f : Z -> res) (fa : Z -> list Z * option Z) (p : Z -> bool) (try : bool) (n : Z)
          (combine : Z -> Z -> Z) (empty : Z) (icaps ocaps : list nat).

(* the statement for one stage configuration *)
Definition only_backpressure_blocks (c : cfg) : Prop :=
  forall s, reachable c s -> quiescent c s ->
    wc (ws s 0) = WDone \/
    (wc (ws s 0) = WRecv /\ cbuf (ins s 0) = [] /\ cclosed (ins s 0) = false /\
     forall x, step c s (ESent 0 x) <> None) \/
    (exists e a k v rest, wc (ws s 0) = WRun e (a :: rest) /\ sends_on a k v /\
                          has_room (outs s k) = false /\ cclosed (outs s k) = false).

Theorem stages_only_backpressure_blocks :
  only_backpressure_blocks (map_cfg f try icaps ocaps) /\
  only_backpressure_blocks (fmap_cfg fa try icaps ocaps) /\
  only_backpressure_blocks (filter_cfg p icaps ocaps) /\
  only_backpressure_blocks (partition_cfg p icaps ocaps) /\
  only_backpressure_blocks (take_cfg n icaps ocaps) /\
  only_backpressure_blocks (takewhile_cfg p icaps ocaps) /\
  only_backpressure_blocks (visit_cfg icaps ocaps) /\
  only_backpressure_blocks (fold_cfg combine empty icaps ocaps).
Proof.
  split; [|split; [|split; [|split; [|split; [|split; [|split]]]]]]; intros s.
  - apply (seq_only_backpressure_blocks _ _ _ _ _ _ _ (map_wf f try icaps ocaps) (map_simple f try icaps ocaps)).
  - apply (seq_only_backpressure_blocks _ _ _ _ _ _ _ (fmap_wf fa try icaps ocaps) (fmap_simple fa try icaps ocaps)).
  - apply (seq_only_backpressure_blocks _ _ _ _ _ _ _ (filter_wf p icaps ocaps) (filter_simple p icaps ocaps)).
  - apply (seq_only_backpressure_blocks _ _ _ _ _ _ _ (partition_wf p icaps ocaps) (partition_simple p icaps ocaps)).
  - apply (seq_only_backpressure_blocks _ _ _ _ _ _ _ (take_wf n icaps ocaps) (take_simple n icaps ocaps)).
  - apply (seq_only_backpressure_blocks _ _ _ _ _ _ _ (takewhile_wf p icaps ocaps) (takewhile_simple p icaps ocaps)).
  - apply (seq_only_backpressure_blocks _ _ _ _ _ _ _ (visit_wf icaps ocaps) (visit_simple icaps ocaps)).
  - apply (seq_only_backpressure_blocks _ _ _ _ _ _ _ (fold_wf combine empty icaps ocaps) (fold_simple combine empty icaps ocaps)).
Qed.

(* the same, spelled out once for the list of stage configurations *)
Theorem stages_only_backpressure_blocks_all :
  forall c, In c [map_cfg f try icaps ocaps; fmap_cfg fa try icaps ocaps; filter_cfg p icaps ocaps;
                  partition_cfg p icaps ocaps; take_cfg n icaps ocaps; takewhile_cfg p icaps ocaps;
                  visit_cfg icaps ocaps; fold_cfg combine empty icaps ocaps] ->
  forall s, reachable c s -> quiescent c s ->
    wc (ws s 0) = WDone \/
    (wc (ws s 0) = WRecv /\ cbuf (ins s 0) = [] /\ cclosed (ins s 0) = false /\
     forall x, step c s (ESent 0 x) <> None) \/
    (exists e a k v rest, wc (ws s 0) = WRun e (a :: rest) /\ sends_on a k v /\
                          has_room (outs s k) = false /\ cclosed (outs s k) = false).
Proof.
  intros c Hin. destruct stages_only_backpressure_blocks as (H1 & H2 & H3 & H4 & H5 & H6 & H7 & H8).
  cbn [In] in Hin.
  destruct Hin as [<-|[<-|[<-|[<-|[<-|[<-|[<-|[<-|[]]]]]]]]]; assumption.
Qed.

(* which send can be the blocked one is read off the plans; the extreme case: ForEach / Void send nothing,
   so they never wait for anybody - case (c) does not occur *)
Theorem visit_never_blocked s :
  reachable (visit_cfg icaps ocaps) s -> quiescent (visit_cfg icaps ocaps) s ->
  wc (ws s 0) = WDone \/
  (wc (ws s 0) = WRecv /\ cbuf (ins s 0) = [] /\ cclosed (ins s 0) = false /\
   forall x, step (visit_cfg icaps ocaps) s (ESent 0 x) <> None).
Proof.
  intros Hr Hq.
  destruct (seq_only_backpressure_blocks _ _ _ _ _ _ _ (visit_wf icaps ocaps) (visit_simple icaps ocaps) s Hr Hq)
    as [Hd|[Hp|(e & a & k & v & rest & Hc & Hs & _)]]; [left; exact Hd|right; exact Hp|exfalso].
  pose proof (acts_reachable (visit_cfg icaps ocaps) (fun x => forall k v, ~ sends_on x k v)) as H.
  assert (Hall : Forall (fun x => forall k v, ~ sends_on x k v) (todo_of (wc (ws s 0)))).
  { apply H; auto.
    - intros k' v' [E|E]; discriminate E.
    - intros w l a'. simpl. constructor; [|constructor]. intros k' v' [E|E]; discriminate E.
    - intros w l. constructor. }
  rewrite Hc in Hall. simpl in Hall. inversion Hall as [|? ? Hh _]. exact (Hh k v Hs).
Qed.

End Instances.

(* ---------- non-vacuity: case (c) ---------- *)
(* pipe.Map(x -> 2x+1), in unbuffered, out := make(chan B) unbuffered, nobody receiving: one element is handed
   over (accepted: the goroutine is parked in `range in`), taken and mapped; the goroutine then rests in the
   send of 11 on out 0 - open, no room - not cancelled *)
Definition ex_bp_cfg : cfg := map_cfg (fun x => Ok (2 * x + 1)%Z) true [0] [0; 0].
Definition ex_bp_trace : list ev := [ESent 0 5%Z; EW 0 false].
Definition ex_bp_state : state :=
  match exec ex_bp_cfg ex_bp_trace with Some s => s | None => init ex_bp_cfg end.

Lemma ex_bp_reachable : reachable ex_bp_cfg ex_bp_state.
Proof. exists ex_bp_trace. vm_compute. reflexivity. Qed.

Lemma ex_bp_quiescent : quiescent ex_bp_cfg ex_bp_state.
Proof.
  split.
  - intros w Hw ch. change (par ex_bp_cfg) with 1 in Hw.
    assert (Hw' : w = 0) by lia. subst w. destruct ch; vm_compute; reflexivity.
  - vm_compute. reflexivity.
Qed.

Lemma ex_bp_facts :
  cancelled ex_bp_state = false /\ sent ex_bp_state 0 = [5%Z] /\
  wc (ws ex_bp_state 0) = WRun false [ASend 0 11%Z] /\
  has_room (outs ex_bp_state 0) = false /\ cclosed (outs ex_bp_state 0) = false.
Proof. split; [|split; [|split; [|split]]]; vm_compute; reflexivity. Qed.

(* ... and case (b) before that: in the initial state the goroutine is parked and the send is accepted although
   the input is unbuffered *)
Lemma ex_bp_init_parked :
  quiescent ex_bp_cfg (init ex_bp_cfg) /\ wc (ws (init ex_bp_cfg) 0) = WRecv /\
  step ex_bp_cfg (init ex_bp_cfg) (ESent 0 5%Z) <> None.
Proof.
  split; [|split].
  - split.
    + intros w Hw ch. change (par ex_bp_cfg) with 1 in Hw.
      assert (Hw' : w = 0) by lia. subst w. destruct ch; vm_compute; reflexivity.
    + vm_compute. reflexivity.
  - vm_compute. reflexivity.
  - vm_compute. discriminate.
Qed.
