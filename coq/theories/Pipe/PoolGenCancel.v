(* Generators: the sequence of a never-failing Unfold, and termination after cancel. *)
From Coq Require Import List ZArith NArith Bool Arith PeanoNat Lia.
From Golem Require Import Base.Lists Pipe.Pool Pipe.Stages Pipe.PoolEffects Pipe.PoolSteps Pipe.PoolInv Pipe.PoolInv2
     Pipe.PoolSafe Pipe.PoolClosed Pipe.PoolStop Pipe.PoolLive Pipe.PoolSimple Pipe.PoolActs Pipe.PoolSeq Pipe.PoolStages
     Pipe.PoolErr Pipe.PoolGen.
Import ListNotations.
Open Scope Z_scope.

Fixpoint iterate (h : Z -> Z) (x : Z) (n : nat) : list Z := match n with O => [] | S m => x :: iterate h (h x) m end.

Lemma seeds_total h x n : seeds (fun y => Ok (h y)) x n = iterate h x n.
Proof. revert x. induction n as [|n IH]; intros x; simpl; auto. unfold next_seed. now rewrite IH. Qed.

Theorem unfold_total_exact (h : Z -> Z) (try : bool) (seed : Z) (ocaps : list nat) (s : state) :
  reachable (unfold_cfg (fun x => Ok (h x)) try seed ocaps) s ->
  exists n, prefix (delivered s 0) (iterate h seed n) /\ delivered s 1 = [].
Proof.
  intros Hr. destruct (unfold_prefix _ _ _ _ s Hr) as (n & A & B & _). exists n.
  rewrite seeds_total in A. rewrite err_vals_total in B. split; auto.
  destruct B as [r B]. destruct (delivered s 1); auto. discriminate.
Qed.

Lemma err_vals_noerr f xs : existsb (is_err f) xs = false -> err_vals f xs = [].
Proof.
  induction xs as [|x xs IH]; simpl; auto. unfold is_err at 1. destruct (f x); simpl; auto. discriminate.
Qed.
Lemma err_vals_at_most_one f ys a : existsb (is_err f) ys = false -> (length (err_vals f (ys ++ [a])) <= 1)%nat.
Proof.
  intros H. unfold err_vals in *. rewrite flat_map_app. fold (err_vals f ys). rewrite (err_vals_noerr f ys H).
  simpl. destruct (f a); simpl; lia.
Qed.

Lemma seeds_snoc f x n : seeds f x (S n) = seeds f x n ++ [nth n (seeds f x (S n)) 0].
Proof.
  revert x. induction n as [|n IH]; intros x; [reflexivity|].
  change (seeds f x (S (S n))) with (x :: seeds f (next_seed f x) (S n)). rewrite (IH (next_seed f x)) at 1.
  simpl. reflexivity.
Qed.
Lemma zrange_snoc l n : zrange l (S n) = zrange l n ++ [l + Z.of_nat n].
Proof.
  revert l. induction n as [|n IH]; intros l; [simpl; f_equal; simpl; lia|].
  change (zrange l (S (S n))) with (l :: zrange (l + 1) (S n)). rewrite IH.
  change (zrange l (S n)) with (l :: zrange (l + 1) n). rewrite Nat2Z.inj_succ. simpl app.
  replace (l + 1 + Z.of_nat n) with (l + Z.succ (Z.of_nat n)) by lia. reflexivity.
Qed.

(* a generator stuck in a quiescent state is not at the top of its loop *)
Lemma gen_not_recv (c : cfg) s : quiescent c s -> (0 < par c)%nat -> src c 0 = SGen -> wc (ws s 0) <> WRecv.
Proof.
  intros [Hq _] Hp Hs Hc. specialize (Hq 0%nat Hp false). unfold step_worker in Hq. rewrite Hc, Hs in Hq. discriminate.
Qed.

Section UnfoldCancel.
Variables (f : Z -> res) (try : bool) (seed : Z) (ocaps : list nat).
Let c := unfold_cfg f try seed ocaps.

(* the fail-fast error hand-off of Unfold finds its channel empty *)
Lemma unfold_err_room s eof k e rest :
  reachable c s -> (try = false -> (1 <= nth_cap ocaps 1)%nat) ->
  wc (ws s 0) = WRun eof (APlain k e :: rest) -> has_room (outs s k) = true.
Proof.
  intros Hr Hcap Hc.
  assert (Hk : k = 1%nat /\ try = false).
  { pose proof (acts_reachable c (fun a => match a with APlain k _ => k = 1%nat /\ try = false | _ => True end) I) as H.
    assert (Hp : forall w l a, Forall (fun a => match a with APlain k _ => k = 1%nat /\ try = false | _ => True end) (fst (plan c w l a))).
    { intros w l a. simpl. unfold plan_unfold. destruct (f l); simpl; repeat constructor.
      unfold catch. destruct try; repeat constructor; auto. }
    specialize (H Hp (fun _ _ => Forall_nil _) s Hr 0%nat). rewrite Hc in H. inversion H as [|? ? Hh _]. exact Hh. }
  destruct Hk as [-> Ht].
  pose proof (seq_stream c eq_refl s 1 Hr) as A. pose proof (Kinv_reachable c s Hr 0%nat) as K.
  rewrite (uf_full_spec f try seed ocaps), (uf_spec1 f try seed ocaps) in A. rewrite Hc in A. simpl in A.
  assert (Heof : eof = false).
  { destruct eof; auto. exfalso. assert (He : weof (ws s 0) = true) by (apply (k_eofrun c s 0%nat K); rewrite Hc; reflexivity).
    rewrite (noeof_reachable c s Hr 0%nat eq_refl) in He. discriminate. }
  subst eof.
  destruct (k_plan c s 0%nat K) as [(T & P & _)|(xs & a & T & HS & _)]; [rewrite Hc; reflexivity|simpl in P; discriminate|].
  change (stopped c 0 seed xs = false) in HS. rewrite (uf_stopped f try seed ocaps), Ht in HS. simpl in HS.
  rewrite T, app_length in A. simpl in A. replace (length xs + 1)%nat with (S (length xs)) in A by lia.
  rewrite seeds_snoc in A.
  pose proof (err_vals_at_most_one f _ (nth (length xs) (seeds f seed (S (length xs))) 0) HS) as Hl.
  rewrite <- A in Hl. rewrite !app_length in Hl. simpl in Hl.
  assert (Hb : cbuf (outs s 1) = []).
  { destruct (cbuf (outs s 1)); auto. simpl in Hl. lia. }
  unfold has_room. rewrite Hb, (caps_reachable c s Hr 1%nat). simpl. apply Nat.ltb_lt. apply Hcap. exact Ht.
Qed.

Theorem unfold_cancel_exit s :
  (try = false -> (1 <= nth_cap ocaps 1)%nat) ->
  reachable c s -> cancelled s = true -> quiescent c s ->
  wc (ws s 0) = WDone /\ cclosed (outs s 0) = true /\ cclosed (outs s 1) = true.
Proof.
  intros Hcap Hr Hcn Hq. pose proof (nopanic c (unfold_wf f try seed ocaps) s Hr) as Hp.
  destruct (cancel_exit c s Hp Hcn Hq) as [Hd _].
  - intros w Hw i Hs. assert (w = 0%nat) by (simpl in Hw; lia). subst. discriminate.
  - intros w Hw. assert (w = 0%nat) by (simpl in Hw; lia). subst.
    pose proof (simple_reachable c (unfold_simple f try seed ocaps) s Hr 0%nat) as Hs.
    destruct (wc (ws s 0)) as [| |eof [|[k v|k v| | | | |] rest]| |] eqn:Ec; simpl in Hs; auto; try contradiction.
    eapply unfold_err_room; eauto.
  - intros w Hw Hg. assert (w = 0%nat) by (simpl in Hw; lia). subst. apply (gen_not_recv c s Hq); simpl; auto.
  - destruct (done_closed_reachable c (unfold_wf f try seed ocaps) s Hr) as [A _].
    assert (H0 : wc (ws s 0) = WDone) by (apply Hd; simpl; lia).
    repeat split; auto; apply (A eq_refl 0%nat); simpl; auto.
Qed.
End UnfoldCancel.

Section EmitCancel.
Variables (freq : N) (f : Z -> res) (try : bool) (ocaps : list nat).
Let c := emit_cfg freq f try ocaps.

Lemma emit_err_room s eof k e rest :
  reachable c s -> (try = false -> (1 <= nth_cap ocaps 1)%nat) ->
  wc (ws s 0) = WRun eof (APlain k e :: rest) -> has_room (outs s k) = true.
Proof.
  intros Hr Hcap Hc.
  assert (Hk : k = 1%nat /\ try = false).
  { pose proof (acts_reachable c (fun a => match a with APlain k _ => k = 1%nat /\ try = false | _ => True end) I) as H.
    assert (Hp : forall w l a, Forall (fun a => match a with APlain k _ => k = 1%nat /\ try = false | _ => True end) (fst (plan c w l a))).
    { intros w l a. simpl. constructor; [exact I|]. destruct (f l); simpl; repeat constructor.
      unfold catch. destruct try; repeat constructor; auto. }
    specialize (H Hp (fun _ _ => Forall_nil _) s Hr 0%nat). rewrite Hc in H. inversion H as [|? ? Hh _]. exact Hh. }
  destruct Hk as [-> Ht].
  pose proof (seq_stream c eq_refl s 1 Hr) as A. pose proof (Kinv_reachable c s Hr 0%nat) as K.
  rewrite (em_full_spec freq f try ocaps), (em_spec1 freq f try ocaps) in A. rewrite Hc in A. simpl in A.
  assert (Heof : eof = false).
  { destruct eof; auto. exfalso. assert (He : weof (ws s 0) = true) by (apply (k_eofrun c s 0%nat K); rewrite Hc; reflexivity).
    rewrite (noeof_reachable c s Hr 0%nat eq_refl) in He. discriminate. }
  subst eof.
  destruct (k_plan c s 0%nat K) as [(T & P & _)|(xs & a & T & HS & _)]; [rewrite Hc; reflexivity|simpl in P; discriminate|].
  change (stopped c 0 0 xs = false) in HS. rewrite (em_stopped freq f try ocaps), Ht in HS. simpl in HS.
  rewrite T, app_length in A. simpl in A. replace (length xs + 1)%nat with (S (length xs)) in A by lia.
  rewrite zrange_snoc in A.
  pose proof (err_vals_at_most_one f _ (0 + Z.of_nat (length xs)) HS) as Hl.
  rewrite <- A in Hl. rewrite !app_length in Hl. simpl in Hl.
  assert (Hb : cbuf (outs s 1) = []).
  { destruct (cbuf (outs s 1)); auto. simpl in Hl. lia. }
  unfold has_room. rewrite Hb, (caps_reachable c s Hr 1%nat). simpl. apply Nat.ltb_lt. apply Hcap. exact Ht.
Qed.

Theorem emit_cancel_exit s :
  (try = false -> (1 <= nth_cap ocaps 1)%nat) ->
  reachable c s -> cancelled s = true -> quiescent c s ->
  (forall u sel eof rest, wc (ws s 0) <> WSleep u sel eof rest) ->
  wc (ws s 0) = WDone /\ cclosed (outs s 0) = true /\ cclosed (outs s 1) = true.
Proof.
  intros Hcap Hr Hcn Hq Hns. pose proof (nopanic c (emit_wf freq f try ocaps) s Hr) as Hp.
  destruct (cancel_exit c s Hp Hcn Hq) as [Hd _].
  - intros w Hw i Hs. assert (w = 0%nat) by (simpl in Hw; lia). subst. discriminate.
  - intros w Hw. assert (w = 0%nat) by (simpl in Hw; lia). subst.
    destruct (wc (ws s 0)) as [|a0 t0|eof [|[k v|k v| | | | |] rest]|u sel eof rest|] eqn:Ec; auto.
    + (* never gated *)
      pose proof (gated_never c eq_refl s Hr 0%nat) as Hg. rewrite Ec in Hg. exact Hg.
    + eapply emit_err_room; eauto.
    + exfalso. eapply Hns; eauto.
  - intros w Hw Hg. assert (w = 0%nat) by (simpl in Hw; lia). subst. apply (gen_not_recv c s Hq); simpl; auto.
  - destruct (done_closed_reachable c (emit_wf freq f try ocaps) s Hr) as [A _].
    assert (H0 : wc (ws s 0) = WDone) by (apply Hd; simpl; lia).
    repeat split; auto; apply (A eq_refl 0%nat); simpl; auto.
Qed.
End EmitCancel.
