(* Throttling under MAXIMAL PROGRESS (Pipe/PoolMaxProgress.v) with input always available and a consumer
   that is always ready: the exact delivery schedule.  Whenever the clock is allowed to move, the number of
   elements delivered is exactly min(elements handed over, ops * (now / interval + 1)) - element i (from 0)
   is delivered at the instant floor(i/ops) * interval.  (The lower half - never more than
   ops * (now / interval + 1), for ANY clock policy - is Pipe/PoolThrottleRate.v / PoolThrottleDeliver.v.)

   The policy:  [mp_reachable c ext0 fed]
   - [ext0]: only out 0 has a consumer in the environment; the token channel out 1 is internal (the
     environment never receives from it);
   - the clock moves only in [settled] states (no step of the pacer or of the data goroutine enabled, nothing
     receivable on out 0 - "the consumer is always ready") that are [fed]: the data goroutine is not
     waiting at `range in` for an element that is not there - "input is always available".  This is the
     weakest formulation used by the proof; the stronger "the input buffer is full or the input is closed"
     implies it in every quiescent state ([saturated_fed]);
   - never past the pacer's pending deadline; no cancel. *)
From Coq Require Import List ZArith NArith Bool Arith PeanoNat Lia.
From Golem Require Import Base.Lists Pipe.Pool Pipe.Stages Pipe.PoolEffects Pipe.PoolSteps Pipe.PoolStepCases
     Pipe.PoolInv Pipe.PoolInv2 Pipe.PoolSafe Pipe.PoolClosed Pipe.PoolStop Pipe.PoolLive Pipe.PoolSimple Pipe.PoolActs
     Pipe.PoolSeq Pipe.PoolErr Pipe.PoolThrottle Pipe.PoolThrottleRate Pipe.PoolThrottleDeliver Pipe.PoolMaxProgress.
Import ListNotations.
Open Scope nat_scope.

Definition ext0 (k : nat) : bool := Nat.eqb k 0.
Lemma ext0_0 k : ext0 k = true -> k = 0.
Proof. unfold ext0. apply Nat.eqb_eq. Qed.

(* the data goroutine (worker 1) stands at `for a = range in` and there is nothing to take *)
Definition starved (s : state) : Prop :=
  wc (ws s 1) = WRecv /\ cbuf (ins s 0) = [] /\ cclosed (ins s 0) = false.
Definition fed (s : state) : Prop := ~ starved s.

(* what a goroutine's return leaves untouched *)
Lemma finish_obs (cc : cfg) s w d :
  rcvd (finish cc s w d) = rcvd s /\ (forall k, cbuf (outs (finish cc s w d) k) = cbuf (outs s k)) /\
  now (finish cc s w d) = now s /\
  ws (finish cc s w d) = upd (ws s) w (mkW (wl (ws s w)) WDone (wtaken (ws s w)) (weof (ws s w))
                                           (fun k => wdropped (ws s w) k ++ emits k d)).
Proof.
  unfold finish. destruct (closer cc); [simpl; auto|].
  set (s1 := set_w s w _).
  destruct (close_all_frame s1 (wcloses cc w)) as (_ & Hws & _ & _ & Hn & _ & _ & Hr & Hb & _). cbv zeta in Hws, Hn, Hr, Hb.
  rewrite Hws, Hn, Hr. unfold s1. simpl. repeat split; auto.
Qed.

Section ThrottlePace.
Variables (ops : nat) (interval : N) (icaps ocaps : list nat).
Let c := throttle_stage ops interval icaps ocaps.
(* the token channel can hold a token (pipe.Throttling: ctl := make(chan struct{}, ops)) *)
Hypothesis Hcap : 1 <= ops -> 1 <= nth_cap ocaps 1.

Definition thr_mp_reachable : state -> Prop := mp_reachable c ext0 fed.

Local Notation B s := (N.of_nat (batches s)).

Lemma thr_not_call s w : reachable c s -> forall a t, wc (ws s w) <> WCall a t.
Proof. intros Hr a t H. pose proof (gated_never c eq_refl s Hr w) as Hg. rewrite H in Hg. exact Hg. Qed.

(* ---------- every token taken out of the token channel was taken by the data goroutine ---------- *)
Definition G (s : state) : Prop := length (rcvd s 1) <= made s + hold s.

Lemma G_frame s s' :
  length (rcvd s' 1) = length (rcvd s 1) -> made s' = made s -> wc (ws s' 1) = wc (ws s 1) -> G s -> G s'.
Proof. unfold G, hold. intros H1 H2 H3. rewrite H1, H2, H3. auto. Qed.

Lemma G_effect s s' :
  reachable c s -> cancelled s = false -> G s -> mp_effect c ext0 fed s s' -> G s'.
Proof.
  clear Hcap. intros Hr Hcan HG He. pose proof (dshape_reachable ops interval icaps ocaps s Hr) as HD. fold c in HD.
  destruct He as [w ch s' Hw Hsw | i x Hi Hcl | i Hi Hcl | k t v rest Hx Hb | k v w eof a rest Hx Hb Hcap0 Hcl Hw Hc Hs0
                 | | w a todo Hw Hc | Hcl Had Hcd | t _ _ _ _].
  - pose proof (step_worker_effect c s w ch s' Hsw) as He.
    destruct w as [|[|w]]; [| |simpl in Hw; lia].
    + (* the pacer *)
      destruct He as [i a t rest Hsrc Hc Hb | Hsrc Hc | i Hsrc Hc Hb Hcl | ctl' Hcn Hdue Hsl Hsls
                     | eof a k0 v rest Hc Hs0 Hcl | eof k0 t r rest Hc Hb | dropped Hpd Hnd Hnr Hnc Hwhy
                     | eof a k0 v rest Hc Hs0 Hcl].
      * simpl in Hsrc. discriminate.
      * apply G_frame with s; simpl; auto.
      * simpl in Hsrc. discriminate.
      * apply G_frame with s; simpl; auto.
      * assert (k0 = 1) by (eapply pacer_sends_tok; eauto). subst k0.
        apply G_frame with s; simpl; auto.
      * exfalso. eapply pacer_not_tok; eauto.
      * destruct (finish_obs c s 0 dropped) as (F1 & F2 & _ & F4).
        apply G_frame with s; [now rewrite F1|unfold made; now rewrite F1, !F2|rewrite F4; now upd_simpl|exact HG].
      * apply G_frame with s; simpl; auto.
    + (* the data goroutine *)
      destruct He as [i a t rest Hsrc Hc Hb | Hsrc Hc | i Hsrc Hc Hb Hcl | ctl' Hcn Hdue Hsl Hsls
                     | eof a k0 v rest Hc Hs0 Hcl | eof k0 t r rest Hc Hb | dropped Hpd Hnd Hnr Hnc Hwhy
                     | eof a k0 v rest Hc Hs0 Hcl].
      * unfold G, made, hold in *. simpl. upd_simpl. unfold take. simpl. rewrite Hc in HG. exact HG.
      * simpl in Hsrc. discriminate.
      * unfold G, made, hold in *. simpl. upd_simpl. simpl. rewrite Hc in HG. exact HG.
      * (* silent control change: the hand does not get emptier *)
        assert (Hh : hold s <= hold (set_w s 1 (with_ctl (ws s 1) ctl'))).
        { unfold hold. simpl. upd_simpl. simpl.
          remember (wc (ws s 1)) as ctl eqn:Ectl.
          destruct HD as [|a|a| | |]; inversion Hcn; subst; simpl; try lia;
            try (exfalso; eapply send_not_skippable; eassumption); try (exfalso; eapply send_not_sleepy; eassumption). }
        unfold G in *. change (made (set_w s 1 (with_ctl (ws s 1) ctl'))) with (made s).
        change (rcvd (set_w s 1 (with_ctl (ws s 1) ctl'))) with (rcvd s). lia.
      * (* the element goes out: the token in hand is spent *)
        rewrite Hc in HD. inversion HD; subst; destruct Hs0 as [Hx|Hx]; try discriminate.
        inversion Hx; subst.
        unfold G, made, hold in *. simpl. upd_simpl. simpl. rewrite app_length. rewrite Hc in HG. simpl in *. lia.
      * (* a token is taken *)
        rewrite Hc in HD. inversion HD; subst.
        unfold G, made, hold in *. simpl. upd_simpl. simpl. rewrite Hc in HG. rewrite app_length. simpl. lia.
      * destruct (finish_obs c s 1 dropped) as (F1 & F2 & _ & F4).
        unfold G, made, hold in *. rewrite F1, !F2, F4. upd_simpl. simpl.
        destruct Hwhy as [Hx|[Hx|(eof & rest & Hx & _)]]; [congruence| |].
        -- rewrite Hx in HG. lia.
        -- rewrite Hx in HD. inversion HD.
      * apply G_frame with s; simpl; auto.
  - apply G_frame with s; simpl; auto.
  - apply G_frame with s; simpl; auto.
  - (* the consumer receives from out 0 *)
    apply ext0_0 in Hx. subst k.
    apply G_frame with s; simpl; auto.
    unfold made at 1. simpl. apply (made_move s 0 (t, v) rest Hb).
  - (* rendezvous on out 0: the sender is the data goroutine *)
    apply ext0_0 in Hx. subst k.
    destruct w as [|[|w]]; [| |simpl in Hw; lia].
    + assert (0 = 1) by (eapply pacer_sends_tok; eauto). discriminate.
    + rewrite Hc in HD. inversion HD; subst; destruct Hs0 as [Hx|Hx]; try discriminate.
      inversion Hx; subst.
      unfold G, made, hold in *. simpl. upd_simpl. simpl. rewrite app_length. rewrite Hc in HG. simpl in *. lia.
  - exact HG.
  - exfalso. eapply thr_not_call; eauto.
  - simpl in Hcl. discriminate.
  - apply G_frame with s; simpl; auto.
Qed.

Theorem G_mp_reachable s : thr_mp_reachable s -> G s.
Proof.
  clear Hcap.
  revert s. apply (mp_reachable_inv c ext0 fed G).
  - unfold G, made, hold. simpl. lia.
  - intros s s' Hm HG _ He. eapply G_effect; eauto.
    + eapply mp_reachable_reachable; eauto.
    + eapply mp_not_cancelled; eauto.
Qed.

(* ---------- what everybody waits for in a settled, fed state ---------- *)
Inductive settled_shape (s : state) : Prop :=
| SS_done : wc (ws s 1) = WDone -> settled_shape s
| SS_token a u : wc (ws s 1) = WRun false [ATok 1; ASend 0 a] -> cbuf (outs s 1) = [] ->
    wc (ws s 0) = WSleep u true false [] -> (now s < u)%N -> settled_shape s.

Lemma thr_settled_shape s :
  reachable c s -> cancelled s = false -> settled c ext0 s -> fed s -> settled_shape s.
Proof.
  intros Hr Hcn [[Hq _] Hnr] Hfed.
  pose proof (nopanic c (throttle_wf ops interval icaps ocaps) s Hr) as Hp.
  pose proof (dshape_reachable ops interval icaps ocaps s Hr) as HD. fold c in HD.
  destruct (stuck_waits c s 1 (Hq 1 ltac:(simpl; lia))) as [Hd|i Hc Hs Hb Hcl'|a t Hc|eof k v rest Hc Hr' Hcl' Hcn'
                                            |eof k v rest Hc Hr' Hcl'|eof k rest Hc Hb Hcl' Hcn'|u sel eof rest Hc Ht Hsel].
  - apply SS_done; exact Hd.
  - exfalso. simpl in Hs. inversion Hs; subst. apply Hfed. repeat split; assumption.
  - exfalso. eapply thr_not_call; eauto.
  - (* blocked sending on the output: the consumer could receive *)
    exfalso. rewrite Hc in HD. inversion HD; subst.
    eapply (no_receive_on_send c ext0 s 1 false (ASend 0 v) 0 v []); eauto; try (simpl; lia). left; reflexivity.
  - exfalso. rewrite Hc in HD. inversion HD.
  - (* waiting for a token: the token channel is empty, so the pacer is not blocked pushing - it sleeps *)
    rewrite Hc in HD. inversion HD; subst.
    destruct (stuck_waits c s 0 (Hq 0 ltac:(simpl; lia))) as [Hd0|i0 Hc0 Hs0 Hb0 Hcl0|a0 t0 Hc0|eof0 k0 v0 rest0 Hc0 Hr0 Hcl0 Hcn0
                                            |eof0 k0 v0 rest0 Hc0 Hr0 Hcl0|eof0 k0 rest0 Hc0 Hb0 Hcl0 Hcn0|u0 sel0 eof1 rest0 Hc0 Ht0 Hsel0].
    + (* the pacer returns only on cancel: otherwise the token channel would be closed *)
      exfalso. destruct (done_closed_reachable c (throttle_wf ops interval icaps ocaps) s Hr) as [D _].
      assert (Hx : cclosed (outs s 1) = true) by (apply (D eq_refl 0); simpl; auto).
      congruence.
    + simpl in Hs0. discriminate.
    + exfalso. eapply thr_not_call; eauto.
    + exfalso.
      destruct (pinv_reachable ops interval icaps ocaps s Hr) as [Hc' H1 H2|m Hc' Hm H0 H1 H2|u' Hc' H0 H1 H2 H3|Hc' H1 H2|Hc' H1 H2];
        fold c in Hc'; try congruence.
      assert (k0 = 1) by (eapply pacer_sends_tok; eauto; left; reflexivity). subst k0.
      rewrite Hc0 in Hc'. inversion Hc' as [E]. destruct m as [|m]; [unfold pushes in E; simpl in E; discriminate|].
      unfold has_room in Hr0. rewrite Hb in Hr0. simpl in Hr0. apply Nat.ltb_ge in Hr0.
      pose proof (caps_reachable c s Hr 1) as Hcp. simpl in Hcp. lia.
    + exfalso.
      destruct (pinv_reachable ops interval icaps ocaps s Hr) as [Hc' H1 H2|m Hc' Hm H0 H1 H2|u' Hc' H0 H1 H2 H3|Hc' H1 H2|Hc' H1 H2];
        fold c in Hc'; try congruence.
      rewrite Hc0 in Hc'. inversion Hc' as [E]. destruct m; unfold pushes in E; simpl in E; discriminate.
    + exfalso. eapply pacer_not_tok; eauto.
    + destruct (pinv_reachable ops interval icaps ocaps s Hr) as [Hc' H1 H2|m Hc' Hm H0 H1 H2|u' Hc' H0 H1 H2 H3|Hc' H1 H2|Hc' H1 H2];
        fold c in Hc'; try congruence.
      rewrite Hc0 in Hc'. inversion Hc'; subst. eapply SS_token; eauto.
  - exfalso. rewrite Hc in HD. inversion HD.
Qed.

(* ---------- the exact clock of the pacer, as long as the data goroutine runs ---------- *)
Inductive exact (s : state) : Prop :=
| EX_recv : wc (ws s 0) = WRecv -> now s = (B s * interval)%N -> exact s
| EX_push m : wc (ws s 0) = WRun false (pushes interval m) -> 1 <= batches s ->
    now s = (N.of_nat (batches s - 1) * interval)%N -> exact s
| EX_sleep u : wc (ws s 0) = WSleep u true false [] -> 1 <= batches s -> u = (B s * interval)%N ->
    (N.of_nat (batches s - 1) * interval <= now s)%N -> (now s <= u)%N -> exact s
| EX_post : wc (ws s 0) = WRun false [] -> now s = (B s * interval)%N -> exact s.

Definition X (s : state) : Prop := wc (ws s 1) = WDone \/ exact s.

Lemma exact_frame s s' : ws s' 0 = ws s 0 -> now s' = now s -> exact s -> exact s'.
Proof.
  intros Hw Hn H.
  destruct H as [Hc H1|m Hc H0 H1|u Hc H0 H1 H2 H3|Hc H1].
  - apply EX_recv; unfold batches in *; rewrite ?Hw, ?Hn; auto.
  - apply EX_push with m; unfold batches in *; rewrite ?Hw, ?Hn; auto.
  - apply EX_sleep with u; unfold batches in *; rewrite ?Hw, ?Hn; auto.
  - apply EX_post; unfold batches in *; rewrite ?Hw, ?Hn; auto.
Qed.

Lemma exact_pacer s ch s' :
  reachable c s -> cancelled s = false -> exact s -> step_worker c s 0 ch = Some s' -> exact s'.
Proof.
  intros Hr Hcan HI Hsw. pose proof (step_worker_effect c s 0 ch s' Hsw) as He.
  destruct He as [i a t rest Hsrc Hc Hb | Hsrc Hc | i Hsrc Hc Hb Hcl | ctl' Hcn Hdue Hsl Hsls
                 | eof a k0 v rest Hc Hs0 Hcl | eof k0 t r rest Hc Hb | dropped Hpd Hnd Hnr Hnc Hwhy
                 | eof a k0 v rest Hc Hs0 Hcl].
  - simpl in Hsrc. discriminate.
  - (* a new batch *)
    destruct HI as [Hc' H1|m Hc' H0 H1|u Hc' H0 H1 H2 H3|Hc' H1]; try congruence.
    assert (Hb : batches (set_w s 0 (take c s 0 0%Z)) = S (batches s)).
    { unfold batches. cbn [set_w ws]. upd_simpl. unfold take. simpl. rewrite app_length. simpl. lia. }
    apply EX_push with ops; rewrite ?Hb; try lia.
    + cbn [set_w ws]. upd_simpl. reflexivity.
    + cbn [set_w now]. rewrite H1. replace (S (batches s) - 1) with (batches s) by lia. reflexivity.
  - simpl in Hsrc. discriminate.
  - assert (Hb : batches (set_w s 0 (with_ctl (ws s 0) ctl')) = batches s) by (unfold batches; simpl; upd_simpl; reflexivity).
    destruct HI as [Hc' H1|m Hc' H0 H1|u Hc' H0 H1 H2 H3|Hc' H1].
    + rewrite Hc' in Hcn. inversion Hcn.
    + destruct m as [|m].
      * (* going to sleep, exactly one interval after the batch started *)
        pose proof (Hsls false interval [] Hc') as E. subst ctl'.
        assert (HB : B s = (N.of_nat (batches s - 1) + 1)%N) by lia.
        apply EX_sleep with (now s + interval)%N; rewrite ?Hb; cbn [set_w ws now]; upd_simpl; cbn [with_ctl wc]; auto; try lia.
      * exfalso. rewrite Hc', pushes_S in Hcn.
        inversion Hcn as [|? ? ? Hsk|? ? ? ? ? Hsk|]; subst;
          [eapply send_not_skippable; eassumption|eapply send_not_sleepy; eassumption].
    + (* the timer fires: exactly when due *)
      rewrite Hc' in Hcn. inversion Hcn; subst. pose proof (Hdue _ _ _ _ Hc') as Hd.
      apply EX_post; rewrite ?Hb; cbn [set_w ws now]; upd_simpl; cbn [with_ctl wc]; auto. lia.
    + rewrite Hc' in Hcn. inversion Hcn as [E1 E2| | |]; subst.
      apply EX_recv; rewrite ?Hb; cbn [set_w ws now]; upd_simpl; cbn [with_ctl wc]; auto.
  - (* a token is pushed *)
    destruct HI as [Hc' H1|m Hc' H0 H1|u Hc' H0 H1 H2 H3|Hc' H1]; try congruence.
    rewrite Hc in Hc'. inversion Hc' as [[E1 E2]]. destruct m as [|m].
    + exfalso. unfold pushes in E2. simpl in E2. inversion E2; subst. destruct Hs0 as [Hx|Hx]; discriminate.
    + rewrite pushes_S in E2. inversion E2; subst.
      apply EX_push with m; unfold batches in *; cbn [set_w set_out ws now]; upd_simpl; cbn [with_ctl wc wtaken]; auto.
  - exfalso. eapply pacer_not_tok; eauto.
  - exfalso. pose proof (pacer_returns_on_cancel ops interval icaps ocaps s dropped Hr Hwhy). congruence.
  - apply exact_frame with s; auto.
Qed.

Lemma X_effect s s' :
  reachable c s -> cancelled s = false -> panicked s = false -> X s -> mp_effect c ext0 fed s s' -> X s'.
Proof.
  intros Hr Hcan Hp HX He.
  destruct He as [w ch s' Hw Hsw | i x Hi Hcl | i Hi Hcl | k t v rest Hx Hb | k v w eof a rest Hx Hb Hcap0 Hcl Hw Hc Hs0
                 | | w a todo Hw Hc | Hcl Had Hcd | t Hse Hfed Hnt Hlt].
  - pose proof (step_worker_effect c s w ch s' Hsw) as He.
    destruct (weffect_frame c s w s' He) as (_ & Fn & Fw).
    destruct w as [|[|w]]; [| |simpl in Hw; lia].
    + destruct HX as [Hd|HE]; [left; rewrite Fw by discriminate; exact Hd|].
      right. eapply exact_pacer; eauto.
    + destruct HX as [Hd|HE].
      * exfalso. unfold step_worker in Hsw. rewrite Hd in Hsw. discriminate.
      * right. apply exact_frame with s; auto.
  - destruct HX as [Hd|HE]; [left; exact Hd|right; apply exact_frame with s; auto].
  - destruct HX as [Hd|HE]; [left; exact Hd|right; apply exact_frame with s; auto].
  - destruct HX as [Hd|HE]; [left; exact Hd|right; apply exact_frame with s; auto].
  - apply ext0_0 in Hx. subst k.
    destruct w as [|[|w]]; [| |simpl in Hw; lia].
    + assert (0 = 1) by (eapply pacer_sends_tok; eauto). discriminate.
    + destruct HX as [Hd|HE]; [congruence|]. right. apply exact_frame with s; auto.
  - exact HX.
  - exfalso. eapply thr_not_call; eauto.
  - simpl in Hcl. discriminate.
  - (* the clock moves: the data goroutine has returned, or the pacer sleeps and its deadline is respected *)
    destruct HX as [Hd|HE]; [left; exact Hd|].
    destruct (thr_settled_shape s Hr Hcan Hse Hfed) as [Hd|a u Hc1 Hb Hc0 Hu]; [left; exact Hd|].
    right.
    destruct HE as [Hc' H1|m Hc' H0 H1|u' Hc' H0 H1 H2 H3|Hc' H1]; try congruence.
    assert (Eu : u' = u) by congruence. rewrite Eu in *. clear Eu Hc'.
    assert (Htu : (t <= u)%N).
    { apply Hnt. simpl. rewrite Hc1, Hc0. reflexivity. }
    apply EX_sleep with u; unfold batches in *; simpl; auto; lia.
Qed.

Theorem X_mp_reachable s : thr_mp_reachable s -> X s.
Proof.
  revert s. apply (mp_reachable_inv c ext0 fed X).
  - right. apply EX_recv; reflexivity.
  - intros s s' Hm HX Hp He. eapply X_effect; eauto.
    + eapply mp_reachable_reachable; eauto.
    + eapply mp_not_cancelled; eauto.
Qed.

(* ---------- the exact schedule ---------- *)
Theorem throttle_keeps_pace s :
  thr_mp_reachable s -> settled c ext0 s -> fed s -> (0 < interval)%N ->
  (* the data goroutine has returned: the input is closed, everything handed over was delivered, out is closed *)
  (wc (ws s 1) = WDone /\ cclosed (ins s 0) = true /\ cclosed (outs s 0) = true /\ delivered s 0 = sent s 0 /\
   (N.of_nat (length (sent s 0)) <= N.of_nat ops * (now s / interval + 1))%N)
  \/
  (* or it holds the next element a and waits for the next batch of tokens: all tokens so far are spent *)
  (exists a, wc (ws s 1) = WRun false [ATok 1; ASend 0 a] /\
             N.of_nat (length (delivered s 0)) = (N.of_nat ops * (now s / interval + 1))%N /\
             prefix (delivered s 0 ++ [a]) (sent s 0)).
Proof.
  intros Hm Hse Hfed Hiv.
  pose proof (mp_reachable_reachable c ext0 fed s Hm) as Hr.
  pose proof (mp_not_cancelled c ext0 fed s Hm) as Hcn.
  pose proof (nopanic c (throttle_wf ops interval icaps ocaps) s Hr) as Hp.
  assert (Hb0 : cbuf (outs s 0) = []) by (apply (no_receive_on_empty c ext0 s 0 Hp (proj2 Hse)); reflexivity).
  destruct (thr_settled_shape s Hr Hcn Hse Hfed) as [Hd|a u Hc1 Hb1 Hc0 Hu].
  - left. destruct (throttle_complete ops interval icaps ocaps s Hr Hcn Hd) as (A & A1 & A2). fold c in A.
    rewrite Hb0 in A. simpl in A. rewrite app_nil_r in A.
    repeat split; auto.
    pose proof (deliveries_rate ops interval icaps ocaps s Hr Hcn Hiv) as D.
    unfold made in D. rewrite Hb0 in D. simpl in D. rewrite Nat.add_0_r in D.
    rewrite <- A. unfold delivered. rewrite map_length. exact D.
  - right. exists a. split; [exact Hc1|]. split.
    + (* the pacer's clock is exact, all its tokens were taken by the data goroutine and spent *)
      destruct (X_mp_reachable s Hm) as [Hd|HE]; [congruence|].
      destruct HE as [Hc' H1|m Hc' H0 H1|u' Hc' H0 H1 H2 H3|Hc' H1]; try congruence.
      assert (Eu : u' = u) by congruence. rewrite Eu in *. clear Eu Hc'.
      assert (Hq : (N.of_nat (batches s - 1) = now s / interval)%N).
      { apply N.div_unique with (now s - N.of_nat (batches s - 1) * interval)%N; [|lia].
        assert (HB : B s = (N.of_nat (batches s - 1) + 1)%N) by lia. rewrite HB in H1. lia. }
      assert (Htk : tokens s = batches s * ops).
      { destruct (pinv_reachable ops interval icaps ocaps s Hr) as [Hc' _ _|m Hc' _ _ _ _|u2 Hc' _ T1 _ _|Hc' _ _|Hc' _ _];
          fold c in Hc'; try congruence. lia. }
      pose proof (G_mp_reachable s Hm) as HG.
      destruct (deliveries_le_tokens ops interval icaps ocaps s Hr Hcn) as (_ & J1 & _).
      unfold G, hold, made, tokens in *. fold c in J1. rewrite Hc1 in HG, J1. rewrite Hb0 in HG, J1. rewrite Hb1 in Htk.
      unfold delivered. rewrite map_length. rewrite <- Hq.
      assert (E : length (rcvd s 0) = batches s * ops) by (simpl in *; lia).
      assert (HB : (N.of_nat (batches s - 1) + 1 = B s)%N) by lia. rewrite E, HB, Nat2N.inj_mul. lia.
    + destruct (throttle_stream ops interval icaps ocaps s Hr) as [A A']. fold c in A, A'.
      pose proof (Kinv_reachable c s Hr 1) as K.
      rewrite Hc1, Hb0, (k_dropped c s 1 K Hcn 0) in A. simpl in A.
      rewrite A'. rewrite <- A. exists (map snd (cbuf (ins s 0))). reflexivity.
Qed.

(* deliveries = min(handed over, ops * (now / interval + 1)) *)
Theorem throttle_delivery_count s :
  thr_mp_reachable s -> settled c ext0 s -> fed s -> (0 < interval)%N ->
  N.of_nat (length (delivered s 0)) = N.min (N.of_nat (length (sent s 0))) (N.of_nat ops * (now s / interval + 1)).
Proof.
  intros Hm Hse Hfed Hiv.
  destruct (throttle_keeps_pace s Hm Hse Hfed Hiv) as [(_ & _ & _ & D & Hle)|(a & _ & D & Hpre)].
  - rewrite D. symmetry. apply N.min_l. exact Hle.
  - rewrite D. symmetry. apply N.min_r. rewrite <- D. apply prefix_length in Hpre. rewrite app_length in Hpre. simpl in Hpre. lia.
Qed.

(* element i (from 0) has been delivered <=> it was handed over and floor(i/ops) * interval has been reached:
   it is delivered AT floor(i/ops) * interval - never earlier, and with no delay at all *)
Theorem throttle_element_time s i :
  thr_mp_reachable s -> settled c ext0 s -> fed s -> (0 < interval)%N -> 1 <= ops ->
  (i < length (delivered s 0) <-> i < length (sent s 0) /\ (N.of_nat (i / ops) * interval <= now s)%N).
Proof.
  intros Hm Hse Hfed Hiv Hops.
  pose proof (throttle_delivery_count s Hm Hse Hfed Hiv) as D.
  rewrite Nat2N.inj_div.
  set (I := N.of_nat i) in *. set (O := N.of_nat ops) in *. set (q := (now s / interval)%N) in *.
  assert (HO : O <> 0%N) by (unfold O; lia). assert (Hi0 : interval <> 0%N) by lia.
  assert (Hkey : (I < O * (q + 1) <-> I / O * interval <= now s)%N).
  { split; intros H.
    - assert (H1 : (I / O < q + 1)%N) by (apply N.div_lt_upper_bound; assumption).
      assert (H2 : (interval * q <= now s)%N) by (apply N.mul_div_le; assumption).
      assert (H3 : (I / O <= q)%N) by lia. nia.
    - assert (H1 : (I / O <= q)%N) by (apply N.div_le_lower_bound; [assumption|lia]).
      pose proof (N.mul_succ_div_gt I O HO) as H2. nia. }
  split.
  - intros Hlt. assert (Hl : (I < N.of_nat (length (delivered s 0)))%N) by (unfold I; lia).
    rewrite D in Hl. split; [lia|]. apply Hkey. lia.
  - intros [H1 H2]. apply Hkey in H2.
    assert (Hl : (I < N.of_nat (length (delivered s 0)))%N) by (rewrite D; unfold I; lia). unfold I in Hl. lia.
Qed.

(* the stronger, observable formulation of "input always available": the producer cannot hand over anything
   more (input buffer full, or input closed) *)
Lemma saturated_fed s : cclosed (ins s 0) = true \/ in_room c s 0 = false -> fed s.
Proof.
  clear Hcap. intros H [Hc [Hb Hcl]]. destruct H as [H|H]; [congruence|].
  unfold in_room in H. rewrite Hb in H. simpl in H. rewrite Hc in H. simpl in H.
  apply Nat.ltb_ge in H. lia.
Qed.

(* ---------- settled / fed, decidably (for examples) ---------- *)
Definition thr_settledb (s : state) : bool := quiescentb c s && no_receiveb c [0] s.
Definition thr_fedb (s : state) : bool :=
  negb (match wc (ws s 1), cbuf (ins s 0) with WRecv, [] => negb (cclosed (ins s 0)) | _, _ => false end).

Lemma thr_settledb_sound s : thr_settledb s = true -> settled c ext0 s.
Proof.
  unfold thr_settledb. intros H. apply andb_prop in H. destruct H as [H1 H2]. split.
  - apply quiescentb_sound; exact H1.
  - eapply no_receiveb_sound; [|exact H2]. intros k Hk. apply ext0_0 in Hk. subst. left; reflexivity.
Qed.
Lemma thr_fedb_sound s : thr_fedb s = true -> fed s.
Proof.
  unfold thr_fedb. intros H [Hc [Hb Hcl]]. rewrite Hc, Hb, Hcl in H. discriminate.
Qed.

Definition thr_mp_run (tr : list ev) : option state := mp_run c ext0 thr_settledb thr_fedb (init c) tr.
Lemma thr_mp_run_sound tr s : thr_mp_run tr = Some s -> thr_mp_reachable s.
Proof.
  intros H. eapply (mp_run_sound c ext0 fed thr_settledb thr_fedb); [| |apply MP_init|exact H].
  - intros s0 _. apply thr_settledb_sound.
  - apply thr_fedb_sound.
Qed.

End ThrottlePace.

(* ---------- non-vacuity: concrete maximal-progress runs; 2 tokens per 5 ticks ---------- *)
(* the producer hands x over; the data goroutine takes it, takes a token, sends it; the consumer receives it *)
Definition thr_ex_el (x : Z) : list ev := [ESent 0 x; EW 1 false; EW 1 false; EW 1 false; ERcvd 0 x; EW 1 false].
(* the pacer starts a batch, pushes two tokens and goes to sleep *)
Definition thr_ex_batch : list ev := [EW 0 false; EW 0 false; EW 0 false; EW 0 false].
(* elements 10, 11 at time 0; 12 waits for the second batch; at time 5: 12, 13; 14 waits for the third batch *)
Definition thr_ex_tr : list ev :=
  thr_ex_batch ++ thr_ex_el 10 ++ thr_ex_el 11 ++ [ESent 0 12%Z; EW 1 false; EAdvance 5; EW 0 false; EW 0 false] ++
  thr_ex_batch ++ [EW 1 false; EW 1 false; ERcvd 0 12%Z; EW 1 false] ++ thr_ex_el 13 ++ [ESent 0 14%Z; EW 1 false].
(* instead of a fifth element the input is closed: the data goroutine returns, the pacer goes on until the
   token channel is full; afterwards no timer is pending *)
Definition thr_ex_tr_done : list ev :=
  thr_ex_batch ++ thr_ex_el 10 ++ thr_ex_el 11 ++ [ESent 0 12%Z; EW 1 false; EAdvance 5; EW 0 false; EW 0 false] ++
  thr_ex_batch ++ [EW 1 false; EW 1 false; ERcvd 0 12%Z; EW 1 false] ++ thr_ex_el 13 ++
  [ECloseIn 0; EW 1 false; EW 1 false; EAdvance 10; EW 0 false; EW 0 false] ++ thr_ex_batch ++
  [EAdvance 15; EW 0 false; EW 0 false; EW 0 false; EAdvance 100].

Example throttle_mp_example :
  exists s, thr_mp_reachable 2 5 [1] [1; 2] s /\ settled (throttle_stage 2 5 [1] [1; 2]) ext0 s /\ fed s /\
            now s = 5%N /\ delivered s 0 = [10; 11; 12; 13]%Z /\ wc (ws s 1) = WRun false [ATok 1; ASend 0 14%Z].
Proof.
  destruct (thr_mp_run 2 5 [1] [1; 2] thr_ex_tr) as [s|] eqn:E; [|vm_compute in E; discriminate].
  exists s. pose proof (thr_mp_run_sound _ _ _ _ _ _ E) as Hm. split; [exact Hm|].
  vm_compute in E. injection E as <-.
  split; [apply thr_settledb_sound; vm_compute; reflexivity|].
  split; [apply thr_fedb_sound; vm_compute; reflexivity|].
  vm_compute. repeat split; reflexivity.
Qed.

Example throttle_mp_example_done :
  exists s, thr_mp_reachable 2 5 [1] [1; 2] s /\ settled (throttle_stage 2 5 [1] [1; 2]) ext0 s /\ fed s /\
            now s = 100%N /\ delivered s 0 = [10; 11; 12; 13]%Z /\ wc (ws s 1) = WDone.
Proof.
  destruct (thr_mp_run 2 5 [1] [1; 2] thr_ex_tr_done) as [s|] eqn:E; [|vm_compute in E; discriminate].
  exists s. pose proof (thr_mp_run_sound _ _ _ _ _ _ E) as Hm. split; [exact Hm|].
  vm_compute in E. injection E as <-.
  split; [apply thr_settledb_sound; vm_compute; reflexivity|].
  split; [apply thr_fedb_sound; vm_compute; reflexivity|].
  vm_compute. repeat split; reflexivity.
Qed.

(* the policy bites: the clock may not move while the data goroutine waits for input that is not there,
   nor while a delivered element waits in the output buffer, nor past the pacer's deadline *)
Example throttle_mp_starved :
  thr_mp_run 2 5 [1] [1; 2] (thr_ex_batch ++ thr_ex_el 10 ++ [EAdvance 5]) = None.
Proof. vm_compute. reflexivity. Qed.
Example throttle_mp_no_lag :
  thr_mp_run 2 5 [1] [1; 2] (thr_ex_batch ++ [ESent 0 10%Z; EW 1 false; EW 1 false; EW 1 false; EAdvance 5]) = None.
Proof. vm_compute. reflexivity. Qed.
Example throttle_mp_no_jump :
  thr_mp_run 2 5 [1] [1; 2] (thr_ex_batch ++ thr_ex_el 10 ++ thr_ex_el 11 ++ [ESent 0 12%Z; EW 1 false; EAdvance 6]) = None.
Proof. vm_compute. reflexivity. Qed.
