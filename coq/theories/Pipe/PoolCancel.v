(* CANCEL-EXIT for the stages: once the context is cancelled and the inputs are closed, the only
   state without an enabled step is the one where every goroutine has returned and every channel
   is closed - whether or not anybody ever receives from the outputs again. *)
From Coq Require Import List ZArith NArith Bool Arith PeanoNat Lia.
From Golem Require Import Base.Lists Pipe.Pool Pipe.Stages Pipe.PoolEffects Pipe.PoolSteps Pipe.PoolInv Pipe.PoolInv2
     Pipe.PoolSafe Pipe.PoolClosed Pipe.PoolStop Pipe.PoolLive Pipe.PoolSimple Pipe.PoolActs Pipe.PoolSeq Pipe.PoolStateless
     Pipe.PoolStages Pipe.PoolStages2 Pipe.PoolErr Pipe.PoolMulti Pipe.PoolMultiStages.
Import ListNotations.
Open Scope nat_scope.

Definition all_closed (c : cfg) (s : state) : Prop :=
  (closer c = true -> forall k, In k (closes c) -> cclosed (outs s k) = true) /\
  (closer c = false -> forall w k, w < par c -> In k (wcloses c w) -> cclosed (outs s k) = true).

Section Generic.
Variable c : cfg.
Hypothesis WF : wf_cfg c.
Hypothesis SC : simple_cfg c.
Hypothesis Hsrc : forall w, w < par c -> exists i, src c w = SIn i.

Theorem simple_cancel_exit s :
  reachable c s -> cancelled s = true -> quiescent c s ->
  (forall w i, w < par c -> src c w = SIn i -> cclosed (ins s i) = true) ->
  (forall w eof k v rest, w < par c -> wc (ws s w) = WRun eof (APlain k v :: rest) -> has_room (outs s k) = true) ->
  (forall w, w < par c -> wc (ws s w) = WDone) /\ all_closed c s.
Proof.
  intros Hr Hcn Hq Hin Hroom.
  pose proof (nopanic c WF s Hr) as Hp.
  destruct (cancel_exit c s Hp Hcn Hq) as [Hd Hcd].
  - intros w Hw i Hs. eapply Hin; eauto.
  - intros w Hw. pose proof (simple_reachable c SC s Hr w) as Hs.
    destruct (wc (ws s w)) as [| |eof [|[k v|k v| | | | |] rest]| |] eqn:Ec; simpl in Hs; auto; try contradiction.
    eapply Hroom; eauto.
  - intros w Hw Hg. destruct (Hsrc w Hw) as [i Hi]. congruence.
  - split; [exact Hd|]. destruct (done_closed_reachable c WF s Hr) as [A B]. split.
    + intros Hc k Hk. apply B; auto.
    + intros Hc w k Hw Hk. eapply A; eauto.
Qed.

(* stages without plain sends need no capacity assumption *)
Definition no_plain (a : act) : Prop := match a with APlain _ _ => False | _ => True end.
Hypothesis Hnp : forall w l a, Forall no_plain (fst (plan c w l a)).
Hypothesis Hnpe : forall w l, Forall no_plain (on_eof c w l).

Theorem noplain_cancel_exit s :
  reachable c s -> cancelled s = true -> quiescent c s ->
  (forall w i, w < par c -> src c w = SIn i -> cclosed (ins s i) = true) ->
  (forall w, w < par c -> wc (ws s w) = WDone) /\ all_closed c s.
Proof.
  intros Hr Hcn Hq Hin. apply simple_cancel_exit; auto.
  intros w eof k v rest Hw Hc. exfalso.
  pose proof (acts_reachable c no_plain I Hnp Hnpe s Hr w) as H. rewrite Hc in H. simpl in H.
  inversion H as [|? ? Hh _]. exact Hh.
Qed.
End Generic.

(* ---------- the sequential stages ---------- *)
Lemma seq_src_ok (cc : cfg) : par cc = 1 -> src cc 0 = SIn 0 -> forall w, w < par cc -> exists i, src cc w = SIn i.
Proof. intros Hp Hs w Hw. assert (w = 0) by lia. subst. eauto. Qed.

Theorem map_cancel_exit (f : Z -> res) (try : bool) icaps ocaps s :
  let c := map_cfg f try icaps ocaps in
  (try = false -> 1 <= nth_cap ocaps 1) ->
  reachable c s -> cancelled s = true -> quiescent c s -> cclosed (ins s 0) = true ->
  wc (ws s 0) = WDone /\ cclosed (outs s 0) = true /\ cclosed (outs s 1) = true.
Proof.
  intros c Hcap Hr Hcn Hq Hin.
  destruct (simple_cancel_exit c (map_wf f try icaps ocaps) (map_simple f try icaps ocaps) (seq_src_ok c eq_refl eq_refl) s Hr Hcn Hq)
    as [Hd [_ Hc]].
  - intros w i Hw Hs. inversion Hs; subst. exact Hin.
  - intros w eof k v rest Hw Hc. assert (w = 0) by (simpl in Hw; lia). subst.
    destruct try.
    + exfalso. pose proof (acts_reachable c no_plain I) as H.
      assert (Hp : forall w l a, Forall no_plain (fst (plan c w l a))).
      { intros w l a. simpl. destruct (f a); simpl; repeat constructor. }
      specialize (H Hp (fun _ _ => Forall_nil _) s Hr 0). rewrite Hc in H. inversion H as [|? ? Hh _]. exact Hh.
    + assert (k = 1).
      { pose proof (sf_own c s (safe_reachable c (map_wf f false icaps ocaps) s Hr) 0) as _.
        pose proof (acts_reachable c (fun a => match a with APlain k _ => k = 1 | _ => True end) I) as H.
        assert (Hp : forall w l a, Forall (fun a => match a with APlain k _ => k = 1 | _ => True end) (fst (plan c w l a))).
        { intros w l a. simpl. destruct (f a); simpl; repeat constructor. }
        specialize (H Hp (fun _ _ => Forall_nil _) s Hr 0). rewrite Hc in H. inversion H as [|? ? Hh _]. exact Hh. }
      subst. eapply (map_err_never_blocks f icaps ocaps s eof v rest); eauto.
  - split; [apply Hd; simpl; lia|]. split; apply (Hc eq_refl 0); simpl; auto.
Qed.

Theorem filter_cancel_exit (p : Z -> bool) icaps ocaps s :
  let c := filter_cfg p icaps ocaps in
  reachable c s -> cancelled s = true -> quiescent c s -> cclosed (ins s 0) = true ->
  wc (ws s 0) = WDone /\ cclosed (outs s 0) = true.
Proof.
  intros c Hr Hcn Hq Hin.
  destruct (noplain_cancel_exit c (filter_wf p icaps ocaps) (filter_simple p icaps ocaps) (seq_src_ok c eq_refl eq_refl)) with (s := s)
    as [Hd [_ Hc]]; auto.
  - intros w l a. simpl. destruct (p a); repeat constructor.
  - intros w l. constructor.
  - intros w i Hw Hs. inversion Hs; subst. exact Hin.
  - split; [apply Hd; simpl; lia|]. apply (Hc eq_refl 0); simpl; auto.
Qed.

Theorem partition_cancel_exit (p : Z -> bool) icaps ocaps s :
  let c := partition_cfg p icaps ocaps in
  reachable c s -> cancelled s = true -> quiescent c s -> cclosed (ins s 0) = true ->
  wc (ws s 0) = WDone /\ cclosed (outs s 0) = true /\ cclosed (outs s 1) = true.
Proof.
  intros c Hr Hcn Hq Hin.
  destruct (noplain_cancel_exit c (partition_wf p icaps ocaps) (partition_simple p icaps ocaps) (seq_src_ok c eq_refl eq_refl)) with (s := s)
    as [Hd [_ Hc]]; auto.
  - intros w l a. simpl. repeat constructor.
  - intros w l. constructor.
  - intros w i Hw Hs. inversion Hs; subst. exact Hin.
  - split; [apply Hd; simpl; lia|]. split; apply (Hc eq_refl 0); simpl; auto.
Qed.

Theorem take_cancel_exit (n : Z) icaps ocaps s :
  let c := take_cfg n icaps ocaps in
  reachable c s -> cancelled s = true -> quiescent c s -> cclosed (ins s 0) = true ->
  wc (ws s 0) = WDone /\ cclosed (outs s 0) = true.
Proof.
  intros c Hr Hcn Hq Hin.
  destruct (noplain_cancel_exit c (take_wf n icaps ocaps) (take_simple n icaps ocaps) (seq_src_ok c eq_refl eq_refl)) with (s := s)
    as [Hd [_ Hc]]; auto.
  - intros w l a. simpl. constructor; simpl; auto. destruct (l - 1 =? 0)%Z; repeat constructor.
  - intros w l. constructor.
  - intros w i Hw Hs. inversion Hs; subst. exact Hin.
  - split; [apply Hd; simpl; lia|]. apply (Hc eq_refl 0); simpl; auto.
Qed.

Theorem takewhile_cancel_exit (p : Z -> bool) icaps ocaps s :
  let c := takewhile_cfg p icaps ocaps in
  reachable c s -> cancelled s = true -> quiescent c s -> cclosed (ins s 0) = true ->
  wc (ws s 0) = WDone /\ cclosed (outs s 0) = true.
Proof.
  intros c Hr Hcn Hq Hin.
  destruct (noplain_cancel_exit c (takewhile_wf p icaps ocaps) (takewhile_simple p icaps ocaps) (seq_src_ok c eq_refl eq_refl)) with (s := s)
    as [Hd [_ Hc]]; auto.
  - intros w l a. simpl. destruct (p a); repeat constructor.
  - intros w l. constructor.
  - intros w i Hw Hs. inversion Hs; subst. exact Hin.
  - split; [apply Hd; simpl; lia|]. apply (Hc eq_refl 0); simpl; auto.
Qed.

Theorem visit_cancel_exit icaps ocaps s :
  let c := visit_cfg icaps ocaps in
  reachable c s -> cancelled s = true -> quiescent c s -> cclosed (ins s 0) = true ->
  wc (ws s 0) = WDone /\ cclosed (outs s 0) = true.
Proof.
  intros c Hr Hcn Hq Hin.
  destruct (noplain_cancel_exit c (visit_wf icaps ocaps) (visit_simple icaps ocaps) (seq_src_ok c eq_refl eq_refl)) with (s := s)
    as [Hd [_ Hc]]; auto.
  - intros w l a. simpl. repeat constructor.
  - intros w l. constructor.
  - intros w i Hw Hs. inversion Hs; subst. exact Hin.
  - split; [apply Hd; simpl; lia|]. apply (Hc eq_refl 0); simpl; auto.
Qed.

Theorem fold_cancel_exit combine empty icaps ocaps s :
  let c := fold_cfg combine empty icaps ocaps in
  1 <= nth_cap ocaps 0 ->
  reachable c s -> cancelled s = true -> quiescent c s -> cclosed (ins s 0) = true ->
  wc (ws s 0) = WDone /\ cclosed (outs s 0) = true.
Proof.
  intros c Hcap Hr Hcn Hq Hin.
  destruct (simple_cancel_exit c (fold_wf combine empty icaps ocaps) (fold_simple combine empty icaps ocaps) (seq_src_ok c eq_refl eq_refl) s Hr Hcn Hq)
    as [Hd [_ Hc]].
  - intros w i Hw Hs. inversion Hs; subst. exact Hin.
  - intros w eof k v rest Hw Hc. assert (w = 0) by (simpl in Hw; lia). subst.
    assert (k = 0).
    { pose proof (acts_reachable c (fun a => match a with APlain k _ => k = 0 | _ => True end) I) as H.
      assert (Hp : forall w l a, Forall (fun a => match a with APlain k _ => k = 0 | _ => True end) (fst (plan c w l a))).
      { intros w l a. simpl. repeat constructor. }
      assert (He : forall w l, Forall (fun a => match a with APlain k _ => k = 0 | _ => True end) (on_eof c w l)).
      { intros w l. simpl. repeat constructor. }
      specialize (H Hp He s Hr 0). rewrite Hc in H. inversion H as [|? ? Hh _]. exact Hh. }
    subst. eapply (fold_done_never_blocks combine empty icaps ocaps s eof v rest); eauto.
  - split; [apply Hd; simpl; lia|]. apply (Hc eq_refl 0); simpl; auto.
Qed.

(* ---------- fork stages and Join ---------- *)
Theorem fork_cancel_exit (n : nat) (g : Z -> list act) cl icaps ocaps s :
  let c := fork_cfg n g cl icaps ocaps in
  NoDup cl -> (forall a, Forall simple_act (g a)) -> (forall a, Forall no_plain (g a)) ->
  reachable c s -> cancelled s = true -> quiescent c s -> cclosed (ins s 0) = true ->
  (forall w, w < n -> wc (ws s w) = WDone) /\ (forall k, In k cl -> cclosed (outs s k) = true).
Proof.
  intros c Hnd Hs Hnp Hr Hcn Hq Hin.
  assert (H1 : forall w, w < par c -> exists i, src c w = SIn i) by (intros w Hw; exists 0; reflexivity).
  assert (H2 : forall w l a, Forall no_plain (fst (plan c w l a))) by (intros w l a; simpl; apply Hnp).
  assert (H3 : forall w l, Forall no_plain (on_eof c w l)) by (intros w l; constructor).
  assert (H4 : forall w i, w < par c -> src c w = SIn i -> cclosed (ins s i) = true).
  { intros w i Hw Hsrc. inversion Hsrc; subst. exact Hin. }
  destruct (noplain_cancel_exit c (fork_wf n g cl icaps ocaps Hnd) (fork_simple n g cl icaps ocaps Hs) H1 H2 H3 s Hr Hcn Hq H4) as [Hd [Hc _]].
  split; [exact Hd|]. apply (Hc eq_refl).
Qed.

Theorem join_cancel_exit (n : nat) icaps ocaps s :
  let c := join_stage n icaps ocaps in
  reachable c s -> cancelled s = true -> quiescent c s -> (forall i, i < n -> cclosed (ins s i) = true) ->
  (forall w, w < n -> wc (ws s w) = WDone) /\ cclosed (outs s 0) = true.
Proof.
  intros c Hr Hcn Hq Hin.
  assert (H1 : forall w, w < par c -> exists i, src c w = SIn i) by (intros w Hw; exists w; reflexivity).
  assert (H2 : forall w l a, Forall no_plain (fst (plan c w l a))) by (intros w l a; simpl; repeat constructor).
  assert (H3 : forall w l, Forall no_plain (on_eof c w l)) by (intros w l; constructor).
  assert (H4 : forall w i, w < par c -> src c w = SIn i -> cclosed (ins s i) = true).
  { intros w i Hw Hsrc. inversion Hsrc; subst. apply Hin. exact Hw. }
  destruct (noplain_cancel_exit c (join_wf n icaps ocaps) (join_simple n icaps ocaps) H1 H2 H3 s Hr Hcn Hq H4) as [Hd [Hc _]].
  split; [exact Hd|]. apply (Hc eq_refl). simpl. auto.
Qed.

From Golem Require Import Pipe.PoolGen.
Lemma stages_wf (f : Z -> res) (fa : Z -> list Z * option Z) (p : Z -> bool) (try : bool) (n : Z) (m : nat)
    (combine : Z -> Z -> Z) (empty seed : Z) (freq : N) (icaps ocaps : list nat) :
  wf_cfg (map_cfg f try icaps ocaps) /\ wf_cfg (fmap_cfg fa try icaps ocaps) /\ wf_cfg (filter_cfg p icaps ocaps) /\
  wf_cfg (partition_cfg p icaps ocaps) /\ wf_cfg (take_cfg n icaps ocaps) /\ wf_cfg (takewhile_cfg p icaps ocaps) /\
  wf_cfg (visit_cfg icaps ocaps) /\ wf_cfg (fold_cfg combine empty icaps ocaps) /\ wf_cfg (join_stage m icaps ocaps) /\
  wf_cfg (unfold_cfg f try seed ocaps) /\ wf_cfg (emit_cfg freq f try ocaps).
Proof.
  split; [apply map_wf|]. split; [apply fmap_wf|]. split; [apply filter_wf|]. split; [apply partition_wf|].
  split; [apply take_wf|]. split; [apply takewhile_wf|]. split; [apply visit_wf|]. split; [apply fold_wf|].
  split; [apply join_wf|]. split; [apply unfold_wf|apply emit_wf].
Qed.
