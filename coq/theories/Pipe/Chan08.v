(* C08 - the few channel-kernel notions the pump machine of Unbound.v needs (DESIGN 2.1.1), kept in a
   file of this property's own. Executable definitions only.

   A Go channel is a FIFO buffer with a capacity and a closed flag. A send completes iff the buffer has room,
   or the channel is unbuffered and the peer is parked on the matching receive (rendezvous, a JOINT step of
   both parties - modelled inside the machine's step function). A receive from an empty closed channel
   yields "closed". Send on a closed channel or a second close is a panic. *)
From Coq Require Import List Arith ZArith Bool.
Import ListNotations.

Definition has_room (buf : list Z) (cap : nat) : bool := length buf <? cap.
Definition is_nil {X} (l : list X) : bool := match l with [] => true | _ => false end.

Fixpoint list_eqbZ (a b : list Z) : bool :=
  match a, b with
  | [], [] => true
  | x :: a', y :: b' => Z.eqb x y && list_eqbZ a' b'
  | _, _ => false
  end.

(* [l] starts with [p] *)
Fixpoint prefixb (p l : list Z) : bool :=
  match p, l with
  | [], _ => true
  | x :: p', y :: l' => Z.eqb x y && prefixb p' l'
  | _ :: _, [] => false
  end.
