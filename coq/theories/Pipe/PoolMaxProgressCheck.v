(* The clock policy of the trace-acceptance checker (Check/Pool.v) is the maximal-progress policy of
   Pipe/PoolMaxProgress.v:
   - [sleep_loop] moves the clock only in states produced by [closure], i.e. states with [succs s = []];
     those are exactly the [quiescent] states (lemma below);
   - it moves it to [min_wake s] when that deadline is <= the target of the driver's sleep, and to the
     target otherwise: in both cases to an instant <= every pending deadline ([no_timer_before], lemmas
     [advance_due_ok] / [advance_rest_ok] below state the two guards of [sleep_loop] in that form). *)
From Coq Require Import List ZArith NArith Bool Arith PeanoNat Lia.
From Golem Require Import Pipe.Pool Pipe.PoolSteps Pipe.PoolLive Pipe.PoolMaxProgress Check.Pool.
Import ListNotations.
Open Scope nat_scope.

Lemma somes_nil {A} (l : list (option A)) : somes l = [] <-> Forall (fun o => o = None) l.
Proof.
  unfold somes. induction l as [|[x|] l IH]; simpl.
  - split; auto.
  - split; [discriminate|]. intros H. inversion H; discriminate.
  - rewrite IH. split; [auto|]. intros H. inversion H; auto.
Qed.

Lemma succs_nil_quiescent (c : cfg) (s : state) :
  panicked s = false -> (succs c s = [] <-> quiescent c s).
Proof.
  intros Hp. unfold succs. rewrite somes_nil, Forall_app, Forall_flat_map, Forall_forall.
  assert (Hst : forall w ch, w < par c -> step c s (EW w ch) = step_worker c s w ch).
  { intros w ch Hw. unfold step, step_ok. rewrite Hp. apply Nat.ltb_lt in Hw. now rewrite Hw. }
  unfold quiescent, worker_stuck. split.
  - intros [Hw Hc]. split.
    + intros w Hlt ch. specialize (Hw w). rewrite in_seq in Hw. specialize (Hw (conj (Nat.le_0_l w) Hlt)).
      inversion Hw as [|? ? H1 Hw']; subst. inversion Hw' as [|? ? H2 _]; subst.
      destruct ch; rewrite <- (Hst _ _ Hlt); assumption.
    + inversion Hc; assumption.
  - intros [Hw Hc]. split.
    + intros w Hin. apply in_seq in Hin. destruct Hin as [_ Hlt]. simpl in Hlt.
      repeat constructor; rewrite (Hst _ _ Hlt); apply Hw; exact Hlt.
    + repeat constructor. exact Hc.
Qed.

(* the two guards of [sleep_loop]: a state whose earliest deadline is due is advanced to that deadline;
   a state without a deadline <= target is advanced to the target - never past a pending timer *)
Lemma advance_due_ok (c : cfg) (s : state) (t : N) :
  min_wake s (par c) = Some t -> no_timer_before c s t.
Proof. intros H u Hu. rewrite H in Hu. inversion Hu; subst. lia. Qed.

Lemma advance_rest_ok (c : cfg) (s : state) (target : N) :
  match min_wake s (par c) with Some t => negb (N.leb t target) | None => true end = true ->
  no_timer_before c s target.
Proof.
  intros H u Hu. rewrite Hu in H. apply negb_true_iff in H. apply N.leb_gt in H. lia.
Qed.
