(* Throttling: deliveries never exceed tokens.  Before cancel the token channel (out 1) stays open - the
   pacer returns only on cancel - so the data goroutine passes its `select { case <-ctl: case <-Done }`
   only by taking a token that is there; hence every element made available on the output (received or
   buffered in out 0), plus the one the data goroutine holds in its hand, has consumed a token:
       made s + hold s <= length (rcvd s 1) <= tokens s.
   Together with [tokens_rate] this bounds the deliveries by time t: made <= ops * (t / interval + 1). *)
From Coq Require Import List ZArith NArith Bool Arith PeanoNat Lia.
From Golem Require Import Base.Lists Pipe.Pool Pipe.Stages Pipe.PoolEffects Pipe.PoolSteps Pipe.PoolInv Pipe.PoolInv2
     Pipe.PoolSafe Pipe.PoolStop Pipe.PoolLive Pipe.PoolSimple Pipe.PoolActs Pipe.PoolSeq Pipe.PoolThrottle
     Pipe.PoolThrottleRate Pipe.PoolStepCases Pipe.PoolVariant.
Import ListNotations.
Open Scope nat_scope.

Lemma send_not_skippable k v : ~ skippable (ASend k v).
Proof. intros [H|[[x H]|[[d H]|[d H]]]]; discriminate. Qed.
Lemma send_not_sleepy k v : ~ sleepy (ASend k v).
Proof. intros [[d H]|[d H]]; discriminate. Qed.
Lemma tok_not_sleepy k : ~ sleepy (ATok k).
Proof. intros [[d H]|[d H]]; discriminate. Qed.

Section Deliver.
Variables (ops : nat) (interval : N) (icaps ocaps : list nat).
Let c := throttle_stage ops interval icaps ocaps.

(* ---------- the control of the data goroutine ---------- *)
Inductive dshape : wctl -> Prop :=
| DS_recv : dshape WRecv
| DS_tok a : dshape (WRun false [ATok 1; ASend 0 a])
| DS_send a : dshape (WRun false [ASend 0 a])
| DS_post : dshape (WRun false [])
| DS_eof : dshape (WRun true [])
| DS_done : dshape WDone.

Lemma dshape_step s e s' : dshape (wc (ws s 1)) -> step c s e = Some s' -> dshape (wc (ws s' 1)).
Proof.
  intros HI Hs. destruct (step_effect c s e s' Hs) as [_ He].
  destruct He as [i x Hi Hcl | i Hi Hcl | k t v rest Hb | k v w eof a rest Hb Hcap Hcl Hw Hc Hs0 | | | w s'' Hw He
                 | w a todo Hw Hc | Hcl Had Hcd | t Ht]; try exact HI.
  - (* rendezvous *)
    simpl. destruct (Nat.eq_dec w 1) as [->|Hne]; [|rewrite upd_other by congruence; exact HI].
    upd_simpl. simpl. rewrite Hc in HI.
    inversion HI; subst; destruct Hs0 as [Hx|Hx]; try discriminate; constructor.
  - destruct (Nat.eq_dec w 1) as [->|Hne].
    2:{ destruct (weffect_frame c s w s'' He) as (_ & _ & Fw). rewrite Fw by congruence. exact HI. }
    destruct He as [i a t rest Hsrc Hc Hb | Hsrc Hc | i Hsrc Hc Hb Hcl | ctl' Hcn Hdue Hsl Hsls
                   | eof a k0 v rest Hc Hs0 Hcl | eof k0 t r rest Hc Hb | dropped Hp Hnd Hnr Hnc Hwhy
                   | eof a k0 v rest Hc Hs0 Hcl].
    + simpl. upd_simpl. unfold take. simpl. constructor.
    + simpl in Hsrc. discriminate.
    + simpl. upd_simpl. simpl. constructor.
    + simpl. upd_simpl. simpl.
      remember (wc (ws s 1)) as ctl eqn:Ectl.
      destruct HI; inversion Hcn; subst; try constructor;
        try (exfalso; eapply tok_not_sleepy; eassumption); try (exfalso; eapply send_not_sleepy; eassumption).
    + simpl. upd_simpl. simpl. rewrite Hc in HI.
      inversion HI; subst; destruct Hs0 as [Hx|Hx]; try discriminate; constructor.
    + simpl. upd_simpl. simpl. rewrite Hc in HI. inversion HI; subst. constructor.
    + destruct (finish_fields c s 1 dropped) as (_ & _ & F3). rewrite F3. upd_simpl. simpl. constructor.
    + exact HI.
  - simpl. destruct (Nat.eq_dec w 1) as [->|Hne]; [|rewrite upd_other by congruence; exact HI].
    rewrite Hc in HI. inversion HI.
Qed.

Theorem dshape_reachable s : reachable c s -> dshape (wc (ws s 1)).
Proof.
  apply (reachable_inv c (fun s => dshape (wc (ws s 1)))); [|intros; eapply dshape_step; eauto].
  simpl. constructor.
Qed.

(* the pacer sends on the token channel only *)
Lemma pacer_sends_tok s eof a k v rest :
  reachable c s -> wc (ws s 0) = WRun eof (a :: rest) -> sends_on a k v -> k = 1.
Proof.
  intros Hr Hc Hs.
  pose proof (actsw_reachable c (fun w x => forall k v, sends_on x k v -> sendsto w k)
                (fun w k v H => match H with or_introl E => ltac:(discriminate) | or_intror E => ltac:(discriminate) end)
                (throttle_sendsto_plan ops interval icaps ocaps) (fun _ _ => Forall_nil _) s Hr 0) as H.
  rewrite Hc in H. simpl in H. inversion H as [|? ? Hh _]. destruct (Hh k v Hs) as [[_ E]|[E _]]; [auto|congruence].
Qed.

(* the pacer is never at a token receive, at a return statement, or in the code after its loop *)
Lemma pacer_not_tok s eof k rest : reachable c s -> wc (ws s 0) <> WRun eof (ATok k :: rest).
Proof.
  intros Hr Hc.
  destruct (pinv_reachable ops interval icaps ocaps s Hr) as [Hc' H1 H2|m Hc' Hm H0 H1 H2|u Hc' H0 H1 H2 H3|Hc' H1 H2|Hc' H1 H2];
    try congruence.
  rewrite Hc in Hc'. inversion Hc' as [[E1 E2]]. destruct m; unfold pushes in E2; simpl in E2; discriminate.
Qed.

Lemma pacer_returns_on_cancel s (dropped : list act) :
  reachable c s ->
  (cancelled s = true \/ wc (ws s 0) = WRun true [] \/
   exists eof rest, wc (ws s 0) = WRun eof (AStop :: rest) /\ dropped = []) ->
  cancelled s = true.
Proof.
  intros Hr [H|[H|(eof & rest & H & _)]]; auto; exfalso;
    destruct (pinv_reachable ops interval icaps ocaps s Hr) as [Hc' H1 H2|m Hc' Hm H0 H1 H2|u Hc' H0 H1 H2 H3|Hc' H1 H2|Hc' H1 H2];
    try congruence.
  rewrite H in Hc'. inversion Hc' as [[E1 E2]]. destruct m; unfold pushes in E2; simpl in E2; discriminate.
Qed.

(* ---------- deliveries <= tokens taken ---------- *)
(* 1 when the data goroutine holds an element it has taken a token for *)
Definition hold (s : state) : nat :=
  match wc (ws s 1) with WRun _ (ASend 0 _ :: _) => 1 | _ => 0 end.

Definition J (s : state) : Prop :=
  cancelled s = false -> cclosed (outs s 1) = false /\ made s + hold s <= length (rcvd s 1).

Lemma J_frame s s' :
  (cancelled s' = false -> cancelled s = false) -> cclosed (outs s' 1) = cclosed (outs s 1) ->
  wc (ws s' 1) = wc (ws s 1) -> made s' = made s -> length (rcvd s 1) <= length (rcvd s' 1) ->
  J s -> J s'.
Proof.
  intros Hcn Ho Hw Hm Hl HJ Hcn'. destruct (HJ (Hcn Hcn')) as [A B].
  unfold hold in *. rewrite Ho, Hw, Hm. split; auto. lia.
Qed.

Lemma made_move s k t r :
  cbuf (outs s k) = t :: r ->
  length (upd (rcvd s) k (rcvd s k ++ [t]) 0) + length (cbuf (upd (outs s) k (pop (outs s k)) 0)) = made s.
Proof.
  intros Hb. unfold made. rewrite (len_upd_snoc' 0). unfold upd.
  destruct (Nat.eqb 0 k) eqn:E; simpl; [|lia]. apply Nat.eqb_eq in E. subst. rewrite Hb. simpl. lia.
Qed.

(* the data goroutine returns: it closes the output (out 0) and nothing else *)
Lemma finish_data s d :
  cclosed (outs (finish c s 1 d) 1) = cclosed (outs s 1) /\ made (finish c s 1 d) = made s /\
  rcvd (finish c s 1 d) = rcvd s /\ wc (ws (finish c s 1 d) 1) = WDone.
Proof.
  destruct (finish_fields c s 1 d) as (_ & _ & F3).
  assert (Ef : finish c s 1 d =
               close_all (set_w s 1 (mkW (wl (ws s 1)) WDone (wtaken (ws s 1)) (weof (ws s 1))
                                         (fun k => wdropped (ws s 1) k ++ emits k d))) [0]) by reflexivity.
  split; [|split; [|split]].
  - rewrite Ef. cbn [close_all]. set (s1 := set_w s 1 _).
    destruct (cclosed (outs s1 0)); unfold s1; simpl; [reflexivity|]. rewrite upd_other by discriminate. reflexivity.
  - rewrite Ef. set (s1 := set_w s 1 _).
    destruct (close_all_frame s1 [0]) as (_ & _ & _ & _ & _ & _ & _ & Hr & Hb & _). cbv zeta in Hr, Hb.
    unfold made. rewrite Hr, Hb. reflexivity.
  - rewrite Ef. set (s1 := set_w s 1 _).
    destruct (close_all_frame s1 [0]) as (_ & _ & _ & _ & _ & _ & _ & Hr & _). cbv zeta in Hr. rewrite Hr. reflexivity.
  - rewrite F3. upd_simpl. reflexivity.
Qed.

Theorem J_step s e s' : reachable c s -> J s -> step c s e = Some s' -> J s'.
Proof.
  intros Hr HJ Hs.
  pose proof (dshape_reachable s Hr) as HD.
  destruct (step_cases c s e s' Hs) as [Hpn [(w & ch & -> & Hw & Hsw)|He]].
  - pose proof (step_worker_effect c s w ch s' Hsw) as He.
    destruct (weffect_frame c s w s' He) as (Fc & _ & Fw).
    destruct w as [|[|w]]; [| |simpl in Hw; lia].
    + (* the pacer moves *)
      destruct He as [i a t rest Hsrc Hc Hb | Hsrc Hc | i Hsrc Hc Hb Hcl | ctl' Hcn Hdue Hsl Hsls
                     | eof a k0 v rest Hc Hs0 Hcl | eof k0 t r rest Hc Hb | dropped Hp Hnd Hnr Hnc Hwhy
                     | eof a k0 v rest Hc Hs0 Hcl].
      * simpl in Hsrc. discriminate.
      * apply J_frame with s; simpl; auto.
      * simpl in Hsrc. discriminate.
      * apply J_frame with s; simpl; auto.
      * (* a token is pushed *)
        assert (k0 = 1) by (eapply pacer_sends_tok; eauto). subst k0.
        apply J_frame with s; simpl; auto.
      * exfalso. eapply pacer_not_tok; eauto.
      * (* the pacer returns: only after cancel *)
        pose proof (pacer_returns_on_cancel s dropped Hr Hwhy) as Hcn.
        intros Hcn'. rewrite Fc in Hcn'. congruence.
      * apply J_frame with s; simpl; auto.
    + (* the data goroutine moves *)
      destruct (cancelled s) eqn:Ecn; [intros Hcn'; congruence|].
      destruct (HJ Ecn) as [Jo Jl].
      assert (Htok : forall a, wc (ws s 1) = WRun false [ATok 1; ASend 0 a] -> J s').
      { intros a Hc.
        destruct (step_worker_tok c s 1 ch s' false 1 [ASend 0 a] Hsw Hc Jo Ecn) as (t & r & Hb & ->).
        intros _. split; simpl.
        - upd_simpl. simpl. exact Jo.
        - unfold made, hold in *. simpl. upd_simpl. simpl. rewrite Hc in Jl. rewrite app_length. simpl. lia. }
      destruct He as [i a t rest Hsrc Hc Hb | Hsrc Hc | i Hsrc Hc Hb Hcl | ctl' Hcn Hdue Hsl Hsls
                     | eof a k0 v rest Hc Hs0 Hcl | eof k0 t r rest Hc Hb | dropped Hp Hnd Hnr Hnc Hwhy
                     | eof a k0 v rest Hc Hs0 Hcl].
      * (* take: no token yet *)
        intros _. split; simpl; [exact Jo|].
        unfold made, hold in *. simpl. upd_simpl. unfold take. simpl. rewrite Hc in Jl. lia.
      * simpl in Hsrc. discriminate.
      * intros _. split; simpl; [exact Jo|].
        unfold made, hold in *. simpl. upd_simpl. simpl. rewrite Hc in Jl. lia.
      * remember (wc (ws s 1)) as ctl eqn:Ectl.
        destruct HD as [|a|a| | |]; try (inversion Hcn; fail).
        -- eapply Htok. reflexivity.
        -- exfalso. inversion Hcn; subst;
             [eapply send_not_skippable; eassumption|eapply send_not_sleepy; eassumption].
        -- inversion Hcn; subst. intros _. split; simpl; [exact Jo|].
           unfold made, hold in *. simpl. upd_simpl. simpl. rewrite <- Ectl in Jl. lia.
      * (* the element goes out: the token in hand is spent *)
        rewrite Hc in HD. inversion HD; subst; destruct Hs0 as [Hx|Hx]; try discriminate.
        inversion Hx; subst.
        intros _. split; simpl.
        -- rewrite upd_other by discriminate. exact Jo.
        -- unfold made, hold in *. simpl. upd_simpl. simpl. rewrite app_length. rewrite Hc in Jl. simpl in *. lia.
      * rewrite Hc in HD. inversion HD; subst. eapply Htok. exact Hc.
      * destruct (finish_data s dropped) as (F1 & F2 & F3 & F4).
        intros _. unfold hold. rewrite F1, F2, F3, F4. split; [exact Jo|]. lia.
      * apply J_frame with s; simpl; auto.
  - destruct He as [i x Hi Hcl | i Hi Hcl | k t v rest Hb | k v w eof a rest Hb Hcap Hcl Hw Hc Hs0 | |
                   | w a todo Hw Hc | Hcl Had Hcd | t Ht].
    + apply J_frame with s; simpl; auto.
    + apply J_frame with s; simpl; auto.
    + (* somebody receives from out k *)
      apply J_frame with s; simpl; auto.
      * destruct (Nat.eq_dec 1 k) as [<-|Hne]; [rewrite upd_same|rewrite upd_other by exact Hne]; reflexivity.
      * unfold made at 1. simpl. apply (made_move s k (t, v) rest Hb).
      * rewrite (len_upd_snoc' 0). lia.
    + (* rendezvous *)
      destruct w as [|[|w]]; [| |simpl in Hw; lia].
      * assert (k = 1) by (eapply pacer_sends_tok; eauto). subst k.
        apply J_frame with s; simpl; auto. rewrite (len_upd_snoc' 0). lia.
      * rewrite Hc in HD. inversion HD; subst; destruct Hs0 as [Hx|Hx]; try discriminate.
        inversion Hx; subst.
        intros Hcn. simpl in Hcn. destruct (HJ Hcn) as [Jo Jl]. split; simpl; [exact Jo|].
        unfold made, hold in *. simpl. upd_simpl. simpl. rewrite app_length. rewrite Hc in Jl. simpl in *. lia.
    + exact HJ.
    + intros Hcn. simpl in Hcn. discriminate.
    + destruct w as [|[|w]]; [| |simpl in Hw; lia].
      * apply J_frame with s; simpl; auto.
      * rewrite Hc in HD. inversion HD.
    + simpl in Hcl. discriminate.
    + apply J_frame with s; simpl; auto.
Qed.

Theorem J_reachable s : reachable c s -> J s.
Proof.
  apply (reachable_inv_strong c J); [|intros; eapply J_step; eauto].
  intros _. unfold made, hold. simpl. split; auto.
Qed.

(* DELIVERIES <= TOKENS: before cancel the token channel is open and every delivery has consumed a token *)
Theorem deliveries_le_tokens s :
  reachable c s -> cancelled s = false ->
  cclosed (outs s 1) = false /\ made s + hold s <= length (rcvd s 1) /\ length (rcvd s 1) <= tokens s.
Proof.
  intros Hr Hcn. destruct (J_reachable s Hr Hcn) as [A B]. repeat split; auto. unfold tokens. lia.
Qed.

(* the rate of the deliveries, for any clock advance policy *)
Theorem deliveries_rate s :
  reachable c s -> cancelled s = false -> (0 < interval)%N ->
  (N.of_nat (made s) <= N.of_nat ops * (now s / interval + 1))%N.
Proof.
  intros Hr Hcn Hiv. destruct (deliveries_le_tokens s Hr Hcn) as (_ & A & B).
  eapply N.le_trans; [|apply (tokens_rate ops interval icaps ocaps s Hr Hiv)]. lia.
Qed.

End Deliver.
