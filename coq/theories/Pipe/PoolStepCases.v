(* [step_effect] forgets which event was taken.  Here the case analysis keeps the worker steps apart
   (with the [step_worker] equation, for the few arguments that need the guard of a select and not
   only its effect) from the effects of the environment / gate / closer / clock events. *)
From Coq Require Import List ZArith NArith Bool Arith PeanoNat Lia.
From Golem Require Import Pipe.Pool Pipe.PoolEffects Pipe.PoolSteps.
Import ListNotations.

Section Cases.
Variable c : cfg.

(* [seffect] without the worker steps *)
Inductive eeffect (s : state) : state -> Prop :=
| EE_sent i x :
    i < nins c -> cclosed (ins s i) = false ->
    eeffect s (mkS (upd (ins s) i (push (ins s i) (0, x))) (outs s) (cancelled s) (ws s)
                   (closer_done s) (panicked s) (now s) (upd (sent s) i (sent s i ++ [x])) (consumed s) (rcvd s))
| EE_closein i :
    i < nins c -> cclosed (ins s i) = false ->
    eeffect s (mkS (upd (ins s) i (close (ins s i))) (outs s) (cancelled s) (ws s)
                   (closer_done s) (panicked s) (now s) (sent s) (consumed s) (rcvd s))
| EE_rcvd k t v rest :
    cbuf (outs s k) = (t, v) :: rest ->
    eeffect s (mkS (ins s) (upd (outs s) k (pop (outs s k))) (cancelled s) (ws s)
                   (closer_done s) (panicked s) (now s) (sent s) (consumed s)
                   (upd (rcvd s) k (rcvd s k ++ [(t, v)])))
| EE_rdv k v w eof a rest :
    cbuf (outs s k) = [] -> ccap (outs s k) = 0 -> cclosed (outs s k) = false ->
    w < par c -> wc (ws s w) = WRun eof (a :: rest) -> sends_on a k v ->
    eeffect s (mkS (ins s) (outs s) (cancelled s) (upd (ws s) w (with_ctl (ws s w) (WRun eof rest)))
                   (closer_done s) (panicked s) (now s) (sent s) (consumed s)
                   (upd (rcvd s) k (rcvd s k ++ [(w, v)])))
| EE_same : eeffect s s
| EE_cancel :
    eeffect s (mkS (ins s) (outs s) true (ws s) (closer_done s) (panicked s) (now s) (sent s) (consumed s) (rcvd s))
| EE_ret w a todo :
    w < par c -> wc (ws s w) = WCall a todo ->
    eeffect s (set_w s w (with_ctl (ws s w) (WRun false todo)))
| EE_closer :
    closer c = true -> all_done c s = true -> closer_done s = false ->
    eeffect s (let s1 := close_all s (closes c) in
               mkS (ins s1) (outs s1) (cancelled s1) (ws s1) true (panicked s1) (now s1) (sent s1) (consumed s1) (rcvd s1))
| EE_advance t :
    (now s < t)%N ->
    eeffect s (mkS (ins s) (outs s) (cancelled s) (ws s) (closer_done s) (panicked s) t (sent s) (consumed s) (rcvd s)).

Lemma step_cases s e s' :
  step c s e = Some s' ->
  panicked s = false /\
  ((exists w ch, e = EW w ch /\ w < par c /\ step_worker c s w ch = Some s') \/ eeffect s s').
Proof.
  unfold step. destruct (panicked s) eqn:Ep; [discriminate|]. intros H. split; [reflexivity|].
  clear Ep. unfold step_ok in H.
  destruct e as [i x|i|k v|k| |w ch|w| |t].
  - right. destruct (Nat.ltb i (nins c)) eqn:Ei; simpl in H; [|discriminate]. apply Nat.ltb_lt in Ei.
    destruct (cclosed (ins s i)) eqn:Ecl; [discriminate|].
    destruct (in_room c s i); [|discriminate]. inversion H; subst. apply EE_sent; auto.
  - right. destruct (Nat.ltb i (nins c)) eqn:Ei; simpl in H; [|discriminate]. apply Nat.ltb_lt in Ei.
    destruct (cclosed (ins s i)) eqn:Ecl; [discriminate|]. inversion H; subst. apply EE_closein; auto.
  - right. destruct (cbuf (outs s k)) as [|[t v'] rest] eqn:Eb.
    + destruct (Nat.eqb (ccap (outs s k)) 0 && negb (cclosed (outs s k))) eqn:E0; [|discriminate].
      apply andb_prop in E0. destruct E0 as [E1 E2]. apply Nat.eqb_eq in E1. apply negb_true_iff in E2.
      destruct (find_sender s k v (par c)) as [w|] eqn:Ef; [|discriminate].
      destruct (find_sender_spec _ _ _ _ _ Ef) as (Hw & eof & a & rest & Hc & Hs).
      inversion H; subst. unfold after_send. rewrite Hc. eapply EE_rdv; eauto.
    + destruct (Z.eqb v v') eqn:Ev; [|discriminate]. apply Z.eqb_eq in Ev. subst.
      inversion H; subst. eapply EE_rcvd; eauto.
  - right. destruct (cbuf (outs s k)); [|discriminate]. destruct (cclosed (outs s k)); [|discriminate].
    inversion H; subst. apply EE_same.
  - right. inversion H; subst. apply EE_cancel.
  - left. destruct (Nat.ltb w (par c)) eqn:Ew; [|discriminate]. apply Nat.ltb_lt in Ew.
    exists w, ch. auto.
  - right. destruct (Nat.ltb w (par c)) eqn:Ew; [|discriminate]. apply Nat.ltb_lt in Ew.
    destruct (wc (ws s w)) eqn:Ec; try discriminate. inversion H; subst. eapply EE_ret; eauto.
  - right. destruct (closer c && all_done c s && negb (closer_done s)) eqn:E0; [|discriminate].
    apply andb_prop in E0. destruct E0 as [E0 E3]. apply andb_prop in E0. destruct E0 as [E1 E2].
    apply negb_true_iff in E3. inversion H; subst. apply EE_closer; auto.
  - right. destruct (N.ltb (now s) t) eqn:Et; [|discriminate]. apply N.ltb_lt in Et.
    inversion H; subst. apply EE_advance; auto.
Qed.

(* a worker step touches nobody else's record, nor cancel, nor the clock *)
Lemma weffect_frame s w s' :
  weffect c s w s' ->
  cancelled s' = cancelled s /\ now s' = now s /\ (forall w', w' <> w -> ws s' w' = ws s w').
Proof.
  intros He.
  destruct He as [i a t rest Hsrc Hc Hb | Hsrc Hc | i Hsrc Hc Hb Hcl | ctl' Hcn Hdue Hsl Hsls
                 | eof a k0 v rest Hc Hs0 Hcl | eof k0 t r rest Hc Hb | dropped Hp Hnd Hnr Hnc Hwhy
                 | eof a k0 v rest Hc Hs0 Hcl];
    try (simpl; repeat split; auto; intros w' Hne; rewrite upd_other by exact Hne; reflexivity).
  unfold finish. destruct (closer c).
  - simpl; repeat split; auto; intros w' Hne; rewrite upd_other by exact Hne; reflexivity.
  - set (s1 := set_w s w _).
    destruct (close_all_frame s1 (wcloses c w)) as (_ & Hws & Hcn & _ & Hn & _). cbv zeta in Hws, Hcn, Hn.
    rewrite Hws, Hcn, Hn. unfold s1. simpl. repeat split; auto.
    intros w' Hne; rewrite upd_other by exact Hne; reflexivity.
Qed.

(* the guard of a token receive: with the token channel open and no cancel, the only step of a goroutine
   standing at `select { case <-out_k: case <-Done }` is to take a token that is there *)
Lemma step_worker_tok s w ch s' eof k rest :
  step_worker c s w ch = Some s' ->
  wc (ws s w) = WRun eof (ATok k :: rest) -> cclosed (outs s k) = false -> cancelled s = false ->
  exists t r, cbuf (outs s k) = t :: r /\
    s' = mkS (ins s) (upd (outs s) k (pop (outs s k))) (cancelled s)
             (upd (ws s) w (with_ctl (ws s w) (WRun eof rest)))
             (closer_done s) (panicked s) (now s) (sent s) (consumed s)
             (upd (rcvd s) k (rcvd s k ++ [t])).
Proof.
  intros H Hc Hcl Hcn. unfold step_worker in H. rewrite Hc, Hcl, Hcn in H.
  destruct (cbuf (outs s k)) as [|t r] eqn:Eb; simpl in H; [discriminate|].
  inversion H; subst. exists t, r. rewrite Hcn. split; reflexivity.
Qed.

(* the guard of a send: the value goes out only if there is room *)
Lemma step_worker_room s w ch s' eof a k v rest :
  step_worker c s w ch = Some s' -> wc (ws s w) = WRun eof (a :: rest) -> sends_on a k v ->
  (has_room (outs s k) = true /\ cclosed (outs s k) = false /\
   s' = set_w (set_out s k (push (outs s k) (w, v))) w (with_ctl (ws s w) (WRun eof rest))) \/
  s' = set_panic s \/ s' = finish c s w (a :: rest).
Proof.
  intros H Hc [->| ->]; unfold step_worker in H; rewrite Hc in H.
  - destruct (has_room (outs s k)) eqn:Er, (cclosed (outs s k)) eqn:Ecl, (cancelled s), ch;
      simpl in H; inversion H; auto.
  - destruct (cclosed (outs s k)) eqn:Ecl, (has_room (outs s k)) eqn:Er; simpl in H; inversion H; auto.
Qed.

End Cases.
