(* ERR: the plain (non-select) sends of the stages never block: the fail-fast error hand-off
   `exx <- err` and Fold's `done <- acc` always find their channel empty, so a capacity >= 1
   (which errch / make(chan A, 1) give) is enough.  Hence they cannot keep a goroutine alive. *)
From Coq Require Import List ZArith NArith Bool Arith PeanoNat Lia.
From Golem Require Import Base.Lists Pipe.Pool Pipe.Stages Pipe.PoolEffects Pipe.PoolSteps Pipe.PoolInv Pipe.PoolInv2
     Pipe.PoolSafe Pipe.PoolClosed Pipe.PoolStop Pipe.PoolLive Pipe.PoolSimple Pipe.PoolSeq Pipe.PoolStateless
     Pipe.PoolStages Pipe.PoolStages2.
Import ListNotations.
Open Scope nat_scope.

(* capacities never change *)
Section Caps.
Variable c : cfg.
Definition caps_ok (s : state) : Prop := forall k, ccap (outs s k) = out_caps c k.

Lemma caps_same s s' : (forall k, ccap (outs s' k) = ccap (outs s k)) -> caps_ok s -> caps_ok s'.
Proof. intros H HI k. rewrite H. apply HI. Qed.

Theorem caps_reachable s : reachable c s -> caps_ok s.
Proof.
  apply reachable_inv; [intros k; reflexivity|].
  intros s0 e s' HI Hs. destruct (step_effect c s0 e s' Hs) as [_ He].
  destruct He as [i x Hi Hcl | i Hi Hcl | k t v rest Hb | k v w eof a rest Hb Hcap Hcl Hw Hc Hs0 | | | w s'' Hw He
                 | w a todo Hw Hc | Hcl Had Hcd | t Ht]; try (apply caps_same with s0; auto; fail).
  - apply caps_same with s0; auto. intros k'. simpl. destruct (Nat.eq_dec k' k) as [->|Hne]; upd_simpl; auto.
  - destruct He as [i a t rest Hsrc Hc Hb | Hsrc Hc | i Hsrc Hc Hb Hcl | ctl' Hcn Hdue Hsl Hsls
                   | eof a k0 v rest Hc Hs0 Hcl | eof k0 t r rest Hc Hb | dropped Hp Hnd Hnr Hnc Hwhy | eof a k0 v rest Hc Hs0 Hcl];
      try (apply caps_same with s0; auto; fail).
    + apply caps_same with s0; auto. intros k. simpl. destruct (Nat.eq_dec k k0) as [->|Hne]; upd_simpl; auto.
    + apply caps_same with s0; auto. intros k. simpl. destruct (Nat.eq_dec k k0) as [->|Hne]; upd_simpl; auto.
    + apply caps_same with s0; auto. intros k. unfold finish. destruct (closer c); auto.
      apply (close_all_frame (set_w s0 w _) (wcloses c w)).
  - apply caps_same with s0; auto. intros k. simpl. apply (close_all_frame s0 (closes c)).
Qed.
End Caps.

Lemma app_eq_one {A} (a b : list A) x : a ++ b = [x] -> (a = [] /\ b = [x]) \/ (a = [x] /\ b = []).
Proof. destruct a as [|y a]; simpl; intros H; [left; auto|]. inversion H; subst. destruct a; [|discriminate]. right. auto. Qed.

Section StatelessErr.
Variable c : cfg.
Variable g : val -> list act.
Variable k : nat.
Hypothesis Hpar : par c = 1.
Hypothesis Hsrc : src c 0 = SIn 0.
Hypothesis Hplan : forall l a, plan c 0 l a = (g a, l).
Hypothesis Heof : forall l, on_eof c 0 l = [].
Hypothesis Hpre : pre c 0 (l0 c 0) = true.
(* channel k is written only by code that then returns, and at most once *)
Hypothesis Hk : forall a, has_stop (g a) = false -> emits k (g a) = [].
Hypothesis Hone : forall a, length (emits k (g a)) <= 1.

Lemma flat_nostop xs : existsb (fun a => has_stop (g a)) xs = false -> flat_map (fun a => emits k (g a)) xs = [].
Proof.
  induction xs as [|x xs IH]; simpl; auto. intros H. apply orb_false_elim in H. destruct H as [H1 H2].
  rewrite (Hk x H1), IH; auto.
Qed.

Theorem errchan_empty_when_sending s eof e rest :
  reachable c s -> wc (ws s 0) = WRun eof (APlain k e :: rest) ->
  cbuf (outs s k) = [] /\ delivered s k = [].
Proof.
  intros Hr Hc. pose proof (seq_stream c Hpar s k Hr) as A. pose proof (Kinv_reachable c s Hr 0) as K.
  rewrite (sl_full_spec c g Hplan Heof) in A. rewrite Hc in A. simpl in A. rewrite Nat.eqb_refl in A.
  destruct eof.
  - (* after the loop: there is no code after the loop *)
    assert (He : weof (ws s 0) = true) by (apply (k_eofrun c s 0 K); rewrite Hc; reflexivity).
    pose proof (k_eof c s 0 K He) as Hs. rewrite (sl_stopped c g Hplan) in Hs. rewrite (flat_nostop _ Hs) in A.
    destruct (delivered s k); destruct (map snd (cbuf (outs s k))); discriminate.
  - destruct (k_plan c s 0 K) as [(T & P & _)|(xs & a & T & S & _)]; [rewrite Hc; reflexivity|congruence|].
    rewrite (sl_stopped c g Hplan) in S. rewrite T, flat_map_app, (flat_nostop _ S) in A. simpl in A. rewrite app_nil_r in A.
    pose proof (Hone a) as Hl. rewrite <- A in Hl. rewrite !app_length in Hl. simpl in Hl.
    destruct (delivered s k) as [|d ds]; [|simpl in Hl; lia].
    destruct (cbuf (outs s k)) as [|b bs]; [auto|simpl in Hl; lia].
Qed.

Theorem errchan_has_room s eof e rest :
  reachable c s -> 1 <= out_caps c k -> wc (ws s 0) = WRun eof (APlain k e :: rest) -> has_room (outs s k) = true.
Proof.
  intros Hr Hcap Hc. destruct (errchan_empty_when_sending s eof e rest Hr Hc) as [Hb _].
  unfold has_room. rewrite Hb, (caps_reachable c s Hr k). simpl. apply Nat.ltb_lt. lia.
Qed.
End StatelessErr.

(* Map / FMap under Lift: `exx <- err` never blocks when cap(exx) >= 1 (errch gives 1) *)
Theorem map_err_never_blocks (f : Z -> res) icaps ocaps s eof e rest :
  let c := map_cfg f false icaps ocaps in
  reachable c s -> (1 <= nth_cap ocaps 1)%nat -> wc (ws s 0) = WRun eof (APlain 1 e :: rest) -> has_room (outs s 1) = true.
Proof.
  intros c Hr Hcap Hc.
  apply (errchan_has_room c (map_code f false) 1 eq_refl (fun _ _ => eq_refl) (fun _ => eq_refl) eq_refl) with (eof := eof) (e := e) (rest := rest); auto.
  - intros a. unfold map_code, catch. destruct (f a); simpl; auto. discriminate.
  - intros a. unfold map_code, catch. destruct (f a); simpl; auto.
Qed.

Theorem fmap_err_never_blocks (f : Z -> list Z * option Z) icaps ocaps s eof e rest :
  let c := fmap_cfg f false icaps ocaps in
  reachable c s -> (1 <= nth_cap ocaps 1)%nat -> wc (ws s 0) = WRun eof (APlain 1 e :: rest) -> has_room (outs s 1) = true.
Proof.
  intros c Hr Hcap Hc.
  apply (errchan_has_room c (fmap_code f false) 1 eq_refl (fmap_plan f false icaps ocaps) (fun _ => eq_refl) eq_refl)
    with (eof := eof) (e := e) (rest := rest); auto.
  - intros a. unfold fmap_code, catch. destruct (f a) as [vs [e'|]]; rewrite has_stop_sends0, emits_sends0; simpl; auto. discriminate.
  - intros a. unfold fmap_code, catch. destruct (f a) as [vs [e'|]]; rewrite emits_sends0; simpl; auto.
Qed.

(* Fold: `done <- acc` never blocks when cap(done) >= 1 (make(chan A, 1)) *)
Theorem fold_done_never_blocks combine empty icaps ocaps s eof v rest :
  let c := fold_cfg combine empty icaps ocaps in
  reachable c s -> (1 <= nth_cap ocaps 0)%nat -> wc (ws s 0) = WRun eof (APlain 0 v :: rest) -> has_room (outs s 0) = true.
Proof.
  intros c Hr Hcap Hc. pose proof (seq_stream c eq_refl s 0 Hr) as A.
  rewrite (fold_full_spec combine empty icaps ocaps) in A. rewrite Hc in A. simpl in A.
  assert (Hb : cbuf (outs s 0) = []).
  { destruct (weof (ws s 0)).
    - destruct (delivered s 0) as [|d ds]; [|inversion A; destruct ds; destruct (map snd (cbuf (outs s 0))); discriminate].
      destruct (cbuf (outs s 0)) as [|b bs]; auto. simpl in A. inversion A. destruct (map snd bs); discriminate.
    - destruct (delivered s 0); destruct (map snd (cbuf (outs s 0))); discriminate. }
  unfold has_room. rewrite Hb, (caps_reachable c s Hr 0). simpl. apply Nat.ltb_lt. exact Hcap.
Qed.
