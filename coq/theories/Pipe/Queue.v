(* C08 layer 1 - the linked queue of pipe/queue.go WITH POINTERS. Executable definitions only
   (proofs: QueueProofs.v).

     type queue[A] struct { head, tail *q[A]; pool sync.Pool }      type q[A] struct { value *A; next *q[A] }

   The heap is a list of nodes, a pointer is an index into it ([None] = nil). sync.Pool is a free list from
   which Get may hand out ANY node that was Put before, or a fresh one: the choice is an explicit argument
   of [enq] (type [pick]), so every statement quantified over it covers whatever sync.Pool does (a pooled
   node that the runtime drops is simply never picked again). Note that [deq] does NOT clear the [next]
   field of the node it releases: pooled nodes keep stale pointers into the chain. *)
From Coq Require Import List Arith ZArith Bool.
Import ListNotations.

Definition id := nat.
Record node := mknode { value : Z; next : option id }.
Record queue := mkq {
  heap : list node;          (* every node ever allocated; id = position *)
  qhead : option id;
  qtail : option id;
  pool : list id             (* nodes handed to pool.Put and not handed out again *)
}.

Inductive pick := PFresh | PPool (k : nat).   (* pool.Get(): pool.New(), or the k-th pooled node *)

Definition hget (h : list node) (i : id) : node := nth i h (mknode 0 None).
Fixpoint hset (h : list node) (i : id) (n : node) : list node :=
  match h, i with
  | [], _ => []
  | _ :: r, O => n :: r
  | x :: r, S j => x :: hset r j n
  end.
Definition remove_at {X} (k : nat) (l : list X) : list X := firstn k l ++ skipn (S k) l.

(* queue := &queue[A]{} ; queue.pool.New = ... *)
Definition newq : queue := mkq [] None None [].

(* val := queue.pool.Get() as *q[A] *)
Definition pool_get (c : pick) (q : queue) : id * queue :=
  match c with
  | PPool k =>
      match nth_error (pool q) k with
      | Some i => (i, mkq (heap q) (qhead q) (qtail q) (remove_at k (pool q)))
      | None => (length (heap q), mkq (heap q ++ [mknode 0 None]) (qhead q) (qtail q) (pool q))
      end
  | PFresh => (length (heap q), mkq (heap q ++ [mknode 0 None]) (qhead q) (qtail q) (pool q))
  end.

Definition enq (x : Z) (c : pick) (q0 : queue) : queue :=
  let (val, q) := pool_get c q0 in                         (* val := queue.pool.Get() as *q[A]          *)
  let h1 := hset (heap q) val (mknode x None) in           (* val.value = x ; val.next = nil           *)
  let h2 := match qtail q with                             (* if queue.tail != nil {                   *)
            | Some t => hset h1 t (mknode (value (hget h1 t)) (Some val))   (*   queue.tail.next = val } *)
            | None => h1
            end in
  let tl := Some val in                                    (* queue.tail = val                         *)
  let hd := match qhead q with None => Some val | Some h => Some h end in  (* if queue.head == nil { queue.head = val } *)
  mkq h2 hd tl (pool q).

(* None = nil dereference (deq of an empty queue: the pump never does it) *)
Definition deq (q : queue) : option (Z * queue) :=
  match qhead q with
  | None => None
  | Some val =>                                            (* val := queue.head                        *)
      let hd := next (hget (heap q) val) in                (* queue.head = val.next                    *)
      let tl := match qtail q with                         (* if val == queue.tail { queue.tail = nil }*)
                | Some t => if Nat.eqb val t then None else Some t
                | None => None
                end in
      Some (value (hget (heap q) val),                     (* return val.value                         *)
            mkq (heap q) hd tl (val :: pool q))            (* queue.pool.Put(val)                      *)
  end.

(* if queue.head == nil { return *new(A) } ; return *queue.head.value *)
Definition headv (q : queue) : Z :=
  match qhead q with None => 0%Z | Some h => value (hget (heap q) h) end.

(* emit: nil channel iff queue.head == nil; [true] = the real channel is returned *)
Definition emit (q : queue) : bool :=
  match qhead q with None => false | Some _ => true end.

(* abstraction: the values met walking [next] from [head]; fuel = number of allocated nodes *)
Fixpoint walk (fuel : nat) (h : list node) (o : option id) : list Z :=
  match fuel, o with
  | S f, Some i => value (hget h i) :: walk f h (next (hget h i))
  | _, _ => []
  end.
Definition absq (q : queue) : list Z := walk (length (heap q)) (heap q) (qhead q).

(* ---- histories ---- *)
Inductive qop := OEnq (x : Z) (c : pick) | ODeq | OHead | OEmit.
Inductive qres := RUnit | RVal (v : Z) | RBool (b : bool) | RNilDeref.

Definition qstep (q : queue) (o : qop) : queue * qres :=
  match o with
  | OEnq x c => (enq x c q, RUnit)
  | ODeq => match deq q with Some (v, q') => (q', RVal v) | None => (q, RNilDeref) end
  | OHead => (q, RVal (headv q))
  | OEmit => (q, RBool (emit q))
  end.
Fixpoint qrun (q : queue) (ops : list qop) : list qres :=
  match ops with [] => [] | o :: r => let (q', res) := qstep q o in res :: qrun q' r end.

(* the same history on the specification: a plain list *)
Definition lstep (l : list Z) (o : qop) : list Z * qres :=
  match o with
  | OEnq x _ => (l ++ [x], RUnit)
  | ODeq => match l with v :: r => (r, RVal v) | [] => (l, RNilDeref) end
  | OHead => (l, RVal (hd 0%Z l))
  | OEmit => (l, RBool (negb (match l with [] => true | _ => false end)))
  end.
Fixpoint lrun (l : list Z) (ops : list qop) : list qres :=
  match ops with [] => [] | o :: r => let (l', res) := lstep l o in res :: lrun l' r end.
