(* C17 - Built-in Eq/Ord instances, ContraMap and Monoid constructors obey their laws.
   Nothing but the property theorems.  The definitions eq_*, ord_*, semigroup_*, monoid_* are regenerated
   from /repo/pure/{eq,ord,semigroup,monoid} on every run (coq/gen/GenPure.v): one per method / constructor;
   Go's == and < on the instance's type are the parameters [go_eq] / [go_lt] (for int: Z.eqb / Z.ltb, for
   string: bytewise equality / lexicographic order, Pure/Prelude.v). *)
From Coq Require Import ZArith Bool List.
From Golem Require Import Pure.Prelude Pure.Laws.
From GolemGen Require Import GenPure.
Import ListNotations.
Open Scope Z_scope.

(* eq.Int / eq.String agree with == *)
Theorem C17_eq_is_builtin : forall (T : Type) (go_eq : T -> T -> bool) (a b : T), eq_eq_Equal go_eq a b = go_eq a b.
Proof. exact @eq_is_builtin. Qed.
Print Assumptions C17_eq_is_builtin.
Theorem C17_eq_int : forall a b : Z, eq_eq_Equal Z.eqb a b = true <-> a = b.
Proof. exact eq_int_spec. Qed.
Print Assumptions C17_eq_int.
Theorem C17_eq_string : forall a b : gostring, eq_eq_Equal str_eqb a b = true <-> a = b.
Proof. exact eq_string_spec. Qed.
Print Assumptions C17_eq_string.
(* ... and form an equivalence *)
Theorem C17_eq_equivalence : forall (T : Type) (go_eq : T -> T -> bool),
  (forall a b, go_eq a b = true <-> a = b) ->
  (forall a, eq_eq_Equal go_eq a a = true) /\
  (forall a b, eq_eq_Equal go_eq a b = eq_eq_Equal go_eq b a) /\
  (forall a b c, eq_eq_Equal go_eq a b = true -> eq_eq_Equal go_eq b c = true -> eq_eq_Equal go_eq a c = true).
Proof. exact @eq_equivalence. Qed.
Print Assumptions C17_eq_equivalence.

(* ord.Int / ord.String return LT (-1), EQ (0), GT (1) exactly as the built-in ordering does *)
Theorem C17_ord_values : ord_LT = -1 /\ ord_EQ = 0 /\ ord_GT = 1.
Proof. exact ord_values. Qed.
Print Assumptions C17_ord_values.
Theorem C17_ord_int : forall a b : Z,
  (ord_ord_Compare Z.ltb a b = ord_LT <-> a < b) /\
  (ord_ord_Compare Z.ltb a b = ord_GT <-> b < a) /\
  (ord_ord_Compare Z.ltb a b = ord_EQ <-> a = b).
Proof. exact ord_int_spec. Qed.
Print Assumptions C17_ord_int.
Theorem C17_ord_string : forall a b : gostring,
  (ord_ord_Compare str_ltb a b = ord_LT <-> str_ltb a b = true) /\
  (ord_ord_Compare str_ltb a b = ord_GT <-> str_ltb b a = true) /\
  (ord_ord_Compare str_ltb a b = ord_EQ <-> a = b).
Proof. exact ord_string_spec. Qed.
Print Assumptions C17_ord_string.

(* hence total, antisymmetric, transitive, and agreeing with Eq on EQ - for every strict total order given
   as the built-in < (int and string satisfy the premises: C17_int_is_total_order, C17_string_is_total_order) *)
Theorem C17_ord_total : forall (T : Type) (lt : T -> T -> bool) (a b : T),
  ord_ord_Compare lt a b = ord_LT \/ ord_ord_Compare lt a b = ord_EQ \/ ord_ord_Compare lt a b = ord_GT.
Proof. exact @ord_total. Qed.
Print Assumptions C17_ord_total.
Theorem C17_ord_antisym : forall (T : Type) (lt : T -> T -> bool),
  (forall a b, (lt a b = true /\ a <> b /\ lt b a = false) \/ (lt a b = false /\ a = b /\ lt b a = false) \/
               (lt a b = false /\ a <> b /\ lt b a = true)) ->
  forall a b, ord_ord_Compare lt a b = ord_LT <-> ord_ord_Compare lt b a = ord_GT.
Proof. exact @ord_antisym. Qed.
Print Assumptions C17_ord_antisym.
Theorem C17_ord_trans : forall (T : Type) (lt : T -> T -> bool),
  (forall a b c, lt a b = true -> lt b c = true -> lt a c = true) ->
  forall a b c, ord_ord_Compare lt a b = ord_LT -> ord_ord_Compare lt b c = ord_LT -> ord_ord_Compare lt a c = ord_LT.
Proof. exact @ord_trans. Qed.
Print Assumptions C17_ord_trans.
Theorem C17_ord_eq_agrees : forall (T : Type) (lt eqb : T -> T -> bool),
  (forall a b, (lt a b = true /\ a <> b /\ lt b a = false) \/ (lt a b = false /\ a = b /\ lt b a = false) \/
               (lt a b = false /\ a <> b /\ lt b a = true)) ->
  (forall a b, eqb a b = true <-> a = b) ->
  forall a b, ord_ord_Compare lt a b = ord_EQ <-> eq_eq_Equal eqb a b = true.
Proof. exact @ord_eq_agrees. Qed.
Print Assumptions C17_ord_eq_agrees.
Theorem C17_int_is_total_order :
  (forall a b : Z, (Z.ltb a b = true /\ a <> b /\ Z.ltb b a = false) \/ (Z.ltb a b = false /\ a = b /\ Z.ltb b a = false) \/
                   (Z.ltb a b = false /\ a <> b /\ Z.ltb b a = true)) /\
  (forall a b c : Z, Z.ltb a b = true -> Z.ltb b c = true -> Z.ltb a c = true).
Proof. exact (conj int_trichotomy int_lt_trans). Qed.
Print Assumptions C17_int_is_total_order.
Theorem C17_string_is_total_order :
  (forall a b : gostring, (str_ltb a b = true /\ a <> b /\ str_ltb b a = false) \/ (str_ltb a b = false /\ a = b /\ str_ltb b a = false) \/
                          (str_ltb a b = false /\ a <> b /\ str_ltb b a = true)) /\
  (forall a b c : gostring, str_ltb a b = true -> str_ltb b c = true -> str_ltb a c = true).
Proof. exact (conj str_trichotomy str_ltb_trans). Qed.
Print Assumptions C17_string_is_total_order.

(* ContraMap: exactly the base instance on the projected values, in argument order *)
Theorem C17_contramap_eq : forall (A B : Type) (base : A -> A -> bool) (f : B -> A) (a b : B),
  eq_ContraMap_Equal f base a b = base (f a) (f b).
Proof. exact @eq_contramap_spec. Qed.
Print Assumptions C17_contramap_eq.
Theorem C17_contramap_ord : forall (A B : Type) (base : A -> A -> Z) (f : B -> A) (a b : B),
  ord_ContraMap_Compare f base a b = base (f a) (f b).
Proof. exact @ord_contramap_spec. Qed.
Print Assumptions C17_contramap_ord.

(* From wrappers return exactly what the wrapped function returns *)
Theorem C17_from_eq : forall (T : Type) (f : T -> T -> bool) (a b : T), eq_From_Equal f a b = f a b.
Proof. exact @eq_from_spec. Qed.
Print Assumptions C17_from_eq.
Theorem C17_from_ord : forall (T : Type) (f : T -> T -> Z) (a b : T), ord_From_Compare f a b = f a b.
Proof. exact @ord_from_spec. Qed.
Print Assumptions C17_from_ord.
Theorem C17_from_semigroup : forall (T : Type) (f : T -> T -> T) (a b : T), semigroup_From_Combine f a b = f a b.
Proof. exact @semigroup_from_spec. Qed.
Print Assumptions C17_from_semigroup.

(* monoid.From / FromOp: Empty is the given element, Combine is the given operation with its arguments in order
   (a monoid value is the pair (Semigroup field, empty field); Combine is promoted from the Semigroup field) *)
Theorem C17_monoid_from : forall (T : Type) (e : T) (op : T -> T -> T),
  fst (monoid_From e op) = op /\ monoid_monoid_Empty (snd (monoid_From e op)) = e.
Proof. exact @monoid_from_spec. Qed.
Print Assumptions C17_monoid_from.
Theorem C17_monoid_fromop : forall (T : Type) (e : T) (op : T -> T -> T) (a b : T),
  semigroup_From_Combine (fst (monoid_FromOp e op)) a b = op a b /\ monoid_monoid_Empty (snd (monoid_FromOp e op)) = e.
Proof. exact @monoid_fromop_spec. Qed.
Print Assumptions C17_monoid_fromop.
