(* C15 - Key-value iterator combinators keep list semantics and key/value pairing.
   Nothing but the property theorems: each closed by [exact] of a lemma of Iter/PairProofs.v and
   followed by Print Assumptions.  They are about the operational model Iter/PairModel.v
   ([pbuild]/[sbuild] = the Go constructors, [pnext]/[snext] = the Next() methods, [key]/[pvalue] =
   Key()/Value() of the iterator object, [pdrain] = the documented loop reading (Key(), Value()) at
   every position, [pforeach] = pair.ForEach); [pden]/[sden] are the list denotations of the two
   expression sorts [pe] : pair.Seq and [se] : seq.Seq (sources and ToSeq results).
   The model is tied to /repo/trait/pair/pair.go by the differential run of ./check C15. *)
From Coq Require Import List ZArith.
From Golem Require Import Iter.PairModel Iter.PairProofs.
Import ListNotations.
Open Scope Z_scope.

(* For EVERY pair expression (any depth, any mixing of pair and plain seq through ToSeq / FromSeq, any
   nesting of join functions) there is enough fuel, and from then on the drained list of (Key(), Value())
   is exactly the list of pairs given by the list functions - predicates, mappings and join functions
   being applied to the key and the value of the same element. *)
Theorem C15_pair_drain_den : forall t : pe,
  exists N, forall n, (N <= n)%nat -> prun n t = Some (pden 0 0 t).
Proof. exact pair_drain_den. Qed.
Print Assumptions C15_pair_drain_den.

(* the same inside a join function called with any (a, b) *)
Theorem C15_pair_drain_den_env : forall (t : pe) (a b : Z),
  exists N, forall n, (N <= n)%nat -> exists i, pbuild n a b t = Some i /\ pdrain n i = Some (pden a b t).
Proof. exact pair_drain_den_env. Qed.
Print Assumptions C15_pair_drain_den_env.

(* expressions whose root is ToSeq (plain sequences of values) *)
Theorem C15_toseq_drain_den : forall t : se,
  exists N, forall n, (N <= n)%nat -> srun n t = Some (sden 0 0 t).
Proof. exact toseq_drain_den. Qed.
Print Assumptions C15_toseq_drain_den.

(* Map changes values but never keys *)
Theorem C15_pair_map_keys : forall (m : pmcode) (s : pe),
  exists N, forall n, (N <= n)%nat ->
    exists l l', prun n s = Some l /\ prun n (PMap m s) = Some l' /\
                 map fst l' = map fst l /\
                 map snd l' = map (fun e => interp_pm m (fst e) (snd e)) l.
Proof. exact pair_map_keys. Qed.
Print Assumptions C15_pair_map_keys.

(* ForEach with ANY callback over (number of earlier calls, (key, value)) sees [gupto f 0 (pden t)] and
   returns that error *)
Theorem C15_pair_foreach_first_error : forall (t : pe) (f : nat -> Z * Z -> option Z),
  exists N, forall n, (N <= n)%nat -> prun_foreach n f t = Some (gupto f 0%nat (pden 0 0 t)).
Proof. exact pair_foreach_first_error. Qed.
Print Assumptions C15_pair_foreach_first_error.

Theorem C15_toseq_foreach_first_error : forall (t : se) (f : nat -> Z -> option Z),
  exists N, forall n, (N <= n)%nat -> srun_foreach n f t = Some (gupto f 0%nat (sden 0 0 t)).
Proof. exact toseq_foreach_first_error. Qed.
Print Assumptions C15_toseq_foreach_first_error.

(* "stops at the first error": when the model's ForEach returns an error its iterator is the one the failing callback
   was called on - it shows the last element visited and no Next() was asked of it ([prun_foreach_st] is
   [prun_foreach] that also answers the iterator; the harness reads Key()/Value() of the real iterator at that
   point and Check/C15.v compares) *)
Theorem C15_pair_foreach_stops_at_error : forall (t : pe) (f : nat -> Z * Z -> option Z) n vs err j,
  prun_foreach_st n f t = Some (vs, Some err, j) ->
  prun_foreach n f t = Some (vs, Some err) /\
  vs <> [] /\ kv j = last vs (0, 0) /\ f (length vs - 1)%nat (kv j) = Some err.
Proof. exact pair_foreach_stops_at_error. Qed.
Print Assumptions C15_pair_foreach_stops_at_error.

Theorem C15_toseq_foreach_stops_at_error : forall (t : se) (f : nat -> Z -> option Z) n vs err j,
  srun_foreach_st n f t = Some (vs, Some err, j) ->
  srun_foreach n f t = Some (vs, Some err) /\
  vs <> [] /\ svalue j = last vs 0 /\ f (length vs - 1)%nat (svalue j) = Some err.
Proof. exact toseq_foreach_stops_at_error. Qed.
Print Assumptions C15_toseq_foreach_stops_at_error.

(* [gupto]: a prefix of the list in order; no error before the last element seen; the returned error is
   the one of the last call; without error the whole list was seen *)
Theorem C15_gupto_spec : forall (E : Type) (f : nat -> E -> option Z) l k vs o, gupto f k l = (vs, o) ->
  exists rest, l = vs ++ rest /\
  (forall j x, nth_error vs j = Some x -> S j < length vs -> f (k + j)%nat x = None)%nat /\
  match o with
  | Some err => exists x, nth_error vs (length vs - 1) = Some x /\ f (k + (length vs - 1))%nat x = Some err
  | None => rest = [] /\ forall j x, nth_error vs j = Some x -> f (k + j)%nat x = None
  end.
Proof. exact (@gupto_spec). Qed.
Print Assumptions C15_gupto_spec.

(* non-vacuity: the model computes; keys differ from values; a predicate on the key, a mapping of
   key - value, a nil-returning FromSeq function, ToSeq and FromSeq nested *)
Example C15_example_drain :
  let t := PMap MDiff (PFilter (OnKey (PLt 1003))
             (PPlus (PFromSeq FSTwo (SSlice [1; 2; 3])) (PFrom 1000 7))) in
  prun 100 t = Some [(1001, 1000); (1000, 993)] /\
  pden 0 0 t = [(1001, 1000); (1000, 993)].
Proof. vm_compute. split; reflexivity. Qed.

Example C15_example_bridge :
  let t := PFromSeqE (PJoin PJRepl PArg) (SToSeq TSKV (PFromSeq FSPair (SSlice [4; 5]))) in
  prun 100 t = Some [(2004, 1004); (2004, 1004); (1004, 4); (1005, 5); (1005, 5)] /\
  pden 0 0 t = [(2004, 1004); (2004, 1004); (1004, 4); (1005, 5); (1005, 5)].
Proof. vm_compute. split; reflexivity. Qed.

(* join functions answering nil for SOME elements (value 2) and otherwise a TakeWhile cut by a non-monotone
   predicate before the end of its input (a later element satisfies it again): Join and ToSeq *)
Example C15_example_nil_between :
  let t := PJoinE (PWhen (OnVal (PNe 2)) (PTakeW (OnVal (PMod 2 1)) (PFromSeq FSPair (SShift [0; 2; 1; 4]))))
                  (PFromSeq FSPair (SSlice [1; 2; 3])) in
  prun 100 t = Some [(1001, 1); (1003, 3); (1003, 3); (1005, 5)] /\
  pden 0 0 t = [(1001, 1); (1003, 3); (1003, 3); (1005, 5)].
Proof. vm_compute. split; reflexivity. Qed.

Example C15_example_nil_between_toseq :
  let t := SToSeqE (SWhen (OnKey (PIn [1001; 1004])) (SShift [0; 5])) (PFromSeq FSPair (SSlice [1; 2; 3; 4])) in
  srun 100 t = Some [1; 6; 4; 9] /\ sden 0 0 t = [1; 6; 4; 9].
Proof. vm_compute. split; reflexivity. Qed.

Example C15_example_foreach :
  prun_foreach 100 (fun k e => if Z.eqb (snd e) 2 then Some 55 else None)
               (PFromSeq FSPair (SSlice [1; 2; 3])) = Some ([(1001, 1); (1002, 2)], Some 55).
Proof. vm_compute. reflexivity. Qed.

Example C15_example_foreach_stops :
  match prun_foreach_st 100 (fun k e => if Z.eqb (snd e) 2 then Some 55 else None)
                        (PFilter (OnVal (PNe 7)) (PFromSeq FSPair (SSlice [1; 2; 3]))) with
  | Some (vs, o, j) => vs = [(1001, 1); (1002, 2)] /\ o = Some 55 /\ kv j = (1002, 2)
  | None => False
  end.
Proof. vm_compute. repeat split; reflexivity. Qed.
