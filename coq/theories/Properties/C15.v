(* C15 - placeholder while the pipeline is brought up; replaced by the real theorems *)
From Coq Require Import List ZArith.
From Golem Require Import Iter.PairModel.
Import ListNotations.
Open Scope Z_scope.

Theorem C15_example : prun 100 (PFilter (OnVal (PPar 1)) (PFromSeq FSPair (SSlice [1;2;3]))) = Some [(1001,1);(1003,3)].
Proof. vm_compute. reflexivity. Qed.
Print Assumptions C15_example.
