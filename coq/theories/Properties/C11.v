(* C11 - Unfold and Emit produce the exact successive sequence, paced, until cancelled.
   Nothing but the property theorems.  [unfold_cfg f try seed ocaps] / [emit_cfg freq f try ocaps]: one
   goroutine without input (Pipe/Stages.v plan_unfold / plan_emit, mirroring pipe.Unfold / pipe.Emit), any
   buffer capacities [ocaps]; the consumer's pace and the cancel point are part of the execution.
   Proved: the exact sequence; the lower bound on availability times for ANY clock advance policy
   (C11_emit_not_early); the upper bound "a consumer that keeps up receives one value per tick" under MAXIMAL
   PROGRESS (C11_emit_keeps_up and corollaries: the clock moves only in settled states - no internal step
   enabled, nothing receivable on the value / error channel - and never past a pending timer; no cancel.
   Pipe/PoolMaxProgress.v; this is the clock policy of the trace checker, C11_checker_clock_policy);
   closure after cancel. *)
From Coq Require Import List ZArith NArith.
From Golem Require Import Base.Lists Pipe.Pool Pipe.Stages Pipe.PoolSteps Pipe.PoolSafe Pipe.PoolLive Pipe.PoolSeq
     Pipe.PoolStages Pipe.PoolGen Pipe.PoolEmitTime Pipe.PoolGenCancel Pipe.PoolMaxProgress Pipe.PoolEmitPace.
From Golem Require Check.Pool Pipe.PoolMaxProgressCheck.
Import ListNotations.
Open Scope Z_scope.

(* Unfold with a function that does not fail: seed, h seed, h (h seed), ... - no gap, repeat or reordering *)
Theorem C11_unfold_exact : forall (h : Z -> Z) (try : bool) (seed : Z) (ocaps : list nat) (s : state),
  reachable (unfold_cfg (fun x => Ok (h x)) try seed ocaps) s ->
  exists n, prefix (delivered s 0) (iterate h seed n) /\ delivered s 1 = [].
Proof. exact unfold_total_exact. Qed.
Print Assumptions C11_unfold_exact.

(* Emit: f(0), f(1), f(2), ... skipping the indices that fail under Try *)
Theorem C11_emit_exact : forall (freq : N) (f : Z -> res) (try : bool) (ocaps : list nat) (s : state),
  reachable (emit_cfg freq f try ocaps) s ->
  exists n, prefix (delivered s 0) (ok_vals f (zrange 0 n)) /\ prefix (delivered s 1) (err_vals f (zrange 0 n)) /\
            (try = false -> existsb (is_err f) (zrange 0 (n - 1)) = false).
Proof. exact emit_prefix. Qed.
Print Assumptions C11_emit_exact.

(* pacing: k results (values or errors) available, received or buffered => k * frequency has elapsed.
   For every way the virtual clock advances - so in particular the k-th value is never available before k ticks *)
Theorem C11_emit_not_early : forall (freq : N) (f : Z -> res) (try : bool) (ocaps : list nat) (s : state),
  reachable (emit_cfg freq f try ocaps) s ->
  (N.of_nat (length (delivered s 0) + length (cbuf (outs s 0)) + length (delivered s 1) + length (cbuf (outs s 1))) * freq
   <= now s)%N.
Proof. exact emit_not_early. Qed.
Print Assumptions C11_emit_not_early.

(* ---- pacing, upper bound: MAXIMAL PROGRESS with a consumer that keeps up ----
   [mp_reachable c all_outs no_env s] ([all_outs]: every output has a consumer; [no_env]: no further obligation of the
   environment): s is reached by an execution of [step] in which every clock event [EAdvance t]
   happens in a [settled] state (= [quiescent]: no step of the goroutine enabled, and [no_receive_on]: the consumers
   of the value channel out 0 and of the error channel out 1 have taken everything available) and t does not
   exceed a pending timer deadline; no ECancel ([mp_allowed]).
   [rounds s] = loop iterations entered; [emit_calls s] = applications of f made (the application of iteration i
   follows its time.Sleep); [emit_sleeping s n]: the goroutine is in the time.Sleep of iteration n, due at (n+1)*freq. *)

(* (a)+(b): whenever the clock may move, Emit has made n calls with n*freq <= now < (n+1)*freq - call i (from 0)
   happens exactly at time (i+1)*freq - and EVERY result of these calls has been received: no gap.  Or (fail-fast
   only) it returned at its first failing index n, at time (n+1)*freq, everything received, both channels closed.
   For all capacities. *)
Theorem C11_emit_keeps_up : forall (freq : N) (f : Z -> res) (try : bool) (ocaps : list nat) (s : state),
  mp_reachable (emit_cfg freq f try ocaps) all_outs no_env s -> settled (emit_cfg freq f try ocaps) all_outs s ->
  (exists n : nat, emit_sleeping freq f try s n /\ emit_calls s = n /\
             (N.of_nat n * freq <= now s < (N.of_nat n + 1) * freq)%N /\
             delivered s 0 = ok_vals f (zrange 0 n) /\ delivered s 1 = err_vals f (zrange 0 n) /\
             (try = false -> existsb (is_err f) (zrange 0 n) = false))
  \/
  (exists (n : nat) (e : Z), wc (ws s 0) = WDone /\ emit_calls s = S n /\ try = false /\
               existsb (is_err f) (zrange 0 n) = false /\ f (Z.of_nat n) = Err e /\
               delivered s 0 = ok_vals f (zrange 0 n) /\ delivered s 1 = [e] /\
               ((N.of_nat n + 1) * freq <= now s)%N /\
               cclosed (outs s 0) = true /\ cclosed (outs s 1) = true).
Proof. exact emit_keeps_up. Qed.
Print Assumptions C11_emit_keeps_up.

(* the invariant behind it, for ALL maximal-progress states: where the goroutine stands <-> what time it is
   (top of the loop / after the sleep: now = rounds*freq; before the sleep: now = (rounds-1)*freq; in the sleep:
   deadline rounds*freq and (rounds-1)*freq <= now <= deadline; returned: rounds*freq <= now) *)
Theorem C11_emit_pace_invariant : forall (freq : N) (f : Z -> res) (try : bool) (ocaps : list nat) (s : state),
  mp_reachable (emit_cfg freq f try ocaps) all_outs no_env s -> pinv freq f try s.
Proof. exact pinv_mp_reachable. Qed.
Print Assumptions C11_emit_pace_invariant.

(* in the words of the property: at the instant k*freq, once its activity has settled, exactly k calls have been
   made and the results of all of them have been received: value f(i) at tick i+1, one per tick *)
Theorem C11_emit_one_per_tick : forall (freq : N) (f : Z -> res) (try : bool) (ocaps : list nat) (s : state) (k : nat),
  mp_reachable (emit_cfg freq f try ocaps) all_outs no_env s -> settled (emit_cfg freq f try ocaps) all_outs s ->
  (0 < freq)%N -> now s = (N.of_nat k * freq)%N ->
  (emit_calls s = k /\ delivered s 0 = ok_vals f (zrange 0 k) /\ delivered s 1 = err_vals f (zrange 0 k))
  \/
  (try = false /\ exists (n : nat) (e : Z), (n < k)%nat /\ existsb (is_err f) (zrange 0 n) = false /\ f (Z.of_nat n) = Err e /\
                              emit_calls s = S n /\ delivered s 0 = ok_vals f (zrange 0 n) /\ delivered s 1 = [e]).
Proof. exact emit_one_per_tick. Qed.
Print Assumptions C11_emit_one_per_tick.

Theorem C11_emit_one_per_tick_try : forall (freq : N) (f : Z -> res) (try : bool) (ocaps : list nat) (s : state) (k : nat),
  try = true ->
  mp_reachable (emit_cfg freq f try ocaps) all_outs no_env s -> settled (emit_cfg freq f try ocaps) all_outs s ->
  (0 < freq)%N -> now s = (N.of_nat k * freq)%N ->
  emit_calls s = k /\ delivered s 0 = ok_vals f (zrange 0 k) /\ delivered s 1 = err_vals f (zrange 0 k).
Proof. exact emit_one_per_tick_try. Qed.
Print Assumptions C11_emit_one_per_tick_try.

(* while Emit runs, the number of results received (values + errors) IS the number of elapsed ticks *)
Theorem C11_emit_rate : forall (freq : N) (f : Z -> res) (try : bool) (ocaps : list nat) (s : state),
  mp_reachable (emit_cfg freq f try ocaps) all_outs no_env s -> settled (emit_cfg freq f try ocaps) all_outs s ->
  (0 < freq)%N -> wc (ws s 0) <> WDone ->
  N.of_nat (length (delivered s 0) + length (delivered s 1)) = (now s / freq)%N.
Proof. exact emit_rate. Qed.
Print Assumptions C11_emit_rate.

(* non-vacuity: a concrete maximal-progress run (Try, frequency 3, unbuffered values, f(1) fails) reaches a settled
   state at time 9 with 3 calls made; a fail-fast run reaches the returned state; the policy refuses to jump over
   a deadline and to move the clock while a value waits in the buffer *)
Theorem C11_emit_keeps_up_nonvacuous :
  exists s, mp_reachable (emit_cfg 3 pace_ex_f true [0%nat; 1%nat]) all_outs no_env s /\
            settled (emit_cfg 3 pace_ex_f true [0%nat; 1%nat]) all_outs s /\
            now s = 9%N /\ emit_calls s = 3%nat /\ delivered s 0 = [0; 20] /\ delivered s 1 = [7].
Proof. exact emit_mp_example. Qed.
Print Assumptions C11_emit_keeps_up_nonvacuous.

Theorem C11_emit_keeps_up_nonvacuous_failfast :
  exists s, mp_reachable (emit_cfg 3 pace_ex_f false [0%nat; 1%nat]) all_outs no_env s /\
            settled (emit_cfg 3 pace_ex_f false [0%nat; 1%nat]) all_outs s /\
            now s = 100%N /\ wc (ws s 0) = WDone /\ emit_calls s = 2%nat /\ delivered s 0 = [0] /\ delivered s 1 = [7].
Proof. exact emit_mp_example_failfast. Qed.
Print Assumptions C11_emit_keeps_up_nonvacuous_failfast.

Theorem C11_mp_policy_bites :
  emit_mp_run 3 pace_ex_f true [0%nat; 1%nat] [EW 0 false; EW 0 false; EAdvance 4] = None /\
  emit_mp_run 3 pace_ex_f true [1%nat; 1%nat]
    [EW 0 false; EW 0 false; EAdvance 3; EW 0 false; EW 0 false; EW 0 false; EW 0 false; EW 0 false; EAdvance 6] = None.
Proof. exact (conj emit_mp_no_jump emit_mp_no_lag). Qed.
Print Assumptions C11_mp_policy_bites.

(* the same policy as the trace checker's: Check/Pool.v advances the clock only from states with no internal
   successor - exactly the quiescent ones - and never past the earliest deadline *)
Theorem C11_checker_clock_policy : forall (c : cfg) (s : state),
  panicked s = false -> (Golem.Check.Pool.succs c s = [] <-> quiescent c s).
Proof. exact PoolMaxProgressCheck.succs_nil_quiescent. Qed.
Print Assumptions C11_checker_clock_policy.

(* after cancel: in a state without enabled step (and, for Emit, no pending sleep) the generator has returned
   and both channels are closed - no receive needed *)
Theorem C11_unfold_stops_after_cancel : forall (f : Z -> res) (try : bool) (seed : Z) (ocaps : list nat) (s : state),
  let c := unfold_cfg f try seed ocaps in
  (try = false -> (1 <= nth_cap ocaps 1)%nat) ->
  reachable c s -> cancelled s = true -> quiescent c s ->
  wc (ws s 0) = WDone /\ cclosed (outs s 0) = true /\ cclosed (outs s 1) = true.
Proof. exact unfold_cancel_exit. Qed.
Print Assumptions C11_unfold_stops_after_cancel.

Theorem C11_emit_stops_after_cancel : forall (freq : N) (f : Z -> res) (try : bool) (ocaps : list nat) (s : state),
  let c := emit_cfg freq f try ocaps in
  (try = false -> (1 <= nth_cap ocaps 1)%nat) ->
  reachable c s -> cancelled s = true -> quiescent c s ->
  (forall u sel eof rest, wc (ws s 0) <> WSleep u sel eof rest) ->
  wc (ws s 0) = WDone /\ cclosed (outs s 0) = true /\ cclosed (outs s 1) = true.
Proof. exact emit_cancel_exit. Qed.
Print Assumptions C11_emit_stops_after_cancel.
