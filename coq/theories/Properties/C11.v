(* C11 - Unfold and Emit produce the exact successive sequence, paced, until cancelled.
   Nothing but the property theorems.  [unfold_cfg f try seed ocaps] / [emit_cfg freq f try ocaps]: one
   goroutine without input (Pipe/Stages.v plan_unfold / plan_emit, mirroring pipe.Unfold / pipe.Emit), any
   buffer capacities [ocaps]; the consumer's pace and the cancel point are part of the execution.
   Partial: "a consumer that keeps up receives one value per tick" (an upper bound on delivery times under
   maximal progress) is NOT proved here; it is checked on every explored virtual-time schedule by the
   correspondence oracle.  Proved: the exact sequence, the lower bound on availability times (for ANY clock
   advance policy), closure after cancel. *)
From Coq Require Import List ZArith NArith.
From Golem Require Import Base.Lists Pipe.Pool Pipe.Stages Pipe.PoolSteps Pipe.PoolSafe Pipe.PoolLive Pipe.PoolSeq
     Pipe.PoolStages Pipe.PoolGen Pipe.PoolEmitTime Pipe.PoolGenCancel.
Import ListNotations.
Open Scope Z_scope.

(* Unfold with a function that does not fail: seed, h seed, h (h seed), ... - no gap, repeat or reordering *)
Theorem C11_unfold_exact : forall (h : Z -> Z) (try : bool) (seed : Z) (ocaps : list nat) (s : state),
  reachable (unfold_cfg (fun x => Ok (h x)) try seed ocaps) s ->
  exists n, prefix (delivered s 0) (iterate h seed n) /\ delivered s 1 = [].
Proof. exact unfold_total_exact. Qed.
Print Assumptions C11_unfold_exact.

(* Emit: f(0), f(1), f(2), ... skipping the indices that fail under Try *)
Theorem C11_emit_exact : forall (freq : N) (f : Z -> res) (try : bool) (ocaps : list nat) (s : state),
  reachable (emit_cfg freq f try ocaps) s ->
  exists n, prefix (delivered s 0) (ok_vals f (zrange 0 n)) /\ prefix (delivered s 1) (err_vals f (zrange 0 n)) /\
            (try = false -> existsb (is_err f) (zrange 0 (n - 1)) = false).
Proof. exact emit_prefix. Qed.
Print Assumptions C11_emit_exact.

(* pacing: k results (values or errors) available, received or buffered => k * frequency has elapsed.
   For every way the virtual clock advances - so in particular the k-th value is never available before k ticks *)
Theorem C11_emit_not_early : forall (freq : N) (f : Z -> res) (try : bool) (ocaps : list nat) (s : state),
  reachable (emit_cfg freq f try ocaps) s ->
  (N.of_nat (length (delivered s 0) + length (cbuf (outs s 0)) + length (delivered s 1) + length (cbuf (outs s 1))) * freq
   <= now s)%N.
Proof. exact emit_not_early. Qed.
Print Assumptions C11_emit_not_early.

(* after cancel: in a state without enabled step (and, for Emit, no pending sleep) the generator has returned
   and both channels are closed - no receive needed *)
Theorem C11_unfold_stops_after_cancel : forall (f : Z -> res) (try : bool) (seed : Z) (ocaps : list nat) (s : state),
  let c := unfold_cfg f try seed ocaps in
  (try = false -> (1 <= nth_cap ocaps 1)%nat) ->
  reachable c s -> cancelled s = true -> quiescent c s ->
  wc (ws s 0) = WDone /\ cclosed (outs s 0) = true /\ cclosed (outs s 1) = true.
Proof. exact unfold_cancel_exit. Qed.
Print Assumptions C11_unfold_stops_after_cancel.

Theorem C11_emit_stops_after_cancel : forall (freq : N) (f : Z -> res) (try : bool) (ocaps : list nat) (s : state),
  let c := emit_cfg freq f try ocaps in
  (try = false -> (1 <= nth_cap ocaps 1)%nat) ->
  reachable c s -> cancelled s = true -> quiescent c s ->
  (forall u sel eof rest, wc (ws s 0) <> WSleep u sel eof rest) ->
  wc (ws s 0) = WDone /\ cclosed (outs s 0) = true /\ cclosed (outs s 1) = true.
Proof. exact emit_cancel_exit. Qed.
Print Assumptions C11_emit_stops_after_cancel.
