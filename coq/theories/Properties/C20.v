(* C20 - PipeN composes its functions left to right, each applied exactly once.
   Nothing but the property theorems: each closed by [exact] of a lemma and followed
   by Print Assumptions. The definitions PipeN, PipeN_tree, PipeN_params are regenerated
   from /repo/internal/pipe/pipe.go on every run (coq/gen/GenPipe.v). *)
From Coq Require Import List String.
From Golem Require Import Base.CallTree Pipe.PipeN.
From GolemGen Require Import GenPipe.
Import ListNotations.

Theorem C20_Pipe_spec : forall (A B C : Type) (f1 : A -> B) (f2 : B -> C) (a : A),
  Pipe f1 f2 a = f2 (f1 a).
Proof. exact Pipe_spec. Qed.
Print Assumptions C20_Pipe_spec.
(* Go evaluation order of the body: each of the 2 parameters is called exactly once, first supplied first *)
Theorem C20_Pipe_calls : calls Pipe_tree = Pipe_params /\ List.length Pipe_params = 2.
Proof. exact Pipe_calls. Qed.
Print Assumptions C20_Pipe_calls.

Theorem C20_Pipe3_spec : forall (A B C D : Type) (f1 : A -> B) (f2 : B -> C) (f3 : C -> D) (a : A),
  Pipe3 f1 f2 f3 a = f3 (f2 (f1 a)).
Proof. exact Pipe3_spec. Qed.
Print Assumptions C20_Pipe3_spec.
(* Go evaluation order of the body: each of the 3 parameters is called exactly once, first supplied first *)
Theorem C20_Pipe3_calls : calls Pipe3_tree = Pipe3_params /\ List.length Pipe3_params = 3.
Proof. exact Pipe3_calls. Qed.
Print Assumptions C20_Pipe3_calls.

Theorem C20_Pipe4_spec : forall (A B C D E : Type) (f1 : A -> B) (f2 : B -> C) (f3 : C -> D) (f4 : D -> E) (a : A),
  Pipe4 f1 f2 f3 f4 a = f4 (f3 (f2 (f1 a))).
Proof. exact Pipe4_spec. Qed.
Print Assumptions C20_Pipe4_spec.
(* Go evaluation order of the body: each of the 4 parameters is called exactly once, first supplied first *)
Theorem C20_Pipe4_calls : calls Pipe4_tree = Pipe4_params /\ List.length Pipe4_params = 4.
Proof. exact Pipe4_calls. Qed.
Print Assumptions C20_Pipe4_calls.

Theorem C20_Pipe5_spec : forall (A B C D E F : Type) (f1 : A -> B) (f2 : B -> C) (f3 : C -> D) (f4 : D -> E) (f5 : E -> F) (a : A),
  Pipe5 f1 f2 f3 f4 f5 a = f5 (f4 (f3 (f2 (f1 a)))).
Proof. exact Pipe5_spec. Qed.
Print Assumptions C20_Pipe5_spec.
(* Go evaluation order of the body: each of the 5 parameters is called exactly once, first supplied first *)
Theorem C20_Pipe5_calls : calls Pipe5_tree = Pipe5_params /\ List.length Pipe5_params = 5.
Proof. exact Pipe5_calls. Qed.
Print Assumptions C20_Pipe5_calls.

Theorem C20_Pipe6_spec : forall (A B C D E F G : Type) (f1 : A -> B) (f2 : B -> C) (f3 : C -> D) (f4 : D -> E) (f5 : E -> F) (f6 : F -> G) (a : A),
  Pipe6 f1 f2 f3 f4 f5 f6 a = f6 (f5 (f4 (f3 (f2 (f1 a))))).
Proof. exact Pipe6_spec. Qed.
Print Assumptions C20_Pipe6_spec.
(* Go evaluation order of the body: each of the 6 parameters is called exactly once, first supplied first *)
Theorem C20_Pipe6_calls : calls Pipe6_tree = Pipe6_params /\ List.length Pipe6_params = 6.
Proof. exact Pipe6_calls. Qed.
Print Assumptions C20_Pipe6_calls.

Theorem C20_Pipe7_spec : forall (A B C D E F G H : Type) (f1 : A -> B) (f2 : B -> C) (f3 : C -> D) (f4 : D -> E) (f5 : E -> F) (f6 : F -> G) (f7 : G -> H) (a : A),
  Pipe7 f1 f2 f3 f4 f5 f6 f7 a = f7 (f6 (f5 (f4 (f3 (f2 (f1 a)))))).
Proof. exact Pipe7_spec. Qed.
Print Assumptions C20_Pipe7_spec.
(* Go evaluation order of the body: each of the 7 parameters is called exactly once, first supplied first *)
Theorem C20_Pipe7_calls : calls Pipe7_tree = Pipe7_params /\ List.length Pipe7_params = 7.
Proof. exact Pipe7_calls. Qed.
Print Assumptions C20_Pipe7_calls.

Theorem C20_Pipe8_spec : forall (A B C D E F G H I : Type) (f1 : A -> B) (f2 : B -> C) (f3 : C -> D) (f4 : D -> E) (f5 : E -> F) (f6 : F -> G) (f7 : G -> H) (f8 : H -> I) (a : A),
  Pipe8 f1 f2 f3 f4 f5 f6 f7 f8 a = f8 (f7 (f6 (f5 (f4 (f3 (f2 (f1 a))))))).
Proof. exact Pipe8_spec. Qed.
Print Assumptions C20_Pipe8_spec.
(* Go evaluation order of the body: each of the 8 parameters is called exactly once, first supplied first *)
Theorem C20_Pipe8_calls : calls Pipe8_tree = Pipe8_params /\ List.length Pipe8_params = 8.
Proof. exact Pipe8_calls. Qed.
Print Assumptions C20_Pipe8_calls.

Theorem C20_Pipe9_spec : forall (A B C D E F G H I J : Type) (f1 : A -> B) (f2 : B -> C) (f3 : C -> D) (f4 : D -> E) (f5 : E -> F) (f6 : F -> G) (f7 : G -> H) (f8 : H -> I) (f9 : I -> J) (a : A),
  Pipe9 f1 f2 f3 f4 f5 f6 f7 f8 f9 a = f9 (f8 (f7 (f6 (f5 (f4 (f3 (f2 (f1 a)))))))).
Proof. exact Pipe9_spec. Qed.
Print Assumptions C20_Pipe9_spec.
(* Go evaluation order of the body: each of the 9 parameters is called exactly once, first supplied first *)
Theorem C20_Pipe9_calls : calls Pipe9_tree = Pipe9_params /\ List.length Pipe9_params = 9.
Proof. exact Pipe9_calls. Qed.
Print Assumptions C20_Pipe9_calls.

Theorem C20_Pipe10_spec : forall (A B C D E F G H I J K : Type) (f1 : A -> B) (f2 : B -> C) (f3 : C -> D) (f4 : D -> E) (f5 : E -> F) (f6 : F -> G) (f7 : G -> H) (f8 : H -> I) (f9 : I -> J) (f10 : J -> K) (a : A),
  Pipe10 f1 f2 f3 f4 f5 f6 f7 f8 f9 f10 a = f10 (f9 (f8 (f7 (f6 (f5 (f4 (f3 (f2 (f1 a))))))))).
Proof. exact Pipe10_spec. Qed.
Print Assumptions C20_Pipe10_spec.
(* Go evaluation order of the body: each of the 10 parameters is called exactly once, first supplied first *)
Theorem C20_Pipe10_calls : calls Pipe10_tree = Pipe10_params /\ List.length Pipe10_params = 10.
Proof. exact Pipe10_calls. Qed.
Print Assumptions C20_Pipe10_calls.

Theorem C20_Pipe11_spec : forall (A B C D E F G H I J K L : Type) (f1 : A -> B) (f2 : B -> C) (f3 : C -> D) (f4 : D -> E) (f5 : E -> F) (f6 : F -> G) (f7 : G -> H) (f8 : H -> I) (f9 : I -> J) (f10 : J -> K) (f11 : K -> L) (a : A),
  Pipe11 f1 f2 f3 f4 f5 f6 f7 f8 f9 f10 f11 a = f11 (f10 (f9 (f8 (f7 (f6 (f5 (f4 (f3 (f2 (f1 a)))))))))).
Proof. exact Pipe11_spec. Qed.
Print Assumptions C20_Pipe11_spec.
(* Go evaluation order of the body: each of the 11 parameters is called exactly once, first supplied first *)
Theorem C20_Pipe11_calls : calls Pipe11_tree = Pipe11_params /\ List.length Pipe11_params = 11.
Proof. exact Pipe11_calls. Qed.
Print Assumptions C20_Pipe11_calls.

Theorem C20_Pipe12_spec : forall (A B C D E F G H I J K L M : Type) (f1 : A -> B) (f2 : B -> C) (f3 : C -> D) (f4 : D -> E) (f5 : E -> F) (f6 : F -> G) (f7 : G -> H) (f8 : H -> I) (f9 : I -> J) (f10 : J -> K) (f11 : K -> L) (f12 : L -> M) (a : A),
  Pipe12 f1 f2 f3 f4 f5 f6 f7 f8 f9 f10 f11 f12 a = f12 (f11 (f10 (f9 (f8 (f7 (f6 (f5 (f4 (f3 (f2 (f1 a))))))))))).
Proof. exact Pipe12_spec. Qed.
Print Assumptions C20_Pipe12_spec.
(* Go evaluation order of the body: each of the 12 parameters is called exactly once, first supplied first *)
Theorem C20_Pipe12_calls : calls Pipe12_tree = Pipe12_params /\ List.length Pipe12_params = 12.
Proof. exact Pipe12_calls. Qed.
Print Assumptions C20_Pipe12_calls.

Theorem C20_Pipe13_spec : forall (A B C D E F G H I J K L M N : Type) (f1 : A -> B) (f2 : B -> C) (f3 : C -> D) (f4 : D -> E) (f5 : E -> F) (f6 : F -> G) (f7 : G -> H) (f8 : H -> I) (f9 : I -> J) (f10 : J -> K) (f11 : K -> L) (f12 : L -> M) (f13 : M -> N) (a : A),
  Pipe13 f1 f2 f3 f4 f5 f6 f7 f8 f9 f10 f11 f12 f13 a = f13 (f12 (f11 (f10 (f9 (f8 (f7 (f6 (f5 (f4 (f3 (f2 (f1 a)))))))))))).
Proof. exact Pipe13_spec. Qed.
Print Assumptions C20_Pipe13_spec.
(* Go evaluation order of the body: each of the 13 parameters is called exactly once, first supplied first *)
Theorem C20_Pipe13_calls : calls Pipe13_tree = Pipe13_params /\ List.length Pipe13_params = 13.
Proof. exact Pipe13_calls. Qed.
Print Assumptions C20_Pipe13_calls.

Theorem C20_Pipe14_spec : forall (A B C D E F G H I J K L M N O : Type) (f1 : A -> B) (f2 : B -> C) (f3 : C -> D) (f4 : D -> E) (f5 : E -> F) (f6 : F -> G) (f7 : G -> H) (f8 : H -> I) (f9 : I -> J) (f10 : J -> K) (f11 : K -> L) (f12 : L -> M) (f13 : M -> N) (f14 : N -> O) (a : A),
  Pipe14 f1 f2 f3 f4 f5 f6 f7 f8 f9 f10 f11 f12 f13 f14 a = f14 (f13 (f12 (f11 (f10 (f9 (f8 (f7 (f6 (f5 (f4 (f3 (f2 (f1 a))))))))))))).
Proof. exact Pipe14_spec. Qed.
Print Assumptions C20_Pipe14_spec.
(* Go evaluation order of the body: each of the 14 parameters is called exactly once, first supplied first *)
Theorem C20_Pipe14_calls : calls Pipe14_tree = Pipe14_params /\ List.length Pipe14_params = 14.
Proof. exact Pipe14_calls. Qed.
Print Assumptions C20_Pipe14_calls.

Theorem C20_Pipe15_spec : forall (A B C D E F G H I J K L M N O P : Type) (f1 : A -> B) (f2 : B -> C) (f3 : C -> D) (f4 : D -> E) (f5 : E -> F) (f6 : F -> G) (f7 : G -> H) (f8 : H -> I) (f9 : I -> J) (f10 : J -> K) (f11 : K -> L) (f12 : L -> M) (f13 : M -> N) (f14 : N -> O) (f15 : O -> P) (a : A),
  Pipe15 f1 f2 f3 f4 f5 f6 f7 f8 f9 f10 f11 f12 f13 f14 f15 a = f15 (f14 (f13 (f12 (f11 (f10 (f9 (f8 (f7 (f6 (f5 (f4 (f3 (f2 (f1 a)))))))))))))).
Proof. exact Pipe15_spec. Qed.
Print Assumptions C20_Pipe15_spec.
(* Go evaluation order of the body: each of the 15 parameters is called exactly once, first supplied first *)
Theorem C20_Pipe15_calls : calls Pipe15_tree = Pipe15_params /\ List.length Pipe15_params = 15.
Proof. exact Pipe15_calls. Qed.
Print Assumptions C20_Pipe15_calls.

Theorem C20_Pipe16_spec : forall (A B C D E F G H I J K L M N O P Q : Type) (f1 : A -> B) (f2 : B -> C) (f3 : C -> D) (f4 : D -> E) (f5 : E -> F) (f6 : F -> G) (f7 : G -> H) (f8 : H -> I) (f9 : I -> J) (f10 : J -> K) (f11 : K -> L) (f12 : L -> M) (f13 : M -> N) (f14 : N -> O) (f15 : O -> P) (f16 : P -> Q) (a : A),
  Pipe16 f1 f2 f3 f4 f5 f6 f7 f8 f9 f10 f11 f12 f13 f14 f15 f16 a = f16 (f15 (f14 (f13 (f12 (f11 (f10 (f9 (f8 (f7 (f6 (f5 (f4 (f3 (f2 (f1 a))))))))))))))).
Proof. exact Pipe16_spec. Qed.
Print Assumptions C20_Pipe16_spec.
(* Go evaluation order of the body: each of the 16 parameters is called exactly once, first supplied first *)
Theorem C20_Pipe16_calls : calls Pipe16_tree = Pipe16_params /\ List.length Pipe16_params = 16.
Proof. exact Pipe16_calls. Qed.
Print Assumptions C20_Pipe16_calls.

Theorem C20_Pipe17_spec : forall (A B C D E F G H I J K L M N O P Q R : Type) (f1 : A -> B) (f2 : B -> C) (f3 : C -> D) (f4 : D -> E) (f5 : E -> F) (f6 : F -> G) (f7 : G -> H) (f8 : H -> I) (f9 : I -> J) (f10 : J -> K) (f11 : K -> L) (f12 : L -> M) (f13 : M -> N) (f14 : N -> O) (f15 : O -> P) (f16 : P -> Q) (f17 : Q -> R) (a : A),
  Pipe17 f1 f2 f3 f4 f5 f6 f7 f8 f9 f10 f11 f12 f13 f14 f15 f16 f17 a = f17 (f16 (f15 (f14 (f13 (f12 (f11 (f10 (f9 (f8 (f7 (f6 (f5 (f4 (f3 (f2 (f1 a)))))))))))))))).
Proof. exact Pipe17_spec. Qed.
Print Assumptions C20_Pipe17_spec.
(* Go evaluation order of the body: each of the 17 parameters is called exactly once, first supplied first *)
Theorem C20_Pipe17_calls : calls Pipe17_tree = Pipe17_params /\ List.length Pipe17_params = 17.
Proof. exact Pipe17_calls. Qed.
Print Assumptions C20_Pipe17_calls.

Theorem C20_Pipe18_spec : forall (A B C D E F G H I J K L M N O P Q R S : Type) (f1 : A -> B) (f2 : B -> C) (f3 : C -> D) (f4 : D -> E) (f5 : E -> F) (f6 : F -> G) (f7 : G -> H) (f8 : H -> I) (f9 : I -> J) (f10 : J -> K) (f11 : K -> L) (f12 : L -> M) (f13 : M -> N) (f14 : N -> O) (f15 : O -> P) (f16 : P -> Q) (f17 : Q -> R) (f18 : R -> S) (a : A),
  Pipe18 f1 f2 f3 f4 f5 f6 f7 f8 f9 f10 f11 f12 f13 f14 f15 f16 f17 f18 a = f18 (f17 (f16 (f15 (f14 (f13 (f12 (f11 (f10 (f9 (f8 (f7 (f6 (f5 (f4 (f3 (f2 (f1 a))))))))))))))))).
Proof. exact Pipe18_spec. Qed.
Print Assumptions C20_Pipe18_spec.
(* Go evaluation order of the body: each of the 18 parameters is called exactly once, first supplied first *)
Theorem C20_Pipe18_calls : calls Pipe18_tree = Pipe18_params /\ List.length Pipe18_params = 18.
Proof. exact Pipe18_calls. Qed.
Print Assumptions C20_Pipe18_calls.

Theorem C20_Pipe19_spec : forall (A B C D E F G H I J K L M N O P Q R S T : Type) (f1 : A -> B) (f2 : B -> C) (f3 : C -> D) (f4 : D -> E) (f5 : E -> F) (f6 : F -> G) (f7 : G -> H) (f8 : H -> I) (f9 : I -> J) (f10 : J -> K) (f11 : K -> L) (f12 : L -> M) (f13 : M -> N) (f14 : N -> O) (f15 : O -> P) (f16 : P -> Q) (f17 : Q -> R) (f18 : R -> S) (f19 : S -> T) (a : A),
  Pipe19 f1 f2 f3 f4 f5 f6 f7 f8 f9 f10 f11 f12 f13 f14 f15 f16 f17 f18 f19 a = f19 (f18 (f17 (f16 (f15 (f14 (f13 (f12 (f11 (f10 (f9 (f8 (f7 (f6 (f5 (f4 (f3 (f2 (f1 a)))))))))))))))))).
Proof. exact Pipe19_spec. Qed.
Print Assumptions C20_Pipe19_spec.
(* Go evaluation order of the body: each of the 19 parameters is called exactly once, first supplied first *)
Theorem C20_Pipe19_calls : calls Pipe19_tree = Pipe19_params /\ List.length Pipe19_params = 19.
Proof. exact Pipe19_calls. Qed.
Print Assumptions C20_Pipe19_calls.

Theorem C20_Pipe20_spec : forall (A B C D E F G H I J K L M N O P Q R S T U : Type) (f1 : A -> B) (f2 : B -> C) (f3 : C -> D) (f4 : D -> E) (f5 : E -> F) (f6 : F -> G) (f7 : G -> H) (f8 : H -> I) (f9 : I -> J) (f10 : J -> K) (f11 : K -> L) (f12 : L -> M) (f13 : M -> N) (f14 : N -> O) (f15 : O -> P) (f16 : P -> Q) (f17 : Q -> R) (f18 : R -> S) (f19 : S -> T) (f20 : T -> U) (a : A),
  Pipe20 f1 f2 f3 f4 f5 f6 f7 f8 f9 f10 f11 f12 f13 f14 f15 f16 f17 f18 f19 f20 a = f20 (f19 (f18 (f17 (f16 (f15 (f14 (f13 (f12 (f11 (f10 (f9 (f8 (f7 (f6 (f5 (f4 (f3 (f2 (f1 a))))))))))))))))))).
Proof. exact Pipe20_spec. Qed.
Print Assumptions C20_Pipe20_spec.
(* Go evaluation order of the body: each of the 20 parameters is called exactly once, first supplied first *)
Theorem C20_Pipe20_calls : calls Pipe20_tree = Pipe20_params /\ List.length Pipe20_params = 20.
Proof. exact Pipe20_calls. Qed.
Print Assumptions C20_Pipe20_calls.

Theorem C20_functions_complete : incl ["Pipe"%string; "Pipe3"%string; "Pipe4"%string; "Pipe5"%string; "Pipe6"%string; "Pipe7"%string; "Pipe8"%string; "Pipe9"%string; "Pipe10"%string; "Pipe11"%string; "Pipe12"%string; "Pipe13"%string; "Pipe14"%string; "Pipe15"%string; "Pipe16"%string; "Pipe17"%string; "Pipe18"%string; "Pipe19"%string; "Pipe20"%string] functions.
Proof. exact functions_complete. Qed.
Print Assumptions C20_functions_complete.
