(* C04 - placeholder, theorems follow *)
From Golem Require Import Optics.Combinators.
