(* C04 - composed optics are lawful and touch only their component foci.
   Nothing but the property theorems: each closed by [exact] of a lemma and followed by Print Assumptions,
   plus non-vacuity examples.  Optics are syntax (Optics/Combinators.v: Field | Join | BiMap | Getter | Setter)
   interpreted on byte arenas, transcribing /repo/optics/lens.go (join) and iso.go (fmap, cmap, codec, iso, morphism);
   shape2..9 / ForShape2..9 are regenerated from optics/shape.go on every run (coq/gen/GenShape.v).
   [lawful o n]: on every arena and at every address o obeys GetPut, PutGet, PutPut for values of n bytes.
   [framed o n fp]: a Put of an n-byte value changes no byte of the arena outside the ranges fp.

   [window o off n]: o is positional - it reads and writes exactly the n bytes at offset off of the structure; field
   lenses are windows and so is every Join of windows, at any depth (C04_window_field, C04_window_join).
   [focused o n fp]: lawful o n, framed o n fp, and Get depends on no byte outside fp (C04_field_focused,
   C04_join_focused, C04_bimap_focused, C04_chain_focused build it for every optic the derivations produce).
   [disjoint_fp fp1 fp2]: the two foci share no byte ([disjointb] decides it).

   NOTHING PARTIAL.  The three statements of DESIGN 3/C04 that earlier versions proved only in part are full theorems:
   * join_frame: C04_join_frame - through Join a b a Put changes no byte of the arena outside the inner focus (the
     frame of b moved to the offset of a's value), hence inside the outer focus only the inner focus changes;
     C04_chain_framed says the same with the computed [footprint] for Join chains of field lenses of any depth.
     The outer optic must be positional for "the absolute range of the inner focus" to exist: when it converts its
     value (BiMap) the bytes of the inner focus have no position in the arena, and C04_join_frame_outer (any lawful
     outer optic: nothing outside the OUTER focus changes) is what can be said.  C04_join_frame_needs_positional is the
     witness: with the outer field seen through a byte swap (lawful, framed) the statement at offset 0 is false.
   * shapeN: C04_puts_nfold, generic over a list of component lenses ([puts] = the fold of component puts, last component
     first): with pairwise disjoint component foci every component reads back its own argument and no byte outside the
     union of the foci changes; C04_shapeN_nfold (N = 2..9) instantiates it for the definitions regenerated from
     optics/shape.go - shapeN.Get after shapeN.Put returns the tuple of arguments.
   * morphism_roundtrip: C04_morphism_roundtrip, for ANY list of isos, nil entries skipped, entries may repeat, under
     (H1) every entry has a lawful source optic and a focused target optic, (H2) two entries are the same iso or have
     disjoint TARGET foci.  No hypothesis relates SOURCE foci (they may overlap freely): Forward never writes the
     source, and Inverse writes into each source focus the value it already holds.  Conclusions: source arena restored
     byte for byte, target left as Forward made it, every target focus holds its source focus, no byte of the target
     outside the union of target foci changed; C04_morphism_inverse_total: Inverse after Forward never panics.
     H2 is necessary: C04_morphism_needs_disjoint_targets is a two-iso list satisfying H1 (C04_witness_entries_ok) whose
     entries differ and share a target focus (C04_witness_targets_overlap) and whose round trip changes the source.
   Beyond DESIGN 3/C04: C04_morphism_transport - Forward (s, t) then Inverse (t, s2) into ANOTHER source structure s2
   gives every source focus of s2 the bytes it has in s and leaves every other byte of s2 alone (what the harness
   observes), for source optics that are focused and [transports] (putting the value read from m into m2 copies the
   focus bytes: C04_window_transports, C04_chain_transports, C04_bimap_transports, C04_join_transports); H2 as above,
   and again no disjointness of source foci.
   BiMapI across widths (conversions by value, mutually inverse on the values of the narrower type only): C04_sresize_*,
   C04_representable_range, C04_bimap_lawful_on, C04_bimapI_lawful_on, C04_bimapI_framed and the two one-sided corollaries.
   (Assembled by tools/scripts/gen_properties.py from tools/scripts/properties_src/C04.v.in.) *)
From Coq Require Import List String Bool Arith ZArith.
From Golem Require Import Optics.GenPrelude Optics.LayoutFacts Optics.HseqFacts Optics.LensFacts Optics.CombFacts Optics.FocusFacts
  Optics.GenHseqFacts Optics.GenShapeFacts Optics.Examples Optics.CombWitness Optics.Conv Optics.ConvFacts.
From GolemGen Require Import GenHseq GenOptics GenShape.
Import ListNotations.
Open Scope res_scope.

(* every field lens is lawful and framed by its field *)
Theorem C04_field_lawful : forall l, lawful (Field l) (sizeof (l_A l)).
Proof. exact field_lawful. Qed.
Print Assumptions C04_field_lawful.

Theorem C04_field_framed : forall l, framed (Field l) (sizeof (l_A l)) [(e_off (l_t l) + e_root (l_t l), sizeof (l_A l))].
Proof. exact field_framed. Qed.
Print Assumptions C04_field_framed.

(* Join of two lawful optics is a lawful optic on the nested value (the three laws, any nesting depth by iteration) *)
Theorem C04_join_lawful : forall a b nA nB, lawful a nA -> lawful b nB -> lawful (Join a b) nB.
Proof. exact join_lawful. Qed.
Print Assumptions C04_join_lawful.

(* .. changes nothing outside the focus of its outer optic, whatever lawful optic that is *)
Theorem C04_join_frame_outer : forall a b nA nB fp, lawful a nA -> framed a nA fp -> framed (Join a b) nB fp.
Proof. exact join_frame_outer. Qed.
Print Assumptions C04_join_frame_outer.

(* positional optics: field lenses, and Joins of positional optics to any depth *)
Theorem C04_window_field : forall l, window (Field l) (e_off (l_t l) + e_root (l_t l)) (sizeof (l_A l)).
Proof. exact window_field. Qed.
Print Assumptions C04_window_field.

Theorem C04_window_join : forall a b offA nA offB nB,
  window a offA nA -> window b offB nB -> window (Join a b) (offA + offB) nB.
Proof. exact window_join. Qed.
Print Assumptions C04_window_join.

(* join_frame in full: with a positional outer optic, a Put through Join a b changes no byte of the arena outside the
   inner focus - the frame of b, moved to where a's value lies *)
Theorem C04_join_frame : forall a b offA nA nB fpB, window a offA nA -> framed b nB fpB ->
  framed (Join a b) nB (map (fun r => (offA + fst r, snd r)) fpB).
Proof. exact join_frame. Qed.
Print Assumptions C04_join_frame.

(* .. with the computed footprint: a Join chain of field lenses (any depth) writes inside [footprint] only, and the
   footprint of Join a b is the footprint of b moved to the offset of a *)
Theorem C04_chain_framed : forall o, is_chain o = true -> framed o (chain_size o) (footprint o).
Proof. exact chain_framed. Qed.
Print Assumptions C04_chain_framed.

Theorem C04_footprint_join : forall a b, is_chain a = true ->
  footprint (Join a b) = map (fun r => (chain_off a + fst r, snd r)) (footprint b).
Proof. exact footprint_join_chain. Qed.
Print Assumptions C04_footprint_join.

(* focused optics: lawful, framed by fp, reading fp only *)
Theorem C04_field_focused : forall l,
  focused (Field l) (sizeof (l_A l)) [(e_off (l_t l) + e_root (l_t l), sizeof (l_A l))].
Proof. exact field_focused. Qed.
Print Assumptions C04_field_focused.

Theorem C04_chain_focused : forall o, is_chain o = true -> focused o (chain_size o) (footprint o).
Proof. exact chain_focused. Qed.
Print Assumptions C04_chain_focused.

Theorem C04_join_focused : forall a b offA nA nB fpB, window a offA nA -> lawful a nA -> focused b nB fpB ->
  focused (Join a b) nB (map (fun r => (offA + fst r, snd r)) fpB).
Proof. exact join_focused. Qed.
Print Assumptions C04_join_focused.

Theorem C04_bimap_focused : forall o f g nA nB fp, focused o nA fp ->
  (forall a, List.length a = nA -> g (f a) = a /\ List.length (f a) = nB) ->
  (forall b, List.length b = nB -> f (g b) = b /\ List.length (g b) = nA) ->
  focused (BiMap o f g) nB fp.
Proof. exact bimap_focused. Qed.
Print Assumptions C04_bimap_focused.

Theorem C04_disjointb_sound : forall fp1 fp2, disjointb fp1 fp2 = true -> disjoint_fp fp1 fp2.
Proof. exact disjointb_sound. Qed.
Print Assumptions C04_disjointb_sound.

(* BiMap (and BiMapS/B/I/F as instances) with mutually inverse conversions obeys the laws on the converted value *)
Theorem C04_bimap_lawful : forall o f g nA nB,
  lawful o nA ->
  (forall a, List.length a = nA -> g (f a) = a /\ List.length (f a) = nB) ->
  (forall b, List.length b = nB -> f (g b) = b /\ List.length (g b) = nA) ->
  lawful (BiMap o f g) nB.
Proof. exact bimap_lawful. Qed.
Print Assumptions C04_bimap_lawful.

Theorem C04_bimap_framed : forall o f g nA nB fp, (forall b, List.length b = nB -> List.length (g b) = nA) ->
  framed o nA fp -> framed (BiMap o f g) nB fp.
Proof. exact bimap_framed. Qed.
Print Assumptions C04_bimap_framed.

(* ---- BiMapI across widths.  optics.Int is a union of types of different sizes, so BiMapI[S, A, B] may expose an nA-byte
        field as an nB-byte integer: B(a) / A(b) are then conversions BY VALUE, on bytes [sresize n] (Optics/Conv.v:
        widening appends copies of the sign byte, narrowing keeps the low bytes; same width: the identity).
        [sval v]: the two's complement value of the little-endian bytes v; [swrap n x]: x truncated to n bytes.
        [representable k b]: b is the sign extension of its k low bytes, i.e. its value fits k bytes
        (C04_representable_range).  The conversions are mutually inverse exactly on the values of the narrower type, so
        such a BiMap is a lens on those: [lawful_on o n P G] = the laws of [lawful] with PutGet claimed for the values P and
        GetPut on the arenas G. ---- *)
(* sresize is Go's conversion between signed integer types: sign extended to infinite precision, then truncated *)
Theorem C04_sresize_is_conversion : forall n v, bytes v -> v <> [] -> 0 < n -> sval (sresize n v) = swrap n (sval v).
Proof. exact sval_sresize. Qed.
Print Assumptions C04_sresize_is_conversion.

Theorem C04_sresize_length : forall n v, List.length (sresize n v) = n.
Proof. exact sresize_length. Qed.
Print Assumptions C04_sresize_length.

(* an nA-byte value converted to nB bytes and back is itself when it fits the narrower of the two types *)
Theorem C04_sresize_inverse : forall nA nB a, List.length a = nA -> representable (Nat.min nA nB) a ->
  sresize nA (sresize nB a) = a.
Proof. exact sresize_inverse. Qed.
Print Assumptions C04_sresize_inverse.

Theorem C04_representable_range : forall k b, bytes b -> 0 < k <= List.length b ->
  (representable k b <-> (- (256 ^ Z.of_nat k / 2) <= sval b < 256 ^ Z.of_nat k / 2)%Z).
Proof. exact representable_range. Qed.
Print Assumptions C04_representable_range.

(* the laws without restriction are [lawful] *)
Theorem C04_lawful_on_all : forall o n, lawful o n <-> lawful_on o n (fun _ => True) (fun _ _ => True).
Proof. exact lawful_on_all. Qed.
Print Assumptions C04_lawful_on_all.

(* BiMap with g . f = id on the field contents PA and f . g = id on the values PB *)
Theorem C04_bimap_lawful_on : forall o f g nA nB (PA PB : value -> Prop),
  lawful o nA ->
  (forall a, List.length a = nA -> List.length (f a) = nB) ->
  (forall b, List.length b = nB -> List.length (g b) = nA) ->
  (forall a, List.length a = nA -> PA a -> g (f a) = a) ->
  (forall b, List.length b = nB -> PB b -> f (g b) = b) ->
  lawful_on (BiMap o f g) nB PB (fun m s => forall a, oget o m s = Ok a -> PA a).
Proof. exact bimap_lawful_on. Qed.
Print Assumptions C04_bimap_lawful_on.

(* BiMapI over a lawful lens on an nA-byte field, exposing nB bytes: PutGet for the values that fit the narrower type,
   GetPut where the field holds such a value, PutPut always; and its Put stays inside the frame of the field lens *)
Theorem C04_bimapI_lawful_on : forall o nA nB, lawful o nA ->
  lawful_on (BiMap o (sresize nB) (sresize nA)) nB
            (representable (Nat.min nA nB))
            (fun m s => forall a, oget o m s = Ok a -> representable (Nat.min nA nB) a).
Proof. exact bimapI_lawful_on. Qed.
Print Assumptions C04_bimapI_lawful_on.

Theorem C04_bimapI_framed : forall o nA nB fp, framed o nA fp -> framed (BiMap o (sresize nB) (sresize nA)) nB fp.
Proof. exact bimapI_framed. Qed.
Print Assumptions C04_bimapI_framed.

(* a narrow field exposed as a wider type: GetPut on every arena *)
Theorem C04_bimapI_widening_get_put : forall o nA nB m s v, lawful o nA -> nA <= nB ->
  oget (BiMap o (sresize nB) (sresize nA)) m s = Ok v -> oput (BiMap o (sresize nB) (sresize nA)) m s v = Ok m.
Proof. exact bimapI_widening_get_put. Qed.
Print Assumptions C04_bimapI_widening_get_put.

(* a wide field exposed as a narrower type: PutGet for every value *)
Theorem C04_bimapI_narrowing_put_get : forall o nA nB m s v m', lawful o nA -> nB <= nA -> List.length v = nB ->
  oput (BiMap o (sresize nB) (sresize nA)) m s v = Ok m' -> oget (BiMap o (sresize nB) (sresize nA)) m' s = Ok v.
Proof. exact bimapI_narrowing_put_get. Qed.
Print Assumptions C04_bimapI_narrowing_put_get.

(* non-vacuity: int8(-2) as int32 is ff ff ff fe, int16(128) = 80 00 does not fit int8 - it comes back as -128 - and
   int16(-128) = 80 ff does *)
Example C04_ex_sresize :
  sresize 4 [254%Z] = [254; 255; 255; 255]%Z /\ sval [254; 255; 255; 255]%Z = (-2)%Z /\
  sresize 2 (sresize 1 [128; 0]%Z) = [128; 255]%Z /\ ~ representable 1 [128; 0]%Z /\ representable 1 [128; 255]%Z.
Proof. exact sresize_examples. Qed.

Theorem C04_getter_never_writes : forall o f m s x,
  oput (Getter o f) m s x = Ok m /\ oget (Getter o f) m s = rmap f (oget o m s).
Proof. exact getter_never_writes. Qed.
Print Assumptions C04_getter_never_writes.

Theorem C04_setter_writes_cmap : forall o g z m s x,
  oput (Setter o g z) m s x = oput o m s (g x) /\ oget (Setter o g z) m s = Ok z.
Proof. exact setter_writes_cmap. Qed.
Print Assumptions C04_setter_writes_cmap.

Theorem C04_put_keeps_arena_size : forall o m s x m', oput o m s x = Ok m' -> List.length m' = List.length m.
Proof. exact oput_length. Qed.
Print Assumptions C04_put_keeps_arena_size.

(* a map lens touches only its key (maps as association lists, any key type with decidable equality) *)
Theorem C04_mapkey_frame : forall (K V : Type) (keqb : K -> K -> bool), (forall a b, keqb a b = true <-> a = b) ->
  forall (zero : V) (m : list (K * V)) k v,
    mapkey_get keqb zero k (mapkey_put keqb k m v) = v /\
    forall k', k' <> k -> map_get keqb (mapkey_put keqb k m v) k' = map_get keqb m k'.
Proof. exact (@mapkey_frame). Qed.
Print Assumptions C04_mapkey_frame.

(* Iso: Forward then Inverse restores the source structure entirely and leaves the target as Forward made it *)
Theorem C04_iso_roundtrip : forall i n w w1 w2, lawful (i_sa i) n -> lawful (i_ta i) n ->
  iso_forward i w = Ok w1 -> iso_inverse i w1 = Ok w2 ->
  ms w2 = ms w /\ mt w2 = mt w1 /\ ms w1 = ms w /\ ps w2 = ps w /\ pt w2 = pt w.
Proof. exact iso_roundtrip. Qed.
Print Assumptions C04_iso_roundtrip.

(* .. and the way back into another source structure m2 gives it the source focus of the original *)
Theorem C04_iso_transport : forall i n w w1 m2 w2, lawful (i_sa i) n -> lawful (i_ta i) n ->
  iso_forward i w = Ok w1 -> iso_inverse i (mkTwo m2 (ps w) (mt w1) (pt w1)) = Ok w2 ->
  oget (i_sa i) (ms w2) (ps w) = oget (i_sa i) (ms w) (ps w).
Proof. exact iso_transport. Qed.
Print Assumptions C04_iso_transport.

Theorem C04_morphism_skips_nil : forall seq w,
  morphism_forward (None :: seq) w = morphism_forward seq w /\ morphism_inverse (None :: seq) w = morphism_inverse seq w.
Proof. exact morphism_skips_nil. Qed.
Print Assumptions C04_morphism_skips_nil.

(* a list with one iso and any number of nil entries needs lawful optics only *)
Theorem C04_morphism_roundtrip_single : forall i n w w1 w2 k1 k2, lawful (i_sa i) n -> lawful (i_ta i) n ->
  let seq := repeat None k1 ++ Some i :: repeat None k2 in
  morphism_forward seq w = Ok w1 -> morphism_inverse seq w1 = Ok w2 ->
  ms w2 = ms w /\ mt w2 = mt w1.
Proof. exact morphism_roundtrip_single. Qed.
Print Assumptions C04_morphism_roundtrip_single.

(* morphism_roundtrip in full: ANY list of isos - nil entries skipped, entries may repeat, source foci may overlap.
   [nof i] is the size of the values of iso i, [tfp i] its target focus.  Forward then Inverse: the source arena is
   restored byte for byte, the target stays as Forward made it, every target focus holds its source focus, and no byte
   of the target outside the union of the target foci has changed. *)
Theorem C04_morphism_roundtrip : forall (nof : iso -> nat) (tfp : iso -> list (nat * nat)) seq,
  (forall i, In (Some i) seq -> lawful (i_sa i) (nof i) /\ focused (i_ta i) (nof i) (tfp i)) ->
  (forall i j, In (Some i) seq -> In (Some j) seq -> i = j \/ disjoint_fp (tfp i) (tfp j)) ->
  forall w w1 w2, morphism_forward seq w = Ok w1 -> morphism_inverse seq w1 = Ok w2 ->
  ms w2 = ms w /\ mt w2 = mt w1 /\ ms w1 = ms w /\ ps w2 = ps w /\ pt w2 = pt w /\
  (forall i, In (Some i) seq -> oget (i_ta i) (mt w2) (pt w) = oget (i_sa i) (ms w) (ps w)) /\
  (forall k, outside (flat_map tfp (isos seq)) (pt w) k -> nth_error (mt w2) k = nth_error (mt w) k).
Proof. exact morphism_roundtrip. Qed.
Print Assumptions C04_morphism_roundtrip.

Theorem C04_morphism_inverse_total : forall (nof : iso -> nat) (tfp : iso -> list (nat * nat)) seq,
  (forall i, In (Some i) seq -> lawful (i_sa i) (nof i) /\ focused (i_ta i) (nof i) (tfp i)) ->
  (forall i j, In (Some i) seq -> In (Some j) seq -> i = j \/ disjoint_fp (tfp i) (tfp j)) ->
  forall w w1, morphism_forward seq w = Ok w1 -> morphism_inverse seq w1 = Ok w1.
Proof. exact morphism_inverse_total. Qed.
Print Assumptions C04_morphism_inverse_total.

(* .. and the way back into ANOTHER source structure m2 of the same size: every byte of a source focus becomes that of
   the original source, every other byte of m2 stays, so every source optic reads from it what it read from the original *)
Theorem C04_morphism_transport : forall (nof : iso -> nat) (sfp tfp : iso -> list (nat * nat)) seq,
  (forall i, In (Some i) seq ->
     focused (i_sa i) (nof i) (sfp i) /\ transports (i_sa i) (sfp i) /\ focused (i_ta i) (nof i) (tfp i)) ->
  (forall i j, In (Some i) seq -> In (Some j) seq -> i = j \/ disjoint_fp (tfp i) (tfp j)) ->
  forall w w1 m2 w2, List.length m2 = List.length (ms w) ->
  morphism_forward seq w = Ok w1 -> morphism_inverse seq (mkTwo m2 (ps w) (mt w1) (pt w1)) = Ok w2 ->
  mt w2 = mt w1 /\ List.length (ms w2) = List.length m2 /\
  (forall k, inside (flat_map sfp (isos seq)) (ps w) k -> nth_error (ms w2) k = nth_error (ms w) k) /\
  (forall k, outside (flat_map sfp (isos seq)) (ps w) k -> nth_error (ms w2) k = nth_error m2 k) /\
  (forall i, In (Some i) seq -> oget (i_sa i) (ms w2) (ps w) = oget (i_sa i) (ms w) (ps w)).
Proof. exact morphism_transport. Qed.
Print Assumptions C04_morphism_transport.

Theorem C04_window_transports : forall o off n, window o off n -> transports o [(off, n)].
Proof. exact window_transports. Qed.
Print Assumptions C04_window_transports.

Theorem C04_chain_transports : forall o, is_chain o = true -> transports o (footprint o).
Proof. exact chain_transports. Qed.
Print Assumptions C04_chain_transports.

Theorem C04_bimap_transports : forall o f g nA fp, lawful o nA -> (forall a, List.length a = nA -> g (f a) = a) ->
  transports o fp -> transports (BiMap o f g) fp.
Proof. exact bimap_transports. Qed.
Print Assumptions C04_bimap_transports.

Theorem C04_join_transports : forall a b offA nA fpB, window a offA nA -> transports b fpB ->
  (forall r, In r fpB -> fst r + snd r <= nA) ->
  transports (Join a b) (map (fun r => (offA + fst r, snd r)) fpB).
Proof. exact join_transports. Qed.
Print Assumptions C04_join_transports.

(* ---- a sequence of component puts (what shapeN.Put is, see C04_shapeN_nfold below): with pairwise disjoint component
        foci every component reads back its own argument and no byte outside the union of the foci changes ------------ *)
Theorem C04_puts_nfold : forall cs m s m', Forall comp_ok cs ->
  ForallOrdPairs (fun c1 c2 => disjoint_fp (c_fp c1) (c_fp c2)) cs ->
  puts (map comp_arg cs) m s = Ok m' ->
  List.length m' = List.length m /\
  Forall (fun c => oget (c_o c) m' s = Ok (c_x c)) cs /\
  (forall i, outside (flat_map c_fp cs) s i -> nth_error m' i = nth_error m i).
Proof. exact puts_spec. Qed.
Print Assumptions C04_puts_nfold.

(* ---- per arity (N = 2..9), about the definitions regenerated from optics/shape.go: shapeN.Put = the component puts,
        last component first, returning the pointer it was given; shapeN.Get = the tuple of component gets in order;
        ForShapeN = ForProductN packed into the record; shapeN_nfold: with focused components on pairwise disjoint foci,
        shapeN.Get after shapeN.Put returns the arguments and no byte outside the foci has changed ------------------- *)
Theorem C04_shape2_Put : forall (lens : shape2) (s : ptr) (a b : value) (m : mem),
  shape2_Put lens s a b m =
  (m1 <- oput (shape2_b lens) m s b ;;
   m2 <- oput (shape2_a lens) m1 s a ;; Ok (s, m2)).
Proof. exact shape2_Put_spec. Qed.
Print Assumptions C04_shape2_Put.

Theorem C04_shape2_Get : forall (lens : shape2) (s : ptr) (m : mem),
  shape2_Get lens s m =
  (a <- oget (shape2_a lens) m s ;;
   b <- oget (shape2_b lens) m s ;; Ok ((a, b), m)).
Proof. exact shape2_Get_spec. Qed.
Print Assumptions C04_shape2_Get.

Theorem C04_ForShape2 : forall (T A B : ty) (attr : list string),
  ForShape2 T A B attr =
  rmap (fun '(a, b) => mk_shape2 a b) (ForProduct2 T A B attr).
Proof. exact ForShape2_spec. Qed.
Print Assumptions C04_ForShape2.

Theorem C04_shape2_nfold : forall (lens : shape2) (s p : ptr) (a b : value) (m m' : mem) (na nb : nat) (fa fb : list (nat * nat)),
  focused (shape2_a lens) na fa ->
  focused (shape2_b lens) nb fb ->
  List.length a = na -> List.length b = nb ->
  ForallOrdPairs disjoint_fp [fa; fb] ->
  shape2_Put lens s a b m = Ok (p, m') ->
  p = s /\ shape2_Get lens s m' = Ok ((a, b), m') /\
  (forall i, outside (List.concat [fa; fb]) s i -> nth_error m' i = nth_error m i).
Proof. exact shape2_nfold. Qed.
Print Assumptions C04_shape2_nfold.

Theorem C04_shape3_Put : forall (lens : shape3) (s : ptr) (a b c : value) (m : mem),
  shape3_Put lens s a b c m =
  (m1 <- oput (shape3_c lens) m s c ;;
   m2 <- oput (shape3_b lens) m1 s b ;;
   m3 <- oput (shape3_a lens) m2 s a ;; Ok (s, m3)).
Proof. exact shape3_Put_spec. Qed.
Print Assumptions C04_shape3_Put.

Theorem C04_shape3_Get : forall (lens : shape3) (s : ptr) (m : mem),
  shape3_Get lens s m =
  (a <- oget (shape3_a lens) m s ;;
   b <- oget (shape3_b lens) m s ;;
   c <- oget (shape3_c lens) m s ;; Ok ((a, b, c), m)).
Proof. exact shape3_Get_spec. Qed.
Print Assumptions C04_shape3_Get.

Theorem C04_ForShape3 : forall (T A B C : ty) (attr : list string),
  ForShape3 T A B C attr =
  rmap (fun '(a, b, c) => mk_shape3 a b c) (ForProduct3 T A B C attr).
Proof. exact ForShape3_spec. Qed.
Print Assumptions C04_ForShape3.

Theorem C04_shape3_nfold : forall (lens : shape3) (s p : ptr) (a b c : value) (m m' : mem) (na nb nc : nat) (fa fb fc : list (nat * nat)),
  focused (shape3_a lens) na fa ->
  focused (shape3_b lens) nb fb ->
  focused (shape3_c lens) nc fc ->
  List.length a = na -> List.length b = nb -> List.length c = nc ->
  ForallOrdPairs disjoint_fp [fa; fb; fc] ->
  shape3_Put lens s a b c m = Ok (p, m') ->
  p = s /\ shape3_Get lens s m' = Ok ((a, b, c), m') /\
  (forall i, outside (List.concat [fa; fb; fc]) s i -> nth_error m' i = nth_error m i).
Proof. exact shape3_nfold. Qed.
Print Assumptions C04_shape3_nfold.

Theorem C04_shape4_Put : forall (lens : shape4) (s : ptr) (a b c d : value) (m : mem),
  shape4_Put lens s a b c d m =
  (m1 <- oput (shape4_d lens) m s d ;;
   m2 <- oput (shape4_c lens) m1 s c ;;
   m3 <- oput (shape4_b lens) m2 s b ;;
   m4 <- oput (shape4_a lens) m3 s a ;; Ok (s, m4)).
Proof. exact shape4_Put_spec. Qed.
Print Assumptions C04_shape4_Put.

Theorem C04_shape4_Get : forall (lens : shape4) (s : ptr) (m : mem),
  shape4_Get lens s m =
  (a <- oget (shape4_a lens) m s ;;
   b <- oget (shape4_b lens) m s ;;
   c <- oget (shape4_c lens) m s ;;
   d <- oget (shape4_d lens) m s ;; Ok ((a, b, c, d), m)).
Proof. exact shape4_Get_spec. Qed.
Print Assumptions C04_shape4_Get.

Theorem C04_ForShape4 : forall (T A B C D : ty) (attr : list string),
  ForShape4 T A B C D attr =
  rmap (fun '(a, b, c, d) => mk_shape4 a b c d) (ForProduct4 T A B C D attr).
Proof. exact ForShape4_spec. Qed.
Print Assumptions C04_ForShape4.

Theorem C04_shape4_nfold : forall (lens : shape4) (s p : ptr) (a b c d : value) (m m' : mem) (na nb nc nd : nat) (fa fb fc fd : list (nat * nat)),
  focused (shape4_a lens) na fa ->
  focused (shape4_b lens) nb fb ->
  focused (shape4_c lens) nc fc ->
  focused (shape4_d lens) nd fd ->
  List.length a = na -> List.length b = nb -> List.length c = nc -> List.length d = nd ->
  ForallOrdPairs disjoint_fp [fa; fb; fc; fd] ->
  shape4_Put lens s a b c d m = Ok (p, m') ->
  p = s /\ shape4_Get lens s m' = Ok ((a, b, c, d), m') /\
  (forall i, outside (List.concat [fa; fb; fc; fd]) s i -> nth_error m' i = nth_error m i).
Proof. exact shape4_nfold. Qed.
Print Assumptions C04_shape4_nfold.

Theorem C04_shape5_Put : forall (lens : shape5) (s : ptr) (a b c d e : value) (m : mem),
  shape5_Put lens s a b c d e m =
  (m1 <- oput (shape5_e lens) m s e ;;
   m2 <- oput (shape5_d lens) m1 s d ;;
   m3 <- oput (shape5_c lens) m2 s c ;;
   m4 <- oput (shape5_b lens) m3 s b ;;
   m5 <- oput (shape5_a lens) m4 s a ;; Ok (s, m5)).
Proof. exact shape5_Put_spec. Qed.
Print Assumptions C04_shape5_Put.

Theorem C04_shape5_Get : forall (lens : shape5) (s : ptr) (m : mem),
  shape5_Get lens s m =
  (a <- oget (shape5_a lens) m s ;;
   b <- oget (shape5_b lens) m s ;;
   c <- oget (shape5_c lens) m s ;;
   d <- oget (shape5_d lens) m s ;;
   e <- oget (shape5_e lens) m s ;; Ok ((a, b, c, d, e), m)).
Proof. exact shape5_Get_spec. Qed.
Print Assumptions C04_shape5_Get.

Theorem C04_ForShape5 : forall (T A B C D E : ty) (attr : list string),
  ForShape5 T A B C D E attr =
  rmap (fun '(a, b, c, d, e) => mk_shape5 a b c d e) (ForProduct5 T A B C D E attr).
Proof. exact ForShape5_spec. Qed.
Print Assumptions C04_ForShape5.

Theorem C04_shape5_nfold : forall (lens : shape5) (s p : ptr) (a b c d e : value) (m m' : mem) (na nb nc nd ne : nat) (fa fb fc fd fe : list (nat * nat)),
  focused (shape5_a lens) na fa ->
  focused (shape5_b lens) nb fb ->
  focused (shape5_c lens) nc fc ->
  focused (shape5_d lens) nd fd ->
  focused (shape5_e lens) ne fe ->
  List.length a = na -> List.length b = nb -> List.length c = nc -> List.length d = nd -> List.length e = ne ->
  ForallOrdPairs disjoint_fp [fa; fb; fc; fd; fe] ->
  shape5_Put lens s a b c d e m = Ok (p, m') ->
  p = s /\ shape5_Get lens s m' = Ok ((a, b, c, d, e), m') /\
  (forall i, outside (List.concat [fa; fb; fc; fd; fe]) s i -> nth_error m' i = nth_error m i).
Proof. exact shape5_nfold. Qed.
Print Assumptions C04_shape5_nfold.

Theorem C04_shape6_Put : forall (lens : shape6) (s : ptr) (a b c d e f : value) (m : mem),
  shape6_Put lens s a b c d e f m =
  (m1 <- oput (shape6_f lens) m s f ;;
   m2 <- oput (shape6_e lens) m1 s e ;;
   m3 <- oput (shape6_d lens) m2 s d ;;
   m4 <- oput (shape6_c lens) m3 s c ;;
   m5 <- oput (shape6_b lens) m4 s b ;;
   m6 <- oput (shape6_a lens) m5 s a ;; Ok (s, m6)).
Proof. exact shape6_Put_spec. Qed.
Print Assumptions C04_shape6_Put.

Theorem C04_shape6_Get : forall (lens : shape6) (s : ptr) (m : mem),
  shape6_Get lens s m =
  (a <- oget (shape6_a lens) m s ;;
   b <- oget (shape6_b lens) m s ;;
   c <- oget (shape6_c lens) m s ;;
   d <- oget (shape6_d lens) m s ;;
   e <- oget (shape6_e lens) m s ;;
   f <- oget (shape6_f lens) m s ;; Ok ((a, b, c, d, e, f), m)).
Proof. exact shape6_Get_spec. Qed.
Print Assumptions C04_shape6_Get.

Theorem C04_ForShape6 : forall (T A B C D E F : ty) (attr : list string),
  ForShape6 T A B C D E F attr =
  rmap (fun '(a, b, c, d, e, f) => mk_shape6 a b c d e f) (ForProduct6 T A B C D E F attr).
Proof. exact ForShape6_spec. Qed.
Print Assumptions C04_ForShape6.

Theorem C04_shape6_nfold : forall (lens : shape6) (s p : ptr) (a b c d e f : value) (m m' : mem) (na nb nc nd ne nf : nat) (fa fb fc fd fe ff : list (nat * nat)),
  focused (shape6_a lens) na fa ->
  focused (shape6_b lens) nb fb ->
  focused (shape6_c lens) nc fc ->
  focused (shape6_d lens) nd fd ->
  focused (shape6_e lens) ne fe ->
  focused (shape6_f lens) nf ff ->
  List.length a = na -> List.length b = nb -> List.length c = nc -> List.length d = nd -> List.length e = ne -> List.length f = nf ->
  ForallOrdPairs disjoint_fp [fa; fb; fc; fd; fe; ff] ->
  shape6_Put lens s a b c d e f m = Ok (p, m') ->
  p = s /\ shape6_Get lens s m' = Ok ((a, b, c, d, e, f), m') /\
  (forall i, outside (List.concat [fa; fb; fc; fd; fe; ff]) s i -> nth_error m' i = nth_error m i).
Proof. exact shape6_nfold. Qed.
Print Assumptions C04_shape6_nfold.

Theorem C04_shape7_Put : forall (lens : shape7) (s : ptr) (a b c d e f g : value) (m : mem),
  shape7_Put lens s a b c d e f g m =
  (m1 <- oput (shape7_g lens) m s g ;;
   m2 <- oput (shape7_f lens) m1 s f ;;
   m3 <- oput (shape7_e lens) m2 s e ;;
   m4 <- oput (shape7_d lens) m3 s d ;;
   m5 <- oput (shape7_c lens) m4 s c ;;
   m6 <- oput (shape7_b lens) m5 s b ;;
   m7 <- oput (shape7_a lens) m6 s a ;; Ok (s, m7)).
Proof. exact shape7_Put_spec. Qed.
Print Assumptions C04_shape7_Put.

Theorem C04_shape7_Get : forall (lens : shape7) (s : ptr) (m : mem),
  shape7_Get lens s m =
  (a <- oget (shape7_a lens) m s ;;
   b <- oget (shape7_b lens) m s ;;
   c <- oget (shape7_c lens) m s ;;
   d <- oget (shape7_d lens) m s ;;
   e <- oget (shape7_e lens) m s ;;
   f <- oget (shape7_f lens) m s ;;
   g <- oget (shape7_g lens) m s ;; Ok ((a, b, c, d, e, f, g), m)).
Proof. exact shape7_Get_spec. Qed.
Print Assumptions C04_shape7_Get.

Theorem C04_ForShape7 : forall (T A B C D E F G : ty) (attr : list string),
  ForShape7 T A B C D E F G attr =
  rmap (fun '(a, b, c, d, e, f, g) => mk_shape7 a b c d e f g) (ForProduct7 T A B C D E F G attr).
Proof. exact ForShape7_spec. Qed.
Print Assumptions C04_ForShape7.

Theorem C04_shape7_nfold : forall (lens : shape7) (s p : ptr) (a b c d e f g : value) (m m' : mem) (na nb nc nd ne nf ng : nat) (fa fb fc fd fe ff fg : list (nat * nat)),
  focused (shape7_a lens) na fa ->
  focused (shape7_b lens) nb fb ->
  focused (shape7_c lens) nc fc ->
  focused (shape7_d lens) nd fd ->
  focused (shape7_e lens) ne fe ->
  focused (shape7_f lens) nf ff ->
  focused (shape7_g lens) ng fg ->
  List.length a = na -> List.length b = nb -> List.length c = nc -> List.length d = nd -> List.length e = ne -> List.length f = nf -> List.length g = ng ->
  ForallOrdPairs disjoint_fp [fa; fb; fc; fd; fe; ff; fg] ->
  shape7_Put lens s a b c d e f g m = Ok (p, m') ->
  p = s /\ shape7_Get lens s m' = Ok ((a, b, c, d, e, f, g), m') /\
  (forall i, outside (List.concat [fa; fb; fc; fd; fe; ff; fg]) s i -> nth_error m' i = nth_error m i).
Proof. exact shape7_nfold. Qed.
Print Assumptions C04_shape7_nfold.

Theorem C04_shape8_Put : forall (lens : shape8) (s : ptr) (a b c d e f g h : value) (m : mem),
  shape8_Put lens s a b c d e f g h m =
  (m1 <- oput (shape8_h lens) m s h ;;
   m2 <- oput (shape8_g lens) m1 s g ;;
   m3 <- oput (shape8_f lens) m2 s f ;;
   m4 <- oput (shape8_e lens) m3 s e ;;
   m5 <- oput (shape8_d lens) m4 s d ;;
   m6 <- oput (shape8_c lens) m5 s c ;;
   m7 <- oput (shape8_b lens) m6 s b ;;
   m8 <- oput (shape8_a lens) m7 s a ;; Ok (s, m8)).
Proof. exact shape8_Put_spec. Qed.
Print Assumptions C04_shape8_Put.

Theorem C04_shape8_Get : forall (lens : shape8) (s : ptr) (m : mem),
  shape8_Get lens s m =
  (a <- oget (shape8_a lens) m s ;;
   b <- oget (shape8_b lens) m s ;;
   c <- oget (shape8_c lens) m s ;;
   d <- oget (shape8_d lens) m s ;;
   e <- oget (shape8_e lens) m s ;;
   f <- oget (shape8_f lens) m s ;;
   g <- oget (shape8_g lens) m s ;;
   h <- oget (shape8_h lens) m s ;; Ok ((a, b, c, d, e, f, g, h), m)).
Proof. exact shape8_Get_spec. Qed.
Print Assumptions C04_shape8_Get.

Theorem C04_ForShape8 : forall (T A B C D E F G H : ty) (attr : list string),
  ForShape8 T A B C D E F G H attr =
  rmap (fun '(a, b, c, d, e, f, g, h) => mk_shape8 a b c d e f g h) (ForProduct8 T A B C D E F G H attr).
Proof. exact ForShape8_spec. Qed.
Print Assumptions C04_ForShape8.

Theorem C04_shape8_nfold : forall (lens : shape8) (s p : ptr) (a b c d e f g h : value) (m m' : mem) (na nb nc nd ne nf ng nh : nat) (fa fb fc fd fe ff fg fh : list (nat * nat)),
  focused (shape8_a lens) na fa ->
  focused (shape8_b lens) nb fb ->
  focused (shape8_c lens) nc fc ->
  focused (shape8_d lens) nd fd ->
  focused (shape8_e lens) ne fe ->
  focused (shape8_f lens) nf ff ->
  focused (shape8_g lens) ng fg ->
  focused (shape8_h lens) nh fh ->
  List.length a = na -> List.length b = nb -> List.length c = nc -> List.length d = nd -> List.length e = ne -> List.length f = nf -> List.length g = ng -> List.length h = nh ->
  ForallOrdPairs disjoint_fp [fa; fb; fc; fd; fe; ff; fg; fh] ->
  shape8_Put lens s a b c d e f g h m = Ok (p, m') ->
  p = s /\ shape8_Get lens s m' = Ok ((a, b, c, d, e, f, g, h), m') /\
  (forall i, outside (List.concat [fa; fb; fc; fd; fe; ff; fg; fh]) s i -> nth_error m' i = nth_error m i).
Proof. exact shape8_nfold. Qed.
Print Assumptions C04_shape8_nfold.

Theorem C04_shape9_Put : forall (lens : shape9) (s : ptr) (a b c d e f g h i : value) (m : mem),
  shape9_Put lens s a b c d e f g h i m =
  (m1 <- oput (shape9_i lens) m s i ;;
   m2 <- oput (shape9_h lens) m1 s h ;;
   m3 <- oput (shape9_g lens) m2 s g ;;
   m4 <- oput (shape9_f lens) m3 s f ;;
   m5 <- oput (shape9_e lens) m4 s e ;;
   m6 <- oput (shape9_d lens) m5 s d ;;
   m7 <- oput (shape9_c lens) m6 s c ;;
   m8 <- oput (shape9_b lens) m7 s b ;;
   m9 <- oput (shape9_a lens) m8 s a ;; Ok (s, m9)).
Proof. exact shape9_Put_spec. Qed.
Print Assumptions C04_shape9_Put.

Theorem C04_shape9_Get : forall (lens : shape9) (s : ptr) (m : mem),
  shape9_Get lens s m =
  (a <- oget (shape9_a lens) m s ;;
   b <- oget (shape9_b lens) m s ;;
   c <- oget (shape9_c lens) m s ;;
   d <- oget (shape9_d lens) m s ;;
   e <- oget (shape9_e lens) m s ;;
   f <- oget (shape9_f lens) m s ;;
   g <- oget (shape9_g lens) m s ;;
   h <- oget (shape9_h lens) m s ;;
   i <- oget (shape9_i lens) m s ;; Ok ((a, b, c, d, e, f, g, h, i), m)).
Proof. exact shape9_Get_spec. Qed.
Print Assumptions C04_shape9_Get.

Theorem C04_ForShape9 : forall (T A B C D E F G H I : ty) (attr : list string),
  ForShape9 T A B C D E F G H I attr =
  rmap (fun '(a, b, c, d, e, f, g, h, i) => mk_shape9 a b c d e f g h i) (ForProduct9 T A B C D E F G H I attr).
Proof. exact ForShape9_spec. Qed.
Print Assumptions C04_ForShape9.

Theorem C04_shape9_nfold : forall (lens : shape9) (s p : ptr) (a b c d e f g h i : value) (m m' : mem) (na nb nc nd ne nf ng nh ni : nat) (fa fb fc fd fe ff fg fh fi : list (nat * nat)),
  focused (shape9_a lens) na fa ->
  focused (shape9_b lens) nb fb ->
  focused (shape9_c lens) nc fc ->
  focused (shape9_d lens) nd fd ->
  focused (shape9_e lens) ne fe ->
  focused (shape9_f lens) nf ff ->
  focused (shape9_g lens) ng fg ->
  focused (shape9_h lens) nh fh ->
  focused (shape9_i lens) ni fi ->
  List.length a = na -> List.length b = nb -> List.length c = nc -> List.length d = nd -> List.length e = ne -> List.length f = nf -> List.length g = ng -> List.length h = nh -> List.length i = ni ->
  ForallOrdPairs disjoint_fp [fa; fb; fc; fd; fe; ff; fg; fh; fi] ->
  shape9_Put lens s a b c d e f g h i m = Ok (p, m') ->
  p = s /\ shape9_Get lens s m' = Ok ((a, b, c, d, e, f, g, h, i), m') /\
  (forall i, outside (List.concat [fa; fb; fc; fd; fe; ff; fg; fh; fi]) s i -> nth_error m' i = nth_error m i).
Proof. exact shape9_nfold. Qed.
Print Assumptions C04_shape9_nfold.


(* ---- non-vacuity ------------------------------------------------------------------------------------------- *)
(* Join of depth 3 on K2 (K2A -> K2B -> K2C -> S): reads bytes 132..147 of the arena, writes only them *)
Example C04_ex_join_depth3 :
  match ForProduct1 K2 K2A [], ForProduct1 K2A K2B [], ForProduct1 K2B K2C [], ForProduct1 K2C t_string ["S"]%string with
  | Ok a, Ok b, Ok c, Ok d =>
      let j := Join (Join (Join a b) c) d in
      (oget j k2_arena k2_base,
       oput j k2_arena k2_base (repeat 7%Z 16))
  | _, _, _, _ => (Panic, Panic)
  end = (Ok (map Z.of_nat (seq 132 16)),
         Ok (guard ++ map Z.of_nat (seq 100 32) ++ repeat 7%Z 16 ++ map Z.of_nat (seq 148 40) ++ guard)).
Proof. vm_compute. reflexivity. Qed.

(* morphism_needs_disjoint_targets: two isos with the same target focus (KAB = struct { A, B int64 }: A -> A and
   B -> A, Optics/CombWitness.v) cannot round-trip: after Forward; Inverse the source field A holds the value of B *)
Theorem C04_morphism_needs_disjoint_targets :
  exists w1 w2, morphism_forward w_seq w_start = Ok w1 /\ morphism_inverse w_seq w1 = Ok w2 /\ ms w2 <> ms w_start.
Proof. exact morphism_needs_disjoint_targets. Qed.
Print Assumptions C04_morphism_needs_disjoint_targets.

(* join_frame_needs_positional (Optics/CombWitness.v): KO = struct { P struct { X, Y int8 } }; outer optic = the field P
   through a conversion that swaps its two bytes (lawful, framed by the field), inner optic = the field X; a Put through
   the Join changes byte 1 of the arena, outside the inner focus placed at the outer offset *)
Theorem C04_join_frame_needs_positional : exists a b,
  swap_join = Ok (Join (BiMap a (@rev byte) (@rev byte)) b) /\
  lawful (BiMap a (@rev byte) (@rev byte)) 2 /\ framed (BiMap a (@rev byte) (@rev byte)) 2 [(0, 2)] /\
  framed b 1 [(0, 1)] /\
  ~ framed (Join (BiMap a (@rev byte) (@rev byte)) b) 1 (map (fun r => (0 + fst r, snd r)) [(0, 1)]).
Proof. exact join_frame_needs_positional. Qed.
Print Assumptions C04_join_frame_needs_positional.

(* .. while that list satisfies the other hypothesis of C04_morphism_roundtrip, and fails this one *)
Theorem C04_witness_entries_ok : forall i, In (Some i) w_seq ->
  lawful (i_sa i) 8 /\ focused (i_ta i) 8 (footprint (i_ta i)).
Proof. exact w_seq_entries_ok. Qed.
Print Assumptions C04_witness_entries_ok.

Theorem C04_witness_targets_overlap : exists i j, w_seq = [Some i; Some j] /\ i <> j /\
  footprint (i_ta i) = [(0, 8)] /\ footprint (i_ta j) = [(0, 8)].
Proof. exact w_seq_targets_overlap. Qed.
Print Assumptions C04_witness_targets_overlap.

(* the hypotheses of C04_morphism_roundtrip hold for a list with nil entries, two different isos (A -> B, B -> A) and a
   repeated entry, on which Forward swaps the fields into the target and the theorem applies *)
Example C04_ex_morphism_hyps :
  (forall i, In (Some i) r_seq -> lawful (i_sa i) 8 /\ focused (i_ta i) 8 (footprint (i_ta i))) /\
  (forall i j, In (Some i) r_seq -> In (Some j) r_seq -> i = j \/ disjoint_fp (footprint (i_ta i)) (footprint (i_ta j))) /\
  (exists w1, morphism_forward r_seq w_start = Ok w1 /\ mt w1 = (repeat 2%Z 8 ++ repeat 1%Z 8)%list /\
              morphism_inverse r_seq w1 = Ok w1).
Proof. exact (conj r_seq_entries_ok (conj r_seq_targets_ok r_seq_runs)). Qed.

Example C04_ex_morphism_roundtrip : forall w1 w2,
  morphism_forward r_seq w_start = Ok w1 -> morphism_inverse r_seq w1 = Ok w2 ->
  ms w2 = ms w_start /\ mt w2 = mt w1 /\ (forall k, 16 <= k -> nth_error (mt w2) k = nth_error (mt w_start) k).
Proof. exact r_seq_roundtrip. Qed.

(* .. and so do the hypotheses of C04_morphism_transport; the way back into a structure full of 9s copies A and B *)
Example C04_ex_morphism_transport :
  (forall i, In (Some i) r_seq -> focused (i_sa i) 8 (footprint (i_sa i)) /\ transports (i_sa i) (footprint (i_sa i)) /\
                                  focused (i_ta i) 8 (footprint (i_ta i))) /\
  (exists w1 w2, morphism_forward r_seq w_start = Ok w1 /\
     morphism_inverse r_seq (mkTwo (repeat 9%Z 16) (ps w_start) (mt w1) (pt w1)) = Ok w2 /\ ms w2 = ms w_start).
Proof. exact (conj r_seq_transport_ok r_seq_transport_runs). Qed.

(* the hypotheses of C04_shape2_nfold hold for the lenses ForShape2 derives on KAB *)
Example C04_ex_shape2_hyps : exists lens,
  ForShape2 KAB t_int64 t_int64 ["A"; "B"]%string = Ok lens /\
  focused (shape2_a lens) 8 [(0, 8)] /\ focused (shape2_b lens) 8 [(8, 8)] /\
  ForallOrdPairs disjoint_fp [[(0, 8)]; [(8, 8)]] /\
  shape2_Put lens 0 (repeat 7%Z 8) (repeat 9%Z 8) (repeat 0%Z 16) = Ok (0, (repeat 7%Z 8 ++ repeat 9%Z 8)%list).
Proof. exact shape2_hyps_ok. Qed.

(* the Join chain of depth 3 above is positional: its computed footprint (the 16 bytes of S) is its frame *)
Example C04_ex_chain_framed :
  match ForProduct1 K2 K2A [], ForProduct1 K2A K2B [], ForProduct1 K2B K2C [], ForProduct1 K2C t_string ["S"]%string with
  | Ok a, Ok b, Ok c, Ok d =>
      let j := Join (Join (Join a b) c) d in footprint j = [(32, 16)] /\ framed j 16 (footprint j)
  | _, _, _, _ => False
  end.
Proof. exact k2_chain_framed. Qed.
