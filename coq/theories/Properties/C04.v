(* C04 - composed optics are lawful and touch only their component foci.
   Nothing but the property theorems: each closed by [exact] of a lemma and followed by Print Assumptions,
   plus non-vacuity examples.  Optics are syntax (Optics/Combinators.v: Field | Join | BiMap | Getter | Setter)
   interpreted on byte arenas, transcribing /repo/optics/lens.go (join) and iso.go (fmap, cmap, codec, iso, morphism);
   shape2..9 / ForShape2..9 are regenerated from optics/shape.go on every run (coq/gen/GenShape.v).
   [lawful o n]: on every arena and at every address o obeys GetPut, PutGet, PutPut for values of n bytes.
   [framed o n fp]: a Put of an n-byte value changes no byte of the arena outside the ranges fp.

   PARTIAL (statements of DESIGN 3/C04 that are NOT proved here; the oracle of Check/C04o.v checks them on every
   explored case):
   * join_frame in full: "inside the outer focus only the inner focus changes" - proved is C04_join_frame_partial
     (nothing outside the OUTER focus changes) and, through C04_join_lawful, that the inner optic reads back;
   * shapeN consequences: "with pairwise disjoint component foci every component reads back its own argument and bytes
     outside the union of foci are unchanged" - proved is, per arity, that shapeN.Put IS the sequence of component puts
     (last component first) and shapeN.Get the tuple of component gets (C04_shapeN_Put/Get), from which it follows by
     C01_put_other_fields, but the N-fold consequence itself is not stated as a theorem;
   * morphism_roundtrip for lists with several different isos under the disjoint-targets hypothesis - proved is
     C04_morphism_roundtrip_partial (one iso, any number of nil entries), C04_iso_roundtrip, C04_iso_transport and that
     the hypothesis is necessary (C04_morphism_needs_disjoint_targets).
   (Assembled by tools/scripts/gen_properties.py from tools/scripts/properties_src/C04.v.in.) *)
From Coq Require Import List String Bool Arith ZArith.
From Golem Require Import Optics.GenPrelude Optics.LayoutFacts Optics.HseqFacts Optics.LensFacts Optics.CombFacts
  Optics.GenHseqFacts Optics.GenShapeFacts Optics.Examples Optics.CombWitness.
From GolemGen Require Import GenHseq GenOptics GenShape.
Import ListNotations.
Open Scope res_scope.

(* every field lens is lawful and framed by its field *)
Theorem C04_field_lawful : forall l, lawful (Field l) (sizeof (l_A l)).
Proof. exact field_lawful. Qed.
Print Assumptions C04_field_lawful.

Theorem C04_field_framed : forall l, framed (Field l) (sizeof (l_A l)) [(e_off (l_t l) + e_root (l_t l), sizeof (l_A l))].
Proof. exact field_framed. Qed.
Print Assumptions C04_field_framed.

(* Join of two lawful optics is a lawful optic on the nested value (the three laws, any nesting depth by iteration) *)
Theorem C04_join_lawful : forall a b nA nB, lawful a nA -> lawful b nB -> lawful (Join a b) nB.
Proof. exact join_lawful. Qed.
Print Assumptions C04_join_lawful.

Theorem C04_join_frame_partial : forall a b nA nB fp, lawful a nA -> framed a nA fp -> framed (Join a b) nB fp.
Proof. exact join_frame_outer. Qed.
Print Assumptions C04_join_frame_partial.

(* BiMap (and BiMapS/B/I/F as instances) with mutually inverse conversions obeys the laws on the converted value *)
Theorem C04_bimap_lawful : forall o f g nA nB,
  lawful o nA ->
  (forall a, List.length a = nA -> g (f a) = a /\ List.length (f a) = nB) ->
  (forall b, List.length b = nB -> f (g b) = b /\ List.length (g b) = nA) ->
  lawful (BiMap o f g) nB.
Proof. exact bimap_lawful. Qed.
Print Assumptions C04_bimap_lawful.

Theorem C04_bimap_framed : forall o f g nA nB fp, (forall b, List.length b = nB -> List.length (g b) = nA) ->
  framed o nA fp -> framed (BiMap o f g) nB fp.
Proof. exact bimap_framed. Qed.
Print Assumptions C04_bimap_framed.

Theorem C04_getter_never_writes : forall o f m s x,
  oput (Getter o f) m s x = Ok m /\ oget (Getter o f) m s = rmap f (oget o m s).
Proof. exact getter_never_writes. Qed.
Print Assumptions C04_getter_never_writes.

Theorem C04_setter_writes_cmap : forall o g z m s x,
  oput (Setter o g z) m s x = oput o m s (g x) /\ oget (Setter o g z) m s = Ok z.
Proof. exact setter_writes_cmap. Qed.
Print Assumptions C04_setter_writes_cmap.

Theorem C04_put_keeps_arena_size : forall o m s x m', oput o m s x = Ok m' -> List.length m' = List.length m.
Proof. exact oput_length. Qed.
Print Assumptions C04_put_keeps_arena_size.

(* a map lens touches only its key (maps as association lists, any key type with decidable equality) *)
Theorem C04_mapkey_frame : forall (K V : Type) (keqb : K -> K -> bool), (forall a b, keqb a b = true <-> a = b) ->
  forall (zero : V) (m : list (K * V)) k v,
    mapkey_get keqb zero k (mapkey_put keqb k m v) = v /\
    forall k', k' <> k -> map_get keqb (mapkey_put keqb k m v) k' = map_get keqb m k'.
Proof. exact (@mapkey_frame). Qed.
Print Assumptions C04_mapkey_frame.

(* Iso: Forward then Inverse restores the source structure entirely and leaves the target as Forward made it *)
Theorem C04_iso_roundtrip : forall i n w w1 w2, lawful (i_sa i) n -> lawful (i_ta i) n ->
  iso_forward i w = Ok w1 -> iso_inverse i w1 = Ok w2 ->
  ms w2 = ms w /\ mt w2 = mt w1 /\ ms w1 = ms w /\ ps w2 = ps w /\ pt w2 = pt w.
Proof. exact iso_roundtrip. Qed.
Print Assumptions C04_iso_roundtrip.

(* .. and the way back into another source structure m2 gives it the source focus of the original *)
Theorem C04_iso_transport : forall i n w w1 m2 w2, lawful (i_sa i) n -> lawful (i_ta i) n ->
  iso_forward i w = Ok w1 -> iso_inverse i (mkTwo m2 (ps w) (mt w1) (pt w1)) = Ok w2 ->
  oget (i_sa i) (ms w2) (ps w) = oget (i_sa i) (ms w) (ps w).
Proof. exact iso_transport. Qed.
Print Assumptions C04_iso_transport.

Theorem C04_morphism_skips_nil : forall seq w,
  morphism_forward (None :: seq) w = morphism_forward seq w /\ morphism_inverse (None :: seq) w = morphism_inverse seq w.
Proof. exact morphism_skips_nil. Qed.
Print Assumptions C04_morphism_skips_nil.

Theorem C04_morphism_roundtrip_partial : forall i n w w1 w2 k1 k2, lawful (i_sa i) n -> lawful (i_ta i) n ->
  let seq := repeat None k1 ++ Some i :: repeat None k2 in
  morphism_forward seq w = Ok w1 -> morphism_inverse seq w1 = Ok w2 ->
  ms w2 = ms w /\ mt w2 = mt w1.
Proof. exact morphism_roundtrip_single. Qed.
Print Assumptions C04_morphism_roundtrip_partial.

(* ---- per arity (N = 2..9), about the definitions regenerated from optics/shape.go: shapeN.Put = the component puts,
        last component first, returning the pointer it was given; shapeN.Get = the tuple of component gets in order;
        ForShapeN = ForProductN packed into the record ---------------------------------------------------------- *)
Theorem C04_shape2_Put : forall (lens : shape2) (s : ptr) (a b : value) (m : mem),
  shape2_Put lens s a b m =
  (m1 <- oput (shape2_b lens) m s b ;;
   m2 <- oput (shape2_a lens) m1 s a ;; Ok (s, m2)).
Proof. exact shape2_Put_spec. Qed.
Print Assumptions C04_shape2_Put.

Theorem C04_shape2_Get : forall (lens : shape2) (s : ptr) (m : mem),
  shape2_Get lens s m =
  (a <- oget (shape2_a lens) m s ;;
   b <- oget (shape2_b lens) m s ;; Ok ((a, b), m)).
Proof. exact shape2_Get_spec. Qed.
Print Assumptions C04_shape2_Get.

Theorem C04_ForShape2 : forall (T A B : ty) (attr : list string),
  ForShape2 T A B attr =
  rmap (fun '(a, b) => mk_shape2 a b) (ForProduct2 T A B attr).
Proof. exact ForShape2_spec. Qed.
Print Assumptions C04_ForShape2.

Theorem C04_shape3_Put : forall (lens : shape3) (s : ptr) (a b c : value) (m : mem),
  shape3_Put lens s a b c m =
  (m1 <- oput (shape3_c lens) m s c ;;
   m2 <- oput (shape3_b lens) m1 s b ;;
   m3 <- oput (shape3_a lens) m2 s a ;; Ok (s, m3)).
Proof. exact shape3_Put_spec. Qed.
Print Assumptions C04_shape3_Put.

Theorem C04_shape3_Get : forall (lens : shape3) (s : ptr) (m : mem),
  shape3_Get lens s m =
  (a <- oget (shape3_a lens) m s ;;
   b <- oget (shape3_b lens) m s ;;
   c <- oget (shape3_c lens) m s ;; Ok ((a, b, c), m)).
Proof. exact shape3_Get_spec. Qed.
Print Assumptions C04_shape3_Get.

Theorem C04_ForShape3 : forall (T A B C : ty) (attr : list string),
  ForShape3 T A B C attr =
  rmap (fun '(a, b, c) => mk_shape3 a b c) (ForProduct3 T A B C attr).
Proof. exact ForShape3_spec. Qed.
Print Assumptions C04_ForShape3.

Theorem C04_shape4_Put : forall (lens : shape4) (s : ptr) (a b c d : value) (m : mem),
  shape4_Put lens s a b c d m =
  (m1 <- oput (shape4_d lens) m s d ;;
   m2 <- oput (shape4_c lens) m1 s c ;;
   m3 <- oput (shape4_b lens) m2 s b ;;
   m4 <- oput (shape4_a lens) m3 s a ;; Ok (s, m4)).
Proof. exact shape4_Put_spec. Qed.
Print Assumptions C04_shape4_Put.

Theorem C04_shape4_Get : forall (lens : shape4) (s : ptr) (m : mem),
  shape4_Get lens s m =
  (a <- oget (shape4_a lens) m s ;;
   b <- oget (shape4_b lens) m s ;;
   c <- oget (shape4_c lens) m s ;;
   d <- oget (shape4_d lens) m s ;; Ok ((a, b, c, d), m)).
Proof. exact shape4_Get_spec. Qed.
Print Assumptions C04_shape4_Get.

Theorem C04_ForShape4 : forall (T A B C D : ty) (attr : list string),
  ForShape4 T A B C D attr =
  rmap (fun '(a, b, c, d) => mk_shape4 a b c d) (ForProduct4 T A B C D attr).
Proof. exact ForShape4_spec. Qed.
Print Assumptions C04_ForShape4.

Theorem C04_shape5_Put : forall (lens : shape5) (s : ptr) (a b c d e : value) (m : mem),
  shape5_Put lens s a b c d e m =
  (m1 <- oput (shape5_e lens) m s e ;;
   m2 <- oput (shape5_d lens) m1 s d ;;
   m3 <- oput (shape5_c lens) m2 s c ;;
   m4 <- oput (shape5_b lens) m3 s b ;;
   m5 <- oput (shape5_a lens) m4 s a ;; Ok (s, m5)).
Proof. exact shape5_Put_spec. Qed.
Print Assumptions C04_shape5_Put.

Theorem C04_shape5_Get : forall (lens : shape5) (s : ptr) (m : mem),
  shape5_Get lens s m =
  (a <- oget (shape5_a lens) m s ;;
   b <- oget (shape5_b lens) m s ;;
   c <- oget (shape5_c lens) m s ;;
   d <- oget (shape5_d lens) m s ;;
   e <- oget (shape5_e lens) m s ;; Ok ((a, b, c, d, e), m)).
Proof. exact shape5_Get_spec. Qed.
Print Assumptions C04_shape5_Get.

Theorem C04_ForShape5 : forall (T A B C D E : ty) (attr : list string),
  ForShape5 T A B C D E attr =
  rmap (fun '(a, b, c, d, e) => mk_shape5 a b c d e) (ForProduct5 T A B C D E attr).
Proof. exact ForShape5_spec. Qed.
Print Assumptions C04_ForShape5.

Theorem C04_shape6_Put : forall (lens : shape6) (s : ptr) (a b c d e f : value) (m : mem),
  shape6_Put lens s a b c d e f m =
  (m1 <- oput (shape6_f lens) m s f ;;
   m2 <- oput (shape6_e lens) m1 s e ;;
   m3 <- oput (shape6_d lens) m2 s d ;;
   m4 <- oput (shape6_c lens) m3 s c ;;
   m5 <- oput (shape6_b lens) m4 s b ;;
   m6 <- oput (shape6_a lens) m5 s a ;; Ok (s, m6)).
Proof. exact shape6_Put_spec. Qed.
Print Assumptions C04_shape6_Put.

Theorem C04_shape6_Get : forall (lens : shape6) (s : ptr) (m : mem),
  shape6_Get lens s m =
  (a <- oget (shape6_a lens) m s ;;
   b <- oget (shape6_b lens) m s ;;
   c <- oget (shape6_c lens) m s ;;
   d <- oget (shape6_d lens) m s ;;
   e <- oget (shape6_e lens) m s ;;
   f <- oget (shape6_f lens) m s ;; Ok ((a, b, c, d, e, f), m)).
Proof. exact shape6_Get_spec. Qed.
Print Assumptions C04_shape6_Get.

Theorem C04_ForShape6 : forall (T A B C D E F : ty) (attr : list string),
  ForShape6 T A B C D E F attr =
  rmap (fun '(a, b, c, d, e, f) => mk_shape6 a b c d e f) (ForProduct6 T A B C D E F attr).
Proof. exact ForShape6_spec. Qed.
Print Assumptions C04_ForShape6.

Theorem C04_shape7_Put : forall (lens : shape7) (s : ptr) (a b c d e f g : value) (m : mem),
  shape7_Put lens s a b c d e f g m =
  (m1 <- oput (shape7_g lens) m s g ;;
   m2 <- oput (shape7_f lens) m1 s f ;;
   m3 <- oput (shape7_e lens) m2 s e ;;
   m4 <- oput (shape7_d lens) m3 s d ;;
   m5 <- oput (shape7_c lens) m4 s c ;;
   m6 <- oput (shape7_b lens) m5 s b ;;
   m7 <- oput (shape7_a lens) m6 s a ;; Ok (s, m7)).
Proof. exact shape7_Put_spec. Qed.
Print Assumptions C04_shape7_Put.

Theorem C04_shape7_Get : forall (lens : shape7) (s : ptr) (m : mem),
  shape7_Get lens s m =
  (a <- oget (shape7_a lens) m s ;;
   b <- oget (shape7_b lens) m s ;;
   c <- oget (shape7_c lens) m s ;;
   d <- oget (shape7_d lens) m s ;;
   e <- oget (shape7_e lens) m s ;;
   f <- oget (shape7_f lens) m s ;;
   g <- oget (shape7_g lens) m s ;; Ok ((a, b, c, d, e, f, g), m)).
Proof. exact shape7_Get_spec. Qed.
Print Assumptions C04_shape7_Get.

Theorem C04_ForShape7 : forall (T A B C D E F G : ty) (attr : list string),
  ForShape7 T A B C D E F G attr =
  rmap (fun '(a, b, c, d, e, f, g) => mk_shape7 a b c d e f g) (ForProduct7 T A B C D E F G attr).
Proof. exact ForShape7_spec. Qed.
Print Assumptions C04_ForShape7.

Theorem C04_shape8_Put : forall (lens : shape8) (s : ptr) (a b c d e f g h : value) (m : mem),
  shape8_Put lens s a b c d e f g h m =
  (m1 <- oput (shape8_h lens) m s h ;;
   m2 <- oput (shape8_g lens) m1 s g ;;
   m3 <- oput (shape8_f lens) m2 s f ;;
   m4 <- oput (shape8_e lens) m3 s e ;;
   m5 <- oput (shape8_d lens) m4 s d ;;
   m6 <- oput (shape8_c lens) m5 s c ;;
   m7 <- oput (shape8_b lens) m6 s b ;;
   m8 <- oput (shape8_a lens) m7 s a ;; Ok (s, m8)).
Proof. exact shape8_Put_spec. Qed.
Print Assumptions C04_shape8_Put.

Theorem C04_shape8_Get : forall (lens : shape8) (s : ptr) (m : mem),
  shape8_Get lens s m =
  (a <- oget (shape8_a lens) m s ;;
   b <- oget (shape8_b lens) m s ;;
   c <- oget (shape8_c lens) m s ;;
   d <- oget (shape8_d lens) m s ;;
   e <- oget (shape8_e lens) m s ;;
   f <- oget (shape8_f lens) m s ;;
   g <- oget (shape8_g lens) m s ;;
   h <- oget (shape8_h lens) m s ;; Ok ((a, b, c, d, e, f, g, h), m)).
Proof. exact shape8_Get_spec. Qed.
Print Assumptions C04_shape8_Get.

Theorem C04_ForShape8 : forall (T A B C D E F G H : ty) (attr : list string),
  ForShape8 T A B C D E F G H attr =
  rmap (fun '(a, b, c, d, e, f, g, h) => mk_shape8 a b c d e f g h) (ForProduct8 T A B C D E F G H attr).
Proof. exact ForShape8_spec. Qed.
Print Assumptions C04_ForShape8.

Theorem C04_shape9_Put : forall (lens : shape9) (s : ptr) (a b c d e f g h i : value) (m : mem),
  shape9_Put lens s a b c d e f g h i m =
  (m1 <- oput (shape9_i lens) m s i ;;
   m2 <- oput (shape9_h lens) m1 s h ;;
   m3 <- oput (shape9_g lens) m2 s g ;;
   m4 <- oput (shape9_f lens) m3 s f ;;
   m5 <- oput (shape9_e lens) m4 s e ;;
   m6 <- oput (shape9_d lens) m5 s d ;;
   m7 <- oput (shape9_c lens) m6 s c ;;
   m8 <- oput (shape9_b lens) m7 s b ;;
   m9 <- oput (shape9_a lens) m8 s a ;; Ok (s, m9)).
Proof. exact shape9_Put_spec. Qed.
Print Assumptions C04_shape9_Put.

Theorem C04_shape9_Get : forall (lens : shape9) (s : ptr) (m : mem),
  shape9_Get lens s m =
  (a <- oget (shape9_a lens) m s ;;
   b <- oget (shape9_b lens) m s ;;
   c <- oget (shape9_c lens) m s ;;
   d <- oget (shape9_d lens) m s ;;
   e <- oget (shape9_e lens) m s ;;
   f <- oget (shape9_f lens) m s ;;
   g <- oget (shape9_g lens) m s ;;
   h <- oget (shape9_h lens) m s ;;
   i <- oget (shape9_i lens) m s ;; Ok ((a, b, c, d, e, f, g, h, i), m)).
Proof. exact shape9_Get_spec. Qed.
Print Assumptions C04_shape9_Get.

Theorem C04_ForShape9 : forall (T A B C D E F G H I : ty) (attr : list string),
  ForShape9 T A B C D E F G H I attr =
  rmap (fun '(a, b, c, d, e, f, g, h, i) => mk_shape9 a b c d e f g h i) (ForProduct9 T A B C D E F G H I attr).
Proof. exact ForShape9_spec. Qed.
Print Assumptions C04_ForShape9.


(* ---- non-vacuity ------------------------------------------------------------------------------------------- *)
(* Join of depth 3 on K2 (K2A -> K2B -> K2C -> S): reads bytes 132..147 of the arena, writes only them *)
Example C04_ex_join_depth3 :
  match ForProduct1 K2 K2A [], ForProduct1 K2A K2B [], ForProduct1 K2B K2C [], ForProduct1 K2C t_string ["S"]%string with
  | Ok a, Ok b, Ok c, Ok d =>
      let j := Join (Join (Join a b) c) d in
      (oget j k2_arena k2_base,
       oput j k2_arena k2_base (repeat 7%Z 16))
  | _, _, _, _ => (Panic, Panic)
  end = (Ok (map Z.of_nat (seq 132 16)),
         Ok (guard ++ map Z.of_nat (seq 100 32) ++ repeat 7%Z 16 ++ map Z.of_nat (seq 148 40) ++ guard)).
Proof. vm_compute. reflexivity. Qed.

(* morphism_needs_disjoint_targets: two isos with the same target focus (KAB = struct { A, B int64 }: A -> A and
   B -> A, Optics/CombWitness.v) cannot round-trip: after Forward; Inverse the source field A holds the value of B *)
Theorem C04_morphism_needs_disjoint_targets :
  exists w1 w2, morphism_forward w_seq w_start = Ok w1 /\ morphism_inverse w_seq w1 = Ok w2 /\ ms w2 <> ms w_start.
Proof. exact morphism_needs_disjoint_targets. Qed.
Print Assumptions C04_morphism_needs_disjoint_targets.

