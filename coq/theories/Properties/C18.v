(* C18 - the skip list behaves as an ordered map under any operation history.
   Nothing but the property theorems: each closed by [exact] of a lemma and followed by
   Print Assumptions.  They are about the pointer-level heap model Skiplist/Model.v
   (skip, search, put with the splice loop, get, remove with the unlink loop, print transcribed
   loop by loop from /repo/internal/maplike/skiplist/skiplist.go); the model is run against the
   real code on every ./check (Check/C18.v).
   All of them hold for EVERY comparison [cmp] that is a total order (the three laws are
   premises), every number of levels >= 1 and every node height 1..levels. *)
From Coq Require Import List ZArith Sorted.
From Golem Require Import Skiplist.Model Skiplist.Heap Skiplist.Rep Skiplist.Refine.
Import ListNotations.

(* Main theorem 1 (full statement): for every history of Put/Get/Remove - every Put carrying any height
   mkNode can return - the answers of the skip-list heap are exactly those of the plain
   association-list map of Skiplist/Spec.v: Get and Remove answer 0 for absent keys, Put overwrites. *)
Theorem C18_map_refinement : forall (cmp : Z -> Z -> comparison) (levels : nat),
  (forall a b, cmp a b = Eq <-> a = b) ->
  (forall a b, cmp b a = CompOpp (cmp a b)) ->
  (forall a b c, cmp a b = Lt -> cmp b c = Lt -> cmp a c = Lt) ->
  1 <= levels ->
  forall ops : list op,
  Forall (fun o => match o with Put _ _ ht => 1 <= ht <= levels | _ => True end) ops ->
  snd (run cmp levels (empty levels) ops) = snd (arun [] ops).
Proof. exact map_refinement_lemma. Qed.
Print Assumptions C18_map_refinement.

(* Main theorem 2 (full statement): after every history the printed form is the head line followed by
   one line per live key - exactly the keys bound in the ordinary map - in strictly ascending order,
   and every non-nil finger of a live node names a strictly larger live key. *)
Theorem C18_print_sorted : forall (cmp : Z -> Z -> comparison) (levels : nat),
  (forall a b, cmp a b = Eq <-> a = b) ->
  (forall a b, cmp b a = CompOpp (cmp a b)) ->
  (forall a b c, cmp a b = Lt -> cmp b c = Lt -> cmp a c = Lt) ->
  1 <= levels ->
  forall ops : list op,
  Forall (fun o => match o with Put _ _ ht => 1 <= ht <= levels | _ => True end) ops ->
  exists hd body,
    print (fst (run cmp levels (empty levels) ops)) = hd :: body
    /\ StronglySorted (fun a b => cmp a b = Lt) (map fst body)
    /\ (forall k, In k (map fst body) <-> afind k (fst (arun [] ops)) <> None)
    /\ Forall (fun e : Z * list (option Z) =>
                 Forall (fun f => match f with
                                  | None => True
                                  | Some k' => cmp (fst e) k' = Lt /\ In k' (map fst body)
                                  end) (snd e)) body.
Proof. exact print_sorted_lemma. Qed.
Print Assumptions C18_print_sorted.

(* The invariant behind both (Skiplist/Rep.v: Rep h ns = ns is the level-0 chain, keys strictly ascending,
   the level-L chain from the head is exactly the sub-list of nodes higher than L and ends in nil,
   ids in bounds) is kept by Put for every height 1..levels; the structure then binds k to v. *)
Theorem C18_put_rep : forall (cmp : Z -> Z -> comparison) (levels : nat),
  (forall a b, cmp a b = Eq <-> a = b) ->
  (forall a b, cmp b a = CompOpp (cmp a b)) ->
  (forall a b c, cmp a b = Lt -> cmp b c = Lt -> cmp a c = Lt) ->
  1 <= levels ->
  forall (h : heap) (ns : list nat) (k v : Z) (ht : nat),
  Rep cmp levels h ns -> 1 <= ht <= levels ->
  exists ns', Rep cmp levels (put cmp levels k v ht h) ns'
    /\ forall k', afind k' (contents (put cmp levels k v ht h) ns')
                  = if Z.eqb k' k then Some v else afind k' (contents h ns).
Proof. exact put_rep. Qed.
Print Assumptions C18_put_rep.

(* ... and by Remove, which answers the bound value (0 if none) and unbinds k only *)
Theorem C18_remove_rep : forall (cmp : Z -> Z -> comparison) (levels : nat),
  (forall a b, cmp a b = Eq <-> a = b) ->
  (forall a b, cmp b a = CompOpp (cmp a b)) ->
  (forall a b c, cmp a b = Lt -> cmp b c = Lt -> cmp a c = Lt) ->
  1 <= levels ->
  forall (h : heap) (ns : list nat) (k : Z),
  Rep cmp levels h ns ->
  exists ns', Rep cmp levels (fst (remove cmp levels k h)) ns'
    /\ snd (remove cmp levels k h) = alookup k (contents h ns)
    /\ forall k', afind k' (contents (fst (remove cmp levels k h)) ns')
                  = if Z.eqb k' k then None else afind k' (contents h ns).
Proof. exact remove_rep. Qed.
Print Assumptions C18_remove_rep.

(* Get (the search loop, which keeps no path) reads the binding *)
Theorem C18_get_spec : forall (cmp : Z -> Z -> comparison) (levels : nat),
  (forall a b, cmp a b = Eq <-> a = b) ->
  (forall a b, cmp b a = CompOpp (cmp a b)) ->
  (forall a b c, cmp a b = Lt -> cmp b c = Lt -> cmp a c = Lt) ->
  1 <= levels ->
  forall (h : heap) (ns : list nat) (k : Z),
  Rep cmp levels h ns -> get cmp levels h k = alookup k (contents h ns).
Proof. exact get_spec. Qed.
Print Assumptions C18_get_spec.

(* skip: the candidate is the first node whose key is not below k, path[L] the last node of level L
   (or the head) whose key is below k *)
Theorem C18_skip_spec : forall (cmp : Z -> Z -> comparison) (levels : nat),
  (forall a b, cmp a b = Eq <-> a = b) ->
  1 <= levels ->
  forall (h : heap) (ns lo hi : list nat) (k : Z),
  Rep cmp levels h ns -> ns = lo ++ hi ->
  Forall (fun n => cmp (keyof h n) k = Lt) lo ->
  Forall (fun n => cmp (keyof h n) k <> Lt) hi ->
  exists path, skip cmp levels h k = (match hi with [] => None | c :: _ => Some c end, path)
    /\ length path = levels
    /\ forall L, L < levels -> nth L path 0 = lst 0 (filter (fun n => L <? height h n) lo).
Proof. exact skip_spec. Qed.
Print Assumptions C18_skip_spec.

(* Non-vacuity of the premises: the natural and the reversed order of the integers (the traits the
   harness runs the real list with) are total orders, so both main theorems apply to them. *)
Theorem C18_orders_of_the_harness : forall levels, 1 <= levels -> forall ops,
  Forall (fun o => match o with Put _ _ ht => 1 <= ht <= levels | _ => True end) ops ->
  snd (run cmp_nat levels (empty levels) ops) = snd (arun [] ops)
  /\ snd (run cmp_rev levels (empty levels) ops) = snd (arun [] ops)
  /\ printed_ok cmp_nat (fst (arun [] ops)) (print (fst (run cmp_nat levels (empty levels) ops)))
  /\ printed_ok cmp_rev (fst (arun [] ops)) (print (fst (run cmp_rev levels (empty levels) ops))).
Proof. exact refinement_instances. Qed.
Print Assumptions C18_orders_of_the_harness.

(* The premise on heights is needed: with height 0 (what mkNode returned for Int63 values rounding to
   p = 1.0 before the repair "skiplist nodes always have at least one level") the key is lost. *)
Theorem C18_height0_loses_key :
  snd (run cmp_nat 22 (empty 22) [Put 1 10 0; Get 1]) = [0%Z; 0%Z]
  /\ snd (arun [] [Put 1 10 0; Get 1]) = [0%Z; 10%Z].
Proof. exact put_height0_loses_key. Qed.
Print Assumptions C18_height0_loses_key.

(* Non-vacuity: a concrete history with tall and short nodes under the reversed order; the heap model
   answers like the map and prints 7, 5, 1 with forward pointers to smaller numbers (= larger keys). *)
Example C18_example :
  let ops := [Put 5 50 3; Put 1 10 1; Put 7 70 22; Put 5 51 2; Get 5; Remove 7; Get 7; Put 7 71 2; Remove 3] in
  Forall (fun o => match o with Put _ _ ht => 1 <= ht <= 22 | _ => True end) ops
  /\ snd (run cmp_rev 22 (empty 22) ops) = [0; 0; 0; 0; 51; 70; 0; 0; 0]%Z
  /\ snd (arun [] ops) = [0; 0; 0; 0; 51; 70; 0; 0; 0]%Z
  /\ tl (print (fst (run cmp_rev 22 (empty 22) ops)))
     = [(7, [Some 5; Some 5]); (5, [Some 1; None; None]); (1, [None])]%Z.
Proof.
  cbv zeta. split; [|split; [|split]]; try reflexivity.
  repeat constructor.
Qed.
