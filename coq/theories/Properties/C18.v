(* C18 - placeholder while the proofs are being built: replaced by the real theorems. *)
From Coq Require Import List ZArith.
From Golem Require Import Skiplist.Model.
Import ListNotations.
Open Scope Z_scope.

Theorem C18_smoke :
  snd (run cmp_nat 22 (empty 22) [Put 2 20 1; Put 1 10 3; Get 2; Remove 1; Get 1]) = [0; 0; 20; 10; 0].
Proof. exact (eq_refl _). Qed.
Print Assumptions C18_smoke.
