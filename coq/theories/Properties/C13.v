(* C13 - Throttling bounds the rate, and keeps every element in order.
   Nothing but the property theorems.  [throttle_stage ops interval icaps ocaps]: worker 0 = the pacer
   (pushes ops tokens into the token channel = out 1, then waits interval, for ever, until cancel),
   worker 1 = the data goroutine (one token per element, then forwards it to out 0) - Pipe/Stages.v,
   mirroring pipe.Throttling.  [tokens s] = tokens pushed so far.

   PARTIAL with respect to the property's rate clause.  Proved, for every ops, interval, capacities,
   arrival pattern, consumer pace and ANY way the virtual clock advances:
     - content: exactly the input elements, in order, once each; closes when the input closes; no panic;
       no deadlock (only the pacer's timer can be what everybody waits for);
     - C13_tokens_rate: the pacer pushes at most ops tokens per interval counted from the start:
       tokens pushed by time t <= ops * (t / interval + 1);
     - C13_deliveries_le_tokens: before cancel the token channel stays open (the pacer returns only on cancel)
       and every element made available on the output ([made s] = received from out 0 + buffered in out 0),
       plus the one the data goroutine holds after its token receive ([hold s]), has consumed a token:
       made + hold <= tokens taken from the token channel <= tokens pushed;
     - C13_deliveries_rate: hence, before cancel, deliveries by time t <= ops * (t / interval + 1).
   NOT proved as theorems (checked by the correspondence oracle on every explored virtual-time schedule):
     - the sliding-window form "no window of length interval sees more than 2*ops + 1 + c deliveries";
     - the exact schedule floor(i/ops)*interval under maximal progress with input always available. *)
From Coq Require Import List ZArith NArith.
From Golem Require Import Base.Lists Pipe.Pool Pipe.Stages Pipe.PoolSteps Pipe.PoolLive Pipe.PoolSeq
     Pipe.PoolThrottle Pipe.PoolThrottleRate Pipe.PoolThrottleDeliver.
Import ListNotations.

Theorem C13_throttle_prefix : forall (ops : nat) (interval : N) (icaps ocaps : list nat) (s : state),
  reachable (throttle_stage ops interval icaps ocaps) s -> prefix (delivered s 0) (sent s 0).
Proof. exact throttle_prefix. Qed.
Print Assumptions C13_throttle_prefix.

Theorem C13_throttle_stream : forall (ops : nat) (interval : N) (icaps ocaps : list nat) (s : state),
  reachable (throttle_stage ops interval icaps ocaps) s ->
  delivered s 0 ++ map snd (cbuf (outs s 0)) ++ pend 0 (wc (ws s 1)) ++ wdropped (ws s 1) 0 = wtaken (ws s 1) /\
  sent s 0 = wtaken (ws s 1) ++ map snd (cbuf (ins s 0)).
Proof. exact throttle_stream. Qed.
Print Assumptions C13_throttle_stream.

(* the data goroutine has returned without cancel: everything handed over was forwarded, the input is closed
   and the output is closed - "closes when the input closes" *)
Theorem C13_throttle_complete : forall (ops : nat) (interval : N) (icaps ocaps : list nat) (s : state),
  reachable (throttle_stage ops interval icaps ocaps) s -> cancelled s = false -> wc (ws s 1) = WDone ->
  delivered s 0 ++ map snd (cbuf (outs s 0)) = sent s 0 /\ cclosed (ins s 0) = true /\ cclosed (outs s 0) = true.
Proof. exact throttle_complete. Qed.
Print Assumptions C13_throttle_complete.

Theorem C13_throttle_nopanic : forall (ops : nat) (interval : N) (icaps ocaps : list nat) (s : state),
  reachable (throttle_stage ops interval icaps ocaps) s -> panicked s = false.
Proof. exact throttle_nopanic. Qed.
Print Assumptions C13_throttle_nopanic.

(* no deadlock: with the input closed, nothing receivable and no step enabled, either the data goroutine has
   returned or the pacer is waiting for its timer (time passing is the only thing needed) *)
Theorem C13_throttle_no_deadlock : forall (ops : nat) (interval : N) (icaps ocaps : list nat) (s : state),
  let c := throttle_stage ops interval icaps ocaps in
  reachable c s -> cancelled s = false -> quiescent c s -> (forall v, step c s (ERcvd 0 v) = None) ->
  cclosed (ins s 0) = true -> (1 <= nth_cap ocaps 1)%nat ->
  wc (ws s 1) = WDone \/ exists u sel eof rest, wc (ws s 0) = WSleep u sel eof rest.
Proof. exact throttle_no_deadlock. Qed.
Print Assumptions C13_throttle_no_deadlock.

(* the rate of the token source, for any clock advance policy *)
Theorem C13_tokens_rate : forall (ops : nat) (interval : N) (icaps ocaps : list nat) (s : state),
  reachable (throttle_stage ops interval icaps ocaps) s -> (0 < interval)%N ->
  (N.of_nat (tokens s) <= N.of_nat ops * (now s / interval + 1))%N.
Proof. exact tokens_rate. Qed.
Print Assumptions C13_tokens_rate.

(* the data goroutine's control: at the loop head, waiting for a token with the element a in hand, sending a
   (token taken), at the loop's end, after the loop, or returned *)
Theorem C13_data_goroutine_shape : forall (ops : nat) (interval : N) (icaps ocaps : list nat) (s : state),
  reachable (throttle_stage ops interval icaps ocaps) s -> dshape (wc (ws s 1)).
Proof. exact dshape_reachable. Qed.
Print Assumptions C13_data_goroutine_shape.

(* before cancel the token channel is open, and deliveries (received from or buffered in out 0, plus the element
   the data goroutine holds once it has its token) never exceed the tokens taken out of the token channel,
   which never exceed the tokens pushed *)
Theorem C13_deliveries_le_tokens : forall (ops : nat) (interval : N) (icaps ocaps : list nat) (s : state),
  reachable (throttle_stage ops interval icaps ocaps) s -> cancelled s = false ->
  cclosed (outs s 1) = false /\ (made s + hold s <= length (rcvd s 1))%nat /\ (length (rcvd s 1) <= tokens s)%nat.
Proof. exact deliveries_le_tokens. Qed.
Print Assumptions C13_deliveries_le_tokens.

(* the rate of the deliveries before cancel, for any clock advance policy *)
Theorem C13_deliveries_rate : forall (ops : nat) (interval : N) (icaps ocaps : list nat) (s : state),
  reachable (throttle_stage ops interval icaps ocaps) s -> cancelled s = false -> (0 < interval)%N ->
  (N.of_nat (made s) <= N.of_nat ops * (now s / interval + 1))%N.
Proof. exact deliveries_rate. Qed.
Print Assumptions C13_deliveries_rate.
