(* C13 - Throttling bounds the rate, and keeps every element in order.
   Nothing but the property theorems.  [throttle_stage ops interval icaps ocaps]: worker 0 = the pacer
   (pushes ops tokens into the token channel = out 1, then waits interval, for ever, until cancel),
   worker 1 = the data goroutine (one token per element, then forwards it to out 0) - Pipe/Stages.v,
   mirroring pipe.Throttling.  [tokens s] = tokens pushed so far.

   PARTIAL only with respect to the upper half of the exact schedule (last item).  Proved, for every ops,
   interval, capacities, arrival pattern, consumer pace and ANY way the virtual clock advances:
     - content: exactly the input elements, in order, once each; closes when the input closes; no panic;
       no deadlock (only the pacer's timer can be what everybody waits for);
     - C13_tokens_rate: the pacer pushes at most ops tokens per interval counted from the start:
       tokens pushed by time t <= ops * (t / interval + 1);
     - C13_deliveries_le_tokens: before cancel the token channel stays open (the pacer returns only on cancel)
       and every element made available on the output ([made s] = received from out 0 + buffered in out 0),
       plus the one the data goroutine holds after its token receive ([hold s]), has consumed a token:
       made + hold <= tokens taken from the token channel <= tokens pushed;
     - C13_deliveries_rate: hence, before cancel, deliveries by time t <= ops * (t / interval + 1);
     - C13_window (the sliding window): for two points s1, s2 of one run with now s2 < now s1 + interval and no
       cancel at s2, the consumer has received at most ops + cap(ctl) + 1 + cap(out) elements between them;
       C13_window_go: with the channels pipe.Throttling makes (ctl := make(chan struct{}, ops),
       out := make(chan A, cap(in)), c = cap(in)) that is 2*ops + 1 + c.  s1 ranges over every reachable state,
       in particular the one just before the first delivery of a window, so this is every HALF-OPEN window
       [t, t + interval).  The closed window [t, t + interval] is not bounded by 2*ops + 1 + c: a pacer waking at t
       pushes ops tokens, sleeps until exactly t + interval and pushes ops more at that instant
       (C13_closed_window_refuted: 4 deliveries in [100, 110] with ops = 1, c = 0, interval = 10).
       C13_window_tight: the bound is attained (ops = 1, c = 0: 3 deliveries at one instant after an idle period),
       which also shows the hypotheses of C13_window are satisfiable;
     - C13_tokens_window: the pacer pushes at most ops tokens between two such points (cancelled or not);
     - C13_delivery_not_early: element number i (0-based) is not available on the output before
       floor(i/ops)*interval - the lower half of the exact schedule, for any clock policy.
   NOT proved as a theorem (checked by the correspondence oracle on every explored steady virtual-time schedule):
     - the upper half of the exact schedule: under maximal progress with input always available and the consumer
       always ready, element i is delivered no later than one interval after floor(i/ops)*interval
       (a liveness statement about one particular scheduling policy, not about all runs). *)
From Coq Require Import List ZArith NArith.
From Golem Require Import Base.Lists Pipe.Pool Pipe.Stages Pipe.PoolSteps Pipe.PoolLive Pipe.PoolSeq
     Pipe.PoolThrottle Pipe.PoolThrottleRate Pipe.PoolThrottleDeliver Pipe.PoolThrottleWindow.
Import ListNotations.

Theorem C13_throttle_prefix : forall (ops : nat) (interval : N) (icaps ocaps : list nat) (s : state),
  reachable (throttle_stage ops interval icaps ocaps) s -> prefix (delivered s 0) (sent s 0).
Proof. exact throttle_prefix. Qed.
Print Assumptions C13_throttle_prefix.

Theorem C13_throttle_stream : forall (ops : nat) (interval : N) (icaps ocaps : list nat) (s : state),
  reachable (throttle_stage ops interval icaps ocaps) s ->
  delivered s 0 ++ map snd (cbuf (outs s 0)) ++ pend 0 (wc (ws s 1)) ++ wdropped (ws s 1) 0 = wtaken (ws s 1) /\
  sent s 0 = wtaken (ws s 1) ++ map snd (cbuf (ins s 0)).
Proof. exact throttle_stream. Qed.
Print Assumptions C13_throttle_stream.

(* the data goroutine has returned without cancel: everything handed over was forwarded, the input is closed
   and the output is closed - "closes when the input closes" *)
Theorem C13_throttle_complete : forall (ops : nat) (interval : N) (icaps ocaps : list nat) (s : state),
  reachable (throttle_stage ops interval icaps ocaps) s -> cancelled s = false -> wc (ws s 1) = WDone ->
  delivered s 0 ++ map snd (cbuf (outs s 0)) = sent s 0 /\ cclosed (ins s 0) = true /\ cclosed (outs s 0) = true.
Proof. exact throttle_complete. Qed.
Print Assumptions C13_throttle_complete.

Theorem C13_throttle_nopanic : forall (ops : nat) (interval : N) (icaps ocaps : list nat) (s : state),
  reachable (throttle_stage ops interval icaps ocaps) s -> panicked s = false.
Proof. exact throttle_nopanic. Qed.
Print Assumptions C13_throttle_nopanic.

(* no deadlock: with the input closed, nothing receivable and no step enabled, either the data goroutine has
   returned or the pacer is waiting for its timer (time passing is the only thing needed) *)
Theorem C13_throttle_no_deadlock : forall (ops : nat) (interval : N) (icaps ocaps : list nat) (s : state),
  let c := throttle_stage ops interval icaps ocaps in
  reachable c s -> cancelled s = false -> quiescent c s -> (forall v, step c s (ERcvd 0 v) = None) ->
  cclosed (ins s 0) = true -> (1 <= nth_cap ocaps 1)%nat ->
  wc (ws s 1) = WDone \/ exists u sel eof rest, wc (ws s 0) = WSleep u sel eof rest.
Proof. exact throttle_no_deadlock. Qed.
Print Assumptions C13_throttle_no_deadlock.

(* the rate of the token source, for any clock advance policy *)
Theorem C13_tokens_rate : forall (ops : nat) (interval : N) (icaps ocaps : list nat) (s : state),
  reachable (throttle_stage ops interval icaps ocaps) s -> (0 < interval)%N ->
  (N.of_nat (tokens s) <= N.of_nat ops * (now s / interval + 1))%N.
Proof. exact tokens_rate. Qed.
Print Assumptions C13_tokens_rate.

(* the data goroutine's control: at the loop head, waiting for a token with the element a in hand, sending a
   (token taken), at the loop's end, after the loop, or returned *)
Theorem C13_data_goroutine_shape : forall (ops : nat) (interval : N) (icaps ocaps : list nat) (s : state),
  reachable (throttle_stage ops interval icaps ocaps) s -> dshape (wc (ws s 1)).
Proof. exact dshape_reachable. Qed.
Print Assumptions C13_data_goroutine_shape.

(* before cancel the token channel is open, and deliveries (received from or buffered in out 0, plus the element
   the data goroutine holds once it has its token) never exceed the tokens taken out of the token channel,
   which never exceed the tokens pushed *)
Theorem C13_deliveries_le_tokens : forall (ops : nat) (interval : N) (icaps ocaps : list nat) (s : state),
  reachable (throttle_stage ops interval icaps ocaps) s -> cancelled s = false ->
  cclosed (outs s 1) = false /\ (made s + hold s <= length (rcvd s 1))%nat /\ (length (rcvd s 1) <= tokens s)%nat.
Proof. exact deliveries_le_tokens. Qed.
Print Assumptions C13_deliveries_le_tokens.

(* the rate of the deliveries before cancel, for any clock advance policy *)
Theorem C13_deliveries_rate : forall (ops : nat) (interval : N) (icaps ocaps : list nat) (s : state),
  reachable (throttle_stage ops interval icaps ocaps) s -> cancelled s = false -> (0 < interval)%N ->
  (N.of_nat (made s) <= N.of_nat ops * (now s / interval + 1))%N.
Proof. exact deliveries_rate. Qed.
Print Assumptions C13_deliveries_rate.

(* the pacer pushes at most ops tokens between two points of a run that are less than interval apart *)
Theorem C13_tokens_window : forall (ops : nat) (interval : N) (icaps ocaps : list nat) (s1 : state) (tr : list ev) (s2 : state),
  let c := throttle_stage ops interval icaps ocaps in
  reachable c s1 -> exec_from c s1 tr = Some s2 -> (now s2 < now s1 + interval)%N ->
  (tokens s2 <= tokens s1 + ops)%nat.
Proof. exact window_tokens. Qed.
Print Assumptions C13_tokens_window.

(* THE SLIDING WINDOW: before cancel, no half-open time window [t, t + interval) sees more than
   ops + cap(ctl) + 1 + cap(out) deliveries (ctl = out 1, out = out 0) *)
Theorem C13_window : forall (ops : nat) (interval : N) (icaps ocaps : list nat) (tr1 tr2 : list ev) (s1 s2 : state),
  let c := throttle_stage ops interval icaps ocaps in
  exec c tr1 = Some s1 -> exec_from c s1 tr2 = Some s2 -> cancelled s2 = false -> (now s2 < now s1 + interval)%N ->
  (length (delivered s2 0) <= length (delivered s1 0) + ops + nth_cap ocaps 1 + 1 + nth_cap ocaps 0)%nat.
Proof. exact window_deliveries. Qed.
Print Assumptions C13_window.

(* ... that is 2*ops + 1 + c for the channels pipe.Throttling makes: cap(ctl) = ops, cap(out) = cap(in) = c *)
Theorem C13_window_go : forall (ops : nat) (interval : N) (c : nat) (tr1 tr2 : list ev) (s1 s2 : state),
  let cf := throttle_stage ops interval [c] [c; ops] in
  exec cf tr1 = Some s1 -> exec_from cf s1 tr2 = Some s2 -> cancelled s2 = false -> (now s2 < now s1 + interval)%N ->
  (length (delivered s2 0) <= length (delivered s1 0) + (2 * ops + 1 + c))%nat.
Proof. exact window_deliveries_go. Qed.
Print Assumptions C13_window_go.

(* non-vacuity and tightness: ops = 1, interval = 10, c = 0; after an idle period 3 = 2*1+1+0 elements are
   received at one instant (the held one, one for the waiting token, one for the token of the pacer's new round) *)
Theorem C13_window_tight :
  exec wx_cfg wx_idle = Some wx_s1 /\ exec_from wx_cfg wx_s1 wx_burst = Some wx_s2 /\
  cancelled wx_s2 = false /\ (now wx_s2 < now wx_s1 + 10)%N /\
  delivered wx_s1 0 = [] /\ delivered wx_s2 0 = [100%Z; 101%Z; 102%Z].
Proof. exact window_bound_tight. Qed.
Print Assumptions C13_window_tight.

(* the closed window [t, t + interval] is NOT bounded by 2*ops + 1 + c *)
Theorem C13_closed_window_refuted :
  ~ (forall (ops : nat) (interval : N) (c : nat) (tr1 tr2 : list ev) (s1 s2 : state),
       let cf := throttle_stage ops interval [c] [c; ops] in
       exec cf tr1 = Some s1 -> exec_from cf s1 tr2 = Some s2 -> cancelled s2 = false -> (now s2 <= now s1 + interval)%N ->
       (length (delivered s2 0) <= length (delivered s1 0) + (2 * ops + 1 + c))%nat).
Proof. exact closed_window_refuted. Qed.
Print Assumptions C13_closed_window_refuted.

(* element number i (0-based: i < made s, made = received from + buffered in out 0) is not available on the output
   before floor(i/ops)*interval, for any clock advance policy *)
Theorem C13_delivery_not_early : forall (ops : nat) (interval : N) (icaps ocaps : list nat) (s : state) (i : nat),
  reachable (throttle_stage ops interval icaps ocaps) s -> cancelled s = false -> (i < made s)%nat ->
  (N.of_nat i / N.of_nat ops * interval <= now s)%N.
Proof. exact delivery_not_early. Qed.
Print Assumptions C13_delivery_not_early.
