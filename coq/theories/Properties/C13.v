(* C13 - Throttling bounds the rate, and keeps every element in order.
   Nothing but the property theorems.  [throttle_stage ops interval icaps ocaps]: worker 0 = the pacer
   (pushes ops tokens into the token channel = out 1, then waits interval, for ever, until cancel),
   worker 1 = the data goroutine (one token per element, then forwards it to out 0) - Pipe/Stages.v,
   mirroring pipe.Throttling.  [tokens s] = tokens pushed so far.

   Nothing of the property is left partial.  Proved, for every ops,
   interval, capacities, arrival pattern, consumer pace and ANY way the virtual clock advances:
     - content: exactly the input elements, in order, once each; closes when the input closes; no panic;
       no deadlock (only the pacer's timer can be what everybody waits for);
     - C13_tokens_rate: the pacer pushes at most ops tokens per interval counted from the start:
       tokens pushed by time t <= ops * (t / interval + 1);
     - C13_deliveries_le_tokens: before cancel the token channel stays open (the pacer returns only on cancel)
       and every element made available on the output ([made s] = received from out 0 + buffered in out 0),
       plus the one the data goroutine holds after its token receive ([hold s]), has consumed a token:
       made + hold <= tokens taken from the token channel <= tokens pushed;
     - C13_deliveries_rate: hence, before cancel, deliveries by time t <= ops * (t / interval + 1);
     - C13_window (the sliding window): for two points s1, s2 of one run with now s2 < now s1 + interval and no
       cancel at s2, the consumer has received at most ops + cap(ctl) + 1 + cap(out) elements between them;
       C13_window_go: with the channels pipe.Throttling makes (ctl := make(chan struct{}, ops),
       out := make(chan A, cap(in)), c = cap(in)) that is 2*ops + 1 + c.  s1 ranges over every reachable state,
       in particular the one just before the first delivery of a window, so this is every HALF-OPEN window
       [t, t + interval).  The closed window [t, t + interval] is not bounded by 2*ops + 1 + c: a pacer waking at t
       pushes ops tokens, sleeps until exactly t + interval and pushes ops more at that instant
       (C13_closed_window_refuted: 4 deliveries in [100, 110] with ops = 1, c = 0, interval = 10).
       C13_window_tight: the bound is attained (ops = 1, c = 0: 3 deliveries at one instant after an idle period),
       which also shows the hypotheses of C13_window are satisfiable;
     - C13_tokens_window: the pacer pushes at most ops tokens between two such points (cancelled or not);
     - C13_delivery_not_early: element number i (0-based) is not available on the output before
       floor(i/ops)*interval - the lower half of the exact schedule, for any clock policy.
   Under MAXIMAL PROGRESS (Pipe/PoolMaxProgress.v: the clock moves only when no goroutine can step, nothing is
   receivable on out 0 - "the consumer is always ready" -, the data goroutine is not starved - "input is always
   available" - and never past the pacer's pending deadline; the environment receives from out 0 only and never cancels):
     - C13_throttle_delivery_count / C13_throttle_element_time: the schedule is EXACT - deliveries =
       min(handed over, ops * (now / interval + 1)); element i is delivered at the instant floor(i/ops)*interval,
       so "no later than one interval after that" holds with a whole interval to spare (see the comments at the
       theorems below). *)
From Coq Require Import List ZArith NArith.
From Golem Require Import Base.Lists Pipe.Pool Pipe.Stages Pipe.PoolSteps Pipe.PoolLive Pipe.PoolSeq
     Pipe.PoolThrottle Pipe.PoolThrottleRate Pipe.PoolThrottleDeliver Pipe.PoolThrottleWindow
     Pipe.PoolMaxProgress Pipe.PoolThrottlePace.
Import ListNotations.

Theorem C13_throttle_prefix : forall (ops : nat) (interval : N) (icaps ocaps : list nat) (s : state),
  reachable (throttle_stage ops interval icaps ocaps) s -> prefix (delivered s 0) (sent s 0).
Proof. exact throttle_prefix. Qed.
Print Assumptions C13_throttle_prefix.

Theorem C13_throttle_stream : forall (ops : nat) (interval : N) (icaps ocaps : list nat) (s : state),
  reachable (throttle_stage ops interval icaps ocaps) s ->
  delivered s 0 ++ map snd (cbuf (outs s 0)) ++ pend 0 (wc (ws s 1)) ++ wdropped (ws s 1) 0 = wtaken (ws s 1) /\
  sent s 0 = wtaken (ws s 1) ++ map snd (cbuf (ins s 0)).
Proof. exact throttle_stream. Qed.
Print Assumptions C13_throttle_stream.

(* the data goroutine has returned without cancel: everything handed over was forwarded, the input is closed
   and the output is closed - "closes when the input closes" *)
Theorem C13_throttle_complete : forall (ops : nat) (interval : N) (icaps ocaps : list nat) (s : state),
  reachable (throttle_stage ops interval icaps ocaps) s -> cancelled s = false -> wc (ws s 1) = WDone ->
  delivered s 0 ++ map snd (cbuf (outs s 0)) = sent s 0 /\ cclosed (ins s 0) = true /\ cclosed (outs s 0) = true.
Proof. exact throttle_complete. Qed.
Print Assumptions C13_throttle_complete.

Theorem C13_throttle_nopanic : forall (ops : nat) (interval : N) (icaps ocaps : list nat) (s : state),
  reachable (throttle_stage ops interval icaps ocaps) s -> panicked s = false.
Proof. exact throttle_nopanic. Qed.
Print Assumptions C13_throttle_nopanic.

(* no deadlock: with the input closed, nothing receivable and no step enabled, either the data goroutine has
   returned or the pacer is waiting for its timer (time passing is the only thing needed) *)
Theorem C13_throttle_no_deadlock : forall (ops : nat) (interval : N) (icaps ocaps : list nat) (s : state),
  let c := throttle_stage ops interval icaps ocaps in
  reachable c s -> cancelled s = false -> quiescent c s -> (forall v, step c s (ERcvd 0 v) = None) ->
  cclosed (ins s 0) = true -> (1 <= nth_cap ocaps 1)%nat ->
  wc (ws s 1) = WDone \/ exists u sel eof rest, wc (ws s 0) = WSleep u sel eof rest.
Proof. exact throttle_no_deadlock. Qed.
Print Assumptions C13_throttle_no_deadlock.

(* the rate of the token source, for any clock advance policy *)
Theorem C13_tokens_rate : forall (ops : nat) (interval : N) (icaps ocaps : list nat) (s : state),
  reachable (throttle_stage ops interval icaps ocaps) s -> (0 < interval)%N ->
  (N.of_nat (tokens s) <= N.of_nat ops * (now s / interval + 1))%N.
Proof. exact tokens_rate. Qed.
Print Assumptions C13_tokens_rate.

(* the data goroutine's control: at the loop head, waiting for a token with the element a in hand, sending a
   (token taken), at the loop's end, after the loop, or returned *)
Theorem C13_data_goroutine_shape : forall (ops : nat) (interval : N) (icaps ocaps : list nat) (s : state),
  reachable (throttle_stage ops interval icaps ocaps) s -> dshape (wc (ws s 1)).
Proof. exact dshape_reachable. Qed.
Print Assumptions C13_data_goroutine_shape.

(* before cancel the token channel is open, and deliveries (received from or buffered in out 0, plus the element
   the data goroutine holds once it has its token) never exceed the tokens taken out of the token channel,
   which never exceed the tokens pushed *)
Theorem C13_deliveries_le_tokens : forall (ops : nat) (interval : N) (icaps ocaps : list nat) (s : state),
  reachable (throttle_stage ops interval icaps ocaps) s -> cancelled s = false ->
  cclosed (outs s 1) = false /\ (made s + hold s <= length (rcvd s 1))%nat /\ (length (rcvd s 1) <= tokens s)%nat.
Proof. exact deliveries_le_tokens. Qed.
Print Assumptions C13_deliveries_le_tokens.

(* the rate of the deliveries before cancel, for any clock advance policy *)
Theorem C13_deliveries_rate : forall (ops : nat) (interval : N) (icaps ocaps : list nat) (s : state),
  reachable (throttle_stage ops interval icaps ocaps) s -> cancelled s = false -> (0 < interval)%N ->
  (N.of_nat (made s) <= N.of_nat ops * (now s / interval + 1))%N.
Proof. exact deliveries_rate. Qed.
Print Assumptions C13_deliveries_rate.

(* the pacer pushes at most ops tokens between two points of a run that are less than interval apart *)
Theorem C13_tokens_window : forall (ops : nat) (interval : N) (icaps ocaps : list nat) (s1 : state) (tr : list ev) (s2 : state),
  let c := throttle_stage ops interval icaps ocaps in
  reachable c s1 -> exec_from c s1 tr = Some s2 -> (now s2 < now s1 + interval)%N ->
  (tokens s2 <= tokens s1 + ops)%nat.
Proof. exact window_tokens. Qed.
Print Assumptions C13_tokens_window.

(* THE SLIDING WINDOW: before cancel, no half-open time window [t, t + interval) sees more than
   ops + cap(ctl) + 1 + cap(out) deliveries (ctl = out 1, out = out 0) *)
Theorem C13_window : forall (ops : nat) (interval : N) (icaps ocaps : list nat) (tr1 tr2 : list ev) (s1 s2 : state),
  let c := throttle_stage ops interval icaps ocaps in
  exec c tr1 = Some s1 -> exec_from c s1 tr2 = Some s2 -> cancelled s2 = false -> (now s2 < now s1 + interval)%N ->
  (length (delivered s2 0) <= length (delivered s1 0) + ops + nth_cap ocaps 1 + 1 + nth_cap ocaps 0)%nat.
Proof. exact window_deliveries. Qed.
Print Assumptions C13_window.

(* ... that is 2*ops + 1 + c for the channels pipe.Throttling makes: cap(ctl) = ops, cap(out) = cap(in) = c *)
Theorem C13_window_go : forall (ops : nat) (interval : N) (c : nat) (tr1 tr2 : list ev) (s1 s2 : state),
  let cf := throttle_stage ops interval [c] [c; ops] in
  exec cf tr1 = Some s1 -> exec_from cf s1 tr2 = Some s2 -> cancelled s2 = false -> (now s2 < now s1 + interval)%N ->
  (length (delivered s2 0) <= length (delivered s1 0) + (2 * ops + 1 + c))%nat.
Proof. exact window_deliveries_go. Qed.
Print Assumptions C13_window_go.

(* non-vacuity and tightness: ops = 1, interval = 10, c = 0; after an idle period 3 = 2*1+1+0 elements are
   received at one instant (the held one, one for the waiting token, one for the token of the pacer's new round) *)
Theorem C13_window_tight :
  exec wx_cfg wx_idle = Some wx_s1 /\ exec_from wx_cfg wx_s1 wx_burst = Some wx_s2 /\
  cancelled wx_s2 = false /\ (now wx_s2 < now wx_s1 + 10)%N /\
  delivered wx_s1 0 = [] /\ delivered wx_s2 0 = [100%Z; 101%Z; 102%Z].
Proof. exact window_bound_tight. Qed.
Print Assumptions C13_window_tight.

(* the closed window [t, t + interval] is NOT bounded by 2*ops + 1 + c *)
Theorem C13_closed_window_refuted :
  ~ (forall (ops : nat) (interval : N) (c : nat) (tr1 tr2 : list ev) (s1 s2 : state),
       let cf := throttle_stage ops interval [c] [c; ops] in
       exec cf tr1 = Some s1 -> exec_from cf s1 tr2 = Some s2 -> cancelled s2 = false -> (now s2 <= now s1 + interval)%N ->
       (length (delivered s2 0) <= length (delivered s1 0) + (2 * ops + 1 + c))%nat).
Proof. exact closed_window_refuted. Qed.
Print Assumptions C13_closed_window_refuted.

(* element number i (0-based: i < made s, made = received from + buffered in out 0) is not available on the output
   before floor(i/ops)*interval, for any clock advance policy *)
Theorem C13_delivery_not_early : forall (ops : nat) (interval : N) (icaps ocaps : list nat) (s : state) (i : nat),
  reachable (throttle_stage ops interval icaps ocaps) s -> cancelled s = false -> (i < made s)%nat ->
  (N.of_nat i / N.of_nat ops * interval <= now s)%N.
Proof. exact delivery_not_early. Qed.
Print Assumptions C13_delivery_not_early.

(* ---------- the pace clause under maximal progress ---------- *)
(* pace clause - "when input is always available and the consumer always ready, element i (counting
   from 0) is delivered no earlier than floor(i/ops)*interval and no later than one interval after that".
   Nothing but the property theorems; the upper half, under MAXIMAL PROGRESS (Pipe/PoolMaxProgress.v).
   (The lower half - deliveries by time t <= ops * (t / interval + 1) for ANY clock policy - is
   Properties/C13.v: C13_deliveries_rate.)

   [throttle_stage ops interval icaps ocaps]: worker 0 = the pacer, worker 1 = the data goroutine, out 0 = the
   output, out 1 = the token channel (internal).  [mp_reachable c ext0 fed s]: s is reached by an execution of
   [step] in which
     - the environment receives from out 0 only ([ext0]) and never cancels;
     - every clock event [EAdvance t] happens in a [settled] state - no step of either goroutine enabled and
       nothing receivable on out 0: "the consumer is always ready" - that is [fed] - the data goroutine is not
       standing at `range in` with nothing to take: "input is always available" (implied by: the input buffer
       is full or the input is closed, C13_saturated_is_fed) - and t does not exceed the pacer's pending deadline.
   Hypothesis on the capacities: the token channel can hold a token when ops >= 1 (pipe.Throttling makes it
   with capacity ops); the capacities of the input and of the output are arbitrary.

   Result: the schedule is EXACT - deliveries = min(handed over, ops * (now / interval + 1)); element i is
   delivered at the instant floor(i/ops) * interval, so "no later than one interval after" holds with a whole
   interval to spare. *)


(* whenever the clock may move: either the data goroutine has returned (input closed, everything handed over
   was delivered, output closed), or it holds the next element and ALL ops * (now / interval + 1) tokens of
   the batches so far have been turned into deliveries *)
Theorem C13_throttle_keeps_pace : forall (ops : nat) (interval : N) (icaps ocaps : list nat),
  (1 <= ops -> 1 <= nth_cap ocaps 1)%nat ->
  forall s : state,
  mp_reachable (throttle_stage ops interval icaps ocaps) ext0 fed s ->
  settled (throttle_stage ops interval icaps ocaps) ext0 s -> fed s -> (0 < interval)%N ->
  (wc (ws s 1) = WDone /\ cclosed (ins s 0) = true /\ cclosed (outs s 0) = true /\ delivered s 0 = sent s 0 /\
   (N.of_nat (length (sent s 0)) <= N.of_nat ops * (now s / interval + 1))%N)
  \/
  (exists a : Z, wc (ws s 1) = WRun false [ATok 1; ASend 0 a] /\
             N.of_nat (length (delivered s 0)) = (N.of_nat ops * (now s / interval + 1))%N /\
             prefix (delivered s 0 ++ [a]) (sent s 0)).
Proof. exact throttle_keeps_pace. Qed.
Print Assumptions C13_throttle_keeps_pace.

Theorem C13_throttle_delivery_count : forall (ops : nat) (interval : N) (icaps ocaps : list nat),
  (1 <= ops -> 1 <= nth_cap ocaps 1)%nat ->
  forall s : state,
  mp_reachable (throttle_stage ops interval icaps ocaps) ext0 fed s ->
  settled (throttle_stage ops interval icaps ocaps) ext0 s -> fed s -> (0 < interval)%N ->
  N.of_nat (length (delivered s 0)) = N.min (N.of_nat (length (sent s 0))) (N.of_nat ops * (now s / interval + 1)).
Proof. exact throttle_delivery_count. Qed.
Print Assumptions C13_throttle_delivery_count.

(* element i has been delivered <=> it was handed over and the instant floor(i/ops)*interval has been reached *)
Theorem C13_throttle_element_time : forall (ops : nat) (interval : N) (icaps ocaps : list nat),
  (1 <= ops -> 1 <= nth_cap ocaps 1)%nat ->
  forall (s : state) (i : nat),
  mp_reachable (throttle_stage ops interval icaps ocaps) ext0 fed s ->
  settled (throttle_stage ops interval icaps ocaps) ext0 s -> fed s -> (0 < interval)%N -> (1 <= ops)%nat ->
  ((i < length (delivered s 0))%nat <->
   (i < length (sent s 0))%nat /\ (N.of_nat (i / ops) * interval <= now s)%N).
Proof. exact throttle_element_time. Qed.
Print Assumptions C13_throttle_element_time.

(* the invariants behind it, for ALL maximal-progress states: tokens taken out of the token channel = elements
   made available + the one in the data goroutine's hand (with C13_deliveries_le_tokens: equality), and - as long
   as the data goroutine has not returned - the pacer's clock is exact: batch b starts at (b-1)*interval *)
Theorem C13_tokens_all_spent : forall (ops : nat) (interval : N) (icaps ocaps : list nat) (s : state),
  mp_reachable (throttle_stage ops interval icaps ocaps) ext0 fed s -> G s.
Proof. exact G_mp_reachable. Qed.
Print Assumptions C13_tokens_all_spent.

Theorem C13_pacer_clock_exact : forall (ops : nat) (interval : N) (icaps ocaps : list nat),
  (1 <= ops -> 1 <= nth_cap ocaps 1)%nat ->
  forall s : state,
  mp_reachable (throttle_stage ops interval icaps ocaps) ext0 fed s -> X interval s.
Proof. exact X_mp_reachable. Qed.
Print Assumptions C13_pacer_clock_exact.

(* "input buffer full or input closed" is a sufficient, observable reading of "input always available" *)
Theorem C13_saturated_is_fed : forall (ops : nat) (interval : N) (icaps ocaps : list nat) (s : state),
  cclosed (ins s 0) = true \/ in_room (throttle_stage ops interval icaps ocaps) s 0 = false -> fed s.
Proof. exact saturated_fed. Qed.
Print Assumptions C13_saturated_is_fed.

(* non-vacuity: 2 tokens per 5 ticks, five elements offered: 10, 11 at time 0; 12, 13 at time 5; 14 waits;
   and the run in which the input is closed after 13 *)
Theorem C13_throttle_keeps_pace_nonvacuous :
  exists s, mp_reachable (throttle_stage 2 5 [1%nat] [1%nat; 2%nat]) ext0 fed s /\
            settled (throttle_stage 2 5 [1%nat] [1%nat; 2%nat]) ext0 s /\ fed s /\
            now s = 5%N /\ delivered s 0 = [10; 11; 12; 13]%Z /\ wc (ws s 1) = WRun false [ATok 1; ASend 0 14%Z].
Proof. exact throttle_mp_example. Qed.
Print Assumptions C13_throttle_keeps_pace_nonvacuous.

Theorem C13_throttle_keeps_pace_nonvacuous_done :
  exists s, mp_reachable (throttle_stage 2 5 [1%nat] [1%nat; 2%nat]) ext0 fed s /\
            settled (throttle_stage 2 5 [1%nat] [1%nat; 2%nat]) ext0 s /\ fed s /\
            now s = 100%N /\ delivered s 0 = [10; 11; 12; 13]%Z /\ wc (ws s 1) = WDone.
Proof. exact throttle_mp_example_done. Qed.
Print Assumptions C13_throttle_keeps_pace_nonvacuous_done.

(* the policy bites: no clock move while the data goroutine starves, while an element waits in the output
   buffer, or past the pacer's deadline *)
Theorem C13_mp_policy_bites :
  thr_mp_run 2 5 [1%nat] [1%nat; 2%nat] (thr_ex_batch ++ thr_ex_el 10 ++ [EAdvance 5]) = None /\
  thr_mp_run 2 5 [1%nat] [1%nat; 2%nat]
    (thr_ex_batch ++ [ESent 0 10%Z; EW 1 false; EW 1 false; EW 1 false; EAdvance 5]) = None /\
  thr_mp_run 2 5 [1%nat] [1%nat; 2%nat]
    (thr_ex_batch ++ thr_ex_el 10 ++ thr_ex_el 11 ++ [ESent 0 12%Z; EW 1 false; EAdvance 6]) = None.
Proof. exact (conj throttle_mp_starved (conj throttle_mp_no_lag throttle_mp_no_jump)). Qed.
Print Assumptions C13_mp_policy_bites.
