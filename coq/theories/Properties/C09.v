(* C09 - Parallel fork stages process every element exactly once, like pipe up to order.
   Nothing but the property theorems (each [exact] a lemma, then Print Assumptions).  They are
   about the Pool machine with n goroutines sharing one input (Pipe/Stages.v fork_stage, mirroring
   pipe/fork/fork.go), for EVERY worker count, input, capacity and schedule - which worker takes
   which element and in which order in-flight calls complete are part of the schedule.
   [fork_cfg n g cl icaps ocaps]: n workers running the stateless per-element code g (the codes of
   fork.Map/FMap/Filter/Partition/ForEach/Void are [map_code], [fmap_code], [filter_code], ...).
   FAIL-FAST MODE (fork.Map / fork.FMap under Lift / LiftF / Pure, codes [map_code f false] /
   [fmap_code f false]: a failing element makes its worker do the PLAIN send `exx <- err` and return)
   is covered by the C09_fork_failfast_* theorems at the end: that send never blocks when
   par <= cap(exx) (fork.go: make(chan error, par)) - and DOES block for ever, context cancelled or
   not, with a smaller capacity (witness); hence the stage exits on cancel / drain with every worker
   returned and both outputs closed; at most par errors are ever produced.  C09_fork_safe and
   C09_fork_nopanic hold for every code, fail-fast included; C09_fork_complete is about codes
   without `return` (a fail-fast stage legitimately stops short of the whole input).
   Not carried by these theorems: data-race freedom (a property of the Go memory model; the
   thorough tier runs the race detector) and scheduler fairness. *)
From Coq Require Import List ZArith Permutation.
From Golem Require Import Base.Lists Pipe.Pool Pipe.Stages Pipe.PoolSteps Pipe.PoolSafe Pipe.PoolLive Pipe.PoolSimple
     Pipe.PoolSeq Pipe.PoolMulti Pipe.PoolMultiStages Pipe.PoolStages Pipe.PoolForkErr.
Import ListNotations.
Open Scope Z_scope.

(* SAFETY in every reachable state, cancelled or not: the elements taken by the workers, plus those still
   buffered, are a permutation of the elements handed over (each is applied to at most one worker's function,
   exactly once); what reached output k - delivered, buffered, in a worker's hands, or dropped on cancel - is
   a permutation of the image of what the workers took: nothing lost, duplicated or invented *)
Theorem C09_fork_safe : forall (n : nat) (g : Z -> list act) (cl icaps ocaps : list nat) (s : state) (k : nat),
  reachable (fork_cfg n g cl icaps ocaps) s ->
  Permutation (concat (map (fun w => wtaken (ws s w)) (seq 0 n)) ++ map snd (cbuf (ins s 0))) (sent s 0) /\
  Permutation
    (delivered s k ++ map snd (cbuf (outs s k)) ++
     concat (map (fun w => pend k (wc (ws s w)) ++ wdropped (ws s w) k) (seq 0 n)))
    (img g k (concat (map (fun w => wtaken (ws s w)) (seq 0 n)))).
Proof. exact fork_safe. Qed.
Print Assumptions C09_fork_safe.

(* nothing is ever sent on a closed channel, nothing closed twice *)
Theorem C09_fork_nopanic : forall (n : nat) (g : Z -> list act) (cl icaps ocaps : list nat),
  NoDup cl -> forall s : state, reachable (fork_cfg n g cl icaps ocaps) s -> panicked s = false.
Proof. exact fork_nopanic. Qed.
Print Assumptions C09_fork_nopanic.

(* outputs are closed only after every worker has finished *)
Theorem C09_fork_closed_after_all_done : forall (n : nat) (g : Z -> list act) (cl icaps ocaps : list nat),
  NoDup cl -> forall (s : state) (k : nat), reachable (fork_cfg n g cl icaps ocaps) s -> cclosed (outs s k) = true ->
  forall w, (w < n)%nat -> wc (ws s w) = WDone.
Proof. exact fork_closed_after_all_done. Qed.
Print Assumptions C09_fork_closed_after_all_done.

(* COMPLETION (input closed, not cancelled, nothing enabled, nothing left to receive): every output carries
   exactly the multiset the sequential stage delivers, every element was processed exactly once, every worker
   has returned, every output is closed *)
Theorem C09_fork_complete : forall (n : nat) (g : Z -> list act) (cl icaps ocaps : list nat),
  NoDup cl -> (forall a, Forall simple_act (g a)) -> (1 <= n)%nat -> (forall a, has_stop (g a) = false) ->
  forall s : state,
  let c := fork_cfg n g cl icaps ocaps in
  reachable c s -> cancelled s = false -> quiescent c s -> no_receive c s -> cclosed (ins s 0) = true ->
  (forall k, Permutation (delivered s k) (img g k (sent s 0))) /\
  Permutation (concat (map (fun w => wtaken (ws s w)) (seq 0 n))) (sent s 0) /\
  (forall w, (w < n)%nat -> wc (ws s w) = WDone) /\
  (forall k, In k cl -> cclosed (outs s k) = true).
Proof. exact fork_complete_perm. Qed.
Print Assumptions C09_fork_complete.

(* fork.Map in Try mode, in the terms of the documentation: results of the non-failing elements, one error
   per failing element - as multisets, equal to what pipe.Map delivers (C07_map_complete) up to order *)
Theorem C09_fork_map_try_complete : forall (f : Z -> res) (n : nat) (icaps ocaps : list nat) (s : state),
  let c := fork_stage n false (plan_map f true) [0%nat; 1%nat] icaps ocaps in
  (1 <= n)%nat ->
  reachable c s -> cancelled s = false -> quiescent c s -> no_receive c s -> cclosed (ins s 0) = true ->
  Permutation (delivered s 0) (ok_vals f (sent s 0)) /\
  Permutation (delivered s 1) (err_vals f (sent s 0)) /\
  Permutation (concat (map (fun w => wtaken (ws s w)) (seq 0 n))) (sent s 0) /\
  cclosed (outs s 0) = true /\ cclosed (outs s 1) = true.
Proof. exact fork_map_try_complete. Qed.
Print Assumptions C09_fork_map_try_complete.

(* the fork stages of fork.go are instances (definitional equalities) *)
Theorem C09_instances : forall (f : Z -> res) (p : Z -> bool) (try : bool) (n : nat) (icaps ocaps : list nat),
  fork_stage n false (plan_map f try) [0%nat; 1%nat] icaps ocaps = fork_cfg n (map_code f try) [0%nat; 1%nat] icaps ocaps /\
  fork_stage n false (plan_filter p) [0%nat] icaps ocaps = fork_cfg n (filter_code p) [0%nat] icaps ocaps /\
  fork_stage n false (plan_partition p) [0%nat; 1%nat] icaps ocaps = fork_cfg n (partition_code p) [0%nat; 1%nat] icaps ocaps /\
  fork_stage n false plan_poll [0%nat] icaps ocaps = fork_cfg n visit_code [0%nat] icaps ocaps.
Proof. exact (fun f p try n icaps ocaps => conj (fork_map_is f try n icaps ocaps) (conj (fork_filter_is p n icaps ocaps)
              (conj (fork_partition_is p n icaps ocaps) (fork_visit_is n icaps ocaps)))). Qed.
Print Assumptions C09_instances.

(* ================= FAIL-FAST MODE: the plain error hand-off `exx <- err` ================= *)

(* the per-element codes of fork.Map / fork.FMap under Lift satisfy the hypotheses used below with k = 1 (the
   error channel): whoever writes on k then returns; at most one value per element; only sends, polls and
   returns; no plain send on any other channel.  fork.FMap is an instance of fork_cfg like the others *)
Theorem C09_failfast_codes : forall (f : Z -> res) (h : Z -> list Z * option Z),
  failfast_code (map_code f false) 1 /\ failfast_code (fmap_code h false) 1 /\
  forall (try : bool) (n : nat) (icaps ocaps : list nat),
    fork_stage n false (plan_fmap h try) [0%nat; 1%nat] icaps ocaps = fork_cfg n (fmap_code h try) [0%nat; 1%nat] icaps ocaps.
Proof. exact (fun f h => conj (map_failfast_code f) (conj (fmap_failfast_code h) (fork_fmap_is h))). Qed.
Print Assumptions C09_failfast_codes.

(* THE PLAIN SEND NEVER BLOCKS: in every reachable state, a worker standing at `out_k <- e` finds room in the
   buffer, provided the channel has one slot per worker (every worker sends at most once in its life, and the
   one standing at the send has not sent yet: at most n - 1 slots are taken) *)
Theorem C09_fork_failfast_err_never_blocks : forall (n : nat) (g : Z -> list act) (cl icaps ocaps : list nat) (k : nat),
  (forall a, has_stop (g a) = false -> emits k (g a) = []) ->
  (forall a, (length (emits k (g a)) <= 1)%nat) ->
  forall (s : state) (w : nat) (eof : bool) (e : val) (rest : list act),
  reachable (fork_cfg n g cl icaps ocaps) s -> (w < n)%nat -> (n <= nth_cap ocaps k)%nat ->
  wc (ws s w) = WRun eof (APlain k e :: rest) -> has_room (outs s k) = true.
Proof. exact fork_err_never_blocks. Qed.
Print Assumptions C09_fork_failfast_err_never_blocks.

(* the same for fork.Map / fork.FMap themselves, gated by the harness or not, whatever the closer closes *)
Theorem C09_fork_map_failfast_err_never_blocks :
  forall (f : Z -> res) (gate : bool) (n : nat) (cl icaps ocaps : list nat) (s : state) (w : nat) (eof : bool) (e : val) (rest : list act),
  let c := fork_stage n gate (plan_map f false) cl icaps ocaps in
  reachable c s -> (w < n)%nat -> (n <= nth_cap ocaps 1)%nat ->
  wc (ws s w) = WRun eof (APlain 1 e :: rest) -> has_room (outs s 1) = true.
Proof. exact fork_map_err_never_blocks. Qed.
Print Assumptions C09_fork_map_failfast_err_never_blocks.

Theorem C09_fork_fmap_failfast_err_never_blocks :
  forall (f : Z -> list Z * option Z) (gate : bool) (n : nat) (cl icaps ocaps : list nat) (s : state) (w : nat) (eof : bool) (e : val) (rest : list act),
  let c := fork_stage n gate (plan_fmap f false) cl icaps ocaps in
  reachable c s -> (w < n)%nat -> (n <= nth_cap ocaps 1)%nat ->
  wc (ws s w) = WRun eof (APlain 1 e :: rest) -> has_room (outs s 1) = true.
Proof. exact fork_fmap_err_never_blocks. Qed.
Print Assumptions C09_fork_fmap_failfast_err_never_blocks.

(* THE CAPACITY IS NEEDED (the goroutine leak of `exx := make(chan error, 1)`): fork.Map with two workers, a
   function failing on every element, an error channel of capacity 1 and nobody receiving reaches a state in
   which the context is cancelled, the input is closed, nothing is enabled - and worker 1 is parked at the
   plain send without room, not returned; the closer has not run and neither output is closed *)
Theorem C09_fork_failfast_needs_capacity :
  let c := fork_stage 2 false (plan_map (fun x => Err (1000 + x)) false) [0%nat; 1%nat] [0%nat] [2%nat; 1%nat] in
  exists s, reachable c s /\ cancelled s = true /\ cclosed (ins s 0) = true /\ quiescent c s /\
            wc (ws s 1) = WRun false [APlain 1 1002; AStop] /\ has_room (outs s 1) = false /\
            wc (ws s 1) <> WDone /\ closer_done s = false /\ cclosed (outs s 0) = false /\ cclosed (outs s 1) = false.
Proof. exact fork_err_needs_capacity. Qed.
Print Assumptions C09_fork_failfast_needs_capacity.

(* EXIT (the C06 guarantees, failures included): input closed, nothing enabled, and either the context is
   cancelled - whether or not anybody ever receives - or nothing is left to receive: every worker has
   returned, the wg.Wait() goroutine has run, every channel it owns is closed *)
Theorem C09_fork_failfast_exit : forall (n : nat) (g : Z -> list act) (cl icaps ocaps : list nat) (k : nat),
  (forall a, has_stop (g a) = false -> emits k (g a) = []) ->
  (forall a, (length (emits k (g a)) <= 1)%nat) ->
  NoDup cl -> (forall a, Forall simple_act (g a)) ->
  (forall a k' v, In (APlain k' v) (g a) -> k' = k) ->
  (n <= nth_cap ocaps k)%nat ->
  forall s : state,
  let c := fork_cfg n g cl icaps ocaps in
  reachable c s -> quiescent c s -> cclosed (ins s 0) = true ->
  cancelled s = true \/ no_receive c s ->
  (forall w, (w < n)%nat -> wc (ws s w) = WDone) /\ closer_done s = true /\
  (forall k', In k' cl -> cclosed (outs s k') = true).
Proof. exact fork_failfast_exit. Qed.
Print Assumptions C09_fork_failfast_exit.

Theorem C09_fork_map_failfast_exit : forall (f : Z -> res) (n : nat) (icaps ocaps : list nat) (s : state),
  let c := fork_stage n false (plan_map f false) [0%nat; 1%nat] icaps ocaps in
  (n <= nth_cap ocaps 1)%nat ->
  reachable c s -> quiescent c s -> cclosed (ins s 0) = true -> cancelled s = true \/ no_receive c s ->
  (forall w, (w < n)%nat -> wc (ws s w) = WDone) /\ closer_done s = true /\
  cclosed (outs s 0) = true /\ cclosed (outs s 1) = true.
Proof. exact fork_map_failfast_exit. Qed.
Print Assumptions C09_fork_map_failfast_exit.

Theorem C09_fork_fmap_failfast_exit : forall (f : Z -> list Z * option Z) (n : nat) (icaps ocaps : list nat) (s : state),
  let c := fork_stage n false (plan_fmap f false) [0%nat; 1%nat] icaps ocaps in
  (n <= nth_cap ocaps 1)%nat ->
  reachable c s -> quiescent c s -> cclosed (ins s 0) = true -> cancelled s = true \/ no_receive c s ->
  (forall w, (w < n)%nat -> wc (ws s w) = WDone) /\ closer_done s = true /\
  cclosed (outs s 0) = true /\ cclosed (outs s 1) = true.
Proof. exact fork_fmap_failfast_exit. Qed.
Print Assumptions C09_fork_fmap_failfast_exit.

(* non-vacuity: the run of C09_fork_failfast_needs_capacity with cap(exx) = par = 2 goes on - worker 1's error
   fits, it returns, the closer runs - to a state satisfying every hypothesis of C09_fork_map_failfast_exit *)
Theorem C09_fork_failfast_exit_nonvacuous :
  let c := fork_stage 2 false (plan_map (fun x => Err (1000 + x)) false) [0%nat; 1%nat] [0%nat] [2%nat; 2%nat] in
  exists s, (2 <= nth_cap [2%nat; 2%nat] 1)%nat /\ reachable c s /\ quiescent c s /\
            cclosed (ins s 0) = true /\ cancelled s = true /\
            map snd (cbuf (outs s 1)) = [1001; 1002] /\ closer_done s = true.
Proof. exact (ex_intro _ noleak_state fork_failfast_exit_nonvacuous). Qed.
Print Assumptions C09_fork_failfast_exit_nonvacuous.

(* WHAT IS DELIVERED: by C09_fork_safe every output is a sub-multiset of the image of what was taken; and on the
   error channel at most one value per worker ever appears (received or still buffered) *)
Theorem C09_fork_failfast_at_most_n_errors : forall (n : nat) (g : Z -> list act) (cl icaps ocaps : list nat) (k : nat),
  (forall a, has_stop (g a) = false -> emits k (g a) = []) ->
  (forall a, (length (emits k (g a)) <= 1)%nat) ->
  forall s : state, reachable (fork_cfg n g cl icaps ocaps) s ->
  (length (delivered s k) + length (cbuf (outs s k)) <= n)%nat.
Proof. exact fork_at_most_n_errors. Qed.
Print Assumptions C09_fork_failfast_at_most_n_errors.

Theorem C09_fork_map_failfast_at_most_n_errors :
  forall (f : Z -> res) (gate : bool) (n : nat) (cl icaps ocaps : list nat) (s : state),
  reachable (fork_stage n gate (plan_map f false) cl icaps ocaps) s ->
  (length (delivered s 1) + length (cbuf (outs s 1)) <= n)%nat.
Proof. exact fork_map_at_most_n_errors. Qed.
Print Assumptions C09_fork_map_failfast_at_most_n_errors.

Theorem C09_fork_fmap_failfast_at_most_n_errors :
  forall (f : Z -> list Z * option Z) (gate : bool) (n : nat) (cl icaps ocaps : list nat) (s : state),
  reachable (fork_stage n gate (plan_fmap f false) cl icaps ocaps) s ->
  (length (delivered s 1) + length (cbuf (outs s 1)) <= n)%nat.
Proof. exact fork_fmap_at_most_n_errors. Qed.
Print Assumptions C09_fork_fmap_failfast_at_most_n_errors.
