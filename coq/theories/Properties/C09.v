(* C09 - Parallel fork stages process every element exactly once, like pipe up to order.
   Nothing but the property theorems (each [exact] a lemma, then Print Assumptions).  They are
   about the Pool machine with n goroutines sharing one input (Pipe/Stages.v fork_stage, mirroring
   pipe/fork/fork.go), for EVERY worker count, input, capacity and schedule - which worker takes
   which element and in which order in-flight calls complete are part of the schedule.
   [fork_cfg n g cl icaps ocaps]: n workers running the stateless per-element code g (the codes of
   fork.Map/FMap/Filter/Partition/ForEach/Void are [map_code], [fmap_code], [filter_code], ...).
   Not carried by these theorems: data-race freedom (a property of the Go memory model; the
   thorough tier runs the race detector) and scheduler fairness. *)
From Coq Require Import List ZArith Permutation.
From Golem Require Import Base.Lists Pipe.Pool Pipe.Stages Pipe.PoolSteps Pipe.PoolSafe Pipe.PoolLive Pipe.PoolSimple
     Pipe.PoolSeq Pipe.PoolMulti Pipe.PoolMultiStages Pipe.PoolStages.
Import ListNotations.
Open Scope Z_scope.

(* SAFETY in every reachable state, cancelled or not: the elements taken by the workers, plus those still
   buffered, are a permutation of the elements handed over (each is applied to at most one worker's function,
   exactly once); what reached output k - delivered, buffered, in a worker's hands, or dropped on cancel - is
   a permutation of the image of what the workers took: nothing lost, duplicated or invented *)
Theorem C09_fork_safe : forall (n : nat) (g : Z -> list act) (cl icaps ocaps : list nat) (s : state) (k : nat),
  reachable (fork_cfg n g cl icaps ocaps) s ->
  Permutation (concat (map (fun w => wtaken (ws s w)) (seq 0 n)) ++ map snd (cbuf (ins s 0))) (sent s 0) /\
  Permutation
    (delivered s k ++ map snd (cbuf (outs s k)) ++
     concat (map (fun w => pend k (wc (ws s w)) ++ wdropped (ws s w) k) (seq 0 n)))
    (img g k (concat (map (fun w => wtaken (ws s w)) (seq 0 n)))).
Proof. exact fork_safe. Qed.
Print Assumptions C09_fork_safe.

(* nothing is ever sent on a closed channel, nothing closed twice *)
Theorem C09_fork_nopanic : forall (n : nat) (g : Z -> list act) (cl icaps ocaps : list nat),
  NoDup cl -> forall s : state, reachable (fork_cfg n g cl icaps ocaps) s -> panicked s = false.
Proof. exact fork_nopanic. Qed.
Print Assumptions C09_fork_nopanic.

(* outputs are closed only after every worker has finished *)
Theorem C09_fork_closed_after_all_done : forall (n : nat) (g : Z -> list act) (cl icaps ocaps : list nat),
  NoDup cl -> forall (s : state) (k : nat), reachable (fork_cfg n g cl icaps ocaps) s -> cclosed (outs s k) = true ->
  forall w, (w < n)%nat -> wc (ws s w) = WDone.
Proof. exact fork_closed_after_all_done. Qed.
Print Assumptions C09_fork_closed_after_all_done.

(* COMPLETION (input closed, not cancelled, nothing enabled, nothing left to receive): every output carries
   exactly the multiset the sequential stage delivers, every element was processed exactly once, every worker
   has returned, every output is closed *)
Theorem C09_fork_complete : forall (n : nat) (g : Z -> list act) (cl icaps ocaps : list nat),
  NoDup cl -> (forall a, Forall simple_act (g a)) -> (1 <= n)%nat -> (forall a, has_stop (g a) = false) ->
  forall s : state,
  let c := fork_cfg n g cl icaps ocaps in
  reachable c s -> cancelled s = false -> quiescent c s -> no_receive c s -> cclosed (ins s 0) = true ->
  (forall k, Permutation (delivered s k) (img g k (sent s 0))) /\
  Permutation (concat (map (fun w => wtaken (ws s w)) (seq 0 n))) (sent s 0) /\
  (forall w, (w < n)%nat -> wc (ws s w) = WDone) /\
  (forall k, In k cl -> cclosed (outs s k) = true).
Proof. exact fork_complete_perm. Qed.
Print Assumptions C09_fork_complete.

(* fork.Map in Try mode, in the terms of the documentation: results of the non-failing elements, one error
   per failing element - as multisets, equal to what pipe.Map delivers (C07_map_complete) up to order *)
Theorem C09_fork_map_try_complete : forall (f : Z -> res) (n : nat) (icaps ocaps : list nat) (s : state),
  let c := fork_stage n false (plan_map f true) [0%nat; 1%nat] icaps ocaps in
  (1 <= n)%nat ->
  reachable c s -> cancelled s = false -> quiescent c s -> no_receive c s -> cclosed (ins s 0) = true ->
  Permutation (delivered s 0) (ok_vals f (sent s 0)) /\
  Permutation (delivered s 1) (err_vals f (sent s 0)) /\
  Permutation (concat (map (fun w => wtaken (ws s w)) (seq 0 n))) (sent s 0) /\
  cclosed (outs s 0) = true /\ cclosed (outs s 1) = true.
Proof. exact fork_map_try_complete. Qed.
Print Assumptions C09_fork_map_try_complete.

(* the fork stages of fork.go are instances (definitional equalities) *)
Theorem C09_instances : forall (f : Z -> res) (p : Z -> bool) (try : bool) (n : nat) (icaps ocaps : list nat),
  fork_stage n false (plan_map f try) [0%nat; 1%nat] icaps ocaps = fork_cfg n (map_code f try) [0%nat; 1%nat] icaps ocaps /\
  fork_stage n false (plan_filter p) [0%nat] icaps ocaps = fork_cfg n (filter_code p) [0%nat] icaps ocaps /\
  fork_stage n false (plan_partition p) [0%nat; 1%nat] icaps ocaps = fork_cfg n (partition_code p) [0%nat; 1%nat] icaps ocaps /\
  fork_stage n false plan_poll [0%nat] icaps ocaps = fork_cfg n visit_code [0%nat] icaps ocaps.
Proof. exact (fun f p try n icaps ocaps => conj (fork_map_is f try n icaps ocaps) (conj (fork_filter_is p n icaps ocaps)
              (conj (fork_partition_is p n icaps ocaps) (fork_visit_is n icaps ocaps)))). Qed.
Print Assumptions C09_instances.
