(* C08 - the unbounded channel (pipe.New) is FIFO, lossless, duplicate-free and never blocks senders.
   Nothing but the property theorems: each closed by [exact] of a lemma and followed by Print Assumptions.
   Layer 1 (Pipe/Queue.v, QueueProofs.v): the linked queue WITH POINTERS refines a list.
   Layer 2 (Pipe/Unbound.v, UnboundProofs.v): the pump over that list and the channels in / eg / ctx. *)
From Coq Require Import List ZArith.
From Golem Require Import Pipe.Queue Pipe.QueueProofs Pipe.Unbound Pipe.UnboundProofs.
Import ListNotations.

(* ====================================== layer 1: queue.go ====================================== *)
(* [wfq]: the chain from head is acyclic and ends in nil at tail; pooled nodes are not on the chain (they may
   keep stale next pointers); tail = nil <-> head = nil. [absq]: the values along the chain.
   [c : pick] is what sync.Pool hands out at this enq: a fresh node or ANY node released before. *)
Theorem C08_newq : wfq newq /\ absq newq = [].
Proof. exact newq_wf. Qed.
Print Assumptions C08_newq.

Theorem C08_enq_refines : forall (q : queue) (x : Z) (c : pick),
  wfq q -> wfq (enq x c q) /\ absq (enq x c q) = absq q ++ [x].
Proof. exact enq_refines. Qed.
Print Assumptions C08_enq_refines.

Theorem C08_deq_refines : forall q : queue,
  wfq q ->
  match absq q with
  | v :: r => exists q', deq q = Some (v, q') /\ wfq q' /\ absq q' = r
  | [] => deq q = None
  end.
Proof. exact deq_refines. Qed.
Print Assumptions C08_deq_refines.

Theorem C08_head_refines : forall q : queue, wfq q -> headv q = hd 0%Z (absq q).
Proof. exact head_refines. Qed.
Print Assumptions C08_head_refines.

Theorem C08_emit_nil_iff_empty : forall q : queue, wfq q -> (emit q = false <-> absq q = []).
Proof. exact emit_nil_iff_empty. Qed.
Print Assumptions C08_emit_nil_iff_empty.

Theorem C08_wfq_tail_head : forall q : queue, wfq q -> (qtail q = None <-> qhead q = None).
Proof. exact wfq_tail_head. Qed.
Print Assumptions C08_wfq_tail_head.

(* every history of operations from newq, with every pool choice at every enq (so also: drain to empty, refill,
   reuse of released nodes in any order): the pointer structure answers like the list *)
Theorem C08_queue_history : forall ops : list qop, qrun newq ops = lrun [] ops.
Proof. exact qrun_newq. Qed.
Print Assumptions C08_queue_history.

(* ====================================== layer 2: unbound.go ====================================== *)
(* for every capacity of the input channel [cin] and of the egress channel [ceg] (pipe.New uses the same number
   for both) and every list of events: sends, receives, close by the sender, cancel, steps of the pump with
   any choice among ready select arms *)
Theorem C08_fifo_lossless : forall (cin ceg : nat) (tr : list ev) (s : state),
  exec cin ceg repaired tr = Some s ->
  panic s = false /\ rcvd s ++ egbuf s ++ q s ++ inbuf s = sent s.
Proof. exact fifo_lossless. Qed.
Print Assumptions C08_fifo_lossless.

Theorem C08_never_blocks_sender : forall (cin ceg : nat) (tr : list ev) (s : state),
  exec cin ceg repaired tr = Some s ->
  (quiescent cin ceg repaired s -> cancelled s = false -> snd_closed s = false ->
   forall x, exists s', step cin ceg repaired s (ESent x) = Some s' /\ sent s' = sent s ++ [x])
  /\ (forall e s', no_sender e = true -> step cin ceg repaired s e = Some s' -> nu s' < nu s).
Proof. exact never_blocks_sender. Qed.
Print Assumptions C08_never_blocks_sender.

Theorem C08_cancel_delivers : forall (cin ceg : nat) (tr : list ev) (s : state) (l : list Z),
  exec cin ceg repaired tr = Some s ->
  at_cancel s = Some l ->
  (exists r, sent s = l ++ r)
  /\ (seen_closed s = true -> exists r, rcvd s = l ++ r).
Proof. exact cancel_delivers. Qed.
Print Assumptions C08_cancel_delivers.

Theorem C08_sender_close_clean : forall (cin ceg : nat) (tr : list ev) (s : state),
  exec cin ceg repaired tr = Some s ->
  panic s = false
  /\ (snd_closed s = true -> (at_cancel s = None \/ at_cancel s = Some (sent s)) ->
      seen_closed s = true -> rcvd s = sent s)
  /\ ((cancelled s = true \/ snd_closed s = true) ->
      quiescent cin ceg repaired s -> (forall v, step cin ceg repaired s (ERcvd v) = None) ->
      pc s = PDone /\ q s = [] /\ egbuf s = [] /\ eg_closed s = true
      /\ exists s', step cin ceg repaired s ERcvdClosed = Some s').
Proof. exact sender_close_clean. Qed.
Print Assumptions C08_sender_close_clean.

(* The setting shipped before the repair commit (the pump closes the sender's channel, no drain on cancel, no
   flush on sender close) is refuted by the two traces of DESIGN section 6 / F3: a regression to it is
   recognisable (Check.C08.digest counts the observed traces the shipped setting also accepts). *)
Theorem C08_shipped_close_crashes :
  exists s, exec 0 0 shipped [ESent 1%Z; EPump AWake; ECloseSnd; EPump AWake; EPump ARecv; EPump AReturn] = Some s
            /\ panic s = true /\ rcvd s = [] /\ sent s = [1%Z].
Proof. exact shipped_close_crashes. Qed.
Print Assumptions C08_shipped_close_crashes.

Theorem C08_shipped_cancel_loses :
  exists s, exec 1 1 shipped [ESent 1%Z; ECancel; EPump AWake; EPump ADone; EPump AReturn; ERcvdClosed] = Some s
            /\ at_cancel s = Some [1%Z] /\ seen_closed s = true /\ rcvd s = [] /\ inbuf s = [1%Z].
Proof. exact shipped_cancel_loses. Qed.
Print Assumptions C08_shipped_cancel_loses.

(* non-vacuity: the premises are reachable in the repaired setting *)
Example C08_run_cancel_with_parked_value :
  exists s, exec 1 1 repaired tr_cancel_parked = Some s
            /\ at_cancel s = Some [1%Z] /\ seen_closed s = true /\ rcvd s = [1%Z] /\ panic s = false.
Proof. exact cancel_parked_run. Qed.
Example C08_run_sender_close_with_backlog :
  exists s, exec 0 0 repaired tr_close_backlog = Some s
            /\ snd_closed s = true /\ at_cancel s = None /\ seen_closed s = true /\ rcvd s = [1%Z] /\ sent s = [1%Z]
            /\ panic s = false.
Proof. exact close_backlog_run. Qed.
Example C08_init_quiescent : forall cin ceg, quiescent cin ceg repaired init.
Proof. exact init_quiescent. Qed.
