(* C08 - placeholder while the harness is brought up; replaced by the real theorems. *)
From Coq Require Import List ZArith.
From Golem Require Import Pipe.Queue.
Import ListNotations.
Theorem C08_newq_empty : absq newq = [].
Proof. exact (eq_refl _). Qed.
Print Assumptions C08_newq_empty.
