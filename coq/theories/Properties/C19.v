(* C19 - list and slice sequence traits implement the same persistent sequence ADT.
   Nothing but the property theorems: each closed by [exact] of a lemma and followed by Print Assumptions.

   Models (Seq/Model.v, transcribed from /repo/internal/seq):
     list.go  : a heap of cons cells (head, tail pointer) + the cached length;        l_new l_cons l_head l_tail ...
     slice.go : a heap of arrays, a slice is a view (array, off, len, cap), Go's [go_append] writes IN PLACE
                whenever the capacity allows (so an aliasing Cons is expressible);      s_new s_cons s_head s_tail ...
     foldable.go : the generic loop [fold] over any implementation of the trait.
   [Rl h s l] / [Rs h v l] : in heap h the value s / v represents the list l (Seq/ListProofs.v, Seq/SliceProofs.v).
   [None] = run-time panic.  [grow] = whatever extra capacity Go's growslice decides to add (any function). *)
From Coq Require Import List ZArith.
From Golem Require Import Seq.Model Seq.ListProofs Seq.SliceProofs Seq.Theorems Seq.GenFoldFacts.
From GolemGen Require Import GenFold.
Import ListNotations.
Open Scope Z_scope.

(* ---------------- linked list ---------------- *)
Theorem C19_list_new_len : forall h xs k h' s, l_new h xs k = (h', s) ->
  Rl h' s xs /\ l_length h' s = Z.of_nat (length xs).
Proof. exact list_new_len. Qed.
Print Assumptions C19_list_new_len.

Theorem C19_list_head_cons : forall h x s l h' s', Rl h s l -> l_cons h x s = (h', s') -> l_head h' s' = Some x.
Proof. exact list_head_cons. Qed.
Print Assumptions C19_list_head_cons.

Theorem C19_list_tail_cons : forall h x s l h' s', Rl h s l -> l_cons h x s = (h', s') ->
  exists t, l_tail h' s' = Some t /\ Rl h' t l.
Proof. exact list_tail_cons. Qed.
Print Assumptions C19_list_tail_cons.

Theorem C19_list_length_cons : forall h x s l h' s', Rl h s l -> l_cons h x s = (h', s') ->
  l_length h' s' = l_length h s + 1.
Proof. exact list_length_cons. Qed.
Print Assumptions C19_list_length_cons.

Theorem C19_list_isempty_iff : forall h s l, Rl h s l ->
  (l_isempty h s = true <-> l_length h s = 0) /\ (l_isempty h s = true <-> l = []).
Proof. exact list_isempty_iff. Qed.
Print Assumptions C19_list_isempty_iff.

(* whatever is built next (New, Cons - the only operations that touch the heap; Tail/Head/Length/IsEmpty/Fold
   return no heap), a sequence built before still represents the same list *)
Theorem C19_list_persistent : forall h s l, Rl h s l ->
  (forall xs k h' s', l_new h xs k = (h', s') -> Rl h' s l) /\
  (forall x s0 l0 h' s', Rl h s0 l0 -> l_cons h x s0 = (h', s') -> Rl h' s l).
Proof. exact list_persistent. Qed.
Print Assumptions C19_list_persistent.

(* any Combine / Empty: no monoid law is used, in particular not commutativity *)
Theorem C19_list_fold_left_spec : forall fuel m h s l, Rl h s l -> (length l < fuel)%nat ->
  fold list_impl fuel m h s = Some (fold_left (mcombine m) l (mempty m)).
Proof. exact list_fold_left_spec. Qed.
Print Assumptions C19_list_fold_left_spec.

(* what the real code does on the empty sequence: nil-pointer dereference, a panic *)
Theorem C19_list_empty_panics : forall h s, Rl h s [] -> l_head h s = None /\ l_tail h s = None.
Proof. exact list_empty_panics. Qed.
Print Assumptions C19_list_empty_panics.

(* ---------------- slice ---------------- *)
Theorem C19_slice_new_len : forall h xs k h' s, s_new h xs k = (h', s) ->
  Rs h' s xs /\ s_length h' s = Z.of_nat (length xs).
Proof. exact slice_new_len. Qed.
Print Assumptions C19_slice_new_len.

Theorem C19_slice_head_cons : forall grow h x s l h' s', Rs h s l -> s_cons grow h x s = (h', s') -> s_head h' s' = Some x.
Proof. exact slice_head_cons. Qed.
Print Assumptions C19_slice_head_cons.

Theorem C19_slice_tail_cons : forall grow h x s l h' s', Rs h s l -> s_cons grow h x s = (h', s') ->
  exists t, s_tail h' s' = Some t /\ Rs h' t l.
Proof. exact slice_tail_cons. Qed.
Print Assumptions C19_slice_tail_cons.

Theorem C19_slice_length_cons : forall grow h x s l h' s', Rs h s l -> s_cons grow h x s = (h', s') ->
  s_length h' s' = s_length h s + 1.
Proof. exact slice_length_cons. Qed.
Print Assumptions C19_slice_length_cons.

Theorem C19_slice_isempty_iff : forall h s l, Rs h s l ->
  (s_isempty h s = true <-> s_length h s = 0) /\ (s_isempty h s = true <-> l = []).
Proof. exact slice_isempty_iff. Qed.
Print Assumptions C19_slice_isempty_iff.

Theorem C19_slice_persistent : forall grow h s l, Rs h s l ->
  (forall xs k h' s', s_new h xs k = (h', s') -> Rs h' s l) /\
  (forall x s0 l0 h' s', Rs h s0 l0 -> s_cons grow h x s0 = (h', s') -> Rs h' s l).
Proof. exact slice_persistent. Qed.
Print Assumptions C19_slice_persistent.

Theorem C19_slice_fold_left_spec : forall grow fuel m h s l, Rs h s l -> (length l < fuel)%nat ->
  fold (slice_impl grow) fuel m h s = Some (fold_left (mcombine m) l (mempty m)).
Proof. exact slice_fold_left_spec. Qed.
Print Assumptions C19_slice_fold_left_spec.

(* ---------------- the loop of foldable.go, regenerated from the source on every run ---------------- *)
(* [Fold] (coq/gen/GenFold.v) is what tools/go2coq reads off Foldable.Fold now; at any implementation of the trait, heap
   and monoid it is the [fold] of the model - so it is the left fold from the monoid's empty element on both traits *)
Theorem C19_generated_fold_is_model_fold : forall (I : impl) (fuel : nat) (m : monoid) (h : iH I) (s : iS I),
  Fold (mcombine m) (mempty m) (ihead I h) (iisempty I h) (itail I h) fuel s = fold I fuel m h s.
Proof. exact gen_fold_eq. Qed.
Print Assumptions C19_generated_fold_is_model_fold.

Theorem C19_generated_fold_list : forall fuel m h s l, Rl h s l -> (length l < fuel)%nat ->
  Fold (mcombine m) (mempty m) (l_head h) (l_isempty h) (l_tail h) fuel s = Some (fold_left (mcombine m) l (mempty m)).
Proof. exact gen_fold_list. Qed.
Print Assumptions C19_generated_fold_list.

Theorem C19_generated_fold_slice : forall fuel m h s l, Rs h s l -> (length l < fuel)%nat ->
  Fold (mcombine m) (mempty m) (s_head h) (s_isempty h) (s_tail h) fuel s = Some (fold_left (mcombine m) l (mempty m)).
Proof. exact (gen_fold_slice (fun _ _ => O)). Qed.
Print Assumptions C19_generated_fold_slice.

(* what the real code does on the empty sequence: index / slice bounds out of range, a panic *)
Theorem C19_slice_empty_panics : forall h s, Rs h s [] -> s_head h s = None /\ s_tail h s = None.
Proof. exact slice_empty_panics. Qed.
Print Assumptions C19_slice_empty_panics.

(* ---------------- both: every script ----------------
   [run0 I mon fuel nmon script] = per operation its result (value, bool, done, panic) followed by the re-read of
   EVERY live sequence (element walk through Head/Tail/IsEmpty, Length, IsEmpty, Fold under monoids 0..nmon-1),
   started from the empty heap and the empty store.  Equal on the two implementations and on plain lists,
   for all monoid tables, loop bounds and growth policies. *)
Theorem C19_script_equiv : forall grow (mon : nat -> monoid) (fuel nmon : nat) (script : list op),
  run0 list_impl mon fuel nmon script = run0 (slice_impl grow) mon fuel nmon script /\
  run0 list_impl mon fuel nmon script = run0 spec_impl mon fuel nmon script.
Proof. exact script_equiv. Qed.
Print Assumptions C19_script_equiv.

(* the plain-list machine they are equal to: the walk reads back the list, and a step leaves every slot
   other than its destination alone *)
Theorem C19_spec_walk : forall fuel l, (length l < fuel)%nat -> walk spec_impl fuel tt l = (l, true).
Proof. exact spec_walk. Qed.
Print Assumptions C19_spec_walk.

Theorem C19_spec_put_other : forall X d (s : X) st st' j, put d s st = Some st' -> j <> d ->
  (j < length st)%nat -> nth_error st' j = nth_error st j.
Proof. exact put_other. Qed.
Print Assumptions C19_spec_put_other.

(* ---------------- non-vacuity ---------------- *)
(* a script on both models: spare capacity, Cons twice on the same argument, Tail, the panics *)
Example C19_run_example :
  let mon := fun _ : nat => mkMonoid 0 (fun a b => a * 31 + b) in
  let script := [ONew 0 [1; 2] 2; OCons 1 3 0; OCons 2 4 0; OTail 1 1; ONew 2 [] 0; OHead 2; OTail 2 2; OFold 0 1] in
  run0 (slice_impl (fun _ _ => 3%nat)) mon 16 0 script = run0 list_impl mon 16 0 script /\
  map fst (run0 list_impl mon 16 0 script) = [RDone; RDone; RDone; RDone; RDone; RPanic; RPanic; RVal 33] /\
  map (fun x => map sn_elems (snd x)) (run0 list_impl mon 16 0 script) =
    [ [[1;2]]; [[1;2];[3;1;2]]; [[1;2];[3;1;2];[4;1;2]]; [[1;2];[1;2];[4;1;2]]; [[1;2];[1;2];[]];
      [[1;2];[1;2];[]]; [[1;2];[1;2];[]]; [[1;2];[1;2];[]] ].
Proof. vm_compute. repeat split. Qed.

(* the slice model is able to express an aliasing Cons: persistence above is not true by construction *)
Example C19_append_can_scribble : forall grow,
  let h0 := [[1; 0; 0]] in let v := mkV 0 0 1 3 in
  let '(h1, a) := go_append grow h0 v [7] in
  let '(h2, b) := go_append grow h1 v [8] in
  cells h1 a = [1; 7] /\ cells h2 b = [1; 8] /\ cells h2 a = [1; 8].
Proof. exact append_can_scribble. Qed.
