(* C19 - placeholder while the pipeline is brought up *)
From Coq Require Import List ZArith.
From Golem Require Import Seq.Model.
Import ListNotations.

Theorem C19_stub : run0 spec_impl (fun _ => mkMonoid 0%Z Z.add) 8 0 [ONew 0 [1%Z] 0] <> [].
Proof. discriminate. Qed.
Print Assumptions C19_stub.
