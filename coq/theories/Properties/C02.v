(* C02 - placeholder, theorems follow *)
From Golem Require Import Optics.Lens.
