(* C02 - lens derivation yields a correctly typed in-bounds focus or panics.
   Nothing but the property theorems: each closed by [exact] of a lemma and followed by Print Assumptions,
   plus non-vacuity examples.  About the code AFTER the repair of finding F5 (the guard `inline` of
   optics/lens.go, transcribed as [inline_guard]).  [new_lens] / [new_reflector] transcribe NewLens /
   NewReflector; every generated ForProductN / ForSpectrumN is [select] followed by the positional
   NewLens / NewReflector (theorems C01_ForProductN, C01_ForSpectrumN), every ForShapeN is ForProductN
   (theorems C04_ForShapeN).  Panic = the poison value.
   (Assembled by tools/scripts/gen_properties.py from tools/scripts/properties_src/C02.v.in.) *)
From Coq Require Import List String Bool Arith ZArith.
From Golem Require Import Optics.GenPrelude Optics.LayoutFacts Optics.HseqFacts Optics.LensFacts
  Optics.GenOpticsFacts Optics.DeriveFacts Optics.Examples.
From GolemGen Require Import GenHseq GenOptics.
Import ListNotations.
Open Scope res_scope.

(* derive_sound: whatever entry NewLens / NewReflector is handed, if it returns then the optic is the lens of that
   entry, the entry's declared type is identical to the requested focus type, and the focus coincides (offsets, name,
   type) with a field e' stored inside the struct S (reached without crossing a pointer): it sits at the compiler's
   offset of the selector path of e', the type at that path is A, and in a well-formed layout its bytes lie inside S *)
Theorem C02_derive_sound : forall S A e l, new_lens S A e = Ok l \/ new_reflector S A e = Ok l ->
  l = mkLens S A e /\ e_ty e = A /\
  exists e', In e' (flatten S 0 [] true) /\ e_inline e' = true /\ coincide e' e /\
    exists toff, true_offset S (e_path e') = Some toff /\ type_at S (e_path e') = Some A /\
      (forall s, lens_addr l s = s + toff) /\
      (wf_layout S = true -> toff + sizeof A <= sizeof S).
Proof. exact derive_sound. Qed.
Print Assumptions C02_derive_sound.

Theorem C02_NewLens_is_new_lens : forall S A e o, NewLens S A e = Ok o -> exists l, o = Field l /\ new_lens S A e = Ok l.
Proof. exact NewLens_ok. Qed.
Print Assumptions C02_NewLens_is_new_lens.

(* derive_rejects, one theorem per cause ------------------------------------------------------------------ *)
(* an unknown name among the first N *)
Theorem C02_reject_unknown_name : forall T As attr n,
  attr <> [] -> List.length As <= List.length attr -> In n (firstn (List.length As) attr) ->
  (forall y, In y (unfold (strip T) [] 0 [] true) -> e_key y <> n) ->
  select T As attr = Panic.
Proof. exact select_unknown_name. Qed.
Print Assumptions C02_reject_unknown_name.

(* a type no field has *)
Theorem C02_reject_unknown_type : forall T As A, In A As ->
  (forall y, In y (unfold (strip T) [] 0 [] true) -> e_ty y <> A) ->
  select T As [] = Panic.
Proof. exact select_unknown_type. Qed.
Print Assumptions C02_reject_unknown_type.

(* too few names: Go's slice-bounds panic of attr[0:N:len(attr)] - with or without spare capacity behind the slice *)
Theorem C02_reject_too_few_names : forall T As attr, attr <> [] -> List.length attr < List.length As -> select T As attr = Panic.
Proof. exact select_too_few. Qed.
Print Assumptions C02_reject_too_few_names.

(* a name whose field has another type (any entry whose declared type is not the requested one) *)
Theorem C02_reject_wrong_type : forall S A e, e_ty e <> A -> new_lens S A e = Panic /\ new_reflector S A e = Panic.
Proof. exact reject_wrong_type. Qed.
Print Assumptions C02_reject_wrong_type.

(* a container type parameter that is not a struct, e.g. a pointer to one: every entry is refused *)
Theorem C02_reject_non_struct_container : forall S A e, is_struct S = false ->
  new_lens S A e = Panic /\ new_reflector S A e = Panic.
Proof. exact reject_non_struct. Qed.
Print Assumptions C02_reject_non_struct_container.

Theorem C02_reject_non_struct_listing : forall T As attr, is_struct (strip T) = false -> select T As attr = Panic.
Proof. exact select_non_struct. Qed.
Print Assumptions C02_reject_non_struct_listing.

(* an entry that is not stored inside the struct (reached through an embedded pointer) is refused - unless it
   coincides in root offset, field offset, name and type with a field that is (then the lens IS that field's lens,
   see C02_derive_sound and the example C02_ex_coincidence) *)
Theorem C02_reject_not_inside : forall S A e,
  (forall e', In e' (flatten S 0 [] true) -> e_inline e' = true -> ~ coincide e' e) ->
  new_lens S A e = Panic /\ new_reflector S A e = Panic.
Proof. exact reject_not_inside. Qed.
Print Assumptions C02_reject_not_inside.

(* reflector_guard: a dynamic argument that is not a pointer to the container type panics; no arena results,
   i.e. nothing is modified *)
Theorem C02_reflector_guard : forall l m d v, d_type d <> Some (TPtr (l_S l)) ->
  lens_gett l m d = Panic /\ lens_putt l m d v = Panic.
Proof. exact reflector_guard. Qed.
Print Assumptions C02_reflector_guard.

(* what is selected when nothing is rejected: positional first-match lookups *)
Theorem C02_select_by_type : forall T As, is_struct (strip T) = true ->
  select T As [] = mapM (fun X => hseq_ForType X (unfold (strip T) [] 0 [] true)) As.
Proof. exact select_by_type. Qed.
Print Assumptions C02_select_by_type.

Theorem C02_select_by_name : forall T As attr, attr <> [] -> List.length As <= List.length attr -> As <> [] ->
  is_struct (strip T) = true ->
  select T As attr = mapM (hseq_ForName (unfold (strip T) [] 0 [] true)) (firstn (List.length As) attr).
Proof. exact select_by_name. Qed.
Print Assumptions C02_select_by_name.

(* ---- non-vacuity and the two shapes of finding F5 ----------------------------------------------------------
   K3 = struct { A int8; *K3In; B int64 }, K3In = struct { X int64; Y string }:  K3In.Y behind the pointer would
   be the range [16, 32) of the 24-byte K3 -- refused; K3.B is accepted;  container *K3 refused. *)
Example C02_ex_embedded_pointer_refused :
  (is_ok (ForProduct1 K3 t_string ["Y"]%string), is_ok (ForProduct1 K3 t_string []),
   is_ok (ForProduct1 K3 t_int64 ["B"]%string), is_ok (ForProduct1 (TPtr K3) t_int64 ["B"]%string),
   is_ok (ForSpectrum1 K3 t_string ["Y"]%string), sizeof K3)
  = (false, false, true, false, false, 24).
Proof. vm_compute. reflexivity. Qed.

(* K4 = struct { *K4P; X int64 }, K4P = struct { W int64; X int64 }: the first entry named X is K4P.X behind the
   pointer; it coincides with K4.X (root 0, offset 8, name X, int64): the accepted lens is the lens of K4.X *)
Example C02_ex_coincidence :
  match ForProduct1 K4 t_int64 ["X"]%string with
  | Ok (Field l) => Some (e_inline (l_t l), lens_addr l 0, true_offset K4 [1])
  | _ => None
  end = Some (false, 8, Some 8).
Proof. vm_compute. reflexivity. Qed.

Example C02_ex_wrong_type_too_few_unknown :
  (is_ok (ForProduct1 K2 t_mystr ["S"]%string), is_ok (ForProduct1 K2 t_string ["S"]%string),
   is_ok (ForProduct3 K2 t_int8 t_bool t_int8 ["A"; "X"]%string), is_ok (ForProduct3 K2 t_int8 t_bool t_int8 ["A"; "X"; "Y"]%string),
   is_ok (ForProduct1 K2 t_int8 ["nope"]%string), is_ok (ForProduct1 K2 t_int32 []))
  = (false, true, false, true, false, false).
Proof. vm_compute. reflexivity. Qed.

Example C02_ex_reflector_guard :
  match ForSpectrum1 K2 t_int8 ["A"]%string with
  | Ok l => (is_ok (lens_gett l k2_arena (mkDyn (Some (TPtr K2)) (Some k2_base))),
             is_ok (lens_gett l k2_arena (mkDyn (Some K2) None)),
             is_ok (lens_putt l k2_arena (mkDyn (Some (TPtr K3)) (Some k2_base)) [1%Z]),
             is_ok (lens_putt l k2_arena (mkDyn None None) [1%Z]))
  | Panic => (false, true, true, true)
  end = (true, false, false, false).
Proof. vm_compute. reflexivity. Qed.
