(* C01 - a field lens reads and writes exactly its field and nothing else.
   Nothing but the property theorems: each closed by [exact] of a lemma and followed by Print Assumptions,
   plus non-vacuity examples.  The model (Optics/Hseq.v, Lens.v, Mem.v) transcribes /repo/hseq/hseq.go and
   /repo/optics/lens.go, reflector.go and is tied to the code by the correspondence check; ForProduct1..9 /
   ForSpectrum1..9 are regenerated from the Go sources on every run (coq/gen/GenOptics.v).
   [focusable S e]: e is an entry of the unfolding of S reached through plain fields and value-embedded structs.
   (Assembled by tools/scripts/gen_properties.py from tools/scripts/properties_src/C01.v.in.) *)
From Coq Require Import List String Bool Arith ZArith.
From Golem Require Import Optics.GenPrelude Optics.LayoutFacts Optics.HseqFacts Optics.LensFacts
  Optics.GenHseqFacts Optics.GenOpticsFacts Optics.Examples.
From GolemGen Require Import GenHseq GenOptics.
Import ListNotations.
Open Scope res_scope.

(* 1. root + offset of a focusable entry is the compiler's offset of its selector path *)
Theorem C01_unfold_offset : forall S e, focusable S e ->
  exists toff, true_offset S (e_path e) = Some toff /\ toff = e_root e + e_off e /\ type_at S (e_path e) = Some (e_ty e).
Proof. exact focusable_has_offset. Qed.
Print Assumptions C01_unfold_offset.

(* 2. Get returns exactly the bytes of the field (a fault iff they leave the arena) *)
Theorem C01_get_exact : forall S A e m s toff, focusable S e -> true_offset S (e_path e) = Some toff ->
  lens_get (mkLens S A e) m s = of_option (load m (s + toff) (sizeof A)).
Proof. exact get_exact. Qed.
Print Assumptions C01_get_exact.

(* 3. Put returns the pointer it was given; the bytes of the field become v; EVERY byte of the arena outside
      [s + toff, s + toff + |v|) is unchanged (other fields, padding, guard zones); the arena keeps its length *)
Theorem C01_put_exact : forall S A e m s v toff p m', focusable S e -> true_offset S (e_path e) = Some toff ->
  lens_put (mkLens S A e) m s v = Ok (p, m') ->
  p = s /\
  List.length m' = List.length m /\
  load m' (s + toff) (List.length v) = Some v /\
  forall i, i < s + toff \/ s + toff + List.length v <= i -> nth_error m' i = nth_error m i.
Proof. exact put_exact. Qed.
Print Assumptions C01_put_exact.

(* 4. in a well-formed layout every other field (selector path neither a prefix nor an extension) reads the same
      before and after *)
Theorem C01_put_other_fields : forall S e e' A m s v p m',
  wf_layout S = true -> focusable S e -> focusable S e' ->
  ~ prefix_related (e_path e) (e_path e') ->
  List.length v = sizeof (e_ty e) ->
  lens_put (mkLens S A e) m s v = Ok (p, m') ->
  lens_get (mkLens S (e_ty e') e') m' s = lens_get (mkLens S (e_ty e') e') m s.
Proof. exact put_other_fields. Qed.
Print Assumptions C01_put_other_fields.

(* 5. the three laws, for every lens, every arena and every value *)
Theorem C01_GetPut : forall l m s v, lens_get l m s = Ok v -> lens_put l m s v = Ok (s, m).
Proof. exact lens_get_put. Qed.
Print Assumptions C01_GetPut.

Theorem C01_PutGet : forall l m s v p m', lens_put l m s v = Ok (p, m') -> List.length v = sizeof (l_A l) ->
  lens_get l m' s = Ok v.
Proof. exact lens_put_get. Qed.
Print Assumptions C01_PutGet.

Theorem C01_PutPut : forall l m s v v' p m1, lens_put l m s v = Ok (p, m1) -> List.length v' = List.length v ->
  lens_put l m1 s v' = lens_put l m s v'.
Proof. exact lens_put_put. Qed.
Print Assumptions C01_PutPut.

(* the Reflector given a *S is the lens (so 1-5 hold for Gett / Putt), and returns the value it was given *)
Theorem C01_reflector : forall l m s v,
  let d := mkDyn (Some (TPtr (l_S l))) (Some s) in
  lens_gett l m d = lens_get l m s /\
  lens_putt l m d v = match lens_put l m s v with Ok (_, m') => Ok (d, m') | Panic => Panic end.
Proof. exact reflector_is_lens. Qed.
Print Assumptions C01_reflector.

(* every field stored inside the struct has its lens (the derivation guard is not vacuous) *)
Theorem C01_derive_complete : forall S e, focusable S e -> new_lens S (e_ty e) e = Ok (mkLens S (e_ty e) e).
Proof. exact derive_complete. Qed.
Print Assumptions C01_derive_complete.

(* ---- 6. derivation glue, per arity, about the definitions regenerated from lens.go / reflector.go:
        the i-th optic is built from the i-th selected entry with the i-th focus type; [select] = by type
        (first match each) when attr is empty, else hseq.New over the first N names -------------------------- *)
Theorem C01_ForProduct1 : forall (T A : ty) (attr : list string),
  ForProduct1 T A attr =
  seq <- select T [A] attr ;;
  match seq with
  | e1 :: _ => a <- NewLens T A e1 ;; Ok a
  | _ => Panic
  end.
Proof. exact ForProduct1_spec. Qed.
Print Assumptions C01_ForProduct1.

Theorem C01_ForSpectrum1 : forall (T A : ty) (attr : list string),
  ForSpectrum1 T A attr =
  seq <- select T [A] attr ;;
  match seq with
  | e1 :: _ => a <- NewReflector T A e1 ;; Ok a
  | _ => Panic
  end.
Proof. exact ForSpectrum1_spec. Qed.
Print Assumptions C01_ForSpectrum1.

Theorem C01_ForProduct2 : forall (T A B : ty) (attr : list string),
  ForProduct2 T A B attr =
  seq <- select T [A; B] attr ;;
  match seq with
  | e1 :: e2 :: _ => a <- NewLens T A e1 ;; b <- NewLens T B e2 ;; Ok (a, b)
  | _ => Panic
  end.
Proof. exact ForProduct2_spec. Qed.
Print Assumptions C01_ForProduct2.

Theorem C01_ForSpectrum2 : forall (T A B : ty) (attr : list string),
  ForSpectrum2 T A B attr =
  seq <- select T [A; B] attr ;;
  match seq with
  | e1 :: e2 :: _ => a <- NewReflector T A e1 ;; b <- NewReflector T B e2 ;; Ok (a, b)
  | _ => Panic
  end.
Proof. exact ForSpectrum2_spec. Qed.
Print Assumptions C01_ForSpectrum2.

Theorem C01_ForProduct3 : forall (T A B C : ty) (attr : list string),
  ForProduct3 T A B C attr =
  seq <- select T [A; B; C] attr ;;
  match seq with
  | e1 :: e2 :: e3 :: _ => a <- NewLens T A e1 ;; b <- NewLens T B e2 ;; c <- NewLens T C e3 ;; Ok (a, b, c)
  | _ => Panic
  end.
Proof. exact ForProduct3_spec. Qed.
Print Assumptions C01_ForProduct3.

Theorem C01_ForSpectrum3 : forall (T A B C : ty) (attr : list string),
  ForSpectrum3 T A B C attr =
  seq <- select T [A; B; C] attr ;;
  match seq with
  | e1 :: e2 :: e3 :: _ => a <- NewReflector T A e1 ;; b <- NewReflector T B e2 ;; c <- NewReflector T C e3 ;; Ok (a, b, c)
  | _ => Panic
  end.
Proof. exact ForSpectrum3_spec. Qed.
Print Assumptions C01_ForSpectrum3.

Theorem C01_ForProduct4 : forall (T A B C D : ty) (attr : list string),
  ForProduct4 T A B C D attr =
  seq <- select T [A; B; C; D] attr ;;
  match seq with
  | e1 :: e2 :: e3 :: e4 :: _ => a <- NewLens T A e1 ;; b <- NewLens T B e2 ;; c <- NewLens T C e3 ;; d <- NewLens T D e4 ;; Ok (a, b, c, d)
  | _ => Panic
  end.
Proof. exact ForProduct4_spec. Qed.
Print Assumptions C01_ForProduct4.

Theorem C01_ForSpectrum4 : forall (T A B C D : ty) (attr : list string),
  ForSpectrum4 T A B C D attr =
  seq <- select T [A; B; C; D] attr ;;
  match seq with
  | e1 :: e2 :: e3 :: e4 :: _ => a <- NewReflector T A e1 ;; b <- NewReflector T B e2 ;; c <- NewReflector T C e3 ;; d <- NewReflector T D e4 ;; Ok (a, b, c, d)
  | _ => Panic
  end.
Proof. exact ForSpectrum4_spec. Qed.
Print Assumptions C01_ForSpectrum4.

Theorem C01_ForProduct5 : forall (T A B C D E : ty) (attr : list string),
  ForProduct5 T A B C D E attr =
  seq <- select T [A; B; C; D; E] attr ;;
  match seq with
  | e1 :: e2 :: e3 :: e4 :: e5 :: _ => a <- NewLens T A e1 ;; b <- NewLens T B e2 ;; c <- NewLens T C e3 ;; d <- NewLens T D e4 ;; e <- NewLens T E e5 ;; Ok (a, b, c, d, e)
  | _ => Panic
  end.
Proof. exact ForProduct5_spec. Qed.
Print Assumptions C01_ForProduct5.

Theorem C01_ForSpectrum5 : forall (T A B C D E : ty) (attr : list string),
  ForSpectrum5 T A B C D E attr =
  seq <- select T [A; B; C; D; E] attr ;;
  match seq with
  | e1 :: e2 :: e3 :: e4 :: e5 :: _ => a <- NewReflector T A e1 ;; b <- NewReflector T B e2 ;; c <- NewReflector T C e3 ;; d <- NewReflector T D e4 ;; e <- NewReflector T E e5 ;; Ok (a, b, c, d, e)
  | _ => Panic
  end.
Proof. exact ForSpectrum5_spec. Qed.
Print Assumptions C01_ForSpectrum5.

Theorem C01_ForProduct6 : forall (T A B C D E F : ty) (attr : list string),
  ForProduct6 T A B C D E F attr =
  seq <- select T [A; B; C; D; E; F] attr ;;
  match seq with
  | e1 :: e2 :: e3 :: e4 :: e5 :: e6 :: _ => a <- NewLens T A e1 ;; b <- NewLens T B e2 ;; c <- NewLens T C e3 ;; d <- NewLens T D e4 ;; e <- NewLens T E e5 ;; f <- NewLens T F e6 ;; Ok (a, b, c, d, e, f)
  | _ => Panic
  end.
Proof. exact ForProduct6_spec. Qed.
Print Assumptions C01_ForProduct6.

Theorem C01_ForSpectrum6 : forall (T A B C D E F : ty) (attr : list string),
  ForSpectrum6 T A B C D E F attr =
  seq <- select T [A; B; C; D; E; F] attr ;;
  match seq with
  | e1 :: e2 :: e3 :: e4 :: e5 :: e6 :: _ => a <- NewReflector T A e1 ;; b <- NewReflector T B e2 ;; c <- NewReflector T C e3 ;; d <- NewReflector T D e4 ;; e <- NewReflector T E e5 ;; f <- NewReflector T F e6 ;; Ok (a, b, c, d, e, f)
  | _ => Panic
  end.
Proof. exact ForSpectrum6_spec. Qed.
Print Assumptions C01_ForSpectrum6.

Theorem C01_ForProduct7 : forall (T A B C D E F G : ty) (attr : list string),
  ForProduct7 T A B C D E F G attr =
  seq <- select T [A; B; C; D; E; F; G] attr ;;
  match seq with
  | e1 :: e2 :: e3 :: e4 :: e5 :: e6 :: e7 :: _ => a <- NewLens T A e1 ;; b <- NewLens T B e2 ;; c <- NewLens T C e3 ;; d <- NewLens T D e4 ;; e <- NewLens T E e5 ;; f <- NewLens T F e6 ;; g <- NewLens T G e7 ;; Ok (a, b, c, d, e, f, g)
  | _ => Panic
  end.
Proof. exact ForProduct7_spec. Qed.
Print Assumptions C01_ForProduct7.

Theorem C01_ForSpectrum7 : forall (T A B C D E F G : ty) (attr : list string),
  ForSpectrum7 T A B C D E F G attr =
  seq <- select T [A; B; C; D; E; F; G] attr ;;
  match seq with
  | e1 :: e2 :: e3 :: e4 :: e5 :: e6 :: e7 :: _ => a <- NewReflector T A e1 ;; b <- NewReflector T B e2 ;; c <- NewReflector T C e3 ;; d <- NewReflector T D e4 ;; e <- NewReflector T E e5 ;; f <- NewReflector T F e6 ;; g <- NewReflector T G e7 ;; Ok (a, b, c, d, e, f, g)
  | _ => Panic
  end.
Proof. exact ForSpectrum7_spec. Qed.
Print Assumptions C01_ForSpectrum7.

Theorem C01_ForProduct8 : forall (T A B C D E F G H : ty) (attr : list string),
  ForProduct8 T A B C D E F G H attr =
  seq <- select T [A; B; C; D; E; F; G; H] attr ;;
  match seq with
  | e1 :: e2 :: e3 :: e4 :: e5 :: e6 :: e7 :: e8 :: _ => a <- NewLens T A e1 ;; b <- NewLens T B e2 ;; c <- NewLens T C e3 ;; d <- NewLens T D e4 ;; e <- NewLens T E e5 ;; f <- NewLens T F e6 ;; g <- NewLens T G e7 ;; h <- NewLens T H e8 ;; Ok (a, b, c, d, e, f, g, h)
  | _ => Panic
  end.
Proof. exact ForProduct8_spec. Qed.
Print Assumptions C01_ForProduct8.

Theorem C01_ForSpectrum8 : forall (T A B C D E F G H : ty) (attr : list string),
  ForSpectrum8 T A B C D E F G H attr =
  seq <- select T [A; B; C; D; E; F; G; H] attr ;;
  match seq with
  | e1 :: e2 :: e3 :: e4 :: e5 :: e6 :: e7 :: e8 :: _ => a <- NewReflector T A e1 ;; b <- NewReflector T B e2 ;; c <- NewReflector T C e3 ;; d <- NewReflector T D e4 ;; e <- NewReflector T E e5 ;; f <- NewReflector T F e6 ;; g <- NewReflector T G e7 ;; h <- NewReflector T H e8 ;; Ok (a, b, c, d, e, f, g, h)
  | _ => Panic
  end.
Proof. exact ForSpectrum8_spec. Qed.
Print Assumptions C01_ForSpectrum8.

Theorem C01_ForProduct9 : forall (T A B C D E F G H I : ty) (attr : list string),
  ForProduct9 T A B C D E F G H I attr =
  seq <- select T [A; B; C; D; E; F; G; H; I] attr ;;
  match seq with
  | e1 :: e2 :: e3 :: e4 :: e5 :: e6 :: e7 :: e8 :: e9 :: _ => a <- NewLens T A e1 ;; b <- NewLens T B e2 ;; c <- NewLens T C e3 ;; d <- NewLens T D e4 ;; e <- NewLens T E e5 ;; f <- NewLens T F e6 ;; g <- NewLens T G e7 ;; h <- NewLens T H e8 ;; i <- NewLens T I e9 ;; Ok (a, b, c, d, e, f, g, h, i)
  | _ => Panic
  end.
Proof. exact ForProduct9_spec. Qed.
Print Assumptions C01_ForProduct9.

Theorem C01_ForSpectrum9 : forall (T A B C D E F G H I : ty) (attr : list string),
  ForSpectrum9 T A B C D E F G H I attr =
  seq <- select T [A; B; C; D; E; F; G; H; I] attr ;;
  match seq with
  | e1 :: e2 :: e3 :: e4 :: e5 :: e6 :: e7 :: e8 :: e9 :: _ => a <- NewReflector T A e1 ;; b <- NewReflector T B e2 ;; c <- NewReflector T C e3 ;; d <- NewReflector T D e4 ;; e <- NewReflector T E e5 ;; f <- NewReflector T F e6 ;; g <- NewReflector T G e7 ;; h <- NewReflector T H e8 ;; i <- NewReflector T I e9 ;; Ok (a, b, c, d, e, f, g, h, i)
  | _ => Panic
  end.
Proof. exact ForSpectrum9_spec. Qed.
Print Assumptions C01_ForSpectrum9.


(* ---- non-vacuity: K2 has padding holes, bool/int8/int16/string/slice/zero-size fields and value embedding of
        depth 3; the arena is 8 guard bytes, the 88 bytes 100..187 of a K2, 8 guard bytes --------------------- *)
Example C01_ex_get_depth3 :
  match entry_named K2 "S" with
  | Some e => lens_get (mkLens K2 t_string e) k2_arena k2_base
  | None => Panic
  end = Ok (map Z.of_nat (seq 132 16)).
Proof. vm_compute. reflexivity. Qed.

Example C01_ex_put_depth3 :
  match entry_named K2 "S" with
  | Some e => lens_put (mkLens K2 t_string e) k2_arena k2_base (repeat 7%Z 16)
  | None => Panic
  end = Ok (8, guard ++ map Z.of_nat (seq 100 32) ++ repeat 7%Z 16 ++ map Z.of_nat (seq 148 40) ++ guard).
Proof. vm_compute. reflexivity. Qed.

Example C01_ex_zero_size_and_bool :
  match entry_named K2 "X", nth_error (listing K2) 10 with
  | Some x, Some z =>
      (lens_get (mkLens K2 t_bool x) k2_arena k2_base, e_name z,
       lens_put (mkLens K2 t_empty z) k2_arena k2_base [])
  | _, _ => (Panic, ""%string, Panic)
  end = (Ok [108%Z], "Z"%string, Ok (8, k2_arena)).
Proof. vm_compute. reflexivity. Qed.

Example C01_ex_derived_by_name_and_type :
  (match ForProduct2 K2 t_int64 t_bytes ["bee"; "W"]%string with
   | Ok (Field a, Field b) => Some (lens_addr a 0, lens_addr b 0)
   | _ => None
   end,
   match ForProduct1 K2 t_int16 [] with
   | Ok (Field a) => Some (lens_addr a 0)
   | _ => None
   end) = (Some (72, 48), Some 24).
Proof. vm_compute. reflexivity. Qed.
