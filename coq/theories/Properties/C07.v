(* C07 - Fail-fast and try-and-continue error modes behave as documented for every fault.
   Nothing but the property theorems.  The user function is ANY function [f : Z -> res] (Ok v | Err e):
   which elements fail is arbitrary.  [try = false]: Lift / LiftF (fail-fast); [try = true]: Try / TryF.
   [map_reach f try xs] = xs under Try, = the elements up to and including the first failing one under Lift
   ([upto_err]); [ok_vals] / [err_vals] keep input order.  Output 0 carries values, output 1 errors.
   "_prefix" in every reachable state (any schedule, cancelled or not); "_complete" at the end of every
   complete uncancelled run; "_never_blocks": the plain `exx <- err` of the fail-fast mode always finds room.
   "provided the error channel is read (e.g. via StdErr)": C07_stderr_* say that pipe.StdErr's goroutine IS such a
   reader - for any capacity, schedule and with or without cancel (it takes no context): it reads in order,
   whenever it cannot move the channel is empty and (if open) accepts the next error at once, and it returns
   exactly when the channel is closed and empty, having read - and logged the non-nil ones of - everything. *)
From Coq Require Import List ZArith.
From Golem Require Import Base.Lists Pipe.Pool Pipe.Stages Pipe.PoolSteps Pipe.PoolLive Pipe.PoolSeq
     Pipe.PoolStages Pipe.PoolErr Pipe.PoolGen Pipe.PoolStdErr Pipe.PoolExamples.
Import ListNotations.
Open Scope Z_scope.

Theorem C07_map_prefix : forall (f : Z -> res) (try : bool) (icaps ocaps : list nat) (s : state),
  reachable (map_cfg f try icaps ocaps) s ->
  prefix (delivered s 0) (ok_vals f (map_reach f try (sent s 0))) /\
  prefix (delivered s 1) (err_vals f (map_reach f try (sent s 0))) /\
  prefix (wtaken (ws s 0)) (map_reach f try (sent s 0)).
Proof. exact map_prefix. Qed.
Print Assumptions C07_map_prefix.

(* Lift: exactly the results before the first failure, that error once, nothing processed further, both closed.
   Try: one error per failing element and no output for it, the normal output for every other, both closed. *)
Theorem C07_map_complete : forall (f : Z -> res) (try : bool) (icaps ocaps : list nat) (s : state),
  let c := map_cfg f try icaps ocaps in
  reachable c s -> cancelled s = false -> quiescent c s -> no_receive c s -> cclosed (ins s 0) = true ->
  delivered s 0 = ok_vals f (map_reach f try (sent s 0)) /\
  delivered s 1 = err_vals f (map_reach f try (sent s 0)) /\
  wtaken (ws s 0) = map_reach f try (sent s 0) /\
  wc (ws s 0) = WDone /\ cclosed (outs s 0) = true /\ cclosed (outs s 1) = true.
Proof. exact map_complete. Qed.
Print Assumptions C07_map_complete.

(* FMap with arrows [f a = (values sent, optional error)] *)
Theorem C07_fmap_prefix : forall (f : Z -> list Z * option Z) (try : bool) (icaps ocaps : list nat) (s : state),
  reachable (fmap_cfg f try icaps ocaps) s ->
  prefix (delivered s 0) (fmap_vals f (fmap_reach f try (sent s 0))) /\
  prefix (delivered s 1) (fmap_errs f (fmap_reach f try (sent s 0))) /\
  prefix (wtaken (ws s 0)) (fmap_reach f try (sent s 0)).
Proof. exact fmap_prefix. Qed.
Print Assumptions C07_fmap_prefix.

Theorem C07_fmap_complete : forall (f : Z -> list Z * option Z) (try : bool) (icaps ocaps : list nat) (s : state),
  let c := fmap_cfg f try icaps ocaps in
  reachable c s -> cancelled s = false -> quiescent c s -> no_receive c s -> cclosed (ins s 0) = true ->
  delivered s 0 = fmap_vals f (fmap_reach f try (sent s 0)) /\
  delivered s 1 = fmap_errs f (fmap_reach f try (sent s 0)) /\
  wtaken (ws s 0) = fmap_reach f try (sent s 0) /\
  wc (ws s 0) = WDone /\ cclosed (outs s 0) = true /\ cclosed (outs s 1) = true.
Proof. exact fmap_complete. Qed.
Print Assumptions C07_fmap_complete.

(* the fail-fast error hand-off cannot block (capacity >= 1 is what errch gives): no failure pattern keeps
   the goroutine alive *)
Theorem C07_map_err_never_blocks : forall (f : Z -> res) (icaps ocaps : list nat) (s : state) (eof : bool) (e : Z) (rest : list act),
  let c := map_cfg f false icaps ocaps in
  reachable c s -> (1 <= nth_cap ocaps 1)%nat -> wc (ws s 0) = WRun eof (APlain 1 e :: rest) -> has_room (outs s 1) = true.
Proof. exact map_err_never_blocks. Qed.
Print Assumptions C07_map_err_never_blocks.

Theorem C07_fmap_err_never_blocks : forall (f : Z -> list Z * option Z) (icaps ocaps : list nat) (s : state) (eof : bool) (e : Z) (rest : list act),
  let c := fmap_cfg f false icaps ocaps in
  reachable c s -> (1 <= nth_cap ocaps 1)%nat -> wc (ws s 0) = WRun eof (APlain 1 e :: rest) -> has_room (outs s 1) = true.
Proof. exact fmap_err_never_blocks. Qed.
Print Assumptions C07_fmap_err_never_blocks.

(* Unfold: seed, f seed, ... ; under fail-fast nothing follows the first failing application *)
Theorem C07_unfold_prefix : forall (f : Z -> res) (try : bool) (seed : Z) (ocaps : list nat) (s : state),
  reachable (unfold_cfg f try seed ocaps) s ->
  exists n, prefix (delivered s 0) (seeds f seed n) /\ prefix (delivered s 1) (err_vals f (seeds f seed n)) /\
            (try = false -> existsb (is_err f) (seeds f seed (n - 1)) = false).
Proof. exact unfold_prefix. Qed.
Print Assumptions C07_unfold_prefix.

Theorem C07_unfold_failfast_complete : forall (f : Z -> res) (try : bool) (seed : Z) (ocaps : list nat) (s : state),
  let c := unfold_cfg f try seed ocaps in
  reachable c s -> cancelled s = false -> quiescent c s -> no_receive c s ->
  exists n, delivered s 0 = seeds f seed (S n) /\ existsb (is_err f) (seeds f seed n) = false /\
            is_err f (nth n (seeds f seed (S n)) 0) = true /\
            delivered s 1 = err_vals f (seeds f seed (S n)) /\ try = false /\
            wc (ws s 0) = WDone /\ cclosed (outs s 0) = true /\ cclosed (outs s 1) = true.
Proof. exact unfold_failfast_complete. Qed.
Print Assumptions C07_unfold_failfast_complete.

(* Emit: f(0), f(1), ... ; Try skips failing indices (one error each), Lift stops at the first *)
Theorem C07_emit_prefix : forall (freq : N) (f : Z -> res) (try : bool) (ocaps : list nat) (s : state),
  reachable (emit_cfg freq f try ocaps) s ->
  exists n, prefix (delivered s 0) (ok_vals f (zrange 0 n)) /\ prefix (delivered s 1) (err_vals f (zrange 0 n)) /\
            (try = false -> existsb (is_err f) (zrange 0 (n - 1)) = false).
Proof. exact emit_prefix. Qed.
Print Assumptions C07_emit_prefix.

(* pipe.StdErr (the reader of the error channel) *)
Theorem C07_stderr_reads_in_order : forall (icaps ocaps : list nat) (s : state),
  reachable (stderr_cfg icaps ocaps) s ->
  prefix (wtaken (ws s 0)) (sent s 0) /\ prefix (logged (wtaken (ws s 0))) (logged (sent s 0)).
Proof. exact stderr_reads_in_order. Qed.
Print Assumptions C07_stderr_reads_in_order.

Theorem C07_stderr_never_blocks : forall (icaps ocaps : list nat) (s : state),
  let c := stderr_cfg icaps ocaps in
  reachable c s -> quiescent c s ->
  cbuf (ins s 0) = [] /\
  (cclosed (ins s 0) = false -> forall e, step c s (ESent 0 e) <> None) /\
  (cclosed (ins s 0) = true -> wc (ws s 0) = WDone /\ wtaken (ws s 0) = sent s 0).
Proof. exact stderr_never_blocks. Qed.
Print Assumptions C07_stderr_never_blocks.

Theorem C07_stderr_returns_only_at_close : forall (icaps ocaps : list nat) (s : state),
  reachable (stderr_cfg icaps ocaps) s -> wc (ws s 0) = WDone ->
  wtaken (ws s 0) = sent s 0 /\ cbuf (ins s 0) = [] /\ cclosed (ins s 0) = true.
Proof. exact stderr_done_all. Qed.
Print Assumptions C07_stderr_returns_only_at_close.

(* non-vacuity of the failure patterns: a function failing on 7 *)
Theorem C07_example :
  let f := fun x => if Z.eqb x 7 then Err (1000 + x) else Ok (2 * x) in
  map_reach f false [1; 7; 3] = [1; 7] /\ ok_vals f (map_reach f false [1; 7; 3]) = [2] /\
  err_vals f (map_reach f false [1; 7; 3]) = [1007] /\
  ok_vals f (map_reach f true [1; 7; 3]) = [2; 6] /\ err_vals f (map_reach f true [1; 7; 3]) = [1007].
Proof. exact ex_failing_map. Qed.
Print Assumptions C07_example.
