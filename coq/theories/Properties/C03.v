(* C03 - struct unfolding lists every field once, in order, with its true offset.
   Nothing but the property theorems: each closed by [exact] of a lemma and followed by Print Assumptions,
   plus non-vacuity examples.  [unfold], [flatten], [hseq_New] .. are the hand-written model of
   /repo/hseq/hseq.go (Optics/Hseq.v, tied to the code by the correspondence check); New1..9 / FMap1..9 are
   regenerated from hseq.go on every run (coq/gen/GenHseq.v).
   (Assembled by tools/scripts/gen_properties.py from tools/scripts/properties_src/C03.v.in.) *)
From Coq Require Import List String Ascii Bool Arith.
From Golem Require Import Optics.GenPrelude Optics.LayoutFacts Optics.HseqFacts Optics.GenHseqFacts Optics.Examples.
From GolemGen Require Import GenHseq.
Import ListNotations.
Open Scope res_scope.

(* The listing: for EVERY type tree S, unfold yields the fields of the depth-first declaration-order flatten
   (an embedded struct, by value or by pointer, immediately followed by its own fields), in the same order;
   the ID of the i-th entry is i; PureType is the field type with one pointer stripped. *)
Theorem C03_unfold_spec : forall S,
  let l := unfold S [] 0 [] true in
  let spec := flatten S 0 [] true in
  l = number 0 spec /\
  List.length l = List.length spec /\
  forall i e, nth_error l i = Some e ->
    e_id e = i /\ e_pure e = strip (e_ty e) /\
    exists e0, nth_error spec i = Some e0 /\ e = set_id e0 i.
Proof. exact unfold_spec. Qed.
Print Assumptions C03_unfold_spec.

(* For every entry reached without crossing a pointer, root offset + field offset is the compiler's offset of
   its selector path (the sum of the field offsets along s.a.b.c), and its type is the type at that path. *)
Theorem C03_unfold_offset : forall S e, In e (unfold S [] 0 [] true) -> e_inline e = true ->
  true_offset S (e_path e) = Some (e_root e + e_off e) /\ type_at S (e_path e) = Some (e_ty e).
Proof. exact unfold_offset. Qed.
Print Assumptions C03_unfold_offset.

(* the name of an entry: the first comma-part of the hseq tag when present (not empty), else the field name *)
Theorem C03_key : forall e,
  e_key e = (if String.eqb (tag_head (e_tag e)) "" then e_name e else tag_head (e_tag e)) /\
  ~ In ","%char (list_ascii_of_string (tag_head (e_tag e))) /\
  exists r, e_tag e = (tag_head (e_tag e) ++ r)%string /\ (r = ""%string \/ exists r', r = String ","%char r').
Proof. exact key_facts. Qed.
Print Assumptions C03_key.

(* ForName returns the first entry of the listing with that name or fails loudly; ForNameMaybe reports absence *)
Theorem C03_for_name_first : forall seq n,
  (forall e, hseq_ForName seq n = Ok e <->
             exists l1 l2, seq = l1 ++ e :: l2 /\ e_key e = n /\ forall y, In y l1 -> e_key y <> n) /\
  (hseq_ForName seq n = Panic <-> forall y, In y seq -> e_key y <> n) /\
  (forall e, for_name_maybe seq n = Some e <-> hseq_ForName seq n = Ok e) /\
  (for_name_maybe seq n = None <-> hseq_ForName seq n = Panic).
Proof. exact for_name_first. Qed.
Print Assumptions C03_for_name_first.

(* ForType returns the first entry whose declared type is identical to the witness type or fails loudly *)
Theorem C03_for_type_first : forall seq A,
  (forall e, hseq_ForType A seq = Ok e <->
             exists l1 l2, seq = l1 ++ e :: l2 /\ e_ty e = A /\ forall y, In y l1 -> e_ty y <> A) /\
  (hseq_ForType A seq = Panic <-> forall y, In y seq -> e_ty y <> A).
Proof. exact for_type_first. Qed.
Print Assumptions C03_for_type_first.

(* selection by names keeps the requested order (the i-th result is the lookup of the i-th name);
   a single miss fails the whole call; no names = the whole listing; a non-struct fails *)
Theorem C03_new_names_order : forall S names, names <> [] -> is_struct (strip S) = true ->
  hseq_New S names = mapM (hseq_ForName (unfold (strip S) [] 0 [] true)) names /\
  forall r, hseq_New S names = Ok r ->
    List.length r = List.length names /\
    forall i n, nth_error names i = Some n ->
      exists e, nth_error r i = Some e /\ hseq_ForName (unfold (strip S) [] 0 [] true) n = Ok e.
Proof. exact new_names_order. Qed.
Print Assumptions C03_new_names_order.

Theorem C03_new_all : forall S, is_struct (strip S) = true -> hseq_New S [] = Ok (unfold (strip S) [] 0 [] true).
Proof. exact new_all. Qed.
Print Assumptions C03_new_all.

(* the gc layout rules produce well-formed layouts (the theorems of C01 are stated for every well-formed layout) *)
Theorem C03_golayout_wf : forall t, wf_layout (golayout t) = true.
Proof. exact golayout_wf. Qed.
Print Assumptions C03_golayout_wf.

(* ---- per arity, about the definitions regenerated from hseq.go: FMapN hands the i-th entry to the i-th
        function (too short a sequence panics); NewN = the positional lookups by type ---------------- *)
Theorem C03_FMap1 : forall (A : Type) (ts : list entry) (fa : entry -> res A),
  FMap1 ts fa =
  match ts with
  | e1 :: _ => a <- fa e1 ;; Ok a
  | _ => Panic
  end.
Proof. exact FMap1_spec. Qed.
Print Assumptions C03_FMap1.

Theorem C03_New1 : forall (T A : ty),
  New1 T A = seq <- hseq_New T [] ;; mapM (fun X => hseq_ForType X seq) [A].
Proof. exact New1_spec. Qed.
Print Assumptions C03_New1.

Theorem C03_FMap2 : forall (A B : Type) (ts : list entry) (fa : entry -> res A) (fb : entry -> res B),
  FMap2 ts fa fb =
  match ts with
  | e1 :: e2 :: _ => a <- fa e1 ;; b <- fb e2 ;; Ok (a, b)
  | _ => Panic
  end.
Proof. exact FMap2_spec. Qed.
Print Assumptions C03_FMap2.

Theorem C03_New2 : forall (T A B : ty),
  New2 T A B = seq <- hseq_New T [] ;; mapM (fun X => hseq_ForType X seq) [A; B].
Proof. exact New2_spec. Qed.
Print Assumptions C03_New2.

Theorem C03_FMap3 : forall (A B C : Type) (ts : list entry) (fa : entry -> res A) (fb : entry -> res B) (fc : entry -> res C),
  FMap3 ts fa fb fc =
  match ts with
  | e1 :: e2 :: e3 :: _ => a <- fa e1 ;; b <- fb e2 ;; c <- fc e3 ;; Ok (a, b, c)
  | _ => Panic
  end.
Proof. exact FMap3_spec. Qed.
Print Assumptions C03_FMap3.

Theorem C03_New3 : forall (T A B C : ty),
  New3 T A B C = seq <- hseq_New T [] ;; mapM (fun X => hseq_ForType X seq) [A; B; C].
Proof. exact New3_spec. Qed.
Print Assumptions C03_New3.

Theorem C03_FMap4 : forall (A B C D : Type) (ts : list entry) (fa : entry -> res A) (fb : entry -> res B) (fc : entry -> res C) (fd : entry -> res D),
  FMap4 ts fa fb fc fd =
  match ts with
  | e1 :: e2 :: e3 :: e4 :: _ => a <- fa e1 ;; b <- fb e2 ;; c <- fc e3 ;; d <- fd e4 ;; Ok (a, b, c, d)
  | _ => Panic
  end.
Proof. exact FMap4_spec. Qed.
Print Assumptions C03_FMap4.

Theorem C03_New4 : forall (T A B C D : ty),
  New4 T A B C D = seq <- hseq_New T [] ;; mapM (fun X => hseq_ForType X seq) [A; B; C; D].
Proof. exact New4_spec. Qed.
Print Assumptions C03_New4.

Theorem C03_FMap5 : forall (A B C D E : Type) (ts : list entry) (fa : entry -> res A) (fb : entry -> res B) (fc : entry -> res C) (fd : entry -> res D) (fe : entry -> res E),
  FMap5 ts fa fb fc fd fe =
  match ts with
  | e1 :: e2 :: e3 :: e4 :: e5 :: _ => a <- fa e1 ;; b <- fb e2 ;; c <- fc e3 ;; d <- fd e4 ;; e <- fe e5 ;; Ok (a, b, c, d, e)
  | _ => Panic
  end.
Proof. exact FMap5_spec. Qed.
Print Assumptions C03_FMap5.

Theorem C03_New5 : forall (T A B C D E : ty),
  New5 T A B C D E = seq <- hseq_New T [] ;; mapM (fun X => hseq_ForType X seq) [A; B; C; D; E].
Proof. exact New5_spec. Qed.
Print Assumptions C03_New5.

Theorem C03_FMap6 : forall (A B C D E F : Type) (ts : list entry) (fa : entry -> res A) (fb : entry -> res B) (fc : entry -> res C) (fd : entry -> res D) (fe : entry -> res E) (ff : entry -> res F),
  FMap6 ts fa fb fc fd fe ff =
  match ts with
  | e1 :: e2 :: e3 :: e4 :: e5 :: e6 :: _ => a <- fa e1 ;; b <- fb e2 ;; c <- fc e3 ;; d <- fd e4 ;; e <- fe e5 ;; f <- ff e6 ;; Ok (a, b, c, d, e, f)
  | _ => Panic
  end.
Proof. exact FMap6_spec. Qed.
Print Assumptions C03_FMap6.

Theorem C03_New6 : forall (T A B C D E F : ty),
  New6 T A B C D E F = seq <- hseq_New T [] ;; mapM (fun X => hseq_ForType X seq) [A; B; C; D; E; F].
Proof. exact New6_spec. Qed.
Print Assumptions C03_New6.

Theorem C03_FMap7 : forall (A B C D E F G : Type) (ts : list entry) (fa : entry -> res A) (fb : entry -> res B) (fc : entry -> res C) (fd : entry -> res D) (fe : entry -> res E) (ff : entry -> res F) (fg : entry -> res G),
  FMap7 ts fa fb fc fd fe ff fg =
  match ts with
  | e1 :: e2 :: e3 :: e4 :: e5 :: e6 :: e7 :: _ => a <- fa e1 ;; b <- fb e2 ;; c <- fc e3 ;; d <- fd e4 ;; e <- fe e5 ;; f <- ff e6 ;; g <- fg e7 ;; Ok (a, b, c, d, e, f, g)
  | _ => Panic
  end.
Proof. exact FMap7_spec. Qed.
Print Assumptions C03_FMap7.

Theorem C03_New7 : forall (T A B C D E F G : ty),
  New7 T A B C D E F G = seq <- hseq_New T [] ;; mapM (fun X => hseq_ForType X seq) [A; B; C; D; E; F; G].
Proof. exact New7_spec. Qed.
Print Assumptions C03_New7.

Theorem C03_FMap8 : forall (A B C D E F G H : Type) (ts : list entry) (fa : entry -> res A) (fb : entry -> res B) (fc : entry -> res C) (fd : entry -> res D) (fe : entry -> res E) (ff : entry -> res F) (fg : entry -> res G) (fh : entry -> res H),
  FMap8 ts fa fb fc fd fe ff fg fh =
  match ts with
  | e1 :: e2 :: e3 :: e4 :: e5 :: e6 :: e7 :: e8 :: _ => a <- fa e1 ;; b <- fb e2 ;; c <- fc e3 ;; d <- fd e4 ;; e <- fe e5 ;; f <- ff e6 ;; g <- fg e7 ;; h <- fh e8 ;; Ok (a, b, c, d, e, f, g, h)
  | _ => Panic
  end.
Proof. exact FMap8_spec. Qed.
Print Assumptions C03_FMap8.

Theorem C03_New8 : forall (T A B C D E F G H : ty),
  New8 T A B C D E F G H = seq <- hseq_New T [] ;; mapM (fun X => hseq_ForType X seq) [A; B; C; D; E; F; G; H].
Proof. exact New8_spec. Qed.
Print Assumptions C03_New8.

Theorem C03_FMap9 : forall (A B C D E F G H I : Type) (ts : list entry) (fa : entry -> res A) (fb : entry -> res B) (fc : entry -> res C) (fd : entry -> res D) (fe : entry -> res E) (ff : entry -> res F) (fg : entry -> res G) (fh : entry -> res H) (fi : entry -> res I),
  FMap9 ts fa fb fc fd fe ff fg fh fi =
  match ts with
  | e1 :: e2 :: e3 :: e4 :: e5 :: e6 :: e7 :: e8 :: e9 :: _ => a <- fa e1 ;; b <- fb e2 ;; c <- fc e3 ;; d <- fd e4 ;; e <- fe e5 ;; f <- ff e6 ;; g <- fg e7 ;; h <- fh e8 ;; i <- fi e9 ;; Ok (a, b, c, d, e, f, g, h, i)
  | _ => Panic
  end.
Proof. exact FMap9_spec. Qed.
Print Assumptions C03_FMap9.

Theorem C03_New9 : forall (T A B C D E F G H I : ty),
  New9 T A B C D E F G H I = seq <- hseq_New T [] ;; mapM (fun X => hseq_ForType X seq) [A; B; C; D; E; F; G; H; I].
Proof. exact New9_spec. Qed.
Print Assumptions C03_New9.


(* ---- non-vacuity: padding holes, bool/int8/int16/string/slice/zero-size fields, value embedding of depth 3 ---- *)
Example C03_ex_names : map e_name (listing K2) = ["A"; "K2A"; "X"; "K2B"; "Y"; "K2C"; "Z"; "S"; "W"; "B"; "Z"]%string.
Proof. vm_compute. reflexivity. Qed.
Example C03_ex_offsets : map (fun e => e_root e + e_off e) (listing K2) = [0; 8; 8; 16; 16; 24; 24; 32; 48; 72; 80] /\ sizeof K2 = 88.
Proof. vm_compute. split; reflexivity. Qed.
Example C03_ex_ids_keys : map e_id (listing K2) = seq 0 11 /\ option_map e_id (entry_named K2 "bee") = Some 9 /\ entry_named K2 "B" = None.
Proof. vm_compute. repeat split; reflexivity. Qed.
Example C03_ex_first_match : option_map e_id (entry_named K2 "Z") = Some 6.
Proof. vm_compute. reflexivity. Qed.
Example C03_ex_pointer_embedding : map e_inline (listing K3) = [true; true; false; false; true] /\ wf_layout K2 = true /\ wf_layout K3 = true.
Proof. vm_compute. repeat split; reflexivity. Qed.
