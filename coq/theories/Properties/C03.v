(* C03 - placeholder, theorems follow *)
From Golem Require Import Optics.Hseq.
