(* C13 (pace clause) - "when input is always available and the consumer always ready, element i (counting
   from 0) is delivered no earlier than floor(i/ops)*interval and no later than one interval after that".
   Nothing but the property theorems; the upper half, under MAXIMAL PROGRESS (Pipe/PoolMaxProgress.v).
   (The lower half - deliveries by time t <= ops * (t / interval + 1) for ANY clock policy - is
   Properties/C13.v: C13_deliveries_rate.)

   [throttle_stage ops interval icaps ocaps]: worker 0 = the pacer, worker 1 = the data goroutine, out 0 = the
   output, out 1 = the token channel (internal).  [mp_reachable c ext0 fed s]: s is reached by an execution of
   [step] in which
     - the environment receives from out 0 only ([ext0]) and never cancels;
     - every clock event [EAdvance t] happens in a [settled] state - no step of either goroutine enabled and
       nothing receivable on out 0: "the consumer is always ready" - that is [fed] - the data goroutine is not
       standing at `range in` with nothing to take: "input is always available" (implied by: the input buffer
       is full or the input is closed, C13_saturated_is_fed) - and t does not exceed the pacer's pending deadline.
   Hypothesis on the capacities: the token channel can hold a token when ops >= 1 (pipe.Throttling makes it
   with capacity ops); the capacities of the input and of the output are arbitrary.

   Result: the schedule is EXACT - deliveries = min(handed over, ops * (now / interval + 1)); element i is
   delivered at the instant floor(i/ops) * interval, so "no later than one interval after" holds with a whole
   interval to spare. *)
From Coq Require Import List ZArith NArith.
From Golem Require Import Base.Lists Pipe.Pool Pipe.Stages Pipe.PoolSteps Pipe.PoolLive Pipe.PoolSeq
     Pipe.PoolMaxProgress Pipe.PoolThrottlePace.
Import ListNotations.

(* whenever the clock may move: either the data goroutine has returned (input closed, everything handed over
   was delivered, output closed), or it holds the next element and ALL ops * (now / interval + 1) tokens of
   the batches so far have been turned into deliveries *)
Theorem C13_throttle_keeps_pace : forall (ops : nat) (interval : N) (icaps ocaps : list nat),
  (1 <= ops -> 1 <= nth_cap ocaps 1)%nat ->
  forall s : state,
  mp_reachable (throttle_stage ops interval icaps ocaps) ext0 fed s ->
  settled (throttle_stage ops interval icaps ocaps) ext0 s -> fed s -> (0 < interval)%N ->
  (wc (ws s 1) = WDone /\ cclosed (ins s 0) = true /\ cclosed (outs s 0) = true /\ delivered s 0 = sent s 0 /\
   (N.of_nat (length (sent s 0)) <= N.of_nat ops * (now s / interval + 1))%N)
  \/
  (exists a : Z, wc (ws s 1) = WRun false [ATok 1; ASend 0 a] /\
             N.of_nat (length (delivered s 0)) = (N.of_nat ops * (now s / interval + 1))%N /\
             prefix (delivered s 0 ++ [a]) (sent s 0)).
Proof. exact throttle_keeps_pace. Qed.
Print Assumptions C13_throttle_keeps_pace.

Theorem C13_throttle_delivery_count : forall (ops : nat) (interval : N) (icaps ocaps : list nat),
  (1 <= ops -> 1 <= nth_cap ocaps 1)%nat ->
  forall s : state,
  mp_reachable (throttle_stage ops interval icaps ocaps) ext0 fed s ->
  settled (throttle_stage ops interval icaps ocaps) ext0 s -> fed s -> (0 < interval)%N ->
  N.of_nat (length (delivered s 0)) = N.min (N.of_nat (length (sent s 0))) (N.of_nat ops * (now s / interval + 1)).
Proof. exact throttle_delivery_count. Qed.
Print Assumptions C13_throttle_delivery_count.

(* element i has been delivered <=> it was handed over and the instant floor(i/ops)*interval has been reached *)
Theorem C13_throttle_element_time : forall (ops : nat) (interval : N) (icaps ocaps : list nat),
  (1 <= ops -> 1 <= nth_cap ocaps 1)%nat ->
  forall (s : state) (i : nat),
  mp_reachable (throttle_stage ops interval icaps ocaps) ext0 fed s ->
  settled (throttle_stage ops interval icaps ocaps) ext0 s -> fed s -> (0 < interval)%N -> (1 <= ops)%nat ->
  ((i < length (delivered s 0))%nat <->
   (i < length (sent s 0))%nat /\ (N.of_nat (i / ops) * interval <= now s)%N).
Proof. exact throttle_element_time. Qed.
Print Assumptions C13_throttle_element_time.

(* the invariants behind it, for ALL maximal-progress states: tokens taken out of the token channel = elements
   made available + the one in the data goroutine's hand (with C13_deliveries_le_tokens: equality), and - as long
   as the data goroutine has not returned - the pacer's clock is exact: batch b starts at (b-1)*interval *)
Theorem C13_tokens_all_spent : forall (ops : nat) (interval : N) (icaps ocaps : list nat) (s : state),
  mp_reachable (throttle_stage ops interval icaps ocaps) ext0 fed s -> G s.
Proof. exact G_mp_reachable. Qed.
Print Assumptions C13_tokens_all_spent.

Theorem C13_pacer_clock_exact : forall (ops : nat) (interval : N) (icaps ocaps : list nat),
  (1 <= ops -> 1 <= nth_cap ocaps 1)%nat ->
  forall s : state,
  mp_reachable (throttle_stage ops interval icaps ocaps) ext0 fed s -> X interval s.
Proof. exact X_mp_reachable. Qed.
Print Assumptions C13_pacer_clock_exact.

(* "input buffer full or input closed" is a sufficient, observable reading of "input always available" *)
Theorem C13_saturated_is_fed : forall (ops : nat) (interval : N) (icaps ocaps : list nat) (s : state),
  cclosed (ins s 0) = true \/ in_room (throttle_stage ops interval icaps ocaps) s 0 = false -> fed s.
Proof. exact saturated_fed. Qed.
Print Assumptions C13_saturated_is_fed.

(* non-vacuity: 2 tokens per 5 ticks, five elements offered: 10, 11 at time 0; 12, 13 at time 5; 14 waits;
   and the run in which the input is closed after 13 *)
Theorem C13_throttle_keeps_pace_nonvacuous :
  exists s, mp_reachable (throttle_stage 2 5 [1%nat] [1%nat; 2%nat]) ext0 fed s /\
            settled (throttle_stage 2 5 [1%nat] [1%nat; 2%nat]) ext0 s /\ fed s /\
            now s = 5%N /\ delivered s 0 = [10; 11; 12; 13]%Z /\ wc (ws s 1) = WRun false [ATok 1; ASend 0 14%Z].
Proof. exact throttle_mp_example. Qed.
Print Assumptions C13_throttle_keeps_pace_nonvacuous.

Theorem C13_throttle_keeps_pace_nonvacuous_done :
  exists s, mp_reachable (throttle_stage 2 5 [1%nat] [1%nat; 2%nat]) ext0 fed s /\
            settled (throttle_stage 2 5 [1%nat] [1%nat; 2%nat]) ext0 s /\ fed s /\
            now s = 100%N /\ delivered s 0 = [10; 11; 12; 13]%Z /\ wc (ws s 1) = WDone.
Proof. exact throttle_mp_example_done. Qed.
Print Assumptions C13_throttle_keeps_pace_nonvacuous_done.

(* the policy bites: no clock move while the data goroutine starves, while an element waits in the output
   buffer, or past the pacer's deadline *)
Theorem C13_mp_policy_bites :
  thr_mp_run 2 5 [1%nat] [1%nat; 2%nat] (thr_ex_batch ++ thr_ex_el 10 ++ [EAdvance 5]) = None /\
  thr_mp_run 2 5 [1%nat] [1%nat; 2%nat]
    (thr_ex_batch ++ [ESent 0 10%Z; EW 1 false; EW 1 false; EW 1 false; EAdvance 5]) = None /\
  thr_mp_run 2 5 [1%nat] [1%nat; 2%nat]
    (thr_ex_batch ++ thr_ex_el 10 ++ thr_ex_el 11 ++ [ESent 0 12%Z; EW 1 false; EAdvance 6]) = None.
Proof. exact (conj throttle_mp_starved (conj throttle_mp_no_lag throttle_mp_no_jump)). Qed.
Print Assumptions C13_mp_policy_bites.
