(* C12 - Join merges all inputs: nothing lost or duplicated, per-input order kept.
   Nothing but the property theorems.  [join_stage n icaps ocaps]: goroutine i copies input i to the
   shared output 0; a wg.Wait() goroutine closes it (Pipe/Stages.v, mirroring pipe.Join).  [rcvd s 0]
   is the received sequence with its ghost origin tags; [mine i] selects the sub-sequence that came
   from input i.  For every number of inputs, capacities and schedule. *)
From Coq Require Import List ZArith Permutation.
From Golem Require Import Base.Lists Pipe.Pool Pipe.Stages Pipe.PoolSteps Pipe.PoolLive Pipe.PoolSeq Pipe.PoolMultiStages.
Import ListNotations.

(* in every reachable state (cancelled or not): no panic; the output is an interleaving of prefixes of the
   inputs - each received value comes from one input i < n, the values from input i are a prefix of what was
   handed over on input i, in order; nothing else is in the output *)
Theorem C12_join_safe : forall (n : nat) (icaps ocaps : list nat) (s : state),
  reachable (join_stage n icaps ocaps) s ->
  panicked s = false /\
  (forall (t : nat) (v : val), In (t, v) (rcvd s 0) -> (t < n)%nat) /\
  (forall i, prefix (mine i (rcvd s 0)) (sent s i)) /\
  Permutation (delivered s 0) (concat (map (fun i => mine i (rcvd s 0)) (seq 0 n))).
Proof. exact join_safe. Qed.
Print Assumptions C12_join_safe.

(* unless cancelled, the output is closed ONLY AFTER every input has been closed and drained *)
Theorem C12_join_closes_only_after_inputs : forall (n : nat) (icaps ocaps : list nat) (s : state),
  reachable (join_stage n icaps ocaps) s -> cancelled s = false -> cclosed (outs s 0) = true ->
  forall i, (i < n)%nat -> cclosed (ins s i) = true /\ cbuf (ins s i) = [] /\ wtaken (ws s i) = sent s i.
Proof. exact join_closes_only_after_inputs. Qed.
Print Assumptions C12_join_closes_only_after_inputs.

(* ... and it DOES close after that: all inputs closed, nothing enabled, nothing left to receive => the
   sub-sequence from each input is the whole input, the output is closed, all goroutines returned *)
Theorem C12_join_completes : forall (n : nat) (icaps ocaps : list nat) (s : state),
  let c := join_stage n icaps ocaps in
  reachable c s -> cancelled s = false -> quiescent c s -> no_receive c s ->
  (forall i, (i < n)%nat -> cclosed (ins s i) = true) ->
  (forall i, (i < n)%nat -> mine i (rcvd s 0) = sent s i) /\
  Permutation (delivered s 0) (concat (map (fun i => sent s i) (seq 0 n))) /\
  cclosed (outs s 0) = true /\
  (forall w, (w < n)%nat -> wc (ws s w) = WDone).
Proof. exact join_completes. Qed.
Print Assumptions C12_join_completes.

(* no input at all: the output closes without any input event *)
Theorem C12_join_zero_closes : forall (n : nat) (icaps ocaps : list nat),
  n = 0%nat -> exists s, exec (join_stage n icaps ocaps) [ECloser] = Some s /\ cclosed (outs s 0) = true.
Proof. exact join_zero_closes. Qed.
Print Assumptions C12_join_zero_closes.
