(* C12 - Join merges all inputs: nothing lost or duplicated, per-input order kept.
   Nothing but the property theorems.  [join_stage n icaps ocaps]: goroutine i copies input i to the
   shared output 0; a wg.Wait() goroutine closes it (Pipe/Stages.v, mirroring pipe.Join).  [rcvd s 0]
   is the received sequence with its ghost origin tags; [mine i] selects the sub-sequence that came
   from input i.  For every number of inputs, capacities and schedule - and for every ARRIVAL ORDER: the
   last theorems say that no input is ever starved by another one (whenever the stage is at rest, each
   input's goroutine has returned, or accepts the next send at once, or is held back by a full OUTPUT). *)
From Coq Require Import List ZArith Permutation.
From Golem Require Import Base.Lists Pipe.Pool Pipe.Stages Pipe.PoolSteps Pipe.PoolLive Pipe.PoolSeq Pipe.PoolMultiStages
     Pipe.PoolJoinServed.
Import ListNotations.

(* in every reachable state (cancelled or not): no panic; the output is an interleaving of prefixes of the
   inputs - each received value comes from one input i < n, the values from input i are a prefix of what was
   handed over on input i, in order; nothing else is in the output *)
Theorem C12_join_safe : forall (n : nat) (icaps ocaps : list nat) (s : state),
  reachable (join_stage n icaps ocaps) s ->
  panicked s = false /\
  (forall (t : nat) (v : val), In (t, v) (rcvd s 0) -> (t < n)%nat) /\
  (forall i, prefix (mine i (rcvd s 0)) (sent s i)) /\
  Permutation (delivered s 0) (concat (map (fun i => mine i (rcvd s 0)) (seq 0 n))).
Proof. exact join_safe. Qed.
Print Assumptions C12_join_safe.

(* unless cancelled, the output is closed ONLY AFTER every input has been closed and drained *)
Theorem C12_join_closes_only_after_inputs : forall (n : nat) (icaps ocaps : list nat) (s : state),
  reachable (join_stage n icaps ocaps) s -> cancelled s = false -> cclosed (outs s 0) = true ->
  forall i, (i < n)%nat -> cclosed (ins s i) = true /\ cbuf (ins s i) = [] /\ wtaken (ws s i) = sent s i.
Proof. exact join_closes_only_after_inputs. Qed.
Print Assumptions C12_join_closes_only_after_inputs.

(* ... and it DOES close after that: all inputs closed, nothing enabled, nothing left to receive => the
   sub-sequence from each input is the whole input, the output is closed, all goroutines returned *)
Theorem C12_join_completes : forall (n : nat) (icaps ocaps : list nat) (s : state),
  let c := join_stage n icaps ocaps in
  reachable c s -> cancelled s = false -> quiescent c s -> no_receive c s ->
  (forall i, (i < n)%nat -> cclosed (ins s i) = true) ->
  (forall i, (i < n)%nat -> mine i (rcvd s 0) = sent s i) /\
  Permutation (delivered s 0) (concat (map (fun i => sent s i) (seq 0 n))) /\
  cclosed (outs s 0) = true /\
  (forall w, (w < n)%nat -> wc (ws s w) = WDone).
Proof. exact join_completes. Qed.
Print Assumptions C12_join_completes.

(* no input at all: the output closes without any input event *)
Theorem C12_join_zero_closes : forall (n : nat) (icaps ocaps : list nat),
  n = 0%nat -> exists s, exec (join_stage n icaps ocaps) [ECloser] = Some s /\ cclosed (outs s 0) = true.
Proof. exact join_zero_closes. Qed.
Print Assumptions C12_join_zero_closes.

(* ANY ARRIVAL ORDER - no input is starved by another one.  Whenever the stage is at rest (not cancelled), the
   goroutine of EVERY input w is in exactly one of three places (the control states differ, see
   [join_served_exclusive]):
   (a) returned - input w was closed and drained, everything handed over on it was taken;
   (b) parked in `range in_w` on an empty open input - and then the next send on input w is accepted at once,
       even when unbuffered, whatever the state of the other inputs;
   (c) holding one element that the OUTPUT cannot take (full and open): back-pressure from the consumer.
   A Join that serves input i+1 only after input i has closed violates this. *)
Theorem C12_join_every_input_served : forall (n : nat) (icaps ocaps : list nat) (s : state),
  let c := join_stage n icaps ocaps in
  reachable c s -> cancelled s = false -> quiescent c s ->
  forall w, (w < n)%nat ->
    (wc (ws s w) = WDone /\ cclosed (ins s w) = true /\ cbuf (ins s w) = [] /\ wtaken (ws s w) = sent s w) \/
    (wc (ws s w) = WRecv /\ cbuf (ins s w) = [] /\ cclosed (ins s w) = false /\
     forall x, step c s (ESent w x) <> None) \/
    (exists eof x rest, wc (ws s w) = WRun eof (ASend 0 x :: rest) /\
                        has_room (outs s 0) = false /\ cclosed (outs s 0) = false).
Proof. exact join_every_input_served. Qed.
Print Assumptions C12_join_every_input_served.

(* hence, when the consumer keeps up (room in the output), nothing that was handed over on ANY input is held
   back: every goroutine has returned or is parked on an empty open input, and has taken all of its input *)
Theorem C12_join_room_nothing_held : forall (n : nat) (icaps ocaps : list nat) (s : state),
  let c := join_stage n icaps ocaps in
  reachable c s -> cancelled s = false -> quiescent c s -> has_room (outs s 0) = true ->
  forall w, (w < n)%nat ->
    (wc (ws s w) = WDone \/
     (wc (ws s w) = WRecv /\ cclosed (ins s w) = false /\ forall x, step c s (ESent w x) <> None)) /\
    cbuf (ins s w) = [] /\ wtaken (ws s w) = sent s w.
Proof. exact join_room_nothing_held. Qed.
Print Assumptions C12_join_room_nothing_held.

(* and the element a parked goroutine is handed next goes straight through: with room in the output, the send on
   input w, the receive and the forward - three steps that involve no other input - put it on the output *)
Theorem C12_join_parked_forwards : forall (n : nat) (icaps ocaps : list nat) (s : state) (w : nat) (x : val),
  let c := join_stage n icaps ocaps in
  reachable c s -> cancelled s = false -> (w < n)%nat ->
  wc (ws s w) = WRecv -> cbuf (ins s w) = [] -> cclosed (ins s w) = false -> has_room (outs s 0) = true ->
  exists s', exec_from c s [ESent w x; EW w false; EW w false] = Some s' /\
             cbuf (outs s' 0) = cbuf (outs s 0) ++ [(w, x)] /\ cbuf (ins s' w) = [] /\
             sent s' w = sent s w ++ [x] /\ wtaken (ws s' w) = wtaken (ws s w) ++ [x].
Proof. exact join_parked_forwards. Qed.
Print Assumptions C12_join_parked_forwards.

(* non-vacuity: two unbuffered inputs; input 1 delivers 7 while input 0 is open and was never sent to; the stage
   is at rest, not cancelled, 7 has been received, both goroutines are in case (b) *)
Example C12_join_served_example :
  reachable ex_join_cfg ex_join_state /\ quiescent ex_join_cfg ex_join_state /\
  cancelled ex_join_state = false /\ has_room (outs ex_join_state 0) = true /\
  delivered ex_join_state 0 = [7%Z] /\ sent ex_join_state 0 = [] /\ cclosed (ins ex_join_state 0) = false /\
  wc (ws ex_join_state 0) = WRecv /\ wc (ws ex_join_state 1) = WRecv.
Proof. exact (conj ex_join_reachable (conj ex_join_quiescent ex_join_hyps)). Qed.
Print Assumptions C12_join_served_example.
