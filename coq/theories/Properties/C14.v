(* C14 - placeholder while the pipeline is brought up; replaced by the real theorems *)
From Coq Require Import List ZArith.
From Golem Require Import Iter.Model.
Import ListNotations.
Open Scope Z_scope.

Theorem C14_example : run 100 (EPlus (ETakeW (PLt 5) (ESlice [1;2;9;4])) (EJoin JRepl (ESlice [2;0;4]))) = Some [1;2;2;2;4].
Proof. vm_compute. reflexivity. Qed.
Print Assumptions C14_example.
