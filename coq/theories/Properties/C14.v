(* C14 - Iterator combinators over seq.Seq have exactly list semantics, at any nesting.
   Nothing but the property theorems: each closed by [exact] of a lemma of Iter/SeqProofs.v and
   followed by Print Assumptions.  They are about the operational model Iter/Model.v
   ([build] = the Go constructors, [next] = the Next() methods, [drain] = the documented loop
   [for has := seq != nil; has; has = seq.Next() { seq.Value() }], [foreach] = seq.ForEach);
   [den] is the list denotation (takew, dropw, filter, map, ++, flat_map).
   The model is tied to /repo/trait/seq/seq.go by the differential run of ./check C14. *)
From Coq Require Import List ZArith.
From Golem Require Import Iter.Model Iter.SeqProofs.
Import ListNotations.
Open Scope Z_scope.

(* For EVERY expression tree (any depth, any nesting of join functions, any slices and codes) there is
   enough fuel, and from then on building the iterators and draining them yields exactly the list. *)
Theorem C14_drain_den : forall t : e,
  exists N, forall n, (N <= n)%nat -> run n t = Some (den 0 t).
Proof. exact drain_den. Qed.
Print Assumptions C14_drain_den.

(* the same inside a join function applied to any argument x *)
Theorem C14_drain_den_arg : forall (t : e) (x : Z),
  exists N, forall n, (N <= n)%nat -> exists i, build n x t = Some i /\ drain n i = Some (den x t).
Proof. exact drain_den_arg. Qed.
Print Assumptions C14_drain_den_arg.

(* nil means empty: the constructors return nil exactly when the denotation is the empty list *)
Theorem C14_nil_iff_empty : forall (t : e) (x : Z),
  exists N i, (forall n, (N <= n)%nat -> build n x t = Some i) /\ (i = INil <-> den x t = []).
Proof. exact build_nil_iff. Qed.
Print Assumptions C14_nil_iff_empty.

(* ForEach with ANY callback f (which may look at the number of earlier calls and at the element):
   it sees [upto f 0 (den t)] and returns that error ... *)
Theorem C14_foreach_first_error : forall (t : e) (f : nat -> Z -> option Z),
  exists N, forall n, (N <= n)%nat -> run_foreach n f t = Some (upto f 0%nat (den 0 t)).
Proof. exact foreach_first_error. Qed.
Print Assumptions C14_foreach_first_error.

(* "stops with the first error": when the model's ForEach returns an error its iterator is the one the failing callback
   was called on ([run_foreach_st] is [run_foreach] that also answers the iterator; the harness reads Value() of the real
   iterator at that point and Check/C14.v compares) *)
Theorem C14_foreach_stops_at_error : forall (t : e) (f : nat -> Z -> option Z) n vs err j,
  run_foreach_st n f t = Some (vs, Some err, j) ->
  run_foreach n f t = Some (vs, Some err) /\
  vs <> [] /\ value j = last vs 0 /\ f (length vs - 1)%nat (value j) = Some err.
Proof. exact foreach_stops_at_error. Qed.
Print Assumptions C14_foreach_stops_at_error.

(* ... where [upto] is: a prefix of the list in order; no error before the last element seen; the returned
   error is the one of the last call; without error the whole list was seen *)
Theorem C14_upto_spec : forall f l k vs o, upto f k l = (vs, o) ->
  exists rest, l = vs ++ rest /\
  (forall j x, nth_error vs j = Some x -> S j < length vs -> f (k + j)%nat x = None)%nat /\
  match o with
  | Some err => exists x, nth_error vs (length vs - 1) = Some x /\ f (k + (length vs - 1))%nat x = Some err
  | None => rest = [] /\ forall j x, nth_error vs j = Some x -> f (k + j)%nat x = None
  end.
Proof. exact upto_spec. Qed.
Print Assumptions C14_upto_spec.

(* the only method that touches a source slice re-slices it (lists are immutable in the model; that the
   real slices keep their contents is observed by the harness before/after every run) *)
Theorem C14_seqof_next_reslices : forall n el b i', next n (ISeqOf el) = Some (b, i') ->
  i' = ISeqOf (if b then tl el else el).
Proof. exact seqof_next_reslices. Qed.
Print Assumptions C14_seqof_next_reslices.

(* non-vacuity: the model computes, on a nested expression with a latch, a swap, nil-returning and nested
   join functions *)
Example C14_example_drain :
  let t := EPlus (ETakeW (PLt 5) (ESlice [1; 2; 3; 9; 4]))
                 (EJoinE (EFilter (PPar 0) (EShift [0; 1; 2])) (EJoin JRepl (ESlice [2; 0; 3; 4]))) in
  run 100 t = Some [1; 2; 3; 2; 4; 2; 4; 4; 6] /\ den 0 t = [1; 2; 3; 2; 4; 2; 4; 4; 6].
Proof. vm_compute. split; reflexivity. Qed.

(* a join function that answers nil for SOME elements (x = 2) and otherwise a TakeWhile cut by a non-monotone
   predicate before the end of its input (a later element satisfies it again) *)
Example C14_example_nil_between :
  let t := EJoinE (EWhen (PNe 2) (ETakeW (PMod 2 1) (EShift [0; 2; 1; 4]))) (ESlice [1; 2; 3]) in
  run 100 t = Some [1; 3; 3; 5] /\ den 0 t = [1; 3; 3; 5].
Proof. vm_compute. split; reflexivity. Qed.

Example C14_example_foreach :
  run_foreach 100 (fun k x => if Z.eqb x 3 then Some 77 else None)
              (EMap (MAff 1 1) (EDropW (PLt 1) (ESlice [0; 1; 2; 3; 4]))) = Some ([2; 3], Some 77).
Proof. vm_compute. reflexivity. Qed.
