(* C05 - Sequential pipe stages emit exactly the list image of their input, in order.
   Nothing but the property theorems, each closed by [exact] of a lemma and followed by Print
   Assumptions.  They are about the Pool machine (Pipe/Pool.v) instantiated with the stage
   definitions of Pipe/Stages.v, which mirror pipe/pipe.go statement by statement; the model is
   run against the real goroutines on every ./check (Check/C05.v, harness/pool).

   Reading guide.  [reachable c s]: s is the state after SOME finite sequence of completed events
   (producer sends, close of the input, consumer receives on any output, cancel, single steps of
   the stage's goroutine in any interleaving) - for ANY channel capacities [icaps], [ocaps].
   [sent s 0]: the elements whose send completed; [delivered s k]: the values the consumer of
   output k has received.  "_prefix": holds in EVERY reachable state (each element at most once,
   in input order, nothing invented).  "_complete": in every reachable state that is not cancelled,
   whose input is closed, in which no step of the stage is enabled ([quiescent]) and nothing is left
   to receive ([no_receive]) - i.e. at the end of every complete run - the outputs carry exactly the
   list image, the goroutine has returned and the outputs are closed.  That every run reaches such
   a state is the fairness of the Go scheduler plus the progress theorems of C06. *)
From Coq Require Import List ZArith.
From Golem Require Import Base.Lists Pipe.Pool Pipe.Stages Pipe.PoolSteps Pipe.PoolLive Pipe.PoolSeq
     Pipe.PoolStages Pipe.PoolStages2 Pipe.PoolGen Pipe.PoolExamples.
Import ListNotations.
Open Scope Z_scope.

(* Map: images, in order *)
Theorem C05_map_prefix : forall (h : Z -> Z) (try : bool) (icaps ocaps : list nat) (s : state),
  reachable (map_total_cfg h try icaps ocaps) s ->
  prefix (delivered s 0) (map h (sent s 0)) /\ delivered s 1 = [] /\ prefix (wtaken (ws s 0)) (sent s 0).
Proof. exact map_total_prefix. Qed.
Print Assumptions C05_map_prefix.

Theorem C05_map_complete : forall (h : Z -> Z) (try : bool) (icaps ocaps : list nat) (s : state),
  let c := map_total_cfg h try icaps ocaps in
  reachable c s -> cancelled s = false -> quiescent c s -> no_receive c s -> cclosed (ins s 0) = true ->
  delivered s 0 = map h (sent s 0) /\ delivered s 1 = [] /\ wtaken (ws s 0) = sent s 0 /\
  wc (ws s 0) = WDone /\ cclosed (outs s 0) = true /\ cclosed (outs s 1) = true.
Proof. exact map_total_complete. Qed.
Print Assumptions C05_map_complete.

(* FMap: the concatenation of the images *)
Theorem C05_fmap_prefix : forall (g : Z -> list Z) (try : bool) (icaps ocaps : list nat) (s : state),
  reachable (fmap_total_cfg g try icaps ocaps) s ->
  prefix (delivered s 0) (flat_map g (sent s 0)) /\ delivered s 1 = [] /\ prefix (wtaken (ws s 0)) (sent s 0).
Proof. exact fmap_total_prefix. Qed.
Print Assumptions C05_fmap_prefix.

Theorem C05_fmap_complete : forall (g : Z -> list Z) (try : bool) (icaps ocaps : list nat) (s : state),
  let c := fmap_total_cfg g try icaps ocaps in
  reachable c s -> cancelled s = false -> quiescent c s -> no_receive c s -> cclosed (ins s 0) = true ->
  delivered s 0 = flat_map g (sent s 0) /\ delivered s 1 = [] /\ wtaken (ws s 0) = sent s 0 /\
  wc (ws s 0) = WDone /\ cclosed (outs s 0) = true /\ cclosed (outs s 1) = true.
Proof. exact fmap_total_complete. Qed.
Print Assumptions C05_fmap_complete.

(* Filter *)
Theorem C05_filter_prefix : forall (p : Z -> bool) (icaps ocaps : list nat) (s : state),
  reachable (filter_cfg p icaps ocaps) s -> prefix (delivered s 0) (filter p (sent s 0)).
Proof. exact filter_prefix. Qed.
Print Assumptions C05_filter_prefix.

Theorem C05_filter_complete : forall (p : Z -> bool) (icaps ocaps : list nat) (s : state),
  let c := filter_cfg p icaps ocaps in
  reachable c s -> cancelled s = false -> quiescent c s -> no_receive c s -> cclosed (ins s 0) = true ->
  delivered s 0 = filter p (sent s 0) /\ wtaken (ws s 0) = sent s 0 /\ wc (ws s 0) = WDone /\ cclosed (outs s 0) = true.
Proof. exact filter_complete. Qed.
Print Assumptions C05_filter_complete.

(* Partition: both order-preserving halves *)
Theorem C05_partition_prefix : forall (p : Z -> bool) (icaps ocaps : list nat) (s : state),
  reachable (partition_cfg p icaps ocaps) s ->
  prefix (delivered s 0) (filter p (sent s 0)) /\ prefix (delivered s 1) (filter (fun a => negb (p a)) (sent s 0)).
Proof. exact partition_prefix. Qed.
Print Assumptions C05_partition_prefix.

Theorem C05_partition_complete : forall (p : Z -> bool) (icaps ocaps : list nat) (s : state),
  let c := partition_cfg p icaps ocaps in
  reachable c s -> cancelled s = false -> quiescent c s -> no_receive c s -> cclosed (ins s 0) = true ->
  delivered s 0 = filter p (sent s 0) /\ delivered s 1 = filter (fun a => negb (p a)) (sent s 0) /\
  wtaken (ws s 0) = sent s 0 /\ wc (ws s 0) = WDone /\ cclosed (outs s 0) = true /\ cclosed (outs s 1) = true.
Proof. exact partition_complete. Qed.
Print Assumptions C05_partition_complete.

(* Take: the first n for ANY n (negative and zero included), and never more than n elements consumed *)
Theorem C05_take_safe : forall (n : Z) (icaps ocaps : list nat) (s : state),
  reachable (take_cfg n icaps ocaps) s ->
  (length (wtaken (ws s 0)) <= Z.to_nat n)%nat /\ prefix (delivered s 0) (firstn (Z.to_nat n) (sent s 0)).
Proof. exact take_safe. Qed.
Print Assumptions C05_take_safe.

Theorem C05_take_complete : forall (n : Z) (icaps ocaps : list nat) (s : state),
  let c := take_cfg n icaps ocaps in
  reachable c s -> cancelled s = false -> quiescent c s -> no_receive c s -> cclosed (ins s 0) = true ->
  delivered s 0 = firstn (Z.to_nat n) (sent s 0) /\ wc (ws s 0) = WDone /\ cclosed (outs s 0) = true.
Proof. exact take_complete. Qed.
Print Assumptions C05_take_complete.

(* TakeWhile: the longest prefix; consumes it and the first element that fails the predicate *)
Theorem C05_takewhile_prefix : forall (p : Z -> bool) (icaps ocaps : list nat) (s : state),
  reachable (takewhile_cfg p icaps ocaps) s -> prefix (delivered s 0) (take_while p (sent s 0)).
Proof. exact takewhile_prefix. Qed.
Print Assumptions C05_takewhile_prefix.

Theorem C05_takewhile_complete : forall (p : Z -> bool) (icaps ocaps : list nat) (s : state),
  let c := takewhile_cfg p icaps ocaps in
  reachable c s -> cancelled s = false -> quiescent c s -> no_receive c s -> cclosed (ins s 0) = true ->
  delivered s 0 = take_while p (sent s 0) /\
  wtaken (ws s 0) = take_while p (sent s 0) ++ firstn 1 (skipn (length (take_while p (sent s 0))) (sent s 0)) /\
  wc (ws s 0) = WDone /\ cclosed (outs s 0) = true.
Proof. exact takewhile_complete. Qed.
Print Assumptions C05_takewhile_complete.

(* ForEach / Void: one visit per element, in order; the done channel carries nothing and closes *)
Theorem C05_visit_prefix : forall (icaps ocaps : list nat) (s : state),
  reachable (visit_cfg icaps ocaps) s -> delivered s 0 = [] /\ prefix (wtaken (ws s 0)) (sent s 0).
Proof. exact visit_prefix. Qed.
Print Assumptions C05_visit_prefix.

Theorem C05_visit_complete : forall (icaps ocaps : list nat) (s : state),
  let c := visit_cfg icaps ocaps in
  reachable c s -> cancelled s = false -> quiescent c s -> no_receive c s -> cclosed (ins s 0) = true ->
  wtaken (ws s 0) = sent s 0 /\ delivered s 0 = [] /\ wc (ws s 0) = WDone /\ cclosed (outs s 0) = true.
Proof. exact visit_complete. Qed.
Print Assumptions C05_visit_complete.

(* Fold: the left fold from the monoid's empty element - for any operation, lawful or not *)
Theorem C05_fold_safe : forall (combine : Z -> Z -> Z) (empty : Z) (icaps ocaps : list nat) (s : state),
  reachable (fold_cfg combine empty icaps ocaps) s ->
  delivered s 0 = [] \/ (delivered s 0 = [fold_left combine (sent s 0) empty] /\ cclosed (ins s 0) = true).
Proof. exact fold_safe. Qed.
Print Assumptions C05_fold_safe.

Theorem C05_fold_complete : forall (combine : Z -> Z -> Z) (empty : Z) (icaps ocaps : list nat) (s : state),
  let c := fold_cfg combine empty icaps ocaps in
  reachable c s -> cancelled s = false -> quiescent c s -> no_receive c s -> cclosed (ins s 0) = true ->
  delivered s 0 = [fold_left combine (sent s 0) empty] /\ wc (ws s 0) = WDone /\ cclosed (outs s 0) = true.
Proof. exact fold_complete. Qed.
Print Assumptions C05_fold_complete.

(* Seq / ToSeq: identity - the values received from pipe.Seq(xs...) until it closes are exactly xs *)
Theorem C05_seq_toseq_prefix : forall (xs : list Z) (ocaps : list nat) (s : state),
  reachable (seqgen_cfg xs ocaps) s -> prefix (delivered s 0) xs.
Proof. exact seqgen_prefix. Qed.
Print Assumptions C05_seq_toseq_prefix.

Theorem C05_seq_toseq_identity : forall (xs : list Z) (ocaps : list nat) (s : state),
  let c := seqgen_cfg xs ocaps in
  reachable c s -> cancelled s = false -> quiescent c s -> no_receive c s ->
  delivered s 0 = xs /\ wc (ws s 0) = WDone /\ cclosed (outs s 0) = true.
Proof. exact seqgen_identity. Qed.
Print Assumptions C05_seq_toseq_identity.

(* non-vacuity: a concrete run of Map reaches a state satisfying every hypothesis of _complete *)
Theorem C05_example :
  reachable ex_map_cfg ex_map_state /\
  cancelled ex_map_state = false /\ quiescent ex_map_cfg ex_map_state /\ no_receive ex_map_cfg ex_map_state /\
  cclosed (ins ex_map_state 0) = true /\ sent ex_map_state 0 = [5; 7] /\ delivered ex_map_state 0 = [11; 15].
Proof. exact (conj ex_map_reachable ex_map_hyps). Qed.
Print Assumptions C05_example.
