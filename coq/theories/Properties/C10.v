(* C10 - fork.Fold equals the sequential fold for any commutative monoid.
   Nothing but the property theorems: each closed by [exact] of a lemma of Pipe/ForkFoldProofs.v and
   followed by Print Assumptions. The machine (state, step, exec, taken, final, mu) is Pipe/ForkFold.v. *)
From Coq Require Import List ZArith Permutation.
From Golem Require Import Pipe.ForkFold Pipe.ForkFoldProofs.
Import ListNotations.

(* The pure core: for a commutative monoid, combining (in ANY order [got]) the folds of ANY partition [parts]
   of ANY permutation of [xs] is the sequential left fold of [xs]. *)
Theorem C10_fold_partition :
  forall (A : Type) (combine : A -> A -> A) (empty : A),
    (forall a b c, combine (combine a b) c = combine a (combine b c)) ->
    (forall a b, combine a b = combine b a) ->
    (forall a, combine empty a = a) ->
    forall (parts : list (list A)) (got xs : list A),
      Permutation (concat parts) xs ->
      Permutation got (map (fun p => fold_left combine p empty) parts) ->
      fold_left combine got empty = fold_left combine xs empty.
Proof. exact (@fold_partition). Qed.
Print Assumptions C10_fold_partition.

(* fork.Fold, for every commutative monoid (whatever its identity), every worker count par >= 1, every input
   (also empty, also shorter than par) and every event list, i.e. every schedule and every distribution and
   order in which the elements reach the workers. *)
Theorem C10_fork_fold_eq :
  forall (A : Type) (combine : A -> A -> A) (empty : A),
    (forall a b c, combine (combine a b) c = combine a (combine b c)) ->
    (forall a b, combine a b = combine b a) ->
    (forall a, combine empty a = a) ->
    forall par : nat, (1 <= par)%nat ->
    forall (tr : list ev) (s : state),
      exec combine empty empty par tr = Some s ->
      (* nothing crashes: no send on a closed channel, no double close *)
      panic s = false
      (* at most one value is ever delivered, and it is the left fold of everything that was sent *)
      /\ (rcvd s = [] \/ rcvd s = [fold_left combine (sent s) empty])
      (* when the consumer sees the result channel closed it has received exactly that one value, and the
         workers' shares are a partition of a permutation of the input: every element combined exactly once *)
      /\ (seen_closed s = true ->
          rcvd s = [fold_left combine (sent s) empty] /\ dbuf s = []
          /\ Permutation (concat (map taken (ws s))) (sent s))
      (* at any time every element sent is held by exactly one worker or still queued, and every worker's
         accumulator is the fold, from the identity, of exactly its own share *)
      /\ Permutation (concat (map taken (ws s)) ++ inbuf s) (sent s)
      /\ Forall (acc_ok combine empty) (ws s)
      (* delivery and closure do happen: once the input is closed the only state in which nothing can move
         is the finished one (value received, closure seen) ... *)
      /\ (in_closed s = true -> (forall e, step combine empty par s e = None) -> final s)
      (* ... and every step of the library's goroutines or of the consumer decreases a measure *)
      /\ (forall e s', is_input e = false -> step combine empty par s e = Some s' -> (mu par s' < mu par s)%nat).
Proof. exact (@fork_fold_eq). Qed.
Print Assumptions C10_fork_fold_eq.

(* Why the collector must start from m.Empty() (repaired in /repo, fork.go): with the product monoid and a
   collector starting from the zero value, a complete run over [1;2;3;4] delivers 0 instead of 24. *)
Theorem C10_fork_fold_acc0_matters :
  exists (tr : list ev) s,
    exec Z.mul 1%Z 0%Z 2 tr = Some s /\ sent s = [1; 2; 3; 4]%Z /\ seen_closed s = true
    /\ rcvd s = [0%Z] /\ fold_left Z.mul [1; 2; 3; 4]%Z 1%Z = 24%Z.
Proof. exact fork_fold_acc0_matters. Qed.
Print Assumptions C10_fork_fold_acc0_matters.

(* non-vacuity: the hypotheses are satisfiable by a monoid with a non-zero identity, and runs that reach
   [seen_closed] exist - with an input shorter than the worker count and with the empty input *)
Example C10_product_is_commutative_monoid :
  (forall a b c : Z, a * b * c = a * (b * c))%Z /\ (forall a b : Z, a * b = b * a)%Z /\ (forall a : Z, 1 * a = a)%Z.
Proof. exact product_is_commutative_monoid. Qed.
Example C10_run_shorter_than_par :
  exists s, exec Z.mul 1%Z 1%Z 3 (sched 3 (fun i => Nat.modulo i 3) [2; 0; 1] [5; -7]%Z) = Some s
            /\ seen_closed s = true /\ rcvd s = [(-35)%Z] /\ panic s = false.
Proof. exact fork_fold_product_run. Qed.
Example C10_run_empty_input :
  exists s, exec Z.mul 1%Z 1%Z 4 (sched 4 (fun i => i) [3; 2; 1; 0] []) = Some s
            /\ seen_closed s = true /\ rcvd s = [1%Z] /\ panic s = false.
Proof. exact fork_fold_empty_run. Qed.
