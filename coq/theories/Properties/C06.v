(* C06 - Pipe stages always close, terminate on cancel, never leak or panic.
   Nothing but the property theorems.  Generic theorems hold for EVERY well-formed stage configuration
   of the Pool machine ([wf_cfg]: who closes which channel is unambiguous, a goroutine only sends on
   channels nobody else closes); the stage instances of Pipe/Stages.v (Map, FMap, Filter, Partition, Take,
   TakeWhile, ForEach/Void, Fold, Join, Unfold, Emit, the fork stages) are well-formed (C06_stages_wf).
   - NOPANIC: no send on a closed channel, no double close, in every reachable state.
   - "delivered is a prefix of the uncancelled result": the _prefix theorems of C05 / C07 / C11 / C12 hold in
     EVERY reachable state, cancelled or not; restated here for Fold (never a partial accumulator).
   - DRAIN: inputs closed + nothing left to receive + no step enabled  =>  every goroutine has returned and
     (C06_closed_when_done) every channel it owns is closed.
   - CANCEL-EXIT: cancelled + inputs closed + no step enabled => every goroutine has returned and every channel
     is closed, WITHOUT any hypothesis about receives (nobody needs to receive ever again).
   - NO LIVELOCK (C06_internal_steps_terminate, C06_no_infinite_internal_run): for every stage without generator
     sources (all stages except Unfold, Emit and Throttling's pacer) the internal step relation [istep] - worker
     steps with either resolution of a select, and the closer - is well-founded from EVERY state, reachable or
     not: between two environment events (send, close, receive, cancel, gate release, clock advance) the
     goroutines of the stage take only finitely many steps.  For stages WITH generator sources the same holds
     (C06_internal_steps_terminate_gen) when every round of a generator contains a blocker - a send on an
     output 0..K-1 (needs room), a timer of positive duration or a return - and no token receive; this covers
     Unfold, Emit and Throttling with ops >= 1 or interval > 0 (C06_generator_stages_terminate); without a
     blocker a generator does spin (pacer_without_blocker_spins in Pipe/PoolVariantStages.v).
   - PROGRESS (C06_only_backpressure_blocks, C06_stages_only_backpressure_blocks): for every one-goroutine sequential
     stage whose code consists of sends, plain sends, polls of Done and returns (Map, FMap, Filter, Partition, Take,
     TakeWhile, ForEach/Void, Fold) and every ordering of the environment's moves, whenever no internal step is
     enabled - cancelled or not - the goroutine has returned, or is parked in `range in` on an EMPTY OPEN input and
     then accepts the environment's next send at once (also on an unbuffered input), or is blocked in a send on an
     output that is open and has no room.  Only back-pressure from a consumer (of the value channel, or of the
     error channel under a plain send) keeps a stage from taking its input: it never waits for a gate, a token or a
     timer, never holds back an element while every output has room (C06_room_nothing_held), after cancel is held
     only by a plain send (C06_cancelled_rest), and - unless cancelled - returns only at the end of its input, at
     a `return` of its own code, or before the loop (C06_done_why).
   That runs reach the quiescent states (the scheduler lets enabled goroutines run) is scheduler fairness. *)
From Coq Require Import List ZArith.
From Golem Require Import Base.Lists Pipe.Pool Pipe.Stages Pipe.PoolSteps Pipe.PoolSafe Pipe.PoolClosed Pipe.PoolLive
     Pipe.PoolSimple Pipe.PoolSeq Pipe.PoolStages Pipe.PoolStages2 Pipe.PoolErr Pipe.PoolMultiStages Pipe.PoolGen Pipe.PoolCancel
     Pipe.PoolVariant Pipe.PoolVariantGen Pipe.PoolVariantStages Pipe.PoolEffects Pipe.PoolStop Pipe.PoolSeqServed.
Import ListNotations.
Open Scope Z_scope.

Theorem C06_nopanic : forall (c : cfg), wf_cfg c -> forall s, reachable c s -> panicked s = false.
Proof. exact nopanic. Qed.
Print Assumptions C06_nopanic.

(* a channel is closed only by its owner's return / by the closer after every worker has returned *)
Theorem C06_closed_only_after_done : forall (c : cfg), wf_cfg c -> forall s k,
  reachable c s -> cclosed (outs s k) = true ->
  if closer c then forall w, (w < par c)%nat -> wc (ws s w) = WDone
  else exists w, (w < par c)%nat /\ In k (wcloses c w) /\ wc (ws s w) = WDone.
Proof. exact closed_after_done. Qed.
Print Assumptions C06_closed_only_after_done.

(* a goroutine that has returned has closed the channels it owns; the closer, once run, has closed its list *)
Theorem C06_closed_when_done : forall (c : cfg), wf_cfg c -> forall s, reachable c s ->
  (closer c = false -> forall w k, (w < par c)%nat -> wc (ws s w) = WDone -> In k (wcloses c w) -> cclosed (outs s k) = true) /\
  (closer_done s = true -> forall k, In k (closes c) -> cclosed (outs s k) = true).
Proof. exact done_closed_reachable. Qed.
Print Assumptions C06_closed_when_done.

(* DRAIN, for any stage *)
Theorem C06_drain : forall (c : cfg) (s : state),
  panicked s = false -> quiescent c s -> no_receive c s ->
  (forall w, (w < par c)%nat -> forall i, src c w = SIn i -> cclosed (ins s i) = true) ->
  (forall w, (w < par c)%nat -> match wc (ws s w) with
                          | WCall _ _ | WSleep _ _ _ _ | WRun _ (ATok _ :: _) => False
                          | _ => True end) ->
  (forall w, (w < par c)%nat -> wc (ws s w) = WDone) /\ (closer c = true -> closer_done s = true).
Proof. exact drain. Qed.
Print Assumptions C06_drain.

(* CANCEL-EXIT, for any stage: no hypothesis about receives *)
Theorem C06_cancel_exit : forall (c : cfg) (s : state),
  panicked s = false -> cancelled s = true -> quiescent c s ->
  (forall w, (w < par c)%nat -> forall i, src c w = SIn i -> cclosed (ins s i) = true) ->
  (forall w, (w < par c)%nat -> match wc (ws s w) with
                          | WCall _ _ | WSleep _ false _ _ => False
                          | WRun _ (APlain k _ :: _) => has_room (outs s k) = true
                          | _ => True end) ->
  (forall w, (w < par c)%nat -> src c w = SGen -> wc (ws s w) <> WRecv) ->
  (forall w, (w < par c)%nat -> wc (ws s w) = WDone) /\ (closer c = true -> closer_done s = true).
Proof. exact cancel_exit. Qed.
Print Assumptions C06_cancel_exit.

(* ... instantiated: after cancel and close of the input every sequential stage returns and closes its
   outputs even if nobody ever receives (Map/FMap-Lift and Fold use that their plain send finds room) *)
Theorem C06_map_cancel_exit : forall (f : Z -> res) (try : bool) (icaps ocaps : list nat) (s : state),
  let c := map_cfg f try icaps ocaps in
  (try = false -> (1 <= nth_cap ocaps 1)%nat) ->
  reachable c s -> cancelled s = true -> quiescent c s -> cclosed (ins s 0) = true ->
  wc (ws s 0) = WDone /\ cclosed (outs s 0) = true /\ cclosed (outs s 1) = true.
Proof. exact map_cancel_exit. Qed.
Print Assumptions C06_map_cancel_exit.

Theorem C06_filter_cancel_exit : forall (p : Z -> bool) (icaps ocaps : list nat) (s : state),
  let c := filter_cfg p icaps ocaps in
  reachable c s -> cancelled s = true -> quiescent c s -> cclosed (ins s 0) = true ->
  wc (ws s 0) = WDone /\ cclosed (outs s 0) = true.
Proof. exact filter_cancel_exit. Qed.
Print Assumptions C06_filter_cancel_exit.

Theorem C06_partition_cancel_exit : forall (p : Z -> bool) (icaps ocaps : list nat) (s : state),
  let c := partition_cfg p icaps ocaps in
  reachable c s -> cancelled s = true -> quiescent c s -> cclosed (ins s 0) = true ->
  wc (ws s 0) = WDone /\ cclosed (outs s 0) = true /\ cclosed (outs s 1) = true.
Proof. exact partition_cancel_exit. Qed.
Print Assumptions C06_partition_cancel_exit.

Theorem C06_take_cancel_exit : forall (n : Z) (icaps ocaps : list nat) (s : state),
  let c := take_cfg n icaps ocaps in
  reachable c s -> cancelled s = true -> quiescent c s -> cclosed (ins s 0) = true ->
  wc (ws s 0) = WDone /\ cclosed (outs s 0) = true.
Proof. exact take_cancel_exit. Qed.
Print Assumptions C06_take_cancel_exit.

Theorem C06_takewhile_cancel_exit : forall (p : Z -> bool) (icaps ocaps : list nat) (s : state),
  let c := takewhile_cfg p icaps ocaps in
  reachable c s -> cancelled s = true -> quiescent c s -> cclosed (ins s 0) = true ->
  wc (ws s 0) = WDone /\ cclosed (outs s 0) = true.
Proof. exact takewhile_cancel_exit. Qed.
Print Assumptions C06_takewhile_cancel_exit.

Theorem C06_visit_cancel_exit : forall (icaps ocaps : list nat) (s : state),
  let c := visit_cfg icaps ocaps in
  reachable c s -> cancelled s = true -> quiescent c s -> cclosed (ins s 0) = true ->
  wc (ws s 0) = WDone /\ cclosed (outs s 0) = true.
Proof. exact visit_cancel_exit. Qed.
Print Assumptions C06_visit_cancel_exit.

Theorem C06_fold_cancel_exit : forall (combine : Z -> Z -> Z) (empty : Z) (icaps ocaps : list nat) (s : state),
  let c := fold_cfg combine empty icaps ocaps in
  (1 <= nth_cap ocaps 0)%nat ->
  reachable c s -> cancelled s = true -> quiescent c s -> cclosed (ins s 0) = true ->
  wc (ws s 0) = WDone /\ cclosed (outs s 0) = true.
Proof. exact fold_cancel_exit. Qed.
Print Assumptions C06_fold_cancel_exit.

Theorem C06_fork_cancel_exit : forall (n : nat) (g : Z -> list act) (cl icaps ocaps : list nat) (s : state),
  let c := fork_cfg n g cl icaps ocaps in
  NoDup cl -> (forall a, Forall simple_act (g a)) -> (forall a, Forall no_plain (g a)) ->
  reachable c s -> cancelled s = true -> quiescent c s -> cclosed (ins s 0) = true ->
  (forall w, (w < n)%nat -> wc (ws s w) = WDone) /\ (forall k, In k cl -> cclosed (outs s k) = true).
Proof. exact fork_cancel_exit. Qed.
Print Assumptions C06_fork_cancel_exit.

Theorem C06_join_cancel_exit : forall (n : nat) (icaps ocaps : list nat) (s : state),
  let c := join_stage n icaps ocaps in
  reachable c s -> cancelled s = true -> quiescent c s -> (forall i, (i < n)%nat -> cclosed (ins s i) = true) ->
  (forall w, (w < n)%nat -> wc (ws s w) = WDone) /\ cclosed (outs s 0) = true.
Proof. exact join_cancel_exit. Qed.
Print Assumptions C06_join_cancel_exit.

(* Fold delivers nothing, or - only after it has seen the end of its input - the fold of the whole input:
   never a partial accumulator, cancelled or not (the repaired behaviour; see known-findings.json) *)
Theorem C06_fold_never_partial : forall (combine : Z -> Z -> Z) (empty : Z) (icaps ocaps : list nat) (s : state),
  reachable (fold_cfg combine empty icaps ocaps) s ->
  delivered s 0 = [] \/ (delivered s 0 = [fold_left combine (sent s 0) empty] /\ cclosed (ins s 0) = true).
Proof. exact fold_safe. Qed.
Print Assumptions C06_fold_never_partial.

(* the stage instances are well-formed, so all of the above applies to them *)
Theorem C06_stages_wf : forall (f : Z -> res) (fa : Z -> list Z * option Z) (p : Z -> bool) (try : bool) (n : Z) (m : nat)
    (combine : Z -> Z -> Z) (empty seed : Z) (freq : N) (icaps ocaps : list nat),
  wf_cfg (map_cfg f try icaps ocaps) /\ wf_cfg (fmap_cfg fa try icaps ocaps) /\ wf_cfg (filter_cfg p icaps ocaps) /\
  wf_cfg (partition_cfg p icaps ocaps) /\ wf_cfg (take_cfg n icaps ocaps) /\ wf_cfg (takewhile_cfg p icaps ocaps) /\
  wf_cfg (visit_cfg icaps ocaps) /\ wf_cfg (fold_cfg combine empty icaps ocaps) /\ wf_cfg (join_stage m icaps ocaps) /\
  wf_cfg (unfold_cfg f try seed ocaps) /\ wf_cfg (emit_cfg freq f try ocaps).
Proof. exact stages_wf. Qed.
Print Assumptions C06_stages_wf.

(* NO LIVELOCK: the internal moves of a stage without generator sources ([istep]: a worker step with either
   resolution of a select, or the closer; a panicked program does not move) are well-founded from every state,
   reachable or not: every sequence of internal steps is finite *)
Theorem C06_internal_steps_terminate : forall (c : cfg),
  (forall w, (w < par c)%nat -> exists i, src c w = SIn i) ->
  forall s : state, Acc (fun s' s0 => istep c s0 s') s.
Proof. exact internal_steps_terminate. Qed.
Print Assumptions C06_internal_steps_terminate.

(* [istep] spelled out *)
Theorem C06_istep_iff : forall (c : cfg) (s s' : state),
  istep c s s' <->
  panicked s = false /\
  ((exists w ch, (w < par c)%nat /\ step_worker c s w ch = Some s') \/ step_ok c s ECloser = Some s').
Proof. exact istep_iff. Qed.
Print Assumptions C06_istep_iff.

(* ... so there is no infinite run of internal steps *)
Theorem C06_no_infinite_internal_run : forall (c : cfg),
  (forall w, (w < par c)%nat -> exists i, src c w = SIn i) ->
  forall f : nat -> state, ~ (forall n, istep c (f n) (f (S n))).
Proof. exact no_infinite_internal_run. Qed.
Print Assumptions C06_no_infinite_internal_run.

(* NO LIVELOCK with generators: every plan of a generator worker contains a blocker ([hasb K]: a send on one of
   the outputs 0..K-1, a timer of positive duration, or a return) and no token receive *)
Theorem C06_internal_steps_terminate_gen : forall (c : cfg) (K : nat),
  (forall w l a, (w < par c)%nat -> src c w = SGen ->
     hasb K (fst (plan c w l a)) = true /\ ntokl (fst (plan c w l a)) = 0%nat) ->
  forall s : state, Acc (fun s' s0 => istep c s0 s') s.
Proof. exact internal_steps_terminate_gen. Qed.
Print Assumptions C06_internal_steps_terminate_gen.

(* ... which the generator stages satisfy *)
Theorem C06_generator_stages_terminate :
  forall (f : Z -> res) (try : bool) (seed : Z) (freq : N) (ops : nat) (interval : N) (icaps ocaps : list nat) (s : state),
  Acc (fun s' s0 => istep (unfold_cfg f try seed ocaps) s0 s') s /\
  Acc (fun s' s0 => istep (emit_cfg freq f try ocaps) s0 s') s /\
  ((1 <= ops)%nat \/ (0 < interval)%N -> Acc (fun s' s0 => istep (throttle_stage ops interval icaps ocaps) s0 s') s).
Proof. exact generator_stages_terminate. Qed.
Print Assumptions C06_generator_stages_terminate.

(* the blocker hypothesis is needed: a pacer with ops = 0 and interval = 0 spins *)
Theorem C06_generator_without_blocker_spins :
  let c := throttle_stage 0 0 [] [] in ~ Acc (fun s' s0 => istep c s0 s') (init c).
Proof. exact pacer_without_blocker_spins. Qed.
Print Assumptions C06_generator_without_blocker_spins.

(* PROGRESS: ONLY BACK-PRESSURE BLOCKS A SEQUENTIAL STAGE.  [seq_stage pl eof pr init cl icaps ocaps]: one goroutine
   `if !pr(init) {return}; for a = range in { pl }; eof` with deferred closes of [cl]; [simple_cfg]: the plans
   consist of select-sends, plain sends, polls of Done and returns.  Whenever no internal step is enabled
   ([quiescent]) - in every reachable state, whatever the environment did in whatever order, cancelled or not -
   the goroutine
   (a) has returned, or
   (b) is parked in `range in` on an empty open input, and the environment's next send is accepted at once (also
       on an unbuffered input: the parked goroutine is the rendezvous partner), or
   (c) is blocked in a send on an output that is open and has no room. *)
Theorem C06_only_backpressure_blocks :
  forall (pl : Z -> Z -> list act * Z) (eof : Z -> list act) (pr : Z -> bool) (init : Z) (cl icaps ocaps : list nat),
  let c := seq_stage pl eof pr init cl icaps ocaps in
  wf_cfg c -> simple_cfg c ->
  forall s : state, reachable c s -> quiescent c s ->
    wc (ws s 0) = WDone \/
    (wc (ws s 0) = WRecv /\ cbuf (ins s 0) = [] /\ cclosed (ins s 0) = false /\
     forall x, step c s (ESent 0 x) <> None) \/
    (exists e a k v rest, wc (ws s 0) = WRun e (a :: rest) /\ sends_on a k v /\
                          has_room (outs s k) = false /\ cclosed (outs s k) = false).
Proof. exact seq_only_backpressure_blocks. Qed.
Print Assumptions C06_only_backpressure_blocks.

(* ... which holds of the sequential stages of pipe/pipe.go, for every user function, capacity and Take count *)
Theorem C06_stages_only_backpressure_blocks :
  forall (f : Z -> res) (fa : Z -> list Z * option Z) (p : Z -> bool) (try : bool) (n : Z)
         (combine : Z -> Z -> Z) (empty : Z) (icaps ocaps : list nat) (c : cfg),
  In c [map_cfg f try icaps ocaps; fmap_cfg fa try icaps ocaps; filter_cfg p icaps ocaps;
        partition_cfg p icaps ocaps; take_cfg n icaps ocaps; takewhile_cfg p icaps ocaps;
        visit_cfg icaps ocaps; fold_cfg combine empty icaps ocaps] ->
  forall s : state, reachable c s -> quiescent c s ->
    wc (ws s 0) = WDone \/
    (wc (ws s 0) = WRecv /\ cbuf (ins s 0) = [] /\ cclosed (ins s 0) = false /\
     forall x, step c s (ESent 0 x) <> None) \/
    (exists e a k v rest, wc (ws s 0) = WRun e (a :: rest) /\ sends_on a k v /\
                          has_room (outs s k) = false /\ cclosed (outs s k) = false).
Proof. exact stages_only_backpressure_blocks_all. Qed.
Print Assumptions C06_stages_only_backpressure_blocks.

(* hence, when the consumers keep up (room in every output), nothing that was handed over is held back: the
   goroutine has returned, or is parked on an EMPTY open input having taken everything, and takes the next send *)
Theorem C06_room_nothing_held :
  forall (pl : Z -> Z -> list act * Z) (eof : Z -> list act) (pr : Z -> bool) (init : Z) (cl icaps ocaps : list nat),
  let c := seq_stage pl eof pr init cl icaps ocaps in
  wf_cfg c -> simple_cfg c ->
  forall s : state, reachable c s -> quiescent c s -> (forall k, has_room (outs s k) = true) ->
    wc (ws s 0) = WDone \/
    (wc (ws s 0) = WRecv /\ cbuf (ins s 0) = [] /\ cclosed (ins s 0) = false /\
     wtaken (ws s 0) = sent s 0 /\ forall x, step c s (ESent 0 x) <> None).
Proof. exact seq_room_nothing_held. Qed.
Print Assumptions C06_room_nothing_held.

(* after cancel a select-send never holds the goroutine (its Done arm fires): what is left of case (c) is a plain
   send - `exx <- err` of Map/FMap under Lift, `done <- acc` of Fold *)
Theorem C06_cancelled_rest :
  forall (pl : Z -> Z -> list act * Z) (eof : Z -> list act) (pr : Z -> bool) (init : Z) (cl icaps ocaps : list nat),
  let c := seq_stage pl eof pr init cl icaps ocaps in
  wf_cfg c -> simple_cfg c ->
  forall s : state, reachable c s -> cancelled s = true -> quiescent c s ->
    wc (ws s 0) = WDone \/
    (wc (ws s 0) = WRecv /\ cbuf (ins s 0) = [] /\ cclosed (ins s 0) = false /\
     forall x, step c s (ESent 0 x) <> None) \/
    (exists e k v rest, wc (ws s 0) = WRun e (APlain k v :: rest) /\
                        has_room (outs s k) = false /\ cclosed (outs s k) = false).
Proof. exact seq_cancelled_rest. Qed.
Print Assumptions C06_cancelled_rest.

(* case (a) never happens "by itself": unless cancelled, the goroutine has returned only because its input was
   closed and drained - and then it has taken everything handed over -, because its own code said `return`
   ([stopped]: some plan of the elements taken contains a return - Take's count, TakeWhile's predicate, a failure
   under Lift), or because it returned before the loop (Take with n <= 0) *)
Theorem C06_done_why :
  forall (pl : Z -> Z -> list act * Z) (eof : Z -> list act) (pr : Z -> bool) (init : Z) (cl icaps ocaps : list nat)
         (s : state),
  let c := seq_stage pl eof pr init cl icaps ocaps in
  reachable c s -> cancelled s = false -> wc (ws s 0) = WDone ->
    (weof (ws s 0) = true /\ cclosed (ins s 0) = true /\ cbuf (ins s 0) = [] /\ wtaken (ws s 0) = sent s 0) \/
    stopped c 0 init (wtaken (ws s 0)) = true \/
    (wtaken (ws s 0) = [] /\ pr init = false).
Proof. exact seq_done_why. Qed.
Print Assumptions C06_done_why.

(* ForEach / Void send nothing: they are never blocked at all *)
Theorem C06_visit_never_blocked : forall (icaps ocaps : list nat) (s : state),
  let c := visit_cfg icaps ocaps in
  reachable c s -> quiescent c s ->
    wc (ws s 0) = WDone \/
    (wc (ws s 0) = WRecv /\ cbuf (ins s 0) = [] /\ cclosed (ins s 0) = false /\
     forall x, step c s (ESent 0 x) <> None).
Proof. exact visit_never_blocked. Qed.
Print Assumptions C06_visit_never_blocked.

(* non-vacuity.  Map(x -> 2x+1), unbuffered input, unbuffered outputs, nobody receiving.  Initially the goroutine
   is at rest in case (b) and the send of 5 is accepted; after it took 5 it is at rest in case (c): blocked in the
   send of 11 on the open, room-less out 0, not cancelled *)
Example C06_backpressure_example :
  (quiescent ex_bp_cfg (init ex_bp_cfg) /\ wc (ws (init ex_bp_cfg) 0) = WRecv /\
   step ex_bp_cfg (init ex_bp_cfg) (ESent 0 5) <> None) /\
  reachable ex_bp_cfg ex_bp_state /\ quiescent ex_bp_cfg ex_bp_state /\
  cancelled ex_bp_state = false /\ sent ex_bp_state 0 = [5] /\
  wc (ws ex_bp_state 0) = WRun false [ASend 0 11] /\
  has_room (outs ex_bp_state 0) = false /\ cclosed (outs ex_bp_state 0) = false.
Proof. exact (conj ex_bp_init_parked (conj ex_bp_reachable (conj ex_bp_quiescent ex_bp_facts))). Qed.
Print Assumptions C06_backpressure_example.
