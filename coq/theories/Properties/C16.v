(* C16 - placeholder while the pipeline is brought up *)
From Coq Require Import List ZArith String.
From Golem Require Import Duct.Ast Duct.Spec Duct.Model.
Import ListNotations.

Theorem C16_stub : build (mkProg (TNamed "int") 0%Z []) = spec_tree (mkProg (TNamed "int") 0%Z []).
Proof. reflexivity. Qed.
Print Assumptions C16_stub.
