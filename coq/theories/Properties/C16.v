(* C16 - duct builds the AST its combinators describe; visits are well-bracketed.
   Nothing but the property theorems: each closed by [exact] of a lemma and followed by Print Assumptions.

   Duct/Ast.v   : Go types [ty], [typeName] (= duct.TypeOf), the AST, callbacks, programs (From + steps, each with
                  its Go type parameters), Go's typing of a program [well_typed], the in-order word [flatten].
   Duct/Spec.v  : the specification - a STACK OF OPEN CONTEXTS ([s_step]: Join/Yield land in the innermost open
                  context, LiftF/WrapF open a nested one there, Unit closes the innermost open nested one and does
                  nothing at the root), [spec_tree]; the stack discipline [balanced]; [feed]; [rec_call].
   Duct/Model.v : the code - [append] / [unit] / [apply] transcribed from ast.go, the combinators of duct.go
                  ([m_step]), [build p] = the tree the real combinators leave behind, [visit] = Morphism.Apply. *)
From Coq Require Import List ZArith String.
From Golem Require Import Duct.Ast Duct.Spec Duct.Model Duct.Proofs Duct.Theorems.
Import ListNotations.

(* build_spec: for every program - any length, any nesting; typing is not even needed - the code's append/unit
   build exactly the tree of the stack machine *)
Theorem C16_build_spec : forall p, build p = spec_tree p.
Proof. exact thm_build_spec. Qed.
Print Assumptions C16_build_spec.

(* ... in particular for the well-typed ones, as the property is worded *)
Theorem C16_build_spec_typed : forall p, well_typed p = true -> build p = spec_tree p.
Proof. exact thm_build_spec_typed. Qed.
Print Assumptions C16_build_spec_typed.

(* exactly one root morphism, and it is the node the visit starts from *)
Theorem C16_one_root : forall p, count_roots (build p) = 1 /\ exists cs, build p = ASeq true true cs.
Proof. exact thm_one_root. Qed.
Print Assumptions C16_one_root.

(* read in visiting order the leaves are the From node, then the node of every declaring step in program order,
   carrying typeName of the type parameters of the step that created it
   (declared (OJoin b c f) = [AMap (typeName b) (typeName c) f], likewise LiftF; OYield b t => [AYield (typeName b) t]) *)
Theorem C16_steps_in_order : forall p,
  leaves (build p) = from_node (p_a p) (p_src p) :: flat_map declared (p_ops p).
Proof. exact thm_steps_in_order. Qed.
Print Assumptions C16_steps_in_order.

(* Apply, for ANY visitor (any state, any error type) and ANY tree: the visitor is handed the in-order word
   callback by callback until the first error, which is what Apply returns *)
Theorem C16_visit_feed : forall (V E : Type) (call : V -> cb -> V * option E) t v,
  visit call t v = feed V E call v (flatten 0 t).
Proof. exact thm_visit_feed. Qed.
Print Assumptions C16_visit_feed.

(* visit_bracketed: that word obeys the stack discipline - every leave matches the latest open enter (same node,
   same depth, matching kind), every enter is one level deeper than the callback it is nested in *)
Theorem C16_visit_bracketed : forall t d, balanced [] (flatten d t).
Proof. exact thm_visit_bracketed. Qed.
Print Assumptions C16_visit_bracketed.

(* ... and between the enter and the leave of a sequence node come the words of its children, in order, one level deeper *)
Theorem C16_visit_children : forall r df cs d,
  flatten d (ASeq r df cs) =
  mkCb (enter_kind (ASeq r df cs)) d (ASeq r df cs) ::
    flat_map (flatten (S d)) cs ++ [mkCb (leave_kind (ASeq r df cs)) d (ASeq r df cs)].
Proof. exact thm_visit_children. Qed.
Print Assumptions C16_visit_children.

(* visit_first_error: the recording visitor that fails with e at its callback j sees exactly the first j+1
   callbacks of the full word and Apply returns e; if j is beyond the word it sees everything and gets nil *)
Theorem C16_visit_first_error : forall E (e : E) t j,
  visit (rec_call j e) t [] =
  if Nat.ltb j (List.length (flatten 0 t)) then (firstn (S j) (flatten 0 t), Some e) else (flatten 0 t, None).
Proof. exact thm_visit_first_error. Qed.
Print Assumptions C16_visit_first_error.

(* ---------------- non-vacuity ---------------- *)
(* Yield(t6, Join(f5, Unit(Join(f4, Unit(WrapF(LiftF(f2, Join(f1, From[int](s0))))))))) - two nested contexts,
   closed one after the other; well typed; the tree and the visit are what one expects *)
Example C16_example :
  let i := TNamed "int" in let s := TNamed "string" in
  let p := mkProg i 0 [OJoin i (TSlice (TSlice s)) 1; OLiftF (TSlice s) (TSlice i) 2; OWrapF i; OUnit i;
                        OJoin (TSlice i) s 4; OUnit s; OJoin (TSlice s) i 5; OYield i 6] in
  well_typed p = true /\
  build p = ASeq true true [AFrom "int" 0; AMap "int" "[][]string" 1;
                            ASeq false false [AMap "[]string" "[]int" 2; ASeq false false []; AMap "[]int" "string" 4];
                            AMap "[]string" "int" 5; AYield "int" 6] /\
  map (fun c => (ck c, cdepth c)) (fst (visit (rec_call (E := nat) 9 7) (build p) [])) =
    [(KEnterMorphism, 0); (KEnterFrom, 1); (KLeaveFrom, 1); (KEnterMap, 1); (KLeaveMap, 1); (KEnterSeq, 1);
     (KEnterMap, 2); (KLeaveMap, 2); (KEnterSeq, 2); (KLeaveSeq, 2)] /\
  snd (visit (rec_call (E := nat) 9 7) (build p) []) = Some 7.
Proof. vm_compute. repeat split. Qed.

(* an ill-typed step is rejected by the typing judgement (LiftF needs a slice) *)
Example C16_ill_typed : well_typed (mkProg (TNamed "int") 0 [OLiftF (TNamed "int") (TNamed "int") 1]) = false.
Proof. reflexivity. Qed.
