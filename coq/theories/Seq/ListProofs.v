(* C19 - list/list.go realises the persistent sequence ADT (impl_ok), over a heap of cons cells. *)
From Coq Require Import List ZArith Bool Lia.
From Golem Require Import Seq.Model Seq.Proofs.
Import ListNotations.
Open Scope Z_scope.

(* heaps only ever grow in the two implementations, or are written at places nobody else refers to:
   [hext]: every allocated object is still there, unchanged *)
Definition hext {A} (h h' : list A) : Prop := forall p c, nth_error h p = Some c -> nth_error h' p = Some c.

Lemma hext_refl : forall A (h : list A), hext h h.
Proof. intros A h p c E. exact E. Qed.
Lemma hext_trans : forall A (a b c : list A), hext a b -> hext b c -> hext a c.
Proof. intros A a b c X Y p x E. apply Y, X, E. Qed.
Lemma hext_app : forall A (h t : list A), hext h (h ++ t).
Proof.
  intros A h t p c E. rewrite nth_error_app1; [exact E|]. apply nth_error_Some. congruence.
Qed.
Lemma nth_error_last : forall A (h : list A) c, nth_error (h ++ [c]) (length h) = Some c.
Proof. intros A h c. rewrite nth_error_app2 by lia. rewrite Nat.sub_diag. reflexivity. Qed.

(* the chain of cells reachable from a pointer *)
Inductive rep (h : lheap) : option nat -> list Z -> Prop :=
| rep_nil : rep h None []
| rep_cons : forall p x t l, nth_error h p = Some (x, t) -> rep h t l -> rep h (Some p) (x :: l).

(* a list.Seq value represents l: its cells spell l and the cached length is right *)
Definition Rl (h : lheap) (s : lseq) (l : list Z) : Prop := rep h (lptr s) l /\ llen s = Z.of_nat (length l).

Lemma rep_ext : forall h h' p l, rep h p l -> hext h h' -> rep h' p l.
Proof. intros h h' p l Hr X. induction Hr as [|p x t l E Hr IH]; econstructor; eauto. Qed.

Lemma l_new_loop_spec : forall rxs h tail l h' p, rep h tail l -> l_new_loop h rxs tail = (h', p) ->
  hext h h' /\ rep h' p (rev rxs ++ l).
Proof.
  induction rxs as [|x r IH]; intros h tail l h' p Hr E; cbn in E.
  - inversion E; subst. split; [apply hext_refl | exact Hr].
  - assert (Hr1 : rep (h ++ [(x, tail)]) (Some (length h)) (x :: l)).
    { econstructor; [apply nth_error_last | exact (rep_ext _ _ _ _ Hr (hext_app _ _ _))]. }
    destruct (IH _ _ _ _ _ Hr1 E) as [X Hr']. split.
    + exact (hext_trans _ _ _ _ (hext_app _ _ _) X).
    + cbn [rev]. rewrite <- app_assoc. exact Hr'.
Qed.

Lemma list_ok : impl_ok list_impl Rl hext.
Proof.
  constructor; cbn [iH iS list_impl inew icons ihead itail ilength iisempty].
  - apply hext_refl.
  - apply hext_trans.
  - intros h h' s l [Hr Hl] X. split; [exact (rep_ext _ _ _ _ Hr X) | exact Hl].
  - intros h xs k h' s E. unfold l_new in E. destruct (l_new_loop h (rev xs) None) as [h1 p] eqn:EL.
    inversion E; subst. destruct (l_new_loop_spec _ _ _ _ _ _ (rep_nil h) EL) as [X Hr].
    rewrite rev_involutive, app_nil_r in Hr. split; [exact X | split; [exact Hr | reflexivity]].
  - intros h x s l h' s' [Hr Hl] E. unfold l_cons, l_alloc in E. inversion E; subst. split; [apply hext_app|].
    split; cbn [lptr llen].
    + econstructor; [apply nth_error_last | exact (rep_ext _ _ _ _ Hr (hext_app _ _ _))].
    + rewrite Hl. cbn [length]. lia.
  - intros h s l [Hr _]. unfold l_head. destruct Hr as [|p x t l E Hr]; [reflexivity|]. rewrite E. reflexivity.
  - intros h s l [Hr Hl]. unfold l_tail. destruct Hr as [|p x t l E Hr]; [reflexivity|]. rewrite E. cbn.
    exists x, l. split; [reflexivity|]. split; cbn [lptr llen]; [exact Hr|]. rewrite Hl. cbn [length]. lia.
  - intros h s l [_ Hl]. exact Hl.
  - intros h s l [_ Hl]. unfold l_isempty. rewrite Hl. destruct l; cbn [length]; [reflexivity|].
    apply Z.eqb_neq. lia.
Qed.
