(* C19 - slice/slice.go realises the persistent sequence ADT (impl_ok), over a heap of arrays where
   Go's append writes in place whenever the capacity allows. *)
From Coq Require Import List ZArith Bool Lia.
From Golem Require Import Seq.Model Seq.Proofs Seq.ListProofs.
Import ListNotations.
Open Scope Z_scope.

(* a slice value represents l: it points into an allocated array, stays inside it, and the len-window spells l *)
Definition Rs (h : sheap) (v : view) (l : list Z) : Prop :=
  exists a, nth_error h (varr v) = Some a /\ (voff v + vcap v <= length a)%nat /\ (vlen v <= vcap v)%nat /\
            l = firstn (vlen v) (skipn (voff v) a).

Lemma Rs_ext : forall h h' v l, Rs h v l -> hext h h' -> Rs h' v l.
Proof. intros h h' v l (a & E & B) X. exists a. split; [apply X, E | exact B]. Qed.

Lemma Rs_cells : forall h v l, Rs h v l -> cells h v = l.
Proof.
  intros h v l (a & E & _ & _ & ->). unfold cells, arr_of. rewrite (nth_error_nth _ _ _ E). reflexivity.
Qed.

Lemma Rs_length : forall h v l, Rs h v l -> length l = vlen v.
Proof.
  intros h v l (a & _ & B1 & B2 & ->). rewrite firstn_length, skipn_length. lia.
Qed.

Lemma set_nth_same : forall A (l : list A) i x, (i < length l)%nat -> nth_error (set_nth l i x) i = Some x.
Proof.
  intros A l. induction l as [|y t IH]; intros i x L; cbn [length] in L; [lia|].
  destruct i; cbn; [reflexivity|]. apply IH. lia.
Qed.
Lemma set_nth_other : forall A (l : list A) i j x, i <> j -> nth_error (set_nth l i x) j = nth_error l j.
Proof.
  intros A l. induction l as [|y t IH]; intros i j x N; [reflexivity|].
  destruct i, j; cbn; try reflexivity; try lia. apply IH. lia.
Qed.

Lemma firstn_app_exact : forall A (l r : list A) n, n = length l -> firstn n (l ++ r) = l.
Proof.
  intros A l r n ->. rewrite firstn_app, Nat.sub_diag, firstn_all. cbn. apply app_nil_r.
Qed.

Lemma skipn_cons_nth : forall A n (l : list A) x r d, skipn n l = x :: r -> nth n l d = x /\ skipn (S n) l = r.
Proof.
  intros A n. induction n as [|n IH]; intros l x r d E.
  - cbn in E. subst l. split; reflexivity.
  - destruct l as [|y t]; [discriminate E|]. cbn [skipn] in E. destruct (IH _ _ _ d E) as [E1 E2]. split; [exact E1 | exact E2].
Qed.

Section SliceProofs.
  Variable grow : nat -> nat -> nat.

  Lemma s_alloc_spec : forall h a n, (n <= length a)%nat ->
    hext h (fst (s_alloc h a n)) /\ Rs (fst (s_alloc h a n)) (snd (s_alloc h a n)) (firstn n a).
  Proof.
    intros h a n L. unfold s_alloc. cbn [fst snd]. split; [apply hext_app|].
    exists a. cbn [varr voff vlen vcap]. split; [apply nth_error_last|]. split; [lia|]. split; [exact L | reflexivity].
  Qed.

  (* Go's append: the result spells l ++ xs; every array other than the one appended to is untouched *)
  Lemma go_append_spec : forall h v l xs h' v', Rs h v l -> go_append grow h v xs = (h', v') ->
    Rs h' v' (l ++ xs) /\ (forall p c, p <> varr v -> nth_error h p = Some c -> nth_error h' p = Some c).
  Proof.
    intros h v l xs h' v' HR E. pose proof (Rs_cells _ _ _ HR) as EC. pose proof (Rs_length _ _ _ HR) as EL.
    destruct HR as (a & Ea & B1 & B2 & Hl). unfold go_append in E.
    destruct (vlen v + length xs <=? vcap v)%nat eqn:C.
    - (* in place *)
      apply Nat.leb_le in C. inversion E; subst h' v'; clear E. split.
      + unfold arr_of. rewrite (nth_error_nth _ _ _ Ea).
        exists (write_at a (voff v + vlen v) xs). cbn [varr voff vlen vcap].
        split; [apply set_nth_same; apply nth_error_Some; congruence|].
        assert (LW : length (write_at a (voff v + vlen v) xs) = length a).
        { unfold write_at. rewrite !app_length, firstn_length, skipn_length. lia. }
        split; [lia|]. split; [lia|].
        unfold write_at. rewrite skipn_app, firstn_length.
        replace (voff v - Nat.min (voff v + vlen v) (length a))%nat with 0%nat by lia. cbn [skipn].
        rewrite skipn_firstn_comm. replace (voff v + vlen v - voff v)%nat with (vlen v) by lia.
        rewrite <- Hl. rewrite app_assoc. symmetry. apply firstn_app_exact. rewrite app_length. lia.
      + intros p c N Ep. rewrite set_nth_other by congruence. exact Ep.
    - (* fresh array *)
      apply Nat.leb_gt in C. rewrite EC in E. unfold s_alloc in E. inversion E; subst h' v'; clear E. split.
      + eexists. cbn [varr voff vlen vcap]. split; [apply nth_error_last|]. split; [lia|].
        split; [rewrite !app_length; lia|]. cbn [skipn]. rewrite app_assoc. symmetry. apply firstn_app_exact.
        rewrite app_length. lia.
      + intros p c _ Ep. exact (hext_app _ _ _ _ _ Ep).
  Qed.

  Lemma slice_ok : impl_ok (slice_impl grow) Rs hext.
  Proof.
    constructor; cbn [iH iS slice_impl inew icons ihead itail ilength iisempty].
    - apply hext_refl.
    - apply hext_trans.
    - apply Rs_ext.
    - intros h xs k h' s E. unfold s_new in E.
      assert (L : (length xs <= length (xs ++ repeat 0%Z k))%nat) by (rewrite app_length; lia).
      destruct (s_alloc_spec h _ _ L) as [X HR]. rewrite E in X, HR. cbn [fst snd] in X, HR.
      rewrite firstn_app_exact in HR by reflexivity. split; assumption.
    - intros h x s l h' s' HR E. unfold s_cons in E. rewrite (Rs_cells _ _ _ HR) in E.
      assert (L : (1 <= length [x])%nat) by (cbn; lia).
      destruct (s_alloc_spec h [x] 1%nat L) as [X1 HR1].
      destruct (s_alloc h [x] 1) as [h1 v1] eqn:EA. cbn [fst snd] in X1, HR1.
      assert (Ev : varr v1 = length h) by (unfold s_alloc in EA; inversion EA; reflexivity).
      destruct (go_append_spec _ _ _ _ _ _ HR1 E) as [HR' FR]. split.
      + intros p c Ep. apply FR; [|apply X1, Ep].
        rewrite Ev. assert (p < length h)%nat by (apply nth_error_Some; congruence). lia.
      + exact HR'.
    - intros h s l HR. pose proof (Rs_length _ _ _ HR) as EL. destruct HR as (a & Ea & B1 & B2 & Hl).
      unfold s_head, arr_of. rewrite (nth_error_nth _ _ _ Ea).
      destruct (vlen s) as [|n] eqn:En; cbn [Nat.eqb].
      + subst l. reflexivity.
      + destruct (skipn (voff s) a) as [|z r] eqn:Es.
        * subst l. cbn in EL. discriminate EL.
        * destruct (skipn_cons_nth _ _ _ _ _ 0 Es) as [E1 _]. rewrite E1. subst l. reflexivity.
    - intros h s l HR. pose proof (Rs_length _ _ _ HR) as EL. destruct HR as (a & Ea & B1 & B2 & Hl).
      unfold s_tail. destruct (vlen s) as [|n] eqn:En; cbn [Nat.eqb].
      + subst l. reflexivity.
      + destruct (skipn (voff s) a) as [|z r] eqn:Es.
        * subst l. cbn in EL. discriminate EL.
        * destruct (skipn_cons_nth _ _ _ _ _ 0 Es) as [_ E2]. subst l. cbn [firstn].
          exists z, (firstn n r). split; [reflexivity|].
          exists a. cbn [varr voff vlen vcap]. split; [exact Ea|]. split; [lia|]. split; [lia|].
          rewrite E2. replace (S n - 1)%nat with n by lia. reflexivity.
    - intros h s l HR. unfold s_length. rewrite (Rs_length _ _ _ HR). reflexivity.
    - intros h s l HR. unfold s_isempty. rewrite <- (Rs_length _ _ _ HR). destruct l; reflexivity.
  Qed.
End SliceProofs.
