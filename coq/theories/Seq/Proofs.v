(* C19 - proofs about the models of Seq/Model.v.
   Part 1: what it means for an implementation of the trait to realise the persistent sequence ADT
           ([impl_ok]: a representation relation R, stable under heap extension) and everything that
           follows for ANY such implementation: the ADT equations, Fold = fold_left, and the simulation
           of scripts by plain lists.
   Part 2: list.go satisfies it.   Part 3: slice.go satisfies it (Go append may write in place). *)
From Coq Require Import List ZArith Bool Lia.
From Golem Require Import Seq.Model.
Import ListNotations.
Open Scope Z_scope.

Record impl_ok (I : impl) (R : iH I -> iS I -> list Z -> Prop) (ext : iH I -> iH I -> Prop) : Prop := mk_ok {
  ok_refl : forall h, ext h h;
  ok_trans : forall a b c, ext a b -> ext b c -> ext a c;
  (* persistence: a heap extension keeps every representation *)
  ok_pers : forall h h' s l, R h s l -> ext h h' -> R h' s l;
  ok_new : forall h xs k h' s, inew I h xs k = (h', s) -> ext h h' /\ R h' s xs;
  ok_cons : forall h x s l h' s', R h s l -> icons I h x s = (h', s') -> ext h h' /\ R h' s' (x :: l);
  ok_head : forall h s l, R h s l -> ihead I h s = hd_error l;
  ok_tail : forall h s l, R h s l ->
            match itail I h s with None => l = [] | Some t => exists x l', l = x :: l' /\ R h t l' end;
  ok_length : forall h s l, R h s l -> ilength I h s = Z.of_nat (length l);
  ok_isempty : forall h s l, R h s l -> iisempty I h s = match l with [] => true | _ => false end
}.

(* ------------------------------------------------------------------------------------------- *)
Section Generic.
  Variable I : impl.
  Variable R : iH I -> iS I -> list Z -> Prop.
  Variable ext : iH I -> iH I -> Prop.
  Hypothesis OK : impl_ok I R ext.

  Lemma g_new_len : forall h xs k h' s, inew I h xs k = (h', s) ->
    R h' s xs /\ ilength I h' s = Z.of_nat (length xs).
  Proof.
    intros h xs k h' s E. destruct (ok_new _ _ _ OK _ _ _ _ _ E) as [_ HR].
    split; [exact HR | exact (ok_length _ _ _ OK _ _ _ HR)].
  Qed.

  Lemma g_head_cons : forall h x s l h' s', R h s l -> icons I h x s = (h', s') -> ihead I h' s' = Some x.
  Proof.
    intros h x s l h' s' HR E. destruct (ok_cons _ _ _ OK _ _ _ _ _ _ HR E) as [_ HR'].
    rewrite (ok_head _ _ _ OK _ _ _ HR'). reflexivity.
  Qed.

  Lemma g_tail_cons : forall h x s l h' s', R h s l -> icons I h x s = (h', s') ->
    exists t, itail I h' s' = Some t /\ R h' t l.
  Proof.
    intros h x s l h' s' HR E. destruct (ok_cons _ _ _ OK _ _ _ _ _ _ HR E) as [_ HR'].
    pose proof (ok_tail _ _ _ OK _ _ _ HR') as T. destruct (itail I h' s') as [t|].
    - destruct T as (y & l' & El & Ht). inversion El; subst. exists t. split; [reflexivity | exact Ht].
    - discriminate T.
  Qed.

  Lemma g_length_cons : forall h x s l h' s', R h s l -> icons I h x s = (h', s') ->
    ilength I h' s' = ilength I h s + 1.
  Proof.
    intros h x s l h' s' HR E. destruct (ok_cons _ _ _ OK _ _ _ _ _ _ HR E) as [_ HR'].
    rewrite (ok_length _ _ _ OK _ _ _ HR'), (ok_length _ _ _ OK _ _ _ HR). cbn [length]. lia.
  Qed.

  Lemma g_isempty_iff : forall h s l, R h s l ->
    (iisempty I h s = true <-> ilength I h s = 0) /\ (iisempty I h s = true <-> l = []).
  Proof.
    intros h s l HR. rewrite (ok_isempty _ _ _ OK _ _ _ HR), (ok_length _ _ _ OK _ _ _ HR).
    destruct l as [|a l]; cbn [length]; split; split; intro H; try reflexivity; try discriminate; lia.
  Qed.

  (* persistence: whichever operation is performed next, a sequence built before still represents the same list
     (Head, Tail, Length, IsEmpty and Fold do not touch the heap at all: they return no heap) *)
  Lemma g_persistent : forall h s l, R h s l ->
    (forall xs k h' s', inew I h xs k = (h', s') -> R h' s l) /\
    (forall x s0 l0 h' s', R h s0 l0 -> icons I h x s0 = (h', s') -> R h' s l).
  Proof.
    intros h s l HR. split.
    - intros xs k h' s' E. destruct (ok_new _ _ _ OK _ _ _ _ _ E) as [X _]. exact (ok_pers _ _ _ OK _ _ _ _ HR X).
    - intros x s0 l0 h' s' HR0 E. destruct (ok_cons _ _ _ OK _ _ _ _ _ _ HR0 E) as [X _].
      exact (ok_pers _ _ _ OK _ _ _ _ HR X).
  Qed.

  (* the loop of foldable.go is the loop over the represented list *)
  Lemma fold_loop_sim : forall fuel m h x s l, R h s l ->
    fold_loop I fuel m h x s = fold_loop spec_impl fuel m tt x l.
  Proof.
    induction fuel as [|f IH]; intros m h x s l HR; [reflexivity|].
    cbn [fold_loop]. rewrite (ok_isempty _ _ _ OK _ _ _ HR), (ok_head _ _ _ OK _ _ _ HR).
    pose proof (ok_tail _ _ _ OK _ _ _ HR) as T.
    destruct l as [|a l']; [reflexivity|]. cbn.
    destruct (itail I h s) as [t|]; [|discriminate T].
    destruct T as (y & l'' & El & Ht). inversion El; subst. apply IH. exact Ht.
  Qed.

  Lemma fold_loop_list : forall fuel m x l, (length l < fuel)%nat ->
    fold_loop spec_impl fuel m tt x l = Some (fold_left (mcombine m) l x).
  Proof.
    induction fuel as [|f IH]; intros m x l L; [lia|].
    destruct l as [|a l']; [reflexivity|]. cbn. apply IH. cbn [length] in L. lia.
  Qed.

  Lemma g_fold_left_spec : forall fuel m h s l, R h s l -> (length l < fuel)%nat ->
    fold I fuel m h s = Some (fold_left (mcombine m) l (mempty m)).
  Proof.
    intros fuel m h s l HR L. unfold fold. rewrite (fold_loop_sim _ _ _ _ _ _ HR). apply fold_loop_list. exact L.
  Qed.

  Lemma walk_sim : forall fuel h s l, R h s l -> walk I fuel h s = walk spec_impl fuel tt l.
  Proof.
    induction fuel as [|f IH]; intros h s l HR.
    - cbn [walk]. rewrite (ok_isempty _ _ _ OK _ _ _ HR). reflexivity.
    - cbn [walk]. rewrite (ok_isempty _ _ _ OK _ _ _ HR), (ok_head _ _ _ OK _ _ _ HR).
      pose proof (ok_tail _ _ _ OK _ _ _ HR) as T.
      destruct l as [|a l']; [reflexivity|]. cbn.
      destruct (itail I h s) as [t|]; [|discriminate T].
      destruct T as (y & l'' & El & Ht). inversion El; subst. rewrite (IH _ _ _ Ht). reflexivity.
  Qed.

  (* ---- scripts: the store of the implementation is related slot by slot to a store of plain lists ---- *)
  Variable mon : nat -> monoid.
  Variable fuel : nat.
  Variable nmon : nat.

  Definition srel (st : state I) (sp : state spec_impl) : Prop := Forall2 (R (fst st)) (snd st) (snd sp).

  Lemma F2_nth : forall (ss : list (iS I)) (ls : list (list Z)) h i, Forall2 (R h) ss ls ->
    match nth_error ss i with
    | Some s => exists l, nth_error ls i = Some l /\ R h s l
    | None => nth_error ls i = None
    end.
  Proof.
    intros ss ls h i F. revert i. induction F as [|s l ss ls HR F IH]; intros i.
    - destruct i; reflexivity.
    - destruct i as [|i]; cbn.
      + exists l. split; [reflexivity | exact HR].
      + apply IH.
  Qed.

  Lemma F2_length : forall (ss : list (iS I)) (ls : list (list Z)) h, Forall2 (R h) ss ls -> length ss = length ls.
  Proof. intros ss ls h F. induction F; cbn; congruence. Qed.

  Lemma F2_ext : forall (ss : list (iS I)) ls h h', Forall2 (R h) ss ls -> ext h h' -> Forall2 (R h') ss ls.
  Proof.
    intros ss ls h h' F X. induction F as [|s l ss ls HR F IH]; constructor; auto.
    exact (ok_pers _ _ _ OK _ _ _ _ HR X).
  Qed.

  Lemma F2_put : forall (ss : list (iS I)) ls h d s l, Forall2 (R h) ss ls -> R h s l ->
    match put d s ss with
    | Some ss' => exists ls', put d l ls = Some ls' /\ Forall2 (R h) ss' ls'
    | None => put d l ls = None
    end.
  Proof.
    intros ss ls h d s l F HR. unfold put. rewrite <- (F2_length _ _ _ F).
    destruct (d <? length ss)%nat eqn:E1.
    - eexists. split; [reflexivity|].
      apply Forall2_app.
      + clear E1. revert d. induction F as [|s0 l0 ss ls HR0 F IH]; intros d; destruct d; cbn; constructor; auto.
      + constructor; [exact HR|].
        clear E1. revert d. induction F as [|s0 l0 ss ls HR0 F IH]; intros d; destruct d; cbn; try constructor; auto.
        specialize (IH d). destruct d; exact IH.
    - destruct (d =? length ss)%nat eqn:E2; [|reflexivity].
      eexists. split; [reflexivity|]. apply Forall2_app; [exact F | constructor; [exact HR | constructor]].
  Qed.

  Lemma step_sim : forall st sp o, srel st sp ->
    srel (fst (step I mon fuel st o)) (fst (step spec_impl mon fuel sp o)) /\
    snd (step I mon fuel st o) = snd (step spec_impl mon fuel sp o).
  Proof.
    intros [h ss] [u ls] o F. unfold srel in *. cbn [fst snd] in F. destruct u.
    destruct o as [d xs k | d x i | d i | i | i | i | m i]; cbn [step iS iH spec_impl inew icons itail ihead ilength iisempty].
    - (* New *)
      destruct (inew I h xs k) as [h' s] eqn:E. destruct (ok_new _ _ _ OK _ _ _ _ _ E) as [X HR].
      cbn [inew spec_impl].
      pose proof (F2_put ss ls h' d s xs (F2_ext _ _ _ _ F X) HR) as P.
      destruct (put d s ss) as [ss'|].
      + destruct P as (ls' & -> & F'). cbn. split; [exact F' | reflexivity].
      + rewrite P. cbn. split; [exact F | reflexivity].
    - (* Cons *)
      pose proof (F2_nth ss ls h i F) as N. destruct (nth_error ss i) as [s|].
      + destruct N as (l & -> & HR). destruct (icons I h x s) as [h' s'] eqn:E.
        destruct (ok_cons _ _ _ OK _ _ _ _ _ _ HR E) as [X HR']. cbn [icons spec_impl].
        pose proof (F2_put ss ls h' d s' (x :: l) (F2_ext _ _ _ _ F X) HR') as P.
        destruct (put d s' ss) as [ss'|].
        * destruct P as (ls' & -> & F'). cbn. split; [exact F' | reflexivity].
        * rewrite P. cbn. split; [exact F | reflexivity].
      + rewrite N. cbn. split; [exact F | reflexivity].
    - (* Tail *)
      pose proof (F2_nth ss ls h i F) as N. destruct (nth_error ss i) as [s|].
      + destruct N as (l & -> & HR). pose proof (ok_tail _ _ _ OK _ _ _ HR) as T. cbn [itail spec_impl].
        destruct (itail I h s) as [t|].
        * destruct T as (y & l' & -> & Ht).
          pose proof (F2_put ss ls h d t l' F Ht) as P.
          destruct (put d t ss) as [ss'|].
          -- destruct P as (ls' & -> & F'). cbn. split; [exact F' | reflexivity].
          -- rewrite P. cbn. split; [exact F | reflexivity].
        * subst l. cbn. split; [exact F | reflexivity].
      + rewrite N. cbn. split; [exact F | reflexivity].
    - (* Head *)
      pose proof (F2_nth ss ls h i F) as N. destruct (nth_error ss i) as [s|].
      + destruct N as (l & -> & HR). rewrite (ok_head _ _ _ OK _ _ _ HR). cbn. split; [exact F | reflexivity].
      + rewrite N. cbn. split; [exact F | reflexivity].
    - (* Length *)
      pose proof (F2_nth ss ls h i F) as N. destruct (nth_error ss i) as [s|].
      + destruct N as (l & -> & HR). rewrite (ok_length _ _ _ OK _ _ _ HR). cbn. split; [exact F | reflexivity].
      + rewrite N. cbn. split; [exact F | reflexivity].
    - (* IsEmpty *)
      pose proof (F2_nth ss ls h i F) as N. destruct (nth_error ss i) as [s|].
      + destruct N as (l & -> & HR). rewrite (ok_isempty _ _ _ OK _ _ _ HR). cbn. split; [exact F | reflexivity].
      + rewrite N. cbn. split; [exact F | reflexivity].
    - (* Fold *)
      pose proof (F2_nth ss ls h i F) as N. destruct (nth_error ss i) as [s|].
      + destruct N as (l & -> & HR). unfold fold. rewrite (fold_loop_sim _ _ _ _ _ _ HR). cbn. split; [exact F | reflexivity].
      + rewrite N. cbn. split; [exact F | reflexivity].
  Qed.

  Lemma snapshot_sim : forall h s l, R h s l ->
    snapshot I mon fuel nmon h s = snapshot spec_impl mon fuel nmon tt l.
  Proof.
    intros h s l HR. unfold snapshot. rewrite (walk_sim _ _ _ _ HR).
    rewrite (ok_length _ _ _ OK _ _ _ HR), (ok_isempty _ _ _ OK _ _ _ HR).
    replace (map (fun m => fold I fuel (mon m) h s) (seq 0 nmon))
      with (map (fun m => fold spec_impl fuel (mon m) tt l) (seq 0 nmon)); [reflexivity|].
    apply map_ext. intro m. unfold fold. symmetry. apply fold_loop_sim. exact HR.
  Qed.

  Lemma observe_sim : forall st sp, srel st sp ->
    observe I mon fuel nmon st = observe spec_impl mon fuel nmon sp.
  Proof.
    intros [h ss] [u ls] F. unfold srel in F. cbn [fst snd] in F. destruct u. unfold observe. cbn [fst snd].
    induction F as [|s l ss ls HR F IH]; [reflexivity|]. cbn [map]. rewrite IH, (snapshot_sim _ _ _ HR). reflexivity.
  Qed.

  Lemma run_sim : forall script st sp, srel st sp ->
    run I mon fuel nmon st script = run spec_impl mon fuel nmon sp script.
  Proof.
    induction script as [|o r IH]; intros st sp F; [reflexivity|].
    cbn [run]. destruct (step_sim st sp o F) as [F' E].
    destruct (step I mon fuel st o) as [st' x]. destruct (step spec_impl mon fuel sp o) as [sp' x'].
    cbn [fst snd] in F', E. subst x'. rewrite (observe_sim _ _ F'), (IH _ _ F'). reflexivity.
  Qed.

  (* every script gives on the implementation exactly the observations plain lists give *)
  Lemma g_script_spec : forall script,
    run0 I mon fuel nmon script = run0 spec_impl mon fuel nmon script.
  Proof. intros script. apply run_sim. constructor. Qed.
End Generic.
