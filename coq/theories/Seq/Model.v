(* C19 - executable models of /repo/internal/seq: the linked-list trait (list/list.go), the slice
   trait (slice/slice.go), the generic Foldable.Fold (foldable.go) and the script machine that
   drives any implementation of the trait.  Definitions only - proofs are in Seq/Proofs.v. *)
From Coq Require Import List ZArith Bool.
Import ListNotations.
Open Scope Z_scope.

(* monoid.Monoid[A] as the code uses it: m.Empty() and m.Combine(a, b); no law is assumed *)
Record monoid := mkMonoid { mempty : Z; mcombine : Z -> Z -> Z }.

(* seq.Seq[F_, A] (types.go): an implementation lives over a heap [iH]; a sequence value is a handle [iS].
   Construction may allocate (returns the new heap); View and Query only read. [None] = run-time panic. *)
Record impl := mkImpl {
  iH : Type; iS : Type;
  ih0 : iH;
  inew : iH -> list Z -> nat -> iH * iS;   (* New(xs...) ; the nat is the spare capacity of the caller's argument slice *)
  icons : iH -> Z -> iS -> iH * iS;
  ihead : iH -> iS -> option Z;
  itail : iH -> iS -> option iS;
  ilength : iH -> iS -> Z;
  iisempty : iH -> iS -> bool
}.

(* ---------------------------------------------------------------------------------------------
   list/list.go :  type Seq[A] struct { len int; list *list[A] } ; type list[A] struct { head A; tail *list[A] }
   heap of cells, a pointer is the allocation index, nil is None *)
Definition lheap := list (Z * option nat).
Record lseq := mkL { llen : Z; lptr : option nat }.

Definition l_alloc (h : lheap) (x : Z) (t : option nat) : lheap * option nat := (h ++ [(x, t)], Some (length h)).

(* for i := len(seq)-1; i >= 0; i-- { tail = &list[A]{head: seq[i], tail: tail} } *)
Fixpoint l_new_loop (h : lheap) (rxs : list Z) (tail : option nat) : lheap * option nat :=
  match rxs with
  | [] => (h, tail)
  | x :: r => let '(h', p) := l_alloc h x tail in l_new_loop h' r p
  end.
Definition l_new (h : lheap) (xs : list Z) (_ : nat) : lheap * lseq :=
  let '(h', p) := l_new_loop h (rev xs) None in (h', mkL (Z.of_nat (length xs)) p).
Definition l_cons (h : lheap) (x : Z) (s : lseq) : lheap * lseq :=
  let '(h', p) := l_alloc h x (lptr s) in (h', mkL (llen s + 1) p).
(* seq.list.head / seq.list.tail : nil pointer dereference panics *)
Definition l_head (h : lheap) (s : lseq) : option Z :=
  match lptr s with None => None | Some p => option_map fst (nth_error h p) end.
Definition l_tail (h : lheap) (s : lseq) : option lseq :=
  match lptr s with None => None | Some p => option_map (fun c => mkL (llen s - 1) (snd c)) (nth_error h p) end.
Definition l_length (_ : lheap) (s : lseq) : Z := llen s.
Definition l_isempty (_ : lheap) (s : lseq) : bool := llen s =? 0.

Definition list_impl : impl := mkImpl lheap lseq [] l_new l_cons l_head l_tail l_length l_isempty.

(* ---------------------------------------------------------------------------------------------
   slice/slice.go : type Seq[A] []A.  Array heap; a slice value is a view (array, offset, len, cap).
   [go_append] is Go's append: in place iff the capacity allows, otherwise a fresh array. *)
Definition sheap := list (list Z).
Record view := mkV { varr : nat; voff : nat; vlen : nat; vcap : nat }.

Definition arr_of (h : sheap) (v : view) : list Z := nth (varr v) h [].
Definition cells (h : sheap) (v : view) : list Z := firstn (vlen v) (skipn (voff v) (arr_of h v)).
Fixpoint set_nth {A} (l : list A) (i : nat) (x : A) : list A :=
  match l, i with
  | [], _ => []
  | _ :: t, O => x :: t
  | y :: t, S i' => y :: set_nth t i' x
  end.
Definition write_at (a : list Z) (i : nat) (xs : list Z) : list Z :=
  firstn i a ++ xs ++ skipn (i + length xs) a.

Section Slice.
  (* extra capacity Go's growslice adds beyond what is needed (old capacity, needed length): any function *)
  Variable grow : nat -> nat -> nat.

  (* a composite literal / make: fresh array *)
  Definition s_alloc (h : sheap) (a : list Z) (n : nat) : sheap * view := (h ++ [a], mkV (length h) 0 n (length a)).

  Definition go_append (h : sheap) (v : view) (xs : list Z) : sheap * view :=
    let n := length xs in
    if (vlen v + n <=? vcap v)%nat then
      (set_nth h (varr v) (write_at (arr_of h v) (voff v + vlen v) xs), mkV (varr v) (voff v) (vlen v + n) (vcap v))
    else
      let need := (vlen v + n)%nat in
      s_alloc h (cells h v ++ xs ++ repeat 0 (grow (vcap v) need)) need.

  (* func (Trait[A]) New(seq ...A) Seq[A] { return seq } : the argument slice itself (built by the caller) *)
  Definition s_new (h : sheap) (xs : list Z) (spare : nat) : sheap * view :=
    s_alloc h (xs ++ repeat 0 spare) (length xs).
  (* return append([]A{x}, seq...) *)
  Definition s_cons (h : sheap) (x : Z) (s : view) : sheap * view :=
    let xs := cells h s in
    let '(h1, v1) := s_alloc h [x] 1 in
    go_append h1 v1 xs.
  (* seq[0] : index out of range panics *)
  Definition s_head (h : sheap) (s : view) : option Z :=
    if (vlen s =? 0)%nat then None else Some (nth (voff s) (arr_of h s) 0).
  (* seq[1:] : slice bounds out of range [1:0] panics *)
  Definition s_tail (h : sheap) (s : view) : option view :=
    if (vlen s =? 0)%nat then None else Some (mkV (varr s) (S (voff s)) (vlen s - 1) (vcap s - 1)).
  Definition s_length (_ : sheap) (s : view) : Z := Z.of_nat (vlen s).
  Definition s_isempty (_ : sheap) (s : view) : bool := (vlen s =? 0)%nat.

  Definition slice_impl : impl := mkImpl sheap view [] s_new s_cons s_head s_tail s_length s_isempty.
End Slice.

(* ---------------------------------------------------------------------------------------------
   the abstract data type: plain lists *)
Definition spec_impl : impl :=
  mkImpl unit (list Z) tt
    (fun _ xs _ => (tt, xs)) (fun _ x s => (tt, x :: s))
    (fun _ s => hd_error s) (fun _ s => match s with [] => None | _ :: t => Some t end)
    (fun _ s => Z.of_nat (length s)) (fun _ s => match s with [] => true | _ => false end).

(* ---------------------------------------------------------------------------------------------
   foldable.go :  x := m.Empty(); s := seq; for !IsEmpty(s) { x = m.Combine(x, Head(s)); s = Tail(s) }; return x
   [None] = a panic of Head/Tail, or the loop is still running when the fuel is spent *)
Section Generic.
  Variable I : impl.

  Fixpoint fold_loop (fuel : nat) (m : monoid) (h : iH I) (x : Z) (s : iS I) : option Z :=
    match fuel with
    | O => None
    | S f =>
      if iisempty I h s then Some x else
      match ihead I h s, itail I h s with
      | Some a, Some t => fold_loop f m h (mcombine m x a) t
      | _, _ => None
      end
    end.
  Definition fold (fuel : nat) (m : monoid) (h : iH I) (s : iS I) : option Z := fold_loop fuel m h (mempty m) s.

  (* reading a sequence element by element the way a client does (Head/Tail until IsEmpty);
     the flag is false when a panic or the fuel ended the walk *)
  Fixpoint walk (fuel : nat) (h : iH I) (s : iS I) : list Z * bool :=
    match fuel with
    | O => ([], iisempty I h s)
    | S f =>
      if iisempty I h s then ([], true) else
      match ihead I h s, itail I h s with
      | Some a, Some t => let '(l, ok) := walk f h t in (a :: l, ok)
      | _, _ => ([], false)
      end
    end.
End Generic.

(* ---------------------------------------------------------------------------------------------
   scripts over a store of sequences.  [d] = destination slot (an existing one is overwritten,
   d = size of the store appends), [i] = source slot. *)
Inductive op :=
| ONew (d : nat) (xs : list Z) (spare : nat)
| OCons (d : nat) (x : Z) (i : nat)
| OTail (d i : nat)
| OHead (i : nat)
| OLength (i : nat)
| OIsEmpty (i : nat)
| OFold (m : nat) (i : nat).

Inductive res := RDone | RVal (z : Z) | RBool (b : bool) | RPanic | RSkip.

Definition put {X} (d : nat) (s : X) (st : list X) : option (list X) :=
  if (d <? length st)%nat then Some (firstn d st ++ s :: skipn (S d) st)
  else if (d =? length st)%nat then Some (st ++ [s]) else None.

(* what is read back from one live sequence after every operation *)
Record snap := mkSnap { sn_elems : list Z; sn_ok : bool; sn_len : Z; sn_empty : bool; sn_folds : list (option Z) }.

Section Machine.
  Variable I : impl.
  Variable mon : nat -> monoid.     (* the monoids a script may name *)
  Variable fuel : nat.              (* bound on the Fold / walk loops *)
  Variable nmon : nat.              (* monoids 0..nmon-1 are folded in every snapshot *)

  Definition state := (iH I * list (iS I))%type.

  Definition step (st : state) (o : op) : state * res :=
    let '(h, ss) := st in
    match o with
    | ONew d xs k =>
      let '(h', s) := inew I h xs k in
      match put d s ss with Some ss' => ((h', ss'), RDone) | None => (st, RSkip) end
    | OCons d x i =>
      match nth_error ss i with
      | None => (st, RSkip)
      | Some s => let '(h', s') := icons I h x s in
                  match put d s' ss with Some ss' => ((h', ss'), RDone) | None => (st, RSkip) end
      end
    | OTail d i =>
      match nth_error ss i with
      | None => (st, RSkip)
      | Some s => match itail I h s with
                  | None => (st, RPanic)
                  | Some t => match put d t ss with Some ss' => ((h, ss'), RDone) | None => (st, RSkip) end
                  end
      end
    | OHead i =>
      match nth_error ss i with
      | None => (st, RSkip)
      | Some s => (st, match ihead I h s with Some z => RVal z | None => RPanic end)
      end
    | OLength i =>
      match nth_error ss i with None => (st, RSkip) | Some s => (st, RVal (ilength I h s)) end
    | OIsEmpty i =>
      match nth_error ss i with None => (st, RSkip) | Some s => (st, RBool (iisempty I h s)) end
    | OFold m i =>
      match nth_error ss i with
      | None => (st, RSkip)
      | Some s => (st, match fold I fuel (mon m) h s with Some z => RVal z | None => RPanic end)
      end
    end.

  Definition snapshot (h : iH I) (s : iS I) : snap :=
    let '(l, ok) := walk I fuel h s in
    mkSnap l ok (ilength I h s) (iisempty I h s) (map (fun m => fold I fuel (mon m) h s) (seq 0 nmon)).

  Definition observe (st : state) : list snap := map (snapshot (fst st)) (snd st).

  (* the full observation of a script: per operation its result and the re-read of every live sequence *)
  Fixpoint run (st : state) (script : list op) : list (res * list snap) :=
    match script with
    | [] => []
    | o :: r => let '(st', x) := step st o in (x, observe st') :: run st' r
    end.

  Definition run0 (script : list op) : list (res * list snap) := run (ih0 I, []) script.
End Machine.
