(* The loop of Foldable.Fold as regenerated from /repo/internal/seq/foldable.go on every run (coq/gen/GenFold.v,
   tools/go2coq mode fold) IS the hand-written [fold] of Seq/Model.v over every implementation of the trait: the
   theorems about [fold] (left fold from the monoid's empty element, on lists and slices of any length) are theorems
   about the loop the source contains now. *)
From Coq Require Import List ZArith Bool.
From Golem Require Import Seq.Model Seq.ListProofs Seq.SliceProofs Seq.Theorems.
From GolemGen Require Import GenFold.
Import ListNotations.
Open Scope Z_scope.

(* the generated definitions at an implementation of the trait, a heap and a monoid *)
Definition gen_fold (I : impl) (fuel : nat) (m : monoid) (h : iH I) (s : iS I) : option Z :=
  Fold (mcombine m) (mempty m) (ihead I h) (iisempty I h) (itail I h) fuel s.

Lemma gen_fold_loop_eq (I : impl) (m : monoid) (h : iH I) : forall fuel x s,
  Fold_loop (mcombine m) (mempty m) (ihead I h) (iisempty I h) (itail I h) fuel x s = fold_loop I fuel m h x s.
Proof.
  induction fuel as [|n IH]; intros x s; [reflexivity|].
  cbn [Fold_loop fold_loop]. destruct (iisempty I h s); cbn [negb]; [reflexivity|].
  destruct (ihead I h s) as [a|]; [|reflexivity].
  destruct (itail I h s) as [t|]; [|reflexivity].
  apply IH.
Qed.

Lemma gen_fold_eq (I : impl) (fuel : nat) (m : monoid) (h : iH I) (s : iS I) : gen_fold I fuel m h s = fold I fuel m h s.
Proof. unfold gen_fold, Fold, fold. apply gen_fold_loop_eq. Qed.

Lemma gen_fold_list fuel m h s l : Rl h s l -> (length l < fuel)%nat ->
  gen_fold list_impl fuel m h s = Some (fold_left (mcombine m) l (mempty m)).
Proof. intros. rewrite gen_fold_eq. apply list_fold_left_spec; assumption. Qed.

Lemma gen_fold_slice grow fuel m h s l : Rs h s l -> (length l < fuel)%nat ->
  gen_fold (slice_impl grow) fuel m h s = Some (fold_left (mcombine m) l (mempty m)).
Proof. intros. rewrite gen_fold_eq. apply (slice_fold_left_spec grow); assumption. Qed.
