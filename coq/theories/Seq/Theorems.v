(* C19 - the statements of Properties/C19.v, obtained by instantiating the generic results of Seq/Proofs.v
   with list_ok (Seq/ListProofs.v) and slice_ok (Seq/SliceProofs.v). *)
From Coq Require Import List ZArith Bool Lia.
From Golem Require Import Seq.Model Seq.Proofs Seq.ListProofs Seq.SliceProofs.
Import ListNotations.
Open Scope Z_scope.

(* ---- list/list.go ---- *)
Lemma list_new_len : forall h xs k h' s, l_new h xs k = (h', s) ->
  Rl h' s xs /\ l_length h' s = Z.of_nat (length xs).
Proof. exact (g_new_len _ _ _ list_ok). Qed.

Lemma list_head_cons : forall h x s l h' s', Rl h s l -> l_cons h x s = (h', s') -> l_head h' s' = Some x.
Proof. exact (g_head_cons _ _ _ list_ok). Qed.

Lemma list_tail_cons : forall h x s l h' s', Rl h s l -> l_cons h x s = (h', s') ->
  exists t, l_tail h' s' = Some t /\ Rl h' t l.
Proof. exact (g_tail_cons _ _ _ list_ok). Qed.

Lemma list_length_cons : forall h x s l h' s', Rl h s l -> l_cons h x s = (h', s') ->
  l_length h' s' = l_length h s + 1.
Proof. exact (g_length_cons _ _ _ list_ok). Qed.

Lemma list_isempty_iff : forall h s l, Rl h s l ->
  (l_isempty h s = true <-> l_length h s = 0) /\ (l_isempty h s = true <-> l = []).
Proof. exact (g_isempty_iff _ _ _ list_ok). Qed.

Lemma list_persistent : forall h s l, Rl h s l ->
  (forall xs k h' s', l_new h xs k = (h', s') -> Rl h' s l) /\
  (forall x s0 l0 h' s', Rl h s0 l0 -> l_cons h x s0 = (h', s') -> Rl h' s l).
Proof. exact (g_persistent _ _ _ list_ok). Qed.

Lemma list_fold_left_spec : forall fuel m h s l, Rl h s l -> (length l < fuel)%nat ->
  fold list_impl fuel m h s = Some (fold_left (mcombine m) l (mempty m)).
Proof. exact (g_fold_left_spec _ _ _ list_ok). Qed.

Lemma list_empty_panics : forall h s, Rl h s [] -> l_head h s = None /\ l_tail h s = None.
Proof.
  intros h s HR. split.
  - exact (ok_head _ _ _ list_ok _ _ _ HR).
  - pose proof (ok_tail _ _ _ list_ok _ _ _ HR) as T. cbn [itail list_impl] in T.
    destruct (l_tail h s) as [t|]; [|reflexivity]. destruct T as (x & l' & E & _). discriminate E.
Qed.

(* ---- slice/slice.go ---- *)
Section Slice.
  Variable grow : nat -> nat -> nat.

  Lemma slice_new_len_g : forall h xs k h' s, s_new h xs k = (h', s) ->
    Rs h' s xs /\ s_length h' s = Z.of_nat (length xs).
  Proof. exact (g_new_len _ _ _ (slice_ok grow)). Qed.

  Lemma slice_head_cons : forall h x s l h' s', Rs h s l -> s_cons grow h x s = (h', s') -> s_head h' s' = Some x.
  Proof. exact (g_head_cons _ _ _ (slice_ok grow)). Qed.

  Lemma slice_tail_cons : forall h x s l h' s', Rs h s l -> s_cons grow h x s = (h', s') ->
    exists t, s_tail h' s' = Some t /\ Rs h' t l.
  Proof. exact (g_tail_cons _ _ _ (slice_ok grow)). Qed.

  Lemma slice_length_cons : forall h x s l h' s', Rs h s l -> s_cons grow h x s = (h', s') ->
    s_length h' s' = s_length h s + 1.
  Proof. exact (g_length_cons _ _ _ (slice_ok grow)). Qed.

  Lemma slice_isempty_iff_g : forall h s l, Rs h s l ->
    (s_isempty h s = true <-> s_length h s = 0) /\ (s_isempty h s = true <-> l = []).
  Proof. exact (g_isempty_iff _ _ _ (slice_ok grow)). Qed.

  Lemma slice_persistent : forall h s l, Rs h s l ->
    (forall xs k h' s', s_new h xs k = (h', s') -> Rs h' s l) /\
    (forall x s0 l0 h' s', Rs h s0 l0 -> s_cons grow h x s0 = (h', s') -> Rs h' s l).
  Proof. exact (g_persistent _ _ _ (slice_ok grow)). Qed.

  Lemma slice_fold_left_spec : forall fuel m h s l, Rs h s l -> (length l < fuel)%nat ->
    fold (slice_impl grow) fuel m h s = Some (fold_left (mcombine m) l (mempty m)).
  Proof. exact (g_fold_left_spec _ _ _ (slice_ok grow)). Qed.

  Lemma slice_empty_panics_g : forall h s, Rs h s [] -> s_head h s = None /\ s_tail h s = None.
  Proof.
    intros h s HR. split.
    - exact (ok_head _ _ _ (slice_ok grow) _ _ _ HR).
    - pose proof (ok_tail _ _ _ (slice_ok grow) _ _ _ HR) as T. cbn [itail slice_impl] in T.
      destruct (s_tail h s) as [t|]; [|reflexivity]. destruct T as (x & l' & E & _). discriminate E.
  Qed.

  (* ---- both: any script, any monoids, any loop bound ---- *)
  Lemma script_equiv : forall (mon : nat -> monoid) (fuel nmon : nat) (script : list op),
    run0 list_impl mon fuel nmon script = run0 (slice_impl grow) mon fuel nmon script /\
    run0 list_impl mon fuel nmon script = run0 spec_impl mon fuel nmon script.
  Proof.
    intros mon fuel nmon script.
    rewrite (g_script_spec _ _ _ list_ok), (g_script_spec _ _ _ (slice_ok grow)). split; reflexivity.
  Qed.
End Slice.

(* statements that do not mention the growth policy *)
Definition grow0 : nat -> nat -> nat := fun _ _ => O.
Lemma slice_new_len : forall h xs k h' s, s_new h xs k = (h', s) ->
  Rs h' s xs /\ s_length h' s = Z.of_nat (length xs).
Proof. exact (slice_new_len_g grow0). Qed.
Lemma slice_isempty_iff : forall h s l, Rs h s l ->
  (s_isempty h s = true <-> s_length h s = 0) /\ (s_isempty h s = true <-> l = []).
Proof. exact (slice_isempty_iff_g grow0). Qed.
Lemma slice_empty_panics : forall h s, Rs h s [] -> s_head h s = None /\ s_tail h s = None.
Proof. exact (slice_empty_panics_g grow0). Qed.

(* ---- the plain-list machine itself: what a script observes (so that equality with it says something) ---- *)
Lemma spec_walk : forall fuel l, (length l < fuel)%nat -> walk spec_impl fuel tt l = (l, true).
Proof.
  induction fuel as [|f IH]; intros l L; [lia|]. destruct l as [|a l']; [reflexivity|].
  cbn. cbn [length] in L. rewrite IH by lia. reflexivity.
Qed.

(* in the plain-list machine an operation changes at most its destination slot *)
Lemma put_other : forall X d (s : X) st st' j, put d s st = Some st' -> j <> d ->
  (j < length st)%nat -> nth_error st' j = nth_error st j.
Proof.
  intros X d s st st' j E N L. unfold put in E. destruct (d <? length st)%nat eqn:E1.
  - inversion E; subst st'; clear E. apply Nat.ltb_lt in E1.
    destruct (Nat.lt_ge_cases j d) as [Hlt|Hge].
    + rewrite nth_error_app1 by (rewrite firstn_length; lia). clear - Hlt.
      revert j st Hlt. induction d as [|d IH]; intros j st Hlt; [lia|].
      destruct st as [|y t]; [destruct j; reflexivity|]. destruct j; cbn; [reflexivity|]. apply IH. lia.
    + rewrite nth_error_app2 by (rewrite firstn_length; lia). rewrite firstn_length.
      replace (Nat.min d (length st)) with d by lia.
      destruct (j - d)%nat as [|k] eqn:Ek; [lia|]. cbn [nth_error].
      replace j with (S d + k)%nat by lia. clear. revert st. induction d as [|d IH]; intros st.
      * destruct st; [destruct k; reflexivity | reflexivity].
      * destruct st as [|y t]; [destruct k; reflexivity|]. cbn. apply (IH t).
  - destruct (d =? length st)%nat eqn:E2; [|discriminate E]. inversion E; subst st'. apply nth_error_app1. exact L.
Qed.

(* the model of Go's append can express aliasing: two appends to the same short view with spare
   capacity share the array, the second overwrites what the first wrote *)
Example append_can_scribble : forall grow,
  let h0 := [[1; 0; 0]] in let v := mkV 0 0 1 3 in
  let '(h1, a) := go_append grow h0 v [7] in
  let '(h2, b) := go_append grow h1 v [8] in
  cells h1 a = [1; 7] /\ cells h2 b = [1; 8] /\ cells h2 a = [1; 8].
Proof. intros grow. cbv. repeat split. Qed.
