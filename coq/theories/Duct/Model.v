(* C16 - the model of the code: transcriptions of ast.go (append, unit, Apply) and duct.go (the combinators).
   Go mutates the shared *AstSeq in place; the model returns the new tree ([None] = the method returned false,
   nothing was changed).  Definitions only. *)
From Coq Require Import List ZArith Bool String.
From Golem Require Import Duct.Ast.
Import ListNotations.

(* func (f *AstSeq) append(n Ast) bool
     if !f.Deferred { return false }
     if len(f.Seq) == 0 { f.Seq = append(f.Seq, n); return true }
     switch v := f.Seq[len(f.Seq)-1].(type) { case *AstSeq: if ok := v.append(n); ok { return true } }
     f.Seq = append(f.Seq, n); return true *)
Fixpoint append (f : ast) (n : ast) {struct f} : option ast :=
  match f with
  | ASeq r d cs =>
    if d then
      Some (ASeq r d
        ((fix go (l : list ast) : list ast :=
            match l with
            | [] => [n]
            | x :: rest =>
              match rest with
              | [] => match append x n with Some x' => [x'] | None => [x; n] end
              | _ => x :: go rest
              end
            end) cs))
    else None
  | _ => None      (* the type switch matches *AstSeq only *)
  end.

(* func (f *AstSeq) unit() bool
     if !f.Deferred { return false }
     if len(f.Seq) == 0 { if !f.Root { f.Deferred = false }; return true }
     switch v := f.Seq[len(f.Seq)-1].(type) { case *AstSeq: if ok := v.unit(); ok { return true } }
     if !f.Root { f.Deferred = false }; return true *)
Fixpoint unit (f : ast) {struct f} : option ast :=
  match f with
  | ASeq r d cs =>
    if d then
      match (fix go (l : list ast) : option (list ast) :=
               match l with
               | [] => None
               | x :: rest =>
                 match rest with
                 | [] => match unit x with Some x' => Some [x'] | None => None end
                 | _ => match go rest with Some rest' => Some (x :: rest') | None => None end
                 end
               end) cs with
      | Some cs' => Some (ASeq r d cs')
      | None => Some (ASeq r (if r then d else false) cs)
      end
    else None
  | _ => None
  end.

(* the callers ignore the boolean *)
Definition do_append (t n : ast) : ast := match append t n with Some t' => t' | None => t end.
Definition do_unit (t : ast) : ast := match unit t with Some t' => t' | None => t end.

(* duct.go *)
Definition m_from (a : ty) (src : Z) : ast := do_append (ASeq true true []) (AFrom (typeName a) src).
Definition m_step (t : ast) (o : op) : ast :=
  match o with
  | OJoin b c f => do_append t (AMap (typeName b) (typeName c) f)
  | OLiftF b c f => let inner := do_append (ASeq false true []) (AMap (typeName b) (typeName c) f) in do_append t inner
  | OWrapF _ => do_append t (ASeq false true [])
  | OUnit _ => do_unit t
  | OYield b x => do_append t (AYield (typeName b) x)
  end.
Definition build (p : program) : ast := fold_left m_step (p_ops p) (m_from (p_a p) (p_src p)).

(* Apply(depth, v): every callback may return an error, which stops the visit at once and is returned *)
Section Apply.
  Variables (V E : Type) (call : V -> cb -> V * option E).

  Fixpoint apply (depth : nat) (n : ast) (v : V) {struct n} : V * option E :=
    match n with
    | ASeq r _ cs =>
      let '(v1, e1) := call v (mkCb (if r then KEnterMorphism else KEnterSeq) depth n) in
      match e1 with
      | Some x => (v1, Some x)
      | None =>
        let '(v2, e2) :=
          (fix loop (l : list ast) (w : V) : V * option E :=
             match l with
             | [] => (w, None)
             | x :: rest => let '(w', e) := apply (S depth) x w in
                            match e with Some y => (w', Some y) | None => loop rest w' end
             end) cs v1 in
        match e2 with
        | Some y => (v2, Some y)
        | None => call v2 (mkCb (if r then KLeaveMorphism else KLeaveSeq) depth n)
        end
      end
    | _ =>
      let '(v1, e1) := call v (mkCb (enter_kind n) depth n) in
      match e1 with
      | Some x => (v1, Some x)
      | None => call v1 (mkCb (leave_kind n) depth n)
      end
    end.
End Apply.

(* Morphism.Apply(v) = code.Apply(0, v) *)
Definition visit {V E} (call : V -> cb -> V * option E) (t : ast) (v : V) : V * option E := apply V E call 0 t v.
