(* C16 - proofs: the code's append/unit (Duct/Model.v) realise the stack-of-open-contexts machine
   (Duct/Spec.v); Apply feeds the visitor the in-order word until the first error; that word is
   well-bracketed. *)
From Coq Require Import List ZArith Bool Lia.
From Golem Require Import Duct.Ast Duct.Spec Duct.Model.
Import ListNotations.

(* ---- induction over trees whose children are lists of trees ---- *)
Lemma ast_ind' (P : ast -> Prop)
  (HF : forall t s, P (AFrom t s)) (HM : forall a b f, P (AMap a b f)) (HY : forall t x, P (AYield t x))
  (HS : forall r d cs, Forall P cs -> P (ASeq r d cs)) : forall n, P n.
Proof.
  fix IH 1. intros [t s | a b f | t x | r d cs].
  - apply HF.
  - apply HM.
  - apply HY.
  - apply HS. induction cs as [|x cs IHcs]; constructor; [apply IH | exact IHcs].
Qed.

(* ---- append / unit: the loops over the children, named ---- *)
Section AppGo.
  Variable n : ast.
  Fixpoint app_go (l : list ast) : list ast :=
    match l with
    | [] => [n]
    | x :: rest =>
      match rest with
      | [] => match append x n with Some x' => [x'] | None => [x; n] end
      | _ => x :: app_go rest
      end
    end.
End AppGo.

Fixpoint unit_go (l : list ast) : option (list ast) :=
  match l with
  | [] => None
  | x :: rest =>
    match rest with
    | [] => match unit x with Some x' => Some [x'] | None => None end
    | _ => match unit_go rest with Some rest' => Some (x :: rest') | None => None end
    end
  end.

Lemma append_seq : forall r d cs n,
  append (ASeq r d cs) n = if d then Some (ASeq r d (app_go n cs)) else None.
Proof. intros r d cs n. destruct d; reflexivity. Qed.

Lemma unit_seq : forall r d cs,
  unit (ASeq r d cs) =
  if d then match unit_go cs with
            | Some cs' => Some (ASeq r d cs')
            | None => Some (ASeq r (if r then d else false) cs)
            end
  else None.
Proof. intros r d cs. destruct d; reflexivity. Qed.

(* a node that is not an open context: append/unit on it report false *)
Definition closed (n : ast) : Prop := match n with ASeq _ d _ => d = false | _ => True end.

Lemma append_closed : forall x n, closed x -> append x n = None.
Proof. intros [t s | a b f | t y | r d cs] n C; try reflexivity. cbn in C. subst d. reflexivity. Qed.
Lemma unit_closed : forall x, closed x -> unit x = None.
Proof. intros [t s | a b f | t y | r d cs] C; try reflexivity. cbn in C. subst d. reflexivity. Qed.

Lemma app_go_last : forall n f x,
  app_go n (f ++ [x]) = f ++ match append x n with Some x' => [x'] | None => [x; n] end.
Proof.
  intros n f x. induction f as [|y f IH]; [reflexivity|].
  cbn [app]. cbn [app_go]. destruct (f ++ [x]) as [|z rest] eqn:E.
  - destruct f; discriminate E.
  - rewrite IH. reflexivity.
Qed.

Lemma app_go_closed : forall n f, Forall closed f -> app_go n f = f ++ [n].
Proof.
  intros n f F. destruct f as [|y f] using rev_ind; [reflexivity|].
  rewrite app_go_last. apply Forall_app in F. destruct F as [_ Fy]. inversion Fy; subst.
  rewrite append_closed by assumption. rewrite <- app_assoc. reflexivity.
Qed.

Lemma unit_go_last : forall f x,
  unit_go (f ++ [x]) = match unit x with Some x' => Some (f ++ [x']) | None => None end.
Proof.
  intros f x. induction f as [|y f IH]; [cbn; destruct (unit x); reflexivity|].
  cbn [app]. cbn [unit_go]. destruct (f ++ [x]) as [|z rest] eqn:E.
  - destruct f; discriminate E.
  - rewrite IH. destruct (unit x); reflexivity.
Qed.

Lemma unit_go_closed : forall f, Forall closed f -> unit_go f = None.
Proof.
  intros f F. destruct f as [|y f] using rev_ind; [reflexivity|].
  rewrite unit_go_last. apply Forall_app in F. destruct F as [_ Fy]. inversion Fy; subst.
  rewrite unit_closed by assumption. reflexivity.
Qed.

(* the innermost open context, all of whose children are closed *)
Lemma append_base : forall b cs n, Forall closed cs -> append (ASeq b true cs) n = Some (ASeq b true (cs ++ [n])).
Proof. intros b cs n F. rewrite append_seq, app_go_closed by exact F. reflexivity. Qed.

Lemma unit_base : forall b cs, Forall closed cs ->
  unit (ASeq b true cs) = Some (ASeq b (if b then true else false) cs).
Proof. intros b cs F. rewrite unit_seq, unit_go_closed by exact F. reflexivity. Qed.

(* both methods walk down the last-child spine of open contexts: whatever they do to the innermost
   one happens inside the enclosing ones *)
Lemma append_plug : forall c x x' n, append x n = Some x' -> append (plug x c) n = Some (plug x' c).
Proof.
  induction c as [|p c IH]; intros x x' n H; [exact H|].
  cbn [plug]. apply IH. rewrite append_seq, app_go_last, H. reflexivity.
Qed.

Lemma unit_plug : forall c x x', unit x = Some x' -> unit (plug x c) = Some (plug x' c).
Proof.
  induction c as [|p c IH]; intros x x' H; [exact H|].
  cbn [plug]. apply IH. rewrite unit_seq, unit_go_last, H. reflexivity.
Qed.

(* ---- the invariant of the stack machine: everything already collected is closed ---- *)
Definition sinv (s : sstate) : Prop := Forall closed (cur s) /\ Forall (Forall closed) (ctx s).

Lemma sinv_init : forall a src, sinv (s_init a src).
Proof. intros a src. split; repeat constructor. Qed.

Lemma sinv_step : forall s o, sinv s -> sinv (s_step s o).
Proof.
  intros [cu cx] o [Hc Hx]. cbn [cur ctx] in Hc, Hx.
  destruct o as [b c f | b c f | b | b | b t]; unfold s_step, s_leaf, s_open, s_close, sinv; cbn [cur ctx].
  - split; [apply Forall_app; split; [exact Hc | repeat constructor] | exact Hx].
  - split; [repeat constructor | constructor; assumption].
  - split; [constructor | constructor; assumption].
  - destruct cx as [|p cx']; cbn [cur ctx]; [split; assumption|].
    inversion Hx; subst. split; [|assumption]. apply Forall_app. split; [assumption | repeat constructor].
  - split; [apply Forall_app; split; [exact Hc | repeat constructor] | exact Hx].
Qed.

Lemma do_append_tree : forall s n, sinv s -> do_append (s_tree s) n = s_tree (mkS (cur s ++ [n]) (ctx s)).
Proof.
  intros s n [Hc _]. unfold do_append, s_tree. cbn [cur ctx].
  rewrite (append_plug _ _ _ _ (append_base _ _ n Hc)). reflexivity.
Qed.

(* one step of the code = one step of the stack machine *)
Lemma step_spec : forall s o, sinv s -> m_step (s_tree s) o = s_tree (s_step s o).
Proof.
  intros s o I. destruct o as [b c f | b c f | b | b | b t]; unfold m_step, s_step.
  - apply do_append_tree. exact I.
  - rewrite do_append_tree by exact I. reflexivity.
  - rewrite do_append_tree by exact I. reflexivity.
  - destruct I as [Hc _]. unfold do_unit, s_tree, s_close. destruct s as [cu cx]. cbn [cur ctx] in *.
    destruct cx as [|p cx'].
    + cbn [plug is_nil cur ctx]. rewrite unit_base by exact Hc. reflexivity.
    + cbn [is_nil]. rewrite (unit_plug _ _ _ (unit_base false _ Hc)). reflexivity.
  - apply do_append_tree. exact I.
Qed.

Lemma steps_spec : forall ops s, sinv s -> fold_left m_step ops (s_tree s) = s_tree (fold_left s_step ops s).
Proof.
  induction ops as [|o r IH]; intros s I; [reflexivity|].
  cbn [fold_left]. rewrite step_spec by exact I. apply IH. apply sinv_step. exact I.
Qed.

(* build_spec: for EVERY program (typing is not even needed) the tree built by the code's append/unit is the
   tree the stack of open contexts describes *)
Lemma build_spec : forall p, build p = spec_tree p.
Proof.
  intros p. unfold build, spec_tree, s_run.
  change (m_from (p_a p) (p_src p)) with (s_tree (s_init (p_a p) (p_src p))).
  apply steps_spec. apply sinv_init.
Qed.

(* ---- exactly one root ---- *)
Definition noroots (l : list ast) : Prop := list_sum (map count_roots l) = 0.
Definition rinv (s : sstate) : Prop := noroots (cur s) /\ Forall noroots (ctx s).

Lemma noroots_app : forall a b, noroots a -> noroots b -> noroots (a ++ b).
Proof. intros a b A B. unfold noroots in *. rewrite map_app, list_sum_app. lia. Qed.

Lemma rinv_step : forall s o, rinv s -> rinv (s_step s o).
Proof.
  intros [cu cx] o [Hc Hx]. cbn [cur ctx] in Hc, Hx.
  destruct o as [b c f | b c f | b | b | b t]; unfold s_step, s_leaf, s_open, s_close, rinv; cbn [cur ctx].
  - split; [apply noroots_app; [exact Hc | reflexivity] | exact Hx].
  - split; [reflexivity | constructor; assumption].
  - split; [reflexivity | constructor; assumption].
  - destruct cx as [|p cx']; cbn [cur ctx]; [split; assumption|].
    inversion Hx; subst. split; [|assumption]. apply noroots_app; [assumption|].
    unfold noroots in *. cbn. fold (map count_roots cu). lia.
  - split; [apply noroots_app; [exact Hc | reflexivity] | exact Hx].
Qed.

Lemma rinv_run : forall ops s, rinv s -> rinv (fold_left s_step ops s).
Proof. induction ops as [|o r IH]; intros s I; [exact I|]. cbn [fold_left]. apply IH, rinv_step, I. Qed.

Lemma count_plug : forall c x, Forall noroots c ->
  count_roots (plug x c) = count_roots x + (if is_nil c then 0 else 1).
Proof.
  induction c as [|p c IH]; intros x F; [cbn; lia|].
  inversion F as [|p' c' Hp Hc]; subst. cbn [plug is_nil]. rewrite IH by exact Hc.
  cbn [count_roots]. rewrite map_app, list_sum_app. unfold noroots in Hp. rewrite Hp. cbn [map]. change (list_sum [count_roots x]) with (count_roots x + 0).
  destruct c; cbn [is_nil]; lia.
Qed.

Lemma one_root : forall p, count_roots (spec_tree p) = 1.
Proof.
  intros p. unfold spec_tree, s_run.
  assert (I : rinv (fold_left s_step (p_ops p) (s_init (p_a p) (p_src p)))) by (apply rinv_run; split; [reflexivity | constructor]).
  destruct I as [Hc Hx]. unfold s_tree. rewrite count_plug by exact Hx. cbn [count_roots]. unfold noroots in Hc. rewrite Hc.
  destruct (ctx _); cbn [is_nil]; lia.
Qed.

Lemma plug_is_root : forall c cs, exists cs', plug (ASeq (is_nil c) true cs) c = ASeq true true cs'.
Proof.
  induction c as [|p c IH]; intros cs; [exists cs; reflexivity|].
  cbn [plug]. apply IH.
Qed.

Lemma root_on_top : forall p, exists cs, spec_tree p = ASeq true true cs.
Proof. intros p. unfold spec_tree, s_tree. apply plug_is_root. Qed.

(* ---- Apply ---- *)
Section Visit.
  Variables (V E : Type) (call : V -> cb -> V * option E).

  Section ApplyList.
    Variable depth : nat.
    Fixpoint apply_list (l : list ast) (w : V) : V * option E :=
      match l with
      | [] => (w, None)
      | x :: rest => let '(w', e) := apply V E call depth x w in
                     match e with Some y => (w', Some y) | None => apply_list rest w' end
      end.
  End ApplyList.

  Lemma apply_seq : forall r df cs depth v,
    apply V E call depth (ASeq r df cs) v =
    let '(v1, e1) := call v (mkCb (if r then KEnterMorphism else KEnterSeq) depth (ASeq r df cs)) in
    match e1 with
    | Some x => (v1, Some x)
    | None => let '(v2, e2) := apply_list (S depth) cs v1 in
              match e2 with
              | Some y => (v2, Some y)
              | None => call v2 (mkCb (if r then KLeaveMorphism else KLeaveSeq) depth (ASeq r df cs))
              end
    end.
  Proof. reflexivity. Qed.

  Lemma feed_app : forall w1 w2 v,
    feed V E call v (w1 ++ w2) =
    let '(v', e) := feed V E call v w1 in match e with Some x => (v', Some x) | None => feed V E call v' w2 end.
  Proof.
    induction w1 as [|c r IH]; intros w2 v; [reflexivity|].
    cbn [app feed]. destruct (call v c) as [v' [x|]]; [reflexivity | apply IH].
  Qed.

  (* Apply hands the visitor the in-order word of the tree, callback by callback, until the first error *)
  Lemma apply_feed : forall n depth v, apply V E call depth n v = feed V E call v (flatten depth n).
  Proof.
    induction n as [t s | a b f | t x | r df cs IH] using ast_ind'; intros depth v.
    - cbn. destruct (call v _) as [v1 [e|]]; [reflexivity|]. destruct (call v1 _) as [v2 [e|]]; reflexivity.
    - cbn. destruct (call v _) as [v1 [e|]]; [reflexivity|]. destruct (call v1 _) as [v2 [e|]]; reflexivity.
    - cbn. destruct (call v _) as [v1 [e|]]; [reflexivity|]. destruct (call v1 _) as [v2 [e|]]; reflexivity.
    - rewrite apply_seq. cbn [flatten feed].
      replace (enter_kind (ASeq r df cs)) with (if r then KEnterMorphism else KEnterSeq) by (destruct r; reflexivity).
      replace (leave_kind (ASeq r df cs)) with (if r then KLeaveMorphism else KLeaveSeq) by (destruct r; reflexivity).
      destruct (call v _) as [v1 [e|]]; [reflexivity|].
      rewrite feed_app.
      assert (L : forall w, apply_list (S depth) cs w = feed V E call w (flat_map (flatten (S depth)) cs)).
      { clear v v1. induction IH as [|x cs Hx _ IHcs]; intros w; [reflexivity|].
        cbn [apply_list flat_map]. rewrite feed_app, Hx.
        destruct (feed V E call w (flatten (S depth) x)) as [w' [e|]]; [reflexivity | apply IHcs]. }
      rewrite <- L. destruct (apply_list (S depth) cs v1) as [v2 [e|]]; [reflexivity|].
      cbn [feed]. destruct (call v2 _) as [v3 [e|]]; reflexivity.
  Qed.
End Visit.

(* the recording visitor failing at callback j *)
Lemma feed_rec : forall E (e : E) j w hist, length hist <= j ->
  feed (list cb) E (rec_call j e) hist w =
  if j - length hist <? length w then (hist ++ firstn (S (j - length hist)) w, Some e) else (hist ++ w, None).
Proof.
  intros E e j. induction w as [|c r IH]; intros hist L.
  - cbn [feed length]. replace (j - length hist <? 0) with false by (symmetry; apply Nat.ltb_ge; lia).
    rewrite app_nil_r. reflexivity.
  - cbn [feed]. unfold rec_call at 1. destruct (Nat.eqb_spec (length hist) j) as [Ej|Nj].
    + replace (j - length hist) with 0 by lia. cbn. reflexivity.
    + rewrite IH by (rewrite app_length; cbn; lia). rewrite app_length. cbn [length].
      replace (j - length hist) with (S (j - (length hist + 1))) by lia.
      destruct (Nat.ltb_spec (j - (length hist + 1)) (length r)) as [Hl|Hl].
      * replace (S (j - (length hist + 1)) <? S (length r)) with true by (symmetry; apply Nat.ltb_lt; lia).
        cbn [firstn]. rewrite <- app_assoc. reflexivity.
      * replace (S (j - (length hist + 1)) <? S (length r)) with false by (symmetry; apply Nat.ltb_ge; lia).
        rewrite <- app_assoc. reflexivity.
Qed.

(* visit_first_error: a visitor that fails at callback j sees exactly the first j+1 callbacks of the full
   word and its error is what Apply returns; one that never fails sees the whole word and gets nil *)
Lemma visit_first_error : forall E (e : E) t j,
  visit (rec_call j e) t [] =
  if j <? length (flatten 0 t) then (firstn (S j) (flatten 0 t), Some e) else (flatten 0 t, None).
Proof.
  intros E e t j. unfold visit. rewrite apply_feed, feed_rec by (cbn; lia). cbn [length app].
  rewrite Nat.sub_0_r. reflexivity.
Qed.

(* ---- the word is well-bracketed ---- *)
Definition top_ok (st : list cb) (d : nat) : Prop := match st with [] => True | e :: _ => d = S (cdepth e) end.

Lemma enter_is_enter : forall n, is_enter (enter_kind n) = true.
Proof. intros [t s | a b f | t x | [|] d cs]; reflexivity. Qed.
Lemma leave_not_enter : forall n, is_enter (leave_kind n) = false.
Proof. intros [t s | a b f | t x | [|] d cs]; reflexivity. Qed.
Lemma leave_of_enter : forall n, leave_kind n = leave_of (enter_kind n).
Proof. intros [t s | a b f | t x | [|] d cs]; reflexivity. Qed.

Lemma balanced_flatten : forall n d st w, top_ok st d -> balanced st w -> balanced st (flatten d n ++ w).
Proof.
  induction n as [t s | a b f | t x | r df cs IH] using ast_ind'; intros d st w T B.
  - cbn. split; [exact T|]. repeat split. exact B.
  - cbn. split; [exact T|]. repeat split. exact B.
  - cbn. split; [exact T|]. repeat split. exact B.
  - cbn [flatten]. set (n := ASeq r df cs). cbn [app balanced ck]. rewrite enter_is_enter.
    split; [exact T|]. rewrite <- app_assoc.
    assert (K : forall (e0 : cb) w', cdepth e0 = d -> balanced (e0 :: st) w' ->
                balanced (e0 :: st) (flat_map (flatten (S d)) cs ++ w')).
    { clear n. intros e0 w' Hd. revert w'. induction IH as [|x cs' Hx _ IHcs]; intros w' B'; [exact B'|].
      cbn [flat_map]. rewrite <- app_assoc. apply Hx; [cbn; rewrite Hd; reflexivity|]. apply IHcs. exact B'. }
    apply K; [reflexivity|]. cbn [app balanced ck]. rewrite leave_not_enter. cbn [cdepth cnode ck].
    repeat split; [apply leave_of_enter | exact B].
Qed.

(* visit_bracketed: the callback word of a visit of ANY tree at any depth obeys the stack discipline -
   each leave matches the latest open enter (same node, same depth, matching kind), each enter is one
   level deeper than the callback it is nested in *)
Lemma visit_bracketed : forall n d, balanced [] (flatten d n).
Proof.
  intros n d. rewrite <- (app_nil_r (flatten d n)). apply balanced_flatten; [exact I | reflexivity].
Qed.

(* ... and the children of a sequence node are visited in order, between its enter and its leave *)
Lemma flatten_seq : forall r df cs d,
  flatten d (ASeq r df cs) =
  mkCb (enter_kind (ASeq r df cs)) d (ASeq r df cs) ::
    flat_map (flatten (S d)) cs ++ [mkCb (leave_kind (ASeq r df cs)) d (ASeq r df cs)].
Proof. reflexivity. Qed.

(* ---- the declared steps, in order ---- *)
Fixpoint leaves (n : ast) : list ast :=
  match n with ASeq _ _ cs => flat_map leaves cs | x => [x] end.

(* the node a step declares, if it declares one (WrapF and Unit only open / close a context) *)
Definition declared (o : op) : list ast :=
  match o with
  | OJoin b c f => [map_node b c f]
  | OLiftF b c f => [map_node b c f]
  | OYield b t => [yield_node b t]
  | OWrapF _ | OUnit _ => []
  end.

Definition ctx_leaves (c : list (list ast)) : list ast :=
  fold_right (fun p acc => acc ++ flat_map leaves p) [] c.
Definition s_leaves (s : sstate) : list ast := ctx_leaves (ctx s) ++ flat_map leaves (cur s).

Lemma leaves_plug : forall c x, leaves (plug x c) = ctx_leaves c ++ leaves x.
Proof.
  induction c as [|p c IH]; intros x; [reflexivity|].
  cbn [plug]. rewrite IH. cbn [leaves ctx_leaves fold_right]. rewrite flat_map_app. cbn [flat_map].
  rewrite app_nil_r, <- app_assoc. reflexivity.
Qed.

Lemma s_tree_leaves : forall s, leaves (s_tree s) = s_leaves s.
Proof. intros s. unfold s_tree. rewrite leaves_plug. reflexivity. Qed.

Lemma s_leaves_step : forall s o, s_leaves (s_step s o) = s_leaves s ++ declared o.
Proof.
  intros [cu cx] o. destruct o as [b c f | b c f | b | b | b t];
    unfold s_step, s_leaf, s_open, s_close, s_leaves; cbn [cur ctx declared].
  - rewrite flat_map_app, app_assoc. reflexivity.
  - cbn [ctx_leaves fold_right flat_map leaves map_node]. rewrite app_nil_r. reflexivity.
  - cbn [ctx_leaves fold_right flat_map]. rewrite !app_nil_r. reflexivity.
  - destruct cx as [|p cx']; cbn [cur ctx]; [rewrite app_nil_r; reflexivity|].
    cbn [ctx_leaves fold_right]. rewrite flat_map_app. cbn [flat_map leaves]. rewrite !app_nil_r, !app_assoc. reflexivity.
  - rewrite flat_map_app, app_assoc. reflexivity.
Qed.

Lemma s_leaves_run : forall ops s, s_leaves (fold_left s_step ops s) = s_leaves s ++ flat_map declared ops.
Proof.
  induction ops as [|o r IH]; intros s; [cbn; rewrite app_nil_r; reflexivity|].
  cbn [fold_left flat_map]. rewrite IH, s_leaves_step, <- app_assoc. reflexivity.
Qed.

(* read in visiting order, the leaves of the tree are the From node followed by the nodes the steps
   declare, in program order, each with typeName of ITS step's type parameters *)
Lemma steps_in_order : forall p, leaves (spec_tree p) = from_node (p_a p) (p_src p) :: flat_map declared (p_ops p).
Proof. intros p. unfold spec_tree, s_run. rewrite s_tree_leaves, s_leaves_run. reflexivity. Qed.
