(* C16 - data shared by the specification and the model of /repo/duct: Go types and their normalised
   names (duct.TypeOf), the AST (ast.go), visitor callbacks, combinator programs and their typing.
   Definitions only. *)
From Coq Require Import List ZArith Bool String.
Import ListNotations.

(* the Go types a program may mention *)
Inductive ty := TNamed (s : string) | TSlice (t : ty) | TPtr (t : ty).

(* duct.go: typeName - "*"+elem for pointers, "[]"+elem for slices, t.Name() otherwise *)
Fixpoint typeName (t : ty) : string :=
  match t with
  | TNamed s => s
  | TSlice e => String.append "[]" (typeName e)
  | TPtr e => String.append "*" (typeName e)
  end.

Fixpoint ty_eqb (a b : ty) : bool :=
  match a, b with
  | TNamed x, TNamed y => String.eqb x y
  | TSlice x, TSlice y => ty_eqb x y
  | TPtr x, TPtr y => ty_eqb x y
  | _, _ => false
  end.

Definition TVoid : ty := TNamed "Void".     (* type Void any *)

(* ast.go: AstFrom{Type, Source} AstMap{TypeA, TypeB, F} AstYield{Type, Target} AstSeq{Root, Deferred, Seq}.
   The opaque payloads (Source, F, Target : any) are identified by a number. *)
Inductive ast :=
| AFrom (type : string) (src : Z)
| AMap (ta tb : string) (f : Z)
| AYield (type : string) (tgt : Z)
| ASeq (root deferred : bool) (children : list ast).

(* the ten callbacks of duct.Visitor *)
Inductive kind :=
| KEnterMorphism | KLeaveMorphism | KEnterSeq | KLeaveSeq | KEnterMap | KLeaveMap
| KEnterFrom | KLeaveFrom | KEnterYield | KLeaveYield.

Record cb := mkCb { ck : kind; cdepth : nat; cnode : ast }.

Definition enter_kind (n : ast) : kind :=
  match n with
  | AFrom _ _ => KEnterFrom | AMap _ _ _ => KEnterMap | AYield _ _ => KEnterYield
  | ASeq true _ _ => KEnterMorphism | ASeq false _ _ => KEnterSeq
  end.
Definition leave_kind (n : ast) : kind :=
  match n with
  | AFrom _ _ => KLeaveFrom | AMap _ _ _ => KLeaveMap | AYield _ _ => KLeaveYield
  | ASeq true _ _ => KLeaveMorphism | ASeq false _ _ => KLeaveSeq
  end.
Definition is_enter (k : kind) : bool :=
  match k with KEnterMorphism | KEnterSeq | KEnterMap | KEnterFrom | KEnterYield => true | _ => false end.
Definition leave_of (k : kind) : kind :=
  match k with
  | KEnterMorphism => KLeaveMorphism | KEnterSeq => KLeaveSeq | KEnterMap => KLeaveMap
  | KEnterFrom => KLeaveFrom | KEnterYield => KLeaveYield | x => x
  end.

Definition children (n : ast) : list ast := match n with ASeq _ _ cs => cs | _ => [] end.

(* the callback word of a visit: enter the node, its children in order one level deeper, leave the node *)
Fixpoint flatten (d : nat) (n : ast) : list cb :=
  mkCb (enter_kind n) d n ::
  match n with ASeq _ _ cs => flat_map (flatten (S d)) cs | _ => [] end ++ [mkCb (leave_kind n) d n].

(* combinator programs: From[A](src) followed by steps, each carrying its Go type parameters
   (A is the same for every step and is not recorded by any of them) *)
Inductive op :=
| OJoin (b c : ty) (f : Z)        (* Join[A,B,C](f F[B,C], m Morphism[A,B])   : Morphism[A,C] *)
| OLiftF (b c : ty) (f : Z)       (* LiftF[A,B,C](f F[B,C], m Morphism[A,[]B]) : Morphism[A,C] *)
| OWrapF (b : ty)                 (* WrapF[A,B](m Morphism[A,[]B])             : Morphism[A,B] *)
| OUnit (b : ty)                  (* Unit[A,B](m Morphism[A,B])                : Morphism[A,[]B] *)
| OYield (b : ty) (t : Z).        (* Yield[A,B](t T[B], m Morphism[A,B])       : Morphism[A,Void] *)

Record program := mkProg { p_a : ty; p_src : Z; p_ops : list op }.

(* Go's typing of one step: the B of the morphism so far must be the type the step expects *)
Definition type_step (cur : ty) (o : op) : option ty :=
  match o with
  | OJoin b c _ => if ty_eqb cur b then Some c else None
  | OLiftF b c _ => if ty_eqb cur (TSlice b) then Some c else None
  | OWrapF b => if ty_eqb cur (TSlice b) then Some b else None
  | OUnit b => if ty_eqb cur b then Some (TSlice b) else None
  | OYield b _ => if ty_eqb cur b then Some TVoid else None
  end.
Fixpoint typed_from (cur : ty) (ops : list op) : bool :=
  match ops with
  | [] => true
  | o :: r => match type_step cur o with Some t => typed_from t r | None => false end
  end.
Definition well_typed (p : program) : bool := typed_from (p_a p) (p_ops p).

(* the AST node a step declares (type names = duct.TypeOf of its type parameters) *)
Definition map_node (b c : ty) (f : Z) : ast := AMap (typeName b) (typeName c) f.
Definition yield_node (b : ty) (t : Z) : ast := AYield (typeName b) t.
Definition from_node (a : ty) (s : Z) : ast := AFrom (typeName a) s.
