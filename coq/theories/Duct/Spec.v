(* C16 - the specification: an explicit STACK OF OPEN CONTEXTS.
   [cur] holds the children of the innermost still-open context, [ctx] the children collected so far by
   the enclosing open contexts, nearest first; the last one is the root morphism.
     Join / Yield   : the step's node lands in the innermost open context
     LiftF / WrapF  : a new nested context is opened there (LiftF: with its Map node inside)
     Unit           : the innermost open nested context is closed; nothing happens if only the root is open
   Definitions only. *)
From Coq Require Import List ZArith Bool String.
From Golem Require Import Duct.Ast.
Import ListNotations.

Record sstate := mkS { cur : list ast; ctx : list (list ast) }.

Definition s_leaf (n : ast) (s : sstate) : sstate := mkS (cur s ++ [n]) (ctx s).
Definition s_open (g : list ast) (s : sstate) : sstate := mkS g (cur s :: ctx s).
Definition s_close (s : sstate) : sstate :=
  match ctx s with
  | p :: c => mkS (p ++ [ASeq false false (cur s)]) c
  | [] => s
  end.

Definition s_step (s : sstate) (o : op) : sstate :=
  match o with
  | OJoin b c f => s_leaf (map_node b c f) s
  | OLiftF b c f => s_open [map_node b c f] s
  | OWrapF _ => s_open [] s
  | OUnit _ => s_close s
  | OYield b t => s_leaf (yield_node b t) s
  end.

Definition s_init (a : ty) (src : Z) : sstate := mkS [from_node a src] [].

Definition is_nil {A} (l : list A) : bool := match l with [] => true | _ => false end.

(* the tree a stack stands for: every open context is the LAST child of the one enclosing it,
   the outermost one is the root morphism, open contexts are flagged Deferred *)
Fixpoint plug (x : ast) (c : list (list ast)) : ast :=
  match c with
  | [] => x
  | p :: c' => plug (ASeq (is_nil c') true (p ++ [x])) c'
  end.
Definition s_tree (s : sstate) : ast := plug (ASeq (is_nil (ctx s)) true (cur s)) (ctx s).

Definition s_run (p : program) : sstate := fold_left s_step (p_ops p) (s_init (p_a p) (p_src p)).
Definition spec_tree (p : program) : ast := s_tree (s_run p).

(* number of nodes flagged Root *)
Fixpoint count_roots (n : ast) : nat :=
  match n with
  | ASeq r _ cs => (if r then 1 else 0) + list_sum (map count_roots cs)
  | _ => 0
  end.

(* well-bracketedness of a callback word, as a stack discipline: an enter is one level deeper than the
   callback it is nested in; a leave closes the most recent open enter - same node, same depth, matching kind *)
Fixpoint balanced (stack : list cb) (w : list cb) : Prop :=
  match w with
  | [] => stack = []
  | c :: r =>
    if is_enter (ck c) then
      match stack with [] => True | e :: _ => cdepth c = S (cdepth e) end /\ balanced (c :: stack) r
    else
      match stack with
      | e :: st => cdepth c = cdepth e /\ cnode c = cnode e /\ ck c = leave_of (ck e) /\ balanced st r
      | [] => False
      end
  end.

(* a visitor: any state, any error type; [call] is one callback *)
Section Feed.
  Variables (V E : Type) (call : V -> cb -> V * option E).
  (* handing a word to the visitor callback by callback until the first error *)
  Fixpoint feed (v : V) (w : list cb) : V * option E :=
    match w with
    | [] => (v, None)
    | c :: r => let '(v', e) := call v c in
                match e with Some x => (v', Some x) | None => feed v' r end
    end.
End Feed.

(* the recording visitor that fails with error [e] at its callback number j (from 0) *)
Definition rec_call {E} (j : nat) (e : E) (hist : list cb) (c : cb) : list cb * option E :=
  (hist ++ [c], if Nat.eqb (List.length hist) j then Some e else None).
