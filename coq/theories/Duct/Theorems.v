(* C16 - the statements of Properties/C16.v, assembled from Duct/Proofs.v. *)
From Coq Require Import List ZArith Bool Lia.
From Golem Require Import Duct.Ast Duct.Spec Duct.Model Duct.Proofs.
Import ListNotations.

Lemma thm_build_spec : forall p, build p = spec_tree p.
Proof. exact build_spec. Qed.

Lemma thm_build_spec_typed : forall p, well_typed p = true -> build p = spec_tree p.
Proof. intros p _. apply build_spec. Qed.

Lemma thm_one_root : forall p, count_roots (build p) = 1 /\ exists cs, build p = ASeq true true cs.
Proof. intros p. rewrite build_spec. split; [apply one_root | apply root_on_top]. Qed.

Lemma thm_steps_in_order : forall p,
  leaves (build p) = from_node (p_a p) (p_src p) :: flat_map declared (p_ops p).
Proof. intros p. rewrite build_spec. apply steps_in_order. Qed.

Lemma thm_visit_feed : forall (V E : Type) (call : V -> cb -> V * option E) t v,
  visit call t v = feed V E call v (flatten 0 t).
Proof. intros V E call t v. unfold visit. apply apply_feed. Qed.

Lemma thm_visit_bracketed : forall t d, balanced [] (flatten d t).
Proof. exact visit_bracketed. Qed.

Lemma thm_visit_children : forall r df cs d,
  flatten d (ASeq r df cs) =
  mkCb (enter_kind (ASeq r df cs)) d (ASeq r df cs) ::
    flat_map (flatten (S d)) cs ++ [mkCb (leave_kind (ASeq r df cs)) d (ASeq r df cs)].
Proof. exact flatten_seq. Qed.

Lemma thm_visit_first_error : forall E (e : E) t j,
  visit (rec_call j e) t [] =
  if j <? length (flatten 0 t) then (firstn (S j) (flatten 0 t), Some e) else (flatten 0 t, None).
Proof. exact visit_first_error. Qed.
