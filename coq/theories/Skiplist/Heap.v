(* C18 - elementary facts about the heap operations of Skiplist/Model.v
   (read-after-write for set_finger / set_val / allocation), chains of fingers. *)
From Coq Require Import List ZArith Bool Arith Lia.
From Golem Require Import Skiplist.Model.
Import ListNotations.

(* ------------------------------------------------------------------ upd *)
Lemma upd_length {A} (f : A -> A) : forall l i, length (upd i f l) = length l.
Proof. induction l as [|x r IH]; intros [|i]; cbn; auto. Qed.

Lemma nth_upd_same {A} (f : A -> A) (d : A) : forall l i, i < length l -> nth i (upd i f l) d = f (nth i l d).
Proof.
  induction l as [|x r IH]; intros [|i] Hi; cbn in *; try lia; auto.
  apply IH; lia.
Qed.

Lemma nth_upd_other {A} (f : A -> A) (d : A) : forall l i j, i <> j -> nth j (upd i f l) d = nth j l d.
Proof.
  induction l as [|x r IH]; intros [|i] [|j] Hij; cbn; auto; try lia.
Qed.

Lemma upd_oob {A} (f : A -> A) : forall l i, length l <= i -> upd i f l = l.
Proof.
  induction l as [|x r IH]; intros [|i] Hi; cbn in *; auto; try lia.
  f_equal. apply IH. lia.
Qed.

(* ------------------------------------------------------------------ set_finger *)
Lemma length_set_finger n L v h : length (set_finger n L v h) = length h.
Proof. apply upd_length. Qed.

Lemma getn_set_finger_other n L v h m : m <> n -> getn (set_finger n L v h) m = getn h m.
Proof. intros Hm. unfold getn, set_finger. apply nth_upd_other. auto. Qed.

Lemma getn_set_finger_same n L v h : n < length h ->
  getn (set_finger n L v h) n = mkN (key (getn h n)) (val (getn h n)) (upd L (fun _ => v) (fingers (getn h n))).
Proof. intros Hn. unfold getn, set_finger. rewrite nth_upd_same by auto. reflexivity. Qed.

Lemma keyof_set_finger n L v h m : keyof (set_finger n L v h) m = keyof h m.
Proof.
  unfold keyof. destruct (Nat.eq_dec m n) as [->|Hm].
  - destruct (Nat.lt_ge_cases n (length h)) as [Hn|Hn].
    + rewrite getn_set_finger_same by auto. reflexivity.
    + unfold set_finger. rewrite upd_oob by auto. reflexivity.
  - rewrite getn_set_finger_other by auto. reflexivity.
Qed.

Lemma valof_set_finger n L v h m : valof (set_finger n L v h) m = valof h m.
Proof.
  unfold valof. destruct (Nat.eq_dec m n) as [->|Hm].
  - destruct (Nat.lt_ge_cases n (length h)) as [Hn|Hn].
    + rewrite getn_set_finger_same by auto. reflexivity.
    + unfold set_finger. rewrite upd_oob by auto. reflexivity.
  - rewrite getn_set_finger_other by auto. reflexivity.
Qed.

Lemma height_set_finger n L v h m : height (set_finger n L v h) m = height h m.
Proof.
  unfold height. destruct (Nat.eq_dec m n) as [->|Hm].
  - destruct (Nat.lt_ge_cases n (length h)) as [Hn|Hn].
    + rewrite getn_set_finger_same by auto. cbn. apply upd_length.
    + unfold set_finger. rewrite upd_oob by auto. reflexivity.
  - rewrite getn_set_finger_other by auto. reflexivity.
Qed.

Lemma finger_set_finger_same n L v h : n < length h -> L < height h n -> finger (set_finger n L v h) n L = v.
Proof.
  intros Hn HL. unfold finger. rewrite getn_set_finger_same by auto. cbn.
  rewrite nth_upd_same by exact HL. reflexivity.
Qed.

Lemma finger_set_finger_other n L v h m L' : m <> n \/ L' <> L -> finger (set_finger n L v h) m L' = finger h m L'.
Proof.
  intros Hd. unfold finger. destruct (Nat.eq_dec m n) as [->|Hm].
  - destruct Hd as [Hd|Hd]; [congruence|].
    destruct (Nat.lt_ge_cases n (length h)) as [Hn|Hn].
    + rewrite getn_set_finger_same by auto. cbn. apply nth_upd_other. auto.
    + unfold set_finger. rewrite upd_oob by auto. reflexivity.
  - rewrite getn_set_finger_other by auto. reflexivity.
Qed.

Lemma finger_oob h n L : height h n <= L -> finger h n L = None.
Proof. intros H. unfold finger. apply nth_overflow. exact H. Qed.

(* ------------------------------------------------------------------ set_val *)
Lemma length_set_val n v h : length (set_val n v h) = length h.
Proof. apply upd_length. Qed.

Lemma getn_set_val_other n v h m : m <> n -> getn (set_val n v h) m = getn h m.
Proof. intros Hm. unfold getn, set_val. apply nth_upd_other. auto. Qed.

Lemma getn_set_val_same n v h : n < length h ->
  getn (set_val n v h) n = mkN (key (getn h n)) v (fingers (getn h n)).
Proof. intros Hn. unfold getn, set_val. rewrite nth_upd_same by auto. reflexivity. Qed.

Lemma fingers_set_val n v h m : fingers (getn (set_val n v h) m) = fingers (getn h m).
Proof.
  destruct (Nat.eq_dec m n) as [->|Hm].
  - destruct (Nat.lt_ge_cases n (length h)) as [Hn|Hn].
    + rewrite getn_set_val_same by auto. reflexivity.
    + unfold set_val. rewrite upd_oob by auto. reflexivity.
  - rewrite getn_set_val_other by auto. reflexivity.
Qed.

Lemma keyof_set_val n v h m : keyof (set_val n v h) m = keyof h m.
Proof.
  unfold keyof. destruct (Nat.eq_dec m n) as [->|Hm].
  - destruct (Nat.lt_ge_cases n (length h)) as [Hn|Hn].
    + rewrite getn_set_val_same by auto. reflexivity.
    + unfold set_val. rewrite upd_oob by auto. reflexivity.
  - rewrite getn_set_val_other by auto. reflexivity.
Qed.

Lemma finger_set_val n v h m L : finger (set_val n v h) m L = finger h m L.
Proof. unfold finger. rewrite fingers_set_val. reflexivity. Qed.

Lemma height_set_val n v h m : height (set_val n v h) m = height h m.
Proof. unfold height. rewrite fingers_set_val. reflexivity. Qed.

Lemma valof_set_val_same n v h : n < length h -> valof (set_val n v h) n = v.
Proof. intros Hn. unfold valof. rewrite getn_set_val_same by auto. reflexivity. Qed.

Lemma valof_set_val_other n v h m : m <> n -> valof (set_val n v h) m = valof h m.
Proof. intros Hm. unfold valof. rewrite getn_set_val_other by auto. reflexivity. Qed.

(* ------------------------------------------------------------------ allocation *)
Lemma getn_alloc_old h x m : m < length h -> getn (h ++ [x]) m = getn h m.
Proof. intros Hm. unfold getn. apply app_nth1. exact Hm. Qed.

Lemma getn_alloc_new h x : getn (h ++ [x]) (length h) = x.
Proof. unfold getn. rewrite app_nth2 by lia. rewrite Nat.sub_diag. reflexivity. Qed.

(* ------------------------------------------------------------------ chains *)
(* the last node of n :: l *)
Fixpoint lst (n : nat) (l : list nat) : nat := match l with [] => n | m :: r => lst m r end.

Definition ohd (l : list nat) (e : option nat) : option nat := match l with [] => e | x :: _ => Some x end.

(* following finger L from n visits exactly l, and the finger of the last node is e *)
Fixpoint chain (h : heap) (L : nat) (n : nat) (l : list nat) (e : option nat) : Prop :=
  match l with
  | [] => finger h n L = e
  | m :: r => finger h n L = Some m /\ chain h L m r e
  end.

Lemma lst_app : forall a n b, lst n (a ++ b) = lst (lst n a) b.
Proof. induction a as [|x a IH]; intros; cbn; auto. Qed.

Lemma lst_in : forall l n, lst n l = n \/ In (lst n l) l.
Proof.
  induction l as [|x l IH]; intros n; cbn; auto.
  destruct (IH x) as [H|H]; auto.
Qed.

Lemma lst_snoc : forall a n x, lst n (a ++ [x]) = x.
Proof. intros. rewrite lst_app. reflexivity. Qed.

Lemma chain_app h L : forall a n b e,
  chain h L n (a ++ b) e <-> chain h L n a (ohd b e) /\ chain h L (lst n a) b e.
Proof.
  induction a as [|x a IH]; intros n b e; cbn.
  - destruct b; cbn; tauto.
  - rewrite IH. tauto.
Qed.

Lemma chain_ext h h' L : forall l n e,
  (forall x, In x (n :: l) -> finger h' x L = finger h x L) ->
  chain h L n l e -> chain h' L n l e.
Proof.
  induction l as [|m l IH]; intros n e Hx Hc; cbn in *.
  - rewrite Hx; auto.
  - destruct Hc as [Hf Hc]. split.
    + rewrite Hx; auto.
    + apply IH; [|exact Hc]. intros x Hin. apply Hx. cbn in Hin |- *. tauto.
Qed.

(* only the finger of the last node changes *)
Lemma chain_set_last h h' L : forall l n e e',
  NoDup (n :: l) ->
  (forall x, In x (n :: l) -> x <> lst n l -> finger h' x L = finger h x L) ->
  finger h' (lst n l) L = e' ->
  chain h L n l e -> chain h' L n l e'.
Proof.
  induction l as [|m l IH]; intros n e e' Hnd Hx Hl Hc; cbn in *.
  - exact Hl.
  - destruct Hc as [Hf Hc]. apply NoDup_cons_iff in Hnd. destruct Hnd as [Hnin Hnd']. split.
    + rewrite Hx.
      * exact Hf.
      * left; reflexivity.
      * intros Heq. apply Hnin. destruct (lst_in l m) as [E|E].
        -- left. congruence.
        -- right. rewrite Heq. exact E.
    + apply IH with (e := e); [exact Hnd' | | exact Hl | exact Hc].
      intros x Hin Hne. apply Hx; [right; exact Hin | exact Hne].
Qed.

Lemma chain_length_nil h L n e : chain h L n [] e <-> finger h n L = e.
Proof. cbn. tauto. Qed.
