(* C18 - the skip-list heap refines an ordinary map under every history:
   map_refinement (answers) and print_sorted (printed form), by induction over the history
   with the representation invariant of Skiplist/Rep.v. *)
From Coq Require Import List ZArith Bool Arith Lia Sorted.
From Golem Require Import Skiplist.Model Skiplist.Heap Skiplist.Rep.
Import ListNotations.

Lemma afind_aremove k k' : forall m, afind k' (aremove k m) = if Z.eqb k' k then None else afind k' m.
Proof.
  induction m as [|[k0 v0] m IH]; cbn [aremove filter afind fst].
  - destruct (Z.eqb k' k); reflexivity.
  - fold (aremove k m). destruct (Z.eqb_spec k k0) as [E|E]; cbn [negb afind].
    + subst k0. rewrite IH. destruct (Z.eqb_spec k' k); reflexivity.
    + rewrite IH. destruct (Z.eqb_spec k' k0) as [E0|E0]; [|reflexivity].
      subst k0. destruct (Z.eqb_spec k' k); [congruence|reflexivity].
Qed.

Lemma afind_aput k v k' m : afind k' (aput k v m) = if Z.eqb k' k then Some v else afind k' m.
Proof.
  unfold aput. cbn [afind]. destruct (Z.eqb_spec k' k) as [E|E]; [reflexivity|].
  rewrite afind_aremove. destruct (Z.eqb_spec k' k); [congruence|reflexivity].
Qed.

Section Refine.
  Variable cmp : Z -> Z -> comparison.
  Variable levels : nat.
  (* the comparison trait is a total order *)
  Hypothesis cmp_eq : forall a b, cmp a b = Eq <-> a = b.
  Hypothesis cmp_anti : forall a b, cmp b a = CompOpp (cmp a b).
  Hypothesis cmp_trans : forall a b c, cmp a b = Lt -> cmp b c = Lt -> cmp a c = Lt.
  Hypothesis levels_pos : 1 <= levels.

  (* every new node gets a height mkNode can return *)
  Definition op_ok (o : op) : Prop := match o with Put _ _ ht => 1 <= ht <= levels | _ => True end.

  (* the heap stands for the map m *)
  Definition Abs (h : heap) (ns : list nat) (m : amap) : Prop :=
    Rep cmp levels h ns /\ forall k, afind k (contents h ns) = afind k m.

  Lemma empty_rep : Rep cmp levels (empty levels) [].
  Proof.
    constructor.
    - unfold empty, height, getn. cbn. rewrite repeat_length. split; [lia|reflexivity].
    - constructor.
    - constructor.
    - intros L HL. cbn. unfold finger, getn, empty. cbn. apply nth_repeat_none.
  Qed.

  Lemma empty_abs : Abs (empty levels) [] [].
  Proof. split; [exact empty_rep|]. intros k. reflexivity. Qed.

  Lemma step_abs h ns m o : Abs h ns m -> op_ok o ->
    exists ns', Abs (fst (step cmp levels h o)) ns' (fst (astep m o))
                /\ snd (step cmp levels h o) = snd (astep m o).
  Proof.
    intros [R A] Hok. destruct o as [k v ht|k|k]; cbn [step astep fst snd].
    - destruct (put_rep cmp levels cmp_eq cmp_anti cmp_trans levels_pos h ns k v ht R Hok) as (ns' & R' & A').
      exists ns'. split; [|reflexivity]. split; [exact R'|].
      intros k'. rewrite A', afind_aput, A. reflexivity.
    - exists ns. split; [split; assumption|].
      rewrite (get_spec cmp levels cmp_eq cmp_anti cmp_trans levels_pos h ns k R).
      unfold alookup. rewrite A. reflexivity.
    - destruct (remove_rep cmp levels cmp_eq cmp_anti cmp_trans levels_pos h ns k R) as (ns' & R' & Ans & A').
      exists ns'. destruct (remove cmp levels k h) as [h' a]. cbn [fst snd] in *. split.
      + split; [exact R'|]. intros k'. rewrite A', afind_aremove, A. reflexivity.
      + rewrite Ans. unfold alookup. rewrite A. reflexivity.
  Qed.

  Lemma run_abs : forall ops h ns m, Abs h ns m -> Forall op_ok ops ->
    exists ns', Abs (fst (run cmp levels h ops)) ns' (fst (arun m ops))
                /\ snd (run cmp levels h ops) = snd (arun m ops).
  Proof.
    induction ops as [|o ops IH]; intros h ns m HA Hok.
    - exists ns. split; [exact HA|reflexivity].
    - apply Forall_cons_iff in Hok. destruct Hok as [Ho Hok].
      destruct (step_abs h ns m o HA Ho) as (ns1 & HA1 & E1).
      cbn [run arun]. destruct (step cmp levels h o) as [h1 a1]. destruct (astep m o) as [m1 b1].
      cbn [fst snd] in *. destruct (IH h1 ns1 m1 HA1 Hok) as (ns2 & HA2 & E2).
      destruct (run cmp levels h1 ops) as [h2 l2]. destruct (arun m1 ops) as [m2 l2'].
      cbn [fst snd] in *. exists ns2. split; [exact HA2|]. congruence.
  Qed.

  (* map_refinement: under every history the answers are those of the ordinary map *)
  Lemma map_refinement_lemma : forall ops, Forall op_ok ops ->
    snd (run cmp levels (empty levels) ops) = snd (arun [] ops).
  Proof.
    intros ops Hok. destruct (run_abs ops _ _ _ empty_abs Hok) as (ns & _ & E). exact E.
  Qed.

  (* print_sorted: after every history the printed form is the head line followed by the live keys,
     exactly those bound in the ordinary map, strictly ascending, and every non-nil finger of a live
     node names a strictly larger live key *)
  Definition printed_ok (m : amap) (p : list (Z * list (option Z))) : Prop :=
    exists hd body,
      p = hd :: body
      /\ StronglySorted (ltk cmp) (map fst body)
      /\ (forall k, In k (map fst body) <-> afind k m <> None)
      /\ Forall (finger_ok cmp (map fst body)) body.

  Lemma afind_contents_in h ns k : afind k (contents h ns) <> None <-> In k (keys h ns).
  Proof.
    induction ns as [|n ns IH]; cbn [contents keys map afind In].
    - split; [congruence|tauto].
    - fold (contents h ns). fold (keys h ns). destruct (Z.eqb_spec k (keyof h n)) as [E|E].
      + split; [auto|congruence].
      + rewrite IH. split; [auto|]. intros [H|H]; [congruence|exact H].
  Qed.

  Lemma print_sorted_lemma : forall ops, Forall op_ok ops ->
    printed_ok (fst (arun [] ops)) (print (fst (run cmp levels (empty levels) ops))).
  Proof.
    intros ops Hok. destruct (run_abs ops _ _ _ empty_abs Hok) as (ns & [R A] & _).
    destruct (print_rep cmp levels cmp_eq levels_pos _ ns R) as (hd & body & Ep & Ek & Hf).
    exists hd, body. rewrite Ek. split; [exact Ep|]. split; [exact (rep_sorted _ _ _ _ R)|]. split; [|exact Hf].
    intros k. rewrite <- A. symmetry. apply afind_contents_in.
  Qed.
End Refine.

(* ------------------------------------------------------------------ the orders of the harness are total orders *)
Lemma cmp_nat_eq a b : cmp_nat a b = Eq <-> a = b.
Proof. apply Z.compare_eq_iff. Qed.
Lemma cmp_nat_anti a b : cmp_nat b a = CompOpp (cmp_nat a b).
Proof. apply Z.compare_antisym. Qed.
Lemma cmp_nat_trans a b c : cmp_nat a b = Lt -> cmp_nat b c = Lt -> cmp_nat a c = Lt.
Proof. unfold cmp_nat. rewrite !Z.compare_lt_iff. lia. Qed.

Lemma cmp_rev_eq a b : cmp_rev a b = Eq <-> a = b.
Proof. unfold cmp_rev. rewrite Z.compare_eq_iff. split; auto. Qed.
Lemma cmp_rev_anti a b : cmp_rev b a = CompOpp (cmp_rev a b).
Proof. apply Z.compare_antisym. Qed.
Lemma cmp_rev_trans a b c : cmp_rev a b = Lt -> cmp_rev b c = Lt -> cmp_rev a c = Lt.
Proof. unfold cmp_rev. rewrite !Z.compare_lt_iff. lia. Qed.

(* the two theorems at the orders the real list is run with *)
Lemma refinement_instances : forall levels, 1 <= levels -> forall ops, Forall (op_ok levels) ops ->
  snd (run cmp_nat levels (empty levels) ops) = snd (arun [] ops)
  /\ snd (run cmp_rev levels (empty levels) ops) = snd (arun [] ops)
  /\ printed_ok cmp_nat (fst (arun [] ops)) (print (fst (run cmp_nat levels (empty levels) ops)))
  /\ printed_ok cmp_rev (fst (arun [] ops)) (print (fst (run cmp_rev levels (empty levels) ops))).
Proof.
  intros levels Hl ops Hok. repeat split.
  - apply map_refinement_lemma; auto; [apply cmp_nat_eq|apply cmp_nat_anti|apply cmp_nat_trans].
  - apply map_refinement_lemma; auto; [apply cmp_rev_eq|apply cmp_rev_anti|apply cmp_rev_trans].
  - apply print_sorted_lemma; auto; [apply cmp_nat_eq|apply cmp_nat_anti|apply cmp_nat_trans].
  - apply print_sorted_lemma; auto; [apply cmp_rev_eq|apply cmp_rev_anti|apply cmp_rev_trans].
Qed.

(* why heights start at 1: a node without fingers is never linked, the key is lost
   (what mkNode did for Int63 values that round to p = 1.0 before the clamp) *)
Lemma put_height0_loses_key :
  snd (run cmp_nat 22 (empty 22) [Put 1 10 0; Get 1]) = [0%Z; 0%Z]
  /\ snd (arun [] [Put 1 10 0; Get 1]) = [0%Z; 10%Z].
Proof. split; reflexivity. Qed.
