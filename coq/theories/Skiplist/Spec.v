(* C18 - what the skip list is compared with: operation histories and an ordinary map from keys
   to values kept as a plain association list (no order, no heights).  Definitions only.
   Used both by the theorems (Skiplist/Refine.v, Properties/C18.v) and by the oracle of the
   correspondence run (Check/C18o.v). *)
From Coq Require Import List ZArith Bool.
Import ListNotations.
Local Open Scope Z_scope.

(* one operation of a history; [ht] is the height (number of fingers) mkNode gives the new node
   when the Put has to insert one - the ordinary map ignores it *)
Inductive op := Put (k v : Z) (ht : nat) | Get (k : Z) | Remove (k : Z).

Definition amap := list (Z * Z).

Fixpoint afind (k : Z) (m : amap) : option Z :=
  match m with
  | [] => None
  | (k', v) :: r => if Z.eqb k k' then Some v else afind k r
  end.

(* the zero value for absent keys *)
Definition alookup (k : Z) (m : amap) : Z := match afind k m with Some v => v | None => 0 end.
Definition amem (k : Z) (m : amap) : bool := match afind k m with Some _ => true | None => false end.
Definition aremove (k : Z) (m : amap) : amap := filter (fun p => negb (Z.eqb k (fst p))) m.
Definition aput (k v : Z) (m : amap) : amap := (k, v) :: aremove k m.

(* new map and the answer of the operation (Put answers nothing: 0) *)
Definition astep (m : amap) (o : op) : amap * Z :=
  match o with
  | Put k v _ => (aput k v m, 0)
  | Get k => (m, alookup k m)
  | Remove k => (aremove k m, alookup k m)
  end.

Fixpoint arun (m : amap) (ops : list op) : amap * list Z :=
  match ops with
  | [] => (m, [])
  | o :: r => let (m1, a) := astep m o in
              let (m2, l) := arun m1 r in (m2, a :: l)
  end.
