(* C18 - representation invariant of the skip-list heap and what the read-only loops compute:
   walk_spec, skip_spec (path[L] = last node of level L with key < k, candidate = first node with key >= k),
   get_spec.  The comparison is any total order (Section hypotheses). *)
From Coq Require Import List ZArith Bool Arith Lia Sorted.
From Golem Require Import Skiplist.Model Skiplist.Heap.
Import ListNotations.

(* ------------------------------------------------------------------ list facts *)
Lemma filter_all_false {A} (p : A -> bool) : forall l, Forall (fun x => p x = false) l -> filter p l = [].
Proof.
  induction l as [|x l IH]; intros H; cbn; auto.
  apply Forall_cons_iff in H. destruct H as [Hx Hl]. rewrite Hx. auto.
Qed.

Lemma filter_all_true {A} (p : A -> bool) : forall l, Forall (fun x => p x = true) l -> filter p l = l.
Proof.
  induction l as [|x l IH]; intros H; cbn; auto.
  apply Forall_cons_iff in H. destruct H as [Hx Hl]. rewrite Hx. f_equal. auto.
Qed.

Lemma SS_app_r {A} (R : A -> A -> Prop) : forall a b, StronglySorted R (a ++ b) -> StronglySorted R b.
Proof.
  induction a as [|x a IH]; intros b H; cbn in *; auto.
  apply StronglySorted_inv in H. destruct H as [H _]. auto.
Qed.

Lemma SS_app_l {A} (R : A -> A -> Prop) : forall a b, StronglySorted R (a ++ b) -> StronglySorted R a.
Proof.
  induction a as [|x a IH]; intros b H; cbn in *.
  - constructor.
  - apply StronglySorted_inv in H. destruct H as [H Hx]. constructor.
    + eapply IH; eauto.
    + apply Forall_app in Hx. tauto.
Qed.

Lemma SS_app_cross {A} (R : A -> A -> Prop) : forall a b x y,
  StronglySorted R (a ++ b) -> In x a -> In y b -> R x y.
Proof.
  induction a as [|z a IH]; intros b x y H Hx Hy; cbn in *; [tauto|].
  apply StronglySorted_inv in H. destruct H as [H Hz]. destruct Hx as [->|Hx].
  - rewrite Forall_forall in Hz. apply Hz. apply in_or_app. auto.
  - eapply IH; eauto.
Qed.

(* put x between a and b *)
Lemma SS_insert {A} (R : A -> A -> Prop) : forall a b x,
  StronglySorted R (a ++ b) -> Forall (fun y => R y x) a -> Forall (R x) b ->
  StronglySorted R (a ++ x :: b).
Proof.
  induction a as [|z a IH]; intros b x H Ha Hb; cbn in *.
  - constructor; auto.
  - apply StronglySorted_inv in H. destruct H as [H Hz].
    apply Forall_cons_iff in Ha. destruct Ha as [Hzx Ha].
    constructor; auto.
    apply Forall_app in Hz. destruct Hz as [Hz1 Hz2].
    apply Forall_app. split; auto.
Qed.

(* take the first element of b out *)
Lemma SS_delete {A} (R : A -> A -> Prop) : forall a b x,
  StronglySorted R (a ++ x :: b) -> StronglySorted R (a ++ b).
Proof.
  induction a as [|z a IH]; intros b x H; cbn in *.
  - apply StronglySorted_inv in H. tauto.
  - apply StronglySorted_inv in H. destruct H as [H Hz]. constructor; eauto.
    apply Forall_app in Hz. destruct Hz as [Hz1 Hz2].
    apply Forall_cons_iff in Hz2. apply Forall_app. tauto.
Qed.

Lemma SS_map_filter {A B} (R : B -> B -> Prop) (f : A -> B) (p : A -> bool) : forall l,
  StronglySorted R (map f l) -> StronglySorted R (map f (filter p l)).
Proof.
  induction l as [|x l IH]; intros H; cbn in *; auto.
  apply StronglySorted_inv in H. destruct H as [H Hx].
  destruct (p x); cbn; auto. constructor; auto.
  rewrite Forall_forall in *. intros y Hy. apply Hx.
  apply in_map_iff in Hy. destruct Hy as (z & <- & Hz). apply in_map.
  apply filter_In in Hz. tauto.
Qed.

Section Order.
  Variable cmp : Z -> Z -> comparison.
  Variable levels : nat.
  (* the trait is a total order *)
  Hypothesis cmp_eq : forall a b, cmp a b = Eq <-> a = b.
  Hypothesis cmp_anti : forall a b, cmp b a = CompOpp (cmp a b).
  Hypothesis cmp_trans : forall a b c, cmp a b = Lt -> cmp b c = Lt -> cmp a c = Lt.
  Hypothesis levels_pos : 1 <= levels.

  Definition ltk (a b : Z) : Prop := cmp a b = Lt.

  Lemma is_lt_true a b : is_lt cmp a b = true <-> ltk a b.
  Proof. unfold is_lt, ltk. destruct (cmp a b); split; congruence. Qed.

  Lemma is_lt_false a b : is_lt cmp a b = false <-> ~ ltk a b.
  Proof. unfold is_lt, ltk. destruct (cmp a b); split; congruence. Qed.

  Lemma is_eq_true a b : is_eq cmp a b = true <-> a = b.
  Proof. rewrite <- cmp_eq. unfold is_eq. destruct (cmp a b); split; congruence. Qed.

  Lemma is_eq_false a b : is_eq cmp a b = false <-> a <> b.
  Proof. rewrite <- cmp_eq. unfold is_eq. destruct (cmp a b); split; congruence. Qed.

  Lemma ltk_irrefl a : ~ ltk a a.
  Proof. unfold ltk. intros H. assert (E : cmp a a = Eq) by (apply cmp_eq; reflexivity). congruence. Qed.

  Lemma ltk_neq a b : ltk a b -> a <> b.
  Proof. intros H E. subst. exact (ltk_irrefl _ H). Qed.

  Lemma ltk_trans a b c : ltk a b -> ltk b c -> ltk a c.
  Proof. apply cmp_trans. Qed.

  Lemma ltk_asym a b : ltk a b -> ~ ltk b a.
  Proof. intros H1 H2. exact (ltk_irrefl _ (ltk_trans _ _ _ H1 H2)). Qed.

  Lemma not_lt_gt a b : ~ ltk a b -> a <> b -> ltk b a.
  Proof.
    unfold ltk. intros H1 H2. rewrite cmp_anti. destruct (cmp a b) eqn:E; cbn; try congruence.
    apply cmp_eq in E. contradiction.
  Qed.

  Lemma sorted_nodup : forall l, StronglySorted ltk l -> NoDup l.
  Proof.
    induction l as [|x l IH]; intros H; constructor.
    - apply StronglySorted_inv in H. destruct H as [_ Hx]. rewrite Forall_forall in Hx.
      intros Hin. exact (ltk_irrefl _ (Hx _ Hin)).
    - apply StronglySorted_inv in H. tauto.
  Qed.

  (* ---------------------------------------------------------------- the invariant *)
  Definition at_level (h : heap) (L : nat) (ns : list nat) : list nat := filter (fun n => L <? height h n) ns.
  Definition keys (h : heap) (ns : list nat) : list Z := map (keyof h) ns.
  (* the sorted association list the structure stands for *)
  Definition contents (h : heap) (ns : list nat) : list (Z * Z) := map (fun n => (keyof h n, valof h n)) ns.

  (* ns = the level-0 chain (live nodes in order); the level-L chain from the head is exactly the
     sub-list of the nodes higher than L and ends in nil; keys strictly ascending; ids in bounds *)
  Record Rep (h : heap) (ns : list nat) : Prop := mkRep {
    rep_head : 0 < length h /\ height h 0 = levels;
    rep_ids : Forall (fun n => 0 < n < length h /\ 1 <= height h n <= levels) ns;
    rep_sorted : StronglySorted ltk (keys h ns);
    rep_chain : forall L, L < levels -> chain h L 0 (at_level h L ns) None
  }.

  Lemma Rep_nodup h ns : Rep h ns -> NoDup (0 :: ns).
  Proof.
    intros R. constructor.
    - intros Hin. pose proof (rep_ids _ _ R) as Hi. rewrite Forall_forall in Hi. apply Hi in Hin. lia.
    - apply (NoDup_map_inv (keyof h)). apply sorted_nodup. exact (rep_sorted _ _ R).
  Qed.

  Lemma Rep_length h ns : Rep h ns -> length ns < length h.
  Proof.
    intros R. pose proof (Rep_nodup _ _ R) as Hnd. apply NoDup_cons_iff in Hnd. destruct Hnd as [_ Hnd].
    assert (Hle : length ns <= length (seq 1 (length h - 1))).
    { apply NoDup_incl_length; auto. intros n Hn.
      pose proof (rep_ids _ _ R) as Hi. rewrite Forall_forall in Hi. apply Hi in Hn.
      apply in_seq. lia. }
    rewrite seq_length in Hle. destruct (rep_head _ _ R). lia.
  Qed.

  Lemma at_level_app h L a b : at_level h L (a ++ b) = at_level h L a ++ at_level h L b.
  Proof. apply filter_app. Qed.

  Lemma at_level_in h L l x : In x (at_level h L l) <-> In x l /\ L < height h x.
  Proof. unfold at_level. rewrite filter_In. rewrite Nat.ltb_lt. tauto. Qed.

  Lemma at_level_length h L l : length (at_level h L l) <= length l.
  Proof. unfold at_level. induction l as [|x l IH]; cbn [filter length]; auto. destruct (L <? height h x); cbn [length]; lia. Qed.

  Lemma at_level_0 h l : Forall (fun n => 1 <= height h n) l -> at_level h 0 l = l.
  Proof.
    intros H. apply filter_all_true. rewrite Forall_forall in *. intros x Hx.
    apply Nat.ltb_lt. specialize (H x Hx). lia.
  Qed.

  Lemma at_level_top h l : Forall (fun n => height h n <= levels) l -> at_level h levels l = [].
  Proof.
    intros H. apply filter_all_false. rewrite Forall_forall in *. intros x Hx.
    apply Nat.ltb_ge. auto.
  Qed.

  (* ---------------------------------------------------------------- splitting at a key *)
  Lemma split_at h k : forall ns, StronglySorted ltk (keys h ns) ->
    exists lo hi, ns = lo ++ hi /\ Forall (fun n => ltk (keyof h n) k) lo /\ Forall (fun n => ~ ltk (keyof h n) k) hi.
  Proof.
    induction ns as [|a r IH]; intros Hs.
    - exists [], []. repeat split; constructor.
    - cbn in Hs. apply StronglySorted_inv in Hs. destruct Hs as [Hs Ha].
      destruct (is_lt cmp (keyof h a) k) eqn:E.
      + apply is_lt_true in E. destruct (IH Hs) as (lo & hi & Er & Hlo & Hhi).
        exists (a :: lo), hi. subst r. repeat split; auto.
      + apply is_lt_false in E. exists [], (a :: r). repeat split; auto.
        constructor; auto. rewrite Forall_forall in *. intros d Hd Hlt.
        apply E. eapply ltk_trans; [|exact Hlt]. apply Ha. apply in_map. exact Hd.
  Qed.

  (* ---------------------------------------------------------------- the inner walk *)
  Definition stops (h : heap) (k : Z) (e : option nat) : Prop :=
    match e with None => True | Some c => ~ ltk (keyof h c) k end.

  (* a walk at level L from n along a chain whose nodes a are all < k and which then ends or
     continues with a node >= k stops at the last node of n :: a *)
  Lemma walk_spec h L k : forall a n fuel e,
    length a < fuel -> chain h L n a e -> Forall (fun x => ltk (keyof h x) k) a -> stops h k e ->
    walk cmp fuel h L k n = lst n a.
  Proof.
    induction a as [|m a IH]; intros n fuel e Hf Hc Ha He.
    - destruct fuel as [|f]; [reflexivity|]. cbn [walk lst]. cbn in Hc. rewrite Hc.
      destruct e as [c|]; [|reflexivity]. cbn in He.
      destruct (is_lt cmp (keyof h c) k) eqn:E; [|reflexivity].
      apply is_lt_true in E. contradiction.
    - destruct fuel as [|f]; [cbn in Hf; lia|]. cbn [walk lst]. destruct Hc as [Hc1 Hc2]. rewrite Hc1.
      apply Forall_cons_iff in Ha. destruct Ha as [Hm Ha]. apply is_lt_true in Hm. rewrite Hm.
      apply IH with (e := e); auto. cbn in Hf. lia.
  Qed.

  Lemma search_loop_skip : forall lv h k n path,
    search_loop cmp lv h k n = fst (skip_loop cmp lv h k n path).
  Proof. induction lv as [|l IH]; intros; cbn; auto. Qed.

  Lemma search_skip h k : search cmp levels h k = fst (skip cmp levels h k).
  Proof.
    unfold search, skip. rewrite (search_loop_skip levels h k 0 []).
    destruct (skip_loop cmp levels h k 0 []). reflexivity.
  Qed.

  (* ---------------------------------------------------------------- skip, relative to a split *)
  Section Split.
    Variables (h : heap) (ns lo hi : list nat) (k : Z).
    Hypothesis HR : Rep h ns.
    Hypothesis Hns : ns = lo ++ hi.
    Hypothesis Hlo : Forall (fun n => ltk (keyof h n) k) lo.
    Hypothesis Hhi : Forall (fun n => ~ ltk (keyof h n) k) hi.

    (* the rightmost node of level L (or higher) to the left of k *)
    Definition pth (L : nat) : nat := lst 0 (at_level h L lo).

    Lemma ids_lo : Forall (fun n => 0 < n < length h /\ 1 <= height h n <= levels) lo.
    Proof. pose proof (rep_ids _ _ HR) as H. rewrite Hns in H. apply Forall_app in H. tauto. Qed.

    Lemma ids_hi : Forall (fun n => 0 < n < length h /\ 1 <= height h n <= levels) hi.
    Proof. pose proof (rep_ids _ _ HR) as H. rewrite Hns in H. apply Forall_app in H. tauto. Qed.

    Lemma chain_split L : L < levels ->
      chain h L 0 (at_level h L lo) (ohd (at_level h L hi) None) /\ chain h L (pth L) (at_level h L hi) None.
    Proof.
      intros HL. pose proof (rep_chain _ _ HR L HL) as Hc. rewrite Hns, at_level_app in Hc.
      apply chain_app in Hc. exact Hc.
    Qed.

    Lemma stops_hi L : stops h k (ohd (at_level h L hi) None).
    Proof.
      destruct (at_level h L hi) as [|c r] eqn:E; cbn; auto.
      assert (Hin : In c (at_level h L hi)) by (rewrite E; left; reflexivity).
      apply at_level_in in Hin. rewrite Forall_forall in Hhi. apply Hhi. tauto.
    Qed.

    Lemma pth_top : pth levels = 0.
    Proof.
      unfold pth. rewrite at_level_top; [reflexivity|].
      pose proof ids_lo as H. rewrite Forall_forall in *. intros x Hx. specialize (H x Hx). lia.
    Qed.

    Lemma pth_0 : pth 0 = lst 0 lo.
    Proof.
      unfold pth. rewrite at_level_0; [reflexivity|].
      pose proof ids_lo as H. rewrite Forall_forall in *. intros x Hx. specialize (H x Hx). lia.
    Qed.

    (* pth L is the head or a node of lo that is higher than L *)
    Lemma pth_in L : pth L = 0 \/ (In (pth L) lo /\ L < height h (pth L)).
    Proof.
      unfold pth. destruct (lst_in (at_level h L lo) 0) as [E|E]; auto.
      right. apply at_level_in in E. exact E.
    Qed.

    Lemma pth_bounds L : L < levels -> pth L < length h /\ L < height h (pth L).
    Proof.
      intros HL. destruct (pth_in L) as [E|[E1 E2]].
      - rewrite E. destruct (rep_head _ _ HR). lia.
      - split; auto. pose proof ids_lo as H. rewrite Forall_forall in H. specialize (H _ E1). lia.
    Qed.

    Lemma walk_level L : L < levels -> walk cmp (fuel_of h) h L k (pth (S L)) = pth L.
    Proof.
      intros HL.
      assert (Hd : exists a1 a2, at_level h L lo = a1 ++ a2 /\ lst 0 a1 = pth (S L)).
      { destruct (pth_in (S L)) as [E|[E1 E2]].
        - exists [], (at_level h L lo). split; auto.
        - assert (Hin : In (pth (S L)) (at_level h L lo)) by (apply at_level_in; split; [auto|lia]).
          apply in_split in Hin. destruct Hin as (a1 & a2 & E).
          exists (a1 ++ [pth (S L)]), a2. split.
          + rewrite E. rewrite <- app_assoc. reflexivity.
          + apply lst_snoc. }
      destruct Hd as (a1 & a2 & Ea & El).
      destruct (chain_split L HL) as [Hc _]. rewrite Ea in Hc. apply chain_app in Hc.
      destruct Hc as [_ Hc]. rewrite El in Hc.
      unfold pth at 2. rewrite Ea, lst_app, El.
      eapply walk_spec.
      - unfold fuel_of. pose proof (Rep_length _ _ HR) as Hlen.
        pose proof (at_level_length h L lo) as H1. rewrite Ea, app_length in H1.
        rewrite Hns, app_length in Hlen. lia.
      - exact Hc.
      - assert (Hall : Forall (fun x => ltk (keyof h x) k) (at_level h L lo)).
        { rewrite Forall_forall in *. intros x Hx. apply at_level_in in Hx. apply Hlo. tauto. }
        rewrite Ea in Hall. apply Forall_app in Hall. tauto.
      - apply stops_hi.
    Qed.

    Lemma skip_loop_spec : forall lv path, lv <= levels ->
      exists pre, skip_loop cmp lv h k (pth lv) path = (pth 0, pre ++ path)
                  /\ length pre = lv /\ forall L, L < lv -> nth L pre 0 = pth L.
    Proof.
      induction lv as [|l IH]; intros path Hlv.
      - exists []. cbn. repeat split; auto. intros; lia.
      - cbn [skip_loop]. rewrite walk_level by lia.
        destruct (IH (pth l :: path)) as (pre & E & Hlen & Hnth); [lia|].
        exists (pre ++ [pth l]). rewrite E. rewrite <- app_assoc. cbn [app]. split; [reflexivity|]. split.
        + rewrite app_length; cbn; lia.
        + intros L HL. destruct (Nat.eq_dec L l) as [->|Hne].
          * rewrite app_nth2 by lia. rewrite Hlen, Nat.sub_diag. reflexivity.
          * rewrite app_nth1 by lia. apply Hnth. lia.
    Qed.

    (* skip_spec: the candidate is the first node with key >= k, path[L] = pth L *)
    Lemma skip_spec : exists path, skip cmp levels h k = (ohd hi None, path)
                                   /\ length path = levels /\ forall L, L < levels -> nth L path 0 = pth L.
    Proof.
      destruct (skip_loop_spec levels [] (le_n _)) as (pre & E & Hlen & Hnth).
      exists pre. unfold skip. rewrite pth_top in E. rewrite E. rewrite app_nil_r. split; [|split; auto].
      f_equal. destruct (chain_split 0 levels_pos) as [_ Hc].
      rewrite at_level_0 in Hc.
      - rewrite pth_0 in *. destruct hi; cbn in *; tauto.
      - pose proof ids_hi as H. rewrite Forall_forall in *. intros x Hx. specialize (H x Hx). lia.
    Qed.

    (* what comes at and after k *)
    Lemma hi_cases :
      (exists c r, hi = c :: r /\ keyof h c = k /\ Forall (fun n => ltk k (keyof h n)) r)
      \/ (Forall (fun n => ltk k (keyof h n)) hi
          /\ match hi with c :: _ => is_eq cmp (keyof h c) k = false | [] => True end).
    Proof.
      destruct hi as [|c r] eqn:Ehi.
      - right. split; auto.
      - pose proof (rep_sorted _ _ HR) as Hs. rewrite Hns in Hs. unfold keys in Hs. rewrite map_app in Hs.
        apply SS_app_r in Hs. cbn in Hs. apply StronglySorted_inv in Hs. destruct Hs as [_ Hc].
        assert (Hr : Forall (fun n => ltk (keyof h c) (keyof h n)) r).
        { rewrite Forall_forall in *. intros d Hd. apply Hc. apply in_map. exact Hd. }
        apply Forall_cons_iff in Hhi. destruct Hhi as [Hck _].
        destruct (is_eq cmp (keyof h c) k) eqn:E.
        + apply is_eq_true in E. left. exists c, r. rewrite <- E. auto.
        + right. split; auto. apply is_eq_false in E.
          pose proof (not_lt_gt _ _ Hck E) as Hkc. constructor; auto.
          rewrite Forall_forall in *. intros d Hd. eapply ltk_trans; [exact Hkc|]. auto.
    Qed.

    Lemma get_spec_split :
      get cmp levels h k =
      match hi with c :: _ => if is_eq cmp (keyof h c) k then valof h c else 0%Z | [] => 0%Z end.
    Proof.
      unfold get. rewrite search_skip. destruct skip_spec as (path & E & _). rewrite E. cbn [fst].
      destruct hi; reflexivity.
    Qed.
  End Split.

  (* ---------------------------------------------------------------- lookups in the contents *)
  Lemma afind_app k : forall a b,
    afind k (a ++ b) = match afind k a with Some v => Some v | None => afind k b end.
  Proof.
    induction a as [|[k' v] a IH]; intros b; cbn; auto.
    destruct (Z.eqb k k'); auto.
  Qed.

  Lemma afind_none h k : forall l, Forall (fun n => keyof h n <> k) l -> afind k (contents h l) = None.
  Proof.
    induction l as [|x l IH]; intros H; cbn; auto.
    apply Forall_cons_iff in H. destruct H as [Hx Hl].
    destruct (Z.eqb_spec k (keyof h x)); [congruence|auto].
  Qed.

  Lemma afind_lo h k l : Forall (fun n => ltk (keyof h n) k) l -> afind k (contents h l) = None.
  Proof.
    intros H. apply afind_none. rewrite Forall_forall in *. intros x Hx. apply ltk_neq. auto.
  Qed.

  Lemma afind_hi h k l : Forall (fun n => ltk k (keyof h n)) l -> afind k (contents h l) = None.
  Proof.
    intros H. apply afind_none. rewrite Forall_forall in *. intros x Hx E.
    symmetry in E. revert E. apply ltk_neq. auto.
  Qed.

  (* get_spec: Get answers like the association list the structure stands for (0 for absent keys) *)
  Lemma get_spec h ns k : Rep h ns -> get cmp levels h k = alookup k (contents h ns).
  Proof.
    intros R. destruct (split_at h k ns (rep_sorted _ _ R)) as (lo & hi & Ens & Hlo & Hhi).
    rewrite (get_spec_split h ns lo hi k R Ens Hlo Hhi).
    unfold alookup. rewrite Ens. unfold contents. rewrite map_app. fold (contents h lo). fold (contents h hi).
    rewrite afind_app, afind_lo by auto.
    destruct (hi_cases h ns lo hi k R Ens Hhi) as [(c & r & E & Ek & Hr)|[Hgt Hne]].
    - subst hi. cbn. rewrite Ek. rewrite Z.eqb_refl.
      assert (Et : is_eq cmp k k = true) by (apply is_eq_true; reflexivity). rewrite Et. reflexivity.
    - rewrite afind_hi by auto. destruct hi; auto. rewrite Hne. reflexivity.
  Qed.
End Order.
