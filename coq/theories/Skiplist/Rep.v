(* C18 - representation invariant of the skip-list heap and what the read-only loops compute:
   walk_spec, skip_spec (path[L] = last node of level L with key < k, candidate = first node with key >= k),
   get_spec.  The comparison is any total order (Section hypotheses). *)
From Coq Require Import List ZArith Bool Arith Lia Sorted.
From Golem Require Import Skiplist.Model Skiplist.Heap Skiplist.Loops.
Import ListNotations.

(* ------------------------------------------------------------------ list facts *)
Lemma filter_all_false {A} (p : A -> bool) : forall l, Forall (fun x => p x = false) l -> filter p l = [].
Proof.
  induction l as [|x l IH]; intros H; cbn; auto.
  apply Forall_cons_iff in H. destruct H as [Hx Hl]. rewrite Hx. auto.
Qed.

Lemma filter_all_true {A} (p : A -> bool) : forall l, Forall (fun x => p x = true) l -> filter p l = l.
Proof.
  induction l as [|x l IH]; intros H; cbn; auto.
  apply Forall_cons_iff in H. destruct H as [Hx Hl]. rewrite Hx. f_equal. auto.
Qed.

Lemma SS_app_r {A} (R : A -> A -> Prop) : forall a b, StronglySorted R (a ++ b) -> StronglySorted R b.
Proof.
  induction a as [|x a IH]; intros b H; cbn in *; auto.
  apply StronglySorted_inv in H. destruct H as [H _]. auto.
Qed.

Lemma SS_app_l {A} (R : A -> A -> Prop) : forall a b, StronglySorted R (a ++ b) -> StronglySorted R a.
Proof.
  induction a as [|x a IH]; intros b H; cbn in *.
  - constructor.
  - apply StronglySorted_inv in H. destruct H as [H Hx]. constructor.
    + eapply IH; eauto.
    + apply Forall_app in Hx. tauto.
Qed.

Lemma SS_app_cross {A} (R : A -> A -> Prop) : forall a b x y,
  StronglySorted R (a ++ b) -> In x a -> In y b -> R x y.
Proof.
  induction a as [|z a IH]; intros b x y H Hx Hy; cbn in *; [tauto|].
  apply StronglySorted_inv in H. destruct H as [H Hz]. destruct Hx as [->|Hx].
  - rewrite Forall_forall in Hz. apply Hz. apply in_or_app. auto.
  - eapply IH; eauto.
Qed.

(* put x between a and b *)
Lemma SS_insert {A} (R : A -> A -> Prop) : forall a b x,
  StronglySorted R (a ++ b) -> Forall (fun y => R y x) a -> Forall (R x) b ->
  StronglySorted R (a ++ x :: b).
Proof.
  induction a as [|z a IH]; intros b x H Ha Hb; cbn in *.
  - constructor; auto.
  - apply StronglySorted_inv in H. destruct H as [H Hz].
    apply Forall_cons_iff in Ha. destruct Ha as [Hzx Ha].
    constructor; auto.
    apply Forall_app in Hz. destruct Hz as [Hz1 Hz2].
    apply Forall_app. split; auto.
Qed.

(* take the first element of b out *)
Lemma SS_delete {A} (R : A -> A -> Prop) : forall a b x,
  StronglySorted R (a ++ x :: b) -> StronglySorted R (a ++ b).
Proof.
  induction a as [|z a IH]; intros b x H; cbn in *.
  - apply StronglySorted_inv in H. tauto.
  - apply StronglySorted_inv in H. destruct H as [H Hz]. constructor; eauto.
    apply Forall_app in Hz. destruct Hz as [Hz1 Hz2].
    apply Forall_cons_iff in Hz2. apply Forall_app. tauto.
Qed.

Lemma SS_map_filter {A B} (R : B -> B -> Prop) (f : A -> B) (p : A -> bool) : forall l,
  StronglySorted R (map f l) -> StronglySorted R (map f (filter p l)).
Proof.
  induction l as [|x l IH]; intros H; cbn in *; auto.
  apply StronglySorted_inv in H. destruct H as [H Hx].
  destruct (p x); cbn; auto. constructor; auto.
  rewrite Forall_forall in *. intros y Hy. apply Hx.
  apply in_map_iff in Hy. destruct Hy as (z & <- & Hz). apply in_map.
  apply filter_In in Hz. tauto.
Qed.

Lemma NoDup_app_remove_r {A} : forall (a b : list A), NoDup (a ++ b) -> NoDup a.
Proof.
  induction a as [|y a IH]; intros b H; cbn in *; [constructor|].
  apply NoDup_cons_iff in H. destruct H as [Hy H]. constructor; eauto.
  intros Hin. apply Hy. apply in_or_app. auto.
Qed.

Lemma NoDup_app_remove_l {A} : forall (a b : list A), NoDup (a ++ b) -> NoDup b.
Proof.
  induction a as [|y a IH]; intros b H; cbn in *; auto.
  apply NoDup_cons_iff in H. destruct H as [Hy H]. auto.
Qed.

Lemma NoDup_app_disjoint {A} : forall (a b : list A) x, NoDup (a ++ b) -> In x a -> In x b -> False.
Proof.
  induction a as [|y a IH]; intros b x H Ha Hb; cbn in *; [tauto|].
  apply NoDup_cons_iff in H. destruct H as [Hy H]. destruct Ha as [->|Ha].
  - apply Hy. apply in_or_app. auto.
  - eapply IH; eauto.
Qed.

Section Order.
  Variable cmp : Z -> Z -> comparison.
  Variable levels : nat.
  (* the trait is a total order *)
  Hypothesis cmp_eq : forall a b, cmp a b = Eq <-> a = b.
  Hypothesis cmp_anti : forall a b, cmp b a = CompOpp (cmp a b).
  Hypothesis cmp_trans : forall a b c, cmp a b = Lt -> cmp b c = Lt -> cmp a c = Lt.
  Hypothesis levels_pos : 1 <= levels.

  Definition ltk (a b : Z) : Prop := cmp a b = Lt.

  Lemma is_lt_true a b : is_lt cmp a b = true <-> ltk a b.
  Proof. unfold is_lt, ltk. destruct (cmp a b); split; congruence. Qed.

  Lemma is_lt_false a b : is_lt cmp a b = false <-> ~ ltk a b.
  Proof. unfold is_lt, ltk. destruct (cmp a b); split; congruence. Qed.

  Lemma is_eq_true a b : is_eq cmp a b = true <-> a = b.
  Proof. rewrite <- cmp_eq. unfold is_eq. destruct (cmp a b); split; congruence. Qed.

  Lemma is_eq_false a b : is_eq cmp a b = false <-> a <> b.
  Proof. rewrite <- cmp_eq. unfold is_eq. destruct (cmp a b); split; congruence. Qed.

  Lemma ltk_irrefl a : ~ ltk a a.
  Proof. unfold ltk. intros H. assert (E : cmp a a = Eq) by (apply cmp_eq; reflexivity). congruence. Qed.

  Lemma ltk_neq a b : ltk a b -> a <> b.
  Proof. intros H E. subst. exact (ltk_irrefl _ H). Qed.

  Lemma ltk_trans a b c : ltk a b -> ltk b c -> ltk a c.
  Proof. apply cmp_trans. Qed.

  Lemma ltk_asym a b : ltk a b -> ~ ltk b a.
  Proof. intros H1 H2. exact (ltk_irrefl _ (ltk_trans _ _ _ H1 H2)). Qed.

  Lemma not_lt_gt a b : ~ ltk a b -> a <> b -> ltk b a.
  Proof.
    unfold ltk. intros H1 H2. rewrite cmp_anti. destruct (cmp a b) eqn:E; cbn; try congruence.
    apply cmp_eq in E. contradiction.
  Qed.

  Lemma sorted_nodup : forall l, StronglySorted ltk l -> NoDup l.
  Proof.
    induction l as [|x l IH]; intros H; constructor.
    - apply StronglySorted_inv in H. destruct H as [_ Hx]. rewrite Forall_forall in Hx.
      intros Hin. exact (ltk_irrefl _ (Hx _ Hin)).
    - apply StronglySorted_inv in H. tauto.
  Qed.

  (* ---------------------------------------------------------------- the invariant *)
  Definition at_level (h : heap) (L : nat) (ns : list nat) : list nat := filter (fun n => L <? height h n) ns.
  Definition keys (h : heap) (ns : list nat) : list Z := map (keyof h) ns.
  (* the sorted association list the structure stands for *)
  Definition contents (h : heap) (ns : list nat) : list (Z * Z) := map (fun n => (keyof h n, valof h n)) ns.

  (* ns = the level-0 chain (live nodes in order); the level-L chain from the head is exactly the
     sub-list of the nodes higher than L and ends in nil; keys strictly ascending; ids in bounds *)
  Record Rep (h : heap) (ns : list nat) : Prop := mkRep {
    rep_head : 0 < length h /\ height h 0 = levels;
    rep_ids : Forall (fun n => 0 < n < length h /\ 1 <= height h n <= levels) ns;
    rep_sorted : StronglySorted ltk (keys h ns);
    rep_chain : forall L, L < levels -> chain h L 0 (at_level h L ns) None
  }.

  Lemma Rep_nodup h ns : Rep h ns -> NoDup (0 :: ns).
  Proof.
    intros R. constructor.
    - intros Hin. pose proof (rep_ids _ _ R) as Hi. rewrite Forall_forall in Hi. apply Hi in Hin. lia.
    - apply (NoDup_map_inv (keyof h)). apply sorted_nodup. exact (rep_sorted _ _ R).
  Qed.

  Lemma Rep_length h ns : Rep h ns -> length ns < length h.
  Proof.
    intros R. pose proof (Rep_nodup _ _ R) as Hnd. apply NoDup_cons_iff in Hnd. destruct Hnd as [_ Hnd].
    assert (Hle : length ns <= length (seq 1 (length h - 1))).
    { apply NoDup_incl_length; auto. intros n Hn.
      pose proof (rep_ids _ _ R) as Hi. rewrite Forall_forall in Hi. apply Hi in Hn.
      apply in_seq. lia. }
    rewrite seq_length in Hle. destruct (rep_head _ _ R). lia.
  Qed.

  Lemma at_level_app h L a b : at_level h L (a ++ b) = at_level h L a ++ at_level h L b.
  Proof. apply filter_app. Qed.

  Lemma at_level_in h L l x : In x (at_level h L l) <-> In x l /\ L < height h x.
  Proof. unfold at_level. rewrite filter_In. rewrite Nat.ltb_lt. tauto. Qed.

  Lemma at_level_length h L l : length (at_level h L l) <= length l.
  Proof. unfold at_level. induction l as [|x l IH]; cbn [filter length]; auto. destruct (L <? height h x); cbn [length]; lia. Qed.

  Lemma at_level_0 h l : Forall (fun n => 1 <= height h n) l -> at_level h 0 l = l.
  Proof.
    intros H. apply filter_all_true. rewrite Forall_forall in *. intros x Hx.
    apply Nat.ltb_lt. specialize (H x Hx). lia.
  Qed.

  Lemma at_level_top h l : Forall (fun n => height h n <= levels) l -> at_level h levels l = [].
  Proof.
    intros H. apply filter_all_false. rewrite Forall_forall in *. intros x Hx.
    apply Nat.ltb_ge. auto.
  Qed.

  (* ---------------------------------------------------------------- splitting at a key *)
  Lemma split_at h k : forall ns, StronglySorted ltk (keys h ns) ->
    exists lo hi, ns = lo ++ hi /\ Forall (fun n => ltk (keyof h n) k) lo /\ Forall (fun n => ~ ltk (keyof h n) k) hi.
  Proof.
    induction ns as [|a r IH]; intros Hs.
    - exists [], []. repeat split; constructor.
    - cbn in Hs. apply StronglySorted_inv in Hs. destruct Hs as [Hs Ha].
      destruct (is_lt cmp (keyof h a) k) eqn:E.
      + apply is_lt_true in E. destruct (IH Hs) as (lo & hi & Er & Hlo & Hhi).
        exists (a :: lo), hi. subst r. repeat split; auto.
      + apply is_lt_false in E. exists [], (a :: r). repeat split; auto.
        constructor; auto. rewrite Forall_forall in *. intros d Hd Hlt.
        apply E. eapply ltk_trans; [|exact Hlt]. apply Ha. apply in_map. exact Hd.
  Qed.

  (* ---------------------------------------------------------------- the inner walk *)
  Definition stops (h : heap) (k : Z) (e : option nat) : Prop :=
    match e with None => True | Some c => ~ ltk (keyof h c) k end.

  (* a walk at level L from n along a chain whose nodes a are all < k and which then ends or
     continues with a node >= k stops at the last node of n :: a *)
  Lemma walk_spec h L k : forall a n fuel e,
    length a < fuel -> chain h L n a e -> Forall (fun x => ltk (keyof h x) k) a -> stops h k e ->
    walk cmp fuel h L k n = lst n a.
  Proof.
    induction a as [|m a IH]; intros n fuel e Hf Hc Ha He.
    - destruct fuel as [|f]; [reflexivity|]. cbn [walk lst]. cbn in Hc. rewrite Hc.
      destruct e as [c|]; [|reflexivity]. cbn in He.
      destruct (is_lt cmp (keyof h c) k) eqn:E; [|reflexivity].
      apply is_lt_true in E. contradiction.
    - destruct fuel as [|f]; [cbn in Hf; lia|]. cbn [walk lst]. destruct Hc as [Hc1 Hc2]. rewrite Hc1.
      apply Forall_cons_iff in Ha. destruct Ha as [Hm Ha]. apply is_lt_true in Hm. rewrite Hm.
      apply IH with (e := e); auto. cbn in Hf. lia.
  Qed.

  Lemma search_loop_skip : forall lv h k n path,
    search_loop cmp lv h k n = fst (skip_loop cmp lv h k n path).
  Proof. induction lv as [|l IH]; intros; cbn; auto. Qed.

  Lemma search_skip h k : search cmp levels h k = fst (skip cmp levels h k).
  Proof.
    unfold search, skip. rewrite (search_loop_skip levels h k 0 []).
    destruct (skip_loop cmp levels h k 0 []). reflexivity.
  Qed.

  (* ---------------------------------------------------------------- skip, relative to a split *)
  Section Split.
    Variables (h : heap) (ns lo hi : list nat) (k : Z).
    Hypothesis HR : Rep h ns.
    Hypothesis Hns : ns = lo ++ hi.
    Hypothesis Hlo : Forall (fun n => ltk (keyof h n) k) lo.
    Hypothesis Hhi : Forall (fun n => ~ ltk (keyof h n) k) hi.

    (* the rightmost node of level L (or higher) to the left of k *)
    Definition pth (L : nat) : nat := lst 0 (at_level h L lo).

    Lemma ids_lo : Forall (fun n => 0 < n < length h /\ 1 <= height h n <= levels) lo.
    Proof. pose proof (rep_ids _ _ HR) as H. rewrite Hns in H. apply Forall_app in H. tauto. Qed.

    Lemma ids_hi : Forall (fun n => 0 < n < length h /\ 1 <= height h n <= levels) hi.
    Proof. pose proof (rep_ids _ _ HR) as H. rewrite Hns in H. apply Forall_app in H. tauto. Qed.

    Lemma chain_split L : L < levels ->
      chain h L 0 (at_level h L lo) (ohd (at_level h L hi) None) /\ chain h L (pth L) (at_level h L hi) None.
    Proof.
      intros HL. pose proof (rep_chain _ _ HR L HL) as Hc. rewrite Hns, at_level_app in Hc.
      apply chain_app in Hc. exact Hc.
    Qed.

    Lemma stops_hi L : stops h k (ohd (at_level h L hi) None).
    Proof.
      destruct (at_level h L hi) as [|c r] eqn:E; cbn; auto.
      assert (Hin : In c (at_level h L hi)) by (rewrite E; left; reflexivity).
      apply at_level_in in Hin. rewrite Forall_forall in Hhi. apply Hhi. tauto.
    Qed.

    Lemma pth_top : pth levels = 0.
    Proof.
      unfold pth. rewrite at_level_top; [reflexivity|].
      pose proof ids_lo as H. rewrite Forall_forall in *. intros x Hx. specialize (H x Hx). lia.
    Qed.

    Lemma pth_0 : pth 0 = lst 0 lo.
    Proof.
      unfold pth. rewrite at_level_0; [reflexivity|].
      pose proof ids_lo as H. rewrite Forall_forall in *. intros x Hx. specialize (H x Hx). lia.
    Qed.

    (* pth L is the head or a node of lo that is higher than L *)
    Lemma pth_in L : pth L = 0 \/ (In (pth L) lo /\ L < height h (pth L)).
    Proof.
      unfold pth. destruct (lst_in (at_level h L lo) 0) as [E|E]; auto.
      right. apply at_level_in in E. exact E.
    Qed.

    Lemma pth_bounds L : L < levels -> pth L < length h /\ L < height h (pth L).
    Proof.
      intros HL. destruct (pth_in L) as [E|[E1 E2]].
      - rewrite E. destruct (rep_head _ _ HR). lia.
      - split; auto. pose proof ids_lo as H. rewrite Forall_forall in H. specialize (H _ E1). lia.
    Qed.

    Lemma walk_level L : L < levels -> walk cmp (fuel_of h) h L k (pth (S L)) = pth L.
    Proof.
      intros HL.
      assert (Hd : exists a1 a2, at_level h L lo = a1 ++ a2 /\ lst 0 a1 = pth (S L)).
      { destruct (pth_in (S L)) as [E|[E1 E2]].
        - exists [], (at_level h L lo). split; auto.
        - assert (Hin : In (pth (S L)) (at_level h L lo)) by (apply at_level_in; split; [auto|lia]).
          apply in_split in Hin. destruct Hin as (a1 & a2 & E).
          exists (a1 ++ [pth (S L)]), a2. split.
          + rewrite E. rewrite <- app_assoc. reflexivity.
          + apply lst_snoc. }
      destruct Hd as (a1 & a2 & Ea & El).
      destruct (chain_split L HL) as [Hc _]. rewrite Ea in Hc. apply chain_app in Hc.
      destruct Hc as [_ Hc]. rewrite El in Hc.
      unfold pth at 2. rewrite Ea, lst_app, El.
      eapply walk_spec.
      - unfold fuel_of. pose proof (Rep_length _ _ HR) as Hlen.
        pose proof (at_level_length h L lo) as H1. rewrite Ea, app_length in H1.
        rewrite Hns, app_length in Hlen. lia.
      - exact Hc.
      - assert (Hall : Forall (fun x => ltk (keyof h x) k) (at_level h L lo)).
        { rewrite Forall_forall in *. intros x Hx. apply at_level_in in Hx. apply Hlo. tauto. }
        rewrite Ea in Hall. apply Forall_app in Hall. tauto.
      - apply stops_hi.
    Qed.

    Lemma skip_loop_spec : forall lv path, lv <= levels ->
      exists pre, skip_loop cmp lv h k (pth lv) path = (pth 0, pre ++ path)
                  /\ length pre = lv /\ forall L, L < lv -> nth L pre 0 = pth L.
    Proof.
      induction lv as [|l IH]; intros path Hlv.
      - exists []. cbn. repeat split; auto. intros; lia.
      - cbn [skip_loop]. rewrite walk_level by lia.
        destruct (IH (pth l :: path)) as (pre & E & Hlen & Hnth); [lia|].
        exists (pre ++ [pth l]). rewrite E. rewrite <- app_assoc. cbn [app]. split; [reflexivity|]. split.
        + rewrite app_length; cbn; lia.
        + intros L HL. destruct (Nat.eq_dec L l) as [->|Hne].
          * rewrite app_nth2 by lia. rewrite Hlen, Nat.sub_diag. reflexivity.
          * rewrite app_nth1 by lia. apply Hnth. lia.
    Qed.

    (* skip_spec: the candidate is the first node with key >= k, path[L] = pth L *)
    Lemma skip_spec : exists path, skip cmp levels h k = (ohd hi None, path)
                                   /\ length path = levels /\ forall L, L < levels -> nth L path 0 = pth L.
    Proof.
      destruct (skip_loop_spec levels [] (le_n _)) as (pre & E & Hlen & Hnth).
      exists pre. unfold skip. rewrite pth_top in E. rewrite E. rewrite app_nil_r. split; [|split; auto].
      f_equal. destruct (chain_split 0 levels_pos) as [_ Hc].
      rewrite at_level_0 in Hc.
      - rewrite pth_0 in *. destruct hi; cbn in *; tauto.
      - pose proof ids_hi as H. rewrite Forall_forall in *. intros x Hx. specialize (H x Hx). lia.
    Qed.

    (* what comes at and after k *)
    Lemma hi_cases :
      (exists c r, hi = c :: r /\ keyof h c = k /\ Forall (fun n => ltk k (keyof h n)) r)
      \/ (Forall (fun n => ltk k (keyof h n)) hi
          /\ match hi with c :: _ => is_eq cmp (keyof h c) k = false | [] => True end).
    Proof.
      destruct hi as [|c r] eqn:Ehi.
      - right. split; auto.
      - pose proof (rep_sorted _ _ HR) as Hs. rewrite Hns in Hs. unfold keys in Hs. rewrite map_app in Hs.
        apply SS_app_r in Hs. cbn in Hs. apply StronglySorted_inv in Hs. destruct Hs as [_ Hc].
        assert (Hr : Forall (fun n => ltk (keyof h c) (keyof h n)) r).
        { rewrite Forall_forall in *. intros d Hd. apply Hc. apply in_map. exact Hd. }
        apply Forall_cons_iff in Hhi. destruct Hhi as [Hck _].
        destruct (is_eq cmp (keyof h c) k) eqn:E.
        + apply is_eq_true in E. left. exists c, r. rewrite <- E. auto.
        + right. split; auto. apply is_eq_false in E.
          pose proof (not_lt_gt _ _ Hck E) as Hkc. constructor; auto.
          rewrite Forall_forall in *. intros d Hd. eapply ltk_trans; [exact Hkc|]. auto.
    Qed.

    Lemma get_spec_split :
      get cmp levels h k =
      match hi with c :: _ => if is_eq cmp (keyof h c) k then valof h c else 0%Z | [] => 0%Z end.
    Proof.
      unfold get. rewrite search_skip. destruct skip_spec as (path & E & _). rewrite E. cbn [fst].
      destruct hi; reflexivity.
    Qed.
  End Split.

  (* ---------------------------------------------------------------- lookups in the contents *)
  Lemma afind_app k : forall a b,
    afind k (a ++ b) = match afind k a with Some v => Some v | None => afind k b end.
  Proof.
    induction a as [|[k' v] a IH]; intros b; cbn; auto.
    destruct (Z.eqb k k'); auto.
  Qed.

  Lemma afind_none h k : forall l, Forall (fun n => keyof h n <> k) l -> afind k (contents h l) = None.
  Proof.
    induction l as [|x l IH]; intros H; cbn; auto.
    apply Forall_cons_iff in H. destruct H as [Hx Hl].
    destruct (Z.eqb_spec k (keyof h x)); [congruence|auto].
  Qed.

  Lemma afind_lo h k l : Forall (fun n => ltk (keyof h n) k) l -> afind k (contents h l) = None.
  Proof.
    intros H. apply afind_none. rewrite Forall_forall in *. intros x Hx. apply ltk_neq. auto.
  Qed.

  Lemma afind_hi h k l : Forall (fun n => ltk k (keyof h n)) l -> afind k (contents h l) = None.
  Proof.
    intros H. apply afind_none. rewrite Forall_forall in *. intros x Hx E.
    symmetry in E. revert E. apply ltk_neq. auto.
  Qed.

  (* get_spec: Get answers like the association list the structure stands for (0 for absent keys) *)
  Lemma get_spec h ns k : Rep h ns -> get cmp levels h k = alookup k (contents h ns).
  Proof.
    intros R. destruct (split_at h k ns (rep_sorted _ _ R)) as (lo & hi & Ens & Hlo & Hhi).
    rewrite (get_spec_split h ns lo hi k R Ens Hlo Hhi).
    unfold alookup. rewrite Ens. unfold contents. rewrite map_app. fold (contents h lo). fold (contents h hi).
    rewrite afind_app, afind_lo by auto.
    destruct (hi_cases h ns lo hi k R Ens Hhi) as [(c & r & E & Ek & Hr)|[Hgt Hne]].
    - subst hi. cbn. rewrite Ek. rewrite Z.eqb_refl.
      assert (Et : is_eq cmp k k = true) by (apply is_eq_true; reflexivity). rewrite Et. reflexivity.
    - rewrite afind_hi by auto. destruct hi; auto. rewrite Hne. reflexivity.
  Qed.

  (* ---------------------------------------------------------------- Put *)
  Lemma nth_repeat_none : forall n L, nth L (repeat (@None nat) n) None = None.
  Proof. induction n as [|n IH]; intros [|L]; cbn; auto. Qed.

  Lemma contents_app h a b : contents h (a ++ b) = contents h a ++ contents h b.
  Proof. apply map_app. Qed.

  Lemma contents_ext h h' l :
    (forall x, In x l -> keyof h' x = keyof h x /\ valof h' x = valof h x) -> contents h' l = contents h l.
  Proof.
    intros H. apply map_ext_in. intros x Hx. destruct (H x Hx) as [E1 E2]. rewrite E1, E2. reflexivity.
  Qed.

  Lemma keys_ext h h' l : (forall x, In x l -> keyof h' x = keyof h x) -> keys h' l = keys h l.
  Proof. intros H. apply map_ext_in. exact H. Qed.

  Lemma at_level_ext h h' L l : (forall x, In x l -> height h' x = height h x) -> at_level h' L l = at_level h L l.
  Proof. intros H. apply filter_ext_in. intros x Hx. rewrite (H x Hx). reflexivity. Qed.

  Lemma nodup_level h ns lo hi L : Rep h ns -> ns = lo ++ hi -> NoDup (0 :: at_level h L lo).
  Proof.
    intros R Ens. pose proof (Rep_nodup _ _ R) as Hnd. apply NoDup_cons_iff in Hnd. destruct Hnd as [H0 Hnd].
    constructor.
    - intros Hin. apply at_level_in in Hin. apply H0. rewrite Ens. apply in_or_app. tauto.
    - apply NoDup_filter. rewrite Ens in Hnd. apply NoDup_app_remove_r in Hnd. exact Hnd.
  Qed.

  (* a node at or after the split point is never a path node *)
  Lemma hi_not_pth h ns lo hi L x : Rep h ns -> ns = lo ++ hi -> In x hi -> x <> pth h lo L.
  Proof.
    intros R Ens Hx E. pose proof (Rep_nodup _ _ R) as Hnd. apply NoDup_cons_iff in Hnd. destruct Hnd as [H0 Hnd].
    destruct (pth_in h lo L) as [E0|[Hin _]].
    - apply H0. rewrite Ens. apply in_or_app. right. congruence.
    - rewrite Ens in Hnd. rewrite <- E in Hin. exact (NoDup_app_disjoint _ _ _ Hnd Hin Hx).
  Qed.

  Lemma old_node h ns x : Rep h ns -> x = 0 \/ In x ns -> x < length h.
  Proof.
    intros R [->|Hx].
    - destruct (rep_head _ _ R). lia.
    - pose proof (rep_ids _ _ R) as H. rewrite Forall_forall in H. specialize (H x Hx). lia.
  Qed.

  (* overwrite: the value of one live node changes *)
  Lemma set_val_rep h ns c v : Rep h ns -> Rep (set_val c v h) ns.
  Proof.
    intros R. constructor.
    - rewrite length_set_val, height_set_val. exact (rep_head _ _ R).
    - eapply Forall_impl; [|exact (rep_ids _ _ R)]. intros a Ha. cbn beta in *.
      rewrite length_set_val, height_set_val. exact Ha.
    - rewrite (keys_ext h). exact (rep_sorted _ _ R). intros x _. apply keyof_set_val.
    - intros L HL. rewrite (at_level_ext h) by (intros; apply height_set_val).
      eapply chain_ext; [|exact (rep_chain _ _ R L HL)]. intros x _. apply finger_set_val.
  Qed.

  Lemma afind_insert k k' v a b w :
    afind k a = None ->
    afind k' (a ++ (k, v) :: b) = if Z.eqb k' k then Some v else afind k' (a ++ (k, w) :: b).
  Proof.
    intros Ha. rewrite !afind_app. cbn [afind]. destruct (Z.eqb_spec k' k) as [->|Hne].
    - rewrite Ha. reflexivity.
    - reflexivity.
  Qed.

  Lemma afind_insert_new k k' v a b :
    afind k a = None ->
    afind k' (a ++ (k, v) :: b) = if Z.eqb k' k then Some v else afind k' (a ++ b).
  Proof.
    intros Ha. rewrite !afind_app. cbn [afind]. destruct (Z.eqb_spec k' k) as [->|Hne].
    - rewrite Ha. reflexivity.
    - reflexivity.
  Qed.

  Lemma afind_delete k k' v a b :
    afind k a = None -> afind k b = None ->
    afind k' (a ++ b) = if Z.eqb k' k then None else afind k' (a ++ (k, v) :: b).
  Proof.
    intros Ha Hb. rewrite !afind_app. cbn [afind]. destruct (Z.eqb_spec k' k) as [->|Hne].
    - rewrite Ha. exact Hb.
    - reflexivity.
  Qed.

  (* put_rep: the invariant is kept by Put for every height 1..levels, and the structure then stands
     for the association list with k bound to v *)
  Lemma put_rep h ns k v ht : Rep h ns -> 1 <= ht <= levels ->
    exists ns', Rep (put cmp levels k v ht h) ns'
      /\ forall k', afind k' (contents (put cmp levels k v ht h) ns')
                    = if Z.eqb k' k then Some v else afind k' (contents h ns).
  Proof.
    intros R Hht.
    destruct (split_at h k ns (rep_sorted _ _ R)) as (lo & hi & Ens & Hlo & Hhi).
    destruct (skip_spec h ns lo hi k R Ens Hlo Hhi) as (path & Esk & Hplen & Hpath).
    pose proof (Rep_nodup _ _ R) as Hnd. apply NoDup_cons_iff in Hnd. destruct Hnd as [Hn0 Hnd].
    unfold put. rewrite Esk.
    destruct (hi_cases h ns lo hi k R Ens Hhi) as [(c & r & Ehi & Ek & Hr)|[Hgt Hne]].
    - (* the key is there: overwrite *)
      subst hi. cbn [ohd]. rewrite Ek.
      assert (Et : is_eq cmp k k = true) by (apply is_eq_true; reflexivity). rewrite Et.
      exists ns. split; [apply set_val_rep; exact R|].
      intros k'. rewrite Ens in Hnd.
      assert (Hc : c < length h) by (apply (old_node h ns); auto; right; rewrite Ens; apply in_or_app; right; left; reflexivity).
      assert (Hlo' : contents (set_val c v h) lo = contents h lo).
      { apply contents_ext. intros x Hx. rewrite keyof_set_val. split; auto.
        apply valof_set_val_other. intros E. subst x.
        exact (NoDup_app_disjoint _ _ _ Hnd Hx (or_introl eq_refl)). }
      assert (Hr' : contents (set_val c v h) r = contents h r).
      { apply contents_ext. intros x Hx. rewrite keyof_set_val. split; auto.
        apply valof_set_val_other. intros E. subst x.
        apply NoDup_app_remove_l in Hnd. apply NoDup_cons_iff in Hnd. tauto. }
      rewrite Ens, !contents_app. cbn [contents map]. fold (contents (set_val c v h) r). fold (contents h r).
      rewrite Hlo', Hr', keyof_set_val, valof_set_val_same, Ek by exact Hc.
      apply afind_insert. apply afind_lo. exact Hlo.
    - (* the key is absent: a node of height ht is spliced in *)
      set (id := length h).
      set (h1 := h ++ [mkN k v (repeat None ht)]).
      set (h' := fold_left (splice_step path id) (seq 0 ht) h1).
      assert (Eput : match ohd hi None with
                     | Some c' => if is_eq cmp (keyof h c') k then set_val c' v h else h'
                     | None => h' end = h').
      { destruct hi as [|c r]; cbn [ohd]; [reflexivity|]. rewrite Hne. reflexivity. }
      rewrite Eput. clear Eput.
      assert (Hlen1 : length h1 = S (length h)) by (unfold h1; rewrite app_length; cbn; lia).
      assert (Hold1 : forall m, m < length h ->
                 keyof h1 m = keyof h m /\ valof h1 m = valof h m /\ height h1 m = height h m
                 /\ forall L, finger h1 m L = finger h m L).
      { intros m Hm. unfold keyof, valof, height, finger, h1. rewrite getn_alloc_old by exact Hm. auto. }
      assert (Hnew1 : keyof h1 id = k /\ valof h1 id = v /\ height h1 id = ht).
      { unfold keyof, valof, height, h1, id. rewrite getn_alloc_new. cbn. rewrite repeat_length. auto. }
      destruct Hnew1 as (Nk & Nv & Nh).
      assert (Hpb : forall L, L < ht -> nth L path 0 = pth h lo L /\ pth h lo L < length h /\ L < height h (pth h lo L)).
      { intros L HL. split; [apply Hpath; lia|]. apply (pth_bounds h ns lo hi R Ens). lia. }
      assert (Hfold : forall L, 0 <= L < 0 + ht ->
                nth L path 0 < length h1 /\ nth L path 0 <> id /\ L < height h1 (nth L path 0) /\ L < height h1 id).
      { intros L HL. destruct (Hpb L ltac:(lia)) as (E & B1 & B2). rewrite E.
        destruct (Hold1 _ B1) as (_ & _ & Eh & _). rewrite Eh, Nh, Hlen1. unfold id. lia. }
      destruct (splice_fold path id ht 0 h1 ltac:(rewrite Hlen1; unfold id; lia) Hfold) as (Sh & G1 & G2 & G3 & G4).
      fold h' in Sh, G1, G2, G3, G4. destruct Sh as [Hlen' Hsh].
      assert (Hold : forall m, m < length h ->
                 keyof h' m = keyof h m /\ valof h' m = valof h m /\ height h' m = height h m).
      { intros m Hm. destruct (Hsh m) as (A & B & C). destruct (Hold1 m Hm) as (A1 & B1 & C1 & _).
        rewrite A, B, C. auto. }
      assert (Hnew : keyof h' id = k /\ valof h' id = v /\ height h' id = ht).
      { destruct (Hsh id) as (A & B & C). rewrite A, B, C. auto. }
      destruct Hnew as (Nk' & Nv' & Nh').
      assert (Holdns : forall x, x = 0 \/ In x ns -> x < length h) by (intros x Hx; apply (old_node h ns); auto).
      assert (Hinlo : forall x, In x lo -> In x ns) by (intros x Hx; rewrite Ens; apply in_or_app; auto).
      assert (Hinhi : forall x, In x hi -> In x ns) by (intros x Hx; rewrite Ens; apply in_or_app; auto).
      exists (lo ++ id :: hi). split.
      + constructor.
        * rewrite Hlen', Hlen1. split; [lia|]. destruct (Hold 0) as (_ & _ & E).
          { destruct (rep_head _ _ R). lia. }
          rewrite E. exact (proj2 (rep_head _ _ R)).
        * assert (Hall : forall l, (forall x, In x l -> In x ns) ->
                     Forall (fun n => 0 < n < length h' /\ 1 <= height h' n <= levels) l).
          { intros l Hl. rewrite Forall_forall. intros x Hx.
            pose proof (rep_ids _ _ R) as Hi. rewrite Forall_forall in Hi. specialize (Hi x (Hl x Hx)).
            destruct (Hold x ltac:(lia)) as (_ & _ & E). rewrite E, Hlen', Hlen1. lia. }
          apply Forall_app. split; [apply Hall; exact Hinlo|]. constructor; [|apply Hall; exact Hinhi].
          rewrite Nh', Hlen', Hlen1. unfold id. destruct (rep_head _ _ R). lia.
        * unfold keys. rewrite map_app. cbn [map]. rewrite Nk'.
          fold (keys h' lo). fold (keys h' hi).
          rewrite (keys_ext h h' lo), (keys_ext h h' hi).
          2:{ intros x Hx. apply Hold. apply Holdns. auto. }
          2:{ intros x Hx. apply Hold. apply Holdns. auto. }
          apply SS_insert.
          -- pose proof (rep_sorted _ _ R) as Hs. rewrite Ens in Hs. unfold keys in Hs. rewrite map_app in Hs. exact Hs.
          -- rewrite Forall_forall in *. intros y Hy. apply in_map_iff in Hy. destruct Hy as (x & <- & Hx). auto.
          -- rewrite Forall_forall in *. intros y Hy. apply in_map_iff in Hy. destruct Hy as (x & <- & Hx). apply Hgt. exact Hx.
        * intros L HL.
          destruct (chain_split h ns lo hi R Ens L HL) as [C1 C2].
          assert (EA : at_level h' L lo = at_level h L lo).
          { apply at_level_ext. intros x Hx. apply Hold. apply Holdns. auto. }
          assert (EB : at_level h' L hi = at_level h L hi).
          { apply at_level_ext. intros x Hx. apply Hold. apply Holdns. auto. }
          assert (Hfold_old : forall x, x < length h -> (L < ht -> x <> pth h lo L) -> finger h' x L = finger h x L).
          { intros x Hx Hp. destruct (Hold1 x Hx) as (_ & _ & _ & E). rewrite <- E.
            destruct (Nat.lt_ge_cases L ht) as [Hlt|Hge].
            - apply G4; [lia|unfold id; lia|]. destruct (Hpb L Hlt) as (Ep & _). rewrite Ep. auto.
            - apply G1. lia. }
          rewrite at_level_app. cbn [at_level filter]. fold (at_level h' L hi). rewrite Nh', EA, EB.
          set (A := at_level h L lo) in *. set (B := at_level h L hi) in *.
          destruct (Nat.ltb_spec L ht) as [Hlt|Hge].
          -- destruct (Hpb L Hlt) as (Ep & Pb1 & Pb2).
             assert (F3 : finger h' (pth h lo L) L = Some id) by (rewrite <- Ep; apply G3; lia).
             assert (F2 : finger h' id L = finger h (pth h lo L) L).
             { rewrite G2 by lia. rewrite Ep. destruct (Hold1 _ Pb1) as (_ & _ & _ & E). apply E. }
             apply chain_app. split.
             ++ cbn [ohd]. eapply chain_set_last; [| | |exact C1].
                ** exact (nodup_level h ns lo hi L R Ens).
                ** intros x Hx Hxl. apply Hfold_old.
                   --- apply Holdns. destruct Hx as [<-|Hx]; auto. right. apply Hinlo.
                       apply at_level_in in Hx. tauto.
                   --- intros _. exact Hxl.
                ** exact F3.
             ++ cbn [chain]. split; [exact F3|].
                assert (Hext : forall x, In x B -> finger h' x L = finger h x L).
                { intros x Hx. apply at_level_in in Hx. destruct Hx as [Hx _]. apply Hfold_old.
                  - apply Holdns. auto.
                  - intros _. exact (hi_not_pth h ns lo hi L x R Ens Hx). }
                unfold pth in C2. fold A in C2. unfold pth in F2. fold A in F2.
                destruct B as [|d B']; cbn [chain] in *.
                ** rewrite F2. exact C2.
                ** destruct C2 as [C2a C2b]. split; [rewrite F2; exact C2a|].
                   eapply chain_ext; [|exact C2b]. intros x Hx. apply Hext. exact Hx.
          -- pose proof (rep_chain _ _ R L HL) as Hc. rewrite Ens, at_level_app in Hc. fold A B in Hc.
             eapply chain_ext; [|exact Hc]. intros x Hx. apply Hfold_old; [|lia].
             apply Holdns. destruct Hx as [<-|Hx]; auto. right.
             apply in_app_or in Hx. destruct Hx as [Hx|Hx]; apply at_level_in in Hx; [apply Hinlo|apply Hinhi]; tauto.
      + intros k'. rewrite Ens, !contents_app. cbn [contents map]. fold (contents h' hi).
        rewrite Nk', Nv'.
        rewrite (contents_ext h h' lo), (contents_ext h h' hi).
        2:{ intros x Hx. destruct (Hold x) as (A & B & _); auto. }
        2:{ intros x Hx. destruct (Hold x) as (A & B & _); auto. }
        apply afind_insert_new. apply afind_lo. exact Hlo.
  Qed.

  (* ---------------------------------------------------------------- Remove *)
  Lemma remove_rep h ns k : Rep h ns ->
    exists ns', Rep (fst (remove cmp levels k h)) ns'
      /\ snd (remove cmp levels k h) = alookup k (contents h ns)
      /\ forall k', afind k' (contents (fst (remove cmp levels k h)) ns')
                    = if Z.eqb k' k then None else afind k' (contents h ns).
  Proof.
    intros R.
    destruct (split_at h k ns (rep_sorted _ _ R)) as (lo & hi & Ens & Hlo & Hhi).
    destruct (skip_spec h ns lo hi k R Ens Hlo Hhi) as (path & Esk & Hplen & Hpath).
    pose proof (Rep_nodup _ _ R) as Hnd. apply NoDup_cons_iff in Hnd. destruct Hnd as [Hn0 Hnd].
    unfold remove. rewrite Esk.
    destruct (hi_cases h ns lo hi k R Ens Hhi) as [(c & r & Ehi & Ek & Hr)|[Hgt Hne]].
    - (* present: unlink c on every level *)
      subst hi. cbn [ohd]. rewrite Ek.
      assert (Et : is_eq cmp k k = true) by (apply is_eq_true; reflexivity). rewrite Et. cbn [fst snd].
      rewrite (proj2 (rep_head _ _ R)).
      set (h' := fold_left (remove_step path c) (seq 0 levels) h).
      assert (Hfold : forall L, 0 <= L < 0 + levels -> nth L path 0 < length h /\ L < height h (nth L path 0)).
      { intros L HL. rewrite Hpath by lia. apply (pth_bounds h ns lo (c :: r) R Ens). lia. }
      destruct (remove_fold path c levels 0 h Hfold) as (Sh & G1 & G2 & G3 & G4).
      fold h' in Sh, G1, G2, G3, G4. destruct Sh as [Hlen' Hsh].
      assert (Hinlo : forall x, In x lo -> In x ns) by (intros x Hx; rewrite Ens; apply in_or_app; auto).
      assert (Hinr : forall x, In x r -> In x ns) by (intros x Hx; rewrite Ens; apply in_or_app; right; right; auto).
      assert (Hcr : ~ In c r).
      { rewrite Ens in Hnd. apply NoDup_app_remove_l in Hnd. apply NoDup_cons_iff in Hnd. tauto. }
      exists (lo ++ r). split; [|split].
      + constructor.
        * rewrite Hlen'. destruct (Hsh 0) as (_ & _ & E). rewrite E. exact (rep_head _ _ R).
        * pose proof (rep_ids _ _ R) as Hi. rewrite Forall_forall in *. intros x Hx.
          destruct (Hsh x) as (_ & _ & E). rewrite E, Hlen'. apply Hi.
          apply in_app_or in Hx. destruct Hx; auto.
        * rewrite (keys_ext h) by (intros x _; apply Hsh).
          pose proof (rep_sorted _ _ R) as Hs. rewrite Ens in Hs. unfold keys in *. rewrite map_app in *.
          cbn [map] in Hs. eapply SS_delete. exact Hs.
        * intros L HL.
          destruct (chain_split h ns lo (c :: r) R Ens L HL) as [C1 C2].
          rewrite (at_level_ext h) by (intros x _; apply Hsh).
          rewrite at_level_app.
          set (A := at_level h L lo) in *. set (B := at_level h L r).
          set (p := pth h lo L) in *.
          assert (Ep : nth L path 0 = p) by (apply Hpath; exact HL).
          assert (Hoth : forall x, x <> p -> finger h' x L = finger h x L).
          { intros x Hx. apply G2; [lia|]. rewrite Ep. exact Hx. }
          (* the node whose level-L finger the path node now carries *)
          assert (Hq : exists q, chain h L q B None /\ finger h' p L = finger h q L).
          { cbn [at_level filter] in C2. fold (at_level h L r) in C2. fold B in C2.
            destruct (L <? height h c) eqn:Elt.
            - cbn [chain] in C2. destruct C2 as [C2a C2b]. exists c. split; [exact C2b|].
              rewrite <- Ep. apply G3; [lia|]. rewrite Ep. exact C2a.
            - exists p. split; [exact C2|]. rewrite <- Ep. apply G4; [lia|]. rewrite Ep.
              destruct B as [|d B'] eqn:EB; cbn [chain] in C2.
              + rewrite C2. discriminate.
              + destruct C2 as [C2a _]. rewrite C2a. intros E. inversion E; subst d.
                apply Hcr. assert (Hin : In c (at_level h L r)) by (fold B; rewrite EB; left; reflexivity).
                apply at_level_in in Hin. tauto. }
          destruct Hq as (q & Cq & Fq).
          assert (Fp : finger h' p L = ohd B None).
          { rewrite Fq. destruct B; cbn [chain ohd] in *; tauto. }
          apply chain_app. split.
          -- eapply chain_set_last; [| | |exact C1].
             ++ exact (nodup_level h ns lo (c :: r) L R Ens).
             ++ intros x _ Hne. apply Hoth. exact Hne.
             ++ exact Fp.
          -- fold p. destruct B as [|d B'] eqn:EB; cbn [chain ohd] in *.
             ++ exact Fp.
             ++ split; [exact Fp|]. destruct Cq as [_ Cq]. eapply chain_ext; [|exact Cq].
                intros x Hx. apply Hoth.
                assert (Hin : In x (at_level h L r)) by (fold B; rewrite EB; exact Hx).
                apply at_level_in in Hin. destruct Hin as [Hin _].
                apply (hi_not_pth h ns lo (c :: r) L x R Ens). right. exact Hin.
      + unfold alookup. rewrite Ens, contents_app, afind_app, afind_lo by exact Hlo.
        cbn [contents map afind]. rewrite Ek, Z.eqb_refl. reflexivity.
      + intros k'. rewrite (contents_ext h h') by (intros x _; split; apply Hsh).
        rewrite Ens, !contents_app. cbn [contents map]. fold (contents h r). rewrite Ek.
        apply afind_delete; [apply afind_lo; exact Hlo|apply afind_hi; exact Hr].
    - (* absent: nothing changes, the zero value is returned *)
      assert (Erem : match ohd hi None with
                     | Some v => if is_eq cmp (keyof h v) k
                                 then (fold_left (remove_step path v) (seq 0 (height h 0)) h, valof h v)
                                 else (h, 0%Z)
                     | None => (h, 0%Z) end = (h, 0%Z)).
      { destruct hi as [|c r]; cbn [ohd]; [reflexivity|]. rewrite Hne. reflexivity. }
      rewrite Erem. clear Erem. cbn [fst snd].
      assert (Enone : afind k (contents h ns) = None).
      { rewrite Ens, contents_app, afind_app, afind_lo by exact Hlo. apply afind_hi. exact Hgt. }
      exists ns. split; [exact R|]. split.
      + unfold alookup. rewrite Enone. reflexivity.
      + intros k'. destruct (Z.eqb_spec k' k) as [->|_]; auto.
  Qed.

  (* ---------------------------------------------------------------- String() *)
  Lemma print_loop_chain h : forall l n fuel, length l < fuel -> chain h 0 n l None ->
    print_loop fuel h (Some n) = entry h n :: map (entry h) l.
  Proof.
    induction l as [|m l IH]; intros n fuel Hf Hc; (destruct fuel as [|f]; [cbn in Hf; lia|]); cbn [print_loop map].
    - cbn in Hc. rewrite Hc. destruct f; reflexivity.
    - destruct Hc as [Hc1 Hc2]. rewrite Hc1. f_equal. apply IH; auto. cbn in Hf. lia.
  Qed.

  (* the printed form is the head line followed by one line per live node, in chain order *)
  Lemma print_spec h ns : Rep h ns -> print h = entry h 0 :: map (entry h) ns.
  Proof.
    intros R. unfold print. apply print_loop_chain.
    - pose proof (Rep_length _ _ R). lia.
    - pose proof (rep_chain _ _ R 0 levels_pos) as Hc. rewrite at_level_0 in Hc; auto.
      pose proof (rep_ids _ _ R) as H. rewrite Forall_forall in *. intros x Hx. specialize (H x Hx). lia.
  Qed.

  Lemma chain_succ h L : forall l n0 x m, chain h L n0 l None -> In x l -> finger h x L = Some m ->
    exists l1 l2, l = l1 ++ x :: m :: l2.
  Proof.
    intros l n0 x m Hc Hx Hf. apply in_split in Hx. destruct Hx as (l1 & l2 & E). subst l.
    apply chain_app in Hc. destruct Hc as [_ Hc]. cbn [chain] in Hc. destruct Hc as [_ Hc].
    destruct l2 as [|d l2]; cbn [chain] in Hc.
    - congruence.
    - destruct Hc as [Hd _]. assert (d = m) by congruence. subst d. exists l1, l2. reflexivity.
  Qed.

  (* forward pointers only to larger live keys *)
  Lemma finger_larger h ns n L m : Rep h ns -> In n ns -> finger h n L = Some m ->
    In m ns /\ ltk (keyof h n) (keyof h m).
  Proof.
    intros R Hn Hf.
    assert (HL : L < height h n).
    { destruct (Nat.lt_ge_cases L (height h n)) as [H|H]; auto. rewrite finger_oob in Hf by exact H. discriminate. }
    assert (HLl : L < levels).
    { pose proof (rep_ids _ _ R) as H. rewrite Forall_forall in H. specialize (H n Hn). lia. }
    assert (Hin : In n (at_level h L ns)) by (apply at_level_in; auto).
    destruct (chain_succ h L _ 0 n m (rep_chain _ _ R L HLl) Hin Hf) as (l1 & l2 & E).
    split.
    - assert (Hm : In m (at_level h L ns)) by (rewrite E; apply in_or_app; right; right; left; reflexivity).
      apply at_level_in in Hm. tauto.
    - pose proof (SS_map_filter ltk (keyof h) (fun x => L <? height h x) ns (rep_sorted _ _ R)) as Hs.
      fold (at_level h L ns) in Hs. rewrite E, map_app in Hs. apply SS_app_r in Hs. cbn [map] in Hs.
      apply StronglySorted_inv in Hs. destruct Hs as [_ Hs]. apply Forall_cons_iff in Hs. tauto.
  Qed.

  Definition finger_ok (ks : list Z) (e : Z * list (option Z)) : Prop :=
    Forall (fun f => match f with None => True | Some k' => ltk (fst e) k' /\ In k' ks end) (snd e).

  Lemma print_rep h ns : Rep h ns ->
    exists hd body, print h = hd :: body /\ map fst body = keys h ns /\ Forall (finger_ok (keys h ns)) body.
  Proof.
    intros R. exists (entry h 0), (map (entry h) ns). split; [apply print_spec; exact R|]. split.
    - rewrite map_map. reflexivity.
    - rewrite Forall_forall. intros e He. apply in_map_iff in He. destruct He as (n & <- & Hn).
      unfold finger_ok, entry. cbn [fst snd]. rewrite Forall_forall. intros f Hf.
      apply in_map_iff in Hf. destruct Hf as (o & <- & Ho).
      destruct o as [m|]; cbn [option_map]; auto.
      destruct (In_nth _ _ None Ho) as (L & _ & EL). fold (finger h n L) in EL.
      destruct (finger_larger h ns n L m R Hn EL) as [Hm Hlt]. split; auto.
      unfold keys. apply in_map. exact Hm.
  Qed.
End Order.
