(* C18 - what the two mutating loops over the levels do to the heap:
   the splice loop of Put and the unlink loop of Remove, each characterised finger by finger. *)
From Coq Require Import List ZArith Bool Arith Lia.
From Golem Require Import Skiplist.Model Skiplist.Heap.
Import ListNotations.

(* nothing but fingers changes *)
Definition same_shape (g g' : heap) : Prop :=
  length g' = length g
  /\ forall x, keyof g' x = keyof g x /\ valof g' x = valof g x /\ height g' x = height g x.

Lemma same_shape_refl g : same_shape g g.
Proof. split; auto. Qed.

Lemma same_shape_trans g1 g2 g3 : same_shape g1 g2 -> same_shape g2 g3 -> same_shape g1 g3.
Proof.
  intros [L1 H1] [L2 H2]. split; [congruence|]. intros x.
  destruct (H1 x) as (A1 & B1 & C1). destruct (H2 x) as (A2 & B2 & C2).
  repeat split; congruence.
Qed.

Lemma same_shape_set_finger n L v g : same_shape g (set_finger n L v g).
Proof.
  split; [apply length_set_finger|]. intros x.
  rewrite keyof_set_finger, valof_set_finger, height_set_finger. auto.
Qed.

(* ------------------------------------------------------------------ one round of the splice loop *)
Lemma splice_step_spec path id g a :
  let p := nth a path 0 in
  id < length g -> p < length g -> p <> id -> a < height g p -> a < height g id ->
  let g1 := splice_step path id g a in
  same_shape g g1
  /\ (forall x L, L <> a -> finger g1 x L = finger g x L)
  /\ finger g1 id a = finger g p a
  /\ finger g1 p a = Some id
  /\ (forall x, x <> id -> x <> p -> finger g1 x a = finger g x a).
Proof.
  intros p Hid Hp Hne Hhp Hhid g1. unfold g1, splice_step. fold p.
  set (g0 := set_finger id a (finger g p a) g).
  assert (S0 : same_shape g g0) by apply same_shape_set_finger.
  assert (S1 : same_shape g0 (set_finger p a (Some id) g0)) by apply same_shape_set_finger.
  split; [eapply same_shape_trans; eauto|]. split; [|split; [|split]].
  - intros x L HL. rewrite finger_set_finger_other by auto. unfold g0.
    rewrite finger_set_finger_other by auto. reflexivity.
  - rewrite finger_set_finger_other by auto. unfold g0.
    apply finger_set_finger_same; auto.
  - apply finger_set_finger_same.
    + destruct S0 as [E _]. rewrite E. exact Hp.
    + destruct S0 as [_ E]. destruct (E p) as (_ & _ & Eh). rewrite Eh. exact Hhp.
  - intros x Hx1 Hx2. rewrite finger_set_finger_other by auto. unfold g0.
    rewrite finger_set_finger_other by auto. reflexivity.
Qed.

(* the whole loop: for level := a; level < a+n; level++ *)
Lemma splice_fold path id : forall n a g,
  id < length g ->
  (forall L, a <= L < a + n ->
     nth L path 0 < length g /\ nth L path 0 <> id /\ L < height g (nth L path 0) /\ L < height g id) ->
  let g' := fold_left (splice_step path id) (seq a n) g in
  same_shape g g'
  /\ (forall x L, ~ (a <= L < a + n) -> finger g' x L = finger g x L)
  /\ (forall L, a <= L < a + n -> finger g' id L = finger g (nth L path 0) L)
  /\ (forall L, a <= L < a + n -> finger g' (nth L path 0) L = Some id)
  /\ (forall x L, a <= L < a + n -> x <> id -> x <> nth L path 0 -> finger g' x L = finger g x L).
Proof.
  induction n as [|n IH]; intros a g Hid Hp; cbn [seq fold_left].
  - split; [apply same_shape_refl|]. repeat split; intros; auto; lia.
  - destruct (Hp a ltac:(lia)) as (Hp1 & Hp2 & Hp3 & Hp4).
    destruct (splice_step_spec path id g a Hid Hp1 Hp2 Hp3 Hp4) as (S1 & F1 & F2 & F3 & F4).
    set (g1 := splice_step path id g a) in *.
    assert (Hid1 : id < length g1) by (destruct S1 as [E _]; rewrite E; exact Hid).
    assert (Hp' : forall L, S a <= L < S a + n ->
      nth L path 0 < length g1 /\ nth L path 0 <> id /\ L < height g1 (nth L path 0) /\ L < height g1 id).
    { intros L HL. destruct (Hp L ltac:(lia)) as (A & B & C & D). destruct S1 as [E1 E2].
      destruct (E2 (nth L path 0)) as (_ & _ & Eh1). destruct (E2 id) as (_ & _ & Eh2).
      rewrite E1, Eh1, Eh2. auto. }
    destruct (IH (S a) g1 Hid1 Hp') as (S2 & G1 & G2 & G3 & G4).
    split; [eapply same_shape_trans; eauto|]. split; [|split; [|split]].
    + intros x L HL. rewrite G1 by lia. apply F1. lia.
    + intros L HL. destruct (Nat.eq_dec L a) as [->|Hne].
      * rewrite G1 by lia. exact F2.
      * rewrite G2 by lia. apply F1. exact Hne.
    + intros L HL. destruct (Nat.eq_dec L a) as [->|Hne].
      * rewrite G1 by lia. exact F3.
      * apply G3. lia.
    + intros x L HL Hx1 Hx2. destruct (Nat.eq_dec L a) as [->|Hne].
      * rewrite G1 by lia. apply F4; auto.
      * rewrite G4 by (auto; lia). apply F1. exact Hne.
Qed.

(* ------------------------------------------------------------------ one round of the unlink loop *)
Lemma remove_step_spec path c g a :
  let p := nth a path 0 in
  p < length g -> a < height g p ->
  let g1 := remove_step path c g a in
  same_shape g g1
  /\ (forall x L, L <> a -> finger g1 x L = finger g x L)
  /\ (forall x, x <> p -> finger g1 x a = finger g x a)
  /\ (finger g p a = Some c -> finger g1 p a = finger g c a)
  /\ (finger g p a <> Some c -> finger g1 p a = finger g p a).
Proof.
  intros p Hp Hhp g1. unfold g1, remove_step. fold p.
  assert (Ev : (if a <? height g c then finger g c a else None) = finger g c a).
  { destruct (a <? height g c) eqn:E; auto. apply Nat.ltb_ge in E. symmetry. apply finger_oob. exact E. }
  rewrite Ev.
  destruct (finger g p a) as [x|] eqn:Ef.
  - destruct (Nat.eqb_spec x c) as [->|Hne].
    + split; [apply same_shape_set_finger|]. split; [|split; [|split]].
      * intros x L HL. apply finger_set_finger_other. auto.
      * intros x Hx. apply finger_set_finger_other. auto.
      * intros _. apply finger_set_finger_same; auto.
      * intros H. congruence.
    + split; [apply same_shape_refl|]. repeat split; auto. intros H. congruence.
  - split; [apply same_shape_refl|]. repeat split; auto. intros H. congruence.
Qed.

Lemma remove_fold path c : forall n a g,
  (forall L, a <= L < a + n -> nth L path 0 < length g /\ L < height g (nth L path 0)) ->
  let g' := fold_left (remove_step path c) (seq a n) g in
  same_shape g g'
  /\ (forall x L, ~ (a <= L < a + n) -> finger g' x L = finger g x L)
  /\ (forall x L, a <= L < a + n -> x <> nth L path 0 -> finger g' x L = finger g x L)
  /\ (forall L, a <= L < a + n -> finger g (nth L path 0) L = Some c ->
        finger g' (nth L path 0) L = finger g c L)
  /\ (forall L, a <= L < a + n -> finger g (nth L path 0) L <> Some c ->
        finger g' (nth L path 0) L = finger g (nth L path 0) L).
Proof.
  induction n as [|n IH]; intros a g Hp; cbn [seq fold_left].
  - split; [apply same_shape_refl|]. repeat split; intros; auto; lia.
  - destruct (Hp a ltac:(lia)) as (Hp1 & Hp2).
    destruct (remove_step_spec path c g a Hp1 Hp2) as (S1 & F1 & F2 & F3 & F4).
    set (g1 := remove_step path c g a) in *.
    assert (Hp' : forall L, S a <= L < S a + n -> nth L path 0 < length g1 /\ L < height g1 (nth L path 0)).
    { intros L HL. destruct (Hp L ltac:(lia)) as (A & B). destruct S1 as [E1 E2].
      destruct (E2 (nth L path 0)) as (_ & _ & Eh1). rewrite E1, Eh1. auto. }
    destruct (IH (S a) g1 Hp') as (S2 & G1 & G2 & G3 & G4).
    split; [eapply same_shape_trans; eauto|]. split; [|split; [|split]].
    + intros x L HL. rewrite G1 by lia. apply F1. lia.
    + intros x L HL Hx. destruct (Nat.eq_dec L a) as [->|Hne].
      * rewrite G1 by lia. apply F2. exact Hx.
      * rewrite G2 by (auto; lia). apply F1. exact Hne.
    + intros L HL Hf. destruct (Nat.eq_dec L a) as [->|Hne].
      * rewrite G1 by lia. apply F3. exact Hf.
      * rewrite G3; [apply F1; exact Hne|lia|]. rewrite F1 by exact Hne. exact Hf.
    + intros L HL Hf. destruct (Nat.eq_dec L a) as [->|Hne].
      * rewrite G1 by lia. apply F4. exact Hf.
      * rewrite G4; [apply F1; exact Hne|lia|]. rewrite F1 by exact Hne. exact Hf.
Qed.
