(* C18 - pointer-level model of /repo/internal/maplike/skiplist (skiplist.go, skipnode.go).
   Definitions only (executable), no proofs.

   heap  = list of nodes, a node's id is its allocation index, the head is node 0 and has
           [levels] fingers;  node = {key; val; fingers : list (option id)}  (nil = None).
   Every Go loop is transcribed on its own: the inner walk `for next[level] != nil && ... == LT`
   by fuel (heap size + 1: a chain never visits a node twice), the loops over the levels by
   structural recursion (downwards on a counter, upwards over [seq 0 rank]).
   The comparison trait is the argument [cmp]; the height of a new node (what mkNode returned)
   is an explicit argument of [put]. *)
From Coq Require Import List ZArith Bool Arith.
From Golem Require Export Skiplist.Spec.
Import ListNotations.

Record node := mkN { key : Z; val : Z; fingers : list (option nat) }.
Definition heap := list node.

Definition dnode : node := mkN 0 0 [].
Definition getn (h : heap) (n : nat) : node := nth n h dnode.
Definition keyof (h : heap) (n : nat) : Z := key (getn h n).
Definition valof (h : heap) (n : nat) : Z := val (getn h n).
(* node.fingers[L] *)
Definition finger (h : heap) (n L : nat) : option nat := nth L (fingers (getn h n)) None.
(* len(node.fingers) *)
Definition height (h : heap) (n : nat) : nat := length (fingers (getn h n)).

Fixpoint upd {A : Type} (i : nat) (f : A -> A) (l : list A) : list A :=
  match l with
  | [] => []
  | x :: r => match i with O => f x :: r | S j => x :: upd j f r end
  end.

(* node.fingers[L] = v *)
Definition set_finger (n L : nat) (v : option nat) (h : heap) : heap :=
  upd n (fun nd => mkN (key nd) (val nd) (upd L (fun _ => v) (fingers nd))) h.
(* node.val = v *)
Definition set_val (n : nat) (v : Z) (h : heap) : heap :=
  upd n (fun nd => mkN (key nd) v (fingers nd)) h.

(* New: only the head, with [levels] nil fingers *)
Definition empty (levels : nat) : heap := [mkN 0 0 (repeat None levels)].

Section Ops.
  Variable cmp : Z -> Z -> comparison.      (* list.Ord.Compare *)
  Variable levels : nat.                    (* list.levels *)

  Definition is_lt (a b : Z) : bool := match cmp a b with Lt => true | _ => false end.
  Definition is_eq (a b : Z) : bool := match cmp a b with Eq => true | _ => false end.

  (* for next[level] != nil && Compare(next[level].key, key) == LT { node = node.fingers[level] } *)
  Fixpoint walk (fuel : nat) (h : heap) (L : nat) (k : Z) (n : nat) : nat :=
    match fuel with
    | O => n
    | S f =>
        match finger h n L with
        | Some m => if is_lt (keyof h m) k then walk f h L k m else n
        | None => n
        end
    end.

  Definition fuel_of (h : heap) : nat := S (length h).

  (* for level := levels-1; level >= 0; level-- { walk; path[level] = node }
     [lv] = level+1; the path is built so that its element L is path[L] *)
  Fixpoint skip_loop (lv : nat) (h : heap) (k : Z) (n : nat) (path : list nat) : nat * list nat :=
    match lv with
    | O => (n, path)
    | S l => let n' := walk (fuel_of h) h l k n in skip_loop l h k n' (n' :: path)
    end.

  (* returns (next[0], path) *)
  Definition skip (h : heap) (k : Z) : option nat * list nat :=
    let (n, path) := skip_loop levels h k 0 [] in (finger h n 0, path).

  Fixpoint search_loop (lv : nat) (h : heap) (k : Z) (n : nat) : nat :=
    match lv with
    | O => n
    | S l => search_loop l h k (walk (fuel_of h) h l k n)
    end.

  Definition search (h : heap) (k : Z) : option nat := finger h (search_loop levels h k 0) 0.

  (* Get: the zero value is 0 *)
  Definition get (h : heap) (k : Z) : Z :=
    match search h k with
    | Some c => if is_eq (keyof h c) k then valof h c else 0%Z
    | None => 0%Z
    end.

  (* one round of: node.fingers[level] = path[level].fingers[level]; path[level].fingers[level] = node *)
  Definition splice_step (path : list nat) (id : nat) (h : heap) (L : nat) : heap :=
    let p := nth L path 0 in
    set_finger p L (Some id) (set_finger id L (finger h p L) h).

  (* Put; [ht] is the rank mkNode returned (= number of fingers of the new node) *)
  Definition put (k v : Z) (ht : nat) (h : heap) : heap :=
    let (c, path) := skip h k in
    let insert :=
      let id := length h in
      fold_left (splice_step path id) (seq 0 ht) (h ++ [mkN k v (repeat None ht)]) in
    match c with
    | Some c' => if is_eq (keyof h c') k then set_val c' v h else insert
    | None => insert
    end.

  (* one round of the loop of Remove *)
  Definition remove_step (path : list nat) (v : nat) (h : heap) (L : nat) : heap :=
    let p := nth L path 0 in
    match finger h p L with
    | Some x =>
        if Nat.eqb x v
        then set_finger p L (if Nat.ltb L (height h v) then finger h v L else None) h
        else h
    | None => h
    end.

  (* Remove: new heap and the returned value; rank = len(list.head.fingers) *)
  Definition remove (k : Z) (h : heap) : heap * Z :=
    let rank := height h 0 in
    let (c, path) := skip h k in
    match c with
    | Some v =>
        if is_eq (keyof h v) k
        then (fold_left (remove_step path v) (seq 0 rank) h, valof h v)
        else (h, 0%Z)
    | None => (h, 0%Z)
    end.
End Ops.

(* String() as data: one entry per node of the level-0 chain starting with the head,
   (key, the keys its fingers point to / None for nil) *)
Definition entry (h : heap) (n : nat) : Z * list (option Z) :=
  (keyof h n, map (option_map (keyof h)) (fingers (getn h n))).

Fixpoint print_loop (fuel : nat) (h : heap) (v : option nat) : list (Z * list (option Z)) :=
  match fuel with
  | O => []
  | S f => match v with
           | None => []
           | Some n => entry h n :: print_loop f h (finger h n 0)
           end
  end.

Definition print (h : heap) : list (Z * list (option Z)) := print_loop (S (length h)) h (Some 0).

(* histories: [op] of Skiplist/Spec.v *)
(* one operation: new heap and the answer (Put answers nothing: 0) *)
Definition step (cmp : Z -> Z -> comparison) (levels : nat) (h : heap) (o : op) : heap * Z :=
  match o with
  | Put k v ht => (put cmp levels k v ht h, 0%Z)
  | Get k => (h, get cmp levels h k)
  | Remove k => remove cmp levels k h
  end.

Fixpoint run (cmp : Z -> Z -> comparison) (levels : nat) (h : heap) (ops : list op) : heap * list Z :=
  match ops with
  | [] => (h, [])
  | o :: r => let (h1, a) := step cmp levels h o in
              let (h2, l) := run cmp levels h1 r in (h2, a :: l)
  end.

(* the order traits used by the harness: natural and reversed *)
Definition cmp_nat (a b : Z) : comparison := Z.compare a b.
Definition cmp_rev (a b : Z) : comparison := Z.compare b a.
