(* Shared by the oracles of C01 and C02: which field a derivation request selects, judged from the
   observed listing, the depth-first specification listing and the compiler's offsets. No proofs. *)
From Coq Require Import List String ZArith NArith Bool Arith.
From Golem Require Export Check.DeriveObs.
Import ListNotations.

Fixpoint find_idx {A} (p : A -> bool) (l : list A) (i : nat) : option nat :=
  match l with [] => None | x :: r => if p x then Some i else find_idx p r (S i) end.

(* the entry the i-th lens is derived for: first of the listing with the i-th name, or with the i-th type *)
Definition selected (L : list oentry) (attr : list string) (i : nat) (A : ty) : option nat :=
  match attr with
  | [] => find_idx (fun e => String.eqb (o_type e) (ty_string A)) L 0
  | _ => match nth_error attr i with
         | Some n => find_idx (fun e => String.eqb (o_key e) n) L 0
         | None => None
         end
  end.

Definition enumerate {A} (l : list A) : list (nat * A) := zip (seq 0 (List.length l)) l.

(* the field (of the depth-first specification listing) a position selects, when it is a field the
   property speaks about: reached through plain fields and value-embedded structs, declared type A *)
Definition focus_field (sh : shape) (L : list oentry) (attr : list string) (iA : nat * ty) : option (entry * Z) :=
  match selected L attr (fst iA) (snd iA) with
  | Some k =>
      match nth_error (spec_listing (sh_ty sh)) k with
      | Some e =>
          if e_inline e && String.eqb (ty_string (e_ty e)) (ty_string (snd iA)) then
            match compiler_off sh (e_path e) with Some off => Some (e, off) | None => None end
          else None
      | None => None
      end
  | None => None
  end.

Definition in_rangeZ (a n : nat) (i : Z) : bool := (Z.leb (Z.of_nat a) i && Z.ltb i (Z.of_nat (a + n)))%bool.

(* statement 2-5 of the property on one observation: the lens of field [toff] with focus type A *)
Definition lens_exact (sh : shape) (A : ty) (toff : Z) (o : lobs) : bool :=
  let a := (sh_base sh + Z.to_nat toff)%nat in
  let n := sizeof A in
  let before := sh_before sh in
  let after := apply_diff before (lo_diff o) in
  match lo_get0 o with Some g => val_eqb A g (slice_of before a n) | None => false end &&   (* Get = the field's value *)
  negb (lo_pput o) && lo_same o &&                                                          (* Put returns the same pointer *)
  forallb (fun d => in_rangeZ a n (fst d)) (lo_diff o) &&                                   (* nothing else changes: other fields, padding, guards *)
  val_eqb A (slice_of after a n) (lo_v o) &&                                                (* the field becomes the value *)
  match lo_get1 o with Some g => val_eqb A g (lo_v o) | None => false end.                  (* PutGet *)

Definition all2 {A B} (f : A -> B -> bool) (a : list A) (b : list B) : bool :=
  Nat.eqb (List.length a) (List.length b) && forallb (fun p => f (fst p) (snd p)) (zip a b).

Fixpoint all_some {A} (l : list (option A)) : option (list A) :=
  match l with
  | [] => Some []
  | Some x :: r => match all_some r with Some xs => Some (x :: xs) | None => None end
  | None :: _ => None
  end.

Definition accepted (c : case) : bool := match c_obs c with DLenses _ => true | DPanic => false end.
