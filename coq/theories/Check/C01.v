(* C01 model run: see Check/Derive.v. No proofs here. *)
From Golem Require Export Check.C01o Check.Derive.
