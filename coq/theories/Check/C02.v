(* C02 model run: see Check/Derive.v. No proofs here. *)
From Golem Require Export Check.C02o Check.Derive.
