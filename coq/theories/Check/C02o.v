(* C02 oracle: "derivation yields a correctly typed in-bounds focus or panics", as an executable boolean
   over observations only (observed listing, compiler offsets, panic / no panic, bytes changed).
   Independent of the model and of the generated definitions.  No proofs here. *)
From Coq Require Import List String ZArith NArith Bool Arith.
From Golem Require Export Check.DeriveSel.
Import ListNotations.

(* requests that must never be silently accepted *)
Definition must_reject (c : case) : bool :=
  let n := List.length (c_tys c) in
  c_ptr c ||                                                         (* container type parameter is not a struct *)
  match sh_listing (c_shape c) with
  | None => true
  | Some L =>
      match c_attr c with
      | [] => existsb (fun A => match selected L [] 0 A with None => true | Some _ => false end) (c_tys c)   (* a type no field has *)
      | attr =>
          Nat.ltb (List.length attr) n ||                            (* too few names *)
          existsb (fun iA =>
            match selected L attr (fst iA) (snd iA) with
            | None => true                                           (* unknown name *)
            | Some k => match nth_error L k with
                        | Some e => negb (String.eqb (o_type e) (ty_string (snd iA)))   (* the field has another type *)
                        | None => true
                        end
            end) (enumerate (c_tys c))
      end
  end.

(* the fields of the struct itself (not behind a pointer) whose declared type is A, with their compiler offsets *)
Definition fields_of_type (sh : shape) (A : ty) : list Z :=
  flat_map (fun e =>
    if e_inline e && String.eqb (ty_string (e_ty e)) (ty_string A) then
      match compiler_off sh (e_path e) with Some off => [off] | None => [] end
    else []) (spec_listing (sh_ty sh)).

(* an accepted optic with focus type A behaves as the lens of SOME field of declared type A:
   writes stay inside that field, which becomes the value, and reads it back *)
Definition lens_sound (sh : shape) (A : ty) (o : lobs) : bool :=
  existsb (fun toff =>
    let a := (sh_base sh + Z.to_nat toff)%nat in
    let n := sizeof A in
    negb (lo_pput o) &&
    forallb (fun d => in_rangeZ a n (fst d)) (lo_diff o) &&
    val_eqb A (slice_of (apply_diff (sh_before sh) (lo_diff o)) a n) (lo_v o) &&
    match lo_get1 o with Some g => val_eqb A g (lo_v o) | None => false end) (fields_of_type sh A).

(* a Reflector given anything but a pointer to its container panics and modifies nothing *)
Definition dyn_sound (d : dobs) : bool :=
  match dy_arg d with
  | 3%N => true                                  (* ( *S)(nil) is a pointer to the container type *)
  | _ => dy_panic d && negb (dy_changed d)
  end.

Definition oracle (c : case) : bool :=
  let sh := c_shape c in
  match c_obs c with
  | DPanic => true
  | DLenses obs =>
      negb (must_reject c) &&
      match c_via c with
      | VShape =>
          (* one Put of all components: every changed byte lies in a field of one of the requested types *)
          forallb (fun d => existsb (fun A => existsb (fun toff => in_rangeZ (sh_base sh + Z.to_nat toff) (sizeof A) (fst d))
                                                      (fields_of_type sh A)) (c_tys c))
                  (flat_map lo_diff obs) &&
          forallb (fun o => negb (lo_pput o)) obs
      | _ => all2 (lens_sound sh) (c_tys c) obs && forallb (fun o => forallb dyn_sound (lo_dyn o)) obs
      end
  end.

Definition violations (cs : list case) : list N := idx_where (fun c => negb (oracle c)) 0%N cs.

(* (via, container is *T, must be rejected, cases, accepted) *)
Definition digest (cs : list case) : list (N * bool * bool * N * N) :=
  flat_map (fun v => flat_map (fun p => map (fun r =>
     let sel := fun c => N.eqb (via_code (c_via c)) v && Bool.eqb p (c_ptr c) && Bool.eqb r (must_reject c) in
     (v, p, r, count_where sel cs, count_where (fun c => sel c && accepted c) cs)) [false; true]) [false; true]) [0; 1; 2]%N.
