(* C16 oracle: the property itself over what was observed - the callback trace of the recording visitor and
   of the visitors failing at every position - against the STACK-OF-OPEN-CONTEXTS specification (Duct/Spec.v)
   computed from the op list alone.  Independent of the model of append/unit/Apply.  No proofs here. *)
From Coq Require Import List ZArith NArith Bool String.
From Golem Require Export Base.CheckLib Duct.Ast Duct.Spec.
Import ListNotations.
Open Scope Z_scope.

(* one observed callback: which of the ten (numbered in the order of [kind]), depth, what the node showed *)
Record ocb := mkO {
  o_kind : nat; o_depth : Z;
  o_n1 : string; o_n2 : string;      (* From/Yield: Type ; Map: TypeA, TypeB ; Seq: "" *)
  o_id : Z;                          (* the payload Source / F / Target ; Seq: 0 *)
  o_nc : Z;                          (* Seq: len(node.Seq) ; leaves: -1 *)
  o_root : bool; o_def : bool        (* Seq: node.Root, node.Deferred *)
}.

(* a failing visit: compact callback codes seen, whether Apply returned an error, whether it was the injected one *)
Record fvisit := mkF { f_codes : list Z; f_err : bool; f_same : bool }.

Record case := mk {
  prog : program;
  trace : list ocb;          (* recording visitor that never fails *)
  clean_err : bool;          (* ... and whether Apply returned an error then *)
  fails : list fvisit        (* visitor failing at callback 0, 1, ..., len(trace)-1 *)
}.

Definition kind_code (k : kind) : nat :=
  match k with
  | KEnterMorphism => 0 | KLeaveMorphism => 1 | KEnterSeq => 2 | KLeaveSeq => 3 | KEnterMap => 4
  | KLeaveMap => 5 | KEnterFrom => 6 | KLeaveFrom => 7 | KEnterYield => 8 | KLeaveYield => 9
  end%nat.

Definition project (with_def : bool) (c : cb) : ocb :=
  let k := kind_code (ck c) in let d := Z.of_nat (cdepth c) in
  match cnode c with
  | AFrom t s => mkO k d t "" s (-1) false false
  | AMap a b f => mkO k d a b f (-1) false false
  | AYield t x => mkO k d t "" x (-1) false false
  | ASeq r df cs => mkO k d "" "" 0 (Z.of_nat (List.length cs)) r (with_def && df)
  end.
Definition forget_def (o : ocb) : ocb :=
  mkO (o_kind o) (o_depth o) (o_n1 o) (o_n2 o) (o_id o) (o_nc o) (o_root o) false.

Definition ocb_eqb (a b : ocb) : bool :=
  Nat.eqb (o_kind a) (o_kind b) && (o_depth a =? o_depth b) && String.eqb (o_n1 a) (o_n1 b)
  && String.eqb (o_n2 a) (o_n2 b) && (o_id a =? o_id b) && (o_nc a =? o_nc b)
  && Bool.eqb (o_root a) (o_root b) && Bool.eqb (o_def a) (o_def b).

(* the code the harness uses for callbacks of failing visits: kind + 16*depth + 512*ident,
   ident = payload for leaves, 2*len(Seq)+Root for sequences *)
Definition code (o : ocb) : Z :=
  let ident := if o_nc o <? 0 then o_id o else 2 * o_nc o + (if o_root o then 1 else 0) in
  Z.of_nat (o_kind o) + 16 * o_depth o + 512 * ident.

(* --- the property on the observation --- *)
Definition expected (c : case) : list ocb := map (project false) (flatten 0 (spec_tree (prog c))).

(* stack discipline on the observed trace itself *)
Definition same_node (a b : ocb) : bool :=
  String.eqb (o_n1 a) (o_n1 b) && String.eqb (o_n2 a) (o_n2 b) && (o_id a =? o_id b) && (o_nc a =? o_nc b)
  && Bool.eqb (o_root a) (o_root b).
Fixpoint balanced_b (stack : list ocb) (w : list ocb) : bool :=
  match w with
  | [] => is_nil stack
  | c :: r =>
    if Nat.even (o_kind c) then
      match stack with [] => o_depth c =? 0 | e :: _ => o_depth c =? o_depth e + 1 end && balanced_b (c :: stack) r
    else
      match stack with
      | e :: st => (o_depth c =? o_depth e) && same_node c e && Nat.eqb (o_kind c) (S (o_kind e)) && balanced_b st r
      | [] => false
      end
  end.

Fixpoint fails_ok (want : list Z) (j : nat) (fs : list fvisit) : bool :=
  match fs with
  | [] => true
  | f :: r => lz_eqb (f_codes f) (firstn (S j) want) && f_err f && f_same f && fails_ok want (S j) r
  end.

Definition holds (c : case) : bool :=
  let obs := map forget_def (trace c) in
  list_eqb ocb_eqb obs (expected c)                                             (* the tree the combinators describe *)
  && balanced_b [] obs                                                          (* well-bracketed *)
  && N.eqb (count_where (fun o => Nat.eqb (o_kind o) 0) obs) 1                  (* exactly one root morphism *)
  && negb (clean_err c)
  && Nat.eqb (List.length (fails c)) (List.length obs)                          (* one failing visit per position *)
  && fails_ok (map code obs) 0 (fails c).                                       (* stops at once, returns that error *)

Definition violations (cs : list case) : list N := idx_where (fun c => negb (holds c)) 0%N cs.

Definition digest (cs : list case) : list (N * N) :=
  [ (0%N, N.of_nat (List.length cs));
    (1%N, fold_left N.add (map (fun c => N.of_nat (List.length (trace c))) cs) 0%N);
    (2%N, fold_left N.max (map (fun c => fold_left N.max (map (fun o => Z.to_N (o_depth o)) (trace c)) 0%N) cs) 0%N);
    (3%N, fold_left N.add (map (fun c => N.of_nat (List.length (fails c))) cs) 0%N);
    (4%N, fold_left N.max (map (fun c => N.of_nat (List.length (p_ops (prog c)))) cs) 0%N) ].
