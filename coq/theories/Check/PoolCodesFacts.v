(* Facts about the executable stage codes (Check/PoolCodes.v) that tie them to the list functions the theorems of
   Properties/C05.v are stated with. *)
From Coq Require Import List ZArith Lia.
From Golem Require Import Check.PoolCodes.
Import ListNotations.
Open Scope Z_scope.

(* the executable image of Take clamps the count to the length of the input (so that it can be evaluated for a count
   like MaxInt64): it is the list function firstn of C05_take_safe / C05_take_complete *)
Lemma take_image (n : Z) (xs : list Z) :
  image (STake n) 0 xs = firstn (Z.to_nat n) xs.
Proof.
  unfold image. destruct (Z.le_ge_cases n (Z.of_nat (length xs))) as [H|H].
  - rewrite Z.min_l by exact H. reflexivity.
  - rewrite Z.min_r by lia. rewrite Nat2Z.id. rewrite firstn_all. symmetry. apply firstn_all2. lia.
Qed.
