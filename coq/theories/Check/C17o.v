(* C17 oracle: the property as an executable boolean over what the real instances returned.
   Independent of the generated definitions. No proofs. *)
From Coq Require Import List ZArith NArith Bool.
From Golem Require Export Base.CheckLib Pure.Prelude.
Import ListNotations.
Open Scope Z_scope.

(* kind: 0 eqint 1 eqstr 2 ordint 3 ordstr 4 cmeq 5 cmord 6 fromeq 7 fromord 8 sgfrom 9 monfrom 10 monfromop
         11 cmfromeq 12 cmfromord: ContraMap over a From instance whose relation is NOT symmetric (argument order shows)
         13 fromorddist 14 cmfromorddist: a wrapped comparator that returns a distance (any Ordering, not only -1/0/1)
         15 monslice: a monoid over lists, concatenation, with the given empty element [e; e+1] truncated to `code` entries;
            obs = length-prefixed Empty, Combine a b, Combine b a, Combine Empty a *)
Record case := mk { kind : N; code : Z; a : list Z; b : list Z; e : Z; obs : list Z }.

Definition b2z (x : bool) : Z := if x then 1 else 0.
Definition hd0 (l : list Z) : Z := match l with x :: _ => x | [] => 0 end.

(* the coded projection / operation families of the harness; x / 2 is Go's truncated division *)
Definition proj (c : Z) (x : Z) : Z := match c with 0 => x mod 5 | 1 => - x | _ => Z.quot x 2 end.
Definition bop (c : Z) (x y : Z) : Z := match c with 0 => x - y | 1 => 3 * x + y | _ => x * y end.

Definition cmp_spec {T} (lt : T -> T -> bool) (x y : T) : Z := if lt x y then -1 else if lt y x then 1 else 0.

(* the given empty element of kind 15 and the length-prefixed listing of a list *)
Definition sempty (c : case) : list Z := firstn (Z.to_nat (code c)) [e c; e c + 1].
Definition lenc (l : list Z) : list Z := Z.of_nat (length l) :: l.

Definition required (c : case) : list Z :=
  let x := hd0 (a c) in let y := hd0 (b c) in
  match kind c with
  | 0%N => [b2z (Z.eqb x y)]
  | 1%N => [b2z (str_eqb (a c) (b c))]
  | 2%N => [cmp_spec Z.ltb x y]
  | 3%N => [cmp_spec str_ltb (a c) (b c)]
  | 4%N => [b2z (Z.eqb (proj (code c) x) (proj (code c) y))]
  | 5%N => [cmp_spec Z.ltb (proj (code c) x) (proj (code c) y)]
  | 6%N => [b2z (Z.eqb x (y + code c))]
  | 7%N => [cmp_spec Z.ltb x (y + code c)]
  | 8%N => [bop (code c) x y]
  | 11%N => [b2z (Z.eqb (proj (code c) x) (proj (code c) y + code c))]
  | 12%N => [cmp_spec Z.ltb (proj (code c) x) (proj (code c) y + code c)]
  | 13%N => [x - y + code c]
  | 14%N => [proj (code c) x - proj (code c) y + code c]
  | 15%N => let em := sempty c in lenc em ++ lenc (a c ++ b c) ++ lenc (b c ++ a c) ++ lenc (em ++ a c)
  | _ => [e c; bop (code c) x y; bop (code c) y x]
  end.

Definition violations (cs : list case) : list N := idx_where (fun c => negb (lz_eqb (required c) (obs c))) 0%N cs.
Definition digest (cs : list case) : list (N * N) :=
  map (fun k => (k, count_where (fun c => N.eqb (kind c) k) cs)) (map N.of_nat (seq 0 16)).
