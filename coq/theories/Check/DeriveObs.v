(* Shared by the checkers of C01 and C02: one derivation request (ForProductN / ForSpectrumN / ForShapeN)
   with what the derived optics did to an arena.  Observation types and byte utilities; no model here,
   no proofs. *)
From Coq Require Import List String ZArith NArith Bool Arith.
From Golem Require Export Check.OpticsObs.
Import ListNotations.

Inductive via := VProduct | VSpectrum | VShape.

(* Gett/Putt with a dynamic argument that is not a *S: 0 = S by value, 1 = *Other, 2 = nil, 3 = ( *S)(nil) *)
Record dobs := mkD { dy_arg : N; dy_put : bool; dy_panic : bool; dy_changed : bool }.

(* one derived optic exercised on a fresh copy of the shape's arena:
   Get, Put of value v, Get again; None / true = the call panicked *)
Record lobs := mkL {
  lo_get0 : option (list Z);
  lo_v : list Z;
  lo_pput : bool;
  lo_same : bool;                 (* Put returned the pointer it was given *)
  lo_diff : list (Z * Z);         (* bytes of the arena that changed: (index, new byte) *)
  lo_get1 : option (list Z);
  lo_dyn : list dobs
}.

Inductive dres := DPanic | DLenses (l : list lobs).

Record case := mk {
  c_shape : shape;
  c_via : via;
  c_ptr : bool;                   (* the container type parameter is *T *)
  c_tys : list ty;                (* requested focus types A1..AN *)
  c_attr : list string;           (* attr... *)
  c_spare : list string;          (* names behind the end of attr, inside its capacity (normally none) *)
  c_obs : dres
}.

(* ---- bytes ---------------------------------------------------------------------- *)
Fixpoint set_nth {A} (l : list A) (i : nat) (x : A) : list A :=
  match l, i with
  | [], _ => []
  | _ :: r, O => x :: r
  | y :: r, S i' => y :: set_nth r i' x
  end.

Definition apply_diff (m : list Z) (d : list (Z * Z)) : list Z :=
  fold_left (fun m p => set_nth m (Z.to_nat (fst p)) (snd p)) d m.

(* overlay m at x: m with x written over it from position [at] (never grows m) *)
Fixpoint overlay0 (m x : list bool) : list bool :=
  match m, x with
  | _ :: m', c :: x' => c :: overlay0 m' x'
  | _, _ => m
  end.
Fixpoint overlay (m : list bool) (at_ : nat) (x : list bool) : list bool :=
  match at_, m with
  | O, _ => overlay0 m x
  | S k, b :: m' => b :: overlay m' k x
  | S _, [] => []
  end.

(* data bytes of a value of type t (false = padding, whose content a typed copy need not preserve) *)
Fixpoint data_mask (t : ty) : list bool :=
  match t with
  | TStruct _ size fs =>
      (fix go (fs : list (fdecl * ty)) (m : list bool) : list bool :=
         match fs with
         | [] => m
         | (d, ft) :: r => go r (overlay m (foff d) (data_mask ft))
         end) fs (repeat false size)
  | _ => repeat true (sizeof t)
  end.

(* equality of two values of type t on their data bytes *)
Fixpoint masked_eqb (mask : list bool) (a b : list Z) : bool :=
  match mask, a, b with
  | [], [], [] => true
  | k :: mask', x :: a', y :: b' => (negb k || Z.eqb x y) && masked_eqb mask' a' b'
  | _, _, _ => false
  end.
Definition val_eqb (t : ty) (a b : list Z) : bool := masked_eqb (data_mask t) a b.
Definition oval_eqb (t : ty) (a b : option (list Z)) : bool :=
  match a, b with Some x, Some y => val_eqb t x y | None, None => true | _, _ => false end.

(* true = a padding byte inside one of the given foci (absolute start, type): ignorable *)
Definition arena_mask (len : nat) (foci : list (nat * ty)) : list bool :=
  fold_left (fun m f => overlay m (fst f) (map negb (data_mask (snd f)))) foci (repeat false len).
Fixpoint arenas_eqb (ign : list bool) (a b : list Z) : bool :=
  match ign, a, b with
  | [], [], [] => true
  | k :: ign', x :: a', y :: b' => (k || Z.eqb x y) && arenas_eqb ign' a' b'
  | _, _, _ => false
  end.

Definition slice_of (m : list Z) (a n : nat) : list Z := firstn n (skipn a m).

Definition via_code (v : via) : N := match v with VProduct => 0 | VSpectrum => 1 | VShape => 2 end%N.
