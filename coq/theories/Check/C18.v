(* C18 model run: the heap model of Skiplist/Model.v replays the history with the heights the real
   nodes were seen to have; after every operation its answer, Get of every key of the universe and its
   printed structure (keys in chain order, finger keys / nil of every node, head included) must equal
   what the real code showed.  No proofs here. *)
From Coq Require Import List ZArith NArith Bool.
From Golem Require Export Check.C18o.
From Golem Require Import Skiplist.Model.
Import ListNotations.
Open Scope Z_scope.

Definition oz_eqb := opt_eqb Z.eqb.
Definition entry_eqb (a b : Z * list (option Z)) : bool :=
  Z.eqb (fst a) (fst b) && list_eqb oz_eqb (snd a) (snd b).

Fixpoint steps_agree (cmp : Z -> Z -> comparison) (lv : nat) (univ : list Z) (h : heap) (l : list (op * obs)) : bool :=
  match l with
  | [] => true
  | (c, ob) :: r =>
      let (h', a) := step cmp lv h c in
      Z.eqb a (ans ob)
      && lz_eqb (map (get cmp lv h') univ) (gets ob)
      && list_eqb entry_eqb (print h') (pr ob)
      && steps_agree cmp lv univ h' r
  end.

Definition agree (c : case) : bool :=
  steps_agree (cmpo (order c)) (levels c) (universe c) (empty (levels c)) (steps c).

Definition mismatches (cs : list case) : list N := idx_where (fun c => negb (agree c)) 0%N cs.
