(* C19 model run: the transcriptions of list.go and slice.go (Seq/Model.v) driven by the script and
   compared with what the real traits did.  No proofs here. *)
From Coq Require Import List ZArith NArith Bool.
From Golem Require Export Check.C19o.
From Golem Require Import Seq.GenFoldFacts.
Import ListNotations.
Open Scope Z_scope.

Definition fuel : nat := 64.           (* = walkFuel of the harness; sequences stay below 13 elements *)
Definition model_list (c : case) := run0 list_impl mon fuel nmon (script c).
Definition model_slice (c : case) := run0 (slice_impl (fun _ _ => O)) mon fuel nmon (script c).

(* the harness promises that no fold leaves int64 (it aborts otherwise); re-checked here *)
Definition in_i64 (z : Z) : bool := (- 9223372036854775808 <=? z) && (z <=? 9223372036854775807).
Definition snap_in_range (s : snap) : bool :=
  forallb (fun f => match f with Some z => in_i64 z | None => true end) (sn_folds s).
Definition all_in_range (o : list (res * list snap)) : bool :=
  forallb (fun x => match fst x with RVal z => in_i64 z | _ => true end && forallb snap_in_range (snd x)) o.

(* volume cases: New(vlist n a0...) then Fold under vmon and Length, on the transcriptions of both traits *)
Definition vol_model (I : impl) (n : nat) (a0 : Z) : option Z * Z :=
  let r := inew I (ih0 I) (vlist n a0) 0 in
  (* the loop regenerated from foldable.go (coq/gen/GenFold.v) at the transcription of the trait *)
  (gen_fold I (S (S (S n))) vmon (fst r) (snd r), ilength I (fst r) (snd r)).
Definition vol_agrees (v : list Z) : bool :=
  match v with
  | [] => true
  | [n; a0; fl; fs; ll; ls] =>
      match vol_model list_impl (Z.to_nat n) a0, vol_model (slice_impl (fun _ _ => O)) (Z.to_nat n) a0 with
      | (Some f1, l1), (Some f2, l2) => (f1 =? fl) && (l1 =? ll) && (f2 =? fs) && (l2 =? ls)
      | _, _ => false
      end
  | _ => false
  end.

Definition agrees (c : case) : bool :=
  obs_eqb (obs_list c) (model_list c) && obs_eqb (obs_slice c) (model_slice c) && all_in_range (required c) && vol_agrees (vol c).

Definition mismatches (cs : list case) : list N := idx_where (fun c => negb (agrees c)) 0%N cs.
