(* C14 checker: one case = an expression tree (function codes, source slices) and what the real
   iterators of /repo/trait/seq did on it.  [mismatches]: operational model vs observation;
   [violations]: the property itself (list semantics [den], sources untouched, ForEach prefix)
   vs observation.  No proofs here. *)
From Coq Require Import List ZArith NArith Bool.
From Golem Require Export Base.CheckLib Iter.Model.
Import ListNotations.
Open Scope Z_scope.

(* how the iterator was consumed: the documented loop, or seq.ForEach with a callback that fails
   at its k-th call (error code 7000+k) or on the first element satisfying p (error code = element) *)
Inductive cb := CbDrain | CbPos (k : nat) | CbPred (p : pcode).

Definition interp_cb (m : cb) (i : nat) (x : Z) : option Z :=
  match m with
  | CbDrain => None
  | CbPos k => if Nat.eqb i k then Some (7000 + Z.of_nat k) else None
  | CbPred p => if interp_p p x then Some x else None
  end.

Record case := mk {
  expr : e;
  mode : cb;
  obs : list Z;               (* drained list / elements the ForEach callback saw, in order *)
  err : option Z;             (* error returned by ForEach *)
  after : list (list Z);      (* contents of the source slices after the run, pre-order *)
  post : list (Z * Z);        (* outside the documented protocol, compared with the model only: what two more Next()
                                 calls answered after the loop ended: (-1,0) panic, (0,0) false, (1,v) true with Value v *)
  panicked : bool             (* the real code panicked or did not stop *)
}.

Definition FUEL : nat := Eval vm_compute in N.to_nat 10000.

Definition agrees (r : list Z * option Z) (c : case) : bool :=
  lz_eqb (fst r) (obs c) && opt_eqb Z.eqb (snd r) (err c) && negb (panicked c).

(* the property over observations only *)
Definition required (c : case) : list Z * option Z :=
  match mode c with
  | CbDrain => (den 0 (expr c), None)
  | m => upto (interp_cb m) 0%nat (den 0 (expr c))
  end.
(* "stops with the first error": after a ForEach that returned an error the iterator stands on the failing element,
   the last one the callback saw *)
Definition stopped_at_error (c : case) : bool :=
  match mode c, err c with
  | CbDrain, _ => true
  | _, None => true
  | _, Some _ => match post c with [(2, v)] => Z.eqb v (last (obs c) 0) | _ => false end
  end.
Definition oracle (c : case) : bool :=
  agrees (required c) c && list_eqb lz_eqb (after c) (sources (expr c)) && stopped_at_error c.

(* the operational model *)
Definition model (c : case) : option (list Z * option Z) :=
  match mode c with
  | CbDrain => option_map (fun l => (l, None)) (run FUEL (expr c))
  | m => run_foreach FUEL (interp_cb m) (expr c)
  end.
(* the iterator the documented loop leaves behind, and what further Next() calls do to it *)
Fixpoint final (fuel : nat) (i : it) : option it :=
  match fuel with O => None | S n =>
  match next FUEL i with
  | None => None
  | Some (false, i') => Some i'
  | Some (true, i') => final n i'
  end end.
Fixpoint again (k : nat) (i : it) : list (Z * Z) :=
  match k with O => [] | S k' =>
  match next FUEL i with
  | None => [(-1, 0)]
  | Some (false, i') => (0, 0) :: again k' i'
  | Some (true, i') => (1, value i') :: again k' i'
  end end.
Definition model_post (c : case) : list (Z * Z) :=
  match mode c, build FUEL 0 (expr c) with
  | CbDrain, Some i => if is_nil i then [] else match final FUEL i with Some i' => again 2 i' | None => [] end
  | CbDrain, None => []
  (* ForEach stops at the first error: where the MODEL's iterator stands when its loop returns the error
     (Iter/SeqProofs.foreach_stops_at_error: on the element whose callback failed), reported as (2, Value()) *)
  | m, _ => match run_foreach_st FUEL (interp_cb m) (expr c) with
            | Some (_, Some _, j) => [(2, value j)]
            | _ => []
            end
  end.
Definition zz_eqb (a b : Z * Z) : bool := Z.eqb (fst a) (fst b) && Z.eqb (snd a) (snd b).

Definition model_ok (c : case) : bool :=
  match model c with Some r => agrees r c && list_eqb zz_eqb (model_post c) (post c) | None => false end.

Definition mismatches (cs : list case) : list N := idx_where (fun c => negb (model_ok c)) 0%N cs.
Definition violations (cs : list case) : list N := idx_where (fun c => negb (oracle c)) 0%N cs.

Definition is_drain (c : case) : bool := match mode c with CbDrain => true | _ => false end.
(* (drain cases, ForEach cases, ForEach cases that returned an error, cases with an empty result, elements seen) *)
Definition digest (cs : list case) : N * N * N * N * N :=
  (count_where is_drain cs,
   count_where (fun c => negb (is_drain c)) cs,
   count_where (fun c => match err c with Some _ => true | None => false end) cs,
   count_where (fun c => match obs c with [] => true | _ => false end) cs,
   N.of_nat (fold_left (fun a c => (a + length (obs c))%nat) cs 0%nat)).
