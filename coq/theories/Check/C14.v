(* C14 checker: one case = an expression tree (function codes, source slices) and what the real
   iterators of /repo/trait/seq did on it.  [mismatches]: operational model vs observation;
   [violations]: the property itself (list semantics [den], sources untouched, ForEach prefix)
   vs observation.  No proofs here. *)
From Coq Require Import List ZArith NArith Bool.
From Golem Require Export Base.CheckLib Iter.Model.
Import ListNotations.
Open Scope Z_scope.

(* how the iterator was consumed: the documented loop, or seq.ForEach with a callback that fails
   at its k-th call (error code 7000+k) or on the first element satisfying p (error code = element) *)
Inductive cb := CbDrain | CbPos (k : nat) | CbPred (p : pcode).

Definition interp_cb (m : cb) (i : nat) (x : Z) : option Z :=
  match m with
  | CbDrain => None
  | CbPos k => if Nat.eqb i k then Some (7000 + Z.of_nat k) else None
  | CbPred p => if interp_p p x then Some x else None
  end.

Record case := mk {
  expr : e;
  mode : cb;
  obs : list Z;               (* drained list / elements the ForEach callback saw, in order *)
  err : option Z;             (* error returned by ForEach *)
  after : list (list Z);      (* contents of the source slices after the run, pre-order *)
  panicked : bool             (* the real code panicked or did not stop *)
}.

Definition FUEL : nat := N.to_nat 20000.

Definition agrees (r : list Z * option Z) (c : case) : bool :=
  lz_eqb (fst r) (obs c) && opt_eqb Z.eqb (snd r) (err c) && negb (panicked c).

(* the property over observations only *)
Definition required (c : case) : list Z * option Z :=
  match mode c with
  | CbDrain => (den 0 (expr c), None)
  | m => upto (interp_cb m) 0%nat (den 0 (expr c))
  end.
Definition oracle (c : case) : bool :=
  agrees (required c) c && list_eqb lz_eqb (after c) (sources (expr c)).

(* the operational model *)
Definition model (c : case) : option (list Z * option Z) :=
  match mode c with
  | CbDrain => option_map (fun l => (l, None)) (run FUEL (expr c))
  | m => run_foreach FUEL (interp_cb m) (expr c)
  end.
Definition model_ok (c : case) : bool :=
  match model c with Some r => agrees r c | None => false end.

Definition mismatches (cs : list case) : list N := idx_where (fun c => negb (model_ok c)) 0%N cs.
Definition violations (cs : list case) : list N := idx_where (fun c => negb (oracle c)) 0%N cs.

Definition is_drain (c : case) : bool := match mode c with CbDrain => true | _ => false end.
(* (drain cases, ForEach cases, ForEach cases that returned an error, cases with an empty result, elements seen) *)
Definition digest (cs : list case) : N * N * N * N * N :=
  (count_where is_drain cs,
   count_where (fun c => negb (is_drain c)) cs,
   count_where (fun c => match err c with Some _ => true | None => false end) cs,
   count_where (fun c => match obs c with [] => true | _ => false end) cs,
   N.of_nat (fold_left (fun a c => (a + length (obs c))%nat) cs 0%nat)).
