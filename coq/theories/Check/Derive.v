(* Shared by the checkers of C01 and C02: the model of a derivation request -- the generated
   ForProductN / ForSpectrumN / ForShapeN over Optics/ -- run on the reflected descriptor and the arena,
   compared with the observation. No proofs here.  (Written by tools/scripts/gen_derive_v.py.) *)
From Coq Require Import List String ZArith NArith Bool Arith.
From Golem Require Export Check.DeriveObs.
From Golem Require Import Optics.GenPrelude.
From GolemGen Require Import GenHseq GenOptics GenShape.
Import ListNotations.
Open Scope res_scope.

Definition run_product (T : ty) (ts : list ty) (attr : list string) : res (list optic) :=
  match ts with
  | [a] => xa <- ForProduct1 T a attr ;; Ok [xa]
  | [a; b] => '(xa, xb) <- ForProduct2 T a b attr ;; Ok [xa; xb]
  | [a; b; c] => '(xa, xb, xc) <- ForProduct3 T a b c attr ;; Ok [xa; xb; xc]
  | [a; b; c; d] => '(xa, xb, xc, xd) <- ForProduct4 T a b c d attr ;; Ok [xa; xb; xc; xd]
  | [a; b; c; d; e] => '(xa, xb, xc, xd, xe) <- ForProduct5 T a b c d e attr ;; Ok [xa; xb; xc; xd; xe]
  | [a; b; c; d; e; f] => '(xa, xb, xc, xd, xe, xf) <- ForProduct6 T a b c d e f attr ;; Ok [xa; xb; xc; xd; xe; xf]
  | [a; b; c; d; e; f; g] => '(xa, xb, xc, xd, xe, xf, xg) <- ForProduct7 T a b c d e f g attr ;; Ok [xa; xb; xc; xd; xe; xf; xg]
  | [a; b; c; d; e; f; g; h] => '(xa, xb, xc, xd, xe, xf, xg, xh) <- ForProduct8 T a b c d e f g h attr ;; Ok [xa; xb; xc; xd; xe; xf; xg; xh]
  | [a; b; c; d; e; f; g; h; i] => '(xa, xb, xc, xd, xe, xf, xg, xh, xi) <- ForProduct9 T a b c d e f g h i attr ;; Ok [xa; xb; xc; xd; xe; xf; xg; xh; xi]
  | _ => Panic
  end.

Definition run_spectrum (T : ty) (ts : list ty) (attr : list string) : res (list lens) :=
  match ts with
  | [a] => xa <- ForSpectrum1 T a attr ;; Ok [xa]
  | [a; b] => '(xa, xb) <- ForSpectrum2 T a b attr ;; Ok [xa; xb]
  | [a; b; c] => '(xa, xb, xc) <- ForSpectrum3 T a b c attr ;; Ok [xa; xb; xc]
  | [a; b; c; d] => '(xa, xb, xc, xd) <- ForSpectrum4 T a b c d attr ;; Ok [xa; xb; xc; xd]
  | [a; b; c; d; e] => '(xa, xb, xc, xd, xe) <- ForSpectrum5 T a b c d e attr ;; Ok [xa; xb; xc; xd; xe]
  | [a; b; c; d; e; f] => '(xa, xb, xc, xd, xe, xf) <- ForSpectrum6 T a b c d e f attr ;; Ok [xa; xb; xc; xd; xe; xf]
  | [a; b; c; d; e; f; g] => '(xa, xb, xc, xd, xe, xf, xg) <- ForSpectrum7 T a b c d e f g attr ;; Ok [xa; xb; xc; xd; xe; xf; xg]
  | [a; b; c; d; e; f; g; h] => '(xa, xb, xc, xd, xe, xf, xg, xh) <- ForSpectrum8 T a b c d e f g h attr ;; Ok [xa; xb; xc; xd; xe; xf; xg; xh]
  | [a; b; c; d; e; f; g; h; i] => '(xa, xb, xc, xd, xe, xf, xg, xh, xi) <- ForSpectrum9 T a b c d e f g h i attr ;; Ok [xa; xb; xc; xd; xe; xf; xg; xh; xi]
  | _ => Panic
  end.

Inductive anyshape :=
| Sh2 (s : shape2)
| Sh3 (s : shape3)
| Sh4 (s : shape4)
| Sh5 (s : shape5)
| Sh6 (s : shape6)
| Sh7 (s : shape7)
| Sh8 (s : shape8)
| Sh9 (s : shape9).

Definition run_shape (T : ty) (ts : list ty) (attr : list string) : res anyshape :=
  match ts with
  | [a; b] => rmap Sh2 (ForShape2 T a b attr)
  | [a; b; c] => rmap Sh3 (ForShape3 T a b c attr)
  | [a; b; c; d] => rmap Sh4 (ForShape4 T a b c d attr)
  | [a; b; c; d; e] => rmap Sh5 (ForShape5 T a b c d e attr)
  | [a; b; c; d; e; f] => rmap Sh6 (ForShape6 T a b c d e f attr)
  | [a; b; c; d; e; f; g] => rmap Sh7 (ForShape7 T a b c d e f g attr)
  | [a; b; c; d; e; f; g; h] => rmap Sh8 (ForShape8 T a b c d e f g h attr)
  | [a; b; c; d; e; f; g; h; i] => rmap Sh9 (ForShape9 T a b c d e f g h i attr)
  | _ => Panic
  end.

Definition shape_components (s : anyshape) : list optic :=
  match s with
  | Sh2 s => [shape2_a s; shape2_b s]
  | Sh3 s => [shape3_a s; shape3_b s; shape3_c s]
  | Sh4 s => [shape4_a s; shape4_b s; shape4_c s; shape4_d s]
  | Sh5 s => [shape5_a s; shape5_b s; shape5_c s; shape5_d s; shape5_e s]
  | Sh6 s => [shape6_a s; shape6_b s; shape6_c s; shape6_d s; shape6_e s; shape6_f s]
  | Sh7 s => [shape7_a s; shape7_b s; shape7_c s; shape7_d s; shape7_e s; shape7_f s; shape7_g s]
  | Sh8 s => [shape8_a s; shape8_b s; shape8_c s; shape8_d s; shape8_e s; shape8_f s; shape8_g s; shape8_h s]
  | Sh9 s => [shape9_a s; shape9_b s; shape9_c s; shape9_d s; shape9_e s; shape9_f s; shape9_g s; shape9_h s; shape9_i s]
  end.

Definition shape_put (s : anyshape) (p : ptr) (vs : list value) : M ptr :=
  match s, vs with
  | Sh2 s, [va; vb] => shape2_Put s p va vb
  | Sh3 s, [va; vb; vc] => shape3_Put s p va vb vc
  | Sh4 s, [va; vb; vc; vd] => shape4_Put s p va vb vc vd
  | Sh5 s, [va; vb; vc; vd; ve] => shape5_Put s p va vb vc vd ve
  | Sh6 s, [va; vb; vc; vd; ve; vf] => shape6_Put s p va vb vc vd ve vf
  | Sh7 s, [va; vb; vc; vd; ve; vf; vg] => shape7_Put s p va vb vc vd ve vf vg
  | Sh8 s, [va; vb; vc; vd; ve; vf; vg; vh] => shape8_Put s p va vb vc vd ve vf vg vh
  | Sh9 s, [va; vb; vc; vd; ve; vf; vg; vh; vi] => shape9_Put s p va vb vc vd ve vf vg vh vi
  | _, _ => fun _ => Panic
  end.

Definition shape_get (s : anyshape) (p : ptr) : M (list value) :=
  match s with
  | Sh2 s => bindM (shape2_Get s p) (fun '(va, vb) => retM [va; vb])
  | Sh3 s => bindM (shape3_Get s p) (fun '(va, vb, vc) => retM [va; vb; vc])
  | Sh4 s => bindM (shape4_Get s p) (fun '(va, vb, vc, vd) => retM [va; vb; vc; vd])
  | Sh5 s => bindM (shape5_Get s p) (fun '(va, vb, vc, vd, ve) => retM [va; vb; vc; vd; ve])
  | Sh6 s => bindM (shape6_Get s p) (fun '(va, vb, vc, vd, ve, vf) => retM [va; vb; vc; vd; ve; vf])
  | Sh7 s => bindM (shape7_Get s p) (fun '(va, vb, vc, vd, ve, vf, vg) => retM [va; vb; vc; vd; ve; vf; vg])
  | Sh8 s => bindM (shape8_Get s p) (fun '(va, vb, vc, vd, ve, vf, vg, vh) => retM [va; vb; vc; vd; ve; vf; vg; vh])
  | Sh9 s => bindM (shape9_Get s p) (fun '(va, vb, vc, vd, ve, vf, vg, vh, vi) => retM [va; vb; vc; vd; ve; vf; vg; vh; vi])
  end.


Definition container (c : case) : ty := if c_ptr c then TPtr (sh_ty (c_shape c)) else sh_ty (c_shape c).

Definition res_opt {A} (r : res A) : option A := match r with Ok a => Some a | Panic => None end.

(* what the model says one optic does on the shape's arena, against one observation *)
Definition lens_agrees (sh : shape) (A : ty) (get : mem -> res value) (put : mem -> value -> res mem)
           (foci : list (nat * ty)) (o : lobs) : bool :=
  let m0 := sh_before sh in
  oval_eqb A (res_opt (get m0)) (lo_get0 o) &&
  match put m0 (lo_v o) with
  | Panic => lo_pput o && match lo_diff o with [] => true | _ => false end
  | Ok m1 =>
      negb (lo_pput o) && lo_same o &&
      arenas_eqb (arena_mask (List.length m0) foci) m1 (apply_diff m0 (lo_diff o)) &&
      oval_eqb A (res_opt (get m1)) (lo_get1 o)
  end.

Definition focus_of (sh : shape) (l : lens) : nat * ty := (lens_addr l (sh_base sh), l_A l).
Definition optic_foci (sh : shape) (o : optic) : list (nat * ty) :=
  match o with Field l => [focus_of sh l] | _ => [] end.

Definition dyn_of (sh : shape) (k : N) : dyn :=
  match k with
  | 0%N => mkDyn (Some (sh_ty sh)) None
  | 1%N => mkDyn (Some (TPtr (TStruct "main.other" 256 []))) (Some (sh_base sh))
  | 2%N => mkDyn None None
  | 4%N => mkDyn (Some (TOpaque "[]S" 24 8)) (Some (sh_base sh))        (* a slice of containers over the arena *)
  | 5%N => mkDyn (Some (TPtr (TPtr (sh_ty sh)))) (Some (sh_base sh))     (* a pointer to a pointer to the container *)
  | _ => mkDyn (Some (TPtr (sh_ty sh))) None
  end.

Definition dyn_agrees (sh : shape) (l : lens) (d : dobs) : bool :=
  let m0 := sh_before sh in
  if dy_put d then
    match lens_putt l m0 (dyn_of sh (dy_arg d)) (repeat 0%Z (sizeof (l_A l))) with
    | Panic => dy_panic d && negb (dy_changed d)
    | Ok _ => negb (dy_panic d)
    end
  else
    match lens_gett l m0 (dyn_of sh (dy_arg d)) with
    | Panic => dy_panic d && negb (dy_changed d)
    | Ok _ => negb (dy_panic d)
    end.

Definition all2 {A B} (f : A -> B -> bool) (a : list A) (b : list B) : bool :=
  Nat.eqb (List.length a) (List.length b) && forallb (fun p => f (fst p) (snd p)) (zip a b).

Definition agrees (c : case) : bool :=
  let sh := c_shape c in
  let s := sh_base sh in
  match c_via c with
  | VProduct =>
      match run_product (container c) (c_tys c) (c_attr c), c_obs c with
      | Panic, DPanic => true
      | Ok os, DLenses obs =>
          c_ptr c ||
          all2 (fun oa o => lens_agrees sh (snd oa) (fun m => oget (fst oa) m s) (fun m v => oput (fst oa) m s v)
                                        (optic_foci sh (fst oa)) o) (zip os (c_tys c)) obs
      | _, _ => false
      end
  | VSpectrum =>
      match run_spectrum (container c) (c_tys c) (c_attr c), c_obs c with
      | Panic, DPanic => true
      | Ok ls, DLenses obs =>
          c_ptr c ||
          all2 (fun la o =>
                  let l := fst la in
                  let d := mkDyn (Some (TPtr (sh_ty sh))) (Some s) in
                  lens_agrees sh (snd la) (fun m => lens_gett l m d) (fun m v => rmap snd (lens_putt l m d v)) [focus_of sh l] o &&
                  forallb (dyn_agrees sh l) (lo_dyn o)) (zip ls (c_tys c)) obs
      | _, _ => false
      end
  | VShape =>
      match run_shape (container c) (c_tys c) (c_attr c), c_obs c with
      | Panic, DPanic => true
      | Ok sp, DLenses obs =>
          c_ptr c ||
          let m0 := sh_before sh in
          let foci := flat_map (optic_foci sh) (shape_components sp) in
          let vs := map lo_v obs in
          all2 (fun t og => oval_eqb t (fst og) (snd og)) (c_tys c)
               (match shape_get sp s m0 with
                | Ok (gs, _) => zip (map Some gs) (map lo_get0 obs)
                | Panic => map (fun o => (None, lo_get0 o)) obs
                end) &&
          match shape_put sp s vs m0 with
          | Panic => forallb lo_pput obs
          | Ok (p, m1) =>
              forallb (fun o => negb (lo_pput o) && lo_same o) obs && Nat.eqb p s &&
              arenas_eqb (arena_mask (List.length m0) foci) m1 (apply_diff m0 (flat_map lo_diff obs)) &&
              all2 (fun t og => oval_eqb t (fst og) (snd og)) (c_tys c)
                   (match shape_get sp s m1 with
                    | Ok (gs, _) => zip (map Some gs) (map lo_get1 obs)
                    | Panic => map (fun o => (None, lo_get1 o)) obs
                    end)
          end
      | _, _ => false
      end
  end.

Definition mismatches (cs : list case) : list N := idx_where (fun c => negb (agrees c)) 0%N cs.
