(* C16 model run: the transcriptions of duct.go / ast.go (Duct/Model.v) build the tree and visit it with the
   recording and the failing visitors; compared with what the real package did.  No proofs here. *)
From Coq Require Import List ZArith NArith Bool String.
From Golem Require Export Check.C16o.
From Golem Require Import Duct.Model.
Import ListNotations.
Open Scope Z_scope.

Definition model_tree (c : case) : ast := build (prog c).

(* recording visitor that never fails: its failing index lies beyond the word *)
Definition model_trace (c : case) : list ocb * bool :=
  let t := model_tree c in
  let '(hist, e) := visit (rec_call (E := Datatypes.unit) (List.length (flatten 0 t)) tt) t [] in
  (map (project true) hist, match e with Some _ => true | None => false end).

Definition model_fail (t : ast) (j : nat) : fvisit :=
  let '(hist, e) := visit (rec_call (E := Datatypes.unit) j tt) t [] in
  mkF (map (fun c => code (project true c)) hist) (match e with Some _ => true | None => false end)
      (match e with Some _ => true | None => false end).

Definition fvisit_eqb (a b : fvisit) : bool :=
  lz_eqb (f_codes a) (f_codes b) && Bool.eqb (f_err a) (f_err b) && Bool.eqb (f_same a) (f_same b).

Definition agrees (c : case) : bool :=
  let '(tr, e) := model_trace c in
  well_typed (prog c)                                    (* what Go compiled is typed by the judgement of Duct/Ast.v *)
  && list_eqb ocb_eqb (trace c) tr && Bool.eqb (clean_err c) e
  && list_eqb fvisit_eqb (fails c) (map (model_fail (model_tree c)) (seq 0 (List.length tr))).

Definition mismatches (cs : list case) : list N := idx_where (fun c => negb (agrees c)) 0%N cs.
