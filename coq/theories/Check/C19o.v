(* C19 oracle: the sequence ADT itself - plain lists, computed from the script alone - as an executable
   boolean over what the two implementations were observed to do.  Independent of the models of
   list.go / slice.go (only the data types op/res/snap/put are shared).  No proofs here. *)
From Coq Require Import List ZArith NArith Bool.
From Golem Require Export Base.CheckLib Seq.Model.
Import ListNotations.
Open Scope Z_scope.

(* the two monoids of the harness (harness/c19/main.go: m31, cat10); both non-commutative *)
Fixpoint p10 (fuel : nat) (b p : Z) : Z :=
  match fuel with O => p | S f => if b <? p then p else p10 f b (p * 10) end.
Definition cat10 (a b : Z) : Z := a * p10 20 b 1 + b.
Definition mon (m : nat) : monoid :=
  match m with
  | O => mkMonoid 7 (fun a b => a * 31 + b)
  | _ => mkMonoid 0 cat10
  end.
Definition nmon : nat := 2.

(* a third monoid, for LONG sequences only: affine maps x -> a*x + b over Z_65521 packed as a*65521 + b, under
   composition - associative, not commutative, closed on int64 whatever the length of the fold *)
Definition VP : Z := 65521.
Definition aff (u v : Z) : Z := (((u / VP) * (v / VP)) mod VP) * VP + ((u mod VP) * (v / VP) + v mod VP) mod VP.
Definition vmon : monoid := mkMonoid VP aff.
(* the elements of a volume case: a first element no other equals (b = 0), then n elements with 2 <= a <= 6, 1 <= b <= 7 *)
Fixpoint vgen (n : nat) (i : Z) : list Z :=
  match n with O => [] | S k => ((2 + i mod 5) * VP + (1 + i mod 7)) :: vgen k (i + 1) end.
Definition vlist (n : nat) (a0 : Z) : list Z := (3 * VP) :: vgen n a0.

Record case := mkx {
  script : list op;
  obs_list : list (res * list snap);     (* what list.Trait did *)
  obs_slice : list (res * list snap);    (* what slice.Trait did *)
  vol : list Z                           (* volume case: [n; a0; Fold on list.Trait; Fold on slice.Trait; Length on either]
                                            for New(vlist n a0...) under vmon; [] for a script case *)
}.
Definition mk s a b := mkx s a b [].
Definition mkv v := mkx [] [] [] v.

(* --- equality of observations --- *)
Definition res_eqb (a b : res) : bool :=
  match a, b with
  | RDone, RDone | RPanic, RPanic | RSkip, RSkip => true
  | RVal x, RVal y => x =? y
  | RBool x, RBool y => Bool.eqb x y
  | _, _ => false
  end.
Definition snap_eqb (a b : snap) : bool :=
  lz_eqb (sn_elems a) (sn_elems b) && Bool.eqb (sn_ok a) (sn_ok b) && (sn_len a =? sn_len b)
  && Bool.eqb (sn_empty a) (sn_empty b) && list_eqb (opt_eqb Z.eqb) (sn_folds a) (sn_folds b).
Definition obs_eqb (a b : list (res * list snap)) : bool :=
  list_eqb (fun x y => res_eqb (fst x) (fst y) && list_eqb snap_eqb (snd x) (snd y)) a b.

(* --- the ADT equations: New(xs) is xs, Cons(x,s) is x::s (length +1, head x, tail s), IsEmpty iff length 0,
       Fold = fold_left Combine s Empty, Head/Tail of the empty sequence panic, and nothing that was
       built earlier ever changes (every live sequence is compared after every step) --- *)
Definition fold_spec (m : nat) (l : list Z) : Z := fold_left (mcombine (mon m)) l (mempty (mon m)).
Definition want_snap (l : list Z) : snap :=
  mkSnap l true (Z.of_nat (length l)) (match l with [] => true | _ => false end)
         (map (fun m => Some (fold_spec m l)) (seq 0 nmon)).

Definition adt_step (st : list (list Z)) (o : op) : list (list Z) * res :=
  let store d l := match put d l st with Some st' => (st', RDone) | None => (st, RSkip) end in
  let on i (f : list Z -> list (list Z) * res) := match nth_error st i with Some l => f l | None => (st, RSkip) end in
  match o with
  | ONew d xs _ => store d xs
  | OCons d x i => on i (fun l => store d (x :: l))
  | OTail d i => on i (fun l => match l with [] => (st, RPanic) | _ :: t => store d t end)
  | OHead i => on i (fun l => (st, match l with [] => RPanic | x :: _ => RVal x end))
  | OLength i => on i (fun l => (st, RVal (Z.of_nat (length l))))
  | OIsEmpty i => on i (fun l => (st, RBool (match l with [] => true | _ => false end)))
  | OFold m i => on i (fun l => (st, RVal (fold_spec m l)))
  end.
Fixpoint adt_run (st : list (list Z)) (s : list op) : list (res * list snap) :=
  match s with
  | [] => []
  | o :: r => let '(st', x) := adt_step st o in (x, map want_snap st') :: adt_run st' r
  end.

Definition required (c : case) := adt_run [] (script c).
(* Fold over a long sequence = fold_left Combine from Empty, Length = the number of arguments of New, on both traits *)
Definition vol_holds (v : list Z) : bool :=
  match v with
  | [] => true
  | [n; a0; fl; fs; ll; ls] =>
      let l := vlist (Z.to_nat n) a0 in
      let f := fold_left aff l VP in
      (fl =? f) && (fs =? f) && (ll =? Z.of_nat (length l)) && (ls =? Z.of_nat (length l))
  | _ => false
  end.
Definition holds (c : case) : bool :=
  obs_eqb (obs_list c) (required c) && obs_eqb (obs_slice c) (required c) && vol_holds (vol c).

Definition violations (cs : list case) : list N := idx_where (fun c => negb (holds c)) 0%N cs.

(* summary: cases, operations, operations that had to panic, longest sequence seen, snapshots compared *)
Definition count_panics (o : list (res * list snap)) : N :=
  count_where (fun x => match fst x with RPanic => true | _ => false end) o.
Definition digest (cs : list case) : list (N * N) :=
  [ (0%N, N.of_nat (length cs));
    (1%N, fold_left N.add (map (fun c => N.of_nat (length (script c))) cs) 0%N);
    (2%N, fold_left N.add (map (fun c => count_panics (required c)) cs) 0%N);
    (3%N, fold_left N.max (map (fun c => fold_left N.max (map (fun x => fold_left N.max (map (fun s => Z.to_N (sn_len s)) (snd x)) 0%N) (required c)) 0%N) cs) 0%N);
    (4%N, fold_left N.add (map (fun c => fold_left N.add (map (fun x => N.of_nat (length (snd x))) (required c)) 0%N) cs) 0%N);
    (5%N, count_where (fun c => match vol c with [] => false | _ => true end) cs);
    (6%N, fold_left N.add (map (fun c => match vol c with n :: _ => Z.to_N n | [] => 0%N end) cs) 0%N) ].
