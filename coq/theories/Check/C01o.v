(* C01 oracle: "a field lens reads and writes exactly its field and nothing else", as an executable
   boolean over observations only: the arena bytes before, the bytes that changed, the values read,
   the observed hseq listing and the compiler's selector offsets.  Independent of the model of
   unfold / lenses and of the generated definitions.  No proofs here. *)
From Coq Require Import List String ZArith NArith Bool Arith.
From Golem Require Export Check.DeriveSel.
Import ListNotations.

Definition oracle (c : case) : bool :=
  let sh := c_shape c in
  match c_via c, c_ptr c, sh_listing sh with
  | VShape, _, _ => true
  | _, true, _ => true
  | _, false, None => false
  | _, false, Some L =>
      let n := List.length (c_tys c) in
      match c_attr c with
      | _ :: _ => Nat.ltb (List.length (c_attr c)) n
      | [] => false
      end ||
      match all_some (map (focus_field sh L (c_attr c)) (enumerate (c_tys c))) with
      | None => true                                   (* not a request for fields of this struct: C02's business *)
      | Some fs =>
          match c_obs c with
          | DPanic => false                            (* the lens of a field must exist *)
          | DLenses obs => all2 (fun fA o => lens_exact sh (snd fA) (snd (fst fA)) o) (zip fs (c_tys c)) obs
          end
      end
  end.

Definition violations (cs : list case) : list N := idx_where (fun c => negb (oracle c)) 0%N cs.

(* (via, by name?, cases, accepted) *)
Definition digest (cs : list case) : list (N * bool * N * N) :=
  flat_map (fun v => map (fun byname =>
     let sel := fun c => N.eqb (via_code (c_via c)) v && Bool.eqb byname (match c_attr c with [] => false | _ => true end) in
     (v, byname, count_where sel cs, count_where (fun c => sel c && accepted c) cs)) [false; true]) [0; 1; 2]%N.
