(* C20 model run: the generated PipeN definitions on the coded function families. No proofs here. *)
From Coq Require Import List ZArith NArith Bool.
From Golem Require Export Check.C20o.
From GolemGen Require Import GenPipe.
Import ListNotations.
Open Scope Z_scope.

Definition run_pipe {T : Type} (n : N) (f : Z -> T -> T) (a : T) : option T :=
  match n with
  | 2%N => Some (Pipe (f 1) (f 2) a)
  | 3%N => Some (Pipe3 (f 1) (f 2) (f 3) a)
  | 4%N => Some (Pipe4 (f 1) (f 2) (f 3) (f 4) a)
  | 5%N => Some (Pipe5 (f 1) (f 2) (f 3) (f 4) (f 5) a)
  | 6%N => Some (Pipe6 (f 1) (f 2) (f 3) (f 4) (f 5) (f 6) a)
  | 7%N => Some (Pipe7 (f 1) (f 2) (f 3) (f 4) (f 5) (f 6) (f 7) a)
  | 8%N => Some (Pipe8 (f 1) (f 2) (f 3) (f 4) (f 5) (f 6) (f 7) (f 8) a)
  | 9%N => Some (Pipe9 (f 1) (f 2) (f 3) (f 4) (f 5) (f 6) (f 7) (f 8) (f 9) a)
  | 10%N => Some (Pipe10 (f 1) (f 2) (f 3) (f 4) (f 5) (f 6) (f 7) (f 8) (f 9) (f 10) a)
  | 11%N => Some (Pipe11 (f 1) (f 2) (f 3) (f 4) (f 5) (f 6) (f 7) (f 8) (f 9) (f 10) (f 11) a)
  | 12%N => Some (Pipe12 (f 1) (f 2) (f 3) (f 4) (f 5) (f 6) (f 7) (f 8) (f 9) (f 10) (f 11) (f 12) a)
  | 13%N => Some (Pipe13 (f 1) (f 2) (f 3) (f 4) (f 5) (f 6) (f 7) (f 8) (f 9) (f 10) (f 11) (f 12) (f 13) a)
  | 14%N => Some (Pipe14 (f 1) (f 2) (f 3) (f 4) (f 5) (f 6) (f 7) (f 8) (f 9) (f 10) (f 11) (f 12) (f 13) (f 14) a)
  | 15%N => Some (Pipe15 (f 1) (f 2) (f 3) (f 4) (f 5) (f 6) (f 7) (f 8) (f 9) (f 10) (f 11) (f 12) (f 13) (f 14) (f 15) a)
  | 16%N => Some (Pipe16 (f 1) (f 2) (f 3) (f 4) (f 5) (f 6) (f 7) (f 8) (f 9) (f 10) (f 11) (f 12) (f 13) (f 14) (f 15) (f 16) a)
  | 17%N => Some (Pipe17 (f 1) (f 2) (f 3) (f 4) (f 5) (f 6) (f 7) (f 8) (f 9) (f 10) (f 11) (f 12) (f 13) (f 14) (f 15) (f 16) (f 17) a)
  | 18%N => Some (Pipe18 (f 1) (f 2) (f 3) (f 4) (f 5) (f 6) (f 7) (f 8) (f 9) (f 10) (f 11) (f 12) (f 13) (f 14) (f 15) (f 16) (f 17) (f 18) a)
  | 19%N => Some (Pipe19 (f 1) (f 2) (f 3) (f 4) (f 5) (f 6) (f 7) (f 8) (f 9) (f 10) (f 11) (f 12) (f 13) (f 14) (f 15) (f 16) (f 17) (f 18) (f 19) a)
  | 20%N => Some (Pipe20 (f 1) (f 2) (f 3) (f 4) (f 5) (f 6) (f 7) (f 8) (f 9) (f 10) (f 11) (f 12) (f 13) (f 14) (f 15) (f 16) (f 17) (f 18) (f 19) (f 20) a)
  | _ => None
  end.

Definition model (c : case) : option (list Z) :=
  match fam c with
  | 6%N => match input c with
           | [x] => match run_pipe (arity c) (fam6 1) (x, 0), run_pipe (arity c) (fam6 2) (x, 0) with
                    | Some r1, Some r2 => Some (two_calls r1 r2) | _, _ => None end
           | _ => None end
  | 7%N => match signs7 (input c) with
           | Some (s1, s2) => match run_pipe (arity c) fam7 s1, run_pipe (arity c) fam7 s2 with
                              | Some r1, Some r2 => Some [r1; r2] | _, _ => None end
           | None => None end
  | 5%N => match input c with [q] => option_map (fun y => [y]) (run_pipe (arity c) fam5 (q * 4194304)) | _ => None end
  | 2%N => run_pipe (arity c) fam2 (input c)
  | 3%N => run_pipe (arity c) fam2 (start3 (input c))
  | 4%N =>
      (* the re-entrant stage: the inner call is a call of the same generated definition *)
      match run_pipe (arity c) fam2 [100] with
      | Some inner =>
          run_pipe (arity c) (fun i l => if Z.eqb i ((Z.of_N (arity c) + 1) / 2)
                                         then l ++ [i; Z.of_nat (length inner)] else l ++ [i]) (input c)
      | None => None
      end
  | f => match input c with [x] => option_map (fun y => [y]) (run_pipe (arity c) (fam01 f) x) | _ => None end
  end.
Definition mismatches (cs : list case) : list N := idx_where (fun c => negb (agree (model c) (observed c))) 0%N cs.
