(* Coded user functions and stage codes shared by the Go harness (harness/pool) and the
   case checkers of C05 C06 C07 C09 C11 C12 C13.  The harness interprets the same codes
   in Go.  Executable, no proofs. *)
From Coq Require Import List ZArith NArith Bool Arith.
From Golem Require Import Pipe.Pool Pipe.Stages.
Import ListNotations.
Open Scope Z_scope.

Inductive fcode := FAffine (a b : Z).                       (* x |-> a*x + b *)
Inductive pcode := PLt (c : Z) | PEven | PModEq (m r : Z) | PTrue | PFalse
  | PExcept (p : pcode) (m r : Z).   (* p, except that the predicate fails (answers true with an error) when x mod m = r *)
Inductive failcode := NoFail | FailModEq (m r : Z) | FailIn (xs : list Z) | FailGe (m : Z).
Inductive moncode := MSum | MProd | MLin.                   (* MLin: combine a b = 3a+b from 0: order sensitive *)

Definition fapply (f : fcode) (x : Z) : Z := match f with FAffine a b => a * x + b end.
Fixpoint papply (p : pcode) (x : Z) : bool :=
  match p with
  | PLt c => Z.ltb x c
  | PEven => Z.even x
  | PModEq m r => Z.eqb (x mod m) r
  | PTrue => true
  | PFalse => false
  | PExcept q m r => papply q x && negb (Z.eqb (x mod m) r)
  end.
Definition fails (fl : failcode) (x : Z) : bool :=
  match fl with
  | NoFail => false
  | FailModEq m r => Z.eqb (x mod m) r
  | FailIn xs => existsb (Z.eqb x) xs
  | FailGe m => Z.leb m x
  end.
Definition err_of (x : Z) : Z := 1000 + x.                  (* the error value names the element *)

Definition fres (f : fcode) (fl : failcode) (x : Z) : res :=
  if fails fl x then Err (err_of x) else Ok (fapply f x).

(* arrow: x |-> sends 10x, 10x+1, .. (x mod m many); a failing element sends nothing and returns its error *)
Definition arrow_vals (m x : Z) : list Z := map (fun j => 10 * x + Z.of_nat j) (seq 0 (Z.to_nat (x mod m))).
Definition fres_arrow (m : Z) (fl : failcode) (x : Z) : list Z * option Z :=
  if fails fl x then ([], Some (err_of x)) else (arrow_vals m x, None).

Definition mon_empty (m : moncode) : Z := match m with MSum => 0 | MProd => 1 | MLin => 0 end.
Definition mon_combine (m : moncode) (a b : Z) : Z :=
  match m with MSum => a + b | MProd => a * b | MLin => 3 * a + b end.

Inductive stage_code :=
| SMap (f : fcode) (fl : failcode) (try : bool)
| SFMap (m : Z) (fl : failcode) (try : bool)
| SFilter (p : pcode)
| SPartition (p : pcode)
| STake (n : Z)
| STakeWhile (p : pcode)
| SForEach
| SVoid
| SFold (m : moncode)
| SJoin (n : nat)
| SUnfold (seed : Z) (f : fcode) (fl : failcode) (try : bool)
| SEmit (freq : N) (f : fcode) (fl : failcode) (try : bool)
| SThrottle (ops : nat) (interval : N)
| SSeq (xs : list Z)
| SStdErr
| SFork (st : stage_code) (n : nat) (gate : bool).

(* channels a stage closes *)
Definition closes_of (st : stage_code) : list nat :=
  match st with
  | SMap _ _ _ | SFMap _ _ _ | SPartition _ | SUnfold _ _ _ _ | SEmit _ _ _ _ => [0%nat; 1%nat]
  | SStdErr => []
  | _ => [0%nat]
  end.

Definition seq_plan (st : stage_code) : Z -> Z -> list act * Z :=
  match st with
  | SMap f fl try => plan_map (fres f fl) try
  | SFMap m fl try => plan_fmap (fres_arrow m fl) try
  | SFilter p => plan_filter (papply p)
  | SPartition p => plan_partition (papply p)
  | STake _ => plan_take
  | STakeWhile p => plan_takewhile (papply p)
  | SForEach | SVoid => plan_poll
  | SFold m => plan_fold (mon_combine m)
  | _ => plan_poll
  end.

Definition cfg_of (st : stage_code) (icaps ocaps : list nat) : cfg :=
  match st with
  | STake n => seq_stage plan_take no_eof pre_take n [0%nat] icaps ocaps
  | SFold m => seq_stage (plan_fold (mon_combine m)) eof_fold always (mon_empty m) [0%nat] icaps ocaps
  | SJoin n => join_stage n icaps ocaps
  | SUnfold seed f fl try => gen_stage (plan_unfold (fres f fl) try) seed [0%nat; 1%nat] ocaps
  | SEmit freq f fl try => gen_stage (plan_emit freq (fres f fl) try) 0 [0%nat; 1%nat] ocaps
  | SThrottle ops d => throttle_stage ops d icaps ocaps
  | SSeq xs => gen_stage (plan_seq xs) 0 [0%nat] ocaps
  | SStdErr => seq_stage plan_sink no_eof always 0 [] icaps ocaps
  | SFork st' n gate => fork_stage n gate (seq_plan st') (closes_of st') icaps ocaps
  | _ => seq_stage (seq_plan st) no_eof always 0 (closes_of st) icaps ocaps
  end.

(* ---------- the list image of a stage on output k (the pure specification) ---------- *)
Fixpoint take_while (p : Z -> bool) (xs : list Z) : list Z :=
  match xs with [] => [] | x :: r => if p x then x :: take_while p r else [] end.

(* elements before the first failing one *)
Fixpoint before_fail (fl : failcode) (xs : list Z) : list Z :=
  match xs with [] => [] | x :: r => if fails fl x then [] else x :: before_fail fl r end.
Fixpoint first_fail (fl : failcode) (xs : list Z) : option Z :=
  match xs with [] => None | x :: r => if fails fl x then Some x else first_fail fl r end.

Definition image (st : stage_code) (k : nat) (xs : list Z) : list Z :=
  match st, k with
  | SMap f fl false, 0%nat => map (fapply f) (before_fail fl xs)
  | SMap f fl false, _ => match first_fail fl xs with Some x => [err_of x] | None => [] end
  | SMap f fl true, 0%nat => map (fapply f) (filter (fun x => negb (fails fl x)) xs)
  | SMap f fl true, _ => map err_of (filter (fails fl) xs)
  | SFMap m fl false, 0%nat => flat_map (arrow_vals m) (before_fail fl xs)
  | SFMap m fl false, _ => match first_fail fl xs with Some x => [err_of x] | None => [] end
  | SFMap m fl true, 0%nat => flat_map (arrow_vals m) (filter (fun x => negb (fails fl x)) xs)
  | SFMap m fl true, _ => map err_of (filter (fails fl) xs)
  | SFilter p, 0%nat => filter (papply p) xs
  | SPartition p, 0%nat => filter (papply p) xs
  | SPartition p, _ => filter (fun x => negb (papply p x)) xs
  | STake n, 0%nat => firstn (Z.to_nat (Z.min n (Z.of_nat (length xs)))) xs   (* = firstn (Z.to_nat n) xs (Pipe/PoolStages2.take_image), computable for huge n *)
  | STakeWhile p, 0%nat => take_while (papply p) xs
  | SFold m, 0%nat => [fold_left (mon_combine m) xs (mon_empty m)]
  | SJoin _, 0%nat => xs
  | SThrottle _ _, 0%nat => xs
  | SSeq ys, 0%nat => ys
  | _, _ => []
  end.
