(* C08 checker. Executable, no proofs.
   Two kinds of case:
   - CPump: the pump of pipe.New driven move by move under testing/synctest (every observation is taken while
     the pump is durably blocked). mismatches = trace acceptance: does SOME execution of the machine of
     Pipe/Unbound.v (repaired setting) produce exactly the recorded outcomes? (the finite set of model states
     compatible with the observations so far is closed under internal steps to quiescence, the move is
     applied, the set is filtered by the outcome).  violations = the property over the observations only.
   - CQueue: a history of enq/deq/head/emit on the real linked queue; mismatches = the POINTER model of
     Pipe/Queue.v (two different pool policies) vs the answers; violations = the FIFO specification
     (a plain list) vs the answers. *)
From Coq Require Import List ZArith NArith Bool Arith.
From Golem Require Export Base.CheckLib.
From Golem Require Import Pipe.Chan08 Pipe.Queue Pipe.Unbound.
Import ListNotations.

(* [MRacy] is a marker, not a move: the NEXT move was not followed by synctest.Wait(), so the pump may be anywhere
   between that move and the one after it *)
Inductive move := MInit | MSend (x : Z) | MRecv | MCancel | MClose | MRacy.
Inductive outcome := ODone | OBlocked | OVal (v : Z) | OClosed | OCrash.
Inductive qobs := QE (x : Z) | QD (v : Z) | QH (v : Z) | QM (b : bool) | QDcrash.
Inductive case :=
| CPump (cin ceg : nat) (ms : list (move * outcome))     (* capacities as read with cap() from the two channels *)
| CQueue (ops : list qobs).

(* =============================== pump: trace acceptance =============================== *)
Definition ppc_eqb (a b : ppc) : bool :=
  match a, b with
  | PMain, PMain | PDrain, PDrain | PFlush, PFlush | PRet, PRet | PDone, PDone => true
  | _, _ => false
  end.
Definition state_eqb (a b : state) : bool :=
  list_eqbZ (sent a) (sent b) && list_eqbZ (inbuf a) (inbuf b) && Bool.eqb (in_closed a) (in_closed b)
  && Bool.eqb (snd_closed a) (snd_closed b) && list_eqbZ (q a) (q b) && list_eqbZ (egbuf a) (egbuf b)
  && Bool.eqb (eg_closed a) (eg_closed b) && list_eqbZ (rcvd a) (rcvd b) && Bool.eqb (seen_closed a) (seen_closed b)
  && Bool.eqb (cancelled a) (cancelled b) && ppc_eqb (pc a) (pc b) && Bool.eqb (busy a) (busy b) && Bool.eqb (panic a) (panic b).
Fixpoint add_state (s : state) (l : list state) : list state :=
  match l with
  | [] => [s]
  | x :: r => if state_eqb s x then l else x :: add_state s r
  end.
Definition dedup (l : list state) : list state := fold_left (fun acc s => add_state s acc) l [].

Section Accept.
Variable cin ceg : nat.
Variable d : dev.

Definition opt (o : option state) : list state := match o with Some s => [s] | None => [] end.
Definition succs (s : state) : list state := flat_map (fun a => opt (step cin ceg d s (EPump a))) arms.

(* every state without an enabled internal step that internal steps can reach *)
Fixpoint settle (fuel : nat) (ss : list state) : list state :=
  match fuel with
  | O => []
  | S f =>
      let quiet := filter (fun s => is_nil (succs s)) ss in
      let moving := filter (fun s => negb (is_nil (succs s))) ss in
      match moving with
      | [] => quiet
      | _ => dedup (quiet ++ settle f (dedup (flat_map succs moving)))
      end
  end.

(* what a receive attempt would deliver *)
Definition next_val (s : state) : option Z :=
  match egbuf s with
  | y :: _ => Some y
  | [] => if negb (eg_closed s) && (ceg =? 0) && at_send (pc s) && negb (busy s) then hd_error (q s) else None
  end.
Definition can_rcv (s : state) : bool :=
  match next_val s, step cin ceg d s ERcvdClosed with None, None => false | _, _ => true end.

Definition apply (s : state) (m : move) (o : outcome) : list state :=
  match m, o with
  | MInit, ODone => [s]
  | MSend x, ODone => opt (step cin ceg d s (ESent x))
  | MSend x, OBlocked => match step cin ceg d s (ESent x) with None => [s] | Some _ => [] end
  | MRecv, OVal v => opt (step cin ceg d s (ERcvd v))
  | MRecv, OClosed => opt (step cin ceg d s ERcvdClosed)
  | MRecv, OBlocked => if can_rcv s then [] else [s]
  | MCancel, ODone => if cancelled s then [s] else opt (step cin ceg d s ECancel)
  | MClose, ODone => opt (step cin ceg d s ECloseSnd)
  (* the process (or the move itself) crashed: the move completed or not, then something panicked *)
  | MInit, OCrash => [s]
  | MSend x, OCrash => s :: opt (step cin ceg d s (ESent x))
  | MRecv, OCrash => s :: opt (step cin ceg d s ERcvdClosed)
                      ++ match next_val s with Some v => opt (step cin ceg d s (ERcvd v)) | None => [] end
  | MCancel, OCrash => s :: opt (step cin ceg d s ECancel)
  | MClose, OCrash => s :: opt (step cin ceg d s ECloseSnd)
  | _, _ => []
  end.

(* every state internal steps can reach, the given ones included (the pump was not waited for) *)
Fixpoint reach (fuel : nat) (ss : list state) : list state :=
  match fuel with
  | O => ss
  | S f => let nxt := dedup (ss ++ flat_map succs ss) in
           if length nxt =? length ss then ss else reach f nxt
  end.

Fixpoint run (fuel : nat) (racy : bool) (ss : list state) (ms : list (move * outcome)) : list state :=
  match ms with
  | [] => ss
  | (MRacy, _) :: r => run fuel true ss r
  | (m, o) :: r =>
      let after := dedup (flat_map (fun s => apply s m o) ss) in
      match o with
      | OCrash => filter panic (settle fuel after)       (* nothing is observed after a crash *)
      | _ => let ss' := if racy then reach fuel after else settle fuel after in
             run fuel false (filter (fun s => negb (panic s)) ss') r
      end
  end.

Definition accepts (ms : list (move * outcome)) : bool :=
  let fuel := 4 * length ms + 12 in
  negb (is_nil (run fuel false (settle fuel [init]) ms)).
End Accept.

(* =============================== pump: the property over observations =============================== *)
Record obs := mkobs {
  o_sent : list Z;               (* values whose send attempt completed, in order *)
  o_rcvd : list Z;               (* values received, in order *)
  o_cancel : option (list Z);    (* completed sends at the moment of cancel *)
  o_closedsnd : bool;
  o_seen : bool;                 (* the receive side was seen closed *)
  o_quiet : bool;                (* the previous move was followed by Wait: the pump is durably blocked now *)
  o_racy : bool;                 (* the move being looked at is NOT followed by Wait *)
  o_ok : bool
}.
Definition obs0 : obs := mkobs [] [] None false false true false true.
Definition ending (o : obs) : bool := match o_cancel o with Some _ => true | None => o_closedsnd o end.
Definition bad (o : obs) : obs :=
  mkobs (o_sent o) (o_rcvd o) (o_cancel o) (o_closedsnd o) (o_seen o) (o_quiet o) (o_racy o) false.
Definition moved (o : obs) : obs :=
  mkobs (o_sent o) (o_rcvd o) (o_cancel o) (o_closedsnd o) (o_seen o) (negb (o_racy o)) false (o_ok o).

Definition ostep1 (o : obs) (mo : move * outcome) : obs :=
  match mo with
  | (_, OCrash) => bad o                                                      (* no crash *)
  | (MInit, _) => o
  | (MSend x, ODone) =>
      mkobs (o_sent o ++ [x]) (o_rcvd o) (o_cancel o) (o_closedsnd o) (o_seen o) (o_quiet o) (o_racy o) (o_ok o)
  | (MSend x, OBlocked) => if ending o || negb (o_quiet o) then o else bad o  (* never blocks the sender *)
  | (MRecv, OVal v) =>
      let r := o_rcvd o ++ [v] in
      mkobs (o_sent o) r (o_cancel o) (o_closedsnd o) (o_seen o) (o_quiet o) (o_racy o)
            (o_ok o && prefixb r (o_sent o) && negb (o_seen o))               (* FIFO, once, nothing invented *)
  | (MRecv, OClosed) =>
      let must := match o_cancel o with Some l => l | None => o_sent o end in
      mkobs (o_sent o) (o_rcvd o) (o_cancel o) (o_closedsnd o) true (o_quiet o) (o_racy o)
            (o_ok o && ending o && prefixb must (o_rcvd o))                   (* delivered before it closes *)
  | (MRecv, OBlocked) => if (ending o && o_quiet o) || o_seen o then bad o else o   (* the stream does end *)
  | (MCancel, ODone) =>
      match o_cancel o with
      | Some _ => o
      | None => mkobs (o_sent o) (o_rcvd o) (Some (o_sent o)) (o_closedsnd o) (o_seen o) (o_quiet o) (o_racy o) (o_ok o)
      end
  | (MClose, ODone) => mkobs (o_sent o) (o_rcvd o) (o_cancel o) true (o_seen o) (o_quiet o) (o_racy o) (o_ok o)
  | _ => bad o
  end.
Definition ostep (o : obs) (mo : move * outcome) : obs :=
  match mo with
  | (MRacy, _) => mkobs (o_sent o) (o_rcvd o) (o_cancel o) (o_closedsnd o) (o_seen o) (o_quiet o) true (o_ok o)
  | _ => moved (ostep1 o mo)
  end.
Definition pump_oracle (ms : list (move * outcome)) : bool := o_ok (fold_left ostep ms obs0).

(* =============================== queue =============================== *)
(* pool policies for the pointer model: the real choice of sync.Pool is not observable *)
Definition pol_reuse (n : nat) (q : queue) : pick := PPool 0.
Definition pol_mixed (n : nat) (q : queue) : pick :=
  match n with 0 => PFresh | _ => if Nat.even n then PPool 0 else PPool (length (pool q) - 1) end.
(* the policies look at a small cyclic counter (a fresh node every 41st operation keeps the model heap small) *)
Definition tick (n : nat) : nat := if n =? 40 then 0 else S n.

Fixpoint qcheck (pol : nat -> queue -> pick) (n : nat) (q : queue) (ops : list qobs) : bool :=
  match ops with
  | [] => true
  | QE x :: r => qcheck pol (tick n) (enq x (pol n q) q) r
  | QD v :: r => match deq q with Some (w, q') => Z.eqb v w && qcheck pol (tick n) q' r | None => false end
  | QH v :: r => Z.eqb v (headv q) && qcheck pol (tick n) q r
  | QM b :: r => Bool.eqb b (emit q) && qcheck pol (tick n) q r
  | QDcrash :: _ => match deq q with None => true | Some _ => false end
  end.
(* the specification: a FIFO list, kept as front list + reversed back list so that long histories stay linear *)
Fixpoint qspec2 (f b : list Z) (ops : list qobs) : bool :=
  match ops with
  | [] => true
  | QE x :: r => qspec2 f (x :: b) r
  | QD v :: r => match f with
                 | w :: f' => Z.eqb v w && qspec2 f' b r
                 | [] => match rev b with w :: f' => Z.eqb v w && qspec2 f' [] r | [] => false end
                 end
  | QH v :: r => Z.eqb v (match f with w :: _ => w | [] => last b 0%Z end) && qspec2 f b r
  | QM b' :: r => Bool.eqb b' (negb (is_nil f && is_nil b)) && qspec2 f b r
  | QDcrash :: _ => false
  end.

(* =============================== interface =============================== *)
Definition model_ok (c : case) : bool :=
  match c with
  | CPump cin ceg ms => accepts cin ceg repaired ms
  | CQueue ops => qcheck pol_reuse 0 newq ops && qcheck pol_mixed 0 newq ops
  end.
Definition oracle (c : case) : bool :=
  match c with
  | CPump _ _ ms => pump_oracle ms
  | CQueue ops => qspec2 [] [] ops
  end.
Definition mismatches (cs : list case) : list N := idx_where (fun c => negb (model_ok c)) 0%N cs.
Definition violations (cs : list case) : list N := idx_where (fun c => negb (oracle c)) 0%N cs.

(* counts: pump cases, of which accepted by the SHIPPED (pre-repair) setting of the machine, queue cases, queue operations *)
Definition digest (cs : list case) : list (N * N) :=
  [ (0%N, count_where (fun c => match c with CPump _ _ _ => true | _ => false end) cs);
    (1%N, count_where (fun c => match c with CPump cin ceg ms => accepts cin ceg shipped ms | _ => false end) cs);
    (2%N, count_where (fun c => match c with CQueue _ => true | _ => false end) cs);
    (3%N, N.of_nat (fold_left (fun n c => match c with CQueue ops => n + length ops | _ => n end) cs 0)) ].
