(* C03 oracle: the property itself as an executable boolean over what was observed
   (the listing hseq.New returned, the compiler's offsets, the answers of the lookups).
   Independent of the model of unfold and of the generated definitions. No proofs here. *)
From Coq Require Import List String ZArith NArith Bool Arith.
From Golem Require Export Check.OpticsObs.
Import ListNotations.

Inductive req :=
| QListing (ptr : bool)                       (* hseq.New[T]() / hseq.New[*T]() *)
| QNames (ptr : bool) (ns : list string)      (* hseq.New[T](names...) *)
| QForName (n : string)                       (* hseq.ForName(hseq.New[T](), n) *)
| QMaybe (n : string)                         (* hseq.ForNameMaybe(hseq.New[T](), n) *)
| QForType (a : ty)                           (* hseq.ForType[A](hseq.New[T]()) *)
| QNewN (ts : list ty)                        (* hseq.NewN[T, A1..AN]() *)
| QFMap (ns : list string)                    (* hseq.FMap(hseq.New[T](ns...), ID) *)
| QFMapN (n : nat) (ns : list string).        (* hseq.FMapN(hseq.New[T](ns...), tag 1, .., tag N), tag i t = (i, t.ID) *)

Inductive obs :=
| OPanic
| OEntries (l : list oentry)
| OMaybe (found : bool) (l : list oentry)
| OIds (l : list Z)
| OTagged (l : list (Z * Z)).

Record case := mk { c_shape : shape; c_req : req; c_obs : obs }.

Definition zz_eqb (a b : Z * Z) : bool := Z.eqb (fst a) (fst b) && Z.eqb (snd a) (snd b).

Definition obs_eqb (a b : obs) : bool :=
  match a, b with
  | OPanic, OPanic => true
  | OEntries l, OEntries l' => list_eqb oentry_eqb l l'
  | OMaybe f l, OMaybe f' l' => Bool.eqb f f' && (negb f || list_eqb oentry_eqb l l')
  | OIds l, OIds l' => lz_eqb l l'
  | OTagged l, OTagged l' => list_eqb zz_eqb l l'
  | _, _ => false
  end.

(* --- the listing: one entry per field, declaration order, depth first, consecutive IDs,
       true offsets wherever no pointer is crossed -------------------------------------- *)
Definition listing_ok (sh : shape) (l : list oentry) : bool :=
  let spec := spec_listing (sh_ty sh) in
  Nat.eqb (List.length l) (List.length spec) &&
  forallb (fun p =>
    let '(e, o) := p in
    oentry_eqb_noroot (of_entry e) o &&
    (negb (e_inline e) || String.eqb (e_name e) "_" ||
     match compiler_off sh (e_path e) with
     | Some off => Z.eqb (o_root o + o_off o) off
     | None => false
     end)) (zip spec l).

(* --- lookups: first match of the observed listing, or a loud failure ------------------ *)
Definition first_key (L : list oentry) (n : string) : option oentry := find (fun e => String.eqb (o_key e) n) L.
Definition first_type (L : list oentry) (a : ty) : option oentry := find (fun e => String.eqb (o_type e) (ty_string a)) L.

Fixpoint all_some {A} (l : list (option A)) : option (list A) :=
  match l with
  | [] => Some []
  | Some x :: r => match all_some r with Some xs => Some (x :: xs) | None => None end
  | None :: _ => None
  end.

(* what hseq.New[T](ns...) must be, given the observed full listing *)
Definition select_names (L : list oentry) (ns : list string) : option (list oentry) :=
  match ns with [] => Some L | _ => all_some (map (first_key L) ns) end.

Definition entries_or_panic (o : option (list oentry)) : obs :=
  match o with Some l => OEntries l | None => OPanic end.

Definition required (c : case) : option obs :=
  let sh := c_shape c in
  match sh_listing sh with
  | None => None                                  (* unfolding a struct type never panics *)
  | Some L =>
      match c_req c with
      | QListing _ => None                        (* judged by [listing_ok] *)
      | QNames _ ns => Some (entries_or_panic (select_names L ns))
      | QForName n => Some (entries_or_panic (option_map (fun e => [e]) (first_key L n)))
      | QMaybe n => Some (match first_key L n with Some e => OMaybe true [e] | None => OMaybe false [] end)
      | QForType a => Some (entries_or_panic (option_map (fun e => [e]) (first_type L a)))
      | QNewN ts => Some (entries_or_panic (all_some (map (first_type L) ts)))
      | QFMap ns => Some (match select_names L ns with Some l => OIds (map o_id l) | None => OPanic end)
      | QFMapN n ns =>
          Some (match select_names L ns with
                | Some l => if Nat.leb n (List.length l)
                            then OTagged (map (fun p => (Z.of_nat (S (fst p)), o_id (snd p))) (zip (seq 0 n) l))
                            else OPanic
                | None => OPanic
                end)
      end
  end.

Definition oracle (c : case) : bool :=
  match c_req c, c_obs c with
  | QListing _, OEntries l =>
      listing_ok (c_shape c) l &&
      match sh_listing (c_shape c) with Some L => list_eqb oentry_eqb L l | None => false end
  | QListing _, _ => false
  | _, o => match required c with Some r => obs_eqb r o | None => false end
  end.

Definition violations (cs : list case) : list N := idx_where (fun c => negb (oracle c)) 0%N cs.

Definition req_kind (r : req) : N :=
  match r with QListing _ => 0 | QNames _ _ => 1 | QForName _ => 2 | QMaybe _ => 3 | QForType _ => 4 | QNewN _ => 5 | QFMap _ => 6 | QFMapN _ _ => 7 end%N.
Definition is_panic (o : obs) : bool := match o with OPanic => true | OMaybe false _ => true | _ => false end.
(* per request kind: (kind, cases, of which failing loudly / reporting absence) *)
Definition digest (cs : list case) : list (N * N * N) :=
  map (fun k => (k, count_where (fun c => N.eqb (req_kind (c_req c)) k) cs,
                 count_where (fun c => N.eqb (req_kind (c_req c)) k && is_panic (c_obs c)) cs))
      [0; 1; 2; 3; 4; 5; 6; 7]%N.
