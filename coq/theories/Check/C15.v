(* C15 checker: one case = an expression tree over pair.Seq / seq.Seq (bridged by ToSeq / FromSeq)
   and what the real iterators of /repo/trait/pair did on it.  [mismatches]: operational model
   (Iter/PairModel.v) vs observation; [violations]: the property itself (list of (key, value) pairs
   [pden]/[sden], sources untouched, ForEach prefix) vs observation.  No proofs here.
   Elements of a plain seq.Seq root are reported as pairs (0, value). *)
From Coq Require Import List ZArith NArith Bool.
From Golem Require Export Base.CheckLib Iter.PairModel.
Import ListNotations.
Open Scope Z_scope.

Inductive root := RP (t : pe) | RS (t : se).

(* the documented loop, or ForEach with a callback failing at its k-th call (error 7000+k) or on the
   first element satisfying p (error 2*key + value) *)
Inductive cb := CbDrain | CbPos (k : nat) | CbPred (p : ppcode).

Definition interp_cb (m : cb) (i : nat) (e : Z * Z) : option Z :=
  match m with
  | CbDrain => None
  | CbPos k => if Nat.eqb i k then Some (7000 + Z.of_nat k) else None
  | CbPred p => if interp_pp p e then Some (2 * fst e + snd e) else None
  end.

Record case := mk {
  expr : root;
  mode : cb;
  obs : list (Z * Z);         (* (Key(), Value()) read at each position / passed to the ForEach callback *)
  err : option Z;
  after : list (list Z);      (* source slices after the run, pre-order *)
  post : list (Z * (Z * Z));  (* model comparison only: two more Next() after the loop ended:
                                 (-1,_) panic, (0,_) false, (1,(k,v)) true *)
  panicked : bool
}.

Definition FUEL : nat := Eval vm_compute in N.to_nat 10000.

Definition zz_eqb (a b : Z * Z) : bool := Z.eqb (fst a) (fst b) && Z.eqb (snd a) (snd b).
Definition lzz_eqb := list_eqb zz_eqb.
Definition lift (l : list Z) : list (Z * Z) := map (fun v => (0, v)) l.

Definition agrees (r : list (Z * Z) * option Z) (c : case) : bool :=
  lzz_eqb (fst r) (obs c) && opt_eqb Z.eqb (snd r) (err c) && negb (panicked c).

(* the property over observations only *)
Definition den_root (r : root) : list (Z * Z) :=
  match r with RP t => pden 0 0 t | RS t => lift (sden 0 0 t) end.
Definition sources_root (r : root) : list (list Z) :=
  match r with RP t => psources t | RS t => ssources t end.
Definition required (c : case) : list (Z * Z) * option Z :=
  match mode c with
  | CbDrain => (den_root (expr c), None)
  | m => gupto (interp_cb m) 0%nat (den_root (expr c))
  end.
(* "stops at the first error": after a ForEach that returned an error the iterator stands on the failing element,
   the last one the callback saw (nothing behind it has been asked for) *)
Definition stopped_at_error (c : case) : bool :=
  match mode c, err c with
  | CbDrain, _ => true
  | _, None => true
  | _, Some _ => match post c with [(2, e)] => zz_eqb e (last (obs c) (0, 0)) | _ => false end
  end.
Definition oracle (c : case) : bool :=
  agrees (required c) c && list_eqb lz_eqb (after c) (sources_root (expr c)) && stopped_at_error c.

(* the operational model *)
Definition lift_res (r : option (list Z * option Z)) : option (list (Z * Z) * option Z) :=
  match r with Some (l, o) => Some (lift l, o) | None => None end.
Definition model (c : case) : option (list (Z * Z) * option Z) :=
  match expr c, mode c with
  | RP t, CbDrain => option_map (fun l => (l, None)) (prun FUEL t)
  | RP t, m => prun_foreach FUEL (interp_cb m) t
  | RS t, CbDrain => option_map (fun l => (lift l, None)) (srun FUEL t)
  | RS t, m => lift_res (srun_foreach FUEL (fun i v => interp_cb m i (0, v)) t)
  end.

Fixpoint pfinal (fuel : nat) (i : pit) : option pit :=
  match fuel with O => None | S n =>
  match pnext FUEL i with
  | None => None
  | Some (false, i') => Some i'
  | Some (true, i') => pfinal n i'
  end end.
Fixpoint pagain (k : nat) (i : pit) : list (Z * (Z * Z)) :=
  match k with O => [] | S k' =>
  match pnext FUEL i with
  | None => [(-1, (0, 0))]
  | Some (false, i') => (0, (0, 0)) :: pagain k' i'
  | Some (true, i') => (1, kv i') :: pagain k' i'
  end end.
Fixpoint sfinal (fuel : nat) (i : sit) : option sit :=
  match fuel with O => None | S n =>
  match snext FUEL i with
  | None => None
  | Some (false, i') => Some i'
  | Some (true, i') => sfinal n i'
  end end.
Fixpoint sagain (k : nat) (i : sit) : list (Z * (Z * Z)) :=
  match k with O => [] | S k' =>
  match snext FUEL i with
  | None => [(-1, (0, 0))]
  | Some (false, i') => (0, (0, 0)) :: sagain k' i'
  | Some (true, i') => (1, (0, svalue i')) :: sagain k' i'
  end end.
Definition model_post (c : case) : list (Z * (Z * Z)) :=
  match mode c, expr c with
  | CbDrain, RP t =>
      match pbuild FUEL 0 0 t with
      | Some i => if is_pnil i then [] else match pfinal FUEL i with Some i' => pagain 2 i' | None => [] end
      | None => []
      end
  | CbDrain, RS t =>
      match sbuild FUEL 0 0 t with
      | Some i => if is_snil i then [] else match sfinal FUEL i with Some i' => sagain 2 i' | None => [] end
      | None => []
      end
  (* ForEach stops at the first error: where the MODEL's iterator stands when its ForEach loop returns the error
     (Iter/PairProofs.pair_foreach_stops_at_error: on the element whose callback failed) *)
  | m, RP t =>
      match prun_foreach_st FUEL (interp_cb m) t with
      | Some (_, Some _, j) => [(2, kv j)]
      | _ => []
      end
  | m, RS t =>
      match srun_foreach_st FUEL (fun i v => interp_cb m i (0, v)) t with
      | Some (_, Some _, j) => [(2, (0, svalue j))]
      | _ => []
      end
  end.
Definition post_eqb (a b : Z * (Z * Z)) : bool := Z.eqb (fst a) (fst b) && zz_eqb (snd a) (snd b).

Definition model_ok (c : case) : bool :=
  match model c with Some r => agrees r c && list_eqb post_eqb (model_post c) (post c) | None => false end.

Definition mismatches (cs : list case) : list N := idx_where (fun c => negb (model_ok c)) 0%N cs.
Definition violations (cs : list case) : list N := idx_where (fun c => negb (oracle c)) 0%N cs.

Definition is_drain (c : case) : bool := match mode c with CbDrain => true | _ => false end.
Definition is_seq_root (c : case) : bool := match expr c with RS _ => true | _ => false end.
(* (drain cases, ForEach cases, ForEach cases that returned an error, plain-seq roots, empty results, elements seen) *)
Definition digest (cs : list case) : N * N * N * N * N * N :=
  (count_where is_drain cs,
   count_where (fun c => negb (is_drain c)) cs,
   count_where (fun c => match err c with Some _ => true | None => false end) cs,
   count_where is_seq_root cs,
   count_where (fun c => match obs c with [] => true | _ => false end) cs,
   N.of_nat (fold_left (fun a c => (a + length (obs c))%nat) cs 0%nat)).
