(* C07 case checker: trace acceptance by the Pool model (mismatches) and the property oracle (violations). *)
From Coq Require Import List NArith.
From Golem Require Export Check.PoolOracles.
Definition violations (cs : list case) : list N := idx_where (fun c => negb (c07_ok c)) 0%N cs.
