(* C04 model run: the optic syntax of Optics/Combinators.v (leaves derived by the generated ForProduct1,
   ShapeN by the generated ForShapeN / shapeN.Put / shapeN.Get) on the reflected descriptor and the arenas,
   compared with what the real code did. No proofs here. *)
From Coq Require Import List String ZArith NArith Bool Arith.
From Golem Require Import Optics.GenPrelude Check.Derive.
From Golem Require Export Check.C04o.
From GolemGen Require Import GenHseq GenOptics GenShape.
Import ListNotations.
Open Scope res_scope.

(* BiMap(lens, fmap, cmap) / Getter(lens, f) / Setter(lens, f) over a Lens[S, A], exposing B: fmap : A -> B produces
   sizeof B bytes, cmap : B -> A produces sizeof A bytes (BiMapI: func(a A) B { return B(a) }, func(b B) A { return A(b) }) *)
Fixpoint build (o : cop) : res optic :=
  match o with
  | CField T A attr => ForProduct1 T A attr
  | CJoin a b => x <- build a ;; y <- build b ;; Ok (Join x y)
  | CConv 0%N x code B => y <- build x ;; Ok (BiMap y (conv code (sizeof B)) (conv code (sizeof (cop_ty x))))
  | CConv 1%N x code B => y <- build x ;; Ok (Getter y (conv code (sizeof B)))
  | CConv _ x code B => y <- build x ;; Ok (Setter y (conv code (sizeof (cop_ty x))) (repeat 0%Z (sizeof B)))
  end.

Definition model_off (sh : shape) (p : list nat) : nat :=
  match true_offset (sh_ty sh) p with Some o => (sh_base sh + o)%nat | None => 0%nat end.

Definition morph_agrees (sh : shape) (isos : list (option ciso)) (before_t before_s2 : list Z) (pf pi : bool)
           (ds1 dt1 ds2 dt2 : list (Z * Z)) : bool :=
  let s := sh_base sh in
  let m0 := sh_before sh in
  let built := mapM (fun oi => match oi with
                               | None => Ok None
                               | Some i => a <- build (ci_sa i) ;; b <- build (ci_ta i) ;; Ok (Some (mkIso a b))
                               end) isos in
  let is := somes isos in
  let sm := arena_mask (List.length m0) (map (fun i => (model_off sh (ci_spath i), ci_sA i)) is) in
  let tm := arena_mask (List.length before_t) (map (fun i => (model_off sh (ci_tpath i), ci_tA i)) is) in
  match built with
  | Panic => false                                   (* the construction did not panic in the real code *)
  | Ok seq =>
      match morphism_forward seq (mkTwo m0 s before_t s) with
      | Panic => pf
      | Ok w1 =>
          negb pf &&
          arenas_eqb sm (ms w1) (apply_diff m0 ds1) && arenas_eqb tm (mt w1) (apply_diff before_t dt1) &&
          match morphism_inverse seq (mkTwo before_s2 s (mt w1) s) with
          | Panic => pi
          | Ok w2 =>
              negb pi &&
              arenas_eqb sm (ms w2) (apply_diff before_s2 ds2) && arenas_eqb tm (mt w2) (apply_diff before_t dt2)
          end
      end
  end.

Definition assoc_eqb (a b : list (string * Z)) : bool :=
  forallb (fun kv => opt_eqb Z.eqb (assoc b (fst kv)) (Some (snd kv))) a &&
  forallb (fun kv => opt_eqb Z.eqb (assoc a (fst kv)) (Some (snd kv))) b.

Definition agrees (c : case) : bool :=
  let sh := c_shape c in
  let s := sh_base sh in
  match c_req c, c_obs c with
  | RLens o kind code B fpath outer, OLens ob =>
      match build o with
      | Panic => false
      | Ok op =>
          let foci := match outer with Some (p, t) => [(model_off sh p, t)] | None => [(model_off sh fpath, cop_focus_ty o)] end in
          lens_agrees sh B (fun m => oget op m s) (fun m v => oput op m s v) foci ob
      end
  | RLens o _ _ B _ _, OPanic => negb (is_ok (build o))
  | RShape tys attr, OLenses obs => Derive.agrees (DeriveObs.mk sh VShape false tys attr [] (DLenses obs))
  | RShape tys attr, OPanic => Derive.agrees (DeriveObs.mk sh VShape false tys attr [] DPanic)
  | RMorph isos, OMorph bt bs2 pf pi ds1 dt1 ds2 dt2 => morph_agrees sh isos bt bs2 pf pi ds1 dt1 ds2 dt2
  | RMapKey init key v, OMap g0 g1 same after =>
      same && Z.eqb g0 (mapkey_get String.eqb 0%Z key init) &&
      Z.eqb g1 (mapkey_get String.eqb 0%Z key (mapkey_put String.eqb key init v)) &&
      assoc_eqb (mapkey_put String.eqb key init v) after
  | _, _ => false
  end.

Definition mismatches (cs : list case) : list N := idx_where (fun c => negb (agrees c)) 0%N cs.
