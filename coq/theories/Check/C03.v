(* C03 model run: unfold / lookups of Optics/Hseq.v and the generated NewN / FMapN on the reflected
   type descriptor, compared with what the real code returned. No proofs here. *)
From Coq Require Import List String ZArith NArith Bool Arith.
From Golem Require Export Check.C03o.
From Golem Require Import Optics.GenPrelude.
From GolemGen Require Import GenHseq.
Import ListNotations.
Open Scope res_scope.

Definition tagf (i : Z) (e : entry) : res (Z * Z) := Ok (i, Z.of_nat (e_id e)).

Definition run_newn (T : ty) (ts : list ty) : res (list entry) :=
  match ts with
  | [a] => New1 T a
  | [a; b] => New2 T a b
  | [a; b; c] => New3 T a b c
  | [a; b; c; d] => New4 T a b c d
  | [a; b; c; d; e] => New5 T a b c d e
  | [a; b; c; d; e; f] => New6 T a b c d e f
  | [a; b; c; d; e; f; g] => New7 T a b c d e f g
  | [a; b; c; d; e; f; g; h] => New8 T a b c d e f g h
  | [a; b; c; d; e; f; g; h; i] => New9 T a b c d e f g h i
  | _ => Panic
  end.

Definition run_fmapn (n : nat) (ts : list entry) : res (list (Z * Z)) :=
  match n with
  | 1 => a <- FMap1 ts (tagf 1) ;; Ok [a]
  | 2 => '(a, b) <- FMap2 ts (tagf 1) (tagf 2) ;; Ok [a; b]
  | 3 => '(a, b, c) <- FMap3 ts (tagf 1) (tagf 2) (tagf 3) ;; Ok [a; b; c]
  | 4 => '(a, b, c, d) <- FMap4 ts (tagf 1) (tagf 2) (tagf 3) (tagf 4) ;; Ok [a; b; c; d]
  | 5 => '(a, b, c, d, e) <- FMap5 ts (tagf 1) (tagf 2) (tagf 3) (tagf 4) (tagf 5) ;; Ok [a; b; c; d; e]
  | 6 => '(a, b, c, d, e, f) <- FMap6 ts (tagf 1) (tagf 2) (tagf 3) (tagf 4) (tagf 5) (tagf 6) ;; Ok [a; b; c; d; e; f]
  | 7 => '(a, b, c, d, e, f, g) <- FMap7 ts (tagf 1) (tagf 2) (tagf 3) (tagf 4) (tagf 5) (tagf 6) (tagf 7) ;; Ok [a; b; c; d; e; f; g]
  | 8 => '(a, b, c, d, e, f, g, h) <- FMap8 ts (tagf 1) (tagf 2) (tagf 3) (tagf 4) (tagf 5) (tagf 6) (tagf 7) (tagf 8) ;; Ok [a; b; c; d; e; f; g; h]
  | 9 => '(a, b, c, d, e, f, g, h, i) <- FMap9 ts (tagf 1) (tagf 2) (tagf 3) (tagf 4) (tagf 5) (tagf 6) (tagf 7) (tagf 8) (tagf 9) ;; Ok [a; b; c; d; e; f; g; h; i]
  | _ => Panic
  end%nat.

Definition entries_obs (r : res (list entry)) : obs :=
  match r with Ok l => OEntries (map of_entry l) | Panic => OPanic end.

Definition model (c : case) : obs :=
  let T := sh_ty (c_shape c) in
  let TT (ptr : bool) := if ptr then TPtr T else T in
  match c_req c with
  | QListing ptr => entries_obs (hseq_New (TT ptr) [])
  | QNames ptr ns => entries_obs (hseq_New (TT ptr) ns)
  | QForName n => entries_obs (seq <- hseq_New T [] ;; e <- hseq_ForName seq n ;; Ok [e])
  | QMaybe n =>
      match hseq_New T [] with
      | Ok seq => match for_name_maybe seq n with Some e => OMaybe true [of_entry e] | None => OMaybe false [] end
      | Panic => OPanic
      end
  | QForType a => entries_obs (seq <- hseq_New T [] ;; e <- hseq_ForType a seq ;; Ok [e])
  | QNewN ts => entries_obs (run_newn T ts)
  | QFMap ns =>
      match (seq <- hseq_New T ns ;; hseq_FMap seq (fun e => Ok (Z.of_nat (e_id e)))) with
      | Ok l => OIds l | Panic => OPanic
      end
  | QFMapN n ns =>
      match (seq <- hseq_New T ns ;; run_fmapn n seq) with
      | Ok l => OTagged l | Panic => OPanic
      end
  end.

(* the model agrees with the observation; for the plain listing also: reflect's layout is the compiler's,
   is well-formed, and is what the gc layout rules (golayout) compute *)
Definition agrees (c : case) : bool :=
  obs_eqb (model c) (c_obs c) &&
  match c_req c with QListing false => layout_ok (c_shape c) | _ => true end.

Definition mismatches (cs : list case) : list N := idx_where (fun c => negb (agrees c)) 0%N cs.
