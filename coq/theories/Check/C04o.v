(* C04 oracle: "composed optics are lawful and touch only their component foci", as an executable boolean
   over observations only (arena bytes before, changed bytes, values read, compiler offsets of the selector
   paths the request names).  Independent of the model.  No proofs here. *)
From Coq Require Import List String ZArith NArith Bool Arith.
From Golem Require Export Check.DeriveSel Optics.Conv.
Import ListNotations.

(* how an optic was built (the leaves are optics.ForProduct1[T, A](attr...)) *)
Inductive cop :=
| CField (T A : ty) (attr : list string)
| CJoin (a b : cop)
| CConv (kind : N) (x : cop) (code : N) (B : ty).
(* kind 0 = BiMap, 1 = Getter, 2 = Setter, exposing the values of x as B;
   code 0 = identity on bytes (BiMapS/B/I/F between types of one representation), 1 = xor 0x5a,
   2 = conversion between signed integer types by value (BiMapI across widths: sign extension / truncation) *)

(* the type of the values the optic reads and writes, and the type of the field it lies on *)
Fixpoint cop_ty (o : cop) : ty :=
  match o with CField _ A _ => A | CJoin _ b => cop_ty b | CConv _ _ _ B => B end.
Fixpoint cop_focus_ty (o : cop) : ty :=
  match o with CField _ A _ => A | CJoin _ b => cop_focus_ty b | CConv _ x _ _ => cop_focus_ty x end.

Fixpoint cop_eqb (a b : cop) : bool :=
  match a, b with
  | CField T A attr, CField T' A' attr' => ty_eqb T T' && ty_eqb A A' && list_eqb String.eqb attr attr'
  | CJoin x y, CJoin x' y' => cop_eqb x x' && cop_eqb y y'
  | CConv k x c B, CConv k' x' c' B' => N.eqb k k' && cop_eqb x x' && N.eqb c c' && ty_eqb B B'
  | _, _ => false
  end.

Record ciso := mkI { ci_sa : cop; ci_spath : list nat; ci_ta : cop; ci_tpath : list nat }.
Definition ci_sA (i : ciso) : ty := cop_focus_ty (ci_sa i).
Definition ci_tA (i : ciso) : ty := cop_focus_ty (ci_ta i).

Inductive req :=
| RLens (o : cop) (kind code : N) (B : ty) (fpath : list nat) (outer : option (list nat * ty))
| RMorph (isos : list (option ciso))
| RShape (tys : list ty) (attr : list string)
| RMapKey (init : list (string * Z)) (key : string) (v : Z).

Inductive obs :=
| OPanic
| OLens (o : lobs)
| OLenses (l : list lobs)
| OMorph (before_t before_s2 : list Z) (pf pi : bool) (ds1 dt1 ds2 dt2 : list (Z * Z))
| OMap (get0 get1 : Z) (same : bool) (after : list (string * Z)).

Record case := mkc { c_shape : shape; c_req : req; c_obs : obs }.

(* the conversion [code] of a value v into a type of n bytes *)
Definition conv (code : N) (n : nat) (v : list Z) : list Z :=
  match code with 0%N => v | 1%N => map (fun b => Z.lxor b 90) v | _ => sresize n v end.

Definition range_of (sh : shape) (p : list nat) (t : ty) : option (nat * nat) :=
  match compiler_off sh p with Some off => Some ((sh_base sh + Z.to_nat off)%nat, sizeof t) | None => None end.

Definition in_ranges (rs : list (nat * nat)) (i : Z) : bool := existsb (fun r => in_rangeZ (fst r) (snd r) i) rs.

(* padding bytes of struct-typed foci may change with a typed copy; they belong to no field *)
Definition ignorable (sh : shape) (foci : list (nat * ty)) (i : Z) : bool :=
  nth (Z.to_nat i) (arena_mask (List.length (sh_before sh)) foci) false.

(* the values of a conversion lens on which Put then Get is claimed to return the value: all of them when the
   conversions are mutually inverse everywhere (codes 0, 1; code 2 onto a type that is not wider than the field),
   else those that fit the field (C04_bimapI_lawful_on) *)
Definition putget_claimed (code : N) (nA : nat) (v : list Z) : bool :=
  match code with 0%N | 1%N => true | _ => representableb nA v end.

(* [c] is the optic as built: its focus is the field of type [cop_focus_ty c] at the selector path [fpath], the values
   it reads and writes have type B *)
Definition lens_ok (sh : shape) (c : cop) (kind code : N) (B : ty) (fpath : list nat) (outer : option (list nat * ty)) (o : lobs) : bool :=
  let A := cop_focus_ty c in
  let nB := sizeof B in
  match range_of sh fpath A with
  | None => false
  | Some (a, n) =>
      let before := sh_before sh in
      let after := apply_diff before (lo_diff o) in
      let foci := match outer with
                  | Some (p, t) => match range_of sh p t with Some (a', _) => [(a', t)] | None => [] end
                  | None => [(a, A)]
                  end in
      negb (lo_pput o) && lo_same o &&
      match kind with
      | 0%N =>   (* a lens on the converted value: GetPut / PutGet on observations, frame *)
          match lo_get0 o with Some g => val_eqb B g (conv code nB (slice_of before a n)) | None => false end &&
          forallb (fun d => in_rangeZ a n (fst d) || ignorable sh foci (fst d)) (lo_diff o) &&
          val_eqb A (slice_of after a n) (conv code n (lo_v o)) &&
          (negb (putget_claimed code n (lo_v o)) ||
           match lo_get1 o with Some g => val_eqb B g (lo_v o) | None => false end)
      | 1%N =>   (* Getter never writes *)
          match lo_get0 o with Some g => val_eqb B g (conv code nB (slice_of before a n)) | None => false end &&
          match lo_diff o with [] => true | _ => false end &&
          opt_eqb lz_eqb (lo_get0 o) (lo_get1 o)
      | _ =>     (* Setter writes exactly the converted value; Get is the zero value *)
          forallb (fun d => in_rangeZ a n (fst d)) (lo_diff o) &&
          val_eqb A (slice_of after a n) (conv code n (lo_v o)) &&
          opt_eqb lz_eqb (lo_get0 o) (Some (repeat 0%Z nB)) && opt_eqb lz_eqb (lo_get1 o) (Some (repeat 0%Z nB))
      end
  end.

Definition ranges_overlap (a b : nat * nat) : bool :=
  Nat.ltb (fst a) (fst b + snd b) && Nat.ltb (fst b) (fst a + snd a) && negb (Nat.eqb (snd a) 0) && negb (Nat.eqb (snd b) 0).

Fixpoint pairs {A} (l : list A) : list (A * A) :=
  match l with [] => [] | x :: r => map (fun y => (x, y)) r ++ pairs r end.

(* ---- ShapeN: reads and writes its N fields positionally as its component lenses would ---- *)
Definition shape_ok (sh : shape) (L : list oentry) (tys : list ty) (attr : list string) (obs : list lobs) : bool :=
  match all_some (map (focus_field sh L attr) (enumerate tys)) with
  | None => true                                      (* not N fields of this struct: C02's business *)
  | Some fs =>
      let before := sh_before sh in
      let after := apply_diff before (flat_map lo_diff obs) in
      let rs := map (fun fA => ((sh_base sh + Z.to_nat (snd (fst fA)))%nat, sizeof (snd fA))) (zip fs tys) in
      let foci := map (fun rA => (fst (fst rA), snd rA)) (zip rs tys) in
      Nat.eqb (List.length obs) (List.length tys) &&
      forallb (fun o => negb (lo_pput o) && lo_same o) obs &&
      forallb (fun d => in_ranges rs (fst d) || ignorable sh foci (fst d)) (flat_map lo_diff obs) &&
      (* component foci pairwise disjoint or identical: every component reads back its argument *)
      (existsb (fun p => ranges_overlap (fst p) (snd p) && negb (Nat.eqb (fst (fst p)) (fst (snd p)) && Nat.eqb (snd (fst p)) (snd (snd p)))) (pairs rs)) ||
      forallb (fun x =>
        let '(i, (r, A), o) := x in
        (* the value read back at position i is the one put at the first position with the same field *)
        let j := match find_idx (fun r' => Nat.eqb (fst r') (fst r) && Nat.eqb (snd r') (snd r)) rs 0 with Some j => j | None => i end in
        let vj := match nth_error obs j with Some oj => lo_v oj | None => [] end in
        match lo_get0 o with Some g => val_eqb A g (slice_of before (fst r) (snd r)) | None => false end &&
        match lo_get1 o with Some g => val_eqb A g vj | None => false end &&
        val_eqb A (slice_of after (fst r) (snd r)) vj)
        (zip (zip (seq 0 (List.length obs)) (zip rs tys)) obs)
  end.

(* ---- Iso / Morphism ---- *)
Definition same_iso (x y : ciso) : bool :=
  path_eqb (ci_spath x) (ci_spath y) && path_eqb (ci_tpath x) (ci_tpath y) &&
  cop_eqb (ci_sa x) (ci_sa y) && cop_eqb (ci_ta x) (ci_ta y).

Definition somes {A} (l : list (option A)) : list A := flat_map (fun o => match o with Some x => [x] | None => [] end) l.

(* The round trip is claimed for entries with a lawful source optic and a lawful target optic (C04_morphism_roundtrip).
   Getter and Setter are not lenses; a BiMap is one where its conversions are mutually inverse:
   [src_lossless]: g (f a) = a for EVERY content a of the field - Get then Put restores it (a conversion by value must
   not narrow the field's value);
   [sig_bytes]: a value read through the optic is the sign extension of that many low bytes;
   [dst_lossless n]: f (g b) = b for every b that is the sign extension of its n low bytes - Put then Get returns b. *)
Fixpoint src_lossless (o : cop) : bool :=
  match o with
  | CField _ _ _ => true
  | CJoin a b => src_lossless a && src_lossless b
  | CConv 0%N x code B =>
      src_lossless x && match code with 0%N | 1%N => true | _ => Nat.leb (sizeof (cop_ty x)) (sizeof B) end
  | CConv _ _ _ _ => false
  end.
Fixpoint sig_bytes (o : cop) : nat :=
  match o with
  | CField _ A _ => sizeof A
  | CJoin _ b => sig_bytes b
  | CConv _ x code B => match code with 0%N => sig_bytes x | 1%N => sizeof B | _ => Nat.min (sig_bytes x) (sizeof B) end
  end.
Fixpoint dst_lossless (n : nat) (o : cop) : bool :=
  match o with
  | CField _ _ _ => true
  | CJoin a b => src_lossless a && dst_lossless n b
  | CConv 0%N x code B =>
      match code with
      | 0%N => dst_lossless n x
      | 1%N => dst_lossless (sizeof (cop_ty x)) x
      | _ => (Nat.leb (sizeof B) (sizeof (cop_ty x)) || Nat.leb n (sizeof (cop_ty x))) && dst_lossless (Nat.min n (sizeof (cop_ty x))) x
      end
  | CConv _ _ _ _ => false
  end.
Definition ci_lawful (i : ciso) : bool := src_lossless (ci_sa i) && dst_lossless (sig_bytes (ci_sa i)) (ci_ta i).

Definition morph_ok (sh : shape) (isos : list (option ciso)) (before_s2 : list Z) (pf pi : bool) (ds1 dt1 ds2 dt2 : list (Z * Z)) : bool :=
  let is := somes isos in
  match all_some (map (fun i => range_of sh (ci_spath i) (ci_sA i)) is), all_some (map (fun i => range_of sh (ci_tpath i) (ci_tA i)) is) with
  | Some srs, Some trs =>
      let sfoci := map (fun x => (fst (fst x), ci_sA (snd x))) (zip srs is) in
      let tfoci := map (fun x => (fst (fst x), ci_tA (snd x))) (zip trs is) in
      let hyp := forallb ci_lawful is &&
                 forallb (fun p => let '((i, ri), (j, rj)) := p in negb (ranges_overlap ri rj) || same_iso i j) (pairs (zip is trs)) in
      negb pf && negb pi &&
      match ds1 with [] => true | _ => false end &&                                   (* Forward never writes the source *)
      forallb (fun d => in_ranges trs (fst d) || ignorable sh tfoci (fst d)) dt1 &&      (* .. and only target foci *)
      list_eqb (fun a b => Z.eqb (fst a) (fst b) && Z.eqb (snd a) (snd b)) dt1 dt2 && (* Inverse never writes the target *)
      forallb (fun d => in_ranges srs (fst d) || ignorable sh sfoci (fst d)) ds2 &&      (* .. and only source foci, of the structure it is given *)
      (* the round trip s -> t -> s2 makes every source focus of s2 equal to that of s *)
      (negb hyp ||
       forallb (fun x => let '(r, i) := x in
                         val_eqb (ci_sA i) (slice_of (apply_diff before_s2 ds2) (fst r) (snd r)) (slice_of (sh_before sh) (fst r) (snd r)))
               (zip srs is))
  | _, _ => false
  end.

(* ---- map lens ---- *)
Fixpoint assoc (m : list (string * Z)) (k : string) : option Z :=
  match m with [] => None | (k', v) :: r => if String.eqb k' k then Some v else assoc r k end.

Definition map_ok (init : list (string * Z)) (key : string) (v g0 g1 : Z) (same : bool) (after : list (string * Z)) : bool :=
  same && Z.eqb g1 v && Z.eqb g0 (match assoc init key with Some x => x | None => 0%Z end) &&
  opt_eqb Z.eqb (assoc after key) (Some v) &&
  forallb (fun kv => String.eqb (fst kv) key || opt_eqb Z.eqb (assoc after (fst kv)) (Some (snd kv))) init &&   (* other keys untouched *)
  forallb (fun kv => String.eqb (fst kv) key || opt_eqb Z.eqb (assoc init (fst kv)) (Some (snd kv))) after.    (* nothing else appears *)

Definition c_attr_short (attr : list string) (tys : list ty) : bool :=
  match attr with [] => false | _ => Nat.ltb (List.length attr) (List.length tys) end.

Definition oracle (c : case) : bool :=
  let sh := c_shape c in
  match c_req c, c_obs c with
  | RLens op kind code B fpath outer, OLens o => lens_ok sh op kind code B fpath outer o
  | RShape tys attr, OLenses obs => match sh_listing sh with Some L => shape_ok sh L tys attr obs | None => false end
  | RShape tys attr, OPanic =>
      (* a ShapeN of N fields of this struct must exist *)
      match sh_listing sh with
      | Some L => match c_attr_short attr tys, all_some (map (focus_field sh L attr) (enumerate tys)) with
                  | false, Some _ => false | _, _ => true end
      | None => false
      end
  | RMorph isos, OMorph _ bs2 pf pi ds1 dt1 ds2 dt2 => morph_ok sh isos bs2 pf pi ds1 dt1 ds2 dt2
  | RMapKey init key v, OMap g0 g1 same after => map_ok init key v g0 g1 same after
  | _, _ => false
  end.

Definition violations (cs : list case) : list N := idx_where (fun c => negb (oracle c)) 0%N cs.

Definition req_kind (r : req) : N :=
  match r with
  | RLens (CJoin _ _) _ _ _ _ _ => 0 | RLens _ 0%N _ _ _ _ => 1 | RLens _ 1%N _ _ _ _ => 2 | RLens _ _ _ _ _ _ => 3
  | RMorph _ => 4 | RShape _ _ => 5 | RMapKey _ _ _ => 6
  end%N.
(* (0 join, 1 bimap, 2 getter, 3 setter, 4 iso/morphism, 5 shapeN, 6 map lens; cases) *)
Definition digest (cs : list case) : list (N * N) :=
  map (fun k => (k, count_where (fun c => N.eqb (req_kind (c_req c)) k) cs)) [0; 1; 2; 3; 4; 5; 6]%N.
