(* C17 model run: the definitions regenerated from /repo/pure instantiated with the prelude's == and <
   and the coded functions of the harness. No proofs. *)
From Coq Require Import List ZArith NArith Bool.
From Golem Require Export Check.C17o.
From GolemGen Require Import GenPure.
Import ListNotations.
Open Scope Z_scope.

Definition model (c : case) : list Z :=
  let x := hd0 (a c) in let y := hd0 (b c) in
  match kind c with
  | 0%N => [b2z (eq_eq_Equal Z.eqb x y)]
  | 1%N => [b2z (eq_eq_Equal str_eqb (a c) (b c))]
  | 2%N => [ord_ord_Compare Z.ltb x y]
  | 3%N => [ord_ord_Compare str_ltb (a c) (b c)]
  | 4%N => [b2z (eq_ContraMap_Equal (proj (code c)) (eq_eq_Equal Z.eqb) x y)]
  | 5%N => [ord_ContraMap_Compare (proj (code c)) (ord_ord_Compare Z.ltb) x y]
  | 6%N => [b2z (eq_From_Equal (fun p q => Z.eqb p (q + code c)) x y)]
  | 7%N => [ord_From_Compare (fun p q => ord_ord_Compare Z.ltb p (q + code c)) x y]
  | 8%N => [semigroup_From_Combine (bop (code c)) x y]
  | 11%N => [b2z (eq_ContraMap_Equal (proj (code c)) (eq_From_Equal (fun p q => Z.eqb p (q + code c))) x y)]
  | 12%N => [ord_ContraMap_Compare (proj (code c)) (ord_From_Compare (fun p q => ord_ord_Compare Z.ltb p (q + code c))) x y]
  | 13%N => [ord_From_Compare (fun p q => p - q + code c) x y]
  | 14%N => [ord_ContraMap_Compare (proj (code c)) (ord_From_Compare (fun p q => p - q + code c)) x y]
  | 15%N => (* even cases go through monoid.From over semigroup.From, odd ones through monoid.FromOp: both are tried
               here, the two must agree (they are the same pair in the generated definitions) *)
            let m := monoid_From (sempty c) (semigroup_From_Combine (@app Z)) in
            let m' := monoid_FromOp (sempty c) (@app Z) in
            let r (em : list Z) (f : list Z -> list Z -> list Z) := lenc em ++ lenc (f (a c) (b c)) ++ lenc (f (b c) (a c)) ++ lenc (f em (a c)) in
            let r1 := r (monoid_monoid_Empty (snd m)) (fst m) in
            let r2 := r (monoid_monoid_Empty (snd m')) (semigroup_From_Combine (fst m')) in
            if lz_eqb r1 r2 then r1 else []
  | 9%N => let m := monoid_From (e c) (semigroup_From_Combine (bop (code c))) in
           [monoid_monoid_Empty (snd m); fst m x y; fst m y x]
  | _ => let m := monoid_FromOp (e c) (bop (code c)) in
         [monoid_monoid_Empty (snd m); semigroup_From_Combine (fst m) x y; semigroup_From_Combine (fst m) y x]
  end.

Definition mismatches (cs : list case) : list N := idx_where (fun c => negb (lz_eqb (model c) (obs c))) 0%N cs.
