(* Trace acceptance for the Pool machine (DESIGN.md 2.1.4): the harness drives the real
   goroutines through a recorded sequence of environment moves under testing/synctest;
   [accepts] decides whether SOME execution of the model produces exactly the recorded
   outcomes, by keeping the finite set of quiescent model states compatible with the
   observations so far.  Executable, no proofs. *)
From Coq Require Import List ZArith NArith Bool Arith.
From Golem Require Import Base.CheckLib Pipe.Pool Pipe.Stages.
From Golem Require Export Check.PoolCodes.
Import ListNotations.
Open Scope Z_scope.

Inductive move :=
| MSend (i : nat) (x : Z)   (* non-blocking attempt: select { case in_i <- x: default: } *)
| MCloseIn (i : nat)
| MRecv (k : nat)           (* non-blocking attempt: select { case v, ok := <-out_k: default: } *)
| MCancel
| MRelease (a : Z)          (* open the gate of the user-function call on element a *)
| MSleep (d : N)            (* the driver sleeps d virtual ticks *)
| MEnd.                     (* final observation *)

Inductive outcome :=
| OBlocked | ODone | OVal (v : Z) | OClosed
| OEnd (now : N) (live : nat).   (* virtual time, goroutines of package pipe still alive *)

Record pcase := mkP { stage : stage_code; icaps : list nat; ocaps : list nat; moves : list (move * outcome) }.

Definition nouts_of (p : pcase) : nat := length (ocaps p).
Definition cfg_of_case (p : pcase) : cfg := cfg_of (stage p) (icaps p) (ocaps p).

(* ---------- state keys (non-ghost projection) ---------- *)
Definition b2z (b : bool) : Z := if b then 1 else 0.
Definition enc_act (a : act) : list Z :=
  match a with
  | ASend k v => [1; Z.of_nat k; v]
  | APlain k v => [2; Z.of_nat k; v]
  | APoll => [3]
  | ATok c => [4; Z.of_nat c]
  | ASleep d => [5; Z.of_N d]
  | ASleepSel d => [6; Z.of_N d]
  | AStop => [7]
  end.
Definition enc_todo (l : list act) : list Z := Z.of_nat (length l) :: flat_map enc_act l.
Definition enc_ctl (c : wctl) : list Z :=
  match c with
  | WRecv => [0]
  | WCall a todo => 1 :: a :: enc_todo todo
  | WRun eof todo => 2 :: b2z eof :: enc_todo todo
  | WSleep u sel eof todo => 3 :: Z.of_N u :: b2z sel :: b2z eof :: enc_todo todo
  | WDone => [4]
  end.
Definition enc_chan (ch : chan) : list Z :=
  Z.of_nat (length (cbuf ch)) :: map snd (cbuf ch) ++ [b2z (cclosed ch)].

(* lexicographic order on encodings, insertion sort: canonical order of symmetric workers *)
Fixpoint lz_leb (a b : list Z) : bool :=
  match a, b with
  | [], _ => true
  | _ :: _, [] => false
  | x :: a', y :: b' => if Z.ltb x y then true else if Z.ltb y x then false else lz_leb a' b'
  end.
Fixpoint insert_enc (x : list Z) (l : list (list Z)) : list (list Z) :=
  match l with
  | [] => [x]
  | y :: r => if lz_leb x y then x :: l else y :: insert_enc x r
  end.
Definition sort_enc (l : list (list Z)) : list (list Z) := fold_right insert_enc [] l.

(* [sym]: the workers are interchangeable (fork stages: same source, same stateless plan), so
   states that differ by a permutation of worker identities get the same key *)
Definition key (sym : bool) (nin nout : nat) (c : cfg) (s : state) : list Z :=
  flat_map (fun i => enc_chan (ins s i)) (seq 0 nin) ++
  flat_map (fun k => enc_chan (outs s k)) (seq 0 nout) ++
  [b2z (cancelled s); b2z (closer_done s); b2z (panicked s); Z.of_N (now s)] ++
  let encs := map (fun w => wl (ws s w) :: enc_ctl (wc (ws s w))) (seq 0 (par c)) in
  concat (if sym then sort_enc encs else encs).

(* rebuild the function-valued maps from tables (keeps closures shallow; extensionally the identity) *)
Definition tab {A} (n : nat) (f : nat -> A) (d : A) : nat -> A :=
  let l := map f (seq 0 n) in fun i => nth i l d.
Definition norm_worker (nout : nat) (x : worker) : worker :=
  mkW (wl x) (wc x) (wtaken x) (weof x) (tab nout (wdropped x) []).
Definition normalize (nin nout : nat) (c : cfg) (s : state) : state :=
  mkS (tab nin (ins s) (empty_chan 0)) (tab nout (outs s) (empty_chan 0)) (cancelled s)
      (tab (par c) (fun w => norm_worker nout (ws s w)) (ws s (par c)))
      (closer_done s) (panicked s) (now s)
      (tab nin (sent s) []) (tab nin (consumed s) []) (tab nout (rcvd s) []).

Section Accept.
Variable sym : bool.
Variable nin nout : nat.
Variable c : cfg.

Definition kstate := (list Z * state)%type.
Definition mk (s : state) : kstate := let s' := normalize nin nout c s in (key sym nin nout c s', s').
Definition seen_t := list (list Z).
Definition has_key (k : list Z) (l : seen_t) : bool := existsb (lz_eqb k) l.

Fixpoint add_all (new : list kstate) (seen : seen_t) (acc : list kstate) : list kstate * seen_t :=
  match new with
  | [] => (acc, seen)
  | (k, s) :: r => if has_key k seen then add_all r seen acc else add_all r (k :: seen) ((k, s) :: acc)
  end.

Definition somes {A} (l : list (option A)) : list A :=
  flat_map (fun o => match o with Some x => [x] | None => [] end) l.

(* internal moves: any worker step with either resolution of a two-armed select, or the closer *)
Definition succs (s : state) : list state :=
  somes (flat_map (fun w => [step c s (EW w false); step c s (EW w true)]) (seq 0 (par c)) ++ [step c s ECloser]).

(* all quiescent states reachable by internal moves; the bool says the exploration completed *)
Fixpoint close_loop (fuel : nat) (todo : list kstate) (seen : seen_t) (quies : list kstate) : list kstate * bool :=
  match fuel with
  | O => (quies, match todo with [] => true | _ => false end)
  | S f =>
      match todo with
      | [] => (quies, true)
      | (k, s) :: r =>
          match succs s with
          | [] => close_loop f r seen ((k, s) :: quies)
          | nexts =>
              let '(todo', seen') := add_all (map mk nexts) seen r in
              close_loop f todo' seen' quies
          end
      end
  end.

Definition FUEL : nat := 3000.   (* more does not pay: the seen-set is a list, exploration is quadratic; exhausted = inconclusive *)

Definition closure (l : list state) : list kstate * bool :=
  let '(todo, seen) := add_all (map mk l) [] [] in close_loop FUEL todo seen [].

Definition recv_enabled (s : state) (k : nat) : bool :=
  match cbuf (outs s k) with
  | _ :: _ => true
  | [] => cclosed (outs s k) ||
          (Nat.eqb (ccap (outs s k)) 0 &&
           existsb (fun w => match wc (ws s w) with
                             | WRun _ (ASend k' _ :: _) | WRun _ (APlain k' _ :: _) => Nat.eqb k' k
                             | _ => false end) (seq 0 (par c)))
  end.

Definition live (s : state) : nat :=
  length (filter (fun w => negb (is_done (ws s w))) (seq 0 (par c))) +
  (if closer c && negb (closer_done s) then 1 else 0).

Definition advance (s : state) (t : N) : state :=
  match step c s (EAdvance t) with Some s' => s' | None => s end.

(* the driver sleeps until [target]: timers fire exactly when due, in order (maximal progress) *)
Fixpoint sleep_loop (fuel : nat) (l : list state) (target : N) : list state * bool :=
  match fuel with
  | O => (l, false)
  | S f =>
      let due := filter (fun s => match min_wake s (par c) with Some t => N.leb t target | None => false end) l in
      let rest := filter (fun s => match min_wake s (par c) with Some t => negb (N.leb t target) | None => true end) l in
      let rest' := map (fun s => advance s target) rest in
      match due with
      | [] => (rest', true)
      | _ =>
          let stepped := map (fun s => match min_wake s (par c) with Some t => advance s t | None => s end) due in
          let '(q, ok) := closure stepped in
          let '(r, ok') := sleep_loop f (map snd q) target in
          (rest' ++ r, ok && ok')
      end
  end.

Definition apply_move (m : move) (o : outcome) (s : state) : list state :=
  match m, o with
  | MSend i x, ODone => match step c s (ESent i x) with Some s' => [s'] | None => [] end
  | MSend i x, OBlocked => match step c s (ESent i x) with Some _ => [] | None => [s] end
  | MCloseIn i, ODone => match step c s (ECloseIn i) with Some s' => [s'] | None => [] end
  | MRecv k, OVal v => match step c s (ERcvd k v) with Some s' => [s'] | None => [] end
  | MRecv k, OClosed => match step c s (ERcvdClosed k) with Some s' => [s'] | None => [] end
  | MRecv k, OBlocked => if recv_enabled s k then [] else [s]
  | MCancel, ODone => match step c s ECancel with Some s' => [s'] | None => [] end
  | MRelease a, ODone =>
      somes (map (fun w => match wc (ws s w) with
                           | WCall a' _ => if Z.eqb a a' then step c s (ERet w) else None
                           | _ => None end) (seq 0 (par c)))
  | MEnd, OEnd t n => if N.eqb (now s) t && Nat.eqb (live s) n then [s] else []
  | _, _ => []
  end.

(* returns (accepted, exploration complete) *)
Fixpoint run (l : list state) (ms : list (move * outcome)) : bool * bool :=
  match ms with
  | [] => (match l with [] => false | _ => true end, true)
  | (MSleep d, _) :: r =>
      match l with
      | [] => (false, true)
      | s0 :: _ =>
          let '(l', ok) := sleep_loop 200 l (now s0 + d) in
          if negb ok then (false, false) else
          let '(a, ok') := run l' r in (a, ok && ok')
      end
  | (m, o) :: r =>
      let '(q, ok) := closure (flat_map (apply_move m o) l) in
      if negb ok then (false, false)      (* out of fuel: inconclusive, do not pay for it again at every later move *)
      else
      match q with
      | [] => (false, ok)
      | _ => let '(a, ok') := run (map snd q) r in (a, ok && ok')
      end
  end.

Definition accepts_from (ms : list (move * outcome)) : bool * bool :=
  let '(q, ok) := closure [init c] in
  let '(a, ok') := run (map snd q) ms in (a, ok && ok').
(* the context was cancelled BEFORE the stage was created (the trace starts with that cancel): no goroutine
   has taken a step yet when the flag goes up *)
Definition accepts_from_pre (ms : list (move * outcome)) : bool * bool :=
  match ms with
  | (MCancel, ODone) :: r =>
      match step c (init c) ECancel with
      | Some s0 => let '(q, ok) := closure [s0] in
                   if negb ok then (false, false) else let '(a, ok') := run (map snd q) r in (a, ok && ok')
      | None => (false, true)
      end
  | _ => accepts_from ms
  end.
End Accept.

(* (a run of the model producing the trace was found, the exploration of the internal steps was complete).
   A found run is a run, complete exploration or not; a trace is REJECTED only when the complete exploration finds
   none; when the fuel of an exploration runs out before a run is found the case is INCONCLUSIVE (counted in the
   digest, neither a mismatch nor a confirmation) *)
Definition verdict (pre : bool) (p : pcase) : bool * bool :=
  let sym := match stage p with SFork _ _ _ => true | _ => false end in
  (if pre then accepts_from_pre else accepts_from) sym (length (icaps p)) (nouts_of p) (cfg_of_case p) (moves p).
Definition accepts (p : pcase) : bool := fst (verdict false p).
Definition rejects (pre : bool) (p : pcase) : bool := let '(a, ok) := verdict pre p in negb a && ok.
Definition inconclusive (pre : bool) (p : pcase) : bool := let '(a, ok) := verdict pre p in negb a && negb ok.

(* ---------- what the observations say (used by the property oracles) ---------- *)
Definition sent_on (i : nat) (ms : list (move * outcome)) : list Z :=
  flat_map (fun mo => match mo with (MSend j x, ODone) => if Nat.eqb i j then [x] else [] | _ => [] end) ms.
Definition rcvd_on (k : nat) (ms : list (move * outcome)) : list Z :=
  flat_map (fun mo => match mo with (MRecv j, OVal v) => if Nat.eqb k j then [v] else [] | _ => [] end) ms.
Definition saw_closed (k : nat) (ms : list (move * outcome)) : bool :=
  existsb (fun mo => match mo with (MRecv j, OClosed) => Nat.eqb k j | _ => false end) ms.
Definition has_cancel (ms : list (move * outcome)) : bool :=
  existsb (fun mo => match mo with (MCancel, _) => true | _ => false end) ms.
Definition closed_in (i : nat) (ms : list (move * outcome)) : bool :=
  existsb (fun mo => match mo with (MCloseIn j, ODone) => Nat.eqb i j | _ => false end) ms.
Definition end_live (ms : list (move * outcome)) : option nat :=
  fold_left (fun acc mo => match mo with (MEnd, OEnd _ n) => Some n | _ => acc end) ms None.

Fixpoint is_prefix (a b : list Z) : bool :=
  match a, b with
  | [], _ => true
  | x :: a', y :: b' => Z.eqb x y && is_prefix a' b'
  | _, [] => false
  end.


(* a case of the Pool family: the trace, the user-function calls in invocation order, whether the
   harness process crashed in this case (library panic / goroutines that never exit), and how the
   schedule was produced (0 random, 1 consumer keeps up, 2 idle then burst, 3 absent consumer, 4 enumerated, 5 steady, 6 context cancelled before the stage was created, 9 free-running pseudo-trace) *)
Record case := mkC { pc : pcase; calls : list Z; crashed : bool; sched : N; ctimes : list N (* virtual time of each user-function call *) }.

(* free-running cases (sched = 9) are pseudo-traces of complete runs: only the oracle judges them *)
Definition mismatches (cs : list case) : list N :=
  idx_where (fun c => if N.eqb (sched c) 9 then crashed c else rejects (N.eqb (sched c) 6) (pc c) || crashed c) 0%N cs.
