(* C18 oracle: the property itself as an executable boolean over what the real skip list did.
   A plain association-list map decides every answer; the printed form must list exactly the live
   keys in strictly ascending order (w.r.t. the order trait of the case) and every non-nil finger of a
   printed node must point to a strictly larger live key.  Independent of Skiplist/Model.v and of
   the node heights (Skiplist/Spec.v holds only the history type and the association-list map).  No proofs here. *)
From Coq Require Import List ZArith NArith Bool.
From Golem Require Export Base.CheckLib Skiplist.Spec.
Import ListNotations.
Open Scope Z_scope.

(* an operation as issued by the harness is an [op] of Skiplist/Spec.v; its [ht] = number of fingers the new node
   was seen to have (0 when Put found the key, or the node is not in the print) - not used by the oracle *)

(* what was observed after one operation: its answer (Put: 0), Get of every key of the universe,
   the parsed String(): (key, finger keys / None for nil) per line, head first *)
Record obs := mkO { ans : Z; gets : list Z; pr : list (Z * list (option Z)) }.

(* order: 0 = the natural order of Z, otherwise reversed;  levels = fingers of the head as printed by the empty list *)
Record case := mk { order : N; levels : nat; universe : list Z; steps : list (op * obs) }.

(* case files write a run of n trailing nil fingers as [.. ++ rn n] *)
Definition rn (n : nat) : list (option Z) := repeat None n.

Definition cmpo (o : N) (a b : Z) : comparison := match o with 0%N => Z.compare a b | _ => Z.compare b a end.
Definition lto (o : N) (a b : Z) : bool := match cmpo o a b with Lt => true | _ => false end.

(* the ordinary map: amap, alookup, amem, aput, aremove, astep of Skiplist/Spec.v *)

Fixpoint ascending (o : N) (l : list Z) : bool :=
  match l with
  | a :: r => match r with b :: _ => lto o a b && ascending o r | [] => true end
  | [] => true
  end.

Definition zmem (k : Z) (l : list Z) : bool := existsb (Z.eqb k) l.

(* fingers of a printed node: nil, or a strictly larger printed key *)
Definition fingers_ok (o : N) (keys : list Z) (e : Z * list (option Z)) : bool :=
  forallb (fun f => match f with None => true | Some k' => lto o (fst e) k' && zmem k' keys end) (snd e).
Definition head_ok (keys : list Z) (e : Z * list (option Z)) : bool :=
  forallb (fun f => match f with None => true | Some k' => zmem k' keys end) (snd e).

Definition print_ok (o : N) (m : amap) (p : list (Z * list (option Z))) : bool :=
  match p with
  | [] => false
  | hd :: body =>
      let keys := map fst body in
      ascending o keys
      && Nat.eqb (length keys) (length m)
      && forallb (fun k => amem k m) keys
      && head_ok keys hd
      && forallb (fingers_ok o keys) body
  end.

Fixpoint steps_ok (o : N) (univ : list Z) (m : amap) (l : list (op * obs)) : bool :=
  match l with
  | [] => true
  | (c, ob) :: r =>
      let (m', a) := astep m c in
      Z.eqb a (ans ob)
      && lz_eqb (map (fun k => alookup k m') univ) (gets ob)
      && print_ok o m' (pr ob)
      && steps_ok o univ m' r
  end.

Definition oracle (c : case) : bool := steps_ok (order c) (universe c) [] (steps c).

Definition violations (cs : list case) : list N := idx_where (fun c => negb (oracle c)) 0%N cs.

Definition is_put (s : op * obs) : bool := match fst s with Put _ _ _ => true | _ => false end.
Definition is_remove (s : op * obs) : bool := match fst s with Remove _ => true | _ => false end.
Definition ht_of (s : op * obs) : nat := match fst s with Put _ _ h => h | _ => O end.
(* (cases, operations, puts, removes, reversed-order cases, largest height seen) *)
Definition digest (cs : list case) : list N :=
  let all := flat_map steps cs in
  [ N.of_nat (length cs); N.of_nat (length all); count_where is_put all; count_where is_remove all;
    count_where (fun c => negb (N.eqb (order c) 0%N)) cs;
    N.of_nat (fold_left Nat.max (map ht_of all) O) ].
