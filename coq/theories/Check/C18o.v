(* C18 oracle: the property itself as an executable boolean over what the real skip list did.
   A plain association-list map decides every answer; the printed form must list exactly the live
   keys in strictly ascending order (w.r.t. the order trait of the case) and every non-nil finger of a
   printed node must point to a strictly larger live key.  Independent of Skiplist/Model.v and of
   the node heights.  No proofs here. *)
From Coq Require Import List ZArith NArith Bool.
From Golem Require Export Base.CheckLib.
Import ListNotations.
Open Scope Z_scope.

(* an operation as issued by the harness; [ht] = number of fingers the new node was seen to have
   (0 when Put found the key, or the node is not in the print) - not used by the oracle *)
Inductive cop := CPut (k v : Z) (ht : nat) | CGet (k : Z) | CRemove (k : Z).

(* what was observed after one operation: its answer (Put: 0), Get of every key of the universe,
   the parsed String(): (key, finger keys / None for nil) per line, head first *)
Record obs := mkO { ans : Z; gets : list Z; pr : list (Z * list (option Z)) }.

(* order: 0 = the natural order of Z, otherwise reversed;  levels = fingers of the head as printed by the empty list *)
Record case := mk { order : N; levels : nat; universe : list Z; steps : list (cop * obs) }.

Definition cmpo (o : N) (a b : Z) : comparison := match o with 0%N => Z.compare a b | _ => Z.compare b a end.
Definition lto (o : N) (a b : Z) : bool := match cmpo o a b with Lt => true | _ => false end.

(* the ordinary map *)
Definition amap := list (Z * Z).
Fixpoint alookup (k : Z) (m : amap) : Z :=
  match m with [] => 0 | (k', v) :: r => if Z.eqb k k' then v else alookup k r end.
Definition amem (k : Z) (m : amap) : bool := existsb (fun p => Z.eqb k (fst p)) m.
Definition aremove (k : Z) (m : amap) : amap := filter (fun p => negb (Z.eqb k (fst p))) m.
Definition aput (k v : Z) (m : amap) : amap := (k, v) :: aremove k m.

Definition astep (m : amap) (o : cop) : amap * Z :=
  match o with
  | CPut k v _ => (aput k v m, 0)
  | CGet k => (m, alookup k m)
  | CRemove k => (aremove k m, alookup k m)
  end.

Fixpoint ascending (o : N) (l : list Z) : bool :=
  match l with
  | a :: r => match r with b :: _ => lto o a b && ascending o r | [] => true end
  | [] => true
  end.

Definition zmem (k : Z) (l : list Z) : bool := existsb (Z.eqb k) l.

(* fingers of a printed node: nil, or a strictly larger printed key *)
Definition fingers_ok (o : N) (keys : list Z) (e : Z * list (option Z)) : bool :=
  forallb (fun f => match f with None => true | Some k' => lto o (fst e) k' && zmem k' keys end) (snd e).
Definition head_ok (keys : list Z) (e : Z * list (option Z)) : bool :=
  forallb (fun f => match f with None => true | Some k' => zmem k' keys end) (snd e).

Definition print_ok (o : N) (m : amap) (p : list (Z * list (option Z))) : bool :=
  match p with
  | [] => false
  | hd :: body =>
      let keys := map fst body in
      ascending o keys
      && Nat.eqb (length keys) (length m)
      && forallb (fun k => amem k m) keys
      && head_ok keys hd
      && forallb (fingers_ok o keys) body
  end.

Fixpoint steps_ok (o : N) (univ : list Z) (m : amap) (l : list (cop * obs)) : bool :=
  match l with
  | [] => true
  | (c, ob) :: r =>
      let (m', a) := astep m c in
      Z.eqb a (ans ob)
      && lz_eqb (map (fun k => alookup k m') univ) (gets ob)
      && print_ok o m' (pr ob)
      && steps_ok o univ m' r
  end.

Definition oracle (c : case) : bool := steps_ok (order c) (universe c) [] (steps c).

Definition violations (cs : list case) : list N := idx_where (fun c => negb (oracle c)) 0%N cs.

Definition is_put (s : cop * obs) : bool := match fst s with CPut _ _ _ => true | _ => false end.
Definition is_remove (s : cop * obs) : bool := match fst s with CRemove _ => true | _ => false end.
Definition ht_of (s : cop * obs) : nat := match fst s with CPut _ _ h => h | _ => O end.
(* (cases, operations, puts, removes, reversed-order cases, largest height seen) *)
Definition digest (cs : list case) : list N :=
  let all := flat_map steps cs in
  [ N.of_nat (length cs); N.of_nat (length all); count_where is_put all; count_where is_remove all;
    count_where (fun c => negb (N.eqb (order c) 0%N)) cs;
    N.of_nat (fold_left Nat.max (map ht_of all) O) ].
