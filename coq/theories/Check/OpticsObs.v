(* Shared by the checkers of C01..C04: what the Go driver reports about one struct shape.
   Executable definitions only, no proofs. *)
From Coq Require Import List String Ascii ZArith NArith Bool Arith.
From Golem Require Export Base.CheckLib Optics.Combinators.
Import ListNotations.

(* one hseq.Type[T] as observed: Name, FieldKey(), Type.String(), Offset, RootOffs, ID, Anonymous, PureType.String() *)
Record oentry := mkO {
  o_name : string; o_key : string; o_type : string; o_off : Z; o_root : Z; o_id : Z; o_anon : bool; o_pure : string
}.

Record shape := mkShape {
  sh_ty : ty;                               (* the type as reflect describes it *)
  sh_offs : list (list nat * Z * Z);        (* per inline selector path: unsafe.Offsetof chain, and &selector - &struct *)
  sh_listing : option (list oentry);        (* hseq.New[T]() as observed (None: it panicked) *)
  sh_base : nat;                            (* address of the struct inside the arena (= length of the leading guard) *)
  sh_before : list Z                        (* the arena: guard, struct with typed sentinel values, guard *)
}.

Definition bytes_string (l : list Z) : string :=
  fold_right (fun b s => String (ascii_of_N (Z.to_N b)) s) EmptyString l.

(* byte lists are written by the case writer as hex strings (a list literal of numbers is slow to parse) *)
Definition hexval (c : ascii) : Z :=
  let n := Z.of_N (N_of_ascii c) in if Z.ltb n 58 then (n - 48)%Z else (n - 87)%Z.
Fixpoint hx (s : string) : list Z :=
  match s with
  | String a (String b r) => (16 * hexval a + hexval b)%Z :: hx r
  | _ => []
  end.
(* changed bytes: 4 hex digits of index, 2 of the new byte *)
Fixpoint hxd (s : string) : list (Z * Z) :=
  match s with
  | String a (String b (String c (String d (String e (String f r))))) =>
      (((16 * hexval a + hexval b) * 16 + hexval c) * 16 + hexval d, 16 * hexval e + hexval f)%Z :: hxd r
  | _ => []
  end.

Definition oentry_eqb (a b : oentry) : bool :=
  String.eqb (o_name a) (o_name b) && String.eqb (o_key a) (o_key b) && String.eqb (o_type a) (o_type b) &&
  Z.eqb (o_off a) (o_off b) && Z.eqb (o_root a) (o_root b) && Z.eqb (o_id a) (o_id b) &&
  Bool.eqb (o_anon a) (o_anon b) && String.eqb (o_pure a) (o_pure b).

(* the same, leaving RootOffs out (the property says nothing about it behind a pointer) *)
Definition oentry_eqb_noroot (a b : oentry) : bool :=
  String.eqb (o_name a) (o_name b) && String.eqb (o_key a) (o_key b) && String.eqb (o_type a) (o_type b) &&
  Z.eqb (o_off a) (o_off b) && Z.eqb (o_id a) (o_id b) &&
  Bool.eqb (o_anon a) (o_anon b) && String.eqb (o_pure a) (o_pure b).

Definition of_entry (e : entry) : oentry :=
  mkO (e_name e) (e_key e) (ty_string (e_ty e)) (Z.of_nat (e_off e)) (Z.of_nat (e_root e)) (Z.of_nat (e_id e))
      (e_anon e) (ty_string (e_pure e)).

Definition path_eqb (a b : list nat) : bool := list_eqb Nat.eqb a b.

(* the compiler's offset of an inline selector path: both ways of asking must agree *)
Definition compiler_off (sh : shape) (p : list nat) : option Z :=
  match find (fun x => path_eqb (fst (fst x)) p) (sh_offs sh) with
  | Some (_, o, a) => if Z.eqb o a then Some o else None
  | None => None
  end.

(* the depth-first listing the property describes, from the reflected type alone *)
Definition spec_listing (t : ty) : list entry := number 0 (flatten t 0 [] true).

(* reflect's view of the layout is what the compiler does, and it is a well-formed gc layout *)
Definition layout_ok (sh : shape) : bool :=
  wf_layout (sh_ty sh) && ty_eqb (golayout (sh_ty sh)) (sh_ty sh) &&
  forallb (fun x => match true_offset (sh_ty sh) (fst (fst x)) with
                    | Some o => Z.eqb (Z.of_nat o) (snd (fst x)) && Z.eqb (Z.of_nat o) (snd x)
                    | None => false
                    end) (sh_offs sh) &&
  (* every inline entry of the specification has its compiler offset *)
  forallb (fun e => negb (e_inline e) || String.eqb (e_name e) "_" ||
                    match compiler_off sh (e_path e) with Some _ => true | None => false end) (spec_listing (sh_ty sh)).

Fixpoint zip {A B} (a : list A) (b : list B) : list (A * B) :=
  match a, b with x :: a', y :: b' => (x, y) :: zip a' b' | _, _ => [] end.

Definition strs_eqb := list_eqb String.eqb.
