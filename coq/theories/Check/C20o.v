(* C20 oracle: the property itself as an executable boolean over observed results.
   Independent of the generated definitions. No proofs here. *)
From Coq Require Import List ZArith NArith Bool.
From Golem Require Export Base.CheckLib.
Import ListNotations.
Open Scope Z_scope.

(* family 3: values of interface type, nil = the empty list: same list semantics as family 2; a panic is observed as [-999] *)
(* family 0: f_i x = 2x + i on Z;  family 1: f_i x = x - i if i odd, 3x if i even;  family 2: f_i l = l ++ [i] *)
Definition fam01 (fam : N) (i : Z) (x : Z) : Z :=
  match fam with
  | 0%N => 2 * x + i
  | _ => if Z.odd i then x - i else 3 * x
  end.
Definition fam2 (i : Z) (l : list Z) : list Z := l ++ [i].

Definition spec_pipe {T : Type} (n : N) (f : Z -> T -> T) (a : T) : T :=
  fold_left (fun x i => f (Z.of_nat i) x) (seq 1 (N.to_nat n)) a.

Record case := mk { arity : N; fam : N; input : list Z; observed : list Z }.

(* family 4: family 2, except that stage (n+1)/2 of the outermost call also calls the whole pipeline on [100] and
   appends the length of what comes back (n + 1) *)
Definition fam4 (n : N) (i : Z) (l : list Z) : list Z :=
  if Z.eqb i ((Z.of_N n + 1) / 2) then l ++ [i; Z.of_nat (length (spec_pipe n fam2 [100]))] else l ++ [i].

(* family 5: float64 values, f_i x = x/2 + i, exact on dyadic rationals: the model computes on x * 2^24; the
   input is given in quarters *)
Definition fam5 (i : Z) (y : Z) : Z := y / 2 + i * 16777216.

(* family 3: the argument is the nil interface (written [], counted as the list [-1000]), a typed nil slice inside the
   interface (written [-7777], the empty list) or a list *)
Definition start3 (l : list Z) : list Z :=
  match l with [] => [-1000] | [x] => if Z.eqb x (-7777) then [] else l | _ => l end.

(* family 6: one pipeline value called twice on the same argument; the stages are v -> 3v + i*setting (setting 1 in the
   first call, 2 in the second) and count their applications: values are pairs (v, applications so far) *)
Definition fam6 (setting : Z) (i : Z) (p : Z * Z) : Z * Z := (3 * fst p + i * setting, snd p + 1).
Definition two_calls (r1 r2 : Z * Z) : list Z := [fst r1; fst r2; snd r1 + snd r2].
(* family 7: one float64 pipeline called on +0 and -0 (input [0]) or on -0 and +0 (input [1]); stage 1 yields +1 / -1 by
   the sign bit (the model's argument is the sign, 1 or -1), the other stages are those of family 5 *)
Definition fam7 (i : Z) (y : Z) : Z := if Z.eqb i 1 then y * 16777216 else fam5 i y.
Definition signs7 (l : list Z) : option (Z * Z) := match l with [0] => Some (1, -1) | [1] => Some (-1, 1) | _ => None end.

Definition required (c : case) : option (list Z) :=
  match fam c with
  | 6%N => match input c with
           | [x] => Some (two_calls (spec_pipe (arity c) (fam6 1) (x, 0)) (spec_pipe (arity c) (fam6 2) (x, 0)))
           | _ => None end
  | 7%N => match signs7 (input c) with
           | Some (s1, s2) => Some [spec_pipe (arity c) fam7 s1; spec_pipe (arity c) fam7 s2]
           | None => None end
  | 5%N => match input c with [q] => Some [spec_pipe (arity c) fam5 (q * 4194304)] | _ => None end
  | 2%N => Some (spec_pipe (arity c) fam2 (input c))
  | 3%N => Some (spec_pipe (arity c) fam2 (start3 (input c)))
  | 4%N => Some (spec_pipe (arity c) (fam4 (arity c)) (input c))
  | f => match input c with [x] => Some [spec_pipe (arity c) (fam01 f) x] | _ => None end
  end.
Definition agree (o : option (list Z)) (obs : list Z) : bool := match o with Some l => lz_eqb l obs | None => false end.

Definition violations (cs : list case) : list N := idx_where (fun c => negb (agree (required c) (observed c))) 0%N cs.
Definition digest (cs : list case) : list (N * N) :=
  map (fun n => (n, count_where (fun c => N.eqb (arity c) n) cs)) (map N.of_nat (seq 2 19)).
