(* The properties C05 C06 C07 C09 C11 C12 C13 as executable booleans over what the harness
   OBSERVED (moves and outcomes, user-function calls, crash flag) - never over model states.
   Executable, no proofs. *)
From Coq Require Import List ZArith NArith Bool Arith.
From Golem Require Import Pipe.Pool Pipe.Stages.
From Golem Require Export Base.CheckLib Check.Pool.
Import ListNotations.
Open Scope Z_scope.

Section Oracles.
Variable c : case.
Let p := pc c.
Let ms := moves p.
Let st := stage p.

Definition nin : nat := length (icaps p).
Definition nobs : nat := match st with SThrottle _ _ => 1%nat | _ => length (ocaps p) end.
Definition icap0 : nat := nth 0 (icaps p) 0%nat.

(* moves before / after the final census *)
Fixpoint before_end (l : list (move * outcome)) : list (move * outcome) :=
  match l with [] => [] | (MEnd, _) :: _ => [] | x :: r => x :: before_end r end.

Definition cancelled_run : bool := has_cancel ms.
Definition inputs_closed : bool := forallb (fun i => closed_in i (before_end ms)) (seq 0 nin).
Definition outputs_closed (l : list (move * outcome)) : bool := forallb (fun k => saw_closed k l) (seq 0 nobs).
Definition live_at_end : nat := match end_live ms with Some n => n | None => 0%nat end.

(* time of each move = sum of the driver's sleeps before it *)
Fixpoint timed (t : N) (l : list (move * outcome)) : list (N * (move * outcome)) :=
  match l with
  | [] => []
  | (MSleep d, o) :: r => (t, (MSleep d, o)) :: timed (t + d) r
  | x :: r => (t, x) :: timed t r
  end.
Definition recv_times (k : nat) : list (N * Z) :=
  flat_map (fun tm => match tm with (t, (MRecv j, OVal v)) => if Nat.eqb j k then [(t, v)] else [] | _ => [] end) (timed 0 ms).
Definition cancel_time : option N :=
  fold_left (fun acc tm => match acc, tm with None, (t, (MCancel, _)) => Some t | a, _ => a end) (timed 0 ms) None.

(* ---------- exact sequences of the generators ---------- *)
Definition the_fail : failcode :=
  match st with SUnfold _ _ fl _ | SEmit _ _ fl _ | SMap _ fl _ | SFMap _ fl _ => fl | _ => NoFail end.
Definition is_try : bool :=
  match st with SUnfold _ _ _ t | SEmit _ _ _ t | SMap _ _ t | SFMap _ _ t => t | _ => false end.

(* Unfold: seed, f seed, ... ; the value on which f fails is still delivered, then its error; fail-fast stops there,
   try-and-continue goes on from what f returned with the error (a failing coded function returns the zero value) *)
Fixpoint unfold_vals (f : fcode) (fl : failcode) (try : bool) (n : nat) (x : Z) : list Z :=
  match n with
  | O => []
  | S m => x :: (if fails fl x then (if try then unfold_vals f fl try m 0 else []) else unfold_vals f fl try m (fapply f x))
  end.
Fixpoint unfold_errs (f : fcode) (fl : failcode) (try : bool) (n : nat) (x : Z) : list Z :=
  match n with
  | O => []
  | S m => if fails fl x then err_of x :: (if try then unfold_errs f fl try m 0 else [])
           else unfold_errs f fl try m (fapply f x)
  end.

(* Emit: indices 0,1,2,.. ; (index, value) of the successes, errors of the failures; fail-fast stops at the first failure *)
Fixpoint emit_idx (fl : failcode) (try : bool) (fuel : nat) (i : Z) : list Z :=
  match fuel with
  | O => []
  | S m => if fails fl i then (if try then emit_idx fl try m (i + 1) else []) else i :: emit_idx fl try m (i + 1)
  end.
Fixpoint emit_errs (fl : failcode) (try : bool) (fuel : nat) (i : Z) : list Z :=
  match fuel with
  | O => []
  | S m => if fails fl i then err_of i :: (if try then emit_errs fl try m (i + 1) else []) else emit_errs fl try m (i + 1)
  end.

Definition gen_vals (k : nat) (n : nat) : list Z :=
  match st, k with
  | SUnfold seed f fl t, 0%nat => unfold_vals f fl t n seed
  | SUnfold seed f fl t, _ => unfold_errs f fl t n seed
  | SEmit _ f fl try, 0%nat => map (fapply f) (emit_idx fl try n 0)
  | SEmit _ f fl try, _ => emit_errs fl try n 0
  | _, _ => []
  end.
Definition is_gen : bool := match st with SUnfold _ _ _ _ | SEmit _ _ _ _ => true | _ => false end.
(* does the generator end by itself (fail-fast failure reachable within the explored horizon) ? *)
Definition gen_budget (k : nat) : nat := (4 * length (rcvd_on k ms) + 12)%nat.

(* ---------- join: origin of a value (input i carries values in [100 i - 50, 100 i + 50) ) ---------- *)
Definition origin (v : Z) : nat := Z.to_nat ((v + 50) / 100).
Definition proj (i : nat) (l : list Z) : list Z := filter (fun v => Nat.eqb (origin v) i) l.

(* what output k may deliver: [prefix_ok] always; [complete] once the run is over without cancel *)
Definition inner_stage : stage_code := match st with SFork s _ _ => s | s => s end.
Definition expected (k : nat) : list Z :=
  if is_gen then gen_vals k (gen_budget k) else image inner_stage k (sent_on 0 ms).

Definition prefix_ok (k : nat) : bool :=
  match st with
  | SJoin n => forallb (fun i => is_prefix (proj i (rcvd_on k ms)) (sent_on i ms)) (seq 0 n)
               && Nat.eqb (length (rcvd_on k ms)) (fold_right Nat.add 0%nat (map (fun i => length (proj i (rcvd_on k ms))) (seq 0 n)))
  | _ => is_prefix (rcvd_on k ms) (expected k)
  end.
Definition complete (k : nat) : bool :=
  match st with
  | SJoin n => forallb (fun i => lz_eqb (proj i (rcvd_on k ms)) (sent_on i ms)) (seq 0 n)
  | _ => lz_eqb (rcvd_on k ms) (expected k)
  end.

(* ---------- multisets ---------- *)
Fixpoint insertz (x : Z) (l : list Z) : list Z :=
  match l with [] => [x] | y :: r => if Z.leb x y then x :: l else y :: insertz x r end.
Definition sortz (l : list Z) : list Z := fold_right insertz [] l.
Fixpoint remove1 (x : Z) (l : list Z) : option (list Z) :=
  match l with [] => None | y :: r => if Z.eqb x y then Some r else option_map (cons y) (remove1 x r) end.
Fixpoint submset (a b : list Z) : bool :=
  match a with [] => true | x :: r => match remove1 x b with Some b' => submset r b' | None => false end end.
Definition perm_eqb (a b : list Z) : bool := lz_eqb (sortz a) (sortz b).

(* ---------- user-function calls ---------- *)
Definition has_fun : bool :=
  match inner_stage with
  | SMap _ _ _ | SFMap _ _ _ | SFilter _ | SPartition _ | STakeWhile _ | SForEach => true
  | _ => false
  end.
(* the elements a completed sequential run applies its function to, in order *)
Definition calls_expected : list Z :=
  let xs := sent_on 0 ms in
  match inner_stage with
  | SMap _ fl false | SFMap _ fl false =>
      before_fail fl xs ++ match first_fail fl xs with Some x => [x] | None => [] end
  | STakeWhile pd =>
      let tw := take_while (papply pd) xs in
      tw ++ firstn 1 (skipn (length tw) xs)
  | SStdErr => filter (fun x => negb (Z.eqb x 0)) xs      (* the non-nil errors are logged, in order *)
  | _ => if has_fun then xs else []
  end.

(* ---------- C05 ---------- *)
Definition c05_ok : bool :=
  negb (crashed c) &&
  (if cancelled_run then true else
   forallb prefix_ok (seq 0 nobs) &&
   (if inputs_closed then
      outputs_closed ms && forallb complete (seq 0 nobs) && lz_eqb (calls c) calls_expected
    else true) &&
   match st with
   | STake n => Z.leb (Z.of_nat (length (sent_on 0 ms))) (Z.max n 0 + Z.of_nat icap0)   (* no more than n elements consumed *)
   | _ => true
   end).

(* ---------- C06 ---------- *)
Definition is_throttle : bool := match st with SThrottle _ _ => true | _ => false end.
Definition c06_ok : bool :=
  negb (crashed c) &&
  forallb prefix_ok (seq 0 nobs) &&
  (* inputs closed and outputs drained: all closed (they are) and every goroutine gone (the pacer may stay until cancel) *)
  (if inputs_closed && outputs_closed (before_end ms)
   then Nat.leb live_at_end (if is_throttle && negb cancelled_run then 1 else 0) else true) &&
  (* without cancel, closing the inputs and draining leads to closure *)
  (if negb cancelled_run && inputs_closed && negb (N.eqb (sched c) 3) && negb (Nat.eqb nin 0)
   then outputs_closed ms else true) &&
  (* a Join of no inputs closes its output at once (nothing to wait for), cancelled or not *)
  (match st with SJoin 0 => outputs_closed ms | _ => true end) &&
  (* cancel + inputs closed: everything exits and closes, with or without receives *)
  (if cancelled_run && inputs_closed && (N.eqb (sched c) 3 || outputs_closed (before_end ms))
   then Nat.eqb live_at_end 0 && outputs_closed ms else true).

(* ---------- C07 ---------- *)
(* fail-fast: once the error has been received the goroutine has returned and closed both channels - "closes both
   channels without processing anything further", whether the input is closed or not: no receive blocks any more *)
Fixpoint no_block_after_err (seen : bool) (l : list (move * outcome)) : bool :=
  match l with
  | [] => true
  | (MRecv 1, OVal _) :: r => no_block_after_err true r
  | (MRecv _, OBlocked) :: r => negb seen && no_block_after_err seen r
  | _ :: r => no_block_after_err seen r
  end.
Definition failfast_stage : bool :=
  match st with SMap _ _ false | SFMap _ _ false | SUnfold _ _ _ false | SEmit _ _ _ false => true | _ => false end.
Definition c07_ok : bool :=
  (if failfast_stage then no_block_after_err false ms else true) &&
  negb (crashed c) &&
  forallb prefix_ok (seq 0 nobs) &&
  (if cancelled_run then true else
   if is_gen then
     (* a fail-fast generator ends by itself after its first failure: exactly one error *)
     (if outputs_closed ms then forallb complete (seq 0 nobs) && negb is_try else true)
   else if inputs_closed || (negb is_try && match first_fail the_fail (sent_on 0 ms) with Some _ => true | None => false end) then
     (* end of input, or a fail-fast failure among the elements handed over: the stage ends *)
     outputs_closed ms && forallb complete (seq 0 nobs) && lz_eqb (calls c) calls_expected
   else true) &&
  (* StdErr reads whatever is sent (no send ever stays blocked - judged by the trace acceptance), logs a
     sub-sequence in order while it runs, and is gone once its channel is closed - cancelled or not *)
  match st with
  | SStdErr => is_prefix (calls c) calls_expected &&
               (if inputs_closed then Nat.eqb live_at_end 0 && lz_eqb (calls c) calls_expected else true)
  | _ => true
  end.

(* ---------- C09 ---------- *)
Fixpoint nodupz (l : list Z) : bool :=
  match l with [] => true | x :: r => negb (existsb (Z.eqb x) r) && nodupz r end.
(* fail-fast (Lift) inside a fork stage with a failing element among those handed over: which elements are still
   processed after the first failure depends on the schedule, so the deliveries are only bounded by what the
   try-and-continue variant would deliver (each result / error at most once), at most one error per worker *)
Definition fork_failfast : bool :=
  match st with
  | SFork (SMap _ fl false) _ _ | SFork (SFMap _ fl false) _ _ =>
      match first_fail fl (sent_on 0 ms) with Some _ => true | None => false end
  | _ => false
  end.
Definition try_variant (s : stage_code) : stage_code :=
  match s with SMap f fl _ => SMap f fl true | SFMap m fl _ => SFMap m fl true | s' => s' end.
Definition fork_par : nat := match st with SFork _ n _ => n | _ => 1%nat end.
Definition c09_bound (k : nat) : list Z :=
  if fork_failfast then image (try_variant inner_stage) k (sent_on 0 ms) else expected k.
(* gated runs (every call of the user function parks until the driver releases it), no cancel: an output is seen closed
   only when every element handed over has been released - "outputs are closed only after every worker has finished",
   and a worker is not finished while its call is in flight *)
Fixpoint closed_after_releases (sent released : nat) (l : list (move * outcome)) : bool :=
  match l with
  | [] => true
  | (MSend _ _, ODone) :: r => closed_after_releases (S sent) released r
  | (MRelease _, _) :: r => closed_after_releases sent (S released) r
  | (MRecv _, OClosed) :: r => Nat.eqb sent released && closed_after_releases sent released r
  | _ :: r => closed_after_releases sent released r
  end.
Definition fork_gated : bool := match st with SFork _ _ g => g | _ => false end.

Definition c09_ok : bool :=
  (if fork_gated && has_fun && negb cancelled_run && negb fork_failfast then closed_after_releases 0 0 ms else true) &&
  negb (crashed c) &&
  forallb (fun k => submset (rcvd_on k ms) (c09_bound k)) (seq 0 nobs) &&
  (if fork_failfast then Nat.leb (length (rcvd_on 1 ms)) fork_par else true) &&
  (if has_fun then submset (calls c) (sent_on 0 ms) && nodupz (calls c) else true) &&
  (if negb cancelled_run && inputs_closed then
     outputs_closed ms &&
     (if fork_failfast then negb (Nat.eqb (length (rcvd_on 1 ms)) 0)
      else forallb (fun k => perm_eqb (rcvd_on k ms) (expected k)) (seq 0 nobs) &&
           (if has_fun then perm_eqb (calls c) (sent_on 0 ms) else true))
   else true) &&
  (if inputs_closed && outputs_closed (before_end ms) then Nat.eqb live_at_end 0 else true) &&
  (if cancelled_run && inputs_closed && outputs_closed (before_end ms) then outputs_closed ms else true) &&
  (* cancel + input closed + every in-flight call released: everything exits and closes although nobody receives *)
  (if cancelled_run && inputs_closed && N.eqb (sched c) 3 then Nat.eqb live_at_end 0 && outputs_closed ms else true).

(* ---------- C11 ---------- *)
Definition emit_params : option (N * fcode * failcode * bool) :=
  match st with SEmit fr f fl t => Some (fr, f, fl, t) | _ => None end.
(* the j-th received value is the one computed from index (nth j idxs): not available before (idx+1) ticks *)
Definition c11_timing : bool :=
  match emit_params with
  | Some (fr, f, fl, t) =>
      let rt := recv_times 0 in
      let idxs := emit_idx fl t (gen_budget 0) 0 in
      forallb (fun j => match nth_error rt j, nth_error idxs j with
                        | Some (tm, _), Some i => N.leb (fr * Z.to_N (i + 1)) tm
                        | _, _ => true end) (seq 0 (length rt))
  | None => true
  end.
(* consumer that keeps up (sleep one period, receive twice): exactly one value per tick, on time *)
Fixpoint keeps_up (l : list (move * outcome)) : bool :=
  match l with
  | (MSleep _, _) :: (MRecv 0, OVal _) :: (MRecv 0, OBlocked) :: r => keeps_up r
  | (MSleep _, _) :: _ => false
  | _ => true
  end.
(* "Emit calls its function at most once per frequency tick": the virtual times of the calls are at least one
   period apart, the first one not before one period *)
Fixpoint paced (fr prev : N) (l : list N) : bool :=
  match l with [] => true | t :: r => N.leb (prev + fr) t && paced fr t r end.
Definition c11_call_pace : bool :=
  match emit_params with Some (fr, _, _, _) => paced fr 0 (ctimes c) | None => true end.
Definition c11_ok : bool :=
  negb (crashed c) &&
  forallb prefix_ok (seq 0 nobs) &&
  c11_timing && c11_call_pace &&
  (if N.eqb (sched c) 1 then keeps_up ms else true) &&
  (if cancelled_run && (outputs_closed (before_end ms) || N.eqb (sched c) 3) then Nat.eqb live_at_end 0 else true) &&
  (if cancelled_run then outputs_closed ms else true).

(* ---------- C12 ---------- *)
Fixpoint closes_before_closed (l : list (move * outcome)) (open : nat) : bool :=
  match l with
  | [] => true
  | (MCloseIn _, ODone) :: r => closes_before_closed r (open - 1)
  | (MRecv 0, OClosed) :: r => Nat.eqb open 0
  | _ :: r => closes_before_closed r open
  end.
(* once every input is closed and everything handed over has been received, the output is closed: a receive does
   not block any more (it would, if the Join waited for anything but its own inputs) *)
Fixpoint no_block_when_done (open sent rcvd : nat) (l : list (move * outcome)) : bool :=
  match l with
  | [] => true
  | (MSend _ _, ODone) :: r => no_block_when_done open (S sent) rcvd r
  | (MCloseIn _, ODone) :: r => no_block_when_done (open - 1) sent rcvd r
  | (MRecv 0, OVal _) :: r => no_block_when_done open sent (S rcvd) r
  | (MRecv 0, OBlocked) :: r => negb (Nat.eqb open 0 && Nat.eqb sent rcvd) && no_block_when_done open sent rcvd r
  | _ :: r => no_block_when_done open sent rcvd r
  end.
Definition c12_ok : bool :=
  (if cancelled_run then true else no_block_when_done nin 0 0 ms) &&
  negb (crashed c) &&
  prefix_ok 0 &&
  (if cancelled_run then true else
   closes_before_closed ms nin &&
   (if inputs_closed then outputs_closed ms && complete 0 else true)).

(* ---------- C13 ---------- *)
Definition throttle_params : option (nat * N) := match st with SThrottle o d => Some (o, d) | _ => None end.
Definition c13_window : bool :=
  match throttle_params with
  | Some (ops, iv) =>
      let rt := map fst (recv_times 0) in
      let rt := match cancel_time with Some tc => filter (fun t => N.ltb t tc) rt | None => rt end in
      forallb (fun t0 => Nat.leb (length (filter (fun t => N.leb t0 t && N.ltb t (t0 + iv)) rt)) (2 * ops + 1 + icap0)) rt
  | None => true
  end.
(* steady schedule: input always available, consumer always ready *)
Definition c13_steady : bool :=
  match throttle_params with
  | Some (ops, iv) =>
      let rt := map fst (recv_times 0) in
      forallb (fun i => match nth_error rt i with
                        | Some t => let lo := (N.of_nat (i / ops) * iv)%N in N.leb lo t && N.leb t (lo + iv)
                        | None => true end) (seq 0 (length rt))
  | None => true
  end.
Definition c13_ok : bool :=
  negb (crashed c) &&
  prefix_ok 0 &&
  c13_window &&
  (if N.eqb (sched c) 5 then c13_steady else true) &&
  (if negb cancelled_run && inputs_closed then outputs_closed ms && complete 0 else true).

End Oracles.

Definition stage_tag (s : stage_code) : N :=
  match s with
  | SMap _ _ _ => 1 | SFMap _ _ _ => 2 | SFilter _ => 3 | SPartition _ => 4 | STake _ => 5 | STakeWhile _ => 6
  | SForEach => 7 | SVoid => 8 | SFold _ => 9 | SJoin _ => 10 | SUnfold _ _ _ _ => 11 | SEmit _ _ _ _ => 12
  | SThrottle _ _ => 13 | SFork _ _ _ => 14 | SSeq _ => 15 | SStdErr => 16
  end%N.
Definition digest (cs : list case) : list (N * N) :=
  map (fun t => (t, count_where (fun c => N.eqb (stage_tag (stage (pc c))) t) cs)) (map N.of_nat (seq 1 16)) ++
  (* tag 100: traces on which the acceptance exploration ran out of fuel before finding a run (inconclusive) *)
  [(100%N, count_where (fun c => negb (N.eqb (sched c) 9) && inconclusive (N.eqb (sched c) 6) (pc c)) cs)].
