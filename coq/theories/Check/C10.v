(* C10 checker: fork.Fold on coded commutative monoids. Executable, no proofs.
   case  = monoid code, par, how the input was fed, the input, what the result channel of fork.Fold delivered
           (+ whether it was then closed), what pipe.Fold delivered, what a plain Go loop computed.
   mismatches = the machine of Pipe/ForkFold.v run under two different schedules/distributions
                (its answer does not depend on them: ForkFoldProofs.fork_fold_eq) vs the observation;
   violations = the property itself over the observation: exactly one value, equal to the left fold
                (which is also what pipe.Fold delivered), then closed. *)
From Coq Require Import List ZArith NArith Bool.
From Golem Require Export Base.CheckLib.
From Golem Require Import Pipe.ForkFold.
Import ListNotations.
Open Scope Z_scope.

Definition min_int : Z := -9223372036854775808.
Definition max_int : Z := 9223372036854775807.

(* monoid codes: 0 sum, 1 product, 2 max, 3 min, 4 bitwise and, 5 set union (bitmask or) *)
Definition m_combine (m : N) : Z -> Z -> Z :=
  match m with
  | 0%N => Z.add | 1%N => Z.mul | 2%N => Z.max | 3%N => Z.min | 4%N => Z.land | _ => Z.lor
  end.
Definition m_empty (m : N) : Z :=
  match m with
  | 0%N => 0 | 1%N => 1 | 2%N => min_int | 3%N => max_int | 4%N => -1 | _ => 0
  end.

Record case := mk {
  monoid : N; par : N; mode : N; input : list Z;
  observed : list Z; closed : bool;          (* fork.Fold: values delivered, then closed? *)
  pfold : list Z; pclosed : bool;            (* pipe.Fold on the same input *)
  loop : Z                                   (* acc := Empty(); for x: acc = Combine(acc, x)  in Go *)
}.

(* 1 .. n as a list (volume cases name their input by its length) *)
Fixpoint zfrom (fuel : nat) (z : Z) : list Z := match fuel with O => [] | S f => z :: zfrom f (z + 1) end.
Definition upto (n : N) : list Z := zfrom (N.to_nat n) 1.

Definition in_int64 (z : Z) : bool := (min_int <=? z) && (z <=? max_int).
Definition left_fold (c : case) : Z := fold_left (m_combine (monoid c)) (input c) (m_empty (monoid c)).
(* every intermediate accumulator of the left fold fits int64 (so Z and Go's int agree) *)
Fixpoint fits (f : Z -> Z -> Z) (l : list Z) (a : Z) : bool :=
  in_int64 a && match l with [] => true | x :: r => in_int64 x && fits f r (f a x) end.

(* ---- the property as an oracle over observations ---- *)
Definition oracle (c : case) : bool :=
  lz_eqb (observed c) [left_fold c] && closed c          (* exactly one value = the left fold, then closed *)
  && lz_eqb (pfold c) (observed c).                      (* ... which is pipe.Fold's answer *)
Definition violations (cs : list case) : list N := idx_where (fun c => negb (oracle c)) 0%N cs.

(* ---- the model ---- *)
Definition run_model (c : case) (d : nat -> nat) (order : list nat) : option (list Z * bool) :=
  let p := N.to_nat (par c) in
  let f := m_combine (monoid c) in
  let e := m_empty (monoid c) in
  match exec f e e p (sched p d order (input c)) with
  | Some s => Some (rcvd s, seen_closed s && negb (panic s))
  | None => None
  end.
Definition agree (o : option (list Z * bool)) (c : case) : bool :=
  match o with Some (l, cl) => lz_eqb l (observed c) && Bool.eqb cl (closed c) | None => false end.
Definition model_ok (c : case) : bool :=
  let p := N.to_nat (par c) in
  if N.eqb (mode c) 3 then
    (* volume runs (1..N, N up to 200000): the machine is not executed - its answer is the left fold whatever the
       schedule (ForkFoldProofs.fork_fold_eq) - only the fold itself is computed *)
    (0 <? p)%nat && lz_eqb (observed c) [left_fold c] && closed c
  else
  (0 <? p)%nat
  && fits (m_combine (monoid c)) (input c) (m_empty (monoid c))       (* harness precondition *)
  && Z.eqb (loop c) (left_fold c)                                     (* Go's arithmetic = Z arithmetic here *)
  && agree (run_model c (fun i => Nat.modulo i p) (seq 0 p)) c        (* round robin, hand in in order *)
  && agree (run_model c (fun _ => (p - 1)%nat) (rev (seq 0 p))) c.    (* one worker takes all, reverse order *)
Definition mismatches (cs : list case) : list N := idx_where (fun c => negb (model_ok c)) 0%N cs.

Definition digest (cs : list case) : list (N * N) :=
  map (fun m => (m, count_where (fun c => N.eqb (monoid c) m) cs)) [0%N; 1%N; 2%N; 3%N; 4%N; 5%N].
