//go:build verif

// Staged next to a COPY of /repo/internal/maplike/skiplist by tools/runner/props/c18.py
// (never written into /repo). Gives the correspondence harness a skip list whose random
// source it controls, and read access to the probability table the list really uses.
// The private fields are found by their TYPE (the only field of type rand.Source, the only
// field of type []float64), not by name: renaming them, or the list type, is harmless.
package skiplist

import (
	"fmt"
	"math/rand"
	"reflect"
	"unsafe"

	"github.com/fogfish/golem/maplike"
	"github.com/fogfish/golem/pure/ord"
)

func verifField(m any, t reflect.Type) reflect.Value {
	v := reflect.ValueOf(m)
	for v.Kind() == reflect.Pointer || v.Kind() == reflect.Interface {
		v = v.Elem()
	}
	if v.Kind() != reflect.Struct {
		panic(fmt.Sprintf("verif hook: the skip list is a %v, not a struct", v.Kind()))
	}
	var found reflect.Value
	n := 0
	for i := 0; i < v.NumField(); i++ {
		if f := v.Field(i); f.Type() == t {
			found = f
			n++
		}
	}
	if n != 1 {
		panic(fmt.Sprintf("verif hook: %d fields of type %v in %v (expected exactly one)", n, t, v.Type()))
	}
	return reflect.NewAt(found.Type(), unsafe.Pointer(found.UnsafeAddr())).Elem()
}

// NewWithSource is New with the random source replaced.
func NewWithSource[K, V any](compare ord.Ord[K], src rand.Source) maplike.MapLike[K, V] {
	list := New[K, V](compare)
	verifField(list, reflect.TypeOf((*rand.Source)(nil)).Elem()).Set(reflect.ValueOf(src))
	return list
}

// VerifTable returns a copy of the probability table the node-height draw reads.
func VerifTable[K, V any](m maplike.MapLike[K, V]) []float64 {
	tab := verifField(m, reflect.TypeOf([]float64(nil))).Interface().([]float64)
	return append([]float64(nil), tab...)
}
