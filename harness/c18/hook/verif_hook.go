//go:build verif

// Staged next to a COPY of /repo/internal/maplike/skiplist by tools/runner/props/c18.py
// (never written into /repo). Gives the correspondence harness a skip list whose random
// source it controls, and read access to the level table the list really uses.
package skiplist

import (
	"math/rand"

	"github.com/fogfish/golem/maplike"
	"github.com/fogfish/golem/pure/ord"
)

// NewWithSource is New with the random source replaced.
func NewWithSource[K, V any](compare ord.Ord[K], src rand.Source) maplike.MapLike[K, V] {
	list := New[K, V](compare).(*tSkipList[K, V])
	list.random = src
	return list
}

// VerifTable returns list.levels and a copy of list.p (the probability table mkNode reads).
func VerifTable[K, V any](m maplike.MapLike[K, V]) (int, []float64) {
	list := m.(*tSkipList[K, V])
	return list.levels, append([]float64(nil), list.p...)
}
