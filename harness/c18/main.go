// Harness for C18: drives the real skip list (a staged copy of /repo/internal/maplike) through
// operation histories, choosing the height of every new node through an injected rand.Source,
// and prints one JSON case per line: the history plus, after every operation, its answer, Get of
// every key of the universe and the parsed String() (keys in order, finger keys / nil per node).
//
// VERIF_SEED seeds the one PRNG, VERIF_TIER=quick|thorough sizes the run,
// VERIF_REPLAY=<file of case lines> re-runs exactly the recorded histories (same Int63 values).
package main

import (
	"bufio"
	"encoding/json"
	"fmt"
	"math/rand"
	"os"
	"sort"
	"strconv"
	"strings"
	"time"

	"github.com/fogfish/golem/maplike"
	"github.com/fogfish/golem/maplike/skiplist"
	"github.com/fogfish/golem/pure/ord"
)

type Entry struct {
	K int64    `json:"k"`
	F []*int64 `json:"f"`
}

type Step struct {
	Op    string `json:"op"` // put | get | remove
	K     int64  `json:"k"`
	V     int64  `json:"v"`
	Want  int    `json:"want"`  // height the harness asked for (0: none / hostile value)
	Int63 int64  `json:"int63"` // what the injected source returns if mkNode asks
	// observed
	Drew  bool    `json:"drew"` // mkNode consumed the random value
	Ht    int     `json:"ht"`   // fingers of the node holding k after a Put that drew (0: not printed)
	Ans   int64   `json:"ans"`
	Gets  []int64 `json:"gets"`
	Print []Entry `json:"print"`
	Panic string  `json:"panic,omitempty"` // the library panicked in this step: the history ends here
}

type Case struct {
	Gen      string   `json:"gen"`
	KeyType  string   `json:"keytype"` // int | string
	Order    int      `json:"order"`   // 0 natural, 1 reversed
	Levels   int      `json:"levels"`  // fingers of the head as printed by the empty list
	Universe []int64  `json:"universe"`
	Names    []string `json:"names,omitempty"` // string keys: Names[i] has code Universe[i] (its rank)
	Steps    []Step   `json:"steps"`
}

// ---------------------------------------------------------------------------------------------
// injected random source
// ---------------------------------------------------------------------------------------------
type scripted struct {
	next  int64
	calls int
}

func (s *scripted) Int63() int64 { s.calls++; return s.next }
func (s *scripted) Seed(int64)   {}

// the level mkNode's loop computes from an Int63 value (before any clamp)
func levelOf(v int64, levels int, tab []float64) int {
	p := float64(v) / (1 << 63)
	l := 0
	for l < levels && l < len(tab) && p < tab[l] {
		l++
	}
	return l
}

func tabAt(tab []float64, i int) float64 {
	if i < len(tab) {
		return tab[i]
	}
	return 0
}

// bounds [lo, hi] of the Int63 values that make mkNode choose height h (1..levels)
func boundsFor(h, levels int, tab []float64) (int64, int64) {
	lo := int64(tabAt(tab, h) * (1 << 63))
	for i := 0; i < 4096 && levelOf(lo, levels, tab) != h; i++ {
		lo++
	}
	var hi int64
	if h == 1 {
		hi = (1 << 63) - 2048
	} else {
		hi = int64(tabAt(tab, h-1)*(1<<63)) - 1
	}
	for i := 0; i < 4096 && levelOf(hi, levels, tab) != h; i++ {
		hi--
	}
	if levelOf(lo, levels, tab) != h || levelOf(hi, levels, tab) != h || hi < lo {
		fmt.Fprintf(os.Stderr, "c18: cannot find an Int63 value for height %d (levels %d)\n", h, levels)
		os.Exit(2)
	}
	return lo, hi
}

// ---------------------------------------------------------------------------------------------
// running one case on the real code
// ---------------------------------------------------------------------------------------------
type revString struct{}

func (revString) Compare(a, b string) ord.Ordering { return ord.String.Compare(b, a) }

func parsePrint(s string, parse func(string) (int64, error)) ([]Entry, error) {
	lines := strings.Split(strings.TrimRight(s, "\n"), "\n")
	if len(lines) < 2 || !strings.HasPrefix(lines[0], "--- SkipList") {
		return nil, fmt.Errorf("unexpected String() header %q", lines[0])
	}
	out := []Entry{}
	for _, ln := range lines[1:] {
		if !strings.HasPrefix(ln, "{") || !strings.HasSuffix(ln, "}") {
			return nil, fmt.Errorf("unexpected String() line %q", ln)
		}
		parts := strings.SplitN(ln[1:len(ln)-1], "\t| ", 2)
		if len(parts) != 2 {
			return nil, fmt.Errorf("unexpected String() line %q", ln)
		}
		k, err := parse(parts[0])
		if err != nil {
			return nil, err
		}
		e := Entry{K: k, F: []*int64{}}
		for _, f := range strings.Fields(parts[1]) {
			if f == "nil" {
				e.F = append(e.F, nil)
				continue
			}
			x, err := parse(f)
			if err != nil {
				return nil, err
			}
			e.F = append(e.F, &x)
		}
		out = append(out, e)
	}
	return out, nil
}

func runOn[K any](c *Case, o ord.Ord[K], toK func(int64) K, parse func(string) (int64, error)) error {
	src := &scripted{}
	list := skiplist.NewWithSource[K, int64](o, src)
	str := func() ([]Entry, error) {
		return parsePrint(list.(fmt.Stringer).String(), parse)
	}
	p0, err := str()
	if err != nil {
		return err
	}
	c.Levels = len(p0[0].F)
	step := func(st *Step) error {
		src.next = st.Int63
		before := src.calls
		switch st.Op {
		case "put":
			list.Put(toK(st.K), st.V)
			st.Ans = 0
		case "get":
			st.Ans = list.Get(toK(st.K))
		case "remove":
			st.Ans = list.Remove(toK(st.K))
		default:
			return fmt.Errorf("unknown op %q", st.Op)
		}
		st.Drew = src.calls != before
		st.Gets = make([]int64, len(c.Universe))
		for j, k := range c.Universe {
			st.Gets[j] = list.Get(toK(k))
		}
		st.Print, err = str()
		if err != nil {
			return err
		}
		st.Ht = 0
		if st.Op == "put" && st.Drew {
			for _, e := range st.Print[1:] {
				if e.K == st.K {
					st.Ht = len(e.F)
					break
				}
			}
		}
		return nil
	}
	for i := range c.Steps {
		st := &c.Steps[i]
		var stepErr error
		finished := make(chan struct{})
		go func() {
			defer close(finished)
			// a panic of the library is an observation (no ordinary map panics), not a failure of the harness
			defer func() {
				if r := recover(); r != nil {
					st.Panic = fmt.Sprint(r)
					st.Gets = []int64{}
					st.Print = []Entry{}
				}
			}()
			stepErr = step(st)
		}()
		select {
		case <-finished:
		case <-time.After(5 * time.Second):
			// ... and so is an operation that never returns (a lock that was not released, a cycle in the list)
			c.Steps = append([]Step(nil), c.Steps[:i+1]...)
			c.Steps[i].Panic = "the operation did not return within 5 s"
			c.Steps[i].Gets = []int64{}
			c.Steps[i].Print = []Entry{}
			return nil
		}
		if stepErr != nil {
			return stepErr
		}
		if st.Panic != "" {
			c.Steps = c.Steps[:i+1]
			return nil
		}
	}
	return nil
}

func run(c *Case) error {
	switch c.KeyType {
	case "int":
		var o ord.Ord[int] = ord.Int
		if c.Order == 1 {
			o = ord.From[int](func(a, b int) ord.Ordering { return ord.Int.Compare(b, a) })
		}
		return runOn[int](c, o, func(k int64) int { return int(k) },
			func(s string) (int64, error) { return strconv.ParseInt(s, 10, 64) })
	case "string":
		var o ord.Ord[string] = ord.String
		if c.Order == 1 {
			o = revString{}
		}
		name := map[int64]string{}
		code := map[string]int64{"": 0} // the head prints the zero value
		for i, k := range c.Universe {
			name[k] = c.Names[i]
			code[c.Names[i]] = k
		}
		return runOn[string](c, o, func(k int64) string { return name[k] },
			func(s string) (int64, error) {
				if x, ok := code[s]; ok {
					return x, nil
				}
				return 0, fmt.Errorf("printed key %q is not in the universe", s)
			})
	}
	return fmt.Errorf("unknown key type %q", c.KeyType)
}

// ---------------------------------------------------------------------------------------------
// generators
// ---------------------------------------------------------------------------------------------
type G struct {
	rng    *rand.Rand
	levels int
	tab    []float64
	val    int64
}

func (g *G) value() int64 {
	g.val++
	v := g.val*7 + 1
	if g.rng.Intn(5) == 0 {
		v = -v
	}
	return v
}

// an Int63 value for height h: a bound of the interval or a random interior point
func (g *G) int63(h int, random bool) int64 {
	lo, hi := boundsFor(h, g.levels, g.tab)
	if !random {
		return lo
	}
	switch g.rng.Intn(4) {
	case 0:
		return lo
	case 1:
		return hi
	}
	return lo + g.rng.Int63n(hi-lo+1)
}

func (g *G) put(c *Case, k int64, h int) {
	c.Steps = append(c.Steps, Step{Op: "put", K: k, V: g.value(), Want: h, Int63: g.int63(h, true)})
}
func (g *G) putRaw(c *Case, k int64, v63 int64) {
	c.Steps = append(c.Steps, Step{Op: "put", K: k, V: g.value(), Want: 0, Int63: v63})
}
func (g *G) get(c *Case, k int64)    { c.Steps = append(c.Steps, Step{Op: "get", K: k}) }
func (g *G) remove(c *Case, k int64) { c.Steps = append(c.Steps, Step{Op: "remove", K: k}) }

// heights distributed like the real ones (ratio 1/e), capped
func (g *G) geomHeight() int {
	h := 1
	for h < g.levels && g.rng.Float64() < 0.3679 {
		h++
	}
	return h
}

var stringPool = []string{"a", "ab", "abc", "b", "ba", "Z", "zz", "10", "9", "-1", "_", "k1", "k10", "k2", "é", "~",
	"A", "B", "aa", "aaa", "m", "n", "o", "p", "q", "r", "s", "t", "u", "v", "w", "x"}

func (g *G) universe(c *Case, n int) {
	if c.KeyType == "string" {
		if n > len(stringPool) {
			n = len(stringPool)
		}
		perm := g.rng.Perm(len(stringPool))[:n]
		names := make([]string, n)
		for i, p := range perm {
			names[i] = stringPool[p]
		}
		sort.Strings(names) // Go's byte order = ord.String
		c.Names = names
		c.Universe = make([]int64, n)
		for i := range names {
			c.Universe[i] = int64(i + 1)
		}
		return
	}
	seen := map[int64]bool{}
	keys := []int64{}
	add := func(k int64) {
		if !seen[k] && len(keys) < n {
			seen[k] = true
			keys = append(keys, k)
		}
	}
	if g.rng.Intn(2) == 0 {
		add(0) // the head's key is the zero value too
	}
	if g.rng.Intn(4) == 0 {
		add(-1 << 31)
		add(1<<31 - 1)
	}
	for len(keys) < n {
		switch g.rng.Intn(3) {
		case 0:
			add(int64(g.rng.Intn(2*n+2) - n))
		case 1:
			add(int64(g.rng.Intn(2001) - 1000))
		default:
			add(int64(g.rng.Intn(1<<30)) - 1<<29)
		}
	}
	sort.Slice(keys, func(i, j int) bool { return keys[i] < keys[j] })
	c.Universe = keys
}

func (g *G) pick(c *Case) int64 { return c.Universe[g.rng.Intn(len(c.Universe))] }

func liveKeys(live map[int64]int) []int64 {
	ks := []int64{}
	for k := range live {
		ks = append(ks, k)
	}
	sort.Slice(ks, func(i, j int) bool { return ks[i] < ks[j] })
	return ks
}

var hostile = []int64{1<<63 - 1, 1<<63 - 2, 1<<63 - 256, 1<<63 - 511, 1<<63 - 512, 1<<63 - 513, 1<<63 - 1024, 1<<63 - 1025}

func (g *G) randomCase(idx, maxLen int, sizes []int) *Case {
	c := &Case{}
	switch idx % 4 {
	case 0:
		c.KeyType, c.Order = "int", 0
	case 1:
		c.KeyType, c.Order = "int", 1
	case 2:
		c.KeyType, c.Order = "string", 0
	case 3:
		c.KeyType, c.Order = "string", 1
	}
	scen := (idx / 4) % 8
	g.universe(c, sizes[g.rng.Intn(len(sizes))])
	n := maxLen/2 + g.rng.Intn(maxLen/2+1)
	live := map[int64]int{} // key -> wanted height (the generator's own book-keeping only)
	height := func() int { return g.geomHeight() }
	sorted := append([]int64(nil), c.Universe...)
	if c.Order == 1 {
		for i, j := 0, len(sorted)-1; i < j; i, j = i+1, j-1 {
			sorted[i], sorted[j] = sorted[j], sorted[i]
		}
	}
	mixed := func(steps int, pPut, pRem int) {
		for i := 0; i < steps && len(c.Steps) < n; i++ {
			k := g.pick(c)
			r := g.rng.Intn(100)
			switch {
			case r < pPut:
				h := height()
				g.put(c, k, h)
				if _, ok := live[k]; !ok {
					live[k] = h
				}
			case r < pPut+pRem:
				g.remove(c, k)
				delete(live, k)
			default:
				g.get(c, k)
			}
		}
	}
	switch scen {
	case 0:
		c.Gen = "mixed"
		mixed(n, 50, 25)
	case 1:
		c.Gen = "ascending-inserts"
		for _, k := range sorted {
			if len(c.Steps) < n*2/3 {
				h := height()
				g.put(c, k, h)
				live[k] = h
			}
		}
		mixed(n, 20, 60)
	case 2:
		c.Gen = "descending-inserts"
		for i := len(sorted) - 1; i >= 0; i-- {
			if len(c.Steps) < n*2/3 {
				h := height()
				g.put(c, sorted[i], h)
				live[sorted[i]] = h
			}
		}
		mixed(n, 20, 60)
	case 3:
		c.Gen = "duplicate-inserts"
		few := c.Universe
		if len(few) > 3 {
			few = few[:3]
		}
		for len(c.Steps) < n {
			k := few[g.rng.Intn(len(few))]
			switch g.rng.Intn(6) {
			case 0:
				g.remove(c, k)
				delete(live, k)
			case 1:
				g.get(c, k)
			default:
				g.put(c, k, height())
			}
		}
	case 4:
		c.Gen = "tall-nodes"
		height = func() int {
			switch g.rng.Intn(3) {
			case 0:
				return g.levels
			case 1:
				return 1 + g.rng.Intn(g.levels)
			}
			return g.geomHeight()
		}
		for len(c.Steps) < n {
			mixed(1+g.rng.Intn(6), 80, 5)
			// remove the tallest live node
			best, bh := int64(0), -1
			for _, k := range liveKeys(live) {
				if live[k] > bh {
					best, bh = k, live[k]
				}
			}
			if bh > 0 && len(c.Steps) < n {
				g.remove(c, best)
				delete(live, best)
			}
		}
	case 5:
		c.Gen = "remove-last-first"
		for len(c.Steps) < n {
			mixed(1+g.rng.Intn(5), 85, 0)
			ks := liveKeys(live)
			if len(ks) > 0 && len(c.Steps) < n {
				k := ks[len(ks)-1]
				if g.rng.Intn(3) == 0 {
					k = ks[0]
				}
				g.remove(c, k)
				delete(live, k)
			}
		}
	case 6:
		c.Gen = "absent-keys"
		for len(c.Steps) < n {
			k := g.pick(c)
			if _, ok := live[k]; ok || g.rng.Intn(4) == 0 {
				mixed(1, 40, 40)
				continue
			}
			if g.rng.Intn(2) == 0 {
				g.remove(c, k)
			} else {
				g.get(c, k)
			}
		}
	case 7:
		c.Gen = "hostile-int63"
		for len(c.Steps) < n {
			k := g.pick(c)
			switch g.rng.Intn(4) {
			case 0:
				g.remove(c, k)
			case 1:
				g.put(c, k, height())
			default:
				g.putRaw(c, k, hostile[g.rng.Intn(len(hostile))])
			}
		}
	}
	return c
}

// every history of length n over keys 1..3 with heights 1..3 (Put on a live key: height 1 only,
// the value is not drawn then); limit > 0: a seeded sample of that many
func (g *G) exhaustive(n int, limit int, emit func(*Case)) int {
	type sym struct {
		op string
		k  int64
		h  int
	}
	alpha := []sym{}
	for k := int64(1); k <= 3; k++ {
		for h := 1; h <= 3; h++ {
			alpha = append(alpha, sym{"put", k, h})
		}
		alpha = append(alpha, sym{"remove", k, 0})
	}
	total := 1
	for i := 0; i < n; i++ {
		total *= len(alpha)
	}
	count := 0
	build := func(code int) *Case {
		c := &Case{Gen: fmt.Sprintf("exhaustive-%d", n), KeyType: "int", Order: 0, Universe: []int64{1, 2, 3}}
		live := map[int64]bool{}
		for i := 0; i < n; i++ {
			s := alpha[code%len(alpha)]
			code /= len(alpha)
			if s.op == "put" {
				if live[s.k] && s.h != 1 {
					return nil
				}
				live[s.k] = true
				c.Steps = append(c.Steps, Step{Op: "put", K: s.k, V: int64(10*(i+1)) + s.k, Want: s.h, Int63: g.int63(s.h, false)})
			} else {
				delete(live, s.k)
				c.Steps = append(c.Steps, Step{Op: "remove", K: s.k})
			}
		}
		return c
	}
	if limit <= 0 {
		for code := 0; code < total; code++ {
			if c := build(code); c != nil {
				emit(c)
				count++
			}
		}
		return count
	}
	for tries := 0; count < limit && tries < 50*limit; tries++ {
		if c := build(g.rng.Intn(total)); c != nil {
			if g.rng.Intn(2) == 0 {
				c.Order = 1
			}
			emit(c)
			count++
		}
	}
	return count
}

var hangs int

func main() {
	seed, _ := strconv.ParseInt(os.Getenv("VERIF_SEED"), 10, 64)
	thorough := os.Getenv("VERIF_TIER") == "thorough"
	out := bufio.NewWriterSize(os.Stdout, 1<<20)
	defer out.Flush()
	enc := json.NewEncoder(out)
	emit := func(c *Case) {
		if err := run(c); err != nil {
			out.Flush()
			fmt.Fprintln(os.Stderr, "c18:", err)
			os.Exit(2)
		}
		if err := enc.Encode(c); err != nil {
			fmt.Fprintln(os.Stderr, "c18:", err)
			os.Exit(2)
		}
		if n := len(c.Steps); n > 0 && strings.HasPrefix(c.Steps[n-1].Panic, "the operation did not return") {
			hangs++
			if hangs >= 3 {
				// established; every further history would cost another 5 s
				out.Flush()
				fmt.Fprintln(os.Stderr, "c18: stopping after 3 histories in which an operation never returned")
				os.Exit(0)
			}
		}
	}

	if rp := os.Getenv("VERIF_REPLAY"); rp != "" {
		f, err := os.Open(rp)
		if err != nil {
			fmt.Fprintln(os.Stderr, "c18:", err)
			os.Exit(2)
		}
		sc := bufio.NewScanner(f)
		sc.Buffer(make([]byte, 1<<20), 1<<30)
		for sc.Scan() {
			if strings.TrimSpace(sc.Text()) == "" {
				continue
			}
			var c Case
			if err := json.Unmarshal(sc.Bytes(), &c); err != nil {
				fmt.Fprintln(os.Stderr, "c18:", err)
				os.Exit(2)
			}
			emit(&c)
		}
		return
	}

	probe := skiplist.NewWithSource[int, int64](ord.Int, &scripted{})
	tab := skiplist.VerifTable[int, int64](probe)
	// the number of levels is what the printed head shows
	p0, perr := parsePrint(probe.(fmt.Stringer).String(), func(s string) (int64, error) { return strconv.ParseInt(s, 10, 64) })
	if perr != nil || len(p0) == 0 {
		fmt.Fprintln(os.Stderr, "cannot read the head of an empty list:", perr)
		os.Exit(2)
	}
	levels := len(p0[0].F)
	g := &G{rng: rand.New(rand.NewSource(seed)), levels: levels, tab: tab}
	_ = maplike.MapLike[int, int64](probe)

	// one node of every height the table can produce, inserted in the middle, then removed
	for _, order := range []int{0, 1} {
		c := &Case{Gen: "every-height", KeyType: "int", Order: order, Universe: []int64{-5, 0, 5, 7}}
		g.put(c, -5, 2)
		g.put(c, 7, 3)
		for h := 1; h <= levels; h++ {
			c.Steps = append(c.Steps, Step{Op: "put", K: 5, V: g.value(), Want: h, Int63: g.int63(h, false)})
			g.get(c, 5)
			g.remove(c, 5)
			lo, hi := boundsFor(h, levels, tab)
			c.Steps = append(c.Steps, Step{Op: "put", K: 0, V: g.value(), Want: h, Int63: hi})
			g.remove(c, 0)
			_ = lo
		}
		emit(c)
	}
	// the Int63 values that round to p = 1.0
	for _, order := range []int{0, 1} {
		c := &Case{Gen: "hostile-int63", KeyType: "int", Order: order, Universe: []int64{1, 2, 3}}
		for i, v := range hostile {
			g.putRaw(c, int64(1+i%3), v)
			if i%3 == 2 {
				g.remove(c, 2)
				g.remove(c, 1)
				g.remove(c, 3)
			}
		}
		emit(c)
	}

	if thorough {
		g.exhaustive(5, 0, emit)
		g.exhaustive(7, 3000, emit)
		for i := 0; i < 320; i++ {
			emit(g.randomCase(i, 400, []int{4, 8, 16, 32, 64}))
		}
	} else {
		g.exhaustive(4, 0, emit)
		g.exhaustive(6, 1200, emit)
		for i := 0; i < 64; i++ {
			emit(g.randomCase(i, 60, []int{3, 6, 12, 20}))
		}
	}
}
